import modelx as mx, pandas as pd, tempfile, os, warnings
warnings.simplefilter("ignore")
m = mx.new_model('M'); s = m.new_space('S')
s.new_pandas('x', 'x.csv', pd.Series([1., 2.], name='a'), file_type='csv')
m.update_pandas(s.x, pd.DataFrame({'c': [1., 2.]}))          # a Series replaced by a one-column DataFrame
d = tempfile.mkdtemp(); mx.write_model(m, os.path.join(d, 'm'))
r = mx.read_model(os.path.join(d, 'm'), name='R')
assert isinstance(r.S.x, pd.DataFrame) and list(r.S.x['c']) == [1., 2.], "read back as %s" % type(r.S.x).__name__
print("OK")
