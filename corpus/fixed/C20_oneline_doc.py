import modelx as mx
m = mx.new_model('M'); s = m.new_space('S')
c = s.new_cells('f', formula="def f(x): return 2 * x")
assert c(3) == 6
c.doc = "Twice x."          # a one-line body without a docstring
assert c.doc == "Twice x.", c.doc
assert c(3) == 6
assert c.formula.source == 'def f(x): """Twice x."""; return 2 * x\n', repr(c.formula.source)
c.doc = "Again."
assert c.doc == "Again." and c(4) == 8
print("OK")
