"""In an ItemSpace an auto reference into the base's tree is the corresponding dynamic object,
also when the reference is derived and not relative to its definer.

B.r = T.foo (auto); T(B): T.r is T.foo itself (outside B's tree, so not re-bound relatively to B).
T.parameters: T[1].r must be T[1].foo, exactly as for a reference T.q = T.foo defined in T."""
import modelx as mx

m = mx.new_model()
B = m.new_space("B"); T = m.new_space("T", bases=B); T.new_cells("foo", formula="lambda x: x")
Ch = T.new_space("Ch"); Ch.new_cells("bar", formula="lambda x: x")
O = m.new_space("O"); O.new_cells("qux", formula="lambda x: x")
B.r = T.foo            # auto, derived by T, target inside T
B.s = Ch.bar           # auto, target in a child space of T
B.o = O.qux            # auto, target outside T
B.absref(a=T.foo)      # absolute
T.q = T.foo            # defined in T: always was dynamic
assert T.r is T.foo and T.s is Ch.bar
T.parameters = ("i",)
it = T[1]
assert it.q is it.foo
assert it.r is it.foo, "T[1].r (derived auto reference to T.foo, inside the tree of T) is %s, not T[1].foo" % it.r._evalrepr
assert it.s is it.Ch.bar, "T[1].s (derived auto reference to T.Ch.bar) is %s, not T[1].Ch.bar" % it.s._evalrepr
assert it.o is O.qux, "T[1].o (target outside T) is %s" % it.o._evalrepr
assert it.a is T.foo, "T[1].a (absolute) is %s, not T.foo itself" % it.a._evalrepr
assert it.Ch.bar is not Ch.bar
print("OK")
