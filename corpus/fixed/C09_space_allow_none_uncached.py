# C09: switching allow_none of a SPACE reaches the values computed through its uncached cells from another space
import modelx as mx
out = []
for flag in (True, False):
    m = mx.new_model(); S = m.new_space('S'); T = m.new_space('T')
    S.new_cells('U', formula=lambda: None, is_cached=flag)
    T.s = S
    A = T.new_cells('A', formula=lambda: 0 if s.U() is None else 1)
    S.allow_none = True
    r = [A()]
    S.allow_none = False
    try:
        r.append(A())
    except mx.core.errors.FormulaError:
        r.append('error')
    out.append(r)
    m.close()
assert out[0] == out[1] == [0, 'error'], out
print("ok")
