import modelx as mx
m = mx.new_model()
LA = m.new_space('LA'); LA.y = 3
S = m.new_space('S', formula=lambda i: None)
C = S.new_space('C', bases=LA)
h = S[1].C
assert h.y == 3
del LA.y
def gone(f):
    try:
        f(); return False
    except Exception:
        return True
assert gone(lambda: S.C.y), "S.C.y still there"
assert gone(lambda: S[1].C.y), "S[1].C.y still serves %r" % (S[1].C.y,)
assert gone(lambda: h.y), "old handle still serves %r" % (h.y,)
# D41b: a refs-only space named as 'base' gains a base
LB = m.new_space('LB'); LB.z = 9
T = m.new_space('T'); T.w = 1
R = m.new_space('R', formula="lambda i: {'base': _model.T}")
r1 = R[1]
assert r1.w == 1
T.add_bases(LB)
assert R[1].z == 9, "R[1] lacks the references of T's new base"
assert R[2].z == 9
print("OK")
