"""Relative references are derived between spaces one of whose dotted names is the tail of the other's.

X.C deriving from the top-level C, or a top-level C deriving from A.C: SpaceGraph.get_relative rebuilt the
roots with '.'.join(''.split('.') + [n]) == '.C', so every auto / relative object reference made
new_space / add_bases raise RuntimeError('must not happen') or KeyError ''."""
import modelx as mx
from modelx.core.model import SpaceGraph

for mode in ("auto", "relative"):
    # the deriving space's name ends with the base's name
    m = mx.new_model()
    C = m.new_space("C"); C.new_cells("foo", formula="lambda x: x"); C.set_ref("r", C.foo, refmode=mode)
    X = m.new_space("X")
    try:
        XC = X.new_space("C", bases=C)
    except (RuntimeError, KeyError) as e:
        raise AssertionError("X.new_space('C', bases=C) with C.r = C.foo (%s) raises %r" % (mode, e))
    assert XC.r is XC.foo, "X.C.r is %r, not X.C.foo" % (XC.r,)
    XD = X.new_space("D"); XD.new_space("C")
    try:
        XD.C.add_bases(XC)                      # X.D.C from X.C
    except (RuntimeError, KeyError) as e:
        raise AssertionError("X.D.C.add_bases(X.C) raises %r" % (e,))
    assert XD.C.r is XD.C.foo
    m.close()

    # the base's name ends with the deriving space's name
    m = mx.new_model()
    A = m.new_space("A"); AC = A.new_space("C"); AC.new_cells("foo", formula="lambda x: x")
    AC.set_ref("r", AC.foo, refmode=mode)
    try:
        C = m.new_space("C", bases=AC)
    except (RuntimeError, KeyError) as e:
        raise AssertionError("new_space('C', bases=A.C) with A.C.r = A.C.foo (%s) raises %r" % (mode, e))
    assert C.r is C.foo, "C.r is %r, not C.foo" % (C.r,)
    m.close()

# an auto reference out of the base's tree stays the original object
m = mx.new_model()
A = m.new_space("A"); A.new_cells("foo", formula="lambda x: x"); AC = A.new_space("C"); AC.r = A.foo
C = m.new_space("C", bases=AC)
assert C.r is A.foo
m.close()

g = SpaceGraph()
for n in ("C", "X", "X.C"):
    g.add_node(n)
g.add_edge("C", "X.C", index=1)
assert g.get_relative("X.C", "C", "C.foo") == "X.C.foo"
print("OK")
