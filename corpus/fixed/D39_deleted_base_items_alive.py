import modelx as mx
m = mx.new_model()
B = m.new_space('B')
@mx.defcells(space=B)
def gy(): return 7
S = m.new_space('S', formula="lambda i: {'base': _model.B}")
h = S[1]
assert h.gy() == 7
del m.B
try:
    v = h.gy()
    print("FAIL: old handle still serves", v)
    raise SystemExit(1)
except SystemExit: raise
except Exception as e:
    print("old handle dead:", type(e).__name__)
try:
    S[2]
    print("FAIL: S[2] built"); raise SystemExit(1)
except SystemExit: raise
except Exception as e:
    print("S[2] cannot be built:", type(e).__name__)
print("OK")
