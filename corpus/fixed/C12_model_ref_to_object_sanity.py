# C12: the self-checks pass when a reference of the model is bound to a space
import modelx as mx
m = mx.new_model(); A = m.new_space('A'); m.r = A
m._impl._check_sanity()
mx.core.mxsys._check_sanity()
assert m.r is A
print("ok")
