import modelx as mx, tempfile, os
a = mx.new_model('A')
cur = mx.cur_model()
d = tempfile.mkdtemp()
try:
    mx.read_model(os.path.join(d, 'nothing_here'), name='A')
    raise SystemExit("read of a missing path succeeded")
except FileNotFoundError:
    pass
assert mx.get_models() == {'A': a}, "the rejected read changed the registry: %r" % (mx.get_models(),)
assert a.name == 'A' and mx.cur_model() is cur
print("OK")
