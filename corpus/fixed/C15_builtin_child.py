import modelx as mx, tempfile, sys, os
m = mx.new_model('M')
P = m.new_space('P', formula="lambda id, q=2: None")          # ItemSpace parameter named like a built-in
P.new_cells('v', formula="lambda: id * 2 + q")
P.new_cells('s', formula="lambda: [id]")                       # in the static space P (no parameter) id is the built-in
Q = P.new_space('Q')                                          # static space below the parametrised one
Q.new_cells('w', formula="lambda x: id + x")
A = m.new_space('A')
A.new_space('ord').new_cells('two', formula="lambda: 2")      # child space named like a built-in
A.new_cells('u', formula="lambda: ord.two() + 1")
d = tempfile.mkdtemp(); m.export(os.path.join(d, 'pkg_builtin_child'))
sys.path.insert(0, d); import pkg_builtin_child
x = pkg_builtin_child.mx_model


def ev(f):
    try:
        return f()
    except Exception as e:
        return "%s: %s" % (type(e).__name__, e)


for what, a, b in [("P[4].v()", lambda: P[4].v(), lambda: x.P[4].v()),
                   ("P(4, 5).v()", lambda: P(4, 5).v(), lambda: x.P(4, 5).v()),
                   ("P[4].s()", lambda: P[4].s(), lambda: x.P[4].s()),
                   ("P.s()", lambda: P.s(), lambda: x.P.s()),
                   ("P[3].Q.w(1)", lambda: P[3].Q.w(1), lambda: x.P[3].Q.w(1)),
                   ("A.u()", lambda: A.u(), lambda: x.A.u())]:
    assert ev(a) == ev(b), "%s: the model returns %r, the exported package %r" % (what, ev(a), ev(b))
print("OK")
