# C17: an exception object raised a second time (shared instance; handled, handed on and raised again) gives the
# traceback of the SECOND failure: its own traceback still lists the frames of the first
import modelx as mx
m = mx.new_model(); s = m.new_space(); s.err = ValueError("shared")
s.new_cells('f', formula='def f(x):\n    raise err')
s.new_cells('g', formula='def g(x):\n    return f(x) + 1')
for top, arg, want in ((s.f, 1, [('f', 2)]), (s.g, 2, [('g', 2), ('f', 2)]), (s.f, 3, [('f', 2)])):
    try:
        top(arg)
        raise SystemExit("no failure")
    except mx.core.errors.FormulaError:
        pass
    tb = [(n.obj.name, ln) for n, ln in mx.get_traceback()]
    assert tb == want, (arg, tb)
    assert mx.get_error() is s.err
s.new_cells('b', formula='def b(x):\n    raise ValueError("b")')
s.new_cells('a', formula='def a(x):\n    try:\n        b(x)\n    except ValueError as e:\n        return e')
s.new_cells('r', formula='def r(x):\n    raise a(x)')
try:
    s.r(1)
except mx.core.errors.FormulaError:
    pass
assert [(n.obj.name, ln) for n, ln in mx.get_traceback()] == [('r', 2)], mx.get_traceback()
# the formula that caught the object raises it again itself: the nodes of the caught failure are not in the traceback
s.new_cells('deep', formula='def deep(x):\n    raise err')
s.new_cells('again', formula='def again(x):\n    try:\n        deep(x)\n    except ValueError:\n        pass\n    raise err')
try:
    s.again(1)
except mx.core.errors.FormulaError:
    pass
assert [(n.obj.name, ln) for n, ln in mx.get_traceback()] == [('again', 6)], mx.get_traceback()
print("ok")
