# C02/C08/C09: reference read by attribute path inside an uncached cells
import modelx as mx
m = mx.new_model(); C = m.new_space('C'); S = m.new_space('S')
C.y = 1
S.new_cells('u', formula='lambda: _model.C.y'); S.u.is_cached = False
S.new_cells('top', formula='lambda: u() + 100')
assert S.top() == 101
C.y = 10
assert S.top() == 110, "stale: %r" % S.top()
print("ok")
