import modelx as mx
m = mx.new_model('M'); s = m.new_space('S')
src = "def f(x):\n    t = 'a\x0cb'\n    return t + str(x)\n"        # a form feed inside a string literal
ns = {}; exec(src, ns)
c = s.new_cells('f', formula=src)
assert c(1) == ns['f'](1) == 'a\x0cb1'
c.rename('g')
assert c(1) == 'a\x0cb1', repr(c(1))
src2 = "def h(x):\n    u = 'p q\x1cr\x85s'\n    return u\n"
ns = {}; exec(src2, ns)
c2 = s.new_cells('h', formula=src2); c2.rename('k')
assert c2(0) == ns['h'](0), repr(c2(0))
print("OK")
