import modelx as mx, tempfile, sys, os
m = mx.new_model('M'); S = m.new_space('S')
S.new_cells('f', formula="def f(val):\n    return val * 2")      # a parameter named like the cache wrapper's local
S.new_cells('g', formula="def g(x, val=3):\n    return x + val")
d = tempfile.mkdtemp(); m.export(os.path.join(d, 'pkg'))
sys.path.insert(0, d); import pkg
x = pkg.mx_model
qs = (1, 2, 4, 2)
a, b = [S.f(v) for v in qs], [x.S.f(v) for v in qs]
assert a == b, "exported f(val) %r differs from the model %r" % (b, a)
a, b = [S.g(v, v + 1) for v in qs], [x.S.g(v, v + 1) for v in qs]
assert a == b, "exported g(x, val) %r differs from the model %r" % (b, a)
print("OK")
