import modelx as mx
m = mx.new_model('M')
A = m.new_space('A'); A.new_cells('old', formula="lambda: 1")
C = m.new_space('C'); C.new_cells('old', formula="lambda: 2")
D = m.new_space('D', bases=[A, C])
assert D.old() == 1
A.old.rename('new')
assert D.new() == 1
assert 'old' in D.cells and D.old() == 2, "C still defines old but D shows no cells old: %r" % (list(D.cells),)
# a name that a sub space defines itself is refused instead of silently replacing that cells
A2 = m.new_space('A2'); A2.new_cells('foo', formula="lambda: 1")
S = m.new_space('S', bases=[A2]); S.new_cells('bar', formula="lambda: 5")
try:
    A2.foo.rename('bar')
    raise SystemExit("accepted: S.bar() is now %r, defined: %r" % (S.bar(), S.bar._is_defined()))
except ValueError:
    pass
assert S.bar() == 5 and S.bar._is_defined() and S.foo() == 1 and 'foo' in A2.cells
print("OK")
