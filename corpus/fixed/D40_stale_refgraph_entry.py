"""D40 (C06/C02): after changing a reference read through an attribute path, the cleared dependents stayed in the
reference graph as readers of other references; an input later assigned to such an element was discarded when one
of those other references changed.  Fixed by the /repo commit recorded in KNOWN_FINDINGS.txt."""
import modelx as mx
m = mx.new_model()
s = m.new_space('S')
s.a = 1
s.b = 2
@mx.defcells(space=s)
def g(x): return _space.a + x
@mx.defcells(space=s)
def d(x): return g(x) + _space.b
assert d(1) == 4
s.a = 5                      # clears g(1) and d(1)
assert not list(m._impl.refgraph.nodes), list(m._impl.refgraph.nodes)
d[1] = 100                   # assigned by the user
s.b = 7                      # must not discard the assigned value
assert dict(d) == {1: 100} and d.is_input(1), dict(d)
assert d(1) == 100
print("OK")
