import modelx as mx
m = mx.new_model('M'); s = m.new_space('S'); t = m.new_space('T')
A = s.new_cells('A', formula="lambda x: x")
A[1] = 10
B = A.copy(t)
assert dict(B) == {1: 10}
B.clear_at(1)
assert dict(B) == {}, "the input carried over by copy cannot be cleared: %r" % dict(B)
C = A.copy(t, name='C'); C.clear_all()
assert dict(C) == {}
m._impl._check_sanity()
print("OK")
