# C11/C06: a rejected None assignment must not discard the old input and its dependents
import modelx as mx
m = mx.new_model(); S = m.new_space('S')
S.new_cells('a', formula='lambda x: 0'); S.new_cells('b', formula='lambda x: a(x) + 1')
S.a[1] = 10
assert S.b(1) == 11
try:
    S.a[1] = None
    raise SystemExit("not rejected")
except mx.core.errors.NoneReturnedError:
    pass
assert dict(S.a) == {1: 10} and dict(S.b) == {1: 11}, (dict(S.a), dict(S.b))
print("ok")
