# C03/C10/C18: a changed reference must reach every sub space that derives it
import modelx as mx
m = mx.new_model(); S = m.new_space('S'); S.x = 1
T1 = m.new_space('T1', bases=S); T1.x = 10
T2 = m.new_space('T2', bases=S)
S.x = 5
assert T2.x == 5 and T1.x == 10, (T1.x, T2.x)
print("ok")
