# C17: a formula that evaluates cells while a failure passes through it (finally) keeps the traceback of that failure
import modelx as mx
m = mx.new_model(); S = m.new_space('S')
S.new_cells('leaf', formula='def leaf(x):\n    return 1 // x')
S.new_cells('other', formula='def other(x):\n    try:\n        return leaf(x)\n    except ZeroDivisionError:\n        return 7')
S.new_cells('top', formula='def top(x):\n    try:\n        return leaf(x)\n    finally:\n        other(x)')
try:
    S.top(0)
except mx.core.errors.FormulaError:
    pass
tb = [(n.obj.name, ln) for n, ln in mx.get_traceback()]
assert tb == [('top', 3), ('leaf', 2)], tb
assert S.other(0) == 7
print("ok")
