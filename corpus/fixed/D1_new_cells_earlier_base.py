import modelx as mx
m = mx.new_model('M')
A = m.new_space('A'); B = m.new_space('B')
B.new_cells('foo', formula="lambda: 2")
S = m.new_space('S', bases=[A, B])
assert S.foo() == 2
A.new_cells('foo', formula="lambda: 1")      # A precedes B in S.bases
assert S.foo() == 1, "S.foo keeps B's formula although A precedes B in S.bases: %r" % S.foo()
m2 = mx.new_model('M2')                       # the same definitions made in another order
A2 = m2.new_space('A'); A2.new_cells('foo', formula="lambda: 1")
B2 = m2.new_space('B'); B2.new_cells('foo', formula="lambda: 2")
S2 = m2.new_space('S', bases=[A2, B2])
assert S2.foo() == S.foo()
print("OK")
