"""Re-assigning an existing reference in 'relative' mode is checked like creating it.

B.r = B.foo; D(B); B.relref(r=A) with A outside B's tree cannot be derived relatively in D: it must be
refused (ValueError) with nothing changed, exactly as B.relref(q=A) for a new name q is.  Sub spaces that
do not derive the name from B (they define it themselves or derive it from an overriding space) do not count."""
import modelx as mx

m = mx.new_model()
A = m.new_space("A"); B = A.new_space("B"); B.new_cells("foo", formula="lambda x: x")
B.r = B.foo
D = m.new_space("D", bases=B)

try:                                    # a NEW relative reference out of scope is refused (always was)
    B.relref(q=A)
    raise AssertionError("B.relref(q=A): a new relative reference out of scope is accepted")
except ValueError:
    pass

try:
    B.relref(r=A)
except ValueError:
    pass
else:
    p = mx.get_object(D.fullname + ".r", as_proxy=True)
    raise AssertionError("B.relref(r=A) with A outside B's tree is accepted: D.r is %s in mode %r"
                         % (D.r.fullname, p.refmode))
pb = mx.get_object(B.fullname + ".r", as_proxy=True)
assert B.r is B.foo and pb.refmode == "auto" and D.r is D.foo, "the refused re-assignment changed something"
m.new_space("Later")                    # an unrelated edit still works

# in scope: accepted
B.relref(r=B)
assert D.r is D and mx.get_object(D.fullname + ".r", as_proxy=True).refmode == "relative"

# only the sub spaces deriving the name from B count
D.r = 1                                 # D defines r itself
E = m.new_space("E", bases=D)           # derives D's
B.relref(r=A)                           # nobody derives B.r any more: accepted
assert B.r is A and D.r == 1 and E.r == 1
F = m.new_space("F")
try:
    F.add_bases(B)                      # deriving it now is refused
    raise AssertionError("F.add_bases(B) accepted although B.r is relative and out of scope")
except ValueError:
    pass
m.close()

# the first sub space overrides, a later one derives: still refused
m = mx.new_model()
A = m.new_space("A"); B = A.new_space("B"); B.new_cells("foo", formula="lambda x: x")
B.r = B.foo
S1 = m.new_space("S1", bases=B); S1.r = 5
S3 = m.new_space("S3", bases=B)
try:
    B.relref(r=A)
except ValueError:
    pass
else:
    raise AssertionError("B.relref(r=A) accepted although S3 derives r from B: S3.r is %s" % S3.r.fullname)
assert S3.r is S3.foo
m.close()
print("OK")
