# C02 finding C02_wide_4 (found by the wide class of ./check C02, thorough tier; minimised by the driver, tidied by hand)
#
# While allow_none is on (on the cells, its space or the model) f(2) returns None and the value is held, and so is
# h(2) computed from it.  Switching the flag off again leaves both in place: the live model keeps answering None / 1,
# a model to which only the edits were applied raises NoneReturnedError.  (Switching the flag ON needs no clearing:
# a failing evaluation holds nothing.)
#
# run:  PYTHONPATH=<modelx repo> python C02_wide_4.py      (exit status 1 while the defect is there)
import sys
import modelx as mx

LEVELS = {"cells": ("m.A.f.allow_none = True", "m.A.f.allow_none = False"),
          "space": ("m.A.allow_none = True", "m.A.allow_none = False"),
          "model": ("m.allow_none = True", "m.allow_none = False")}


def build(on, off, evaluate):
    m = mx.new_model()
    A = m.new_space("A")
    A.new_cells("f", formula="lambda x: None if x == 2 else x")
    A.new_cells("h", formula="lambda x: 1 if f(x) is None else 2")
    exec(on, {"m": m})
    if evaluate:
        A.h(2)                      # f(2) = None and h(2) = 1 are held
    exec(off, {"m": m})
    out = []
    for c in (A.f, A.h):
        try:
            out.append(repr(c(2)))
        except Exception as e:
            out.append("raises " + type(mx.get_error() or e).__name__)
    return out


bad = 0
for level, (on, off) in LEVELS.items():
    live, fresh = build(on, off, True), build(on, off, False)
    print("%-6s f(2), h(2)   live model: %s   edits-only model: %s%s" % (level, live, fresh, "" if live == fresh else "   <-- STALE"))
    bad += live != fresh
sys.exit(1 if bad else 0)
