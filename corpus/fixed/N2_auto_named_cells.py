# C12: the name the auto namer gives to a cells is tested against the sub spaces as a given name is
import modelx as mx
m = mx.new_model(); A = m.new_space('A'); B = m.new_space('B', bases=A)
B.Cells1 = 3
try:
    A.new_cells()
    refused = False
except ValueError:
    refused = True
assert refused, (list(B.cells), list(B._own_refs))
assert list(A.cells) == [] and list(B.cells) == [] and list(B._own_refs) == ['Cells1']
del B.Cells1
assert A.new_cells().name == 'Cells1' and list(B.cells) == ['Cells1']
print("ok")
