# C02 finding C02_wide_3 (found by the wide class of ./check C02; minimised by the driver)
#
# P is a parametrised space, P.f returns None at x == 2.  Once the ItemSpace P[2] exists (any evaluation in it),
# `P.f.allow_none = True` changes the definition in P only: the ItemSpace is not discarded and its copy of f keeps
# the old flag, so P[2].f(2) raises NoneReturnedError.  A model to which only the edits were applied answers None.
# (Space.allow_none and Model.allow_none are looked up at evaluation time and do not show this; is_cached and the
# formula go through SpaceManager.set_cells_property, which discards the ItemSpaces.)
#
# run:  PYTHONPATH=<modelx repo> python C02_wide_3.py      (exit status 1 while the defect is there)
import sys
import modelx as mx


def build(evaluate):
    m = mx.new_model()
    P = m.new_space("P", formula="lambda i: None")
    P.new_cells("f", formula="lambda x: None if x == 2 else x")
    if evaluate:
        P[2].f(1)                   # the ItemSpace exists
    P.f.allow_none = True
    try:
        return repr(P[2].f(2))
    except Exception as e:
        return "raises " + type(mx.get_error() or e).__name__


live, fresh = build(True), build(False)
print("P[2].f(2)   live model: %s   edits-only model: %s%s" % (live, fresh, "" if live == fresh else "   <-- differs"))
sys.exit(0 if live == fresh else 1)
