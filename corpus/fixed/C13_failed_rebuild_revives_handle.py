# C13/C07: an ItemSpace whose re-creation fails midway does not revive the handles of the discarded one, and is not
# left in its parent
import modelx as mx
m = mx.new_model(); P = m.new_space('P'); P.r = {'a': 1}
P.formula = lambda i: {'refs': r}
h = P[1]
P.r = 5                                   # P[1] is discarded
try:
    h.name
    alive = True
except mx.core.errors.DeletedObjectError:
    alive = False
assert not alive
try:
    P[1]                                  # the parameter formula gives refs = 5: the construction fails
    built = True
except Exception:
    built = False
assert not built
assert not h._is_valid(), "the old handle points to the half-built space"
assert list(P._impl.named_itemspaces) == [] and list(P._impl.param_spaces) == [], (
    list(P._impl.named_itemspaces), list(P._impl.param_spaces))
P.r = {'a': 2}
assert P[1].a == 2 and h._is_valid() and h.a == 2     # a successful re-creation serves the old handle again
print("ok")
