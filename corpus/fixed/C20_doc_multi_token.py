import modelx as mx
m = mx.new_model('M'); s = m.new_space('S')
c = s.new_cells('f', formula='def f(x):\n    ("first part, "\n     "second part")\n    return 2 * x\n')
assert c.doc == "first part, second part"
c.doc = "New."
assert c.doc == "New.", "the old docstring was replaced only partly: %r" % (c.doc,)
assert c(3) == 6
g = s.new_cells('g', formula='def g(x): "one " "two"; return x + 1')
g.doc = "Other."
assert g.doc == "Other." and g(1) == 2, (g.doc, g.formula.source)
print("OK")
