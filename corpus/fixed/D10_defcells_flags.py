# C09/C20: @mx.defcells(space=S, is_cached=...) on an existing cells must update formula and flag
import modelx as mx
m = mx.new_model(); S = m.new_space('S')
@mx.defcells(space=S)
def k(x): return x
@mx.defcells(space=S, is_cached=False)
def k(x): return x + 1
assert S.k.is_cached is False and S.k(1) == 2, (S.k.is_cached, S.k(1))
print("ok")
