import modelx as mx
m = mx.new_model('M')
A = m.new_space('A')
B = m.new_space('B', bases=[A]); C = m.new_space('C', bases=[A])
B.new_cells('x', formula=lambda: 1)
C.x = 2                                   # x is a reference of C
try:
    A.new_cells('x', formula=lambda: 3)   # would be derived into C next to the reference x
    raise SystemExit("accepted: x is %r in C.cells and C.x is %r" % ('x' in C.cells, C.x))
except ValueError:
    pass
assert 'x' not in A.cells and 'x' not in C.cells and C.x == 2 and B.x() == 1
print("OK")
