"""The binding of a reference in a NESTED space does not depend on the order of the edits.

Y.C.r = Y.foo; X.C(Y.C): X.C.r is X.foo when the parents are related (X derives from Y) and Y.foo itself
when they are not.  add_bases / remove_bases on X re-derived X and its sub spaces only, so X.C.r kept the
binding of the moment X.C was created."""
import modelx as mx


def build(early):
    m = mx.new_model()
    Y = m.new_space("Y"); Y.new_cells("foo", formula="lambda x: x"); YC = Y.new_space("C"); YC.r = Y.foo
    X = m.new_space("X")
    if early:
        X.add_bases(Y)
    XC = X.new_space("C", bases=YC)
    if not early:
        X.add_bases(Y)
    return m, Y, X, XC


m1, Y1, X1, XC1 = build(True)
assert XC1.r is X1.foo
m2, Y2, X2, XC2 = build(False)
assert XC2.r is X2.foo, "X.C(Y.C) created before X.add_bases(Y): X.C.r is %s, not X.foo" % XC2.r.fullname
p = mx.get_object(XC2.fullname + ".r", as_proxy=True)
assert p.refmode == "auto" and p._impl.is_relative is True

# sub spaces of X and their nested spaces follow
Z = m2.new_space("Z", bases=X2); ZC = Z.new_space("C", bases=XC2)
assert ZC.r is Z.foo
XC2.parameters = ("i",)
assert XC2[1].r is X2.foo
X2.remove_bases(Y2)
assert XC2.r is Y2.foo, "after X.remove_bases(Y): X.C.r is %s, not the original Y.foo" % XC2.r.fullname
assert ZC.r is Y2.foo, "after X.remove_bases(Y): Z.C.r is %s, not the original Y.foo" % ZC.r.fullname
assert XC2[1].r is Y2.foo, "the ItemSpace of X.C was not rebuilt"
X2.add_bases(Y2)
assert XC2.r is X2.foo and ZC.r is Z.foo and XC2[1].r is X2.foo
print("OK")
