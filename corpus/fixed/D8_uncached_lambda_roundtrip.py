# C04: an uncached lambda cells must stay uncached after write_model/read_model
import modelx as mx, tempfile, os
m = mx.new_model('M8'); S = m.new_space('S')
S.new_cells('f', formula=lambda x: x + 1); S.f.is_cached = False
d = tempfile.mkdtemp(); mx.write_model(m, os.path.join(d, 'm'))
m2 = mx.read_model(os.path.join(d, 'm'), name='M8b')
assert m2.S.f.is_cached is False, m2.S.f.is_cached
print("ok")
