import modelx as mx
m = mx.new_model()
s = m.new_space('S')
@mx.defcells(space=s)
def den(x): return 1
@mx.defcells(space=s)
def inv(x): return 10 // den(x)
@mx.defcells(space=s)
def safe(x):
    try:
        return inv(x)
    except ZeroDivisionError:
        return -1
@mx.defcells(space=s)
def top(x): return safe(x) + 100
den[1] = 0
assert top(1) == 99          # inv fails, safe handles it
den[1] = 5                   # the cause of the failure is edited away
assert safe(1) == 2, "D20: safe(1) still returns the handler's value %r" % (safe(1),)
assert top(1) == 102, "D20: top(1) = %r" % (top(1),)
# once nothing fails, values are cached and tracked as usual
assert dict(safe) == {1: 2} and dict(top) == {1: 102} and dict(inv) == {1: 2}
den[1] = 2
assert top(1) == 105
m._impl._check_sanity()
print("OK")
