import modelx as mx, tempfile, os
m = mx.new_model('M'); s = m.new_space('S')
c = s.new_cells('f', formula="lambda x: x"); c.doc = ""
d = tempfile.mkdtemp(); mx.write_model(m, os.path.join(d, 'm'))
r = mx.read_model(os.path.join(d, 'm'), name='R')
assert r.S.f.doc == "", "an empty documentation string of a lambda cells came back as %r" % (r.S.f.doc,)
print("OK")
