import modelx as mx
m = mx.new_model('M')
A = m.new_space('A'); A.new_cells('x', formula="lambda: 1")
B = m.new_space('B'); B.new_space('x')
try:
    B.add_bases(A)
    raise SystemExit("accepted: x is a cells and a child space of B")
except NameError:
    pass
assert B.bases == [] and 'x' not in B.cells
C = m.new_space('C'); C.x = 5
try:
    m.new_space('D', bases=[A, C])
    raise SystemExit("accepted: x is a cells and a reference of D")
except NameError:
    pass
assert 'D' not in m.spaces
m._impl._check_sanity()
# nothing is refused that has no conflict: a reference of a sub space named like a child space of the base's parent
P = m.new_space('P'); P.new_space('y'); Q = P.new_space('Q'); R = m.new_space('R'); R.y = 1
R.add_bases(Q)
E = m.new_space('E', bases=[A])
assert E.x() == 1
print("OK")
