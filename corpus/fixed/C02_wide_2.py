# C02 finding C02_wide_2 (found by the wide class of ./check C02; minimised by the driver, tidied by hand)
#
# B sees the model-level reference g (= 1).  A.h reads it through B by attribute path (`O.g`, O = B) and holds 1.
# B.add_bases(C), where C defines g = 26: B now derives g = 26, which shadows the model-level g, so `B.g` is 26 - but
# A.h still answers 1.  A model to which only the edits were applied answers 26.
# (The direct form - B.g = 26 - was repaired as shadow_global_attr: SpaceManager.new_ref clears the referrers of the
# shadowed model-level reference; the derived reference created by the re-inheritance after add_bases does not.)
#
# run:  PYTHONPATH=<modelx repo> python C02_wide_2.py      (exit status 1 while the defect is there)
import sys
import modelx as mx


def build(evaluate):
    m = mx.new_model()
    A, B, C = m.new_space("A"), m.new_space("B"), m.new_space("C")
    m.g = 1
    A.O = B
    C.g = 26
    A.new_cells("h", formula="lambda: O.g")
    if evaluate:
        A.h()                       # 1, held
    B.add_bases(C)                  # B.g is now the derived 26
    return A.h(), B.g


live, fresh = build(True), build(False)
print("live model: A.h() = %r (B.g = %r)   edits-only model: A.h() = %r (B.g = %r)%s"
      % (live + fresh + ("" if live == fresh else "   <-- STALE",)))
sys.exit(0 if live == fresh else 1)
