import modelx as mx, tempfile, os
m = mx.new_model('M'); s = m.new_space('S')
s.new_cells(formula='def foo(x):\n    t = "a\x0cb"\n    return t  # done')
d = tempfile.mkdtemp(); mx.write_model(m, os.path.join(d, 'm'))
r = mx.read_model(os.path.join(d, 'm'), name='R')      # written without error: must be readable
assert r.S.foo(1) == "a\x0cb" and r.S.foo.formula.source == s.foo.formula.source
print("OK")
