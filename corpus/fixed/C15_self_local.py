import modelx as mx, tempfile, sys, os
# export either computes the same values or refuses the model: a formula that binds the name `self`
# (the first parameter of the generated method) is refused with a ValueError that says so


def check(tag, build, queries):
    m = mx.new_model('M' + tag)
    build(m)
    d = tempfile.mkdtemp()
    try:
        m.export(os.path.join(d, 'pkg_self_' + tag))
    except ValueError as e:
        assert "'self'" in str(e), "export of %s refused without naming the cause: %s" % (tag, e)
        return "refused"
    sys.path.insert(0, d)
    x = __import__('pkg_self_' + tag).mx_model

    def ev(root, q):
        try:
            return eval(q, {"ROOT": root})
        except Exception as e:
            return "%s: %s" % (type(e).__name__, e)
    for q in queries:
        a, b = ev(m, q), ev(x, q)
        assert a == b, "%s %s: export accepted the model, the model returns %r, the exported package %r" % (tag, q, a, b)
    return "same values"


def local_self(m):
    A = m.new_space('A'); A.k = 3
    A.new_cells('foo', formula="def foo(x):\n    self = x\n    return self + k")


def param_self(m):
    A = m.new_space('A'); A.k = 3
    A.new_cells('foo', formula="lambda self: self * k")


def lambda_self(m):
    A = m.new_space('A'); A.k = 3
    A.new_cells('foo', formula="lambda x: (lambda self: self + k)(x)")


def harmless(m):     # `self` as an attribute name, a keyword name and a cells name is no local: exported as before
    A = m.new_space('A'); A.k = 3
    A.new_cells('self', formula="lambda x: x + k")
    A.new_cells('bar', formula="lambda x: self(x) + (lambda **kw: kw['self'])(self=k)")


r = [check('local', local_self, ["ROOT.A.foo(1)"]), check('param', param_self, ["ROOT.A.foo(2)"]),
     check('lambda', lambda_self, ["ROOT.A.foo(2)"]), check('harmless', harmless, ["ROOT.A.bar(2)", "ROOT.A.self(1)"])]
assert r[3] == "same values", r
print("OK", r)
