import modelx as mx
m = mx.new_model('M')
A = m.new_space('A'); B = m.new_space('B', bases=[A])
B.new_cells('x', formula=lambda: 1)
m.x = 1                                   # a model-level reference, visible in A
try:
    A.x = 2                               # shadowing it in A would derive a reference x into B next to the cells x
    raise SystemExit("accepted: B has cells x: %r and reference x: %r" % ('x' in B.cells, 'x' in B._impl.own_refs))
except ValueError:
    pass
assert 'x' not in A._impl.own_refs and 'x' not in B._impl.own_refs and B.x() == 1
C = m.new_space('C'); C.x = 3             # shadowing is still possible where nothing conflicts
assert C.x == 3 and A.x == 1
d = m.new_space('d'); b = m.new_space('b', bases=[d]); b.new_space('c')
m.c = 38                                  # a model-level reference named like the child space b.c
try:
    b.c = 35
    raise SystemExit("accepted: c is a child space and a reference of b")
except ValueError:
    pass
assert 'c' not in b._impl.own_refs
print("OK")
