"""C18 delspace: deleting a space (tree) must forget the references defined in it, and with the last
reference of a value its IOSpec (ReferenceManager._valid_to_refs, IOManager)."""
import modelx as mx, pandas as pd

def nspecs():
    return sum(len(io.specs) for io in mx.core.mxsys.iomanager.ios.values())

m = mx.new_model('M')
s = m.new_space('S'); c = s.new_space('C'); t = m.new_space('T'); u = m.new_space('U')
u.add_bases(s)                                   # U derives S.x
df1, df2, df3 = (pd.DataFrame({'a': [k, k + 1]}) for k in (1, 2, 3))
s.new_pandas('x', 'a.csv', df1, file_type='csv')             # only S holds df1
c.new_pandas('y', 'b.csv', df2, file_type='csv')             # only the child space S.C holds df2
s.new_pandas('z', 'c.csv', df3, file_type='csv'); t.w = df3  # df3 is held by T.w as well
m.g = df2; del m.g                                            # a second reference that is gone again
assert len(m.iospecs) == 3 and nspecs() == 3 and u.x is df1

del s.C                                          # a child space
assert [sp.value is df2 for sp in m.iospecs].count(True) == 0, \
    "del parent.C left the spec of a value only S.C referred to: %r" % (m.iospecs,)
assert nspecs() == 2, "del parent.C left %d specs in the IO manager" % nspecs()

del m.S                                          # a top-level space with a sub space
assert not hasattr(u, 'x'), "derived reference U.x survived its base space"
assert len(m.iospecs) == 1 and m.iospecs[0].value is df3, \
    "del model.S: Model.iospecs is %r, expected the spec of df3 (still held by T.w) only" % (m.iospecs,)
assert nspecs() == 1, "del model.S left %d specs in the IO manager" % nspecs()
try:
    m.get_spec(df1)
    raise AssertionError("get_spec still finds the spec of df1")
except ValueError:
    pass
assert id(df1) not in m._impl.refmgr._valid_to_refs and id(df2) not in m._impl.refmgr._valid_to_refs, \
    "_valid_to_refs keeps the references of the deleted space"
t.new_pandas('v', 'a.csv', df1, file_type='csv')  # the file location is free again
mx.core.mxsys._check_sanity()
del t.w                                          # last reference of df3
assert len(m.iospecs) == 1 and nspecs() == 1
m.close()
assert nspecs() == 0
print("OK")
