import modelx as mx
m = mx.new_model('M')
A = m.new_space('A'); A.r = 1
A.new_cells('c', formula=lambda x: r + x)
S = m.new_space('S', bases=[A])
S.c[5] = 100                      # an input held by a derived cells of S
try:
    del S.r                       # r is derived from A: must be refused
    raise SystemExit("deleting a derived reference was accepted")
except ValueError:
    pass
assert S.r == 1, "the refused deletion removed the reference"
assert dict(S.c) == {5: 100}, "the refused deletion lost an input: %r" % (dict(S.c),)
print("OK")
