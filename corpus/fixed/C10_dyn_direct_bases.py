import modelx as mx
m = mx.new_model('M')
Y = m.new_space('Y'); Y.new_cells('foo', formula=lambda: 1)
YC = Y.new_space('C'); YC.r = Y.foo
X = m.new_space('X', bases=[Y])
XC = X.new_space('C', bases=[YC])
assert XC.r is X.foo              # relative to the outer roots
XC.parameters = ('i',)
it = XC[1]                        # r points outside the ItemSpace's base: it stays X.foo
assert it.r is X.foo, it.r
print("OK")
