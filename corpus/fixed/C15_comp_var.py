import modelx as mx, tempfile, sys, os
m = mx.new_model('M'); A = m.new_space('A'); A.k = 10; A.j = 2
# the variable of a list comprehension has the name of a reference that the formula also reads outside of it
A.new_cells('foo', formula="lambda x: [k for k in [1, 2, x]] + [k]")
A.new_cells('bar', formula="def bar(x):\n    t = [k * j for k in [1, x] if k < j + 3]\n    return sum(t) + k")
A.new_cells('baz', formula="lambda x: [[k + j for j in [x, k]] for k in [1, 2]] + [j, k]")
A.new_cells('qux', formula="lambda x: [k for k in [k, x]] + [k for j in [1, 2]]")
d = tempfile.mkdtemp(); m.export(os.path.join(d, 'pkg_comp_var'))
sys.path.insert(0, d); import pkg_comp_var
x = pkg_comp_var.mx_model


def ev(f):
    try:
        return f()
    except Exception as e:
        return "%s: %s" % (type(e).__name__, e)


for name in ('foo', 'bar', 'baz', 'qux'):
    for arg in (5, 1):
        a, b = ev(lambda: getattr(A, name)(arg)), ev(lambda: getattr(x.A, name)(arg))
        assert a == b, "A.%s(%d): the model returns %r, the exported package %r" % (name, arg, a, b)
assert (x.A.k, x.A.j) == (10, 2), "the exported formulas assigned the references: k=%r j=%r" % (x.A.k, x.A.j)
print("OK")
