"""A derived reference takes the mode of its CURRENT defining reference.

A.r = A.foo (auto), B.absref(r=B.foo), S(A, B): S.r is derived from A.r (auto, bound to S.foo).
After S.remove_bases(A) (or del A.r) the defining reference is B's absolute one: S.r must be
in mode 'absolute' and denote B.foo itself."""
import modelx as mx


def scenario(edit):
    m = mx.new_model()
    A = m.new_space("A"); A.new_cells("foo", formula="lambda x: x"); A.r = A.foo
    B = m.new_space("B"); B.new_cells("foo", formula="lambda x: x"); B.absref(r=B.foo)
    S = m.new_space("S", bases=[A, B])
    p = mx.get_object(S.fullname + ".r", as_proxy=True)
    assert p.refmode == "auto" and S.r is S.foo, "before the edit S.r derives A's auto reference"
    edit(A, S)
    p = mx.get_object(S.fullname + ".r", as_proxy=True)
    assert p.refmode == "absolute", \
        "%s: S.r is derived from B.absref(r=B.foo) but has mode %r" % (edit.__name__, p.refmode)
    assert S.r is B.foo, "%s: absolute reference S.r is %s, not B.foo" % (edit.__name__, S.r.fullname)
    # and back: re-adding A in front of B makes S.r auto again
    if edit is remove_base:
        S.remove_bases(B); S.add_bases(A, B)
        p = mx.get_object(S.fullname + ".r", as_proxy=True)
        assert p.refmode == "auto" and S.r is S.foo, \
            "after re-adding A: mode %r, S.r is %s" % (p.refmode, S.r.fullname)
    m.close()


def remove_base(A, S):
    S.remove_bases(A)


def delete_ref(A, S):
    del A.r


scenario(remove_base)
scenario(delete_ref)
print("OK")
