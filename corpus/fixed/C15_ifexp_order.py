import modelx as mx, tempfile, sys, os
m = mx.new_model('M'); A = m.new_space('A'); A.k = 3; A.j = 5
# `a if c else b` with a function scope in both a and c (symtable lists c first, libcst a)
A.new_cells('foo', formula="lambda x: (lambda: k)() if (lambda k: k)(x) else 0")
A.new_cells('bar', formula="def bar(x):\n    return (lambda j: j + k)(x) if sum(k for k in [x, j]) else (lambda: j)()")
A.new_cells('baz', formula="lambda x: ((lambda: k)() if (lambda k: k)(x) else (lambda: j)()) if (lambda j: j)(x - 1) else (lambda: k + j)()")
A.new_cells('qux', formula="lambda x: [(lambda: k)() if (lambda k: k + j)(a) else (lambda j: j)(a) for a in [x, 0, k]]")
d = tempfile.mkdtemp()
try:
    m.export(os.path.join(d, 'pkg_ifexp_order'))
except AssertionError:
    import traceback
    raise AssertionError("export fails: scopes and symbol tables are paired in the wrong order (%s)"
                         % traceback.format_exc().strip().splitlines()[-2].strip())
sys.path.insert(0, d)
try:
    import pkg_ifexp_order
except SyntaxError as e:
    raise AssertionError("the exported package does not import: SyntaxError %s in %r" % (e, e.text))
x = pkg_ifexp_order.mx_model


def ev(f):
    try:
        return f()
    except Exception as e:
        return "%s: %s" % (type(e).__name__, e)


for name in ('foo', 'bar', 'baz', 'qux'):
    for arg in (0, 1, 2):
        a, b = ev(lambda: getattr(A, name)(arg)), ev(lambda: getattr(x.A, name)(arg))
        assert a == b, "A.%s(%d): the model returns %r, the exported package %r" % (name, arg, a, b)
print("OK")
