import modelx as mx
from modelx.core.errors import FormulaError
def outcome(cached):
    m = mx.new_model()
    s = m.new_space('S')
    @mx.defcells(space=s)
    def leaf(x):
        if x > 0:
            return x
    leaf.is_cached = cached
    @mx.defcells(space=s)
    def top(x): return 1 if leaf(x) is None else 2
    try:
        return ('val', top(0))
    except FormulaError as e:
        return ('err', type(mx.get_error()).__name__)
    finally:
        m.close()
a, b = outcome(True), outcome(False)
assert a == b, "the cached flag changes the result: cached %r, uncached %r" % (a, b)
print("OK", a)
