# C02 finding C02_wide_1 (found by the wide class of ./check C02; minimised by hand from its reproducers)
#
# The spaces on an attribute path are not precedents of the value computed through them.
# A cells that read a MODEL-LEVEL reference through a space by attribute path (`O.g`, `O.Ch.g`: g is defined on the
# model, O is a reference to space A) keeps its value when the space it went through is deleted, or when the child
# space on the path is renamed.  A model to which only the edits were applied raises (DeletedObjectError /
# AttributeError) for the same call.  The dependency recorded for `O.Ch.g` is the model-level reference g alone;
# deleting / renaming a space clears the referrers of ITS OWN references and the dependents of ITS cells' values
# only (`O.Ch.k` with k defined in Ch, and `O.Ch.f(1)` with a cached f, are handled).
# Same for a call of an UNCACHED cells through the renamed child space (`O.Ch.f(1)`): an uncached cells has no
# value whose dependents the renaming could clear.
#
# run:  PYTHONPATH=<modelx repo> python C02_wide_1.py      (exit status 1 while the defect is there)
import sys
import modelx as mx

EDITS = {
    "rename the child space on the path": ("lambda: O.Ch.g", "m.A.Ch.rename('Cg')", True),
    "delete the child space on the path": ("lambda: O.Ch.g", "del m.A.Ch", True),
    "delete the space the reference holds": ("lambda: O.g", "del m.A", True),
    "rename the child space, uncached callee": ("lambda: O.Ch.f(1)", "m.A.Ch.rename('Cg')", False),
}


def build(formula, edit, f_cached, evaluate):
    m = mx.new_model()
    A = m.new_space("A")
    Ch = A.new_space("Ch")
    Ch.new_cells("f", formula="lambda x: 5 + x")
    Ch.f.is_cached = f_cached
    B = m.new_space("B")
    m.g = 8
    B.O = A
    B.new_cells("h", formula=formula)
    if evaluate:
        B.h()                       # held
    exec(edit, {"m": m})
    try:
        return repr(B.h())
    except Exception as e:
        return "raises " + type(mx.get_error() or e).__name__


bad = 0
for what, (formula, edit, f_cached) in EDITS.items():
    live, fresh = build(formula, edit, f_cached, True), build(formula, edit, f_cached, False)
    print("%-40s B.h = %-12s %-22s live model: %-6s edits-only model: %s%s"
          % (what, formula[8:], edit, live, fresh, "" if live == fresh else "   <-- STALE"))
    bad += live != fresh
sys.exit(1 if bad else 0)
