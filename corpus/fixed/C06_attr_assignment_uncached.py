# C06/C09: space.<cells> = v on an UNCACHED scalar cells is refused like cells.value = v; nothing is stored
import modelx as mx
m = mx.new_model(); S = m.new_space('S')
u = S.new_cells('u', formula=lambda: 1, is_cached=False)
for assign in (lambda: setattr(u, 'value', 5), lambda: setattr(S, 'u', 5)):
    try:
        assign()
        refused = False
    except ValueError:
        refused = True
    assert refused
    assert dict(u) == {} and list(u._impl.input_keys) == [] and u() == 1, (dict(u), list(u._impl.input_keys))
print("ok")
