"""Assigning a reference binds every sub space to ITS OWN corresponding object.

Base.Ch.foo; S1(Base) without a child Ch; S2(Base) with S2.Ch(Base.Ch).  Base.x = Base.Ch.foo has no
corresponding object in S1 (a null object there), but S2.x must be S2.Ch.foo: new_ref / change_ref used to
overwrite the assigned value with S1's null object and hand it to all following sub spaces."""
import modelx as mx


def build():
    m = mx.new_model()
    Base = m.new_space("Base"); Ch = Base.new_space("Ch"); Ch.new_cells("foo", formula="lambda x: x")
    S1 = m.new_space("S1", bases=Base)                       # no child Ch
    S2 = m.new_space("S2", bases=Base); S2.new_space("Ch", bases=Ch)
    S3 = m.new_space("S3", bases=Base)                       # no child Ch
    S4 = m.new_space("S4", bases=Base); S4.new_space("Ch", bases=Ch)
    return m, Base, S1, S2, S3, S4


def name(obj):
    return obj.fullname if obj._is_valid() else "a null object"


for mode in ("auto", "relative"):
    # a new reference
    m, Base, S1, S2, S3, S4 = build()
    Base.set_ref("x", Base.Ch.foo, refmode=mode)
    for S in (S2, S4):
        assert S.x is S.Ch.foo, "new %s reference Base.x = Base.Ch.foo: %s.x is %s, not %s.Ch.foo" % (
            mode, S.name, name(S.x), S.name)
    for S in (S1, S3):
        assert not S.x._is_valid(), "%s has no Ch.foo but %s.x is %s" % (S.name, S.name, name(S.x))
    # re-assigning an existing reference
    Base.set_ref("x", Base.Ch, refmode=mode)
    for S in (S2, S4):
        assert S.x is S.Ch, "re-assigned %s reference Base.x = Base.Ch: %s.x is %s, not %s.Ch" % (
            mode, S.name, name(S.x), S.name)
    for S in (S1, S3):
        assert not S.x._is_valid(), "%s has no Ch but %s.x is %s" % (S.name, S.name, name(S.x))
    m.close()
print("OK")
