import modelx as mx, tempfile, os, pathlib, warnings
warnings.simplefilter("ignore")
m = mx.new_model('M'); s = m.new_space('S'); s.new_cells('f', formula="lambda x: x")
d = tempfile.mkdtemp(); path = os.path.join(d, 'model')
s.f[1] = 1
mx.write_model(m, path)                         # generation 1, complete
import modelx.serialize.ziputil as zu
orig = zu.write_file
def failing_saves(n):
    for g in range(n):
        count = [0]
        def wf(*a, **k):
            count[0] += 1
            if count[0] == 3:
                raise OSError("disk full")
            return orig(*a, **k)
        zu.write_file = wf
        try:
            s.f[1] = 100 + g
            mx.write_model(m, path)
            raise SystemExit("the save did not fail")
        except OSError:
            pass
        finally:
            zu.write_file = orig
failing_saves(4)                                # four consecutive failing directory saves
def gen(p):
    try:
        r = mx.read_model(p, name='R'); v = r.S.f[1]; r.close(); return v
    except Exception as e:
        return type(e).__name__
found = {p: gen(os.path.join(d, p)) for p in sorted(os.listdir(d))}
assert gen(path) == 1 or gen(path + '_BAK1') == 1, "the last good save (generation 1) is neither at the path nor at _BAK1: %r" % found
print("OK")
