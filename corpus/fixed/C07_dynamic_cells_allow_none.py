import modelx as mx
m = mx.new_model('M')
S = m.new_space('S', formula=lambda i: None)
S.new_cells('foo', formula="lambda: None")
S.foo.allow_none = True
assert S.foo() is None
assert S[1].foo() is None          # the instance's cells evaluates exactly as in the base
print("OK")
