import modelx as mx, tempfile, os, warnings
warnings.simplefilter("ignore")
a = mx.new_model('A'); a.new_space('Sa')
b = mx.new_model('B'); b.xm = a
d = tempfile.mkdtemp()
mx.write_model(b, os.path.join(d, 'b'))
a.close()
try:
    mx.read_model(os.path.join(d, 'b'))
    raise SystemExit("the read succeeded")
except KeyError:
    pass
assert mx.get_models() == {'B': b}, "the rejected read changed the registry: %r" % (mx.get_models(),)
assert b.name == 'B'
print("OK")
