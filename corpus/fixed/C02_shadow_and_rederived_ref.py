import modelx as mx
m = mx.new_model('M'); m.x = 1
S = m.new_space('S'); T = m.new_space('T'); T.S = S
T.new_cells('f', formula="lambda: S.x")
assert T.f() == 1
S.x = 5                                   # shadows the model-level x in S
assert T.f() == 5, "T.f() still returns the shadowed model-level value: %r" % T.f()
del S.x
assert T.f() == 1
A1 = m.new_space('A1'); A1.y = 1; A2 = m.new_space('A2'); A2.y = 2
B = m.new_space('B', bases=[A1, A2]); T.B = B
T.new_cells('g', formula="lambda: B.y")
assert T.g() == 1
B.remove_bases(A1)                        # B.y is re-derived from A2
assert B.y == 2 and T.g() == 2, "T.g() keeps the value read from the re-derived reference: %r" % T.g()
print("OK")
