import modelx as mx, pandas as pd
m = mx.new_model('M'); s = m.new_space('S')
old = pd.DataFrame({'a': [1]}); new = pd.DataFrame({'a': [2]})
s.new_pandas('x', 'f.csv', old, file_type='csv')
s.y = new                                        # new is already bound to a name
try:
    m.update_pandas(old, new)
    raise SystemExit("accepted")
except ValueError:
    pass
assert s.x is old and s.y is new and len(m.iospecs) == 1
del s.y                                          # the older reference of new is still tracked
del s.x
assert len(m.iospecs) == 0
print("OK")
