import modelx as mx
m = mx.new_model('M')
O = m.new_space('O'); O.new_cells('qux', formula=lambda: 1)
B = m.new_space('B'); B.new_cells('foo', formula=lambda: 2)
B.r = B.foo
D = m.new_space('D', bases=[B])
assert D.r is D.foo
B.r = O.qux                       # re-assigned to an object outside B: D.r is the same object, not relative
assert D.r is O.qux
ref = D._impl.own_refs['r']
assert ref.is_relative is False, "the derived reference to an outside object is marked relative"
print("OK")
