# C17: a failure caught by a formula must not appear in a later traceback
import modelx as mx
m = mx.new_model(); S = m.new_space('S')
S.new_cells('bad', formula='def bad(x):\n    return 1 // 0')
S.new_cells('catcher', formula='def catcher(x):\n    try:\n        t = bad(x)\n    except ZeroDivisionError:\n        t = -1\n    return t')
S.new_cells('boom', formula='def boom(x):\n    t = catcher(x)\n    return int("q")')
try:
    S.boom(1)
except mx.core.errors.FormulaError:
    pass
tb = [(n.obj.name, ln) for n, ln in mx.get_traceback()]
assert tb == [('boom', 3)], tb
print("ok")
