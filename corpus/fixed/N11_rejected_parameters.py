import modelx as mx
m = mx.new_model()
S = m.new_space('S')
S.parameters = ('i',)
h = S[1]
try:
    S.parameters = ('for',)
    raise SystemExit("accepted")
except SyntaxError:
    pass
assert S.parameters == ('i',), "N11: the rejected assignment removed the parameters: %r" % (S.parameters,)
assert S[1] is h
print("OK")
