import modelx as mx
m = mx.new_model()
S = m.new_space('S'); T = S.new_space('T')
for bad in ['1a', '', 'for', '_x', 'a b', 'a.b']:
    for sp, old in ((T, 'T'), ):
        try:
            sp.rename(bad)
            raise SystemExit("rename(%r) accepted: now %r" % (bad, sp.name))
        except ValueError:
            assert sp.name == old
S.rename('S2'); assert m.S2 is S and S.T is T
print("OK")
