import modelx as mx, tempfile, sys, os
m = mx.new_model('M'); A = m.new_space('A'); A.k = 3
A.new_cells('bar', formula="lambda t: t * 2")
# a list comprehension after a sibling lambda / nested def / generator expression of the same function
A.new_cells('foo', formula="def foo(x):\n    g = lambda y: y + 1\n    return sum([bar(a) + g(a) + k for a in [1, 2, x]])")
A.new_cells('baz', formula="def baz(x):\n    def h(y):\n        return y + k\n    return [h(a) * k for a in [1, x] if a < k]")
A.new_cells('qux', formula="lambda x: sum(a for a in [x, k]) + sum([a * k for a in [1, x]])")
A.new_cells('nst', formula="lambda x: [[i * j + k for j in [1, (lambda t: t + k)(i)]] for i in [x, k]]")
d = tempfile.mkdtemp(); m.export(os.path.join(d, 'pkg_comp_scope'))
sys.path.insert(0, d); import pkg_comp_scope
x = pkg_comp_scope.mx_model


def ev(f):
    try:
        return f()
    except Exception as e:
        return "%s: %s" % (type(e).__name__, e)


for name in ('foo', 'baz', 'qux', 'nst'):
    for arg in (1, 2, 5):
        a, b = ev(lambda: getattr(A, name)(arg)), ev(lambda: getattr(x.A, name)(arg))
        assert a == b, "A.%s(%d): the model returns %r, the exported package %r" % (name, arg, a, b)
print("OK")
