import modelx as mx
m = mx.new_model('M')
Base = m.new_space('Base'); Base.new_cells('foo', formula="lambda: 1")
A = m.new_space('A', bases=[Base]); A.foo.formula = "lambda: 2"                # A overrides foo
Sub = m.new_space('Sub', bases=[A])                                            # Sub.foo is derived from A.foo
B = m.new_space('B', bases=[A]); B.foo.formula = "lambda: 3"                   # B overrides again
D = m.new_space('D', bases=[Base])                                             # D.foo is derived from Base.foo
assert (Sub.foo(), B.foo(), D.foo()) == (2, 3, 1)
Base.foo.formula = "lambda: 10"
assert A.foo() == 2
assert D.foo() == 10, D.foo()
assert Sub.foo() == 2, "Sub.foo is derived from A.foo but got the formula assigned to Base.foo: %r" % Sub.foo()
assert B.foo() == 3, "the defined B.foo was overwritten: %r" % B.foo()
assert B.foo._is_defined() and Sub.foo._is_derived()
print("OK")
