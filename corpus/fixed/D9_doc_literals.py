import modelx as mx, tempfile, os, warnings
warnings.simplefilter("ignore")
docs = ['ends with a quote"', 'has """three""" quotes', 'back\\slash and \\n literal', 'carriage\rreturn', 'plain\ntwo lines', "it's"]
for i, doc in enumerate(docs):
    m = mx.new_model('M%d' % i); m.doc = doc
    s = m.new_space('S'); s.doc = doc
    c = s.new_cells('f', formula="lambda x: x"); c.doc = doc
    d = tempfile.mkdtemp()
    mx.write_model(m, os.path.join(d, 'm'))
    r = mx.read_model(os.path.join(d, 'm'), name='R%d' % i)     # a model written without error can be read back
    got = (r.doc, r.S.doc, r.S.f.doc)
    assert got == (doc, doc, doc), "documentation %r came back as %r" % (doc, got)
    m.close(); r.close()
print("OK")
