# C15: a keyword-argument name equal to a name of the space must not be rewritten by the exporter
import modelx as mx, tempfile, os, sys, importlib
m = mx.new_model('M29'); S = m.new_space('S'); S.k = 3
S.new_cells('bar', formula=lambda k: k * 2)
S.new_cells('foo', formula=lambda: bar(k=k))
d = tempfile.mkdtemp(); m.export(os.path.join(d, 'M29_nomx'))
sys.path.insert(0, d); pkg = importlib.import_module('M29_nomx')
assert pkg.mx_model.S.foo() == 6
print("ok")
