import modelx as mx, pandas as pd
m = mx.new_model('M'); s = m.new_space('S')
df = pd.DataFrame({'a': [1, 2]})
s.new_pandas('x', 'f.csv', df, file_type='csv')
assert len(m.iospecs) == 1
s.x = df            # rebinding the name to the value it already holds
assert s.x is df
assert len(m.iospecs) == 1 and m.get_spec(df) is not None, "the spec of a value that is still referenced was deleted"
del s.x
assert len(m.iospecs) == 0
print("OK")
