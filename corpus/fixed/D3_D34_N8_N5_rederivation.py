import modelx as mx
# D3: diamond below the edited space
m = mx.new_model('M')
N = m.new_space('N'); N.new_cells('foo', formula="lambda: 1")
X = m.new_space('X', bases=[N]); B = m.new_space('B', bases=[X]); Y = m.new_space('Y', bases=[X])
C = m.new_space('C', bases=[Y]); D = m.new_space('D', bases=[B, C])
X.remove_bases(N)
for s in (X, B, Y, C, D):
    assert 'foo' not in s.cells, "foo is still in %s" % s.name
assert X.bases == []
m._impl._check_sanity()
# D34: a descendant loses its MRO: refused, nothing changes
m2 = mx.new_model('M2')
A = m2.new_space('A'); Bb = m2.new_space('B')
Xx = m2.new_space('X', bases=[A, Bb]); Xx.new_cells('bar', formula="lambda: 2")
Yy = m2.new_space('Y', bases=[Bb]); Zz = m2.new_space('Z', bases=[A])
n = m2.new_space('n', bases=[Xx, Yy, Zz]); W = m2.new_space('W', bases=[A, Bb]); Dd = m2.new_space('D', bases=[n, W])
try:
    n.remove_bases(Xx)
    raise SystemExit("remove_bases accepted although D has no MRO afterwards")
except TypeError:
    pass
assert 'bar' in n.cells and Xx in n.bases, "the refused remove_bases changed the model"
m2._impl._check_sanity()
# N8 / C13e: a child space deriving from its parent; N5 / C13a: sub space of a child of the deleted space
m3 = mx.new_model('M3')
a = m3.new_space('a'); b = a.new_space('b', bases=[a])
Aa = m3.new_space('A'); Ch = Aa.new_space('Ch'); Ch.new_cells('c', formula="lambda: 3")
Cc = m3.new_space('C', bases=[Ch])
del m3.a
assert 'a' not in m3.spaces
m3._impl._check_sanity()
del m3.A
assert 'c' not in Cc.cells, "C keeps a derived cells c without any base"
m3._impl._check_sanity()
print("OK")
