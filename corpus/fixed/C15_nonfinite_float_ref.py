import modelx as mx, tempfile, sys, os, math
m = mx.new_model('M'); s = m.new_space('S')
s.cap = float('inf'); s.floor = float('-inf'); s.missing = float('nan')
s.new_cells('f', formula="lambda x: min(x, cap) + (0 if missing != missing else 1)")
d = tempfile.mkdtemp(); m.export(os.path.join(d, 'pkg'))
sys.path.insert(0, d)
import pkg                                   # must import
x = pkg.mx_model
assert x.S.f(3) == s.f(3) == 3 and x.S.cap == float('inf') and x.S.floor == float('-inf') and math.isnan(x.S.missing)
print("OK")
