import modelx as mx
m = mx.new_model('M')
m.new_space('c')
m.new_space('b').new_space('c')        # b.c shares its bare name with the top-level space c
m._impl._check_sanity()                # the self-check of a consistent model must pass
print("OK")
