import modelx as mx
m = mx.new_model('M')
S = m.new_space('S', formula=lambda i: {"refs": [1]} if i == 1 else None)
C = S.new_space('C'); C.new_cells('bar', formula="lambda: 5")
S.new_cells('foo', formula="lambda: i")
try:
    S[1]
    raise SystemExit("S[1] was built")
except SystemExit:
    raise
except Exception as e:
    print("S[1] failed:", type(e).__name__)
assert S[2].foo() == 2
S.foo.formula = "lambda: i * 2"          # a later edit of the base must not crash
C.bar.formula = "lambda: 6"
assert S[2].foo() == 4 and S[2].C.bar() == 6
assert len(S.itemspaces) == 1
m._impl._check_sanity()
print("OK")
