import modelx as mx
m = mx.new_model()
A = m.new_space('A')
# D11: rejected new_cells leaves nothing behind
try:
    A.new_cells('b', formula='1 +')
    raise SystemExit("malformed formula accepted")
except SyntaxError:
    pass
assert 'b' not in A.cells, "D11: a formula-less cells b was left in A"
# D12: rejected formula assignment on a derived cells
@mx.defcells(space=A)
def b(x): return x
C = m.new_space('C', bases=A)
try:
    C.b.set_formula('1 +')
    raise SystemExit("malformed formula accepted")
except SyntaxError:
    pass
assert C.b._impl.is_derived(), "D12: the rejected assignment made C.b a defined cells"
# D12_input: rejected formula assignment keeps the input
A.b[5] = 50
try:
    A.b.set_formula('1 +')
    raise SystemExit("malformed formula accepted")
except SyntaxError:
    pass
assert dict(A.b) == {5: 50}, "D12_input: the input was lost: %r" % (dict(A.b),)
print("OK")
