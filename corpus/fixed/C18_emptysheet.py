"""C18 emptysheet: sheet='' is the default sheet, like sheet=None: it cannot share an excel file."""
import modelx as mx, pandas as pd, os, tempfile

m = mx.new_model('M'); s = m.new_space('S')
df1, df2, df3 = (pd.DataFrame({'a': [k, k + 1]}) for k in (1, 2, 3))

s.new_pandas('x', 'f.xlsx', df1, file_type='excel', sheet='')
for name, sheet in (('y', 'Sheet1'), ('y', 's2'), ('y', '')):
    try:
        s.new_pandas(name, 'f.xlsx', df2, file_type='excel', sheet=sheet)
    except (ValueError, KeyError):
        pass
    else:
        assert False, "sheet=%r was accepted next to sheet='' in one file: %r" % (
            sheet, [(str(sp.path), sp.sheet) for sp in m.iospecs])
    assert len(m.iospecs) == 1 and not hasattr(s, 'y'), "rejected creation left something behind"
del s.x

s.new_pandas('x', 'f.xlsx', df1, file_type='excel', sheet='Sheet1')
try:
    s.new_pandas('y', 'f.xlsx', df2, file_type='excel', sheet='')
except (ValueError, KeyError):
    pass
else:
    assert False, "sheet='' was accepted next to sheet='Sheet1'"
s.new_pandas('y', 'f.xlsx', df2, file_type='excel', sheet='s2')
try:
    m.get_spec(df2).sheet = ''
except ValueError:
    pass
else:
    assert False, "spec.sheet = '' was accepted in a shared file"
assert m.get_spec(df2).sheet == 's2'

s.new_pandas('z', 'g.xlsx', df3, file_type='excel', sheet='s1')
m.get_spec(df3).sheet = ''                        # alone in its file: allowed, now the default sheet

d = tempfile.mkdtemp()
mx.write_model(m, os.path.join(d, 'model'), backup=False)
r = mx.read_model(os.path.join(d, 'model'), name='R')
assert r.S.x.equals(df1), "the value of S.x was lost on save:\n%r" % (r.S.x,)
assert r.S.y.equals(df2)
assert r.S.z.equals(df3)
r.close(); m.close()
print("OK")
