# C12: the references given to new_space are tested against the members the bases bring, have valid names and are
# registered like assigned ones
import modelx as mx
m = mx.new_model(); B = m.new_space('B'); B.new_cells('x', formula=lambda: 1)
try:
    S = m.new_space('S', bases=B, refs={'x': 5})
    refused = False
except NameError:
    refused = True
assert refused, (list(S.cells), list(S._own_refs))
assert 'S' not in m.spaces
try:
    m.new_space('T', refs={'_y': 5})
    refused = False
except ValueError:
    refused = True
assert refused and 'T' not in m.spaces
U = m.new_space('U', bases=B, refs={'y': 5})
del U.y                                   # AssertionError before: the reference was not registered
assert list(U._own_refs) == [] and list(U.cells) == ['x']
m._impl._check_sanity()
print("ok")
