"""C18 scalar: new_pandas / new_module onto the name of a scalar cells must be rejected and leave
neither a spec nor a reference; plain assignment to a scalar cells keeps setting its value."""
import modelx as mx, pandas as pd, os, tempfile

def nspecs():
    return sum(len(io.specs) for io in mx.core.mxsys.iomanager.ios.values())

m = mx.new_model('M'); s = m.new_space('S'); sub = m.new_space('Sub')
s.new_cells('k', formula='lambda: 1')
sub.add_bases(s)                                  # Sub.k is a derived scalar cells
df = pd.DataFrame({'a': [1, 2]})
src = os.path.join(tempfile.mkdtemp(), 'modsrc.py')
open(src, 'w').write('K = 1\n')

for owner in (s, sub):
    for what, make in (('new_pandas', lambda o: o.new_pandas('k', 'a.csv', df, file_type='csv')),
                       ('new_module', lambda o: o.new_module('k', 'mod/m.py', src))):
        try:
            make(owner)
        except (KeyError, ValueError, AttributeError):
            pass
        else:
            assert False, "%s.%s onto the scalar cells 'k' was accepted: iospecs %r, %d specs in the IO manager, k = %r" % (
                owner.name, what, m.iospecs, nspecs(), type(owner.cells['k']()).__name__)
        assert nspecs() == 0 and m.iospecs == [], "rejected %s left a spec: %r" % (what, m.iospecs)
        assert 'k' not in owner.refs, "rejected %s left a reference" % what
        assert isinstance(s.k, mx.core.cells.Cells) and s.k() == 1, "rejected %s changed the cells" % what

s.k = 5                                           # plain assignment: the cells' value
assert s.k() == 5 and 'k' not in s.refs
s.new_pandas('x', 'a.csv', df, file_type='csv')   # the location was not taken by the rejected attempts
assert len(m.iospecs) == 1 and nspecs() == 1 and s.x is df
mx.core.mxsys._check_sanity()
m.close()
print("OK")
