import modelx as mx
m = mx.new_model('M')
S = m.new_space('S'); S.y = 5
S.new_cells('gy', formula="lambda: y + i")
S.formula = lambda i: None
T = m.new_space('T', formula=lambda k: {'base': S}); T.S = S
h = T[1]                                    # a dynamic copy of S, with S's parameter formula
assert h[3].gy() == 8
S.formula = lambda i: {'refs': {'y': 1000}}  # new parameter formula of S
h2 = T[1]
assert h2[3].gy() == 1003, "T[1] (base S) still builds its ItemSpaces with S's old parameter formula: %r" % h2[3].gy()
print("OK")
