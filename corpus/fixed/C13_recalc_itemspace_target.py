# C06/C07/C13: with the recalculation option on, an assignment whose dependents include ItemSpaces (and cells inside
# ItemSpaces that the assignment deletes) recomputes the live leaves and evaluates nothing of a deleted object
import modelx as mx
m = mx.new_model(); Src = m.new_space('Src')
Src.new_cells('a', formula=lambda: 5)
Src.new_cells('y', formula=lambda: a() + 1)
m.S = Src
P = m.new_space('P', formula=lambda i: {'refs': {'n': S.y()}})
P.new_cells('z', formula=lambda: n * 10)
h = P[1]; hz = h.z
assert hz() == 60
oldimpl = hz._impl
mx.set_recalc(True)
try:
    Src.a = 9                 # KeyError: (1,) before the repair, y left empty
finally:
    mx.set_recalc(False)
assert dict(Src.y) == {(): 10}, dict(Src.y)
assert P[1].z() == 100
g = m.tracegraph
assert all(n[0].interface._impl is n[0] for n in g.nodes), "a node of a deleted object is in the trace graph"
assert oldimpl.interface._impl is not oldimpl or hz() == 100
print("ok")
