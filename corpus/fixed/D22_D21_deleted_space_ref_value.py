import modelx as mx
m = mx.new_model('M')
P = m.new_space('P'); Sx = P.new_space('Sx'); Sx.x = 7
Sy = P.new_space('Sy'); Sy.y = 8
G = m.new_space('G'); G.P = P
foo = G.new_cells('foo', formula='lambda i: P.Sx.x')
bar = G.new_cells('bar', formula='lambda i: P.Sy.y')
assert foo(1) == 7 and bar(1) == 8
del P.Sx                      # the space whose reference foo(1) read is deleted
assert dict(foo) == {}, "a value read from a reference of a deleted space survives: %r" % (dict(foo),)
Sy.rename('Sz')               # the space whose reference bar(1) read is renamed
assert dict(bar) == {}, "a value read through the old name of a renamed space survives: %r" % (dict(bar),)
Sz = P.Sz; Ch = Sz.new_space('Ch'); Ch.z = 9
baz = G.new_cells('baz', formula='lambda i: P.Sz.Ch.z')
assert baz(1) == 9
Sz.rename('Sw')               # the reference baz(1) read is in a child space of the renamed space
assert dict(baz) == {}, "a value read through the old name of a renamed space survives: %r" % (dict(baz),)
print("OK")
