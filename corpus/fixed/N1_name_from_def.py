import modelx as mx
m = mx.new_model('M')
A = m.new_space('A'); A.foo = 1
try:
    A.new_cells(formula='def foo(): return 1')     # the name comes from the def
    raise SystemExit("a cells named like a reference of the space was accepted: %r %r" % (list(A.cells), list(A.refs)[:3]))
except ValueError:
    pass
assert 'foo' not in A.cells and A.foo == 1
B = m.new_space('B'); c = B.new_cells(formula='def bar(x): return x')
c[1] = 5
try:
    B.new_cells(formula='def bar(x): return 2 * x')  # would silently replace the cells (and its input)
    raise SystemExit("an existing cells was replaced")
except ValueError:
    pass
assert B.bar is c and dict(c) == {1: 5}
print("OK")
