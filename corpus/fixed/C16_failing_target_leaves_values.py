# C16: generate_actions on a target that fails leaves no calculated value behind
import modelx as mx
m = mx.new_model(); s = m.new_space()
s.new_cells('A', formula='def A(x):\n    return x')
s.new_cells('T', formula='def T(x):\n    a = A(x)\n    raise ValueError("boom")')
try:
    m.generate_actions([s.T.node(1)])
    raised = False
except Exception:
    raised = True
assert raised
assert dict(s.A) == {} and dict(s.T) == {}, (dict(s.A), dict(s.T))
print("ok")
