import modelx as mx, pandas as pd
m = mx.new_model('M'); s = m.new_space('S')
df = pd.DataFrame({'a': [1, 2]})
s.new_pandas('x', 'f.csv', df, file_type='csv')
try:
    s.new_pandas('y', 'g.csv', df, file_type='csv')       # the same value again
    raise SystemExit("accepted: iospecs %r, specs in the IO manager: %d" % (m.iospecs, sum(len(i.specs) for i in mx.core.mxsys.iomanager.ios.values())))
except ValueError:
    pass
assert len(m.iospecs) == 1 and not hasattr(s, 'y')
assert len(mx.core.mxsys.iomanager.ios) == 1, "the rejected creation left a file entry behind"
del s.x
assert len(m.iospecs) == 0 and sum(len(i.specs) for i in mx.core.mxsys.iomanager.ios.values()) == 0
print("OK")
