# C02/C06: first version of the D5 fix added the reference-graph edge to the cached caller while it was
# still executing; when the caller then failed, the edge stayed and a later reference change wiped a
# user-assigned value of that element (found by ./check C02, VERIF_SEED=1)
import modelx as mx
m = mx.new_model(); S = m.new_space('S'); T = m.new_space('T')
S.r = 1
T.new_cells('u', formula='lambda: _model.S.r'); T.u.is_cached = False
T.new_cells('top', formula='def top():\n    t = u()\n    return None')
try:
    T.top()
except mx.core.errors.FormulaError:
    pass
T.top = 7          # user input
S.r = 2            # must not discard the input
assert T.top() == 7 and T.top.is_input(), dict(T.top)
print("ok")
