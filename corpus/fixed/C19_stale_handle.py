import modelx as mx
m1 = mx.new_model('M')
m1.close()
m2 = mx.new_model('M')          # another model takes the name
for act in (lambda: m1.close(), lambda: m1.rename('N')):
    try:
        act()
    except KeyError:
        pass
    assert mx.get_models() == {'M': m2}, "an operation through the stale handle acted on the other model: %r" % (mx.get_models(),)
    assert m2.name == 'M'
m2.rename('K'); assert mx.get_models() == {'K': m2}
m2.close(); assert mx.get_models() == {}
print("OK")
