import modelx as mx
m = mx.new_model('M')
def param(i):
    try:
        bad()
    except Exception:
        pass
S = m.new_space('S', formula=param)
S.new_cells('bad', formula="lambda: 1/0")
S.new_cells('foo', formula="lambda: i * 10")
assert S[1].foo() == 10
S.foo.formula = "lambda: i * 100"
assert S[1].foo() == 100, "S[1] (built by a parameter formula that caught a failure) keeps the old definition: %r" % S[1].foo()
del S[1]
assert len(S.itemspaces) == 0, "del S[1] did not delete the ItemSpace"
c = S.new_cells('outer', formula="lambda: S[2].foo()")   # a cells whose formula builds such an ItemSpace
S.S = S
assert S.outer() == 200
print("OK")
