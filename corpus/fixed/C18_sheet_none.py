import modelx as mx, pandas as pd, tempfile, os, warnings
warnings.simplefilter("ignore")
m = mx.new_model('M'); s = m.new_space('S')
a = pd.DataFrame({'a': [1, 2]}); b = pd.DataFrame({'b': [3, 4]})
s.new_pandas('x', 'f.xlsx', a, file_type='excel', sheet='Sheet1')
s.new_pandas('y', 'f.xlsx', b, file_type='excel', sheet='Other')
try:
    m.get_spec(b).sheet = None            # shared file: both would be written to 'Sheet1'
    raise SystemExit("sheet = None accepted in a shared excel file")
except ValueError:
    pass
assert m.get_spec(b).sheet == 'Other'
c = pd.DataFrame({'c': [5, 6]})
s.new_pandas('z', 'g.xlsx', c, file_type='excel', sheet='Data')
m.get_spec(c).sheet = None                # alone in its file: allowed
d = tempfile.mkdtemp(); mx.write_model(m, os.path.join(d, 'm'))
r = mx.read_model(os.path.join(d, 'm'), name='R')
assert isinstance(r.S.z, pd.DataFrame), "after write/read the reference holds %s" % type(r.S.z).__name__
assert list(r.S.z['c']) == [5, 6] and list(r.S.x['a']) == [1, 2] and list(r.S.y['b']) == [3, 4]
print("OK")
