# C02/C09: reference read by name inside an uncached cells of another space
import modelx as mx
m = mx.new_model(); S = m.new_space('S'); T = m.new_space('T')
S.z = 1
S.new_cells('u', formula='lambda: z'); S.u.is_cached = False
T.new_cells('top', formula='lambda: _model.S.u() + 1')
assert T.top() == 2
S.z = 2
assert T.top() == 3, "stale: %r" % T.top()
print("ok")
