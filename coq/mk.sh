#!/bin/sh
# regenerate Makefile from _CoqProject + every .v under theories/, then build targets ($@ or all)
cd "$(dirname "$0")" || exit 2
mkdir -p ../build
exec 9>../build/.mklock
flock 9
find theories -name '*.v' | LC_ALL=C sort > .files.tmp
if ! cmp -s .files.tmp .files 2>/dev/null || [ ! -f Makefile ]; then
  mv .files.tmp .files
  coq_makefile -f _CoqProject $(cat .files) -o Makefile >/dev/null || exit 2
else rm -f .files.tmp; fi
exec timeout ${MX_MAKE_TIMEOUT:-3000} make -j${MX_JOBS:-12} "$@"
