(** Alive layer - basic lemmas: association lists, the primitive state
    transformers field by field. *)
From Coq Require Import List String Bool Arith ZArith NArith Lia.
From MX Require Import Alive.Model.
Import ListNotations.

(** ---- membership / lookups ---- *)
Lemma memN_In : forall x l, memN x l = true <-> In x l.
Proof.
  intros x l; induction l as [|y t IH]; simpl; [split; [discriminate|tauto]|].
  rewrite orb_true_iff, IH, N.eqb_eq. split; intros [H|H]; auto.
Qed.

Lemma memN_false : forall x l, memN x l = false <-> ~ In x l.
Proof.
  intros x l. rewrite <- memN_In. destruct (memN x l); split; intros H; auto; try discriminate.
  exfalso; apply H; reflexivity.
Qed.

Lemma memN_app : forall x a b, memN x (a ++ b) = memN x a || memN x b.
Proof.
  intros x a b; induction a as [|y t IH]; simpl; [reflexivity|]. rewrite IH, orb_assoc; reflexivity.
Qed.

Lemma lookupN_In : forall {A} x (l : list (N * A)) v, lookupN x l = Some v -> In (x, v) l.
Proof.
  intros A x l v; induction l as [|[k w] t IH]; simpl; [discriminate|].
  destruct (N.eqb k x) eqn:E.
  - intros H; inversion H; subst. apply N.eqb_eq in E; subst. left; reflexivity.
  - intros H; right; apply IH; exact H.
Qed.

Lemma lookupN_None : forall {A} x (l : list (N * A)), lookupN x l = None -> forall v, ~ In (x, v) l.
Proof.
  intros A x l; induction l as [|[k w] t IH]; simpl; intros H v; [tauto|].
  destruct (N.eqb k x) eqn:E; [discriminate|].
  intros [HH|HH]; [inversion HH; subst; rewrite N.eqb_refl in E; discriminate|].
  exact (IH H v HH).
Qed.

Lemma lookupN_app : forall {A} x (l m : list (N * A)),
  lookupN x (l ++ m) = match lookupN x l with Some v => Some v | None => lookupN x m end.
Proof.
  intros A x l m; induction l as [|[k w] t IH]; simpl; [reflexivity|].
  destruct (N.eqb k x); [reflexivity|exact IH].
Qed.

Lemma lookupS_In : forall {A} x (l : list (string * A)) v, lookupS x l = Some v -> In (x, v) l.
Proof.
  intros A x l v; induction l as [|[k w] t IH]; simpl; [discriminate|].
  destruct (String.eqb k x) eqn:E.
  - intros H; inversion H; subst. apply String.eqb_eq in E; subst. left; reflexivity.
  - intros H; right; apply IH; exact H.
Qed.

Lemma lookupS_app : forall {A} x (l m : list (string * A)),
  lookupS x (l ++ m) = match lookupS x l with Some v => Some v | None => lookupS x m end.
Proof.
  intros A x l m; induction l as [|[k w] t IH]; simpl; [reflexivity|].
  destruct (String.eqb k x); [reflexivity|exact IH].
Qed.

Lemma lookupS_filter : forall {A} (p : string * A -> bool) x (l : list (string * A)) v,
  lookupS x l = Some v -> p (x, v) = true -> lookupS x (filter p l) = Some v.
Proof.
  intros A p x l v; induction l as [|[k w] t IH]; simpl; [discriminate|].
  destruct (String.eqb k x) eqn:E.
  - intros H Hp; inversion H; subst. apply String.eqb_eq in E; subst.
    rewrite Hp; simpl. rewrite String.eqb_refl. reflexivity.
  - intros H Hp. destruct (p (k, w)); simpl; [rewrite E|]; apply IH; assumption.
Qed.

Lemma lookupZ_In : forall {A} x (l : list (Z * A)) v, lookupZ x l = Some v -> In (x, v) l.
Proof.
  intros A x l v; induction l as [|[k w] t IH]; simpl; [discriminate|].
  destruct (Z.eqb k x) eqn:E.
  - intros H; inversion H; subst. apply Z.eqb_eq in E; subst. left; reflexivity.
  - intros H; right; apply IH; exact H.
Qed.

Lemma In_map_snd : forall {A B} (x : A) (y : B) l, In (x, y) l -> In y (map snd l).
Proof. intros A B x y l H. change y with (snd (x, y)). apply in_map; exact H. Qed.

Lemma dedupN_incl : forall l x, In x (dedupN l) -> In x l.
Proof.
  induction l as [|y t IH]; simpl; intros x H; [exact H|].
  destruct (memN y t); [right; apply IH; exact H|].
  destruct H as [H|H]; [left; exact H|right; apply IH; exact H].
Qed.

(** ---- object table ---- *)
Lemma get_obj_add_obj_other : forall st u o k v, v <> u -> get_obj (add_obj st u o k) v = get_obj st v.
Proof.
  intros st u o k v Hne. unfold get_obj, add_obj; cbn [st_objs].
  destruct (lookupN u (st_objs st)) eqn:E; [reflexivity|].
  rewrite lookupN_app. destruct (lookupN v (st_objs st)); [reflexivity|].
  simpl. destruct (N.eqb u v) eqn:E2; [apply N.eqb_eq in E2; congruence|reflexivity].
Qed.

Lemma get_obj_add_obj_same : forall st u o k,
  (get_obj st u = None \/ get_obj st u = Some o) -> get_obj (add_obj st u o k) u = Some o.
Proof.
  intros st u o k H. unfold get_obj, add_obj in *; cbn [st_objs].
  destruct (lookupN u (st_objs st)) eqn:E.
  - destruct H as [H|H]; [discriminate|]. rewrite E. exact H.
  - rewrite lookupN_app, E. simpl. rewrite N.eqb_refl. reflexivity.
Qed.

(** an existing object is never changed by [add_obj] *)
Lemma get_obj_add_obj_stable : forall st u o k v ov,
  get_obj st v = Some ov -> get_obj (add_obj st u o k) v = Some ov.
Proof.
  intros st u o k v ov H. unfold get_obj, add_obj in *; cbn [st_objs].
  destruct (lookupN u (st_objs st)) eqn:E; [exact H|].
  rewrite lookupN_app, H. reflexivity.
Qed.

Lemma alive_add_obj : forall st u o k v, alive (add_obj st u o k) v = N.eqb v u || alive st v.
Proof. intros; reflexivity. Qed.

Lemma alive_purge : forall K st u, alive (purge K st) u = alive st u && negb (memN u K).
Proof.
  intros K st u. unfold alive, purge; cbn [st_alive].
  induction (st_alive st) as [|y t IH]; simpl; [reflexivity|].
  destruct (memN y K) eqn:E; simpl.
  - rewrite IH. destruct (N.eqb u y) eqn:E2; simpl; [|reflexivity].
    apply N.eqb_eq in E2; subst. rewrite E. simpl. rewrite andb_false_r. reflexivity.
  - rewrite IH. destruct (N.eqb u y) eqn:E2; simpl; [|reflexivity].
    apply N.eqb_eq in E2; subst. rewrite E. reflexivity.
Qed.

Lemma under_set_spec : forall st seeds u,
  In u (under_set st seeds) <->
  alive st u = true /\ exists a, (a = u \/ In a (chain_of st u)) /\ In a seeds.
Proof.
  intros st seeds u. unfold under_set. rewrite filter_In, existsb_exists.
  unfold alive. rewrite memN_In. split.
  - intros [H1 [a [H2 H3]]]. split; [exact H1|]. exists a. rewrite memN_In in H3. split; [|exact H3].
    destruct H2 as [H2|H2]; [left; symmetry; exact H2|right; exact H2].
  - intros [H1 [a [H2 H3]]]. split; [exact H1|]. exists a. rewrite memN_In. split; [|exact H3].
    destruct H2 as [H2|H2]; [left; symmetry; exact H2|right; exact H2].
Qed.

Lemma under_set_alive : forall st seeds u, In u (under_set st seeds) -> alive st u = true.
Proof. intros st seeds u H; apply under_set_spec in H; tauto. Qed.
