(** Alive layer - statements about single deletions: the deleted object is
    dead afterwards, only the deleted-object error answers a dead handle,
    nothing outside the closure is killed.  Examples. *)
From Coq Require Import List String Bool Arith ZArith NArith Lia.
From MX Require Import Alive.Model Alive.ProofsBase Alive.ProofsRes Alive.ProofsStr Alive.ProofsDer Alive.ProofsStep.
Import ListNotations.

(** ---- dead stays dead inside one deletion ---- *)
Lemma alive_purge_false : forall K st x, alive st x = false -> alive (purge K st) x = false.
Proof. intros K st x H. rewrite alive_purge, H. reflexivity. Qed.

Lemma alive_settle_false : forall st Ts l x, alive st x = false -> alive (settle st Ts l) x = false.
Proof. intros st Ts l x H. unfold settle. apply alive_purge_false. exact H. Qed.

Lemma alive_ns_change_false : forall st Ts l x, alive st x = false -> alive (ns_change st Ts l) x = false.
Proof. intros st Ts l x H. unfold ns_change, discard_items. apply alive_purge_false. exact H. Qed.

Lemma new_cells_obj_old : forall st T n d x,
  (x < st_next st)%N -> alive (new_cells_obj st T n d) x = alive st x /\ (x < st_next (new_cells_obj st T n d))%N.
Proof.
  intros st T n d x Hx. unfold new_cells_obj. rewrite alive_upd_cont, alive_add_obj. split.
  - destruct (N.eqb x (st_next st)) eqn:E; [apply N.eqb_eq in E; lia|reflexivity].
  - cbn. lia.
Qed.

Lemma fold_names_old : forall T d l st x,
  (x < st_next st)%N ->
  alive (fold_left (fun s n => new_cells_obj s T n d) l st) x = alive st x
  /\ (x < st_next (fold_left (fun s n => new_cells_obj s T n d) l st))%N.
Proof.
  intros T d l; induction l as [|n t IH]; simpl; intros st x Hx; [split; [reflexivity|exact Hx]|].
  destruct (new_cells_obj_old st T n d x Hx) as [H1 H2]. destruct (IH _ x H2) as [H3 H4].
  split; [rewrite H3; exact H1|exact H4].
Qed.

Lemma fold_derive_old : forall l st x,
  (x < st_next st)%N ->
  alive (fold_left derive_space l st) x = alive st x /\ (x < st_next (fold_left derive_space l st))%N.
Proof.
  induction l as [|T t IH]; simpl; intros st x Hx; [split; [reflexivity|exact Hx]|].
  destruct (fold_names_old T true (missing st T) st x Hx) as [H1 H2].
  destruct (IH (derive_space st T) x H2) as [H3 H4]. split; [rewrite H3; exact H1|exact H4].
Qed.

Lemma create_derived_false : forall st l x,
  (x < st_next st)%N -> alive st x = false -> alive (create_derived st l) x = false.
Proof.
  intros st l x Hx H. unfold create_derived. apply alive_ns_change_false.
  rewrite (proj1 (fold_derive_old l st x Hx)). exact H.
Qed.

Lemma alive_lt_next : forall st x, Str st -> alive st x = true -> (x < st_next st)%N.
Proof.
  intros st x [H1 [H2 _]] Hx. destruct (get_obj st x) as [o|] eqn:E; [|exfalso; exact (H2 _ Hx E)].
  apply lookupN_In in E. exact (proj1 (H1 _ _ E)).
Qed.

(** ---- the deleted object is dead ---- *)
Lemma del_space_kills : forall st p x st' o,
  step_del_space st p x = (st', o) -> alive st' x = false.
Proof.
  intros st p x st' o E. unfold step_del_space in E. inversion E; subst; clear E.
  apply alive_settle_false. change (alive (clear_derived ?s ?v) x) with (alive s x).
  rewrite alive_purge. destruct (alive st x) eqn:Ex; [|reflexivity]. simpl.
  apply negb_false_iff. apply memN_In. apply under_set_spec. split; [exact Ex|].
  exists x. split; [left; reflexivity|left; reflexivity].
Qed.

Lemma del_cells_kills : forall st s c st',
  Inv st -> alive st c = true -> step_del_cells st s c = (st', ODone) -> alive st' c = false.
Proof.
  intros st s c st' [_ [HS _]] Ec E. unfold step_del_cells in E.
  destruct (negb (is_defined st c)); [discriminate|]. inversion E; subst; clear E.
  apply create_derived_false.
  - exact (alive_lt_next _ _ HS Ec).
  - apply alive_settle_false. change (alive (clear_derived ?s0 ?v) c) with (alive s0 c).
    rewrite alive_purge, Ec. simpl. apply negb_false_iff, memN_In, under_set_spec.
    split; [exact Ec|]. exists c. split; [left; reflexivity|left; reflexivity].
Qed.

(** what [del u.name] deletes *)
Definition deleted_target (st : state) (u : uid) (name : string) : option uid :=
  match kind_of st u with
  | KModel => lookupS name (c_spaces (get_cont st u))
  | KSpace => match lookupS name (c_cells (get_cont st u)) with
              | Some c => Some c
              | None => lookupS name (c_spaces (get_cont st u))
              end
  | _ => None
  end.

Lemma del_attr_kills : forall st u name st' x,
  Inv st -> step_del_attr st u name = (st', ODone) -> deleted_target st u name = Some x ->
  alive st' x = false.
Proof.
  intros st u name st' x H E Hx. pose proof H as [HR _]. unfold step_del_attr in E. unfold deleted_target in Hx.
  destruct (kind_of st u); try discriminate.
  - rewrite Hx in E. exact (del_space_kills _ _ _ _ _ E).
  - destruct (lookupS name (c_cells (get_cont st u))) as [c|] eqn:Ec.
    + inversion Hx; subst c. apply (del_cells_kills st u x st' H); [|exact E].
      exact (res_cells_entry_alive _ _ _ _ HR Ec).
    + rewrite Hx in E. exact (del_space_kills _ _ _ _ _ E).
Qed.

Lemma step_del_attr_eq : forall st h name u,
  handle st h = Some u -> alive st u = true -> step st (DelAttr h name) = step_del_attr st u name.
Proof.
  intros st h name u Hh Hu. unfold step. cbn [op_handles handles]. rewrite Hh, Hu. reflexivity.
Qed.

(** C13_dead: after [del u.name] the deleted object and everything inside it,
    at any depth, is dead - in every history *)
Theorem delete_kills_inside : forall ft ops h name u x v,
  let st := run ft ops in
  let st' := run ft (ops ++ [DelAttr h name]) in
  handle st h = Some u -> alive st u = true -> deleted_target st u name = Some x ->
  snd (step st (DelAttr h name)) = ODone ->
  inside st' x v -> alive st' v = false.
Proof.
  intros ft ops h name u x v st st' Hh Hu Hx Ho Hi.
  assert (st' = fst (step st (DelAttr h name))) as Est.
  { unfold st', st, run, run_from. rewrite fold_left_app. reflexivity. }
  apply (dead_inside ft (ops ++ [DelAttr h name]) x v Hi). fold st'. rewrite Est.
  rewrite (step_del_attr_eq _ _ _ _ Hh Hu) in *.
  destruct (step_del_attr st u name) as [s1 o1] eqn:E. cbn [fst snd] in *. subst o1.
  exact (del_attr_kills _ _ _ _ _ (inv_run ft ops) E Hx).
Qed.

(** ---- nothing else is killed: spaces and defined cells outside the deleted tree survive ---- *)
(** [hard st v]: v is a live model / space / defined cells *)
Definition hard (st : state) (v : uid) : Prop :=
  alive st v = true /\ (contk (kind_of st v) = true \/ is_defined st v = true).

Lemma hard_purge_soft : forall st seeds v,
  Str st -> soft_seeds st seeds -> hard st v -> hard (purge (under_set st seeds) st) v.
Proof.
  intros st seeds v HS Hs [Hv Hk]. split; [|exact Hk]. rewrite alive_purge, Hv. simpl. apply negb_true_iff.
  destruct Hk as [Hk|Hk].
  - apply memN_false. apply static_not_under; [exact HS|exact Hk|]. intros a Ha. exact (proj1 (Hs _ Ha)).
  - exact (under_soft_defined _ _ _ HS Hs Hk).
Qed.

Lemma hard_settle : forall st Ts l v, Str st -> hard st v -> hard (settle st Ts l) v.
Proof.
  intros st Ts l v HS Hv. unfold settle. apply hard_purge_soft; [exact HS| |exact Hv].
  apply soft_app; [exact (orphans_soft st)|apply item_seeds_soft].
Qed.

Lemma hard_ns_change : forall st Ts l v, Str st -> hard st v -> hard (ns_change st Ts l) v.
Proof.
  intros st Ts l v HS Hv. unfold ns_change, discard_items, item_set.
  apply hard_purge_soft; [exact HS|apply item_seeds_soft|exact Hv].
Qed.

Lemma hard_new_cells_obj : forall st T n d v, Str st -> hard st v -> hard (new_cells_obj st T n d) v.
Proof.
  intros st T n d v HS [Hv Hk]. split; [apply alive_new_cells_obj_mono; exact Hv|].
  pose proof HS as [_ [H2 _]]. pose proof (H2 _ Hv) as Hex.
  destruct (get_obj st v) as [o|] eqn:Eg; [|congruence].
  assert (get_obj (new_cells_obj st T n d) v = Some o) as Hg.
  { unfold new_cells_obj. change (get_obj (upd_cont ?s T ?f) v) with (get_obj s v).
    apply get_obj_add_obj_stable. exact Eg. }
  unfold kind_of, is_defined in *. rewrite Hg. rewrite Eg in Hk. exact Hk.
Qed.

Lemma hard_fold_names : forall T d l st v,
  Str st -> live_space st T -> hard st v -> hard (fold_left (fun s n => new_cells_obj s T n d) l st) v.
Proof.
  intros T d l; induction l as [|n t IH]; simpl; intros st v HS HT Hv; [exact Hv|].
  apply IH; [apply str_new_cells_obj; [exact HS|exact (proj1 HT)|exact (proj2 HT)]
            |apply live_space_new_cells_obj; assumption|apply hard_new_cells_obj; assumption].
Qed.

Lemma hard_fold_derive : forall l st v,
  Str st -> (forall T, In T l -> live_space st T) -> hard st v -> hard (fold_left derive_space l st) v.
Proof.
  induction l as [|T t IH]; simpl; intros st v HS Hl Hv; [exact Hv|].
  destruct (str_derive_space st T HS (Hl _ (or_introl eq_refl))) as [HS1 HM].
  apply IH; [exact HS1|intros T' HT'; apply HM, Hl; right; exact HT'|].
  unfold derive_space. apply hard_fold_names; [exact HS|apply Hl; left; reflexivity|exact Hv].
Qed.

Lemma hard_create_derived : forall st l v,
  Str st -> (forall T, In T l -> live_space st T) -> hard st v -> hard (create_derived st l) v.
Proof.
  intros st l v HS Hl Hv. unfold create_derived. apply hard_ns_change.
  - apply str_fold_derive; assumption.
  - apply hard_fold_derive; assumption.
Qed.

(** C13_alive_untouched for [del parent.x], x a space: a model / space / defined
    cells that was alive and is not inside x is still alive *)
Theorem del_space_untouched : forall st p x st' o v,
  Inv st -> step_del_space st p x = (st', o) -> hard st v ->
  ~ (v = x \/ In x (chain_of st v)) -> alive st' v = true.
Proof.
  intros st p x st' o v [_ [HS _]] E Hv Hout. unfold step_del_space in E. inversion E; subst; clear E.
  assert (hard (clear_derived (purge (under_set st [x]) st)
                 (flat_map (subs_of st) (filter (is_kind st KSpace) (under_set st [x])))) v) as Hh.
  { destruct Hv as [Hv Hk]. split; [|exact Hk].
    change (alive (clear_derived ?s ?vis) v) with (alive s v). rewrite alive_purge, Hv. simpl.
    apply negb_true_iff, memN_false. intros Hin. apply under_set_spec in Hin as [_ [a [Ha [Hs|[]]]]].
    subst a. apply Hout. destruct Ha as [Ha|Ha]; [left; symmetry; exact Ha|right; exact Ha]. }
  refine (proj1 (hard_settle _ _ _ v _ Hh)).
  apply str_clear_vals, str_purge_under. exact HS.
Qed.

(** the same for [del space.c], c a cells: only c itself among the hard objects dies *)
Theorem del_cells_untouched : forall st s c st' v,
  Inv st -> alive st s = true -> is_kind st KSpace s = true ->
  step_del_cells st s c = (st', ODone) -> hard st v -> v <> c -> alive st' v = true.
Proof.
  intros st s c st' v H Hs Hk E Hv Hne. pose proof H as [_ [HS _]]. unfold step_del_cells in E.
  destruct (is_defined st c) eqn:Ed; cbn [negb] in E; [|discriminate]. inversion E; subst; clear E.
  set (st1 := purge (under_set st [c]) st).
  assert (Str st1) as HS1 by (apply str_purge_under; exact HS).
  assert (forall T, live_space st T -> live_space st1 T) as Hl1.
  { intros T [Ha HkT]. split; [|exact HkT]. unfold st1. rewrite alive_purge, Ha. simpl.
    apply negb_true_iff, memN_false. apply static_not_under; [exact HS|exact (live_space_contk _ _ HkT)|].
    intros a [Ha2|[]]. subst a. exact (is_defined_kind _ _ Ed). }
  assert (hard st1 v) as Hv1.
  { destruct Hv as [Hv Hkv]. split; [|exact Hkv]. unfold st1. rewrite alive_purge, Hv. simpl.
    apply negb_true_iff, memN_false. intros Hin. apply under_set_spec in Hin as [_ [a [Ha [Hsa|[]]]]]. subst a.
    destruct Ha as [Ha|Ha]; [exact (Hne (eq_sym Ha))|].
    (* c would contain v: impossible, a cells contains nothing that is hard *)
    destruct HS as [_ [_ [_ [_ H5]]]].
    assert (statick (kind_of st v) = true) as Hst.
    { destruct Hkv as [Hkv|Hkv]; [destruct (kind_of st v); try discriminate; reflexivity|].
      unfold is_defined in Hkv. unfold kind_of. destruct (get_obj st v) as [ov|]; [|discriminate].
      apply andb_true_iff in Hkv as [Hkv _]. apply kind_eqb_eq in Hkv. rewrite Hkv. reflexivity. }
    pose proof (H5 _ _ Hst Ha) as Hc. rewrite (is_defined_kind _ _ Ed) in Hc. discriminate. }
  refine (proj1 (hard_create_derived _ _ v _ _ _)).
  - apply str_settle, str_clear_vals. exact HS1.
  - intros T HT.
    assert (live_space st T) as HT0.
    { destruct HT as [HT|HT]; [subst T; split; assumption|exact (subs_of_live _ _ _ HT)]. }
    destruct (Hl1 _ HT0) as [Ha HkT]. split; [|exact HkT].
    rewrite alive_settle; [exact Ha|apply str_clear_vals; exact HS1|exact (live_space_contk _ _ HkT)].
  - apply hard_settle; [apply str_clear_vals; exact HS1|exact Hv1].
Qed.

(** ---- old handles: the deleted-object error, and only it, answers a dead handle ---- *)
Lemma step_dead_handle : forall st o u,
  handle st (fst (op_handles o)) = Some u -> alive st u = false ->
  (exists bs, handles st (snd (op_handles o)) = Some bs) ->
  step st o = (st, ODeleted).
Proof.
  intros st o u Hh Ha [bs Hb]. unfold step.
  destruct (op_handles o) as [h hb] eqn:E. cbn [fst snd] in *.
  rewrite Hh, Hb, Ha. reflexivity.
Qed.

Ltac crush_out :=
  repeat match goal with
         | |- context [if ?b then _ else _] => destruct b
         | |- context [match ?x with _ => _ end] => destruct x
         end; cbn; try discriminate; try congruence.

Lemma step_new_space_not_deleted : forall st p n bs pr, snd (step_new_space st p n bs pr) <> ODeleted.
Proof. intros. unfold step_new_space. crush_out. Qed.
Lemma step_new_cells_not_deleted : forall st s n, snd (step_new_cells st s n) <> ODeleted.
Proof. intros. unfold step_new_cells. crush_out. Qed.
Lemma step_take_not_deleted : forall st u n, snd (step_take st u n) <> ODeleted.
Proof. intros. unfold step_take. crush_out. Qed.
Lemma step_get_item_not_deleted : forall st u k, snd (step_get_item st u k) <> ODeleted.
Proof.
  intros. unfold step_get_item.
  destruct (negb (is_kind st KSpace u && c_params (get_cont st u))); [cbn; discriminate|].
  destruct (lookupZ k (c_items (get_cont st u))); [cbn; discriminate|].
  destruct (new_item st u k). cbn; discriminate.
Qed.
Lemma step_del_attr_not_deleted : forall st u n, snd (step_del_attr st u n) <> ODeleted.
Proof.
  intros. unfold step_del_attr, step_del_cells, step_del_space.
  destruct (kind_of st u); try (cbn; discriminate).
  - destruct (lookupS n (c_spaces (get_cont st u))); [cbn; discriminate|].
    destruct (lookupS n (st_globals st)); cbn; discriminate.
  - destruct (lookupS n (c_cells (get_cont st u))).
    + destruct (negb (is_defined st u0)); cbn; discriminate.
    + destruct (lookupS n (c_spaces (get_cont st u))); cbn; discriminate.
Qed.
Lemma step_add_bases_not_deleted : forall st s bs, snd (step_add_bases st s bs) <> ODeleted.
Proof.
  intros. unfold step_add_bases.
  destruct (negb (is_kind st KSpace s && forallb (is_kind st KSpace) bs)); [cbn; discriminate|].
  destruct (existsb (fun b => N.eqb b s || memN s (ancs_of st b)) bs); cbn; discriminate.
Qed.
Lemma step_remove_bases_not_deleted : forall st s bs, snd (step_remove_bases st s bs) <> ODeleted.
Proof.
  intros. unfold step_remove_bases.
  destruct (negb (is_kind st KSpace s)); [cbn; discriminate|].
  destruct (negb (forallb (fun b => memN b (c_bases (get_cont st s))) bs)); cbn; discriminate.
Qed.
Lemma step_set_params_not_deleted : forall st s b, snd (step_set_params st s b) <> ODeleted.
Proof. intros. unfold step_set_params. destruct (negb (is_kind st KSpace s)); cbn; discriminate. Qed.
Lemma step_eval_not_deleted : forall st c x, snd (step_eval st c x) <> ODeleted.
Proof.
  intros. unfold step_eval. destruct (negb (is_kind st KCells c || is_kind st KDCells c)); [cbn; discriminate|].
  destruct (eval (eval_fuel st) st c x); cbn; discriminate.
Qed.
Lemma step_bind_global_not_deleted : forall st n s, snd (step_bind_global st n s) <> ODeleted.
Proof.
  intros. unfold step_bind_global. destruct (negb (is_kind st KSpace s)); [cbn; discriminate|].
  destruct (has_name st 0%N n); cbn; discriminate.
Qed.

(** C13_handles: the answer is the deleted-object error exactly when a handle
    the operation goes through is dead; the state is then unchanged *)
Theorem deleted_iff_dead_handle : forall st o,
  snd (step st o) = ODeleted <->
  exists u bs, handle st (fst (op_handles o)) = Some u /\ handles st (snd (op_handles o)) = Some bs
               /\ (alive st u && forallb (alive st) bs) = false.
Proof.
  intros st o. unfold step. destruct (op_handles o) as [h hb] eqn:Eo. cbn [fst snd]. split.
  - destruct (handle st h) as [u|]; [|cbn; discriminate].
    destruct (handles st hb) as [bs|]; [|cbn; discriminate].
    destruct (alive st u && forallb (alive st) bs) eqn:Ea; cbn [negb].
    + intros H. exfalso. revert H. destruct o.
      * apply step_new_space_not_deleted.
      * apply step_new_cells_not_deleted.
      * apply step_take_not_deleted.
      * apply step_get_item_not_deleted.
      * apply step_del_attr_not_deleted.
      * apply step_add_bases_not_deleted.
      * apply step_remove_bases_not_deleted.
      * apply step_set_params_not_deleted.
      * destruct (is_kind st KSpace u); cbn; discriminate.
      * destruct (is_kind st KSpace u); [|cbn; discriminate].
        destruct (lookupZ k (c_items (get_cont st u))); cbn; discriminate.
      * apply step_eval_not_deleted.
      * destruct bs as [|s t]; [cbn; discriminate|apply step_bind_global_not_deleted].
    + intros _. exists u, bs. auto.
  - intros [u [bs [Hu [Hb Ha]]]]. rewrite Hu, Hb, Ha. reflexivity.
Qed.

Theorem deleted_changes_nothing : forall st o, snd (step st o) = ODeleted -> fst (step st o) = st.
Proof.
  intros st o H. apply deleted_iff_dead_handle in H as [u [bs [Hu [Hb Ha]]]].
  unfold step. destruct (op_handles o) as [h hb]. cbn [fst snd] in *. rewrite Hu, Hb, Ha. reflexivity.
Qed.

(** ---- examples: the hypotheses are satisfiable on non-trivial states ---- *)
Open Scope string_scope.
Definition ex_ft : list (string * formula) := [("c0", FConst 3); ("c1", FSib "c0"); ("c2", FDot "g0" "c1")].

(** S0 (parameters) with c0, c1 and a child S1 with c0; S2 inherits from S0; an
    ItemSpace S0[1] and handles into it; a global g0 -> S0 and S3.c2 reading through it *)
Definition ex_ops : list op :=
  [ NewSpace 0 "S0" [] true; NewCells 1 "c0"; NewCells 1 "c1"; NewSpace 1 "S1" [] false; NewCells 4 "c0";
    NewSpace 0 "S2" [1] false; Take 6 "c1"; BindGlobal "g0" 1; NewSpace 0 "S3" [] false; NewCells 8 "c2";
    GetItem 1 1; Take 10 "c1"; Take 10 "S1"; Take 12 "c0"; Eval 9 5; Eval 11 5; Eval 7 5 ].

Example ex_before :
  map (alive (run ex_ft ex_ops)) (st_handles (run ex_ft ex_ops)) = repeat true 14
  /\ List.length (st_vals (run ex_ft ex_ops)) = 7%nat.
Proof. vm_compute. split; reflexivity. Qed.

(** [del M.S0]: S0, its cells, its child and grand-child, its ItemSpace and the
    dynamic members, the derived copy S2.c1 are dead; S2, S3, S3.c2 survive;
    every value (all were computed from S0's cells) is gone *)
Example ex_after :
  let st := run ex_ft (ex_ops ++ [DelAttr 0 "S0"]) in
  map (alive st) (st_handles st)
  = [true; false; false; false; false; false; true; false; true; true; false; false; false; false]
  /\ st_vals st = [] /\ List.length (st_conts st) = 3%nat.
Proof. vm_compute. repeat split; reflexivity. Qed.

Example ex_hypotheses :
  let st := run ex_ft ex_ops in
  handle st 0 = Some 0%N /\ alive st 0%N = true /\ deleted_target st 0%N "S0" = Some 1%N
  /\ snd (step st (DelAttr 0 "S0")) = ODone
  /\ inside (run ex_ft (ex_ops ++ [DelAttr 0 "S0"])) 1%N 5%N.
Proof.
  vm_compute. repeat split; try reflexivity.
  apply (inside_step _ _ 5%N 4%N); [reflexivity|]. apply (inside_step _ _ 4%N 1%N); [reflexivity|]. apply inside_self.
Qed.

Example ex_dead_handle :
  let st := run ex_ft (ex_ops ++ [DelAttr 0 "S0"]) in
  step st (NewCells 1 "c2") = (st, ODeleted) /\ step st (Eval 11 0) = (st, ODeleted).
Proof. vm_compute. split; reflexivity. Qed.
