(** Alive layer - derived cells: in every reachable state a live derived cells
    has a live definer (a defined cells of the same name in an ancestor of its
    space).  Hence a derived copy whose only definers died is dead. *)
From Coq Require Import List String Bool Arith ZArith NArith Lia.
From MX Require Import Alive.Model Alive.ProofsBase Alive.ProofsRes Alive.ProofsStr.
Import ListNotations.

(** [anc st T A]: A is a proper ancestor of T in the inheritance graph *)
Inductive anc (st : state) : uid -> uid -> Prop :=
| anc_base : forall T b, In b (c_bases (get_cont st T)) -> anc st T b
| anc_step : forall T b A, In b (c_bases (get_cont st T)) -> anc st b A -> anc st T A.

(** c is a live defined cells named n in an ancestor of T *)
Definition definer (st : state) (T : uid) (n : string) (c : uid) : Prop :=
  exists A, anc st T A /\ lookupS n (c_cells (get_cont st A)) = Some c
            /\ alive st c = true /\ is_defined st c = true.

Definition Der (st : state) : Prop :=
  forall d, alive st d = true -> is_derived st d = true ->
    exists T c, parent_of st d = Some T /\ definer st T (name_of st d) c.

(** base lists hold spaces *)
Definition Ibases (st : state) : Prop :=
  forall u c b, In (u, c) (st_conts st) -> In b (c_bases c) -> is_kind st KSpace b = true.

(** ---- the computed ancestors are ancestors ---- *)
Lemma ancs_sound : forall f st T A, In A (ancs f st T) -> anc st T A.
Proof.
  induction f as [|f IH]; intros st T A H; simpl in H; [destruct H|].
  apply in_flat_map in H as [b [Hb Hin]]. destruct Hin as [Hin|Hin].
  - subst A. apply anc_base; exact Hb.
  - apply (anc_step st T b A Hb). exact (IH _ _ _ Hin).
Qed.

Lemma has_definer_sound : forall st T n, has_definer st T n = true -> exists c, definer st T n c.
Proof.
  intros st T n H. unfold has_definer in H. apply existsb_exists in H as [A [HA Hd]].
  unfold defines in Hd. destruct (lookupS n (c_cells (get_cont st A))) as [c|] eqn:E; [|discriminate].
  apply andb_true_iff in Hd as [Ha Hdf]. exists c, A. split; [exact (ancs_sound _ _ _ _ HA)|tauto].
Qed.

(** ---- nodes of the graph are alive ---- *)
Lemma bases_alive : forall st T b, Res st -> In b (c_bases (get_cont st T)) -> alive st b = true.
Proof. intros st T b H Hb. exact (res_bases_alive _ _ _ H Hb). Qed.

Lemma anc_alive : forall st T A, Res st -> anc st T A -> alive st A = true.
Proof. intros st T A H Ha. induction Ha as [T b Hb|T b A Hb Ha IH]; [exact (bases_alive _ _ _ H Hb)|exact IH]. Qed.

(** ---- growth: objects, entries and base edges are only added ---- *)
Definition grows (st st' : state) : Prop :=
  (forall u o, get_obj st u = Some o -> get_obj st' u = Some o)
  /\ (forall u, alive st u = true -> alive st' u = true)
  /\ (forall T b, alive st T = true -> In b (c_bases (get_cont st T)) -> In b (c_bases (get_cont st' T)))
  /\ (forall A n c, alive st A = true -> lookupS n (c_cells (get_cont st A)) = Some c ->
                    lookupS n (c_cells (get_cont st' A)) = Some c).

Lemma grows_refl : forall st, grows st st.
Proof. intros st. repeat split; auto. Qed.

Lemma grows_trans : forall a b c, grows a b -> grows b c -> grows a c.
Proof.
  intros a b c [H1 [H2 [H3 H4]]] [G1 [G2 [G3 G4]]]. repeat split.
  - intros u o H. exact (G1 _ _ (H1 _ _ H)).
  - intros u H. exact (G2 _ (H2 _ H)).
  - intros T x HT H. exact (G3 _ _ (H2 _ HT) (H3 _ _ HT H)).
  - intros A n x HA H. exact (G4 _ _ _ (H2 _ HA) (H4 _ _ _ HA H)).
Qed.

Lemma grows_ext : forall st st',
  st_objs st' = st_objs st -> st_alive st' = st_alive st -> st_conts st' = st_conts st -> grows st st'.
Proof.
  intros st st' Ho Ha Hc. unfold grows, get_obj, alive, get_cont. rewrite Ho, Ha, Hc. repeat split; auto.
Qed.

Lemma anc_grow : forall st st' T A, grows st st' -> Res st -> alive st T = true -> anc st T A -> anc st' T A.
Proof.
  intros st st' T A [_ [_ [G3 _]]] HR HT Ha. induction Ha as [T b Hb|T b A Hb Ha IH].
  - apply anc_base. exact (G3 _ _ HT Hb).
  - apply (anc_step st' T b A (G3 _ _ HT Hb)). apply IH. exact (bases_alive _ _ _ HR Hb).
Qed.

Lemma is_defined_stable : forall st st' c,
  (forall u o, get_obj st u = Some o -> get_obj st' u = Some o) ->
  is_defined st c = true -> is_defined st' c = true.
Proof.
  intros st st' c G H. unfold is_defined in *. destruct (get_obj st c) as [o|] eqn:E; [|discriminate].
  rewrite (G _ _ E). exact H.
Qed.

Lemma definer_grow : forall st st' T n c,
  grows st st' -> Res st -> alive st T = true -> definer st T n c -> definer st' T n c.
Proof.
  intros st st' T n c G HR HT [A [Ha [Hl [Hc Hd]]]]. pose proof G as [G1 [G2 [_ G4]]].
  exists A. split; [exact (anc_grow _ _ _ _ G HR HT Ha)|]. split; [|split].
  - apply G4; [exact (anc_alive _ _ _ HR Ha)|exact Hl].
  - exact (G2 _ Hc).
  - exact (is_defined_stable _ _ _ G1 Hd).
Qed.

(** what a derived cells is does not change while the table grows *)
Lemma derived_info_stable : forall st st' d,
  (forall u o, get_obj st u = Some o -> get_obj st' u = Some o) -> get_obj st d <> None ->
  is_derived st' d = is_derived st d /\ parent_of st' d = parent_of st d /\ name_of st' d = name_of st d.
Proof.
  intros st st' d G H. unfold is_derived, parent_of, chain_of, name_of.
  destruct (get_obj st d) as [o|] eqn:E; [|congruence]. rewrite (G _ _ E). repeat split; reflexivity.
Qed.

Lemma der_grow : forall st st',
  grows st st' -> Res st -> Str st -> Der st ->
  (forall d, alive st' d = true -> is_derived st' d = true ->
     alive st d = true \/ exists T c, parent_of st' d = Some T /\ definer st' T (name_of st' d) c) ->
  Der st'.
Proof.
  intros st st' G HR HS HD Hnew d Hd Hdd.
  destruct (Hnew d Hd Hdd) as [Hold|Hw]; [|exact Hw].
  destruct HS as [_ [H2 [_ [H4 _]]]]. pose proof G as [G1 _].
  destruct (derived_info_stable st st' d G1 (H2 _ Hold)) as [E1 [E2 E3]].
  rewrite E1 in Hdd. destruct (HD d Hold Hdd) as [T [c [HT Hdef]]].
  exists T, c. rewrite E2, E3. split; [exact HT|].
  apply (definer_grow st st'); [exact G|exact HR| |exact Hdef].
  apply (H4 d T Hold). unfold parent_of in HT. destruct (chain_of st d); [discriminate|].
  cbn in HT. inversion HT; subst. left; reflexivity.
Qed.

(** ---- growth of the primitive transformers ---- *)
Lemma get_cont_upd_cont_other : forall st u f T, T <> u -> get_cont (upd_cont st u f) T = get_cont st T.
Proof.
  intros st u f T Hne. unfold get_cont, upd_cont; cbn [set_conts st_conts].
  induction (st_conts st) as [|[k c] t IH]; simpl; [reflexivity|].
  destruct (N.eqb k u) eqn:E; simpl.
  - apply N.eqb_eq in E; subst k. destruct (N.eqb u T) eqn:E2; [apply N.eqb_eq in E2; congruence|exact IH].
  - destruct (N.eqb k T); [reflexivity|exact IH].
Qed.

Lemma get_cont_upd_cont_same : forall st u f,
  get_cont (upd_cont st u f) u = match lookupN u (st_conts st) with Some c => f c | None => empty_cont end.
Proof.
  intros st u f. unfold get_cont, upd_cont; cbn [set_conts st_conts].
  induction (st_conts st) as [|[k c] t IH]; simpl; [reflexivity|].
  destruct (N.eqb k u) eqn:E; simpl.
  - apply N.eqb_eq in E; subst k. rewrite N.eqb_refl. reflexivity.
  - rewrite E. exact IH.
Qed.

Lemma grows_upd_cont : forall st u f,
  (forall b, In b (c_bases (get_cont st u)) -> In b (c_bases (f (get_cont st u)))) ->
  (forall n x, lookupS n (c_cells (get_cont st u)) = Some x -> lookupS n (c_cells (f (get_cont st u))) = Some x) ->
  grows st (upd_cont st u f).
Proof.
  intros st u f Hb Hc. repeat split; auto.
  - intros T b _ H. destruct (N.eq_dec T u) as [He|Hne]; [subst T|rewrite get_cont_upd_cont_other; assumption].
    rewrite get_cont_upd_cont_same. unfold get_cont in *.
    destruct (lookupN u (st_conts st)); [exact (Hb _ H)|exact H].
  - intros A n x _ H. destruct (N.eq_dec A u) as [He|Hne]; [subst A|rewrite get_cont_upd_cont_other; assumption].
    rewrite get_cont_upd_cont_same. unfold get_cont in *.
    destruct (lookupN u (st_conts st)); [exact (Hc _ _ H)|exact H].
Qed.

Lemma grows_add_obj : forall st u o k, alive st u = false -> grows st (add_obj st u o k).
Proof.
  intros st u o k Hu.
  assert (forall T, alive st T = true -> get_cont (add_obj st u o k) T = get_cont st T) as Hg.
  { intros T HT. unfold get_cont, add_obj; cbn [st_conts]. destruct k as [c|]; [|reflexivity].
    simpl. destruct (N.eqb u T) eqn:E; [|reflexivity]. apply N.eqb_eq in E; subst T. congruence. }
  repeat split.
  - intros v ov H. exact (get_obj_add_obj_stable _ _ _ _ _ _ H).
  - intros v H. apply alive_mono_add_obj; exact H.
  - intros T b HT H. rewrite (Hg _ HT). exact H.
  - intros A n c HA H. rewrite (Hg _ HA). exact H.
Qed.

Lemma next_not_alive : forall st, Str st -> alive st (st_next st) = false.
Proof.
  intros st [H1 [H2 _]]. destruct (alive st (st_next st)) eqn:E; [|reflexivity].
  exfalso. apply (H2 _ E). exact (fresh_not_in_objs _ H1).
Qed.

Lemma grows_new_cells_obj : forall st T n d, Str st -> grows st (new_cells_obj st T n d).
Proof.
  intros st T n d HS. unfold new_cells_obj.
  apply (grows_trans _ (add_obj (bump st) (st_next st) (mkObj KCells (T :: chain_of st T) n 0 d) None)).
  - apply (grows_trans _ (bump st)); [apply grows_ext; reflexivity|].
    apply grows_add_obj. exact (next_not_alive _ HS).
  - apply grows_upd_cont; [auto|]. intros m x H. cbn. rewrite lookupS_app, H. reflexivity.
Qed.

(** ---- one new cells ---- *)
Lemma get_cont_new_cells_obj_T : forall st T n d,
  lookupN T (st_conts st) <> None ->
  c_cells (get_cont (new_cells_obj st T n d) T) = (c_cells (get_cont st T) ++ [(n, st_next st)])%list.
Proof.
  intros st T n d H. unfold new_cells_obj. rewrite get_cont_upd_cont_same.
  cbn [add_obj st_conts bump]. unfold get_cont. destruct (lookupN T (st_conts st)); [reflexivity|congruence].
Qed.

Lemma der_new_cells_obj : forall st T n dflag,
  Res st -> Str st -> Der st -> alive st T = true ->
  (dflag = true -> exists c, definer st T n c) ->
  Der (new_cells_obj st T n dflag).
Proof.
  intros st T n dflag HR HS HD HT Hw.
  pose proof (grows_new_cells_obj st T n dflag HS) as G.
  apply (der_grow st _ G HR HS HD).
  intros d Hd Hdd. unfold new_cells_obj in Hd. rewrite alive_upd_cont, alive_add_obj in Hd.
  destruct (N.eqb d (st_next st)) eqn:E; [|left; exact Hd]. apply N.eqb_eq in E; subst d. right.
  assert (get_obj (new_cells_obj st T n dflag) (st_next st) = Some (mkObj KCells (T :: chain_of st T) n 0 dflag)) as Hg.
  { unfold new_cells_obj. change (get_obj (upd_cont ?s T ?f) ?x) with (get_obj s x).
    apply get_obj_add_obj_same. left. exact (fresh_not_in_objs _ (proj1 HS)). }
  unfold is_derived in Hdd. rewrite Hg in Hdd. cbn in Hdd.
  destruct (Hw Hdd) as [c Hc]. exists T, c. split.
  - unfold parent_of, chain_of. rewrite Hg. reflexivity.
  - unfold name_of. rewrite Hg. cbn. exact (definer_grow _ _ _ _ _ G HR HT Hc).
Qed.

(** the three invariants together *)
Definition Inv (st : state) : Prop := Res st /\ Str st /\ Ibases st /\ Der st.

Lemma ibases_ext : forall st st', st_objs st' = st_objs st -> st_conts st' = st_conts st -> Ibases st -> Ibases st'.
Proof. intros st st' Ho Hc H. unfold Ibases, is_kind, kind_of, get_obj. rewrite Ho, Hc. exact H. Qed.

Lemma is_kind_add_obj_stable : forall st u o k kd v,
  is_kind st kd v = true -> kd <> KModel -> is_kind (add_obj st u o k) kd v = true.
Proof.
  intros st u o k kd v H Hk. unfold is_kind, kind_of in *. destruct (get_obj st v) as [ov|] eqn:E.
  - rewrite (get_obj_add_obj_stable _ _ _ _ _ _ E). exact H.
  - apply kind_eqb_eq in H. congruence.
Qed.

Lemma ibases_add_obj : forall st u o k,
  Ibases st -> (forall c, k = Some c -> forall b, In b (c_bases c) -> is_kind st KSpace b = true) ->
  Ibases (add_obj st u o k).
Proof.
  intros st u o k H Hk v c b Hin Hb. cbn [add_obj st_conts] in Hin.
  apply is_kind_add_obj_stable; [|discriminate].
  destruct k as [c0|]; [destruct Hin as [Hin|Hin]; [inversion Hin; subst; exact (Hk _ eq_refl _ Hb)|]|];
    exact (H _ _ _ Hin Hb).
Qed.

Lemma ibases_upd_cont : forall st u f,
  Ibases st -> (forall c b, In b (c_bases (f c)) -> In b (c_bases c) \/ is_kind st KSpace b = true) ->
  Ibases (upd_cont st u f).
Proof.
  intros st u f H Hf v c b Hin Hb. cbn [upd_cont set_conts st_conts] in Hin.
  apply in_map_iff in Hin as [[v0 c0] [He Hin]]. cbn [fst snd] in He.
  change (is_kind (upd_cont st u f) KSpace b) with (is_kind st KSpace b).
  destruct (N.eqb v0 u); inversion He; subst; clear He.
  - destruct (Hf _ _ Hb) as [Hold|Hk]; [exact (H _ _ _ Hin Hold)|exact Hk].
  - exact (H _ _ _ Hin Hb).
Qed.

Lemma ibases_purge : forall K st, Ibases st -> Ibases (purge K st).
Proof.
  intros K st H v c b Hin Hb. cbn [purge st_conts] in Hin.
  apply in_map_iff in Hin as [[v0 c0] [He Hin]]. cbn [fst snd] in He. inversion He; subst; clear He.
  apply filter_In in Hin as [Hin _]. cbn [purge_cont c_bases] in Hb. apply filter_In in Hb as [Hb _].
  exact (H _ _ _ Hin Hb).
Qed.

Lemma ibases_new_cells_obj : forall st T n d, Ibases st -> Ibases (new_cells_obj st T n d).
Proof.
  intros st T n d H. unfold new_cells_obj. apply ibases_upd_cont.
  - apply ibases_add_obj; [exact H|]. intros c Hc; discriminate.
  - intros c b Hb. left. exact Hb.
Qed.

Lemma inv_new_cells_obj : forall st T n d,
  Inv st -> live_space st T -> (d = true -> exists c, definer st T n c) -> Inv (new_cells_obj st T n d).
Proof.
  intros st T n d [HR [HS [HB HD]]] [HTa HTk] Hw. split; [|split; [|split]].
  - apply res_new_cells_obj; exact HR.
  - apply str_new_cells_obj; assumption.
  - apply ibases_new_cells_obj; exact HB.
  - apply der_new_cells_obj; assumption.
Qed.

(** ---- creation of derived cells ---- *)
Lemma dedupS_incl : forall l x, In x (dedupS l) -> In x l.
Proof.
  induction l as [|y t IH]; simpl; intros x Hx; [exact Hx|].
  destruct (memS y t); [right; apply IH; exact Hx|destruct Hx; [left; assumption|right; apply IH; assumption]].
Qed.

Lemma avail_definer : forall st T n, In n (avail st T) -> exists c, definer st T n c.
Proof.
  intros st T n H. unfold avail in H. apply dedupS_incl in H.
  apply in_flat_map in H as [A [HA Hn]]. apply filter_In in Hn as [_ Hd].
  apply has_definer_sound. unfold has_definer. apply existsb_exists. exists A. split; assumption.
Qed.

Lemma missing_avail : forall st T n, In n (missing st T) -> In n (avail st T).
Proof. intros st T n H. unfold missing in H. apply filter_In in H as [H _]. exact H. Qed.

Lemma live_space_grow_definer : forall st st' T n,
  grows st st' -> Res st -> alive st T = true ->
  (exists c, definer st T n c) -> exists c, definer st' T n c.
Proof. intros st st' T n G HR HT [c Hc]. exists c. exact (definer_grow _ _ _ _ _ G HR HT Hc). Qed.

Lemma inv_fold_names : forall T l st,
  Inv st -> live_space st T -> (forall n, In n l -> exists c, definer st T n c) ->
  Inv (fold_left (fun s n => new_cells_obj s T n true) l st)
  /\ forall x, live_space st x -> live_space (fold_left (fun s n => new_cells_obj s T n true) l st) x.
Proof.
  intros T l; induction l as [|n t IH]; simpl; intros st HI HT Hw; [split; [exact HI|auto]|].
  pose proof HI as [HR [HS [HB HD]]].
  assert (Inv (new_cells_obj st T n true)) as HI'.
  { apply inv_new_cells_obj; [exact HI|exact HT|]. intros _. apply Hw. left; reflexivity. }
  assert (live_space (new_cells_obj st T n true) T) as HT' by (apply live_space_new_cells_obj; assumption).
  destruct (IH _ HI' HT') as [H1 H2].
  - intros m Hm. apply (live_space_grow_definer st); [apply grows_new_cells_obj; exact HS|exact HR|exact (proj1 HT)|].
    apply Hw. right; exact Hm.
  - split; [exact H1|]. intros x Hx. apply H2, live_space_new_cells_obj; assumption.
Qed.

Lemma inv_derive_space : forall st T, Inv st -> live_space st T ->
  Inv (derive_space st T) /\ forall x, live_space st x -> live_space (derive_space st T) x.
Proof.
  intros st T HI HT. unfold derive_space. apply inv_fold_names; [exact HI|exact HT|].
  intros n Hn. apply avail_definer, missing_avail, Hn.
Qed.

Lemma inv_fold_derive : forall l st, Inv st -> (forall T, In T l -> live_space st T) ->
  Inv (fold_left derive_space l st).
Proof.
  induction l as [|T t IH]; simpl; intros st H Hl; [exact H|].
  destruct (inv_derive_space st T H (Hl _ (or_introl eq_refl))) as [HS HM].
  apply IH; [exact HS|]. intros T' HT'. apply HM, Hl. right; exact HT'.
Qed.

(** ---- shrinking ---- *)
Lemma purge_cont_empty : forall K, purge_cont K empty_cont = empty_cont.
Proof. reflexivity. Qed.

Lemma get_cont_purge : forall K st X, memN X K = false -> get_cont (purge K st) X = purge_cont K (get_cont st X).
Proof.
  intros K st X HX. unfold get_cont, purge; cbn [st_conts].
  induction (st_conts st) as [|[k c] t IH]; simpl; [reflexivity|].
  destruct (memN k K) eqn:Ek; simpl.
  - destruct (N.eqb k X) eqn:E; [apply N.eqb_eq in E; subst k; congruence|exact IH].
  - destruct (N.eqb k X); [reflexivity|exact IH].
Qed.

Lemma bases_kind : forall st T b, Ibases st -> In b (c_bases (get_cont st T)) -> is_kind st KSpace b = true.
Proof.
  intros st T b H Hb. destruct (get_cont_in st T) as [He|Hin]; [rewrite He in Hb; destruct Hb|].
  exact (H _ _ _ Hin Hb).
Qed.

Definition spares_spaces (st : state) (K : list uid) : Prop :=
  forall x, alive st x = true -> contk (kind_of st x) = true -> memN x K = false.

Lemma anc_purge : forall K st T A,
  Res st -> Ibases st -> spares_spaces st K -> memN T K = false ->
  anc st T A -> anc (purge K st) T A /\ memN A K = false.
Proof.
  intros K st T A HR HB HK HT Ha. induction Ha as [T b Hb|T b A Hb Ha IH].
  - assert (memN b K = false) as HbK.
    { apply HK; [exact (bases_alive _ _ _ HR Hb)|exact (live_space_contk _ _ (bases_kind _ _ _ HB Hb))]. }
    split; [|exact HbK]. apply anc_base. rewrite (get_cont_purge _ _ _ HT). cbn [purge_cont c_bases].
    apply filter_In. split; [exact Hb|rewrite HbK; reflexivity].
  - assert (memN b K = false) as HbK.
    { apply HK; [exact (bases_alive _ _ _ HR Hb)|exact (live_space_contk _ _ (bases_kind _ _ _ HB Hb))]. }
    destruct (IH HbK) as [IH1 IH2]. split; [|exact IH2].
    apply (anc_step _ T b A); [|exact IH1]. rewrite (get_cont_purge _ _ _ HT). cbn [purge_cont c_bases].
    apply filter_In. split; [exact Hb|rewrite HbK; reflexivity].
Qed.

Lemma definer_purge : forall K st T n c,
  Res st -> Ibases st -> spares_spaces st K -> memN T K = false -> memN c K = false ->
  definer st T n c -> definer (purge K st) T n c.
Proof.
  intros K st T n c HR HB HK HT Hc [A [Ha [Hl [Hal Hd]]]].
  destruct (anc_purge K st T A HR HB HK HT Ha) as [Ha' HA].
  exists A. split; [exact Ha'|]. split; [|split].
  - rewrite (get_cont_purge _ _ _ HA). cbn [purge_cont c_cells].
    apply lookupS_filter; [exact Hl|]. cbn [snd]. rewrite Hc. reflexivity.
  - rewrite alive_purge, Hal, Hc. reflexivity.
  - exact Hd.
Qed.

Lemma derived_parent_static : forall st d T,
  Str st -> alive st d = true -> is_derived st d = true -> parent_of st d = Some T ->
  alive st T = true /\ contk (kind_of st T) = true.
Proof.
  intros st d T [_ [_ [_ [H4 H5]]]] Hd Hdd HT.
  assert (In T (chain_of st d)) as Hin.
  { unfold parent_of in HT. destruct (chain_of st d); [discriminate|]. cbn in HT. inversion HT; subst. left; reflexivity. }
  split; [exact (H4 _ _ Hd Hin)|]. apply (H5 d T); [|exact Hin].
  unfold is_derived in Hdd. unfold kind_of. destruct (get_obj st d) as [o|]; [|discriminate].
  apply andb_true_iff in Hdd as [Hk _]. apply kind_eqb_eq in Hk. rewrite Hk. reflexivity.
Qed.

Lemma der_purge_gen : forall K st,
  Res st -> Str st -> Ibases st -> spares_spaces st K ->
  (forall c, alive st c = true -> is_defined st c = true -> memN c K = false) ->
  (forall d, alive st d = true -> is_derived st d = true -> memN d K = false ->
     exists T c, parent_of st d = Some T /\ definer st T (name_of st d) c) ->
  Der (purge K st).
Proof.
  intros K st HR HS HB HK Hdef Hw d Hd Hdd. rewrite alive_purge in Hd.
  apply andb_true_iff in Hd as [Hd HdK]. apply negb_true_iff in HdK.
  change (is_derived (purge K st) d) with (is_derived st d) in Hdd.
  destruct (Hw d Hd Hdd HdK) as [T [c [HT Hc]]]. exists T, c.
  change (parent_of (purge K st) d) with (parent_of st d).
  change (name_of (purge K st) d) with (name_of st d). split; [exact HT|].
  destruct (derived_parent_static _ _ _ HS Hd Hdd HT) as [HTa HTk].
  pose proof Hc as [A [_ [_ [Hca Hcd]]]].
  apply definer_purge; try assumption; [exact (HK _ HTa HTk)|exact (Hdef _ Hca Hcd)].
Qed.

(** seeds that are neither spaces nor defined cells *)
Definition soft_seeds (st : state) (seeds : list uid) : Prop :=
  forall a, In a seeds -> contk (kind_of st a) = false /\ is_defined st a = false.

Lemma under_soft_spares : forall st seeds, Str st -> soft_seeds st seeds -> spares_spaces st (under_set st seeds).
Proof.
  intros st seeds HS Hs x _ Hx. apply memN_false. apply static_not_under; [exact HS|exact Hx|].
  intros a Ha. exact (proj1 (Hs _ Ha)).
Qed.

Lemma under_soft_defined : forall st seeds c,
  Str st -> soft_seeds st seeds -> is_defined st c = true -> memN c (under_set st seeds) = false.
Proof.
  intros st seeds c HS Hs Hc. apply memN_false. intros Hin.
  apply under_set_spec in Hin as [_ [a [Ha Hsa]]]. destruct (Hs _ Hsa) as [Hk Hd].
  destruct Ha as [Ha|Ha]; [subst a; congruence|].
  destruct HS as [_ [_ [_ [_ H5]]]].
  assert (statick (kind_of st c) = true) as Hst.
  { unfold is_defined in Hc. unfold kind_of. destruct (get_obj st c) as [o|]; [|discriminate].
    apply andb_true_iff in Hc as [Hc _]. apply kind_eqb_eq in Hc. rewrite Hc. reflexivity. }
  rewrite (H5 _ _ Hst Ha) in Hk. discriminate.
Qed.

Lemma item_seeds_soft : forall st l, soft_seeds st (filter (is_kind st KItem) l).
Proof.
  intros st l a Ha. apply filter_In in Ha as [_ Ha]. apply is_kind_true in Ha. split.
  - rewrite Ha. reflexivity.
  - unfold is_defined. unfold kind_of in Ha. destruct (get_obj st a) as [o|]; [|reflexivity].
    rewrite Ha. reflexivity.
Qed.

Lemma orphans_soft : forall st, soft_seeds st (orphans st).
Proof.
  intros st a Ha. split; [exact (orphan_kind _ _ Ha)|].
  unfold orphans in Ha. apply filter_In in Ha as [_ Ha]. apply andb_true_iff in Ha as [Ha _].
  unfold is_derived in Ha. unfold is_defined. destruct (get_obj st a) as [o|]; [|reflexivity].
  apply andb_true_iff in Ha as [Hk Hd]. rewrite Hk, Hd. reflexivity.
Qed.

Lemma soft_app : forall st a b, soft_seeds st a -> soft_seeds st b -> soft_seeds st (a ++ b).
Proof. intros st a b Ha Hb x Hx. apply in_app_iff in Hx as [Hx|Hx]; [exact (Ha _ Hx)|exact (Hb _ Hx)]. Qed.

Lemma inv_purge_soft : forall st seeds, Inv st -> soft_seeds st seeds -> Inv (purge (under_set st seeds) st).
Proof.
  intros st seeds [HR [HS [HB HD]]] Hs. split; [|split; [|split]].
  - apply res_purge; exact HR.
  - apply str_purge_under; exact HS.
  - apply ibases_purge; exact HB.
  - apply der_purge_gen; try assumption.
    + exact (under_soft_spares _ _ HS Hs).
    + intros c _ Hc. exact (under_soft_defined _ _ _ HS Hs Hc).
    + intros d Hd Hdd _. exact (HD d Hd Hdd).
Qed.

Lemma inv_discard_items : forall st l, Inv st -> Inv (discard_items st l).
Proof. intros st l H. unfold discard_items, item_set. apply inv_purge_soft; [exact H|apply item_seeds_soft]. Qed.

Lemma anc_ext : forall st st' T A, st_conts st' = st_conts st -> anc st T A -> anc st' T A.
Proof.
  intros st st' T A Hc Ha.
  assert (forall X, get_cont st' X = get_cont st X) as Hg by (intros X; unfold get_cont; rewrite Hc; reflexivity).
  induction Ha as [T b Hb|T b A Hb Ha IH].
  - apply anc_base. rewrite Hg. exact Hb.
  - apply (anc_step _ T b A); [rewrite Hg; exact Hb|exact IH].
Qed.

Lemma definer_ext : forall st st' T n c,
  st_objs st' = st_objs st -> st_alive st' = st_alive st -> st_conts st' = st_conts st ->
  definer st T n c -> definer st' T n c.
Proof.
  intros st st' T n c Ho Ha Hc [A [Han [Hl [Hca Hcd]]]].
  exists A. split; [exact (anc_ext _ _ _ _ Hc Han)|].
  unfold get_cont, alive, is_defined, get_obj in *. rewrite Ho, Ha, Hc. tauto.
Qed.

Lemma der_ext : forall st st',
  st_objs st' = st_objs st -> st_alive st' = st_alive st -> st_conts st' = st_conts st -> Der st -> Der st'.
Proof.
  intros st st' Ho Ha Hc HD d Hd Hdd.
  assert (forall X, get_cont st' X = get_cont st X) as Hg by (intros X; unfold get_cont; rewrite Hc; reflexivity).
  assert (forall X, get_obj st' X = get_obj st X) as Hgo by (intros X; unfold get_obj; rewrite Ho; reflexivity).
  assert (forall X, alive st' X = alive st X) as Hal by (intros X; unfold alive; rewrite Ha; reflexivity).
  rewrite Hal in Hd. unfold is_derived in Hdd. rewrite Hgo in Hdd.
  destruct (HD d Hd Hdd) as [T [c [HT [A [Han [Hl [Hca Hcd]]]]]]].
  exists T, c. unfold parent_of, chain_of, name_of. rewrite Hgo. split; [exact HT|].
  exists A. split; [exact (anc_ext _ _ _ _ Hc Han)|]. rewrite Hg, Hal. unfold is_defined. rewrite Hgo.
  split; [exact Hl|split; [exact Hca|exact Hcd]].
Qed.

Lemma inv_ext : forall st st',
  st_objs st' = st_objs st -> st_alive st' = st_alive st -> st_conts st' = st_conts st ->
  st_vals st' = st_vals st -> (st_next st <= st_next st')%N -> Inv st -> Inv st'.
Proof.
  intros st st' Ho Ha Hc Hv Hn [HR [HS [HB HD]]]. split; [|split; [|split]].
  - exact (res_ext _ _ Ha Hc Hv HR).
  - exact (str_ext _ _ Ho Ha Hn HS).
  - exact (ibases_ext _ _ Ho Hc HB).
  - exact (der_ext _ _ Ho Ha Hc HD).
Qed.

(** Res / Str / Ibases without Der: what survives an arbitrary deletion *)
Definition Pre (st : state) : Prop := Res st /\ Str st /\ Ibases st.

Lemma pre_clear_vals : forall C st, Pre st -> Pre (clear_vals C st).
Proof. intros C st [HR [HS HB]]. split; [apply res_clear_vals; exact HR|split; [exact HS|exact HB]]. Qed.

Lemma inv_clear_vals : forall C st, Inv st -> Inv (clear_vals C st).
Proof.
  intros C st [HR [HS [HB HD]]]. split; [apply res_clear_vals; exact HR|split; [exact HS|split; [exact HB|]]].
  apply (der_ext st); try reflexivity. exact HD.
Qed.

Lemma inv_ns_change : forall st Ts l, Inv st -> Inv (ns_change st Ts l).
Proof. intros st Ts l H. unfold ns_change. apply inv_discard_items, inv_clear_vals, H. Qed.

(** [settle] re-establishes the definer invariant from any state *)
Lemma inv_settle : forall st Ts l, Pre st -> Inv (settle st Ts l).
Proof.
  intros st Ts l HP. unfold settle.
  set (st1 := clear_vals (flat_map (cells_of st) (Ts ++ parents_of st (orphans st))) st).
  pose proof (pre_clear_vals (flat_map (cells_of st) (Ts ++ parents_of st (orphans st))) st HP) as [HR [HS HB]].
  fold st1 in HR, HS, HB.
  set (seeds := (orphans st ++ filter (is_kind st1 KItem)
                   (l ++ flat_map (dyn_roots st1) Ts ++ flat_map (dyn_roots st1) (parents_of st (orphans st))))%list).
  assert (soft_seeds st1 seeds) as Hs.
  { apply soft_app; [exact (orphans_soft st)|apply item_seeds_soft]. }
  split; [apply res_purge; exact HR|]. split; [apply str_purge_under; exact HS|].
  split; [apply ibases_purge; exact HB|].
  apply der_purge_gen; try assumption.
  - exact (under_soft_spares _ _ HS Hs).
  - intros c _ Hc. exact (under_soft_defined _ _ _ HS Hs Hc).
  - intros d Hd Hdd HdK.
    assert (~ In d (orphans st)) as Hno.
    { intros Hin. apply memN_false in HdK. apply HdK. apply under_set_spec. split; [exact Hd|].
      exists d. split; [left; reflexivity|]. unfold seeds. apply in_app_iff. left; exact Hin. }
    change (alive st1 d) with (alive st d) in Hd. change (is_derived st1 d) with (is_derived st d) in Hdd.
    unfold orphans in Hno. rewrite filter_In in Hno.
    change (parent_of st1 d) with (parent_of st d). change (name_of st1 d) with (name_of st d).
    destruct (parent_of st d) as [T|] eqn:EP.
    + destruct (has_definer st T (name_of st d)) eqn:Eh.
      * destruct (has_definer_sound _ _ _ Eh) as [c Hc]. exists T, c. split; [reflexivity|].
        apply (definer_ext st st1); try reflexivity. exact Hc.
      * exfalso. apply Hno. split; [unfold alive in Hd; apply memN_In; exact Hd|]. rewrite Hdd. reflexivity.
    + exfalso. apply Hno. split; [unfold alive in Hd; apply memN_In; exact Hd|]. rewrite Hdd. reflexivity.
Qed.

Lemma pre_of_inv : forall st, Inv st -> Pre st.
Proof. intros st [HR [HS [HB _]]]. split; [exact HR|split; [exact HS|exact HB]]. Qed.

Lemma pre_purge_under : forall st seeds, Pre st -> Pre (purge (under_set st seeds) st).
Proof.
  intros st seeds [HR [HS HB]]. split; [apply res_purge; exact HR|].
  split; [apply str_purge_under; exact HS|apply ibases_purge; exact HB].
Qed.

Lemma inv_create_derived : forall st l, Inv st -> (forall T, In T l -> live_space st T) -> Inv (create_derived st l).
Proof. intros st l H Hl. unfold create_derived. apply inv_ns_change, inv_fold_derive; assumption. Qed.

(** ---- growth steps that create no derived cells ---- *)
Lemma der_grow_nonderived : forall st st',
  grows st st' -> Res st -> Str st -> Der st ->
  (forall d, alive st' d = true -> alive st d = true \/ is_derived st' d = false) -> Der st'.
Proof.
  intros st st' G HR HS HD Hn. apply (der_grow st st' G HR HS HD).
  intros d Hd Hdd. destruct (Hn d Hd) as [H|H]; [left; exact H|congruence].
Qed.

Lemma dedupN_complete : forall l x, In x l -> In x (dedupN l).
Proof.
  induction l as [|y t IH]; simpl; intros x H; [exact H|].
  destruct (memN y t) eqn:E.
  - destruct H as [H|H]; [subst y; apply IH; apply memN_In; exact E|apply IH; exact H].
  - destruct H as [H|H]; [left; exact H|right; apply IH; exact H].
Qed.

Lemma is_derived_kind : forall st u o, get_obj st u = Some o -> o_kind o <> KCells -> is_derived st u = false.
Proof.
  intros st u o H Hk. unfold is_derived. rewrite H. destruct (o_kind o); try reflexivity. congruence.
Qed.
