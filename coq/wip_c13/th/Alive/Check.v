(** Alive layer - the comparison functions of the correspondence check:
    what the harness observes on the real library after an operation, and the
    same observation computed from the model state.  Definitions only. *)
From Coq Require Import List String Bool Arith ZArith NArith.
From MX Require Import Alive.Model.
Import ListNotations.

(** a component of a dotted name: a name or the argument of an ItemSpace *)
Inductive comp : Type := CN (s : string) | CK (k : Z).
Definition path := list comp.

Definition comp_eqb (a b : comp) : bool :=
  match a, b with
  | CN x, CN y => String.eqb x y
  | CK x, CK y => Z.eqb x y
  | _, _ => false
  end.

Fixpoint path_eqb (a b : path) : bool :=
  match a, b with
  | [], [] => true
  | x :: a', y :: b' => comp_eqb x y && path_eqb a' b'
  | _, _ => false
  end.

Definition comp_of (st : state) (u : uid) : comp :=
  match get_obj st u with
  | Some o => match o_kind o with KItem => CK (o_key o) | _ => CN (o_name o) end
  | None => CN EmptyString
  end.

(** the names from the model down to the object (the model itself is left out) *)
Definition path_of (st : state) (u : uid) : path :=
  map (comp_of st) (filter (fun a => negb (N.eqb a 0)) (rev (u :: chain_of st u))).

(** observation of one handle *)
Inductive hobs : Type :=
| HDead
| HSpace (p : path) (cells spaces : list string) (items : list Z)
         (bases ancestors : list path) (params : bool)
| HCells (p : path) (derived : bool) (vals : list (Z * Z * list (path * Z))).

Record fullobs : Type := mkFull {
  f_handles : list hobs;
  f_ident : list nat;            (* index of the first handle that is the same object *)
  f_nodes : list (path * Z) }.   (* model.tracegraph *)

(** ---- set comparison (the properties speak about sets, not dict order) ---- *)
Definition incl_b {A} (eqb : A -> A -> bool) (a b : list A) : bool :=
  forallb (fun x => existsb (eqb x) b) a.
Definition set_eqb {A} (eqb : A -> A -> bool) (a b : list A) : bool :=
  Nat.eqb (List.length a) (List.length b) && incl_b eqb a b && incl_b eqb b a.

Definition node_eqb (a b : path * Z) : bool := path_eqb (fst a) (fst b) && Z.eqb (snd a) (snd b).
Definition val_eqb (a b : Z * Z * list (path * Z)) : bool :=
  match a, b with
  | (x1, v1, r1), (x2, v2, r2) => Z.eqb x1 x2 && Z.eqb v1 v2 && set_eqb node_eqb r1 r2
  end.

Definition hobs_eqb (a b : hobs) : bool :=
  match a, b with
  | HDead, HDead => true
  | HSpace p1 c1 s1 i1 b1 a1 f1, HSpace p2 c2 s2 i2 b2 a2 f2 =>
      path_eqb p1 p2 && set_eqb String.eqb c1 c2 && set_eqb String.eqb s1 s2 && set_eqb Z.eqb i1 i2
      && set_eqb path_eqb b1 b2 && set_eqb path_eqb a1 a2 && Bool.eqb f1 f2
  | HCells p1 d1 v1, HCells p2 d2 v2 => path_eqb p1 p2 && Bool.eqb d1 d2 && set_eqb val_eqb v1 v2
  | _, _ => false
  end.

Fixpoint all2 {A} (f : A -> A -> bool) (a b : list A) : bool :=
  match a, b with
  | [], [] => true
  | x :: a', y :: b' => f x y && all2 f a' b'
  | _, _ => false
  end.

(** ---- the model's observation ---- *)
Definition is_spacelike (k : kind) : bool :=
  match k with KModel | KSpace | KItem | KDSpace => true | _ => false end.

Definition obs_handle (st : state) (u : uid) : hobs :=
  if negb (alive st u) then HDead
  else if is_spacelike (kind_of st u) then
    let c := get_cont st u in
    HSpace (path_of st u) (map fst (c_cells c)) (map fst (c_spaces c)) (map fst (c_items c))
           (map (path_of st) (c_bases c)) (map (path_of st) (dedupN (ancs_of st u))) (c_params c)
  else
    HCells (path_of st u)
           (match get_obj st u with Some o => o_derived o | None => false end)
           (map (fun v => (v_arg v, v_val v, map (fun r => (path_of st (fst r), snd r)) (v_reads v)))
                (filter (fun v => N.eqb (v_cells v) u) (st_vals st))).

Fixpoint first_idx (u : uid) (l : list uid) (i : nat) : nat :=
  match l with
  | [] => i
  | x :: t => if N.eqb x u then i else first_idx u t (S i)
  end.

Definition obs_nodes (st : state) : list (path * Z) :=
  (map (fun v => (path_of st (v_cells v), v_arg v)) (st_vals st)
   ++ flat_map (fun T => map (fun e => (path_of st T, fst e)) (c_items (get_cont st T))) (st_alive st))%list.

Definition obs_full (st : state) : fullobs :=
  mkFull (map (obs_handle st) (st_handles st))
         (map (fun u => first_idx u (st_handles st) 0) (st_handles st))
         (obs_nodes st).

Definition full_eqb (a b : fullobs) : bool :=
  all2 hobs_eqb (f_handles a) (f_handles b)
  && all2 Nat.eqb (f_ident a) (f_ident b)
  && set_eqb node_eqb (f_nodes a) (f_nodes b).

Definition out_eqb (a b : out) : bool :=
  match a, b with
  | ODone, ODone | ODeleted, ODeleted | OFormulaErr, OFormulaErr | ORejected, ORejected => true
  | OVal x, OVal y => Z.eqb x y
  | _, _ => false
  end.

(** one recorded step: the operation, what the library answered, which
    handles were alive afterwards, and (at checkpoints) the full observation *)
Definition steprec : Type := (op * out * list bool * option fullobs)%type.
Definition case : Type := (list (string * formula) * list steprec)%type.

Fixpoint check_steps (st : state) (l : list steprec) : bool :=
  match l with
  | [] => true
  | (o, expected, bits, full) :: t =>
      let '(st1, got) := step st o in
      out_eqb got expected
      && all2 Bool.eqb (map (alive st1) (st_handles st1)) bits
      && match full with Some f => full_eqb (obs_full st1) f | None => true end
      && check_steps st1 t
  end.

Definition check_case (c : case) : bool := check_steps (init (fst c)) (snd c).

(** diagnostics: index of the first step that disagrees *)
Fixpoint first_bad (st : state) (l : list steprec) (i : nat) : option (nat * out * list bool * fullobs) :=
  match l with
  | [] => None
  | (o, expected, bits, full) :: t =>
      let '(st1, got) := step st o in
      if out_eqb got expected
         && all2 Bool.eqb (map (alive st1) (st_handles st1)) bits
         && match full with Some f => full_eqb (obs_full st1) f | None => true end
      then first_bad st1 t (S i)
      else Some (i, got, map (alive st1) (st_handles st1), obs_full st1)
  end.
