(** Helpers used by the generated [cases_*.v] files of the correspondence
    check: index of failing cases, byte strings, simple equalities. *)
From Coq Require Import List String Ascii ZArith Bool NArith.
Import ListNotations.

Fixpoint failing_aux {A} (f : A -> bool) (l : list A) (i : nat) : list nat :=
  match l with
  | [] => []
  | x :: t => if f x then failing_aux f t (S i) else i :: failing_aux f t (S i)
  end.
Definition failing {A} (f : A -> bool) (l : list A) : list nat := failing_aux f l 0.

Lemma failing_aux_nil {A} (f : A -> bool) l i :
  failing_aux f l i = [] -> forallb f l = true.
Proof.
  revert i; induction l as [|x t IH]; intros i; simpl; [reflexivity|].
  destruct (f x); [apply IH|discriminate].
Qed.

(** strings given as byte codes (the emitter uses this for any text with
    quotes, newlines or non-ASCII bytes) *)
Fixpoint sb (l : list N) : string :=
  match l with
  | [] => EmptyString
  | n :: t => String (ascii_of_N n) (sb t)
  end.

Fixpoint list_eqb {A} (eqb : A -> A -> bool) (a b : list A) : bool :=
  match a, b with
  | [], [] => true
  | x :: a', y :: b' => eqb x y && list_eqb eqb a' b'
  | _, _ => false
  end.

Definition opt_eqb {A} (eqb : A -> A -> bool) (a b : option A) : bool :=
  match a, b with
  | None, None => true
  | Some x, Some y => eqb x y
  | _, _ => false
  end.

Definition pair_eqb {A B} (ea : A -> A -> bool) (eb : B -> B -> bool)
  (a b : A * B) : bool := ea (fst a) (fst b) && eb (snd a) (snd b).

Definition lstr_eqb := list_eqb String.eqb.
