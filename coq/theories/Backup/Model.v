(** Backup layer (property C14): saving with rotated backups, fault points,
    session flags and the registry side of a failing load.

    Sources modelled, line by line:
      serialize/__init__.py:28-46   [_increment_backups]      -> [incr]
      serialize/__init__.py:64-86   [write_model]             -> [write_model]
      serialize/serializer_6.py:308-358 [ModelWriter.write_model] -> [writer]
      serialize/__init__.py:89-104  [read_model]              -> [load]
      serialize/serializer_6.py:840-874 [ModelReader.read_model]  -> [reader]
      core/system.py:584-644 [new_model / rename_model / close_model] (only what a load touches)

    File system: the four paths <path>, <path>_BAK1 .. _BAK3 (index = [nth] of the
    code).  An entry is absent, a completely written copy of generation [g]
    ([Good]; [n] = number of directory entries it consists of, 1 for a zip file)
    or a copy whose writing was interrupted ([Partial]).

    Fault model: every file-system / pickling primitive is one *operation*
    ([top]); [fault = Some k] makes the k-th operation from now raise instead of
    running (a countdown, so the operation after a raised one run normally:
    [finally] blocks and [with] exits).  Definitions only. *)
From Coq Require Import List Bool Arith.
Import ListNotations.

Inductive fmt := Zip | Dir.

Inductive entry :=
| Absent
| Good (g : nat) (f : fmt) (n : nat)
| Partial (g : nat) (n : nat).

Definition fsys := list entry.

Definition slot (l : fsys) (k : nat) : entry := nth k l Absent.

Fixpoint put (l : fsys) (k : nat) (e : entry) : fsys :=
  match l, k with
  | [], 0 => [e]
  | [], S k' => Absent :: put [] k' e
  | _ :: t, 0 => e :: t
  | x :: t, S k' => x :: put t k' e
  end.

Definition present (e : entry) : bool :=
  match e with Absent => false | _ => true end.

Definition is_dir (e : entry) : bool :=
  match e with Good _ Dir _ => true | Partial _ _ => true | _ => false end.

(** operations as they appear in the trace of the instrumented implementation *)
Inductive top :=
| TMv (a b : nat)        (* Path.rename  <path>_BAKa -> <path>_BAKb *)
| TRm (a : nat)          (* shutil.rmtree / Path.unlink of <path>_BAKa *)
| TTmpdir                (* tempfile.TemporaryDirectory() *)
| TMkdir (creates : bool)(* Path.mkdir; [creates]: the directory did not exist *)
| TMkroot                (* ziputil.make_root of a zip: ZipFile(root, "w") *)
| TOpen                  (* ziputil.write_file entered *)
| TFill                  (* its callback entered (directory format: the file now exists) *)
| TDump                  (* ModelPickler / IOSpecPickler .dump *)
| TCopy                  (* ziputil.copy_file (archive step; extraction on load) *)
| TMove (a : nat)        (* shutil.move(temp_root, root) *)
| TCleanup               (* TemporaryDirectory.cleanup -> shutil.rmtree *)
| TROpen                 (* ziputil.read_file entered *)
| TRFill                 (* its callback entered *)
| TLoad.                 (* ModelUnpickler / IOSpecUnpickler .load *)

(** content dependent part of a save / a load: the sequence of primitive calls
    made for the members of the model (abstraction of "the model being saved") *)
Inductive sop :=
| SOpen | SFill | SMkdir (creates : bool) | SDump | SCopy
| STmp | SCleanup | SROpen | SRFill | SLoad.

(** registry: uid (object identity) and name of every open model *)
Inductive mname := Auto | Plain (s : nat) | Backup (s : nat).
Definition registry := list (nat * mname).

Record world := mkW {
  fs : fsys;
  reg : registry;
  nuid : nat;            (* next fresh uid *)
  flag : bool;           (* System.serializing / IOManager.serializing set *)
  fault : option nat;    (* countdown to the operation that raises *)
  trace : list top;      (* operations so far, newest first *)
  tmps : nat             (* open temporary directories *)
}.

Definition set_fs x w := mkW x (reg w) (nuid w) (flag w) (fault w) (trace w) (tmps w).
Definition set_reg x w := mkW (fs w) x (nuid w) (flag w) (fault w) (trace w) (tmps w).
Definition set_nuid x w := mkW (fs w) (reg w) x (flag w) (fault w) (trace w) (tmps w).
Definition set_flag x w := mkW (fs w) (reg w) (nuid w) x (fault w) (trace w) (tmps w).
Definition set_fault x w := mkW (fs w) (reg w) (nuid w) (flag w) x (trace w) (tmps w).
Definition log o w := mkW (fs w) (reg w) (nuid w) (flag w) (fault w) (o :: trace w) (tmps w).
Definition set_tmps x w := mkW (fs w) (reg w) (nuid w) (flag w) (fault w) (trace w) x.

Definition set_slot (k : nat) (e : entry) (w : world) : world := set_fs (put (fs w) k e) w.

Inductive res := Done (w : world) | Raised (w : world).

Definition wof (r : res) : world := match r with Done w => w | Raised w => w end.
Definition raised (r : res) : bool := match r with Done _ => false | Raised _ => true end.

Definition andthen (r : res) (k : world -> res) : res :=
  match r with Done w => k w | Raised w => Raised w end.

(** one primitive operation: logged; raises instead of running when the
    countdown is at zero *)
Definition prim (o : top) (eff : world -> world) (w : world) : res :=
  match fault w with
  | Some 0 => Raised (log o (set_fault None w))
  | Some (S k) => Done (eff (log o (set_fault (Some k) w)))
  | None => Done (eff (log o w))
  end.

(** try: body finally: fin *)
Definition try_finally (body fin : world -> res) (w : world) : res :=
  match body w with
  | Done w' => fin w'
  | Raised w' => Raised (wof (fin w'))
  end.

(* ------------------------------------------------------------------ *)
(** * [_increment_backups(model, base_path, max_backups, nth)]
    [d = max_backups - nth] (the recursion is bounded by it). *)
Definition rename (a b : nat) (w : world) : world :=
  set_slot a Absent (set_slot b (slot (fs w) a) w).

Fixpoint incr (d nth : nat) (w : world) : res :=
  if present (slot (fs w) nth) then            (* backup_path.exists() *)
    match d with
    | 0 =>                                      (* nth == max_backups *)
        prim (TRm nth) (set_slot nth Absent) w
    | S d' =>
        andthen (incr d' (S nth) w)
                (prim (TMv nth (S nth)) (rename nth (S nth)))
    end
  else Done w.

(* ------------------------------------------------------------------ *)
(** * temporary directories *)
Definition tmp_inc (w : world) := set_tmps (S (tmps w)) w.

(** [TemporaryDirectory.cleanup]: the object is closed whether or not rmtree raises *)
Definition cleanup (w : world) : res :=
  prim TCleanup (fun w => w) (set_tmps (pred (tmps w)) w).

Fixpoint unwind_n (n : nat) (w : world) : res :=
  match n with
  | 0 => Done w
  | S n' => andthen (cleanup w) (unwind_n n')
  end.
Definition unwind (w : world) : res := unwind_n (tmps w) w.

(* ------------------------------------------------------------------ *)
(** * member writes / reads *)
Definition bump (f : fmt) (w : world) : world :=
  match f with
  | Zip => w          (* members go into the temporary root *)
  | Dir => match slot (fs w) 0 with
           | Partial g n => set_slot 0 (Partial g (S n)) w
           | _ => w
           end
  end.

Definition noeff (w : world) : world := w.

Definition sop_step (f : fmt) (o : sop) (w : world) : res :=
  match o with
  | SOpen => prim TOpen noeff w
  | SMkdir c => prim (TMkdir c) (if c then bump f else noeff) w
  | SFill => prim TFill noeff (bump f w)   (* the file was created just before *)
  | SDump => prim TDump noeff w
  | SCopy => prim TCopy noeff w
  | STmp => prim TTmpdir tmp_inc w
  | SCleanup => cleanup w
  | SROpen => prim TROpen noeff w
  | SRFill => prim TRFill noeff w
  | SLoad => prim TLoad noeff w
  end.

Fixpoint run_shape (f : fmt) (sh : list sop) (w : world) : res :=
  match sh with
  | [] => Done w
  | o :: t => andthen (sop_step f o w) (run_shape f t)
  end.

(* ------------------------------------------------------------------ *)
(** * [ModelWriter.write_model] *)
Definition mkroot_dir (g : nat) (w : world) : world :=
  match slot (fs w) 0 with
  | Absent => set_slot 0 (Partial g 1) w
  | _ => w
  end.

Definition complete (w : world) : world :=
  match slot (fs w) 0 with
  | Partial g n => set_slot 0 (Good g Dir n) w
  | _ => w
  end.

Definition writer_body (f : fmt) (sh : list sop) (g : nat) (w : world) : res :=
  match f with
  | Zip =>
      andthen (prim (TMkdir true) noeff w) (fun w =>         (* work_dir.mkdir *)
      let w := set_flag true w in
      andthen (prim TMkroot noeff w) (fun w =>
      andthen (run_shape Zip sh w) (fun w =>
      if is_dir (slot (fs w) 0) then Raised w                (* IOError: existing directory *)
      else prim (TMove 0) (set_slot 0 (Good g Zip 1)) w)))
  | Dir =>
      let w := set_flag true w in
      andthen (prim (TMkdir (negb (present (slot (fs w) 0)))) (mkroot_dir g) w) (fun w =>
      andthen (run_shape Dir sh w) (fun w => Done (complete w)))
  end.

(** [finally:] flags reset, then (zip) [tempdir.cleanup()] *)
Definition writer_fin (f : fmt) (w : world) : res :=
  let w := set_flag false w in
  match f with
  | Zip => unwind w
  | Dir => Done w
  end.

Definition writer (f : fmt) (sh : list sop) (g : nat) (w : world) : res :=
  match f with
  | Zip =>
      (* [tempdir = tempfile.TemporaryDirectory()] is the first statement of the try
         block: if it raises, [finally] resets the flags and then fails itself
         (UnboundLocalError: tempdir) -- still an exception, nothing else happened *)
      match prim TTmpdir tmp_inc w with
      | Raised w' => Raised (set_flag false w')
      | Done w1 => try_finally (writer_body Zip sh g) (writer_fin Zip) w1
      end
  | Dir => try_finally (writer_body Dir sh g) (writer_fin Dir) w
  end.

(** [serialize.write_model]: rotate, then write.  With backups on, a directory
    save that raised removes the tree it created ([except: ... shutil.rmtree(root,
    ignore_errors=True); raise], /repo fix for D17): <path> was renamed aside by
    the rotation, so what is there was made by this call *)
Definition drop_partial (maxb : nat) (f : fmt) (w : world) : world :=
  match f, maxb with
  | Dir, S _ => if is_dir (slot (fs w) 0)
                then wof (prim (TRm 0) (set_slot 0 Absent) w)
                else w
  | _, _ => w
  end.

Definition write_model (maxb : nat) (f : fmt) (sh : list sop) (g : nat) (w : world) : res :=
  andthen (incr maxb 0 w) (fun w1 =>
    match writer f sh g w1 with
    | Done w2 => Done w2
    | Raised w2 => Raised (drop_partial maxb f w2)
    end).

(* ------------------------------------------------------------------ *)
(** * loading: registry side *)
Definition mname_eqb (a b : mname) : bool :=
  match a, b with
  | Auto, Auto => true
  | Plain x, Plain y => Nat.eqb x y
  | Backup x, Backup y => Nat.eqb x y
  | _, _ => false
  end.

Definition set_name (u : nat) (nm : mname) (r : registry) : registry :=
  map (fun p => if Nat.eqb (fst p) u then (u, nm) else p) r.

Definition remove_uid (u : nat) (r : registry) : registry :=
  filter (fun p => negb (Nat.eqb (fst p) u)) r.

Fixpoint find_name (nm : mname) (r : registry) : option nat :=
  match r with
  | [] => None
  | (u, n) :: t => if mname_eqb n nm then Some u else find_name nm t
  end.

(** [System.new_model()]: a fresh model under an automatic name *)
Definition new_model (w : world) : world :=
  set_nuid (S (nuid w)) (set_reg (reg w ++ [(nuid w, Auto)]) w).

(** [_name = ...] line, executed at parse time: [rename(val, rename_old=True)] *)
Definition rename_new (u t : nat) (w : world) : world :=
  let r := match find_name (Plain t) (reg w) with
           | Some v => set_name v (Backup t) (reg w)
           | None => reg w
           end in
  set_reg (set_name u (Plain t) r) w.

(** the [except:] branch of [read_model]: [self.model.close()]; the ideal
    behaviour also gives a model that was renamed aside its name back *)
Definition abandon (u t : nat) (renamed : option nat) (w : world) : world :=
  let r := remove_uid u (reg w) in
  set_reg (match renamed with Some v => set_name v (Plain t) r | None => r end) w.

(** the try block of [ModelReader.read_model]; reading never writes below <path>,
    so the member operations run with the effect-free format *)
Definition reader_body (t : nat) (f : fmt) (sh : list sop) (u : nat) (w : world) : res :=
  let w := set_flag true w in
  andthen (match f with Zip => prim TTmpdir tmp_inc w | Dir => Done w end) (fun w =>
  let w := new_model w in
  andthen (prim TROpen noeff w) (fun w =>
  andthen (prim TRFill noeff w) (fun w =>
  run_shape Zip sh (rename_new u t w)))).

Definition reader (t : nat) (f : fmt) (sh : list sop) (w : world) : res :=
  let u := nuid w in
  let renamed := find_name (Plain t) (reg w) in
  match try_finally (reader_body t f sh u) unwind w with   (* the [with] block exits inside the [try] *)
  | Done w' => Done (set_flag false w')
  | Raised w1 =>
      let w2 := if Nat.eqb (nuid w1) u then w1     (* self.model is still None *)
                else abandon u t renamed w1 in     (* undoing a rename that did not happen is a no-op *)
      Raised (set_flag false w2)
  end.

(** [serialize.read_model]: metadata first (outside every try block) *)
Definition load (t : nat) (f : fmt) (sh : list sop) (w : world) : res :=
  andthen (prim TROpen noeff w) (fun w =>
  andthen (prim TRFill noeff w) (fun w =>
  reader t f sh w)).

(* ------------------------------------------------------------------ *)
(** * sessions: sequences of saves and loads *)
Inductive op :=
| OSave (backup : bool) (f : fmt) (sh : list sop) (fl : option nat)
| OLoad (t : nat) (f : fmt) (sh : list sop) (fl : option nat)
| OReset.       (* harness: close every model but the first, give it its name back *)

Record sys := mkS {
  s_fs : fsys;
  s_reg : registry;
  s_nuid : nat;
  s_gen : nat;           (* generations written so far *)
  s_flag : bool
}.

Definition max_backups (backup : bool) : nat := if backup then 3 else 0.

Definition enter (s : sys) (fl : option nat) : world :=
  mkW (s_fs s) (s_reg s) (s_nuid s) (s_flag s) fl [] 0.

Definition leave (g : nat) (w : world) : sys :=
  mkS (fs w) (reg w) (nuid w) g (flag w).

Definition run_op (s : sys) (o : op) : res :=
  match o with
  | OSave b f sh fl => write_model (max_backups b) f sh (S (s_gen s)) (enter s fl)
  | OLoad t f sh fl => load t f sh (enter s fl)
  | OReset => Done (set_reg (match s_reg s with p :: _ => [(fst p, Plain 0)] | [] => [] end) (enter s None))
  end.

Definition step (s : sys) (o : op) : sys :=
  leave (match o with OSave _ _ _ _ => S (s_gen s) | _ => s_gen s end) (wof (run_op s o)).

Definition empty_fs : fsys := [Absent; Absent; Absent; Absent].
Definition init : sys := mkS empty_fs [(0, Plain 0)] 1 0 false.

Definition run (ops : list op) : sys := fold_left step ops init.

(** a save of the property's quantifier: format, members, fault point *)
Definition saveop := (fmt * list sop * option nat)%type.
Definition to_op (s : saveop) : op :=
  match s with (f, sh, fl) => OSave true f sh fl end.
Definition run_saves (l : list saveop) : fsys := s_fs (run (map to_op l)).

(* ------------------------------------------------------------------ *)
(** * the property *)
Definition egen (e : entry) : option nat :=
  match e with Absent => None | Good g _ _ => Some g | Partial g _ => Some g end.

(** generations strictly decrease from <path> to _BAK3 and are below [ub] *)
Fixpoint desc_from (ub : nat) (l : fsys) : Prop :=
  match l with
  | [] => True
  | e :: t => match egen e with
              | None => desc_from ub t
              | Some g => g < ub /\ desc_from g t
              end
  end.

(** every completely written copy is dominated by one at <path> or _BAK1 *)
Definition LatestOK (l : fsys) : Prop :=
  forall k g f n, slot l k = Good g f n ->
  exists k' g' f' n', k' <= 1 /\ slot l k' = Good g' f' n' /\ g <= g'.

Definition is_partial (e : entry) : bool :=
  match e with Partial _ _ => true | _ => false end.

Definition BackupInv (l : fsys) : Prop :=
  length l = 4 /\ LatestOK l /\ (exists ub, desc_from ub l).

(** the most recent completely written generation, if any *)
Fixpoint latest_good (l : fsys) : option nat :=
  match l with
  | [] => None
  | e :: t => match e, latest_good t with
              | Good g _ _, Some g' => Some (Nat.max g g')
              | Good g _ _, None => Some g
              | _, r => r
              end
  end.

Definition faulted (s : saveop) : bool :=
  match s with (_, _, Some _) => true | _ => false end.
Definition is_dir_save (s : saveop) : bool :=
  match s with (Dir, _, _) => true | _ => false end.

(* ------------------------------------------------------------------ *)
(** * specification of the rotation: every entry moves one place down into the
    first hole; what falls off the end is deleted *)
Fixpoint shift (carry : entry) (l : fsys) : fsys :=
  match l with
  | [] => []                                   (* falls off the end: deleted *)
  | x :: t => carry :: (if present x then shift x t else t)
  end.

Definition rotate (l : fsys) : fsys :=
  match l with
  | [] => []
  | e0 :: t => if present e0 then Absent :: shift e0 t else l
  end.


(** zip saves only *)
Definition all_zip (l : list saveop) : Prop := Forall (fun s => is_dir_save s = false) l.


(** D17: two consecutive failing directory saves (shape of the "plain" corpus model) *)
Definition plain_dir_shape : list sop :=
  [SOpen; SFill; SOpen; SFill; SOpen; SMkdir true; SFill; SOpen; SMkdir true; SFill;
   SOpen; SMkdir true; SFill; SDump].

Definition d17_saves : list saveop :=
  [(Dir, plain_dir_shape, None); (Dir, plain_dir_shape, Some 6); (Dir, plain_dir_shape, Some 7)].


(* ------------------------------------------------------------------ *)
(** * observations of the implementation, compared inside Coq by the tie *)
Inductive slotobs :=
| OAbsent
| OEnt (isdir : bool) (n : nat) (rd : option (list nat)).  (* what read_model returned, member by member *)

Fixpoint all_eq (g : nat) (l : list nat) : bool :=
  match l with [] => true | x :: t => Nat.eqb x g && all_eq g t end.

Definition fmt_is_dir (f : fmt) : bool := match f with Dir => true | Zip => false end.

Definition slot_agrees (e : entry) (o : slotobs) : bool :=
  match e, o with
  | Absent, OAbsent => true
  | Good g f n, OEnt d n' (Some vals) =>
      Bool.eqb d (fmt_is_dir f) && Nat.eqb n n' && all_eq g vals && negb (match vals with [] => true | _ => false end)
  | Partial g n, OEnt d n' rd =>
      d && Nat.eqb n n' && match rd with None => true | Some vals => negb (all_eq g vals) end
  | _, _ => false
  end.

Fixpoint slots_agree (l : fsys) (o : list slotobs) : bool :=
  match l, o with
  | [], [] => true
  | e :: t, x :: u => slot_agrees e x && slots_agree t u
  | _, _ => false
  end.

Definition top_eqb (a b : top) : bool :=
  match a, b with
  | TMv x y, TMv x' y' => Nat.eqb x x' && Nat.eqb y y'
  | TRm x, TRm x' => Nat.eqb x x'
  | TTmpdir, TTmpdir => true
  | TMkdir c, TMkdir c' => Bool.eqb c c'
  | TMkroot, TMkroot => true
  | TOpen, TOpen => true
  | TFill, TFill => true
  | TDump, TDump => true
  | TCopy, TCopy => true
  | TMove x, TMove x' => Nat.eqb x x'
  | TCleanup, TCleanup => true
  | TROpen, TROpen => true
  | TRFill, TRFill => true
  | TLoad, TLoad => true
  | _, _ => false
  end.

Fixpoint trace_eqb (a b : list top) : bool :=
  match a, b with
  | [], [] => true
  | x :: a', y :: b' => top_eqb x y && trace_eqb a' b'
  | _, _ => false
  end.

(** registry as the harness sees it: is the first model still there, was it
    renamed, how many other models are registered *)
Definition reg_view (r : registry) : bool * bool * nat :=
  match r with
  | [] => (false, false, 0)
  | (u, nm) :: t => (true, negb (mname_eqb nm (Plain 0)), length t)
  end.

Record obs := mkO {
  o_raised : bool;
  o_trace : list top;
  o_flag : bool;
  o_slots : option (list slotobs);     (* None: not observed after this operation *)
  o_reg : bool * bool * nat
}.

Definition obs_agrees (r : res) (o : obs) : bool :=
  let w := wof r in
  Bool.eqb (raised r) (o_raised o)
  && trace_eqb (rev (trace w)) (o_trace o)
  && Bool.eqb (flag w) (o_flag o)
  && match o_slots o with None => true | Some l => slots_agree (fs w) l end
  && match reg_view (reg w), o_reg o with
     | (a, b, c), (a', b', c') => Bool.eqb a a' && Bool.eqb b b' && Nat.eqb c c'
     end.

Fixpoint check_from (s : sys) (l : list (op * option obs)) : bool :=
  match l with
  | [] => true
  | (o, ob) :: t =>
      match ob with Some x => obs_agrees (run_op s o) x | None => true end
      && check_from (step s o) t
  end.

Definition check_case (l : list (op * option obs)) : bool := check_from init l.

(** the property evaluated on the state reached by the model (decidable form
    used by the harness on the implementation's own observations too) *)
Definition head_ok (l : fsys) : bool :=
  match l with
  | [e0; e1; e2; e3] =>
      match e0 with Good _ _ _ => true | _ =>
      match e1 with Good _ _ _ => true | _ =>
      match e2, e3 with
      | Good _ _ _, _ => false
      | _, Good _ _ _ => false
      | _, _ => true
      end end end
  | _ => false
  end.
