(** Backup layer: session side of C14 -- flags are always reset, a failing save
    or load leaves the registry exactly as it was, loads never touch the files. *)
From Coq Require Import List Bool Arith Lia.
From MX Require Import Backup.Model Backup.Proofs Backup.ProofsSave.
Import ListNotations.

(* ------------------------------------------------------------------ *)
(** * registry algebra *)
Lemma mname_eqb_eq a b : mname_eqb a b = true -> a = b.
Proof.
  destruct a, b; cbn; intros H; try discriminate H; try reflexivity;
    apply Nat.eqb_eq in H; subst; reflexivity.
Qed.

Lemma set_name_cons u nm p r :
  set_name u nm (p :: r) = (if Nat.eqb (fst p) u then (u, nm) else p) :: set_name u nm r.
Proof. reflexivity. Qed.

Lemma remove_uid_cons u p r :
  remove_uid u (p :: r) = if negb (Nat.eqb (fst p) u) then p :: remove_uid u r else remove_uid u r.
Proof. reflexivity. Qed.

Lemma map_fst_set_name u nm r : map fst (set_name u nm r) = map fst r.
Proof.
  induction r as [|p r IH]; [reflexivity|]. rewrite set_name_cons. cbn [map]. rewrite IH. f_equal.
  destruct (Nat.eqb (fst p) u) eqn:E; [|reflexivity]. apply Nat.eqb_eq in E. cbn. congruence.
Qed.

Lemma set_name_fresh u nm r : ~ In u (map fst r) -> set_name u nm r = r.
Proof.
  induction r as [|p r IH]; intros H; [reflexivity|]. rewrite set_name_cons. cbn [map In] in H.
  destruct (Nat.eqb (fst p) u) eqn:E.
  - apply Nat.eqb_eq in E. exfalso. apply H. left. exact E.
  - rewrite IH; [reflexivity|]. intros X. apply H. right. exact X.
Qed.

Lemma set_name_app u nm a b : set_name u nm (a ++ b) = set_name u nm a ++ set_name u nm b.
Proof. unfold set_name. apply map_app. Qed.

Lemma set_name_twice u a b r : set_name u a (set_name u b r) = set_name u a r.
Proof.
  induction r as [|p r IH]; [reflexivity|]. rewrite !set_name_cons, IH. f_equal.
  destruct (Nat.eqb (fst p) u) eqn:E; cbn [fst]; [rewrite Nat.eqb_refl; reflexivity|rewrite E; reflexivity].
Qed.

Lemma set_name_id v nm r : NoDup (map fst r) -> In (v, nm) r -> set_name v nm r = r.
Proof.
  induction r as [|p r IH]; intros N I; [reflexivity|]. rewrite set_name_cons.
  cbn [map] in N. inversion N as [|x l Hx Hl]; subst. cbn [In] in I.
  destruct (Nat.eqb (fst p) v) eqn:E.
  - apply Nat.eqb_eq in E. destruct I as [I|I].
    + subst p. f_equal. apply set_name_fresh. exact Hx.
    + exfalso. apply Hx. rewrite E. change v with (fst (v, nm)). apply in_map. exact I.
  - f_equal. destruct I as [I|I].
    + subst p. cbn in E. rewrite Nat.eqb_refl in E. discriminate E.
    + apply IH; assumption.
Qed.

Lemma find_name_in nm r v : find_name nm r = Some v -> In (v, nm) r.
Proof.
  induction r as [|[u n] r IH]; cbn; intros H; [discriminate H|].
  destruct (mname_eqb n nm) eqn:E.
  - inversion H; subst. apply mname_eqb_eq in E. subst. left. reflexivity.
  - right. apply IH. exact H.
Qed.

Lemma find_name_app nm a b :
  find_name nm (a ++ b) = match find_name nm a with Some v => Some v | None => find_name nm b end.
Proof.
  induction a as [|[u n] a IH]; cbn; [reflexivity|]. destruct (mname_eqb n nm); [reflexivity|exact IH].
Qed.

Lemma remove_uid_fresh u r : ~ In u (map fst r) -> remove_uid u r = r.
Proof.
  induction r as [|p r IH]; intros H; [reflexivity|]. rewrite remove_uid_cons. cbn [map In] in H.
  destruct (Nat.eqb (fst p) u) eqn:E; cbn [negb].
  - apply Nat.eqb_eq in E. exfalso. apply H. left. exact E.
  - rewrite IH; [reflexivity|]. intros X. apply H. right. exact X.
Qed.

Lemma remove_uid_last u x r : ~ In u (map fst r) -> remove_uid u (r ++ [(u, x)]) = r.
Proof.
  intros H. unfold remove_uid. rewrite filter_app. cbn. rewrite Nat.eqb_refl. cbn.
  rewrite app_nil_r. apply remove_uid_fresh. exact H.
Qed.

(** registry after the [_name] line of a load that created model [u] *)
Definition renamed_reg (r : registry) (t : nat) : registry :=
  match find_name (Plain t) r with
  | Some v => set_name v (Backup t) r
  | None => r
  end.

Lemma in_fst (v : nat) (nm : mname) (r : registry) : In (v, nm) r -> In v (map fst r).
Proof. intros H. change v with (fst (v, nm)). apply in_map. exact H. Qed.

Lemma rename_new_reg r u t w :
  reg w = r ++ [(u, Auto)] -> ~ In u (map fst r) ->
  reg (rename_new u t w) = renamed_reg r t ++ [(u, Plain t)].
Proof.
  intros Hw Hu. unfold rename_new, renamed_reg. cbn [reg set_reg]. rewrite Hw, find_name_app.
  destruct (find_name (Plain t) r) as [v|] eqn:F.
  - assert (Hv : v <> u).
    { intros ->. apply Hu. apply (in_fst u (Plain t)). apply find_name_in. exact F. }
    rewrite !set_name_app. cbn [set_name map fst].
    replace (Nat.eqb u v) with false by (symmetry; apply Nat.eqb_neq; congruence).
    rewrite Nat.eqb_refl. f_equal. apply set_name_fresh. rewrite map_fst_set_name. exact Hu.
  - cbn [find_name mname_eqb]. rewrite set_name_app. cbn [set_name map fst]. rewrite Nat.eqb_refl.
    f_equal. apply set_name_fresh. exact Hu.
Qed.

Lemma abandon_restores r u t w1 :
  NoDup (map fst r) -> ~ In u (map fst r) ->
  (reg w1 = r ++ [(u, Auto)] \/ reg w1 = renamed_reg r t ++ [(u, Plain t)]) ->
  reg (abandon u t (find_name (Plain t) r) w1) = r.
Proof.
  intros N Hu Hw. unfold abandon. cbn [reg set_reg].
  destruct Hw as [Hw|Hw]; rewrite Hw.
  - rewrite remove_uid_last by exact Hu.
    destruct (find_name (Plain t) r) as [v|] eqn:F; [|reflexivity].
    apply set_name_id; [exact N|apply find_name_in; exact F].
  - unfold renamed_reg. destruct (find_name (Plain t) r) as [v|] eqn:F.
    + rewrite remove_uid_last by (rewrite map_fst_set_name; exact Hu).
      rewrite set_name_twice. apply set_name_id; [exact N|apply find_name_in; exact F].
    + rewrite remove_uid_last by exact Hu. reflexivity.
Qed.

(* ------------------------------------------------------------------ *)
(** * a load *)
Definition wf_reg (r : registry) (n : nat) : Prop :=
  NoDup (map fst r) /\ (forall v, In v (map fst r) -> v < n).

Lemma wf_fresh r n : wf_reg r n -> ~ In n (map fst r).
Proof. intros (_ & H) X. specialize (H n X). lia. Qed.

(** where the try block of the reader can stop *)
Definition body_stop (r : registry) (u t : nat) (br : res) : Prop :=
  (nuid (wof br) = u /\ reg (wof br) = r /\ raised br = true)
  \/ (nuid (wof br) = S u /\ reg (wof br) = r ++ [(u, Auto)] /\ raised br = true)
  \/ (nuid (wof br) = S u /\ reg (wof br) = renamed_reg r t ++ [(u, Plain t)]).

Lemma reader_cont_spec t sh r u w wx :
  fs wx = fs w -> reg wx = r -> nuid wx = u -> ~ In u (map fst r) ->
  let br := andthen (prim TROpen noeff (new_model wx)) (fun w =>
            andthen (prim TRFill noeff w) (fun w => run_shape Zip sh (rename_new u t w))) in
  fs (wof br) = fs w /\ body_stop r u t br.
Proof.
  intros Hf Hr Hn Hu. cbn zeta. unfold body_stop.
  assert (M1 : fs (new_model wx) = fs w) by (unfold new_model; cbn; exact Hf).
  assert (M2 : reg (new_model wx) = r ++ [(u, Auto)]) by (unfold new_model; cbn; rewrite Hr, Hn; reflexivity).
  assert (M3 : nuid (new_model wx) = S u) by (unfold new_model; cbn; rewrite Hn; reflexivity).
  destruct (prim_cases TROpen noeff (new_model wx))
    as [(w0 & E & F & R & N & _)|(w0 & E & F & R & N & _)]; rewrite E; cbn [andthen].
  - change (noeff w0) with w0.
    destruct (prim_cases TRFill noeff w0)
      as [(w1 & E1 & F1 & R1 & N1 & _)|(w1 & E1 & F1 & R1 & N1 & _)]; rewrite E1; cbn [andthen].
    + change (noeff w1) with w1.
      assert (Q : reg (rename_new u t w1) = renamed_reg r t ++ [(u, Plain t)]).
      { apply rename_new_reg; [rewrite R1, R; exact M2|exact Hu]. }
      pose proof (run_shape_spec Zip sh (rename_new u t w1)) as ((a1 & a2 & a3) & _ & C). cbn in C.
      split.
      * rewrite C. unfold rename_new. cbn. rewrite F1, F. exact M1.
      * right. right. split; [rewrite a2; unfold rename_new; cbn; rewrite N1, N; exact M3|rewrite a1; exact Q].
    + cbn [wof raised]. split; [rewrite F1, F; exact M1|].
      right. left. split; [rewrite N1, N; exact M3|]. split; [rewrite R1, R; exact M2|reflexivity].
  - cbn [wof raised]. split; [rewrite F; exact M1|].
    right. left. split; [rewrite N; exact M3|]. split; [rewrite R; exact M2|reflexivity].
Qed.

Lemma reader_body_spec t f sh w :
  ~ In (nuid w) (map fst (reg w)) ->
  let br := reader_body t f sh (nuid w) w in
  fs (wof br) = fs w /\ body_stop (reg w) (nuid w) t br.
Proof.
  intros Hu. unfold reader_body.
  destruct f; [unfold body_stop|].
  - destruct (prim_cases TTmpdir tmp_inc (set_flag true w))
      as [(w0 & E & F & R & N & _)|(w0 & E & F & R & N & _)]; rewrite E; cbn [andthen].
    + apply reader_cont_spec; try exact Hu; unfold tmp_inc; cbn; [rewrite F|rewrite R|rewrite N]; reflexivity.
    + cbn [wof raised]. split; [rewrite F; reflexivity|].
      left. split; [rewrite N; reflexivity|]. split; [rewrite R; reflexivity|reflexivity].
  - cbn [andthen]. apply reader_cont_spec; try exact Hu; reflexivity.
Qed.

Lemma nodup_snoc (l : list nat) (u : nat) : NoDup l -> ~ In u l -> NoDup (l ++ [u]).
Proof.
  induction l as [|x l IH]; cbn; intros N H; [constructor; [intros []|constructor]|].
  inversion N as [|y m Hy Hm]; subst. constructor.
  - intros X. apply in_app_or in X. destruct X as [X|[X|[]]]; [exact (Hy X)|]. apply H. left. symmetry. exact X.
  - apply IH; [exact Hm|]. intros X. apply H. right. exact X.
Qed.

Lemma map_fst_renamed r t : map fst (renamed_reg r t) = map fst r.
Proof. unfold renamed_reg. destruct (find_name (Plain t) r); [apply map_fst_set_name|reflexivity]. Qed.

Definition load_post (w : world) (r : res) : Prop :=
  flag (wof r) = false /\ fs (wof r) = fs w
  /\ (raised r = true -> reg (wof r) = reg w)
  /\ wf_reg (reg (wof r)) (nuid (wof r)).

Lemma reader_spec t f sh w :
  wf_reg (reg w) (nuid w) -> load_post w (reader t f sh w).
Proof.
  intros W. pose proof (wf_fresh _ _ W) as Hu. destruct W as (Nd & Bd).
  unfold reader, try_finally.
  pose proof (reader_body_spec t f sh w Hu) as (Bf & Bs). cbn zeta in Bf, Bs. unfold body_stop in Bs.
  assert (WS : wf_reg (reg w) (S (nuid w))) by (split; [exact Nd|intros v X; specialize (Bd v X); lia]).
  assert (Wnew : wf_reg (renamed_reg (reg w) t ++ [(nuid w, Plain t)]) (S (nuid w))).
  { split.
    - rewrite map_app, map_fst_renamed. cbn. apply nodup_snoc; assumption.
    - intros v X. rewrite map_app, map_fst_renamed in X. apply in_app_or in X.
      destruct X as [X|[X|[]]]; [specialize (Bd v X); lia|cbn in X; lia]. }
  assert (Hne : Nat.eqb (S (nuid w)) (nuid w) = false) by (apply Nat.eqb_neq; lia).
  destruct (reader_body t f sh (nuid w) w) as [wb|wb]; cbn [wof raised] in *.
  - (* the try block completed *)
    destruct Bs as [(_ & _ & X)|[(_ & _ & X)|(B1 & B2)]]; try discriminate X.
    pose proof (unwind_spec wb) as (A & (a1 & a2 & a3) & _). cbn zeta in A, a1, a2, a3.
    destruct (unwind wb) as [wc|wc]; cbn [wof raised] in *.
    + unfold load_post. cbn [wof raised set_flag flag fs reg nuid].
      split; [reflexivity|]. split; [rewrite A; exact Bf|]. split; [discriminate|].
      rewrite a1, a2, B1, B2. exact Wnew.
    + rewrite a2, B1, Hne. unfold load_post. cbn [wof raised set_flag flag fs reg nuid].
      assert (Q : reg (abandon (nuid w) t (find_name (Plain t) (reg w)) wc) = reg w).
      { apply abandon_restores; [exact Nd|exact Hu|right; rewrite a1; exact B2]. }
      split; [reflexivity|]. split; [unfold abandon; cbn; rewrite A; exact Bf|]. split; [intros _; exact Q|].
      rewrite Q. unfold abandon. cbn [nuid set_reg]. rewrite a2, B1. exact WS.
  - (* it raised *)
    pose proof (unwind_spec wb) as (A & (a1 & a2 & a3) & _). cbn zeta in A, a1, a2, a3.
    destruct Bs as [(B1 & B2 & _)|[(B1 & B2 & _)|(B1 & B2)]]; rewrite a2, B1.
    + rewrite Nat.eqb_refl. unfold load_post. cbn [wof raised set_flag flag fs reg nuid].
      split; [reflexivity|]. split; [rewrite A; exact Bf|]. split; [intros _; rewrite a1; exact B2|].
      rewrite a1, a2, B1, B2. split; assumption.
    + rewrite Hne. unfold load_post. cbn [wof raised set_flag flag fs reg nuid].
      assert (Q : reg (abandon (nuid w) t (find_name (Plain t) (reg w)) (wof (unwind wb))) = reg w).
      { apply abandon_restores; [exact Nd|exact Hu|left; rewrite a1; exact B2]. }
      split; [reflexivity|]. split; [unfold abandon; cbn; rewrite A; exact Bf|]. split; [intros _; exact Q|].
      rewrite Q. unfold abandon. cbn [nuid set_reg]. rewrite a2, B1. exact WS.
    + rewrite Hne. unfold load_post. cbn [wof raised set_flag flag fs reg nuid].
      assert (Q : reg (abandon (nuid w) t (find_name (Plain t) (reg w)) (wof (unwind wb))) = reg w).
      { apply abandon_restores; [exact Nd|exact Hu|right; rewrite a1; exact B2]. }
      split; [reflexivity|]. split; [unfold abandon; cbn; rewrite A; exact Bf|]. split; [intros _; exact Q|].
      rewrite Q. unfold abandon. cbn [nuid set_reg]. rewrite a2, B1. exact WS.
Qed.

Lemma load_spec t f sh w :
  wf_reg (reg w) (nuid w) -> flag w = false -> load_post w (load t f sh w).
Proof.
  intros W Hfl. unfold load.
  destruct (prim_cases TROpen noeff w)
    as [(w0 & E & F & R & N & FL & _)|(w0 & E & F & R & N & FL & _)]; rewrite E; cbn [andthen].
  - change (noeff w0) with w0.
    destruct (prim_cases TRFill noeff w0)
      as [(w1 & E1 & F1 & R1 & N1 & FL1 & _)|(w1 & E1 & F1 & R1 & N1 & FL1 & _)]; rewrite E1; cbn [andthen].
    + change (noeff w1) with w1.
      assert (W1 : wf_reg (reg w1) (nuid w1)) by (rewrite R1, R, N1, N; exact W).
      destruct (reader_spec t f sh w1 W1) as (a & b & c & d).
      unfold load_post. split; [exact a|]. split; [rewrite b, F1, F; reflexivity|].
      split; [intros X; rewrite (c X), R1, R; reflexivity|exact d].
    + unfold load_post. cbn [wof raised].
      split; [rewrite FL1, FL; exact Hfl|]. split; [rewrite F1, F; reflexivity|].
      split; [intros _; rewrite R1, R; reflexivity|rewrite R1, R, N1, N; exact W].
  - unfold load_post. cbn [wof raised].
    split; [rewrite FL; exact Hfl|]. split; [exact F|]. split; [intros _; exact R|rewrite R, N; exact W].
Qed.

(* ------------------------------------------------------------------ *)
(** * a save, session side (no assumption on the files) *)
Definition sess2 (a b : world) : Prop := reg a = reg b /\ nuid a = nuid b.

Lemma sess2_refl a : sess2 a a.
Proof. split; reflexivity. Qed.

Lemma sess2_trans a b c : sess2 a b -> sess2 b c -> sess2 a c.
Proof. intros (x1 & x2) (y1 & y2). split; congruence. Qed.

Lemma prim_sess2 o eff w : fs_only eff -> sess2 (wof (prim o eff w)) w.
Proof. intros H. destruct (prim_session o eff w H) as (a & b & _). split; assumption. Qed.

Lemma andthen_sess2 r k w :
  sess2 (wof r) w -> (forall x, sess2 (wof (k x)) x) -> sess2 (wof (andthen r k)) w.
Proof.
  intros H K. destruct r as [x|x]; cbn [andthen wof] in *; [|exact H].
  exact (sess2_trans _ _ _ (K x) H).
Qed.

Lemma run_shape_sess2 f sh w : sess2 (wof (run_shape f sh w)) w.
Proof. destruct (run_shape_spec f sh w) as ((a & b & _) & _). split; assumption. Qed.

Lemma writer_body_sess2 f sh g w : sess2 (wof (writer_body f sh g w)) w.
Proof.
  unfold writer_body. destruct f.
  - apply andthen_sess2; [apply prim_sess2, fs_only_noeff|]. intros x.
    apply (sess2_trans _ (set_flag true x)); [|split; reflexivity].
    apply andthen_sess2; [apply prim_sess2, fs_only_noeff|]. intros y.
    apply andthen_sess2; [apply run_shape_sess2|]. intros z.
    destruct (is_dir (slot (fs z) 0)); [apply sess2_refl|apply prim_sess2, fs_only_set_slot].
  - apply (sess2_trans _ (set_flag true w)); [|split; reflexivity].
    apply andthen_sess2; [apply prim_sess2, fs_only_mkroot|]. intros x.
    apply andthen_sess2; [apply run_shape_sess2|]. intros y. cbn [wof].
    unfold complete. destruct (slot (fs y) 0); split; reflexivity.
Qed.

Lemma try_finally_writer f sh g w :
  let r := try_finally (writer_body f sh g) (writer_fin f) w in
  flag (wof r) = false /\ sess2 (wof r) w.
Proof.
  unfold try_finally. pose proof (writer_body_sess2 f sh g w) as (b1 & b2).
  destruct (writer_body f sh g w) as [x|x]; cbn [wof] in *;
    destruct (writer_fin_spec f x) as (_ & B & C & D & _); cbn zeta in B, C, D;
    (split; [exact D|split; congruence]).
Qed.

Lemma writer_session f sh g w :
  flag (wof (writer f sh g w)) = false /\ sess2 (wof (writer f sh g w)) w.
Proof.
  unfold writer. destruct f; [|apply try_finally_writer].
  destruct (prim_cases TTmpdir tmp_inc w)
    as [(w0 & E & F & R & N & _)|(w0 & E & F & R & N & _)]; rewrite E.
  - destruct (try_finally_writer Zip sh g (tmp_inc w0)) as (a & b1 & b2). cbn zeta in a, b1, b2.
    split; [exact a|]. split; [rewrite b1; exact R|rewrite b2; exact N].
  - cbn. split; [reflexivity|split; assumption].
Qed.

Lemma write_model_session m f sh g w :
  let r := write_model m f sh g w in
  (flag w = false -> flag (wof r) = false) /\ sess2 (wof r) w.
Proof.
  unfold write_model. destruct (incr_session m 0 w) as (i1 & i2 & i3 & _). cbn zeta in i1, i2, i3.
  destruct (incr m 0 w) as [x|x]; cbn [andthen wof] in *.
  - destruct (writer_session f sh g x) as (a & b1 & b2).
    destruct (writer f sh g x) as [y|y]; cbn [wof] in *.
    + split; [intros _; exact a|split; congruence].
    + destruct (drop_partial_session m f y) as (d1 & d2 & d3).
      split; [intros _; rewrite d3; exact a|split; congruence].
  - split; [intros H; congruence|split; assumption].
Qed.

(* ------------------------------------------------------------------ *)
(** * sessions *)
Definition WF (s : sys) : Prop := wf_reg (s_reg s) (s_nuid s) /\ s_flag s = false.

Lemma WF_init : WF init.
Proof.
  split; [|reflexivity]. split; cbn.
  - constructor; [intros []|constructor].
  - intros v [<-|[]]. lia.
Qed.

Lemma session_step s o :
  WF s ->
  WF (step s o)
  /\ (raised (run_op s o) = true -> s_reg (step s o) = s_reg s)
  /\ (match o with OSave _ _ _ _ => True | _ => s_fs (step s o) = s_fs s end).
Proof.
  intros ((Nd & Bd) & Hfl). destruct s as [l r n g fl0]. cbn [s_reg s_nuid s_flag s_fs s_gen] in *.
  destruct o as [b f sh fl|t f sh fl|]; unfold step, run_op, leave.
  - cbn [s_gen]. set (w := enter (mkS l r n g fl0) fl).
    assert (Hw : reg w = r /\ nuid w = n /\ flag w = fl0) by (repeat split).
    destruct Hw as (h1 & h2 & h3).
    destruct (write_model_session (max_backups b) f sh (S g) w) as (a & b1 & b2). cbn zeta in a, b1, b2.
    unfold WF. cbn [s_reg s_nuid s_flag s_fs].
    split; [split; [rewrite b1, b2, h1, h2; split; assumption|apply a; rewrite h3; exact Hfl]|].
    split; [intros _; rewrite b1; exact h1|exact I].
  - cbn [s_gen]. set (w := enter (mkS l r n g fl0) fl).
    assert (Hw : reg w = r /\ nuid w = n /\ flag w = fl0 /\ fs w = l) by (repeat split).
    destruct Hw as (h1 & h2 & h3 & h4).
    destruct (load_spec t f sh w) as (a & b & c & d).
    + rewrite h1, h2. split; assumption.
    + rewrite h3. exact Hfl.
    + unfold WF. cbn [s_reg s_nuid s_flag s_fs].
      split; [split; [exact d|exact a]|]. split; [intros X; rewrite (c X); exact h1|rewrite b; exact h4].
  - unfold enter, WF. cbn [wof raised s_reg s_nuid s_flag s_fs reg nuid flag fs set_reg].
    split; [|split; [discriminate|reflexivity]].
    split; [|exact Hfl]. destruct r as [|p r]; cbn.
    + split; [constructor|intros v []].
    + split; [constructor; [intros []|constructor]|]. intros v [<-|[]]. apply Bd. left. reflexivity.
Qed.

Lemma session_run : forall ops s, WF s -> WF (fold_left step ops s).
Proof.
  induction ops as [|o ops IH]; intros s W; cbn [fold_left]; [exact W|].
  apply IH. destruct (session_step s o W) as (X & _). exact X.
Qed.

Lemma session_all ops o :
  let s := run ops in
  s_flag (step s o) = false
  /\ (raised (run_op s o) = true -> s_reg (step s o) = s_reg s)
  /\ (match o with OSave _ _ _ _ => True | _ => s_fs (step s o) = s_fs s end).
Proof.
  cbn zeta. pose proof (session_run ops init WF_init) as W. fold (run ops) in W.
  destruct (session_step (run ops) o W) as ((_ & a) & b & c). split; [exact a|split; [exact b|exact c]].
Qed.
