(** Backup layer: the writer, one save, sequences of saves (C14 main theorems). *)
From Coq Require Import List Bool Arith Lia.
From MX Require Import Backup.Model Backup.Proofs.
Import ListNotations.

Lemma writer_fin_spec f w :
  let r := writer_fin f w in
  fs (wof r) = fs w /\ reg (wof r) = reg w /\ nuid (wof r) = nuid w /\ flag (wof r) = false
  /\ (fault w = None -> raised r = false).
Proof.
  unfold writer_fin. destruct f.
  - pose proof (unwind_spec (set_flag false w)) as (A & (b1 & b2 & b3) & C). cbn in *.
    repeat split; auto. intros Hn. apply C. exact Hn.
  - cbn. repeat split; auto.
Qed.

(** outcome of the writer on a path that the rotation left empty *)
Definition writer_post (f : fmt) (g : nat) (t : fsys) (w : world) (r : res) : Prop :=
  flag (wof r) = false /\ reg (wof r) = reg w /\ nuid (wof r) = nuid w /\
  ((fs (wof r) = Absent :: t /\ raised r = true)
   \/ ((exists n, fs (wof r) = Good g f n :: t) /\ (f = Dir -> raised r = false))
   \/ (f = Dir /\ raised r = true /\ fault (wof r) = None /\ exists n, fs (wof r) = Partial g n :: t)) /\
  (fault w = None -> raised r = false /\ exists n, fs (wof r) = Good g f n :: t).

(** a raise inside the try block that left the file system as it was *)
Lemma fin_after_raise f g t w w1 :
  fs w1 = Absent :: t -> reg w1 = reg w -> nuid w1 = nuid w -> fault w <> None ->
  writer_post f g t w (Raised (wof (writer_fin f w1))).
Proof.
  intros Hfs Hr Hn Hf. pose proof (writer_fin_spec f w1) as (A & B & C & D & _). cbn in *.
  unfold writer_post. cbn [wof raised].
  split; [exact D|]. split; [rewrite B; exact Hr|]. split; [rewrite C; exact Hn|]. split.
  - left. split; [rewrite A; exact Hfs|reflexivity].
  - intros X. contradiction.
Qed.

Lemma complete_spec w g n t :
  fs w = Partial g n :: t ->
  fs (complete w) = Good g Dir n :: t /\ reg (complete w) = reg w /\ nuid (complete w) = nuid w
  /\ flag (complete w) = flag w /\ fault (complete w) = fault w.
Proof.
  intros H. unfold complete, slot. rewrite H. cbn. rewrite H. repeat split.
Qed.

Lemma writer_dir_spec sh g w t :
  fs w = Absent :: t -> writer_post Dir g t w (writer Dir sh g w).
Proof.
  intros Hw. unfold writer, try_finally, writer_body.
  set (w1 := set_flag true w).
  assert (Hw1 : fs w1 = Absent :: t) by exact Hw.
  replace (slot (fs w1) 0) with Absent by (rewrite Hw1; reflexivity). cbn [present negb].
  destruct (prim_cases (TMkdir true) (mkroot_dir g) w1)
    as [(w0 & E & F & R & N & FL & T & FN)|(w0 & E & F & R & N & FL & T & FN & FNN)]; rewrite E; cbn [andthen].
  - (* root directory made *)
    assert (H0 : fs (mkroot_dir g w0) = Partial g 1 :: t).
    { unfold mkroot_dir, slot. rewrite F, Hw1. cbn. rewrite F, Hw1. reflexivity. }
    destruct (fs_only_mkroot g w0) as (m1 & m2 & m3 & m4 & m5).
    pose proof (run_shape_spec Dir sh (mkroot_dir g w0)) as ((a1 & a2 & a3) & B & C). cbn in C.
    destruct (C g 1 t H0) as (n' & Hn').
    pose proof (run_shape_raised Dir sh (mkroot_dir g w0)) as HRF.
    destruct (run_shape Dir sh (mkroot_dir g w0)) as [w2|w2]; cbn [andthen wof raised] in *.
    + (* complete *)
      destruct (complete_spec w2 g n' t Hn') as (c1 & c2 & c3 & c4 & c5).
      unfold writer_fin. cbn [wof raised]. unfold writer_post. cbn [wof raised set_flag flag reg nuid fs].
      split; [reflexivity|]. split; [rewrite c2, a1, m1, R; reflexivity|]. split; [rewrite c3, a2, m2, N; reflexivity|].
      split.
      * right. left. split; [exists n'; exact c1|intros _; reflexivity].
      * intros _. split; [reflexivity|]. exists n'. exact c1.
    + (* a member failed *)
      unfold writer_fin. cbn [wof raised]. unfold writer_post. cbn [wof raised set_flag flag reg nuid fs].
      split; [reflexivity|]. split; [rewrite a1, m1, R; reflexivity|]. split; [rewrite a2, m2, N; reflexivity|].
      split.
      * right. right. split; [reflexivity|]. split; [reflexivity|]. split; [|exists n'; exact Hn'].
        exact (HRF eq_refl).
      * intros Hn. exfalso. rewrite m5 in B. destruct B as (X & _); [apply FN; exact Hn|discriminate X].
  - (* mkdir of the root failed *)
    apply fin_after_raise.
    + rewrite F. exact Hw1.
    + rewrite R. reflexivity.
    + rewrite N. reflexivity.
    + exact FNN.
Qed.

(** the try block of a zip save, seen from a state in which <path> is empty *)
Definition body_post (g : nat) (t : fsys) (w : world) (r : res) : Prop :=
  reg (wof r) = reg w /\ nuid (wof r) = nuid w
  /\ (fault w = None -> raised r = false /\ fault (wof r) = None)
  /\ ((fs (wof r) = Absent :: t /\ raised r = true)
      \/ (fs (wof r) = Good g Zip 1 :: t /\ raised r = false)).

Lemma body_post_via g t w w' r :
  reg w' = reg w -> nuid w' = nuid w -> (fault w = None -> fault w' = None) ->
  body_post g t w' r -> body_post g t w r.
Proof.
  intros R N F (a & b & c & d). unfold body_post.
  split; [rewrite a; exact R|]. split; [rewrite b; exact N|]. split; [|exact d].
  intros Hn. apply c. apply F. exact Hn.
Qed.

Lemma andthen_prim_noeff o k g t w :
  fs w = Absent :: t ->
  (forall w', fs w' = Absent :: t -> reg w' = reg w -> nuid w' = nuid w ->
              (fault w = None -> fault w' = None) -> body_post g t w' (k w')) ->
  body_post g t w (andthen (prim o noeff w) k).
Proof.
  intros Hw Hk.
  destruct (prim_cases o noeff w)
    as [(w0 & E & F & R & N & FL & T & FN)|(w0 & E & F & R & N & FL & T & FN & FNN)]; rewrite E; cbn [andthen].
  - unfold noeff. apply (body_post_via g t w w0); auto. apply Hk; auto. rewrite F. exact Hw.
  - unfold body_post. cbn [wof raised]. split; [exact R|]. split; [exact N|]. split.
    + intros Hn. exfalso. apply FNN. exact Hn.
    + left. split; [rewrite F; exact Hw|reflexivity].
Qed.

Lemma body_zip_spec sh g t w :
  fs w = Absent :: t -> body_post g t w (writer_body Zip sh g w).
Proof.
  intros Hw. unfold writer_body.
  apply andthen_prim_noeff; [exact Hw|]. intros w1 H1 R1 N1 F1.
  apply (andthen_prim_noeff TMkroot _ g t (set_flag true w1)); [exact H1|]. intros w2 H2 R2 N2 F2.
  pose proof (run_shape_spec Zip sh w2) as ((a1 & a2 & a3) & B & C). cbn in C.
  destruct (run_shape Zip sh w2) as [w3|w3]; cbn [andthen wof raised] in *.
  - replace (slot (fs w3) 0) with Absent by (rewrite C, H2; reflexivity). cbn [is_dir].
    destruct (prim_cases (TMove 0) (set_slot 0 (Good g Zip 1)) w3)
      as [(w0 & E & F & R & N & FL & T & FN)|(w0 & E & F & R & N & FL & T & FN & FNN)]; rewrite E.
    + unfold body_post. cbn [wof raised]. unfold set_slot. cbn [reg nuid fault fs set_fs].
      split; [rewrite R, a1; reflexivity|]. split; [rewrite N, a2; reflexivity|]. split.
      * intros Hn. split; [reflexivity|]. apply FN. apply B. exact Hn.
      * right. split; [|reflexivity]. rewrite F, C, H2. reflexivity.
    + unfold body_post. cbn [wof raised].
      split; [rewrite R, a1; reflexivity|]. split; [rewrite N, a2; reflexivity|]. split.
      * intros Hn. exfalso. apply FNN. apply B. exact Hn.
      * left. split; [rewrite F, C, H2; reflexivity|reflexivity].
  - unfold body_post. cbn [wof raised].
    split; [exact a1|]. split; [exact a2|]. split.
    + intros Hn. destruct (B Hn) as (X & _). discriminate X.
    + left. split; [rewrite C; exact H2|reflexivity].
Qed.

Lemma writer_zip_spec sh g w t :
  fs w = Absent :: t -> writer_post Zip g t w (writer Zip sh g w).
Proof.
  intros Hw. unfold writer.
  destruct (prim_cases TTmpdir tmp_inc w)
    as [(w0 & E & F & R & N & FL & T & FN)|(w0 & E & F & R & N & FL & T & FN & FNN)]; rewrite E.
  - set (wa := tmp_inc w0).
    assert (Ha : fs wa = Absent :: t) by (unfold wa, tmp_inc; cbn; rewrite F; exact Hw).
    pose proof (body_zip_spec sh g t wa Ha) as (b1 & b2 & b3 & b4).
    unfold try_finally.
    destruct (writer_body Zip sh g wa) as [wb|wb]; cbn [wof raised] in *;
      pose proof (writer_fin_spec Zip wb) as (A & B & C & D & Ef); cbn zeta in A, B, C, D, Ef.
    + (* body completed: the archive is in place *)
      destruct b4 as [(_ & X)|(Hg & _)]; [discriminate X|].
      unfold writer_post. split; [exact D|]. split; [rewrite B, b1; unfold wa, tmp_inc; cbn; exact R|].
      split; [rewrite C, b2; unfold wa, tmp_inc; cbn; exact N|]. split.
      * right. left. split; [exists 1; rewrite A; exact Hg|discriminate].
      * intros Hn. assert (Hna : fault wa = None) by (unfold wa, tmp_inc; cbn; apply FN; exact Hn).
        destruct (b3 Hna) as (_ & Hnb). split; [apply Ef; exact Hnb|]. exists 1. rewrite A. exact Hg.
    + destruct b4 as [(Hg & _)|(_ & X)]; [|discriminate X].
      unfold writer_post. cbn [wof raised].
      split; [exact D|]. split; [rewrite B, b1; unfold wa, tmp_inc; cbn; exact R|].
      split; [rewrite C, b2; unfold wa, tmp_inc; cbn; exact N|]. split.
      * left. split; [rewrite A; exact Hg|reflexivity].
      * intros Hn. assert (Hna : fault wa = None) by (unfold wa, tmp_inc; cbn; apply FN; exact Hn).
        destruct (b3 Hna) as (X & _). discriminate X.
  - (* TemporaryDirectory() failed *)
    unfold writer_post. cbn [wof raised set_flag flag reg nuid fs].
    split; [reflexivity|]. split; [exact R|]. split; [exact N|]. split.
    + left. split; [rewrite F; exact Hw|reflexivity].
    + intros Hn. exfalso. apply FNN. exact Hn.
Qed.

Lemma writer_spec f sh g w t :
  fs w = Absent :: t -> writer_post f g t w (writer f sh g w).
Proof. destruct f; [apply writer_zip_spec|apply writer_dir_spec]. Qed.

(* ------------------------------------------------------------------ *)
(** * the four paths after a rotation: pure facts *)
Lemma desc_from_mono l : forall a b, a <= b -> desc_from a l -> desc_from b l.
Proof.
  induction l as [|e l IH]; cbn; intros a b Hab H; [exact I|].
  destruct (egen e) as [g|].
  - destruct H as (H1 & H2). split; [lia|exact H2].
  - exact (IH a b Hab H).
Qed.

Lemma rotate_facts ub e0 e1 e2 e3 :
  desc_from ub [e0; e1; e2; e3] ->
  exists t, rotate [e0; e1; e2; e3] = Absent :: t /\ length t = 3 /\ desc_from ub t
    /\ (sinv [e0; e1; e2; e3] = true -> is_partial e0 = false -> forall x, sinv (x :: t) = true)
    /\ (forall x, is_good x = true -> sinv (x :: t) = true)
    /\ (nopartial [e0; e1; e2; e3] = true -> nopartial t = true).
Proof.
  intros D.
  destruct e0, e1, e2, e3; cbn in D |- *; eexists; (split; [reflexivity|]); (split; [reflexivity|]);
    (split; [cbn; repeat split; lia|]); cbn;
    (split; [intros S P x; try discriminate S; try discriminate P; destruct (is_good x); reflexivity|]);
    (split; [intros x Hx; rewrite Hx; reflexivity|]); intros N; try discriminate N; reflexivity.
Qed.

(* ------------------------------------------------------------------ *)
(** * one save *)
(** inductive invariant: besides the strengthened "latest good copy at <path> or
    _BAK1", no path ever holds a partly written copy (since the /repo fix for D17 a
    failed directory save removes the tree it created) *)
Definition INV (s : sys) : Prop :=
  length (s_fs s) = 4 /\ desc_from (S (s_gen s)) (s_fs s) /\ sinv (s_fs s) = true
  /\ nopartial (s_fs s) = true.

Lemma len4 (l : fsys) : length l = 4 -> exists e0 e1 e2 e3, l = [e0; e1; e2; e3].
Proof.
  destruct l as [|e0 [|e1 [|e2 [|e3 [|e4 l]]]]]; cbn; intros H; try discriminate H.
  exists e0, e1, e2, e3. reflexivity.
Qed.

Definition save_post (s s' : sys) : Prop :=
  INV s'
  /\ (s_flag s = false -> s_flag s' = false)
  /\ s_reg s' = s_reg s /\ s_nuid s' = s_nuid s
  /\ s_gen s' = S (s_gen s).

(** the writer followed by the removal of a partly written tree *)
Definition finish (f : fmt) (r : res) : res :=
  match r with Done w2 => Done w2 | Raised w2 => Raised (drop_partial 3 f w2) end.

Lemma finish_spec f g t w r :
  writer_post f g t w r ->
  let r' := finish f r in
  flag (wof r') = false /\ reg (wof r') = reg w /\ nuid (wof r') = nuid w
  /\ raised r' = raised r
  /\ (fs (wof r') = Absent :: t \/ exists n, fs (wof r') = Good g f n :: t)
  /\ (fault w = None -> raised r' = false /\ exists n, fs (wof r') = Good g f n :: t).
Proof.
  intros (P1 & P2 & P3 & P4 & P5). cbn zeta.
  destruct r as [w2|w2]; cbn [finish wof raised] in *.
  - (* the writer returned *)
    split; [exact P1|]. split; [exact P2|]. split; [exact P3|]. split; [reflexivity|]. split; [|exact P5].
    destruct P4 as [(_ & X)|[((n & Q) & _)|(_ & X & _)]]; try discriminate X. right. exists n. exact Q.
  - (* the writer raised *)
    destruct (drop_partial_session 3 f w2) as (d1 & d2 & d3).
    split; [rewrite d3; exact P1|]. split; [rewrite d1; exact P2|]. split; [rewrite d2; exact P3|].
    split; [reflexivity|]. split.
    + destruct P4 as [(Q & _)|[((n & Q) & Hd)|(Hf & _ & Hfl & n & Q)]].
      * left. rewrite (drop_partial_absent 3 f w2 t Q). exact Q.
      * right. exists n. destruct f; [exact Q|]. specialize (Hd eq_refl). discriminate Hd.
      * left. subst f. exact (drop_partial_partial 2 w2 g n t Q Hfl).
    + intros Hn. destruct (P5 Hn) as (X & _). discriminate X.
Qed.

Lemma nopartial_head e t : nopartial (e :: t) = true -> is_partial e = false /\ nopartial t = true.
Proof.
  unfold nopartial. cbn [forallb]. intros H. apply andb_true_iff in H. destruct H as (A & B).
  split; [destruct (is_partial e); [discriminate A|reflexivity]|exact B].
Qed.

Lemma save_step f sh fl s :
  INV s -> save_post s (step s (OSave true f sh fl)).
Proof.
  destruct s as [l r n g fl0]. unfold INV. cbn [s_fs s_gen s_flag s_reg s_nuid].
  intros (L & D & SI & NP).
  destruct (len4 l L) as (e0 & e1 & e2 & e3 & ->).
  destruct (nopartial_head _ _ NP) as (Hp & _).
  unfold step, run_op, write_model, enter, max_backups. cbn [s_fs s_gen s_flag s_reg s_nuid].
  change (mkW [e0; e1; e2; e3] r n fl0 fl [] 0) with (mk4 e0 e1 e2 e3 r n fl0 fl [] 0).
  pose proof (incr_session 3 0 (mk4 e0 e1 e2 e3 r n fl0 fl [] 0)) as (i1 & i2 & i3 & _). cbn zeta in i1, i2, i3.
  destruct (incr 3 0 (mk4 e0 e1 e2 e3 r n fl0 fl [] 0)) as [w'|w'] eqn:E; cbn [andthen wof] in *.
  - (* rotation completed *)
    destruct (rot_done _ _ _ _ _ _ _ _ _ _ _ E) as (Hr & Hf).
    destruct (rotate_facts (S g) e0 e1 e2 e3 D) as (t & Ht & Lt & Dt & S1 & S2 & Np).
    rewrite Ht in Hr.
    pose proof (finish_spec f (S g) t w' _ (writer_spec f sh (S g) w' t Hr)) as (P1 & P2 & P3 & _ & P4 & _).
    cbn zeta in P1, P2, P3, P4. fold (finish f (writer f sh (S g) w')).
    unfold save_post, INV, leave. cbn [s_fs s_gen s_flag s_reg s_nuid].
    assert (Dt' : desc_from (S g) (Absent :: t)) by exact Dt.
    destruct P4 as [Q|(k & Q)]; rewrite Q.
    + (* nothing is left at <path> *)
      split; [split; [cbn; rewrite Lt; reflexivity|split; [apply (desc_from_mono _ (S g)); [lia|exact Dt']|
              split; [apply S1; auto|cbn; apply Np; exact NP]]]|].
      split; [intros _; exact P1|]. split; [rewrite P2; exact i1|]. split; [rewrite P3; exact i2|reflexivity].
    + (* complete copy of the new generation *)
      split; [split; [cbn; rewrite Lt; reflexivity|split; [cbn; split; [lia|apply (desc_from_mono _ (S g)); [lia|exact Dt]]|
              split; [apply S2; reflexivity|cbn; apply Np; exact NP]]]|].
      split; [intros _; exact P1|]. split; [rewrite P2; exact i1|]. split; [rewrite P3; exact i2|reflexivity].
  - (* the rotation itself failed *)
    destruct (rot_raised (S g) _ _ _ _ _ _ _ _ _ _ _ E D SI Hp) as (R1 & R2 & R3 & R4 & R5).
    unfold save_post, INV, leave. cbn [s_fs s_gen s_flag s_reg s_nuid].
    split; [split; [exact R1|split; [apply (desc_from_mono _ (S g)); [lia|exact R2]|split; [exact R3|apply R5; exact NP]]]|].
    split; [intros X; rewrite i3; exact X|]. split; [exact i1|]. split; [exact i2|reflexivity].
Qed.

(* ------------------------------------------------------------------ *)
(** * from the inductive invariant to the property *)
Lemma sinv_latest ub l :
  length l = 4 -> desc_from ub l -> sinv l = true -> LatestOK l.
Proof.
  intros L D S. destruct (len4 l L) as (e0 & e1 & e2 & e3 & ->).
  intros k g f n Hk.
  destruct e0 as [|g0 f0 n0|g0 n0].
  - destruct e1 as [|g1 f1 n1|g1 n1].
    + destruct e2, e3; try discriminate S;
        destruct k as [|[|[|[|k]]]]; cbn in Hk; try discriminate Hk; destruct k; discriminate Hk.
    + exists 1, g1, f1, n1. split; [lia|]. split; [reflexivity|].
      destruct e2, e3; destruct k as [|[|[|[|k]]]]; cbn in Hk, D; try discriminate Hk;
        try (inversion Hk; subst; lia); destruct k; discriminate Hk.
    + destruct e2, e3; try discriminate S;
        destruct k as [|[|[|[|k]]]]; cbn in Hk; try discriminate Hk; destruct k; discriminate Hk.
  - exists 0, g0, f0, n0. split; [lia|]. split; [reflexivity|].
    destruct e1, e2, e3; destruct k as [|[|[|[|k]]]]; cbn in Hk, D; try discriminate Hk;
      try (inversion Hk; subst; lia); destruct k; discriminate Hk.
  - destruct e1 as [|g1 f1 n1|g1 n1].
    + destruct e2, e3; try discriminate S;
        destruct k as [|[|[|[|k]]]]; cbn in Hk; try discriminate Hk; destruct k; discriminate Hk.
    + exists 1, g1, f1, n1. split; [lia|]. split; [reflexivity|].
      destruct e2, e3; destruct k as [|[|[|[|k]]]]; cbn in Hk, D; try discriminate Hk;
        try (inversion Hk; subst; lia); destruct k; discriminate Hk.
    + destruct e2, e3; try discriminate S;
        destruct k as [|[|[|[|k]]]]; cbn in Hk; try discriminate Hk; destruct k; discriminate Hk.
Qed.

Lemma INV_backup s : INV s -> BackupInv (s_fs s).
Proof.
  intros (L & D & SI & _). split; [exact L|]. split; [exact (sinv_latest _ _ L D SI)|].
  exists (S (s_gen s)). exact D.
Qed.

Lemma INV_init : INV init.
Proof. unfold INV. cbn. auto. Qed.

Lemma saves_inv : forall (saves : list saveop) (s : sys),
  INV s -> INV (fold_left step (map to_op saves) s).
Proof.
  induction saves as [|[[f sh] fl] t IH]; intros s Hi; cbn [map fold_left]; [exact Hi|].
  destruct (save_step f sh fl s Hi) as (P1 & _).
  cbn [to_op]. apply IH. exact P1.
Qed.

Lemma run_saves_unfold l : run_saves l = s_fs (fold_left step (map to_op l) init).
Proof. reflexivity. Qed.

(** ALL sequences of saves, successful or failed at any operation, both formats *)
Lemma backup_all saves : BackupInv (run_saves saves).
Proof. rewrite run_saves_unfold. apply INV_backup, saves_inv, INV_init. Qed.

(** no path ever holds a partly written copy *)
Lemma backup_nopartial saves :
  nopartial (run_saves saves) = true /\ is_partial (slot (run_saves saves) 0) = false.
Proof.
  rewrite run_saves_unfold.
  destruct (saves_inv saves init INV_init) as (L & _ & _ & N).
  split; [exact N|].
  destruct (len4 _ L) as (e0 & e1 & e2 & e3 & E). rewrite E in N |- *.
  destruct (nopartial_head _ _ N) as (X & _). exact X.
Qed.

(** zip saves only (kept as a corollary) *)
Lemma backup_zip saves :
  all_zip saves ->
  BackupInv (run_saves saves) /\ nopartial (run_saves saves) = true
  /\ is_partial (slot (run_saves saves) 0) = false.
Proof. intros _. split; [apply backup_all|apply backup_nopartial]. Qed.

(** an unfaulted save shifts the earlier generations in order and puts the
    new one at <path> *)
Lemma save_nofault f sh s :
  INV s ->
  exists n t, rotate (s_fs s) = Absent :: t
    /\ s_fs (step s (OSave true f sh None)) = Good (S (s_gen s)) f n :: t
    /\ raised (run_op s (OSave true f sh None)) = false.
Proof.
  destruct s as [l r n g fl0]. unfold INV. cbn [s_fs s_gen].
  intros (L & D & SI & _). destruct (len4 l L) as (e0 & e1 & e2 & e3 & ->).
  unfold step, run_op, write_model, enter, max_backups. cbn [s_fs s_gen s_flag s_reg s_nuid].
  change (mkW [e0; e1; e2; e3] r n fl0 None [] 0) with (mk4 e0 e1 e2 e3 r n fl0 None [] 0).
  pose proof (rot_nofault e0 e1 e2 e3 r n fl0 [] 0) as Hn.
  destruct (incr 3 0 (mk4 e0 e1 e2 e3 r n fl0 None [] 0)) as [w'|w'] eqn:E; [|discriminate Hn].
  destruct (rot_done _ _ _ _ _ _ _ _ _ _ _ E) as (Hr & Hf).
  destruct (rotate_facts (S g) e0 e1 e2 e3 D) as (t & Ht & _).
  rewrite Ht in Hr. cbn [andthen].
  pose proof (finish_spec f (S g) t w' _ (writer_spec f sh (S g) w' t Hr)) as (_ & _ & _ & _ & _ & P5).
  cbn zeta in P5. fold (finish f (writer f sh (S g) w')).
  destruct (P5 (Hf eq_refl)) as (Y & k & Q).
  exists k, t. split; [exact Ht|]. split; [exact Q|exact Y].
Qed.

(** D17 (two consecutive failing directory saves) after the repair: the last good
    copy stays at _BAK1 *)
Lemma d17_state :
  run_saves d17_saves = [Absent; Good 1 Dir 9; Absent; Absent].
Proof. vm_compute. reflexivity. Qed.

(** the next unfaulted save after any history *)
Lemma keeps_generations saves f sh :
  let s := run (map to_op saves) in
  exists n t, rotate (s_fs s) = Absent :: t
    /\ s_fs (step s (OSave true f sh None)) = Good (S (s_gen s)) f n :: t
    /\ raised (run_op s (OSave true f sh None)) = false.
Proof.
  cbn zeta. apply save_nofault. unfold run. apply saves_inv. exact INV_init.
Qed.

(** non-trivial histories *)
Example mixed_example :
  let l := [(Zip, plain_dir_shape, Some 9); (Dir, plain_dir_shape, Some 8);
            (Dir, plain_dir_shape, None); (Zip, [SOpen; SFill], Some 2); (Dir, plain_dir_shape, Some 0)] in
  run_saves l = [Absent; Good 3 Dir 9; Absent; Absent].
Proof. vm_compute. reflexivity. Qed.

Example zip_example :
  let l := [(Zip, [SOpen; SFill], None); (Zip, [SOpen; SFill], Some 7); (Zip, [SOpen; SFill], Some 0);
            (Zip, [SOpen; SFill], None); (Zip, [SOpen; SFill], Some 1)] in
  all_zip l /\ run_saves l = [Good 4 Zip 1; Good 2 Zip 1; Absent; Good 1 Zip 1].
Proof. cbn zeta. split; [repeat constructor|vm_compute; reflexivity]. Qed.

Example dir_faults_example :
  let l := [(Dir, plain_dir_shape, None); (Dir, plain_dir_shape, Some 6); (Dir, plain_dir_shape, Some 7);
            (Dir, plain_dir_shape, None); (Dir, plain_dir_shape, Some 1)] in
  run_saves l = [Good 4 Dir 9; Absent; Good 1 Dir 9; Absent].   (* the last save failed inside the rotation *)
Proof. vm_compute. reflexivity. Qed.

Example rotate_example :
  rotate [Good 3 Zip 1; Good 2 Dir 9; Absent; Good 1 Zip 1] = [Absent; Good 3 Zip 1; Good 2 Dir 9; Good 1 Zip 1].
Proof. reflexivity. Qed.
