(** Backup layer: proofs for C14.
    Part 1: what the primitives, the rotation and the writer do to the four paths. *)
From Coq Require Import List Bool Arith Lia.
From MX Require Import Backup.Model.
Import ListNotations.

(* ------------------------------------------------------------------ *)
(** * primitives *)
Lemma prim_cases o eff w :
  (exists w0, prim o eff w = Done (eff w0) /\ fs w0 = fs w /\ reg w0 = reg w /\ nuid w0 = nuid w
              /\ flag w0 = flag w /\ tmps w0 = tmps w
              /\ (fault w = None -> fault w0 = None))
  \/ (exists w0, prim o eff w = Raised w0 /\ fs w0 = fs w /\ reg w0 = reg w /\ nuid w0 = nuid w
              /\ flag w0 = flag w /\ tmps w0 = tmps w /\ fault w0 = None /\ fault w <> None).
Proof.
  unfold prim. destruct (fault w) as [[|k]|] eqn:E.
  - right. eexists; split; [reflexivity|]. cbn. repeat split; auto. discriminate.
  - left. eexists; split; [reflexivity|]. cbn. repeat split; auto. discriminate.
  - left. eexists; split; [reflexivity|]. cbn. repeat split; auto.
Qed.

Lemma prim_nofault o eff w : fault w = None -> prim o eff w = Done (eff (log o w)).
Proof. unfold prim. intros ->. reflexivity. Qed.

(** effects that only touch the file system *)
Definition fs_only (eff : world -> world) : Prop :=
  forall x, reg (eff x) = reg x /\ nuid (eff x) = nuid x /\ flag (eff x) = flag x
            /\ tmps (eff x) = tmps x /\ fault (eff x) = fault x.

Lemma fs_only_noeff : fs_only noeff.
Proof. intro x. unfold noeff. repeat split. Qed.

Lemma fs_only_set_slot k e : fs_only (set_slot k e).
Proof. intro x. unfold set_slot, set_fs. cbn. repeat split. Qed.

Lemma fs_only_rename a b : fs_only (rename a b).
Proof. intro x. unfold rename, set_slot, set_fs. cbn. repeat split. Qed.

Lemma fs_only_bump f : fs_only (bump f).
Proof.
  intro x. unfold bump. destruct f; [repeat split|].
  destruct (slot (fs x) 0); unfold set_slot, set_fs; cbn; repeat split.
Qed.

Lemma fs_only_mkroot g : fs_only (mkroot_dir g).
Proof.
  intro x. unfold mkroot_dir. destruct (slot (fs x) 0); unfold set_slot, set_fs; cbn; repeat split.
Qed.

(** session fields after a primitive with an fs-only effect *)
Lemma prim_session o eff w :
  fs_only eff ->
  let w' := wof (prim o eff w) in
  reg w' = reg w /\ nuid w' = nuid w /\ flag w' = flag w /\ tmps w' = tmps w.
Proof.
  intros H. destruct (prim_cases o eff w) as [(w0 & E & A)|(w0 & E & A)]; rewrite E; cbn.
  - destruct (H w0) as (h1 & h2 & h3 & h4 & _). intuition congruence.
  - intuition congruence.
Qed.

(* ------------------------------------------------------------------ *)
(** * rotation: session fields (any depth) *)
Lemma incr_session d : forall nth w,
  let w' := wof (incr d nth w) in
  reg w' = reg w /\ nuid w' = nuid w /\ flag w' = flag w /\ tmps w' = tmps w.
Proof.
  induction d as [|d IH]; intros nth w; cbn [incr].
  - destruct (present (slot (fs w) nth)); [|cbn; auto].
    apply prim_session, fs_only_set_slot.
  - destruct (present (slot (fs w) nth)); [|cbn; auto].
    specialize (IH (S nth) w). destruct (incr d (S nth) w) as [w1|w1]; cbn in *; [|exact IH].
    pose proof (prim_session (TMv nth (S nth)) (rename nth (S nth)) w1 (fs_only_rename _ _)) as P.
    cbn in P. intuition congruence.
Qed.

(* ------------------------------------------------------------------ *)
(** * rotation on the four paths: specification *)
Fixpoint shift (carry : entry) (l : fsys) : fsys :=
  match l with
  | [] => []                                   (* falls off the end: deleted *)
  | x :: t => carry :: (if present x then shift x t else t)
  end.

Definition rotate (l : fsys) : fsys :=
  match l with
  | [] => []
  | e0 :: t => if present e0 then Absent :: shift e0 t else l
  end.

Definition is_good (e : entry) : bool := match e with Good _ _ _ => true | _ => false end.

(** inductive strengthening of "the latest good copy is at <path> or _BAK1" *)
Definition sinv (l : fsys) : bool :=
  match l with
  | [e0; e1; e2; e3] =>
      is_good e0 || is_good e1 || (negb (is_good e1) && negb (is_good e2) && negb (is_good e3))
  | _ => false
  end.

Definition nopartial (l : fsys) : bool := forallb (fun e => negb (is_partial e)) l.

Definition mk4 e0 e1 e2 e3 r n fl c tr tm : world := mkW [e0; e1; e2; e3] r n fl c tr tm.

Ltac case_fault c :=
  destruct c as [[|[|[|[|c]]]]|].

Lemma rot_done e0 e1 e2 e3 r n fl c tr tm w' :
  incr 3 0 (mk4 e0 e1 e2 e3 r n fl c tr tm) = Done w' ->
  fs w' = rotate [e0; e1; e2; e3] /\ (c = None -> fault w' = None).
Proof.
  unfold mk4. intros H.
  destruct e0, e1, e2, e3; case_fault c; vm_compute in H; inversion H; subst; split;
    try (vm_compute; reflexivity); try discriminate; intros _; reflexivity.
Qed.

Lemma rot_nofault e0 e1 e2 e3 r n fl tr tm :
  raised (incr 3 0 (mk4 e0 e1 e2 e3 r n fl None tr tm)) = false.
Proof. unfold mk4. destruct e0, e1, e2, e3; vm_compute; reflexivity. Qed.

Lemma rot_raised ub e0 e1 e2 e3 r n fl c tr tm w' :
  incr 3 0 (mk4 e0 e1 e2 e3 r n fl c tr tm) = Raised w' ->
  desc_from ub [e0; e1; e2; e3] -> sinv [e0; e1; e2; e3] = true -> is_partial e0 = false ->
  length (fs w') = 4 /\ desc_from ub (fs w') /\ sinv (fs w') = true
  /\ is_partial (slot (fs w') 0) = false
  /\ (nopartial [e0; e1; e2; e3] = true -> nopartial (fs w') = true).
Proof.
  unfold mk4. intros H D S P.
  destruct e0, e1, e2, e3; try discriminate P; case_fault c; vm_compute in H; inversion H; subst; clear H;
    cbn in *; repeat split; try reflexivity; try lia; try discriminate.
Qed.

(* ------------------------------------------------------------------ *)
(** * Part 2: member writes, the writer, one save *)
Ltac pc o eff w w0 :=
  let E := fresh "E" in let F := fresh "Hfs" in let R := fresh "Hreg" in let N := fresh "Hnuid" in
  let FL := fresh "Hflag" in let T := fresh "Htmps" in let FN := fresh "Hfault" in let FNN := fresh "Hwas" in
  destruct (prim_cases o eff w) as [(w0 & E & F & R & N & FL & T & FN)|(w0 & E & F & R & N & FL & T & FN & FNN)];
  rewrite E.

(** what the hypotheses of the lemmas below say about two worlds *)
Definition same_sess (a b : world) : Prop :=
  reg a = reg b /\ nuid a = nuid b /\ flag a = flag b.

Lemma cleanup_spec w :
  let r := cleanup w in
  fs (wof r) = fs w /\ same_sess (wof r) w /\ (fault w = None -> raised r = false /\ fault (wof r) = None).
Proof.
  unfold cleanup, same_sess.
  pc TCleanup (fun w : world => w) (set_tmps (pred (tmps w)) w) w0; cbn in *; repeat split; auto; try congruence;
    try (intros Hn; exfalso; apply Hwas; exact Hn).
Qed.

Lemma unwind_n_spec n : forall w,
  let r := unwind_n n w in
  fs (wof r) = fs w /\ same_sess (wof r) w /\ (fault w = None -> raised r = false /\ fault (wof r) = None).
Proof.
  induction n as [|n IH]; intros w; cbn [unwind_n].
  - cbn. unfold same_sess. repeat split; auto.
  - pose proof (cleanup_spec w) as (A & B & C). destruct (cleanup w) as [w1|w1]; cbn in *.
    + specialize (IH w1). cbn in IH. destruct IH as (A' & (b1 & b2 & b3) & C'). destruct B as (c1 & c2 & c3).
      split; [congruence|]. split; [unfold same_sess; repeat split; congruence|].
      intros Hn. destruct (C Hn) as (_ & Hn1). exact (C' Hn1).
    + split; [exact A|]. split; [exact B|]. intros Hn. destruct (C Hn) as (X & _). discriminate X.
Qed.

Lemma unwind_spec w :
  let r := unwind w in
  fs (wof r) = fs w /\ same_sess (wof r) w /\ (fault w = None -> raised r = false /\ fault (wof r) = None).
Proof. apply unwind_n_spec. Qed.

(** one member operation *)
Lemma sop_step_spec f o w :
  let r := sop_step f o w in
  same_sess (wof r) w
  /\ (fault w = None -> raised r = false /\ fault (wof r) = None)
  /\ match f with
     | Zip => fs (wof r) = fs w
     | Dir => forall g n t, fs w = Partial g n :: t -> exists n', fs (wof r) = Partial g n' :: t
     end.
Proof.
  assert (Hb : forall x g n t, fs x = Partial g n :: t -> fs (bump Dir x) = Partial g (S n) :: t).
  { intros x g n t Hx. unfold bump, slot. rewrite Hx. cbn. rewrite Hx. reflexivity. }
  assert (Hs : forall x, same_sess (bump f x) x).
  { intros x. destruct (fs_only_bump f x) as (a & b & c & _). unfold same_sess. auto. }
  assert (Hf : forall x, fault (bump f x) = fault x).
  { intros x. destruct (fs_only_bump f x) as (_ & _ & _ & _ & e). exact e. }
  unfold same_sess in *.
  destruct o; cbn [sop_step].
  - (* SOpen *) pc TOpen noeff w w0; unfold noeff; cbn; repeat split; auto; try congruence;
      try (intros Hn; exfalso; apply Hwas; exact Hn);
      destruct f; [congruence| intros g n t Hw; exists n; congruence | congruence | intros g n t Hw; exists n; congruence].
  - (* SFill *)
    pc TFill noeff (bump f w) w0; unfold noeff; cbn; destruct (Hs w) as (s1 & s2 & s3); rewrite Hf in *;
      repeat split; try congruence; auto;
      try (intros Hn; exfalso; apply Hwas; exact Hn);
      destruct f; try (unfold bump in *; congruence);
      intros g n t Hw; exists (S n); rewrite Hfs; apply Hb; exact Hw.
  - (* SMkdir *)
    destruct creates.
    + pc (TMkdir true) (bump f) w w0; cbn.
      * destruct (Hs w0) as (s1 & s2 & s3). rewrite Hf. repeat split; try congruence; auto.
        destruct f; [unfold bump; congruence|].
        intros g n t Hw. exists (S n). apply Hb. congruence.
      * repeat split; try congruence; try (intros Hn; exfalso; apply Hwas; exact Hn).
        destruct f; [congruence|]. intros g n t Hw. exists n. congruence.
    + pc (TMkdir false) noeff w w0; unfold noeff; cbn; repeat split; auto; try congruence;
        try (intros Hn; exfalso; apply Hwas; exact Hn);
        destruct f; [congruence| intros g n t Hw; exists n; congruence | congruence | intros g n t Hw; exists n; congruence].
  - pc TDump noeff w w0; unfold noeff; cbn; repeat split; auto; try congruence;
      try (intros Hn; exfalso; apply Hwas; exact Hn);
      destruct f; [congruence| intros g n t Hw; exists n; congruence | congruence | intros g n t Hw; exists n; congruence].
  - pc TCopy noeff w w0; unfold noeff; cbn; repeat split; auto; try congruence;
      try (intros Hn; exfalso; apply Hwas; exact Hn);
      destruct f; [congruence| intros g n t Hw; exists n; congruence | congruence | intros g n t Hw; exists n; congruence].
  - pc TTmpdir tmp_inc w w0; unfold tmp_inc; cbn; repeat split; auto; try congruence;
      try (intros Hn; exfalso; apply Hwas; exact Hn);
      destruct f; [congruence| intros g n t Hw; exists n; congruence | congruence | intros g n t Hw; exists n; congruence].
  - (* SCleanup *)
    pose proof (cleanup_spec w) as (A & B & C). cbn in *. split; [exact B|]. split; [exact C|].
    destruct f; [exact A|]. intros g n t Hw. exists n. congruence.
  - pc TROpen noeff w w0; unfold noeff; cbn; repeat split; auto; try congruence;
      try (intros Hn; exfalso; apply Hwas; exact Hn);
      destruct f; [congruence| intros g n t Hw; exists n; congruence | congruence | intros g n t Hw; exists n; congruence].
  - pc TRFill noeff w w0; unfold noeff; cbn; repeat split; auto; try congruence;
      try (intros Hn; exfalso; apply Hwas; exact Hn);
      destruct f; [congruence| intros g n t Hw; exists n; congruence | congruence | intros g n t Hw; exists n; congruence].
  - pc TLoad noeff w w0; unfold noeff; cbn; repeat split; auto; try congruence;
      try (intros Hn; exfalso; apply Hwas; exact Hn);
      destruct f; [congruence| intros g n t Hw; exists n; congruence | congruence | intros g n t Hw; exists n; congruence].
Qed.

Lemma run_shape_spec f sh : forall w,
  let r := run_shape f sh w in
  same_sess (wof r) w
  /\ (fault w = None -> raised r = false /\ fault (wof r) = None)
  /\ match f with
     | Zip => fs (wof r) = fs w
     | Dir => forall g n t, fs w = Partial g n :: t -> exists n', fs (wof r) = Partial g n' :: t
     end.
Proof.
  induction sh as [|o sh IH]; intros w; cbn [run_shape].
  - cbn. unfold same_sess. repeat split; auto. destruct f; auto. intros g n t H. exists n. exact H.
  - pose proof (sop_step_spec f o w) as (A & B & C). destruct (sop_step f o w) as [w1|w1]; cbn in *.
    + specialize (IH w1). cbn in IH. destruct IH as ((b1 & b2 & b3) & B' & C'). destruct A as (c1 & c2 & c3).
      split; [unfold same_sess; repeat split; congruence|]. split.
      * intros Hn. destruct (B Hn) as (_ & Hn1). exact (B' Hn1).
      * destruct f; [congruence|]. intros g n t Hw. destruct (C g n t Hw) as (n1 & H1).
        destruct (C' g n1 t H1) as (n2 & H2). exists n2. exact H2.
    + split; [exact A|]. split; [|exact C]. intros Hn. destruct (B Hn) as (X & _). discriminate X.
Qed.

Lemma writer_fin_spec f w :
  let r := writer_fin f w in
  fs (wof r) = fs w /\ reg (wof r) = reg w /\ nuid (wof r) = nuid w /\ flag (wof r) = false
  /\ (fault w = None -> raised r = false).
Proof.
  unfold writer_fin. destruct f.
  - pose proof (unwind_spec (set_flag false w)) as (A & (b1 & b2 & b3) & C). cbn in *.
    repeat split; auto. intros Hn. apply C. exact Hn.
  - cbn. repeat split; auto.
Qed.

(** outcome of the writer on a path that the rotation left empty *)
Definition writer_post (f : fmt) (g : nat) (t : fsys) (w : world) (r : res) : Prop :=
  flag (wof r) = false /\ reg (wof r) = reg w /\ nuid (wof r) = nuid w /\
  ((fs (wof r) = Absent :: t /\ raised r = true)
   \/ (exists n, fs (wof r) = Good g f n :: t)
   \/ (f = Dir /\ raised r = true /\ exists n, fs (wof r) = Partial g n :: t)) /\
  (fault w = None -> raised r = false /\ exists n, fs (wof r) = Good g f n :: t).

(** a raise inside the try block that left the file system as it was *)
Lemma fin_after_raise f g t w w1 :
  fs w1 = Absent :: t -> reg w1 = reg w -> nuid w1 = nuid w -> fault w <> None ->
  writer_post f g t w (Raised (wof (writer_fin f w1))).
Proof.
  intros Hfs Hr Hn Hf. pose proof (writer_fin_spec f w1) as (A & B & C & D & _). cbn in *.
  unfold writer_post. cbn. repeat split; try congruence.
  - left. split; congruence.
  - intros X. contradiction.
Qed.

Lemma writer_dir_spec sh g w t :
  fs w = Absent :: t -> writer_post Dir g t w (writer Dir sh g w).
Proof.
  intros Hw. unfold writer, try_finally, writer_body.
  set (w1 := set_flag true w).
  assert (Hw1 : fs w1 = Absent :: t) by exact Hw.
  replace (slot (fs w1) 0) with Absent by (rewrite Hw1; reflexivity). cbn [present negb].
  pc (TMkdir true) (mkroot_dir g) w1 w0; cbn [andthen].
  - (* root directory made *)
    assert (H0 : fs (mkroot_dir g w0) = Partial g 1 :: t).
    { unfold mkroot_dir, slot. rewrite Hfs, Hw1. cbn. rewrite Hfs, Hw1. reflexivity. }
    destruct (fs_only_mkroot g w0) as (m1 & m2 & m3 & m4 & m5).
    pose proof (run_shape_spec Dir sh (mkroot_dir g w0)) as ((a1 & a2 & a3) & B & C). cbn in C.
    destruct (C g 1 t H0) as (n' & Hn').
    destruct (run_shape Dir sh (mkroot_dir g w0)) as [w2|w2]; cbn [andthen wof] in *.
    + (* complete *)
      assert (Hc : fs (complete w2) = Good g Dir n' :: t).
      { unfold complete, slot. rewrite Hn'. cbn. rewrite Hn'. reflexivity. }
      unfold writer_fin. cbn. unfold writer_post. cbn.
      assert (Hrc : reg (complete w2) = reg w2 /\ nuid (complete w2) = nuid w2).
      { unfold complete. destruct (slot (fs w2) 0); cbn; auto. }
      destruct Hrc as (r1 & r2).
      repeat split; try congruence.
      * right. left. exists n'. exact Hc.
      * exists n'. exact Hc.
    + (* a member failed *)
      unfold writer_fin. cbn. unfold writer_post. cbn. repeat split; try congruence.
      * right. right. repeat split. exists n'. exact Hn'.
      * intros Hn. exfalso. rewrite m5 in B. destruct B as (X & _); [apply Hfault; exact Hn|discriminate X].
      * intros Hn. exfalso. rewrite m5 in B. destruct B as (X & _); [apply Hfault; exact Hn|discriminate X].
  - (* mkdir of the root failed *)
    apply fin_after_raise; try congruence.
Qed.
