(** Backup layer: proofs for C14.
    Part 1: what the primitives, the rotation and the writer do to the four paths. *)
From Coq Require Import List Bool Arith Lia.
From MX Require Import Backup.Model.
Import ListNotations.

(* ------------------------------------------------------------------ *)
(** * primitives *)
Lemma prim_cases o eff w :
  (exists w0, prim o eff w = Done (eff w0) /\ fs w0 = fs w /\ reg w0 = reg w /\ nuid w0 = nuid w
              /\ flag w0 = flag w /\ tmps w0 = tmps w
              /\ (fault w = None -> fault w0 = None))
  \/ (exists w0, prim o eff w = Raised w0 /\ fs w0 = fs w /\ reg w0 = reg w /\ nuid w0 = nuid w
              /\ flag w0 = flag w /\ tmps w0 = tmps w /\ fault w0 = None /\ fault w <> None).
Proof.
  unfold prim. destruct (fault w) as [[|k]|] eqn:E.
  - right. eexists; split; [reflexivity|]. cbn. repeat split; auto. discriminate.
  - left. eexists; split; [reflexivity|]. cbn. repeat split; auto. discriminate.
  - left. eexists; split; [reflexivity|]. cbn. repeat split; auto.
Qed.

Lemma prim_nofault o eff w : fault w = None -> prim o eff w = Done (eff (log o w)).
Proof. unfold prim. intros ->. reflexivity. Qed.

(** effects that only touch the file system *)
Definition fs_only (eff : world -> world) : Prop :=
  forall x, reg (eff x) = reg x /\ nuid (eff x) = nuid x /\ flag (eff x) = flag x
            /\ tmps (eff x) = tmps x /\ fault (eff x) = fault x.

Lemma fs_only_noeff : fs_only noeff.
Proof. intro x. unfold noeff. repeat split. Qed.

Lemma fs_only_set_slot k e : fs_only (set_slot k e).
Proof. intro x. unfold set_slot, set_fs. cbn. repeat split. Qed.

Lemma fs_only_rename a b : fs_only (rename a b).
Proof. intro x. unfold rename, set_slot, set_fs. cbn. repeat split. Qed.

Lemma fs_only_bump f : fs_only (bump f).
Proof.
  intro x. unfold bump. destruct f; [repeat split|].
  destruct (slot (fs x) 0); unfold set_slot, set_fs; cbn; repeat split.
Qed.

Lemma fs_only_mkroot g : fs_only (mkroot_dir g).
Proof.
  intro x. unfold mkroot_dir. destruct (slot (fs x) 0); unfold set_slot, set_fs; cbn; repeat split.
Qed.

(** session fields after a primitive with an fs-only effect *)
Lemma prim_session o eff w :
  fs_only eff ->
  let w' := wof (prim o eff w) in
  reg w' = reg w /\ nuid w' = nuid w /\ flag w' = flag w /\ tmps w' = tmps w.
Proof.
  intros H. destruct (prim_cases o eff w) as [(w0 & E & A)|(w0 & E & A)]; rewrite E; cbn.
  - destruct (H w0) as (h1 & h2 & h3 & h4 & _). intuition congruence.
  - intuition congruence.
Qed.

(* ------------------------------------------------------------------ *)
(** * rotation: session fields (any depth) *)
Lemma incr_session d : forall nth w,
  let w' := wof (incr d nth w) in
  reg w' = reg w /\ nuid w' = nuid w /\ flag w' = flag w /\ tmps w' = tmps w.
Proof.
  induction d as [|d IH]; intros nth w; cbn [incr].
  - destruct (present (slot (fs w) nth)); [|cbn; auto].
    apply prim_session, fs_only_set_slot.
  - destruct (present (slot (fs w) nth)); [|cbn; auto].
    specialize (IH (S nth) w). destruct (incr d (S nth) w) as [w1|w1]; cbn in *; [|exact IH].
    pose proof (prim_session (TMv nth (S nth)) (rename nth (S nth)) w1 (fs_only_rename _ _)) as P.
    cbn in P. intuition congruence.
Qed.

(* ------------------------------------------------------------------ *)
(** * rotation on the four paths: specification *)
Definition is_good (e : entry) : bool := match e with Good _ _ _ => true | _ => false end.

(** inductive strengthening of "the latest good copy is at <path> or _BAK1" *)
Definition sinv (l : fsys) : bool :=
  match l with
  | [e0; e1; e2; e3] =>
      is_good e0 || is_good e1 || (negb (is_good e1) && negb (is_good e2) && negb (is_good e3))
  | _ => false
  end.

Definition nopartial (l : fsys) : bool := forallb (fun e => negb (is_partial e)) l.

Definition mk4 e0 e1 e2 e3 r n fl c tr tm : world := mkW [e0; e1; e2; e3] r n fl c tr tm.

Ltac case_fault c :=
  destruct c as [[|[|[|[|c]]]]|].

Lemma rot_done e0 e1 e2 e3 r n fl c tr tm w' :
  incr 3 0 (mk4 e0 e1 e2 e3 r n fl c tr tm) = Done w' ->
  fs w' = rotate [e0; e1; e2; e3] /\ (c = None -> fault w' = None).
Proof.
  unfold mk4. intros H.
  destruct e0, e1, e2, e3; case_fault c; vm_compute in H; inversion H; subst; split;
    try (vm_compute; reflexivity); try discriminate; intros _; reflexivity.
Qed.

Lemma rot_nofault e0 e1 e2 e3 r n fl tr tm :
  raised (incr 3 0 (mk4 e0 e1 e2 e3 r n fl None tr tm)) = false.
Proof. unfold mk4. destruct e0, e1, e2, e3; vm_compute; reflexivity. Qed.

Lemma rot_raised ub e0 e1 e2 e3 r n fl c tr tm w' :
  incr 3 0 (mk4 e0 e1 e2 e3 r n fl c tr tm) = Raised w' ->
  desc_from ub [e0; e1; e2; e3] -> sinv [e0; e1; e2; e3] = true -> is_partial e0 = false ->
  length (fs w') = 4 /\ desc_from ub (fs w') /\ sinv (fs w') = true
  /\ is_partial (slot (fs w') 0) = false
  /\ (nopartial [e0; e1; e2; e3] = true -> nopartial (fs w') = true).
Proof.
  unfold mk4. intros H D S P.
  destruct e0, e1, e2, e3; try discriminate P; case_fault c; vm_compute in H; inversion H; subst; clear H;
    cbn in *; repeat split; try reflexivity; try lia; try discriminate.
Qed.

(* ------------------------------------------------------------------ *)
(** * Part 2: member writes, the writer, one save *)
Ltac pc o eff w w0 :=
  let E := fresh "E" in let F := fresh "Hfs" in let R := fresh "Hreg" in let N := fresh "Hnuid" in
  let FL := fresh "Hflag" in let T := fresh "Htmps" in let FN := fresh "Hfault" in let FNN := fresh "Hwas" in
  destruct (prim_cases o eff w) as [(w0 & E & F & R & N & FL & T & FN)|(w0 & E & F & R & N & FL & T & FN & FNN)];
  rewrite E.

(** what the hypotheses of the lemmas below say about two worlds *)
Definition same_sess (a b : world) : Prop :=
  reg a = reg b /\ nuid a = nuid b /\ flag a = flag b.

Lemma cleanup_spec w :
  let r := cleanup w in
  fs (wof r) = fs w /\ same_sess (wof r) w /\ (fault w = None -> raised r = false /\ fault (wof r) = None).
Proof.
  unfold cleanup, same_sess.
  pc TCleanup (fun w : world => w) (set_tmps (pred (tmps w)) w) w0; cbn in *; repeat split; auto; try congruence;
    try (intros Hn; exfalso; apply Hwas; exact Hn).
Qed.

Lemma unwind_n_spec n : forall w,
  let r := unwind_n n w in
  fs (wof r) = fs w /\ same_sess (wof r) w /\ (fault w = None -> raised r = false /\ fault (wof r) = None).
Proof.
  induction n as [|n IH]; intros w; cbn [unwind_n].
  - cbn. unfold same_sess. repeat split; auto.
  - pose proof (cleanup_spec w) as (A & B & C). destruct (cleanup w) as [w1|w1]; cbn in *.
    + specialize (IH w1). cbn in IH. destruct IH as (A' & (b1 & b2 & b3) & C'). destruct B as (c1 & c2 & c3).
      split; [congruence|]. split; [unfold same_sess; repeat split; congruence|].
      intros Hn. destruct (C Hn) as (_ & Hn1). exact (C' Hn1).
    + split; [exact A|]. split; [exact B|]. intros Hn. destruct (C Hn) as (X & _). discriminate X.
Qed.

Lemma unwind_spec w :
  let r := unwind w in
  fs (wof r) = fs w /\ same_sess (wof r) w /\ (fault w = None -> raised r = false /\ fault (wof r) = None).
Proof. apply unwind_n_spec. Qed.

(** one member operation *)
Definition keeps_partial (f : fmt) (a b : world) : Prop :=
  match f with
  | Zip => fs a = fs b
  | Dir => forall g n t, fs b = Partial g n :: t -> exists n', fs a = Partial g n' :: t
  end.

Lemma keeps_partial_refl f a b : fs a = fs b -> keeps_partial f a b.
Proof.
  intros H. destruct f; cbn; [exact H|]. intros g n t Hb. exists n. rewrite H. exact Hb.
Qed.

Lemma keeps_partial_trans f a b c : keeps_partial f a b -> keeps_partial f b c -> keeps_partial f a c.
Proof.
  destruct f; cbn; intros H1 H2; [rewrite H1; exact H2|].
  intros g n t Hc. destruct (H2 g n t Hc) as (n1 & Hb). exact (H1 g n1 t Hb).
Qed.

Definition step_post (f : fmt) (w : world) (r : res) : Prop :=
  same_sess (wof r) w
  /\ (fault w = None -> raised r = false /\ fault (wof r) = None)
  /\ keeps_partial f (wof r) w.

Lemma prim_step f o eff w :
  (forall x, same_sess (eff x) x) -> (forall x, fault (eff x) = fault x) ->
  (forall x, keeps_partial f (eff x) x) ->
  step_post f w (prim o eff w).
Proof.
  intros Hs Hf Hk. unfold step_post.
  destruct (prim_cases o eff w) as [(w0 & E & F & R & N & FL & T & FN)|(w0 & E & F & R & N & FL & T & FN & FNN)];
    rewrite E; cbn [wof raised].
  - destruct (Hs w0) as (s1 & s2 & s3). split; [|split].
    + unfold same_sess. rewrite s1, s2, s3, R, N, FL. auto.
    + intros Hn. split; [reflexivity|]. rewrite Hf. apply FN. exact Hn.
    + apply (keeps_partial_trans f _ w0); [apply Hk|apply keeps_partial_refl; exact F].
  - split; [|split].
    + unfold same_sess. rewrite R, N, FL. auto.
    + intros Hn. exfalso. apply FNN. exact Hn.
    + apply keeps_partial_refl. exact F.
Qed.

Lemma same_sess_refl w : same_sess w w.
Proof. unfold same_sess. auto. Qed.

Lemma bump_sess f x : same_sess (bump f x) x.
Proof. destruct (fs_only_bump f x) as (a & b & c & _). unfold same_sess. auto. Qed.

Lemma bump_fault f x : fault (bump f x) = fault x.
Proof. destruct (fs_only_bump f x) as (_ & _ & _ & _ & e). exact e. Qed.

Lemma bump_keeps f x : keeps_partial f (bump f x) x.
Proof.
  destruct f; cbn; [reflexivity|]. intros g n t Hx. exists (S n).
  unfold slot. rewrite Hx. cbn. rewrite Hx. reflexivity.
Qed.

Lemma sop_step_spec f o w : step_post f w (sop_step f o w).
Proof.
  destruct o; cbn [sop_step].
  - apply prim_step; intros x; [unfold same_sess; cbn; auto|reflexivity|apply keeps_partial_refl; reflexivity].
  - (* SFill: the file exists before the callback runs *)
    pose proof (prim_step f TFill noeff (bump f w)
                  (fun x => same_sess_refl x) (fun x => eq_refl) (fun x => keeps_partial_refl f _ _ eq_refl))
      as ((a1 & a2 & a3) & B & C).
    destruct (bump_sess f w) as (b1 & b2 & b3).
    split; [|split].
    + unfold same_sess. rewrite a1, a2, a3. auto.
    + intros Hn. apply B. rewrite bump_fault. exact Hn.
    + apply (keeps_partial_trans f _ (bump f w)); [exact C|apply bump_keeps].
  - destruct creates.
    + apply prim_step; intros x; [apply bump_sess|apply bump_fault|apply bump_keeps].
    + apply prim_step; intros x; [unfold same_sess; cbn; auto|reflexivity|apply keeps_partial_refl; reflexivity].
  - apply prim_step; intros x; [unfold same_sess; cbn; auto|reflexivity|apply keeps_partial_refl; reflexivity].
  - apply prim_step; intros x; [unfold same_sess; cbn; auto|reflexivity|apply keeps_partial_refl; reflexivity].
  - apply prim_step; intros x; [unfold same_sess; cbn; auto|reflexivity|apply keeps_partial_refl; reflexivity].
  - (* SCleanup *)
    pose proof (cleanup_spec w) as (A & B & C). cbn in *. split; [exact B|]. split; [exact C|].
    apply keeps_partial_refl. exact A.
  - apply prim_step; intros x; [unfold same_sess; cbn; auto|reflexivity|apply keeps_partial_refl; reflexivity].
  - apply prim_step; intros x; [unfold same_sess; cbn; auto|reflexivity|apply keeps_partial_refl; reflexivity].
  - apply prim_step; intros x; [unfold same_sess; cbn; auto|reflexivity|apply keeps_partial_refl; reflexivity].
Qed.

Lemma run_shape_spec f sh : forall w, step_post f w (run_shape f sh w).
Proof.
  induction sh as [|o sh IH]; intros w; cbn [run_shape].
  - split; [apply same_sess_refl|]. split; [auto|apply keeps_partial_refl; reflexivity].
  - pose proof (sop_step_spec f o w) as ((c1 & c2 & c3) & B & C).
    destruct (sop_step f o w) as [w1|w1]; cbn [andthen wof raised] in *.
    + destruct (IH w1) as ((b1 & b2 & b3) & B' & C').
      split; [unfold same_sess; rewrite b1, b2, b3; auto|]. split.
      * intros Hn. destruct (B Hn) as (_ & Hn1). exact (B' Hn1).
      * exact (keeps_partial_trans f _ _ _ C' C).
    + split; [unfold same_sess; auto|]. split; [|exact C].
      intros Hn. destruct (B Hn) as (X & _). discriminate X.
Qed.



(* ------------------------------------------------------------------ *)
(** * a raise consumes the fault: afterwards every operation runs *)
Lemma prim_raised_fault o eff w :
  raised (prim o eff w) = true -> fault (wof (prim o eff w)) = None.
Proof.
  destruct (prim_cases o eff w) as [(w0 & E & _)|(w0 & E & _ & _ & _ & _ & _ & FN & _)]; rewrite E; cbn.
  - discriminate.
  - intros _. exact FN.
Qed.

Lemma sop_step_raised f o w :
  raised (sop_step f o w) = true -> fault (wof (sop_step f o w)) = None.
Proof.
  destruct o; cbn [sop_step]; apply prim_raised_fault.
Qed.

Lemma run_shape_raised f sh : forall w,
  raised (run_shape f sh w) = true -> fault (wof (run_shape f sh w)) = None.
Proof.
  induction sh as [|o sh IH]; intros w; cbn [run_shape].
  - cbn. discriminate.
  - pose proof (sop_step_raised f o w) as H.
    destruct (sop_step f o w) as [w1|w1]; cbn [andthen wof raised] in *.
    + apply IH.
    + exact H.
Qed.

(** the removal of a partly written tree after a failed directory save *)
Lemma drop_partial_session m f w :
  reg (drop_partial m f w) = reg w /\ nuid (drop_partial m f w) = nuid w
  /\ flag (drop_partial m f w) = flag w.
Proof.
  unfold drop_partial. destruct f; [auto|]. destruct m; [auto|].
  destruct (is_dir (slot (fs w) 0)); [|auto].
  pose proof (prim_session (TRm 0) (set_slot 0 Absent) w (fs_only_set_slot 0 Absent)) as (a & b & c & _).
  cbn zeta in a, b, c. auto.
Qed.

Lemma drop_partial_absent m f w t :
  fs w = Absent :: t -> drop_partial m f w = w.
Proof.
  intros H. unfold drop_partial. destruct f; [reflexivity|]. destruct m; [reflexivity|].
  unfold slot. rewrite H. reflexivity.
Qed.

Lemma drop_partial_zip m w : drop_partial m Zip w = w.
Proof. reflexivity. Qed.

Lemma drop_partial_partial m w g n t :
  fs w = Partial g n :: t -> fault w = None ->
  fs (drop_partial (S m) Dir w) = Absent :: t.
Proof.
  intros H Hf. unfold drop_partial, slot. rewrite H. cbn [nth is_dir].
  rewrite (prim_nofault _ _ _ Hf). cbn [wof]. unfold set_slot, set_fs, log. cbn [fs]. rewrite H. reflexivity.
Qed.
