(** Backup layer: proofs for C14.
    Part 1: what the primitives, the rotation and the writer do to the four paths. *)
From Coq Require Import List Bool Arith Lia.
From MX Require Import Backup.Model.
Import ListNotations.

(* ------------------------------------------------------------------ *)
(** * primitives *)
Lemma prim_cases o eff w :
  (exists w0, prim o eff w = Done (eff w0) /\ fs w0 = fs w /\ reg w0 = reg w /\ nuid w0 = nuid w
              /\ flag w0 = flag w /\ tmps w0 = tmps w
              /\ (fault w = None -> fault w0 = None))
  \/ (exists w0, prim o eff w = Raised w0 /\ fs w0 = fs w /\ reg w0 = reg w /\ nuid w0 = nuid w
              /\ flag w0 = flag w /\ tmps w0 = tmps w /\ fault w0 = None /\ fault w <> None).
Proof.
  unfold prim. destruct (fault w) as [[|k]|] eqn:E.
  - right. eexists; split; [reflexivity|]. cbn. repeat split; auto. discriminate.
  - left. eexists; split; [reflexivity|]. cbn. repeat split; auto. discriminate.
  - left. eexists; split; [reflexivity|]. cbn. repeat split; auto.
Qed.

Lemma prim_nofault o eff w : fault w = None -> prim o eff w = Done (eff (log o w)).
Proof. unfold prim. intros ->. reflexivity. Qed.

(** effects that only touch the file system *)
Definition fs_only (eff : world -> world) : Prop :=
  forall x, reg (eff x) = reg x /\ nuid (eff x) = nuid x /\ flag (eff x) = flag x
            /\ tmps (eff x) = tmps x /\ fault (eff x) = fault x.

Lemma fs_only_noeff : fs_only noeff.
Proof. intro x. unfold noeff. repeat split. Qed.

Lemma fs_only_set_slot k e : fs_only (set_slot k e).
Proof. intro x. unfold set_slot, set_fs. cbn. repeat split. Qed.

Lemma fs_only_rename a b : fs_only (rename a b).
Proof. intro x. unfold rename, set_slot, set_fs. cbn. repeat split. Qed.

Lemma fs_only_bump f : fs_only (bump f).
Proof.
  intro x. unfold bump. destruct f; [repeat split|].
  destruct (slot (fs x) 0); unfold set_slot, set_fs; cbn; repeat split.
Qed.

Lemma fs_only_mkroot g : fs_only (mkroot_dir g).
Proof.
  intro x. unfold mkroot_dir. destruct (slot (fs x) 0); unfold set_slot, set_fs; cbn; repeat split.
Qed.

(** session fields after a primitive with an fs-only effect *)
Lemma prim_session o eff w :
  fs_only eff ->
  let w' := wof (prim o eff w) in
  reg w' = reg w /\ nuid w' = nuid w /\ flag w' = flag w /\ tmps w' = tmps w.
Proof.
  intros H. destruct (prim_cases o eff w) as [(w0 & E & A)|(w0 & E & A)]; rewrite E; cbn.
  - destruct (H w0) as (h1 & h2 & h3 & h4 & _). intuition congruence.
  - intuition congruence.
Qed.

(* ------------------------------------------------------------------ *)
(** * rotation: session fields (any depth) *)
Lemma incr_session d : forall nth w,
  let w' := wof (incr d nth w) in
  reg w' = reg w /\ nuid w' = nuid w /\ flag w' = flag w /\ tmps w' = tmps w.
Proof.
  induction d as [|d IH]; intros nth w; cbn [incr].
  - destruct (present (slot (fs w) nth)); [|cbn; auto].
    apply prim_session, fs_only_set_slot.
  - destruct (present (slot (fs w) nth)); [|cbn; auto].
    specialize (IH (S nth) w). destruct (incr d (S nth) w) as [w1|w1]; cbn in *; [|exact IH].
    pose proof (prim_session (TMv nth (S nth)) (rename nth (S nth)) w1 (fs_only_rename _ _)) as P.
    cbn in P. intuition congruence.
Qed.

(* ------------------------------------------------------------------ *)
(** * rotation on the four paths: specification *)
Fixpoint shift (carry : entry) (l : fsys) : fsys :=
  match l with
  | [] => []                                   (* falls off the end: deleted *)
  | x :: t => carry :: (if present x then shift x t else t)
  end.

Definition rotate (l : fsys) : fsys :=
  match l with
  | [] => []
  | e0 :: t => if present e0 then Absent :: shift e0 t else l
  end.

Definition is_good (e : entry) : bool := match e with Good _ _ _ => true | _ => false end.

(** inductive strengthening of "the latest good copy is at <path> or _BAK1" *)
Definition sinv (l : fsys) : bool :=
  match l with
  | [e0; e1; e2; e3] =>
      is_good e0 || is_good e1 || (negb (is_good e1) && negb (is_good e2) && negb (is_good e3))
  | _ => false
  end.

Definition nopartial (l : fsys) : bool := forallb (fun e => negb (is_partial e)) l.

Definition mk4 e0 e1 e2 e3 r n fl c tr tm : world := mkW [e0; e1; e2; e3] r n fl c tr tm.

Ltac case_fault c :=
  destruct c as [[|[|[|[|c]]]]|].

Lemma rot_done e0 e1 e2 e3 r n fl c tr tm w' :
  incr 3 0 (mk4 e0 e1 e2 e3 r n fl c tr tm) = Done w' ->
  fs w' = rotate [e0; e1; e2; e3] /\ (c = None -> fault w' = None).
Proof.
  unfold mk4. intros H.
  destruct e0, e1, e2, e3; case_fault c; cbn in H; inversion H; subst; cbn; split;
    try reflexivity; try discriminate; intros _; reflexivity.
Qed.

Lemma rot_nofault e0 e1 e2 e3 r n fl tr tm :
  raised (incr 3 0 (mk4 e0 e1 e2 e3 r n fl None tr tm)) = false.
Proof. unfold mk4. destruct e0, e1, e2, e3; reflexivity. Qed.

Lemma rot_raised ub e0 e1 e2 e3 r n fl c tr tm w' :
  incr 3 0 (mk4 e0 e1 e2 e3 r n fl c tr tm) = Raised w' ->
  desc_from ub [e0; e1; e2; e3] -> sinv [e0; e1; e2; e3] = true -> is_partial e0 = false ->
  length (fs w') = 4 /\ desc_from ub (fs w') /\ sinv (fs w') = true
  /\ is_partial (slot (fs w') 0) = false
  /\ (nopartial [e0; e1; e2; e3] = true -> nopartial (fs w') = true).
Proof.
  unfold mk4. intros H D S P.
  destruct e0, e1, e2, e3; try discriminate P; case_fault c; cbn in H; inversion H; subst; clear H;
    cbn in *; repeat split; try reflexivity; try lia; try discriminate.
Qed.
