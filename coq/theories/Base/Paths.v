(** Dotted-name algebra of modelx: [core/util.py:131-302]
    ([abs_to_rel], [abs_to_rel_tuple], [rel_to_abs], [rel_to_abs_tuple]).
    Definitions only; proofs are in [PathsProofs.v]. *)
From Coq Require Import List String Ascii ZArith Bool Arith.
Import ListNotations.
Open Scope string_scope.

Definition dot : ascii := "."%char.

(** [str.split(".")]: never returns the empty list. *)
Fixpoint split_dot (s : string) : list string :=
  match s with
  | EmptyString => [EmptyString]
  | String c s' =>
      if Ascii.eqb c dot then EmptyString :: split_dot s'
      else match split_dot s' with
           | [] => [String c EmptyString]
           | h :: t => String c h :: t
           end
  end.

(** [".".join(l)] *)
Fixpoint join_dot (l : list string) : string :=
  match l with
  | [] => EmptyString
  | [x] => x
  | x :: t => x ++ String dot (join_dot t)
  end.

Fixpoint dots (n : nat) : string :=
  match n with O => EmptyString | S k => String dot (dots k) end.

(** number of leading positions on which the two lists agree
    (the [while shared < min(...) and tg[shared] == ns[shared]] loop) *)
Fixpoint shared (tg ns : list string) : nat :=
  match tg, ns with
  | t :: tg', n :: ns' => if String.eqb t n then S (shared tg' ns') else 0
  | _, _ => 0
  end.

(** Python slice [l[:k]] for a possibly negative [k]. *)
Definition py_take {A} (k : Z) (l : list A) : list A :=
  if (k <? 0)%Z then firstn (Z.to_nat (Z.of_nat (List.length l) + k)) l
  else firstn (Z.to_nat k) l.

(** Python slice [l[k:]] for [0 <= k]. *)
Definition py_drop {A} (k : nat) (l : list A) : list A := skipn k l.

(** tuple forms: the relative name is (number of dots, remaining names);
    Python represents it as the tuple [("." * dots,) + names]. *)
Definition abs_to_rel_tuple (tg ns : list string) : nat * list string :=
  let sh := shared tg ns in
  (List.length ns - sh + 1, py_drop (List.length tg - (List.length tg - sh)) tg).

Definition rel_to_abs_tuple (r : nat * list string) (ns : list string) : list string :=
  let sh := (Z.of_nat (List.length ns) - Z.of_nat (fst r) + 1)%Z in
  (py_take sh ns ++ snd r)%list.

(** string forms *)
Definition abs_to_rel (target namespace : string) : string :=
  let r := abs_to_rel_tuple (split_dot target) (split_dot namespace) in
  dots (fst r) ++ join_dot (snd r).

Fixpoint count_dots (s : string) : nat :=
  match s with
  | String c s' => if Ascii.eqb c dot then S (count_dots s') else 0
  | EmptyString => 0
  end.

Fixpoint drop_str (n : nat) (s : string) : string :=
  match n, s with
  | S k, String _ s' => drop_str k s'
  | _, _ => s
  end.

Definition rel_to_abs (target namespace : string) : string :=
  let ns := split_dot namespace in
  let d := count_dots target in
  let tg := if Nat.ltb d (String.length target)
            then split_dot (drop_str d target) else [] in
  join_dot (rel_to_abs_tuple (d, tg) ns).

(** names as modelx accepts them inside dotted names: non-empty, dot-free *)
Fixpoint dotfree (s : string) : bool :=
  match s with
  | EmptyString => true
  | String c s' => negb (Ascii.eqb c dot) && dotfree s'
  end.
Definition okname (s : string) : bool :=
  negb (String.eqb s EmptyString) && dotfree s.
