From Coq Require Import List String Ascii ZArith Bool Arith Lia.
From MX Require Import Base.Paths.
Import ListNotations.
Open Scope string_scope.

Lemma shared_le_l tg ns : shared tg ns <= List.length tg.
Proof.
  revert ns; induction tg as [|t tg IH]; intros [|n ns]; simpl; try lia.
  destruct (String.eqb t n); simpl; [specialize (IH ns)|]; lia.
Qed.

Lemma shared_le_r tg ns : shared tg ns <= List.length ns.
Proof.
  revert ns; induction tg as [|t tg IH]; intros [|n ns]; simpl; try lia.
  destruct (String.eqb t n); simpl; [specialize (IH ns)|]; lia.
Qed.

Lemma shared_firstn tg ns : firstn (shared tg ns) ns = firstn (shared tg ns) tg.
Proof.
  revert ns; induction tg as [|t tg IH]; intros [|n ns]; simpl; try reflexivity.
  destruct (String.eqb t n) eqn:E; simpl; [|reflexivity].
  apply String.eqb_eq in E; subst. now rewrite IH.
Qed.

Lemma abs_to_rel_tuple_spec tg ns :
  abs_to_rel_tuple tg ns =
  (List.length ns - shared tg ns + 1, skipn (shared tg ns) tg).
Proof.
  unfold abs_to_rel_tuple, py_drop. f_equal. f_equal.
  pose proof (shared_le_l tg ns). lia.
Qed.

(** Tuple form: unconditional round trip. *)
Lemma tuple_roundtrip tg ns :
  rel_to_abs_tuple (abs_to_rel_tuple tg ns) ns = tg.
Proof.
  rewrite abs_to_rel_tuple_spec. unfold rel_to_abs_tuple, py_take. cbn [fst snd].
  pose proof (shared_le_r tg ns) as Hr.
  replace (Z.of_nat (List.length ns) - Z.of_nat (List.length ns - shared tg ns + 1) + 1)%Z
    with (Z.of_nat (shared tg ns)) by lia.
  destruct (Z.of_nat (shared tg ns) <? 0)%Z eqn:E; [lia|].
  rewrite Nat2Z.id, shared_firstn. apply firstn_skipn.
Qed.

(** the number of leading dots produced is between 1 and |ns|+1, the names
    are a suffix of the target *)
Lemma abs_to_rel_tuple_shape tg ns :
  1 <= fst (abs_to_rel_tuple tg ns) <= List.length ns + 1 /\
  exists pre, tg = (pre ++ snd (abs_to_rel_tuple tg ns))%list /\
              pre = firstn (shared tg ns) ns.
Proof.
  rewrite abs_to_rel_tuple_spec; cbn [fst snd]. split; [lia|].
  exists (firstn (shared tg ns) tg). split.
  - symmetry; apply firstn_skipn.
  - symmetry; apply shared_firstn.
Qed.

(** ** string level *)

Lemma split_dot_nonnil s : split_dot s <> [].
Proof.
  induction s as [|c s IH]; simpl; [discriminate|].
  destruct (Ascii.eqb c dot); [discriminate|].
  destruct (split_dot s); discriminate.
Qed.

Lemma join_cons x l : l <> [] -> join_dot (x :: l) = x ++ String dot (join_dot l).
Proof. destruct l; [contradiction|reflexivity]. Qed.

Lemma join_split s : join_dot (split_dot s) = s.
Proof.
  induction s as [|c s IH]; [reflexivity|].
  pose proof (split_dot_nonnil s) as Hn.
  cbn [split_dot]. destruct (Ascii.eqb c dot) eqn:E.
  - apply Ascii.eqb_eq in E; subst c.
    rewrite join_cons by assumption. now rewrite IH.
  - destruct (split_dot s) as [|h t] eqn:Es; [contradiction|].
    destruct t as [|h2 t].
    + cbn [join_dot] in *. now rewrite IH.
    + rewrite join_cons by discriminate. rewrite join_cons in IH by discriminate.
      rewrite <- IH. reflexivity.
Qed.

Lemma split_dotfree x : dotfree x = true -> split_dot x = [x].
Proof.
  induction x as [|c x IH]; simpl; [reflexivity|].
  intros H. apply andb_true_iff in H as [Hc Hx].
  apply negb_true_iff in Hc. rewrite Hc, (IH Hx). reflexivity.
Qed.

Lemma split_app_dot x s :
  dotfree x = true -> split_dot (x ++ String dot s) = x :: split_dot s.
Proof.
  induction x as [|c x IH]; simpl; intros H.
  - reflexivity.
  - apply andb_true_iff in H as [Hc Hx]. apply negb_true_iff in Hc.
    rewrite Hc, (IH Hx). reflexivity.
Qed.

Lemma split_join l :
  l <> [] -> Forall (fun x => dotfree x = true) l -> split_dot (join_dot l) = l.
Proof.
  induction l as [|x l IH]; intros Hn Hf; [contradiction|].
  inversion Hf as [|? ? Hx Hl]; subst.
  destruct l as [|y l].
  - simpl. now apply split_dotfree.
  - cbn [join_dot]. rewrite split_app_dot by assumption.
    f_equal. apply IH; [discriminate|assumption].
Qed.

Lemma okname_dotfree x : okname x = true -> dotfree x = true.
Proof. unfold okname; intros H; apply andb_true_iff in H; tauto. Qed.

Lemma okname_head x : okname x = true ->
  exists c r, x = String c r /\ Ascii.eqb c dot = false.
Proof.
  unfold okname. destruct x as [|c r]; simpl; [discriminate|].
  intros H. apply andb_true_iff in H as [Hc _]. apply negb_true_iff in Hc.
  eauto.
Qed.

Lemma count_dots_dots d s :
  (forall c r, s = String c r -> Ascii.eqb c dot = false) ->
  count_dots (dots d ++ s) = d.
Proof.
  intros H. induction d as [|d IH].
  - simpl. destruct s as [|c r]; simpl; [reflexivity|]. now rewrite (H c r eq_refl).
  - change (dots (S d) ++ s) with (String dot (dots d ++ s)).
    cbn [count_dots]. rewrite Ascii.eqb_refl, IH. reflexivity.
Qed.

Lemma drop_dots d s : drop_str d (dots d ++ s) = s.
Proof. induction d as [|d IH]; simpl; [now destruct s|exact IH]. Qed.

Lemma length_dots d : String.length (dots d) = d.
Proof. induction d; simpl; congruence. Qed.

Lemma length_app s t : String.length (s ++ t) = String.length s + String.length t.
Proof. induction s; simpl; congruence. Qed.

Lemma join_head l :
  Forall (fun x => okname x = true) l ->
  forall c r, join_dot l = String c r -> Ascii.eqb c dot = false.
Proof.
  intros Hf c r E. destruct l as [|x l]; [discriminate|].
  inversion Hf as [|? ? Hx Hl]; subst.
  destruct (okname_head x Hx) as (c' & r' & -> & Hc').
  destruct l; simpl in E; inversion E; subst; assumption.
Qed.

Lemma join_nonempty l :
  l <> [] -> Forall (fun x => okname x = true) l -> 0 < String.length (join_dot l).
Proof.
  intros Hn Hf. destruct l as [|x l]; [contradiction|].
  inversion Hf as [|? ? Hx Hl]; subst.
  destruct (okname_head x Hx) as (c' & r' & -> & _).
  destruct l; simpl; lia.
Qed.

Lemma Forall_skipn {A} (P : A -> Prop) n l : Forall P l -> Forall P (skipn n l).
Proof.
  revert l; induction n as [|n IH]; intros l H; simpl; [assumption|].
  destruct l; [constructor|]. inversion H; subst. now apply IH.
Qed.

(** String form: round trip for every namespace string and every target
    made of valid (non-empty, dot-free) names. *)
Lemma string_roundtrip (ns : string) (tgl : list string) :
  tgl <> [] -> Forall (fun x => okname x = true) tgl ->
  rel_to_abs (abs_to_rel (join_dot tgl) ns) ns = join_dot tgl.
Proof.
  intros Hn Hf.
  assert (Hdf : Forall (fun x => dotfree x = true) tgl).
  { eapply Forall_impl; [|exact Hf]. intros; now apply okname_dotfree. }
  unfold abs_to_rel. rewrite (split_join tgl Hn Hdf).
  set (nsl := split_dot ns).
  pose proof (tuple_roundtrip tgl nsl) as RT.
  rewrite abs_to_rel_tuple_spec in *. cbn [fst snd] in *.
  set (d := List.length nsl - shared tgl nsl + 1) in *.
  set (rest := skipn (shared tgl nsl) tgl) in *.
  assert (Hrest : Forall (fun x => okname x = true) rest) by (now apply Forall_skipn).
  unfold rel_to_abs. fold nsl.
  rewrite (count_dots_dots d (join_dot rest) (join_head rest Hrest)).
  rewrite drop_dots, length_app, length_dots.
  destruct rest as [|x rest'] eqn:Er.
  - simpl (String.length (join_dot [])). replace (d + 0) with d by lia.
    rewrite Nat.ltb_irrefl. now rewrite RT.
  - assert (Hpos : 0 < String.length (join_dot (x :: rest')))
      by (apply join_nonempty; [discriminate|assumption]).
    destruct (Nat.ltb_spec d (d + String.length (join_dot (x :: rest')))); [|lia].
    rewrite split_join; [now rewrite RT|discriminate|].
    eapply Forall_impl; [|exact Hrest]. intros; now apply okname_dotfree.
Qed.

(** non-vacuity: the doctest examples of util.py *)
Example paths_ex1 : abs_to_rel "aaa.bbb.ddd" "aaa.bbb.ccc" = "..ddd" /\
                    rel_to_abs "..ddd" "aaa.bbb.ccc" = "aaa.bbb.ddd".
Proof. split; reflexivity. Qed.
Example paths_ex2 : abs_to_rel "aaa" "aaa.bbb.ccc.ddd" = "...." /\
                    rel_to_abs "...." "aaa.bbb.ccc.ddd" = "aaa".
Proof. split; reflexivity. Qed.
