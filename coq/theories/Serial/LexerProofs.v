(** Documentation text that is [safe_doc] is read back unchanged. *)
From Coq Require Import List String Ascii NArith Bool.
From MX Require Import Serial.Lexer.
Import ListNotations.
Open Scope string_scope.

Lemma has_char_app a s t : has_char a (s ++ t) = has_char a s || has_char a t.
Proof. induction s as [|c s IH]; simpl; [reflexivity|]. now rewrite IH, orb_assoc. Qed.

Lemma norm_nl_id s : has_char cr s = false -> norm_nl s = s.
Proof.
  induction s as [|c s IH]; simpl; intros H; [reflexivity|].
  apply orb_false_iff in H as [Hc Hs]. rewrite Hc. now rewrite IH.
Qed.

Lemma body_unfold s :
  body s =
  if starts3 s then after_close (drop3 s)
  else match s with
       | EmptyString => LexErr
       | String c rest =>
           if Ascii.eqb c bs then
             match rest with
             | EmptyString => LexErr
             | String e rest2 =>
                 match simple_escape e with
                 | Some ch => cons_res ch (body rest2)
                 | None =>
                     if Ascii.eqb e lf then body rest2
                     else match octal e with
                     | Some o1 =>
                         match rest2 with
                         | String e2 rest3 =>
                             match octal e2 with
                             | Some o2 =>
                                 match rest3 with
                                 | String e3 rest4 =>
                                     match octal e3 with
                                     | Some o3 => emit (o1 * 64 + o2 * 8 + o3) (body rest4)
                                     | None => emit (o1 * 8 + o2) (body rest3)
                                     end
                                 | EmptyString => emit (o1 * 8 + o2) (body rest3)
                                 end
                             | None => emit o1 (body rest2)
                             end
                         | EmptyString => emit o1 (body rest2)
                         end
                     | None =>
                         if Ascii.eqb e "x"%char then
                           match rest2 with
                           | String h1 (String h2 rest4) =>
                               match hexd h1, hexd h2 with
                               | Some a, Some b => emit (a * 16 + b) (body rest4)
                               | _, _ => LexErr
                               end
                           | _ => LexErr
                           end
                         else if is_unicode_escape e then LexUnsupported
                         else cons_res bs (cons_res e (body rest2))
                     end
                 end
             end
           else cons_res c (body rest)
       end.
Proof. destruct s; reflexivity. Qed.

(** a safe text followed by the closing quotes does not start with three quotes
    unless it is empty *)
Lemma no_early_close c d :
  has_triple (String c d) = false -> ends_dq (String c d) = false ->
  starts3 (String c (d ++ q3)) = false.
Proof.
  intros Ht He. destruct d as [|b [|a r]].
  - simpl in He. simpl. rewrite He. reflexivity.
  - simpl in He. simpl. rewrite He. now rewrite andb_false_r.
  - simpl in Ht. apply orb_false_iff in Ht as [Ht _]. simpl. exact Ht.
Qed.

Lemma ends_dq_tail c d : d <> EmptyString -> ends_dq (String c d) = ends_dq d.
Proof. destruct d; [contradiction|reflexivity]. Qed.

Lemma body_safe d :
  has_char bs d = false -> has_triple d = false -> ends_dq d = false ->
  body (d ++ q3) = LexOk d.
Proof.
  induction d as [|c d IH]; intros Hb Ht He.
  - reflexivity.
  - change (String c d ++ q3) with (String c (d ++ q3)).
    rewrite body_unfold. rewrite (no_early_close c d Ht He).
    simpl in Hb. apply orb_false_iff in Hb as [Hc Hb]. rewrite Hc.
    rewrite IH.
    + reflexivity.
    + exact Hb.
    + simpl in Ht. apply orb_false_iff in Ht as [_ Ht]. exact Ht.
    + destruct d as [|b r]; [reflexivity|]. rewrite <- He. symmetry. apply ends_dq_tail. discriminate.
Qed.

Theorem doc_lex : forall d, safe_doc d = true -> lex_triple (q3 ++ d ++ q3) = LexOk d.
Proof.
  intros d H. unfold safe_doc in H.
  apply andb_true_iff in H as [H He]. apply andb_true_iff in H as [H Ht].
  apply andb_true_iff in H as [Hb Hc].
  apply negb_true_iff in He, Ht, Hb, Hc.
  unfold lex_triple.
  rewrite norm_nl_id.
  - change (q3 ++ d ++ q3) with (String dq (String dq (String dq (d ++ q3)))).
    cbn [starts3 drop3]. rewrite Ascii.eqb_refl. cbn [andb].
    now apply body_safe.
  - rewrite !has_char_app. rewrite Hc. reflexivity.
Qed.

(** each clause of [safe_doc] is needed: the defects D9 of the pinned writer *)
Example unsafe_trailing_quote : lex_triple (q3 ++ "x""" ++ q3) = LexErr.
Proof. reflexivity. Qed.
Example unsafe_triple_inside :
  match lex_triple (q3 ++ "a""""""b" ++ q3) with LexOk s => s <> "a""""""b" | _ => True end.
Proof. vm_compute. exact I. Qed.
Example unsafe_backslash : lex_triple (q3 ++ "a\nb" ++ q3) = LexOk (String "a" (String lf "b")).
Proof. reflexivity. Qed.
Example unsafe_cr : lex_triple (q3 ++ String "a" (String cr "b") ++ q3) = LexOk (String "a" (String lf "b")).
Proof. reflexivity. Qed.
Example two_trailing_quotes_dropped : lex_triple (q3 ++ "x""""" ++ q3) = LexOk "x".
Proof. reflexivity. Qed.
Example safe_nontrivial : safe_doc "say ""hi"", it's ""x"" y" = true /\ safe_doc """starts" = true /\ safe_doc "" = true.
Proof. repeat split; reflexivity. Qed.
