(** The write plan of [ModelWriter] (serializer_6.py:308-395): which files are
    written, in which order, for a model with a given space tree.
    Definitions only; proofs are in [LayoutProofs.v].

    [write_model]: "_system.json"; then [_write_recursive] on the model encoder:
    own "__init__.py", then every child space recursively (its "__init__.py",
    its children, ...), then [instruct().execute()] of the encoder, which for a
    space writes "_data/<cells>" for every defined cells holding inputs (in cells
    order) and "_data/_dynamic_inputs" when the space has ItemSpaces; finally
    [write_pickledata] writes "_data/data.pickle" when anything was pickled. *)
From Coq Require Import List String Ascii NArith Bool.
From MX Require Import Serial.ZipFS.
Import ListNotations.
Open Scope string_scope.
Open Scope list_scope.

(** a generic file tree, traversed in order *)
Inductive node :=
| File (n : string)
| Dir (n : string) (ch : list node).

Definition node_name (nd : node) : string :=
  match nd with File n => n | Dir n _ => n end.

Fixpoint paths (pre : path) (nd : node) : list path :=
  match nd with
  | File n => [pre ++ [n]]
  | Dir n ch => flat_map (paths (pre ++ [n])) ch
  end.

Definition paths_list (pre : path) (l : list node) : list path := flat_map (paths pre) l.

Fixpoint nodup_strb (l : list string) : bool :=
  match l with
  | [] => true
  | x :: t => negb (existsb (String.eqb x) t) && nodup_strb t
  end.

(** in every directory the entry names are pairwise distinct *)
Fixpoint wf_node (nd : node) : bool :=
  match nd with
  | File _ => true
  | Dir _ ch => nodup_strb (map node_name ch) && forallb wf_node ch
  end.

Definition wf_nodes (l : list node) : bool :=
  nodup_strb (map node_name l) && forallb wf_node l.

(** what the writer needs to know about a space *)
Inductive spaceL :=
| SpaceL (name : string)
         (input_cells : list string)   (* defined cells holding inputs, in cells order *)
         (has_items : bool)            (* _named_itemspaces non-empty at write time *)
         (children : list spaceL).

Fixpoint space_node (s : spaceL) : node :=
  match s with
  | SpaceL n cs dyn ch =>
      Dir n (File "__init__.py" :: map space_node ch
             ++ [Dir "_data" (map File cs ++ (if dyn then [File "_dynamic_inputs"] else []))])
  end.

Definition model_nodes (spaces : list spaceL) (pickled : bool) : list node :=
  File "_system.json" :: File "__init__.py" :: map space_node spaces
  ++ (if pickled then [Dir "_data" [File "data.pickle"]] else []).

Definition write_plan (spaces : list spaceL) (pickled : bool) : list path :=
  paths_list [] (model_nodes spaces pickled).

Definition wf_layout (spaces : list spaceL) (pickled : bool) : bool :=
  wf_nodes (model_nodes spaces pickled).

(** ---- checks used by the correspondence ---------------------------------- *)
Fixpoint paths_eqb (a b : list path) : bool :=
  match a, b with
  | [], [] => true
  | x :: a', y :: b' => path_eqb x y && paths_eqb a' b'
  | _, _ => false
  end.

(** one generated case: the layout of the described model, the recorded
    writes of the directory writer and of the archive writer (path, content id),
    the directory listing and the archive member list *)
Definition layout_case : Type :=
  (list spaceL * bool) * (list (path * content)) * (list (path * content)) * fs * fs.

Definition check_layout (c : layout_case) : bool :=
  match c with
  | (sp, pk, wdir, wzip, lsdir, lszip) =>
      wf_layout sp pk
      && paths_eqb (map fst wdir) (write_plan sp pk)
      && paths_eqb (map fst wzip) (write_plan sp pk)
      && nodup_pathsb (map fst wdir) && prefix_freeb (map fst wdir)
      && ofs_eqb fs_same_set (run_dir wdir) (Some lsdir)
      && ofs_eqb fs_eqb (run_zip wzip) (Some lszip)
  end.
