(** Round trip of the statement-level codec: [decode (encode d) = Some d]. *)
From Coq Require Import List String Ascii NArith Bool Arith Lia.
From MX Require Import Base.Paths Base.PathsProofs Serial.Codec.
Import ListNotations.
Open Scope string_scope.
Open Scope list_scope.

(** induction principle for the nested type *)
Fixpoint space_ind2 (P : spaceD -> Prop)
  (H : forall n d f b a cs rs ch, Forall P ch -> P (SpaceD n d f b a cs rs ch)) (s : spaceD) : P s :=
  match s with
  | SpaceD n d f b a cs rs ch =>
      H n d f b a cs rs ch
        ((fix go (l : list spaceD) : Forall P l :=
            match l with
            | [] => Forall_nil P
            | c :: t => Forall_cons c (space_ind2 P H c) (go t)
            end) ch)
  end.

(** ---- names ------------------------------------------------------------------ *)
Lemma not_underscore_neq (tg : string) (c : ascii) (s : string) :
  starts_underscore tg = false -> c = "_"%char -> String.eqb tg (String c s) = false.
Proof.
  intros H ->. destruct tg as [|a t]; [reflexivity|].
  simpl in H. simpl. now rewrite H.
Qed.

Lemma plain_not_prop tg : starts_underscore tg = false -> is_prop_target tg = false.
Proof.
  intros H. unfold is_prop_target.
  rewrite (not_underscore_neq tg "_" "allow_none" H eq_refl).
  rewrite (not_underscore_neq tg "_" "is_cached" H eq_refl). reflexivity.
Qed.

Lemma plain_not_name tg : starts_underscore tg = false -> String.eqb tg "_name" = false.
Proof. intros H. exact (not_underscore_neq tg "_" "name" H eq_refl). Qed.

Lemma plain_not_formula tg : starts_underscore tg = false -> String.eqb tg "_formula" = false.
Proof. intros H. exact (not_underscore_neq tg "_" "formula" H eq_refl). Qed.

(** ---- look-ahead ---------------------------------------------------------------- *)
Definition stops (rest : list line) : Prop :=
  match rest with
  | [] => True
  | (_, StExpr _) :: _ => False
  | (_, StAssign t _) :: _ => is_prop_target t = false
  | _ => True
  end.

Lemma peek_stop lam rest c : stops rest -> peek lam rest c = c.
Proof.
  destruct rest as [|[sec [d| |t v|n f]] rest]; simpl; intros H; try reflexivity; [contradiction|].
  unfold is_prop_target in H. apply orb_false_iff in H as [H1 H2]. now rewrite H1, H2.
Qed.

Definition trailing (c : cellsD) : list line :=
  (if c_lambda c then match c_doc c with Some d => [(CELLSDEFS, StExpr d)] | None => [] end else [])
  ++ match c_allow_none c with Some b => [(CELLSDEFS, StAssign "_allow_none" (ABool b))] | None => [] end
  ++ (if c_cached c then [] else [(CELLSDEFS, StAssign "_is_cached" (ABool false))]).

Definition head_line (c : cellsD) : line :=
  if c_lambda c then (CELLSDEFS, StAssign (c_name c) (ALambda (c_formula c)))
  else (CELLSDEFS, StDef (c_name c) (c_formula c)).

Lemma enc_cells_split c : enc_cells c = head_line c :: trailing c.
Proof. unfold enc_cells, head_line, trailing. destruct (c_lambda c); reflexivity. Qed.

Lemma peek_trailing c rest :
  wf_cells c = true -> stops rest ->
  peek (c_lambda c) (trailing c ++ rest)
       (mkCells (c_name c) (c_lambda c) (c_formula c) None true None) = c.
Proof.
  intros Hwf Hs. destruct c as [n lam f an ca doc]. unfold wf_cells in Hwf. simpl in Hwf.
  apply andb_true_iff in Hwf as [_ Hdoc]. unfold trailing. simpl.
  destruct lam; simpl in *.
  - destruct doc as [d|], an as [b|], ca; simpl; rewrite ?peek_stop by exact Hs; reflexivity.
  - destruct doc as [d|]; [discriminate|].
    destruct an as [b|], ca; simpl; rewrite ?peek_stop by exact Hs; reflexivity.
Qed.

Lemma skip_trailing im parent owner c rest st :
  parse im parent owner (trailing c ++ rest) st = parse im parent owner rest st.
Proof.
  unfold trailing. destruct (c_lambda c), (c_doc c), (c_allow_none c), (c_cached c); reflexivity.
Qed.

Lemma stops_head c l : wf_cells c = true -> stops (head_line c :: l).
Proof.
  intros H. unfold wf_cells in H. apply andb_true_iff in H as [H _]. apply negb_true_iff in H.
  unfold head_line. destruct (c_lambda c); simpl; [|exact I]. now apply plain_not_prop.
Qed.

Definition add_cells (st : pstate) (cs : list cellsD) : pstate :=
  mkP (p_doc st) (p_name st) (p_formula st) (p_bases st) (p_allow st) (p_spaces st) (p_cells st ++ cs) (p_refs st).

Lemma step_head im parent owner c rest st :
  wf_cells c = true ->
  step im parent owner (head_line c) rest st
  = Some (add_cells st [peek (c_lambda c) rest (mkCells (c_name c) (c_lambda c) (c_formula c) None true None)]).
Proof.
  intros H. unfold wf_cells in H. apply andb_true_iff in H as [H _]. apply negb_true_iff in H.
  unfold head_line, step. destruct (c_lambda c).
  - rewrite (plain_not_name _ H), H. reflexivity.
  - rewrite (plain_not_formula _ H). reflexivity.
Qed.

Lemma parse_cells im parent owner cs : forall rest st,
  forallb wf_cells cs = true -> stops rest ->
  parse im parent owner (flat_map enc_cells cs ++ rest) st
  = parse im parent owner rest (add_cells st cs).
Proof.
  induction cs as [|c cs IH]; intros rest st Hwf Hs.
  - simpl. unfold add_cells. rewrite app_nil_r. now destruct st.
  - simpl in Hwf. apply andb_true_iff in Hwf as [Hc Hcs].
    cbn [flat_map]. rewrite enc_cells_split. rewrite <- app_assoc. cbn [app parse].
    rewrite (step_head _ _ _ _ _ _ Hc).
    rewrite (peek_trailing c _ Hc).
    + rewrite skip_trailing. rewrite IH by assumption.
      f_equal. unfold add_cells. simpl. rewrite <- app_assoc. reflexivity.
    + destruct cs as [|c2 cs']; [exact Hs|].
      cbn [flat_map]. rewrite enc_cells_split. simpl in Hcs. apply andb_true_iff in Hcs as [Hc2 _].
      apply (stops_head c2 _ Hc2).
Qed.

(** ---- references --------------------------------------------------------------- *)
Definition add_refs (st : pstate) (rs : list refD) : pstate :=
  mkP (p_doc st) (p_name st) (p_formula st) (p_bases st) (p_allow st) (p_spaces st) (p_cells st) (p_refs st ++ rs).

Definition ref_mode_ok (im : bool) (r : refD) : bool :=
  match r_val r with VObj _ mode => if im then String.eqb mode "None" else true | _ => true end.

Lemma dec_enc_refval im owner r :
  ref_mode_ok im r = true -> dec_refval im owner (enc_refval owner (r_val r)) = Some (r_val r).
Proof.
  unfold ref_mode_ok. destruct (r_val r) as [[|b|s|i]|tg mode|n|]; intros H; try reflexivity.
  cbn [enc_refval].
  pose proof (tuple_roundtrip tg owner) as RT.
  destruct (abs_to_rel_tuple tg owner) as [d names]. cbn [fst snd dec_refval]. rewrite RT.
  destruct im; [|reflexivity]. apply String.eqb_eq in H. now subst.
Qed.

Lemma parse_refs im parent owner rs : forall st,
  forallb wf_ref rs = true -> forallb (ref_mode_ok im) rs = true ->
  parse im parent owner (map (enc_ref owner) rs) st = Some (add_refs st rs).
Proof.
  induction rs as [|r rs IH]; intros st Hwf Hm.
  - simpl. unfold add_refs. rewrite app_nil_r. now destruct st.
  - simpl in Hwf, Hm. apply andb_true_iff in Hwf as [Hr Hrs]. apply andb_true_iff in Hm as [Hmr Hmrs].
    unfold wf_ref in Hr. apply negb_true_iff in Hr.
    cbn [map parse]. unfold enc_ref at 1. unfold step.
    rewrite (plain_not_name _ Hr). rewrite (dec_enc_refval im owner r Hmr).
    rewrite IH by assumption. f_equal. unfold add_refs. simpl. rewrite <- app_assoc.
    destruct r. reflexivity.
Qed.

(** ---- bases ----------------------------------------------------------------- *)
Definition wf_base (b : list string) : bool :=
  match b with [] => false | _ => forallb okname b end.

Lemma wf_base_spec b : wf_base b = true -> b <> [] /\ Forall (fun x => okname x = true) b.
Proof.
  destruct b as [|x b]; [discriminate|]. intros H. split; [discriminate|].
  unfold wf_base in H. apply Forall_forall. rewrite forallb_forall in H. exact H.
Qed.

Lemma bases_roundtrip parent bases :
  forallb wf_base bases = true ->
  map split_dot (map (fun b => rel_to_abs b (join_dot parent))
                     (map (fun b => abs_to_rel (join_dot b) (join_dot parent)) bases)) = bases.
Proof.
  induction bases as [|b bs IH]; intros H; [reflexivity|].
  simpl in H. apply andb_true_iff in H as [Hb Hbs].
  destruct (wf_base_spec b Hb) as [Hn Hf].
  cbn [map]. rewrite (string_roundtrip (join_dot parent) b Hn Hf).
  rewrite split_join; [|exact Hn|].
  - f_equal. now apply IH.
  - eapply Forall_impl; [|exact Hf]. intros; now apply okname_dotfree.
Qed.

(** ---- children lookup ------------------------------------------------------- *)
Lemma nodup_namesb_cons x t : nodup_namesb (x :: t) = true -> ~ In x t /\ nodup_namesb t = true.
Proof.
  simpl. intros H. apply andb_true_iff in H as [H1 H2]. split; [|exact H2].
  intros Hin. apply negb_true_iff in H1.
  assert (existsb (String.eqb x) t = true).
  { apply existsb_exists. exists x. split; [exact Hin|apply String.eqb_refl]. }
  congruence.
Qed.

Definition entry (c : spaceD) : string * option spaceD := (space_name c, Some c).

Lemma lookup_skip n pre suf :
  ~ In n (map space_name pre) ->
  lookup_tree n (map entry pre ++ suf) = lookup_tree n suf.
Proof.
  induction pre as [|c pre IH]; simpl; intros H; [reflexivity|].
  destruct (String.eqb (space_name c) n) eqn:E.
  - apply String.eqb_eq in E. tauto.
  - apply IH. tauto.
Qed.

Lemma nodup_app_names pre c suf :
  nodup_namesb (map space_name (pre ++ c :: suf)) = true -> ~ In (space_name c) (map space_name pre).
Proof.
  induction pre as [|p pre IH]; simpl; intros H; [tauto|].
  apply andb_true_iff in H as [H1 H2]. intros [E|Hin].
  - apply negb_true_iff in H1.
    assert (existsb (String.eqb (space_name p)) (map space_name (pre ++ c :: suf)) = true).
    { apply existsb_exists. exists (space_name c). split.
      - rewrite map_app. apply in_or_app. right. now left.
      - rewrite E. apply String.eqb_refl. }
    congruence.
  - now apply IH.
Qed.

Lemma lookup_children suf : forall pre,
  nodup_namesb (map space_name (pre ++ suf)) = true ->
  all_some (map (fun n => match lookup_tree n (map entry (pre ++ suf)) with
                          | Some (Some s) => Some s
                          | _ => None
                          end) (map space_name suf)) = Some suf.
Proof.
  induction suf as [|c suf IH]; intros pre H; [reflexivity|].
  cbn [map all_some].
  rewrite map_app. rewrite lookup_skip by (eapply nodup_app_names; exact H).
  cbn [map lookup_tree entry]. rewrite String.eqb_refl.
  specialize (IH (pre ++ [c])). rewrite <- app_assoc in IH. cbn [app] in IH.
  specialize (IH H). rewrite map_app in IH. cbn [map] in IH. rewrite IH. reflexivity.
Qed.

Lemma visible_all l : forallb (fun n => negb (starts_underscore n)) l = true -> visible_names l = l.
Proof.
  induction l as [|x l IH]; simpl; intros H; [reflexivity|].
  apply andb_true_iff in H as [H1 H2]. unfold visible_names in *. simpl. rewrite H1. f_equal. now apply IH.
Qed.

Lemma wf_children_names ch :
  forallb wf_space ch = true -> forallb (fun n => negb (starts_underscore n)) (map space_name ch) = true.
Proof.
  induction ch as [|c ch IH]; simpl; intros H; [reflexivity|].
  apply andb_true_iff in H as [Hc Hch]. rewrite (IH Hch), andb_true_r.
  destruct c as [n d f b a cs rs ch']. simpl in Hc.
  do 5 (apply andb_true_iff in Hc as [Hc _]).
  unfold plain_name in Hc. apply andb_true_iff in Hc as [_ Hc]. exact Hc.
Qed.

(** ---- a space file ----------------------------------------------------------- *)
Lemma parse_space_lines parent s :
  match s with
  | SpaceD name doc formula bases allow cells refs children =>
      forallb wf_cells cells = true -> forallb wf_ref refs = true ->
      parse false parent (parent ++ [name]) (enc_space_lines parent s) p0
      = Some (mkP doc None formula
                  (map (fun b => rel_to_abs b (join_dot parent))
                       (map (fun b => abs_to_rel (join_dot b) (join_dot parent)) bases))
                  allow (visible_names (map space_name children)) cells refs)
  end.
Proof.
  destruct s as [name doc formula bases allow cells refs children]. intros Hc Hr.
  unfold enc_space_lines.
  assert (Hmode : forallb (ref_mode_ok false) refs = true).
  { apply forallb_forall. intros r _. unfold ref_mode_ok. now destruct (r_val r). }
  assert (Hstop : stops (map (enc_ref (parent ++ [name])) refs)).
  { destruct refs as [|r rs]; [exact I|]. simpl. simpl in Hr. apply andb_true_iff in Hr as [Hr _].
    unfold wf_ref in Hr. apply negb_true_iff in Hr. now apply plain_not_prop. }
  destruct doc as [d|]; destruct formula as [[[|] f]|]; destruct allow as [[|]|];
    cbn [enc_doc app parse step attr_assign opt_of_aval enc_optbool String.eqb Ascii.eqb Bool.eqb p0
         p_doc p_name p_formula p_bases p_allow p_spaces p_cells p_refs];
    rewrite (parse_cells false parent (parent ++ [name]) cells _ _ Hc Hstop);
    rewrite (parse_refs false parent (parent ++ [name]) refs _ Hr Hmode);
    reflexivity.
Qed.

Lemma map_ext_Forall {A B} (f g : A -> B) l : Forall (fun x => f x = g x) l -> map f l = map g l.
Proof. induction 1; simpl; congruence. Qed.

Lemma dec_enc_space s : forall parent, wf_space s = true -> dec_space parent (enc_space parent s) = Some s.
Proof.
  induction s as [name doc formula bases allow cells refs children IH] using space_ind2.
  intros parent Hwf. cbn [wf_space] in Hwf.
  apply andb_true_iff in Hwf as [Hwf Hch]. apply andb_true_iff in Hwf as [Hwf Hnd].
  apply andb_true_iff in Hwf as [Hwf Hrefs]. apply andb_true_iff in Hwf as [Hwf Hcells].
  apply andb_true_iff in Hwf as [Hname Hbases].
  cbn [enc_space dec_space].
  pose proof (parse_space_lines parent (SpaceD name doc formula bases allow cells refs children)) as HP.
  cbv beta iota in HP. rewrite (HP Hcells Hrefs). clear HP.
  cbn [p_doc p_name p_formula p_bases p_allow p_spaces p_cells p_refs].
  rewrite (visible_all _ (wf_children_names _ Hch)).
  assert (E : map (fun c => (ft_name c, dec_space (parent ++ [name]) c)) (map (enc_space (parent ++ [name])) children)
              = map entry children).
  { rewrite map_map. apply map_ext_Forall. rewrite Forall_forall in IH. apply Forall_forall. intros c Hc.
    rewrite (IH c Hc).
    - unfold entry. destruct c. reflexivity.
    - rewrite forallb_forall in Hch. now apply Hch. }
  rewrite E.
  pose proof (lookup_children children [] Hnd) as L. cbn [app] in L. rewrite L.
  rewrite bases_roundtrip; [reflexivity|]. exact Hbases.
Qed.

(** ---- the model ---------------------------------------------------------------- *)
Lemma find_name_model m : find_name (enc_model_lines m) = Some (m_name m).
Proof. unfold enc_model_lines. destruct (m_doc m); reflexivity. Qed.

Theorem codec_roundtrip : forall m, wf_model m = true -> decode (encode m) = Some m.
Proof.
  intros [name doc allow refs spaces] Hwf. unfold wf_model in Hwf. cbn [m_refs m_spaces] in Hwf.
  apply andb_true_iff in Hwf as [Hwf Hsp]. apply andb_true_iff in Hwf as [Hwf Hnd].
  apply andb_true_iff in Hwf as [Hrefs Hmode].
  unfold encode, decode. rewrite find_name_model. cbn [m_name m_spaces].
  assert (Hm : forallb (ref_mode_ok true) refs = true).
  { rewrite forallb_forall in Hmode. apply forallb_forall. intros r Hr. specialize (Hmode r Hr).
    unfold ref_mode_ok. destruct (r_val r); auto. }
  assert (HP : parse true [] [name] (enc_model_lines (mkModel name doc allow refs spaces)) p0
               = Some (mkP doc (Some name) None [] (Some allow) (visible_names (map space_name spaces)) [] refs)).
  { unfold enc_model_lines. cbn [m_doc m_name m_allow_none m_spaces m_refs].
    destruct doc as [d|];
      cbn [enc_doc app parse step attr_assign opt_of_aval String.eqb Ascii.eqb Bool.eqb p0
           p_doc p_name p_formula p_bases p_allow p_spaces p_cells p_refs];
      rewrite (parse_refs true [] [name] refs _ Hrefs Hm); reflexivity. }
  rewrite HP. cbn [p_doc p_name p_formula p_bases p_allow p_spaces p_cells p_refs].
  rewrite (visible_all _ (wf_children_names _ Hsp)).
  assert (E : map (fun c => (ft_name c, dec_space [name] c)) (map (enc_space [name]) spaces) = map entry spaces).
  { rewrite map_map. apply map_ext_Forall. apply Forall_forall. intros c Hc.
    rewrite dec_enc_space.
    - unfold entry. destruct c. reflexivity.
    - rewrite forallb_forall in Hsp. now apply Hsp. }
  rewrite E. pose proof (lookup_children spaces [] Hnd) as L. cbn [app] in L. rewrite L. reflexivity.
Qed.

(** repeated chains: encode . decode . encode = encode *)
Corollary codec_chain : forall m, wf_model m = true ->
  match decode (encode m) with Some m' => encode m' = encode m | None => False end.
Proof. intros m H. now rewrite (codec_roundtrip m H). Qed.

(** ---- non-vacuity: a description exercising every construct ------------------ *)
Local Open Scope N_scope.
Definition ex_model : modelD :=
  mkModel "M" (Some "model doc") false
    [mkRef "r1" (VLit (LNum 1)); mkRef "r3" (VObj ["M"; "A"; "B"] "None"); mkRef "p" VPickle]
    [SpaceD "A" (Some "A doc") None [] None []
       [mkRef "x" (VLit (LStr "str")); mkRef "ob" (VObj ["M"; "A"; "B"; "foo"] "relative");
        mkRef "ob2" (VObj ["M"; "C"] "absolute"); mkRef "mod" (VModule "math")]
       [SpaceD "B" None None [] None
          [mkCells "foo" true 1 None false (Some "lambda doc"); mkCells "bar" false 2 (Some true) true None;
           mkCells "baz" true 3 (Some false) true None]
          [] []];
     SpaceD "C" None (Some (true, 4)) [["M"; "A"; "B"]] (Some true) [] [] [];
     SpaceD "P" None (Some (false, 5)) [["M"; "C"]; ["M"; "A"]] None [mkCells "pc" false 6 None false None] [] []].

Example ex_model_wf : wf_model ex_model = true.
Proof. reflexivity. Qed.

Example ex_model_roundtrip : decode (encode ex_model) = Some ex_model.
Proof. exact (codec_roundtrip ex_model ex_model_wf). Qed.

Example ex_bases_written :
  match snd (encode ex_model) with
  | [_; FT _ l2 _; FT _ l3 _] =>
      In (DEFAULT, StAssign "_bases" (AStrList [".A.B"])) l2 /\
      In (DEFAULT, StAssign "_bases" (AStrList [".C"; ".A"])) l3
  | _ => False
  end.
Proof. vm_compute. split; tauto. Qed.

(** the pinned reader ignores [_is_cached] after a lambda cells (D8): a decoder
    doing that cannot round-trip an uncached lambda cells *)
Example d8_needs_the_flag :
  let c := mkCells "foo" true 1 None false None in
  peek true (trailing c) (mkCells "foo" true 1 None true None) = c /\
  mkCells "foo" true 1 None true None <> c.
Proof. split; [reflexivity|discriminate]. Qed.
