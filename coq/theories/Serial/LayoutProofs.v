(** The writer's plan names pairwise distinct, prefix-free files; hence the
    directory and the archive end up with exactly the same files. *)
From Coq Require Import List String Ascii NArith Bool Arith Lia.
From MX Require Import Serial.ZipFS Serial.ZipFSProofs Serial.Layout.
Import ListNotations.

Fixpoint node_ind2 (P : node -> Prop)
  (HF : forall n, P (File n))
  (HD : forall n ch, Forall P ch -> P (Dir n ch)) (nd : node) : P nd :=
  match nd with
  | File n => HF n
  | Dir n ch =>
      HD n ch ((fix go (l : list node) : Forall P l :=
                  match l with
                  | [] => Forall_nil P
                  | c :: t => Forall_cons c (node_ind2 P HF HD c) (go t)
                  end) ch)
  end.

Lemma is_prefix_refl p : is_prefix p p = true.
Proof. induction p as [|x p IH]; simpl; [reflexivity|]. now rewrite String.eqb_refl. Qed.

Lemma is_prefix_app p r : is_prefix p (p ++ r) = true.
Proof. induction p as [|x p IH]; simpl; [reflexivity|]. now rewrite String.eqb_refl. Qed.

Lemma is_prefix_app_inv pre : forall l q,
  is_prefix (pre ++ l) q = true -> exists r, q = pre ++ r /\ is_prefix l r = true.
Proof.
  induction pre as [|x pre IH]; intros l q H; simpl in *.
  - exists q. split; [reflexivity|exact H].
  - destruct q as [|y q]; [discriminate|].
    apply andb_true_iff in H as [H1 H2]. apply String.eqb_eq in H1. subst y.
    destruct (IH _ _ H2) as (r & -> & Hr). exists r. split; [reflexivity|exact Hr].
Qed.

Lemma is_prefix_app_same pre l r : is_prefix (pre ++ l) (pre ++ r) = is_prefix l r.
Proof. induction pre as [|x pre IH]; simpl; [reflexivity|]. now rewrite String.eqb_refl. Qed.

Lemma is_prefix_app_l a b p : is_prefix (a ++ b) p = true -> is_prefix a p = true.
Proof.
  intros H. destruct (is_prefix_app_inv a b p H) as (r & -> & _). apply is_prefix_app.
Qed.

(** two paths that leave a common directory through different entries are unrelated *)
Lemma diverge pre a b p q :
  a <> b ->
  is_prefix (pre ++ [a]) p = true -> is_prefix (pre ++ [b]) q = true ->
  is_prefix p q = false /\ p <> q.
Proof.
  intros Hab Hp Hq.
  destruct (is_prefix_app_inv _ _ _ Hp) as (rp & -> & Hrp).
  destruct (is_prefix_app_inv _ _ _ Hq) as (rq & -> & Hrq).
  destruct rp as [|x rp]; [discriminate|]. destruct rq as [|y rq]; [discriminate|].
  simpl in Hrp, Hrq.
  apply andb_true_iff in Hrp as [Hx _]. apply andb_true_iff in Hrq as [Hy _].
  apply String.eqb_eq in Hx, Hy. subst x y.
  assert (E : is_prefix (pre ++ a :: rp) (pre ++ b :: rq) = false).
  { rewrite is_prefix_app_same. simpl. destruct (String.eqb a b) eqn:E; [|reflexivity].
    apply String.eqb_eq in E. contradiction. }
  split; [exact E|]. intros Heq. rewrite Heq, is_prefix_refl in E. discriminate.
Qed.

Lemma below_of_prefix_false p q : is_prefix p q = false -> below p q = false.
Proof. unfold below. now intros ->. Qed.

(** every path produced below [nd] starts with [pre ++ [name nd]] *)
Lemma paths_prefix nd : forall pre p,
  In p (paths pre nd) -> is_prefix (pre ++ [node_name nd]) p = true.
Proof.
  induction nd as [n|n ch IH] using node_ind2; intros pre p Hin; simpl in *.
  - destruct Hin as [<-|[]]. apply is_prefix_refl.
  - apply in_flat_map in Hin as (c & Hc & Hp).
    rewrite Forall_forall in IH. specialize (IH c Hc _ _ Hp).
    apply is_prefix_app_l in IH. exact IH.
Qed.

Lemma nodup_strb_cons x t :
  nodup_strb (x :: t) = true -> ~ In x t /\ nodup_strb t = true.
Proof.
  simpl. intros H. apply andb_true_iff in H as [H1 H2]. split; [|exact H2].
  intros Hin. apply negb_true_iff in H1.
  assert (existsb (String.eqb x) t = true).
  { apply existsb_exists. exists x. split; [exact Hin|apply String.eqb_refl]. }
  congruence.
Qed.

Definition good (ps : list path) : Prop := NoDup ps /\ prefix_free ps.

Lemma good_app a b :
  good a -> good b ->
  (forall p q, In p a -> In q b -> p <> q /\ below p q = false /\ below q p = false) ->
  good (a ++ b).
Proof.
  intros [Na Fa] [Nb Fb] H. split.
  - clear Fa. revert Na H. induction a as [|x a IH]; intros Na H; simpl; [exact Nb|].
    inversion Na as [|? ? Hx Na']; subst. constructor.
    + intros Hin. apply in_app_or in Hin as [Hin|Hin]; [contradiction|].
      destruct (H x x (or_introl eq_refl) Hin) as [Hne _]. now apply Hne.
    + apply IH; [exact Na'|]. intros p q Hp Hq. apply H; [now right|exact Hq].
  - intros p q Hp Hq. apply in_app_or in Hp, Hq.
    destruct Hp as [Hp|Hp], Hq as [Hq|Hq].
    + now apply Fa.
    + destruct (H p q Hp Hq) as (_ & E & _). exact E.
    + destruct (H q p Hq Hp) as (_ & _ & E). exact E.
    + now apply Fb.
Qed.

Lemma paths_list_good l : forall pre,
  Forall (fun nd => forall pre, wf_node nd = true -> good (paths pre nd)) l ->
  nodup_strb (map node_name l) = true -> forallb wf_node l = true ->
  good (paths_list pre l).
Proof.
  induction l as [|c t IH]; intros pre HP Hnd Hwf; simpl.
  - split; [constructor|intros p q []].
  - inversion HP as [|? ? Hc Ht]; subst.
    simpl in Hnd. apply nodup_strb_cons in Hnd as [Hnotin Hnd].
    simpl in Hwf. apply andb_true_iff in Hwf as [Hwc Hwt].
    apply good_app.
    + now apply Hc.
    + now apply IH.
    + intros p q Hp Hq. unfold paths_list in Hq. apply in_flat_map in Hq as (c' & Hc' & Hq).
      assert (Hne : node_name c <> node_name c').
      { intros E. apply Hnotin. rewrite E. now apply in_map. }
      apply paths_prefix in Hp. apply paths_prefix in Hq.
      destruct (diverge pre _ _ p q Hne Hp Hq) as [E1 E2].
      assert (Hne' : node_name c' <> node_name c) by congruence.
      destruct (diverge pre _ _ q p Hne' Hq Hp) as [E3 _].
      repeat split; [exact E2| |]; now apply below_of_prefix_false.
Qed.

Lemma paths_good nd : forall pre, wf_node nd = true -> good (paths pre nd).
Proof.
  induction nd as [n|n ch IH] using node_ind2; intros pre Hwf.
  - simpl. split.
    + constructor; [intros []|constructor].
    + intros p q [<-|[]] [<-|[]]. apply below_irrefl.
  - simpl in Hwf. apply andb_true_iff in Hwf as [H1 H2].
    change (paths pre (Dir n ch)) with (paths_list (pre ++ [n]) ch).
    now apply paths_list_good.
Qed.

Theorem plan_distinct_prefix_free : forall spaces pickled,
  wf_layout spaces pickled = true ->
  NoDup (write_plan spaces pickled) /\ prefix_free (write_plan spaces pickled).
Proof.
  intros spaces pickled H. unfold wf_layout, wf_nodes in H.
  apply andb_true_iff in H as [H1 H2]. unfold write_plan.
  apply paths_list_good; [|exact H1|exact H2].
  apply Forall_forall. intros nd _. apply paths_good.
Qed.

(** whatever the contents, the writer's plan leaves the same files in a
    directory and in an archive: exactly the planned ones *)
Theorem writer_zip_eq_dir : forall spaces pickled (ws : list (path * content)),
  wf_layout spaces pickled = true ->
  map fst ws = write_plan spaces pickled ->
  run_dir ws = Some ws /\ run_zip ws = Some ws.
Proof.
  intros spaces pickled ws Hwf Hplan.
  destruct (plan_distinct_prefix_free _ _ Hwf) as [ND PF].
  apply zip_dir_total; rewrite Hplan; assumption.
Qed.

Open Scope string_scope.
Open Scope list_scope.
Example layout_nontrivial :
  let sp := [SpaceL "A" [] false [SpaceL "B" ["bar"; "foo"] false []];
             SpaceL "P" ["pc"] true [SpaceL "A" [] false []]] in
  wf_layout sp true = true /\
  write_plan sp true =
    [["_system.json"]; ["__init__.py"]; ["A"; "__init__.py"]; ["A"; "B"; "__init__.py"];
     ["A"; "B"; "_data"; "bar"]; ["A"; "B"; "_data"; "foo"];
     ["P"; "__init__.py"]; ["P"; "A"; "__init__.py"]; ["P"; "_data"; "pc"]; ["P"; "_data"; "_dynamic_inputs"];
     ["_data"; "data.pickle"]].
Proof. split; reflexivity. Qed.

(** a space named like a reserved entry is rejected by [wf_layout] *)
Example layout_clash : wf_layout [SpaceL "_data" [] false []] true = false.
Proof. reflexivity. Qed.
