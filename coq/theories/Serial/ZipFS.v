(** Directory writer vs zip-archive writer of [modelx/serialize/ziputil.py].
    Definitions only; proofs are in [ZipFSProofs.v].

    A path is the list of its components ([pathlib.PurePath.parts] relative to
    the model root, i.e. the archive name split at "/").  A file system state is
    the list of (path, content) pairs in the order in which the files were first
    created: for the archive this is exactly [ZipFile.namelist()] order.

    [ziputil.write_file], archive branch (ziputil.py:222-235):
      - [_archive_exists]   : a member with this very name exists -> warn and SKIP
                              (first write wins);
      - [is_valid_archive_path] : some member name starts with [archive + "/"],
                              i.e. the name is an existing directory -> ValueError
                              (the second loop of that function compares a list
                              with a string and can never fire: not modelled);
      - otherwise [writestr] appends the member.
    directory branch (ziputil.py:237-240): [mkdir(parents=True)] of the parent,
    then [open(path, "w")] which truncates: the LAST write wins; it raises when
    the path is an existing directory or when a parent is an existing file. *)
From Coq Require Import List String Ascii NArith Bool.
Import ListNotations.

Definition path := list string.
Definition content := N.
Definition fs := list (path * content).

Fixpoint path_eqb (p q : path) : bool :=
  match p, q with
  | [], [] => true
  | x :: p', y :: q' => String.eqb x y && path_eqb p' q'
  | _, _ => false
  end.

(** [p] is a (not necessarily proper) prefix of [q] *)
Fixpoint is_prefix (p q : path) : bool :=
  match p, q with
  | [], _ => true
  | x :: p', y :: q' => String.eqb x y && is_prefix p' q'
  | _ :: _, [] => false
  end.

(** [q] lies strictly below [p]: [p] is a directory on the way to [q] *)
Definition below (p q : path) : bool := is_prefix p q && negb (path_eqb p q).

Definition has_path (p : path) (s : fs) : bool :=
  existsb (fun m => path_eqb (fst m) p) s.

(** some file lies strictly below [p]  ([p] is a directory) *)
Definition is_dir (p : path) (s : fs) : bool :=
  existsb (fun m => below p (fst m)) s.

(** some file is a proper ancestor of [p] *)
Definition parent_is_file (p : path) (s : fs) : bool :=
  existsb (fun m => below (fst m) p) s.

Fixpoint update (p : path) (c : content) (s : fs) : fs :=
  match s with
  | [] => [(p, c)]
  | (q, d) :: t => if path_eqb q p then (q, c) :: t else (q, d) :: update p c t
  end.

(** one write; [None] = the call raises (and the whole save is abandoned) *)
Definition zip_write (s : fs) (w : path * content) : option fs :=
  let (p, c) := w in
  if has_path p s then Some s
  else if is_dir p s then None
  else Some (s ++ [(p, c)]).

Definition dir_write (s : fs) (w : path * content) : option fs :=
  let (p, c) := w in
  if is_dir p s then None
  else if parent_is_file p s then None
  else Some (update p c s).

Fixpoint run (step : fs -> path * content -> option fs) (s : fs) (ws : list (path * content)) : option fs :=
  match ws with
  | [] => Some s
  | w :: t => match step s w with
              | Some s' => run step s' t
              | None => None
              end
  end.

Definition run_zip := run zip_write [].
Definition run_dir := run dir_write [].

Fixpoint lookup (p : path) (s : fs) : option content :=
  match s with
  | [] => None
  | (q, c) :: t => if path_eqb q p then Some c else lookup p t
  end.

(** no path of the list lies strictly below another one *)
Definition prefix_free (ps : list path) : Prop :=
  forall p q, In p ps -> In q ps -> below p q = false.

(** decidable versions used by the correspondence check *)
Fixpoint nodup_pathsb (ps : list path) : bool :=
  match ps with
  | [] => true
  | p :: t => negb (existsb (path_eqb p) t) && nodup_pathsb t
  end.

Definition prefix_freeb (ps : list path) : bool :=
  forallb (fun p => forallb (fun q => negb (below p q)) ps) ps.

(** first / last content written to [p] *)
Fixpoint first_write (p : path) (ws : list (path * content)) : option content :=
  match ws with
  | [] => None
  | (q, c) :: t => if path_eqb q p then Some c else first_write p t
  end.

Fixpoint last_write (p : path) (ws : list (path * content)) : option content :=
  match ws with
  | [] => None
  | (q, c) :: t => match last_write p t with
                   | Some d => Some d
                   | None => if path_eqb q p then Some c else None
                   end
  end.

(** ---- comparison helpers for the generated cases ------------------------- *)
Definition entry_eqb (a b : path * content) : bool :=
  path_eqb (fst a) (fst b) && N.eqb (snd a) (snd b).

Fixpoint fs_eqb (a b : fs) : bool :=
  match a, b with
  | [], [] => true
  | x :: a', y :: b' => entry_eqb x y && fs_eqb a' b'
  | _, _ => false
  end.

(** same set of entries (the directory listing has no order) *)
Definition fs_subset (a b : fs) : bool := forallb (fun x => existsb (entry_eqb x) b) a.
Definition fs_same_set (a b : fs) : bool :=
  fs_subset a b && fs_subset b a && Nat.eqb (List.length a) (List.length b).

Definition ofs_eqb (f : fs -> fs -> bool) (a : option fs) (b : option fs) : bool :=
  match a, b with
  | Some x, Some y => f x y
  | None, None => true
  | _, _ => false
  end.
