(** A small model of how Python reads a triple-double-quoted, non-raw,
    prefix-less string literal -- the form in which serializer_6 writes
    documentation strings ([ModelEncoder.encode], [SpaceEncoder.encode],
    [CellsEncoder.encode]: three quotes + doc + three quotes, serializer_6.py:441,499,643).
    Strings are byte strings (UTF-8).  Definitions only; proofs in [LexerProofs.v].

    Modelled: newline normalisation of the source (CR LF and CR become LF),
    the closing delimiter is the FIRST run of three quotes (an adjacent empty
    literal after it is concatenated), the single-character
    escapes, backslash-newline, octal and \x escapes (code points >= 128 are
    emitted as UTF-8), unknown escapes are kept verbatim.  \u \U \N are reported
    as [LexUnsupported] (the correspondence skips those). *)
From Coq Require Import List String Ascii NArith Bool.
Import ListNotations.
Open Scope string_scope.

Inductive lexres := LexOk (s : string) | LexErr | LexUnsupported.

Definition dq : ascii := """"%char.
Definition bs : ascii := "\"%char.
Definition lf : ascii := ascii_of_N 10.
Definition cr : ascii := ascii_of_N 13.
Definition q3 : string := String dq (String dq (String dq EmptyString)).

Definition starts3 (s : string) : bool :=
  match s with
  | String a (String b (String c _)) => Ascii.eqb a dq && Ascii.eqb b dq && Ascii.eqb c dq
  | _ => false
  end.

Definition drop3 (s : string) : string :=
  match s with String _ (String _ (String _ r)) => r | _ => EmptyString end.

(** the tokenizer's universal-newline translation *)
Fixpoint norm_nl (s : string) : string :=
  match s with
  | EmptyString => EmptyString
  | String c r =>
      if Ascii.eqb c cr then
        match r with
        | String d r' => if Ascii.eqb d lf then String lf (norm_nl r') else String lf (norm_nl r)
        | EmptyString => String lf EmptyString
        end
      else String c (norm_nl r)
  end.

Definition cons_res (c : ascii) (r : lexres) : lexres :=
  match r with LexOk s => LexOk (String c s) | e => e end.

(** UTF-8 encoding of a code point < 0x800 *)
Definition emit (v : N) (r : lexres) : lexres :=
  if N.ltb v 128 then cons_res (ascii_of_N v) r
  else cons_res (ascii_of_N (192 + N.div v 64)) (cons_res (ascii_of_N (128 + N.modulo v 64)) r).

Definition simple_escape (e : ascii) : option ascii :=
  let n := N_of_ascii e in
  if N.eqb n 92 then Some bs                      (* backslash *)
  else if N.eqb n 39 then Some (ascii_of_N 39)    (* single quote *)
  else if N.eqb n 34 then Some dq                 (* double quote *)
  else if N.eqb n 97 then Some (ascii_of_N 7)     (* \a *)
  else if N.eqb n 98 then Some (ascii_of_N 8)     (* \b *)
  else if N.eqb n 102 then Some (ascii_of_N 12)   (* \f *)
  else if N.eqb n 110 then Some (ascii_of_N 10)   (* \n *)
  else if N.eqb n 114 then Some (ascii_of_N 13)   (* \r *)
  else if N.eqb n 116 then Some (ascii_of_N 9)    (* \t *)
  else if N.eqb n 118 then Some (ascii_of_N 11)   (* \v *)
  else None.

Definition octal (c : ascii) : option N :=
  let n := N_of_ascii c in if N.leb 48 n && N.leb n 55 then Some (n - 48)%N else None.

Definition hexd (c : ascii) : option N :=
  let n := N_of_ascii c in
  if N.leb 48 n && N.leb n 57 then Some (n - 48)%N
  else if N.leb 97 n && N.leb n 102 then Some (n - 87)%N
  else if N.leb 65 n && N.leb n 70 then Some (n - 55)%N
  else None.

Definition is_unicode_escape (e : ascii) : bool :=
  let n := N_of_ascii e in N.eqb n 117 || N.eqb n 85 || N.eqb n 78.   (* u U N *)

(** what follows the closing quotes inside the statement: nothing; or an
    adjacent empty literal (two quotes), which Python concatenates; a single
    quote starts an unterminated literal; anything else is further tokens
    (adjacent literals, operators ...), outside this model *)
Definition after_close (r : string) : lexres :=
  match r with
  | EmptyString => LexOk EmptyString
  | String a EmptyString => if Ascii.eqb a dq then LexErr else LexUnsupported
  | String a (String b EmptyString) => if Ascii.eqb a dq && Ascii.eqb b dq then LexOk EmptyString else LexUnsupported
  | _ => LexUnsupported
  end.

(** the body of the literal, after the opening quotes *)
Fixpoint body (s : string) : lexres :=
  if starts3 s then after_close (drop3 s)
  else
    match s with
    | EmptyString => LexErr                                   (* unterminated *)
    | String c rest =>
        if Ascii.eqb c bs then
          match rest with
          | EmptyString => LexErr
          | String e rest2 =>
              match simple_escape e with
              | Some ch => cons_res ch (body rest2)
              | None =>
                  if Ascii.eqb e lf then body rest2             (* line continuation *)
                  else match octal e with
                  | Some o1 =>
                      match rest2 with
                      | String e2 rest3 =>
                          match octal e2 with
                          | Some o2 =>
                              match rest3 with
                              | String e3 rest4 =>
                                  match octal e3 with
                                  | Some o3 => emit (o1 * 64 + o2 * 8 + o3) (body rest4)
                                  | None => emit (o1 * 8 + o2) (body rest3)
                                  end
                              | EmptyString => emit (o1 * 8 + o2) (body rest3)
                              end
                          | None => emit o1 (body rest2)
                          end
                      | EmptyString => emit o1 (body rest2)
                      end
                  | None =>
                      if Ascii.eqb e "x"%char then
                        match rest2 with
                        | String h1 (String h2 rest4) =>
                            match hexd h1, hexd h2 with
                            | Some a, Some b => emit (a * 16 + b) (body rest4)
                            | _, _ => LexErr
                            end
                        | _ => LexErr
                        end
                      else if is_unicode_escape e then LexUnsupported
                      else cons_res bs (cons_res e (body rest2))   (* unknown escape: kept *)
                  end
              end
          end
        else cons_res c (body rest)
    end.

(** the whole literal text *)
Definition lex_triple (s : string) : lexres :=
  let t := norm_nl s in
  if starts3 t then body (drop3 t) else LexErr.

(** ---- documentation that survives being written between triple quotes ----- *)
Fixpoint has_char (a : ascii) (s : string) : bool :=
  match s with
  | EmptyString => false
  | String c r => Ascii.eqb c a || has_char a r
  end.

Fixpoint has_triple (s : string) : bool :=
  match s with
  | EmptyString => false
  | String _ r => starts3 s || has_triple r
  end.

Fixpoint ends_dq (s : string) : bool :=
  match s with
  | EmptyString => false
  | String c EmptyString => Ascii.eqb c dq
  | String _ r => ends_dq r
  end.

Definition safe_doc (d : string) : bool :=
  negb (has_char bs d) && negb (has_char cr d) && negb (has_triple d) && negb (ends_dq d).

Definition lexres_eqb (a b : lexres) : bool :=
  match a, b with
  | LexOk x, LexOk y => String.eqb x y
  | LexErr, LexErr => true
  | LexUnsupported, _ => true          (* outside the model: not compared *)
  | _, _ => false
  end.

(** one generated case: documentation text, what Python made of
    three quotes + d + three quotes ([Some v] / [None] = SyntaxError);
    the safe_doc predicate must also agree with "Python returns d itself" *)
Definition check_lex (c : string * option string) : bool :=
  let (d, py) := c in
  let r := lex_triple (q3 ++ d ++ q3) in
  lexres_eqb r (match py with Some v => LexOk v | None => LexErr end)
  && (if safe_doc d then match py with Some v => String.eqb v d | None => false end else true).
