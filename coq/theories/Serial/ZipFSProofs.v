(** Proofs about the directory / archive writers of [Serial/ZipFS.v]. *)
From Coq Require Import List String Ascii NArith Bool Arith Lia.
From MX Require Import Serial.ZipFS.
Import ListNotations.

Lemma path_eqb_refl p : path_eqb p p = true.
Proof. induction p as [|x p IH]; simpl; [reflexivity|]. now rewrite String.eqb_refl, IH. Qed.

Lemma path_eqb_eq p q : path_eqb p q = true <-> p = q.
Proof.
  split.
  - revert q; induction p as [|x p IH]; intros [|y q] H; simpl in H; try discriminate; [reflexivity|].
    apply andb_true_iff in H as [H1 H2]. apply String.eqb_eq in H1. apply IH in H2. now subst.
  - intros ->. apply path_eqb_refl.
Qed.

Lemma path_eqb_neq p q : path_eqb p q = false <-> p <> q.
Proof.
  split.
  - intros H E. apply path_eqb_eq in E. congruence.
  - intros H. destruct (path_eqb p q) eqn:E; [|reflexivity]. apply path_eqb_eq in E. contradiction.
Qed.

Lemma path_eqb_sym p q : path_eqb p q = path_eqb q p.
Proof.
  destruct (path_eqb p q) eqn:E.
  - apply path_eqb_eq in E. subst. symmetry. apply path_eqb_refl.
  - symmetry. apply path_eqb_neq. apply path_eqb_neq in E. congruence.
Qed.

Lemma below_irrefl p : below p p = false.
Proof. unfold below. rewrite path_eqb_refl. apply andb_false_r. Qed.

Lemma has_path_false p s : has_path p s = false <-> ~ In p (map fst s).
Proof.
  unfold has_path. induction s as [|[q c] t IH]; simpl.
  - tauto.
  - rewrite orb_false_iff, IH. rewrite path_eqb_neq. tauto.
Qed.

Lemma has_path_true p s : has_path p s = true <-> In p (map fst s).
Proof.
  destruct (has_path p s) eqn:E.
  - split; [|reflexivity]. intros _.
    destruct (in_dec (list_eq_dec string_dec) p (map fst s)) as [i|n]; [exact i|].
    apply has_path_false in n. congruence.
  - apply has_path_false in E. split; [discriminate|contradiction].
Qed.

Lemma update_notin p c s : ~ In p (map fst s) -> update p c s = s ++ [(p, c)].
Proof.
  induction s as [|[q d] t IH]; simpl; intros H; [reflexivity|].
  destruct (path_eqb q p) eqn:E.
  - apply path_eqb_eq in E. subst. tauto.
  - rewrite IH; tauto.
Qed.

Lemma is_dir_false p s : is_dir p s = false <-> forall q, In q (map fst s) -> below p q = false.
Proof.
  unfold is_dir. induction s as [|[q c] t IH]; simpl.
  - split; [intros _ q []|reflexivity].
  - rewrite orb_false_iff, IH. split.
    + intros [H1 H2] r [<-|Hr]; auto.
    + intros H. split; [apply H; now left|]. intros r Hr. apply H. now right.
Qed.

Lemma parent_is_file_false p s :
  parent_is_file p s = false <-> forall q, In q (map fst s) -> below q p = false.
Proof.
  unfold parent_is_file. induction s as [|[q c] t IH]; simpl.
  - split; [intros _ q []|reflexivity].
  - rewrite orb_false_iff, IH. split.
    + intros [H1 H2] r [<-|Hr]; auto.
    + intros H. split; [apply H; now left|]. intros r Hr. apply H. now right.
Qed.

(** ---- main theorem: distinct paths => whenever the directory write goes
    through, the archive write goes through with the very same file map ------ *)
Lemma run_dir_zip_gen ws : forall s d,
  NoDup (map fst s ++ map fst ws) ->
  run dir_write s ws = Some d -> run zip_write s ws = Some d.
Proof.
  induction ws as [|[p c] t IH]; intros s d ND H; simpl in *; [exact H|].
  destruct (is_dir p s) eqn:E1; [discriminate|].
  destruct (parent_is_file p s) eqn:E2; [discriminate|].
  assert (Hnotin : ~ In p (map fst s)).
  { intros Hin. apply NoDup_remove_2 in ND. apply ND. apply in_or_app. now left. }
  rewrite update_notin in H by exact Hnotin.
  apply has_path_false in Hnotin. rewrite Hnotin.
  apply IH; [|exact H].
  rewrite map_app. simpl. rewrite <- app_assoc. exact ND.
Qed.

Theorem zip_eq_dir : forall ws d,
  NoDup (map fst ws) -> run_dir ws = Some d -> run_zip ws = Some d.
Proof. intros ws d ND H. apply run_dir_zip_gen; assumption. Qed.

(** ---- totality: distinct and prefix-free paths => both writers succeed and
    hold exactly the written files, in write order --------------------------- *)
Lemma run_dir_total_gen ws : forall s,
  NoDup (map fst s ++ map fst ws) ->
  prefix_free (map fst s ++ map fst ws) ->
  run dir_write s ws = Some (s ++ ws).
Proof.
  induction ws as [|[p c] t IH]; intros s ND PF; simpl.
  - now rewrite app_nil_r.
  - assert (Hp : In p (map fst s ++ map fst ((p, c) :: t))) by (apply in_or_app; right; now left).
    assert (E1 : is_dir p s = false).
    { apply is_dir_false. intros q Hq. apply PF; [exact Hp|apply in_or_app; now left]. }
    assert (E2 : parent_is_file p s = false).
    { apply parent_is_file_false. intros q Hq. apply PF; [apply in_or_app; now left|exact Hp]. }
    rewrite E1, E2.
    assert (Hnotin : ~ In p (map fst s)).
    { intros Hin. apply NoDup_remove_2 in ND. apply ND. apply in_or_app. now left. }
    rewrite update_notin by exact Hnotin.
    replace (s ++ (p, c) :: t) with ((s ++ [(p, c)]) ++ t) by (rewrite <- app_assoc; reflexivity).
    apply IH; rewrite map_app; simpl; rewrite <- app_assoc; assumption.
Qed.

Theorem zip_dir_total : forall ws,
  NoDup (map fst ws) -> prefix_free (map fst ws) ->
  run_dir ws = Some ws /\ run_zip ws = Some ws.
Proof.
  intros ws ND PF.
  assert (H : run_dir ws = Some ws) by (apply (run_dir_total_gen ws []); assumption).
  split; [exact H|]. apply zip_eq_dir; assumption.
Qed.

(** ---- what each container holds when paths repeat -------------------------- *)
Lemma lookup_app_notin p s t : lookup p s = None -> lookup p (s ++ t) = lookup p t.
Proof.
  induction s as [|[q c] s IH]; simpl; [reflexivity|].
  destruct (path_eqb q p); [discriminate|exact IH].
Qed.

Lemma lookup_none p s : lookup p s = None <-> has_path p s = false.
Proof.
  unfold has_path. induction s as [|[q c] s IH]; simpl; [tauto|].
  destruct (path_eqb q p); simpl; [split; discriminate|exact IH].
Qed.

Lemma lookup_app_in p s t c : lookup p s = Some c -> lookup p (s ++ t) = Some c.
Proof.
  induction s as [|[q d] s IH]; simpl; [discriminate|].
  destruct (path_eqb q p); [trivial|exact IH].
Qed.

Lemma zip_first_gen ws : forall s z p,
  run zip_write s ws = Some z ->
  lookup p z = match lookup p s with Some c => Some c | None => first_write p ws end.
Proof.
  induction ws as [|[q c] t IH]; intros s z p H; simpl in H.
  - injection H as <-. simpl. now destruct (lookup p s).
  - destruct (has_path q s) eqn:E1.
    + rewrite (IH _ _ p H). destruct (lookup p s) eqn:L; [reflexivity|]. simpl.
      destruct (path_eqb q p) eqn:E; [|reflexivity].
      apply path_eqb_eq in E. subst. apply lookup_none in L. congruence.
    + destruct (is_dir q s); [discriminate|].
      rewrite (IH _ _ p H). destruct (lookup p s) eqn:L.
      * now rewrite (lookup_app_in _ _ _ _ L).
      * rewrite (lookup_app_notin _ _ _ L). simpl. destruct (path_eqb q p); reflexivity.
Qed.

Theorem zip_first_wins : forall ws z p, run_zip ws = Some z -> lookup p z = first_write p ws.
Proof. intros ws z p H. now rewrite (zip_first_gen ws [] z p H). Qed.

Lemma lookup_update p q c s :
  lookup p (update q c s) = if path_eqb q p then Some c else lookup p s.
Proof.
  induction s as [|[r d] s IH]; simpl.
  - reflexivity.
  - destruct (path_eqb r q) eqn:E; simpl.
    + apply path_eqb_eq in E. subst. destruct (path_eqb q p); reflexivity.
    + rewrite IH. destruct (path_eqb r p) eqn:E2; [|reflexivity].
      apply path_eqb_eq in E2. subst. rewrite path_eqb_sym, E. reflexivity.
Qed.

Lemma dir_last_gen ws : forall s d p,
  run dir_write s ws = Some d ->
  lookup p d = match last_write p ws with Some c => Some c | None => lookup p s end.
Proof.
  induction ws as [|[q c] t IH]; intros s d p H; simpl in H.
  - injection H as <-. reflexivity.
  - destruct (is_dir q s); [discriminate|]. destruct (parent_is_file q s); [discriminate|].
    rewrite (IH _ _ p H). simpl. destruct (last_write p t); [reflexivity|].
    rewrite lookup_update. destruct (path_eqb q p); reflexivity.
Qed.

Theorem dir_last_wins : forall ws d p,
  run_dir ws = Some d ->
  lookup p d = last_write p ws.
Proof.
  intros ws d p H. rewrite (dir_last_gen ws [] d p H). now destruct (last_write p ws).
Qed.

Theorem zip_first_dir_last : forall ws z d p,
  run_zip ws = Some z -> run_dir ws = Some d ->
  lookup p z = first_write p ws /\ lookup p d = last_write p ws.
Proof.
  intros ws z d p Hz Hd. split; [exact (zip_first_wins ws z p Hz)|exact (dir_last_wins ws d p Hd)].
Qed.

(** ---- refutation when a path repeats, and the asymmetry of the error cases -- *)
Open Scope string_scope.
Example repeat_differs :
  let ws := [(["S"; "__init__.py"], 1%N); (["S"; "__init__.py"], 2%N)] in
  run_dir ws = Some [(["S"; "__init__.py"], 2%N)] /\
  run_zip ws = Some [(["S"; "__init__.py"], 1%N)].
Proof. split; reflexivity. Qed.

Example file_as_parent_differs :
  let ws := [(["a"], 1%N); (["a"; "b"], 2%N)] in
  run_dir ws = None /\ run_zip ws = Some ws.
Proof. split; reflexivity. Qed.

Example dir_as_file_both_fail :
  let ws := [(["a"; "b"], 1%N); (["a"], 2%N)] in
  run_dir ws = None /\ run_zip ws = None.
Proof. split; reflexivity. Qed.

(** hypotheses of [zip_dir_total] are satisfiable on a realistic layout *)
Example total_nontrivial :
  let ws := [(["_system.json"], 1%N); (["__init__.py"], 2%N); (["A"; "__init__.py"], 3%N);
             (["A"; "B"; "__init__.py"], 4%N); (["A"; "B"; "_data"; "foo"], 5%N); (["_data"; "data.pickle"], 6%N)] in
  NoDup (map fst ws) /\ prefix_freeb (map fst ws) = true /\ run_dir ws = Some ws /\ run_zip ws = Some ws.
Proof.
  simpl. repeat split; try reflexivity.
  repeat (constructor; [simpl; intuition discriminate|]). constructor.
Qed.

(** the boolean checks used by the correspondence are sound *)
Lemma nodup_pathsb_sound ps : nodup_pathsb ps = true -> NoDup ps.
Proof.
  induction ps as [|p t IH]; simpl; intros H; [constructor|].
  apply andb_true_iff in H as [H1 H2]. constructor; [|auto].
  intros Hin. apply negb_true_iff in H1.
  assert (existsb (path_eqb p) t = true).
  { apply existsb_exists. exists p. split; [exact Hin|apply path_eqb_refl]. }
  congruence.
Qed.

Lemma prefix_freeb_sound ps : prefix_freeb ps = true -> prefix_free ps.
Proof.
  unfold prefix_freeb, prefix_free. intros H p q Hp Hq.
  rewrite forallb_forall in H. specialize (H p Hp). rewrite forallb_forall in H.
  specialize (H q Hq). now apply negb_true_iff in H.
Qed.
