(** Statement-level codec of serializer_6: which abstract statement the writer
    emits for which construct ([ModelEncoder.encode], [SpaceEncoder.encode],
    [CellsEncoder.encode], [RefViewEncoder.encode] and the reference encoders,
    serializer_6.py:420-813) and how the reader's [ParserSelector] rules
    (serializer_6.py:993-1513) turn them back into a description.
    Definitions only; proofs are in [CodecProofs.v].

    Abstracted away (identifiers supplied by the harness, see DESIGN 6/C04):
    formula source text (a formula id), numeric literals (a value id), pickled
    payloads; documentation strings are the strings Python's parser yields
    (the text level is [Serial/Lexer.v]).  The IDEAL codec is modelled: the
    cached flag after a lambda cells is applied (D8), the reference mode is
    carried by object references only (D33).  The reader's instruction phases
    are not modelled: [decode] rebuilds the description, not the Defs state. *)
From Coq Require Import List String Ascii NArith Bool.
From MX Require Import Base.Paths.
Import ListNotations.
Open Scope string_scope.
Open Scope list_scope.

(** ---- the description of a model (what [describe] in the harness returns) -- *)
Inductive litv := LNone | LBool (b : bool) | LStr (s : string) | LNum (id : N).

Inductive refvalD :=
| VLit (v : litv)
| VObj (target : list string) (mode : string)   (* absolute id tuple, model name first *)
| VModule (n : string)
| VPickle.

Record refD := mkRef { r_name : string; r_val : refvalD }.

Record cellsD := mkCells {
  c_name : string;
  c_lambda : bool;                (* formula.source starts with "lambda" *)
  c_formula : N;
  c_allow_none : option bool;
  c_cached : bool;
  c_doc : option string           (* lambda cells only; a def carries it in its source *)
}.

Inductive spaceD :=
| SpaceD (name : string) (doc : option string)
         (formula : option (bool * N))          (* (is lambda, formula id) *)
         (bases : list (list string))           (* absolute dotted names as component lists *)
         (allow_none : option bool)
         (cells : list cellsD) (refs : list refD) (children : list spaceD).

Record modelD := mkModel {
  m_name : string; m_doc : option string; m_allow_none : bool;
  m_refs : list refD; m_spaces : list spaceD }.

Definition space_name (s : spaceD) : string := match s with SpaceD n _ _ _ _ _ _ _ => n end.

(** ---- abstract statements of a written __init__.py ----------------------- *)
Inductive section := DEFAULT | CELLSDEFS | REFDEFS.

Inductive aval :=
| ANone | ABool (b : bool) | AStr (s : string) | AStrList (l : list string)
| ALambda (f : N) | ANum (id : N)
| AIface (dots : nat) (names : list string) (mode : string)
| AModule (n : string) | APickle.

Inductive stmt :=
| StExpr (s : string)                  (* expression statement: a string constant *)
| StImport                             (* from modelx.serialize.jsonvalues import * *)
| StAssign (target : string) (v : aval)
| StDef (name : string) (f : N).

Definition line : Type := section * stmt.

Inductive ftree := FT (name : string) (lines : list line) (children : list ftree).
Definition ft_name (t : ftree) : string := match t with FT n _ _ => n end.

(** ---- encoder -------------------------------------------------------------- *)
Definition starts_underscore (s : string) : bool :=
  match s with String c _ => Ascii.eqb c "_"%char | EmptyString => false end.

Definition enc_optbool (o : option bool) : aval :=
  match o with None => ANone | Some b => ABool b end.

Definition enc_doc (d : option string) : list line :=
  match d with Some s => [(DEFAULT, StExpr s)] | None => [] end.

(** [CellsEncoder.encode] *)
Definition enc_cells (c : cellsD) : list line :=
  (if c_lambda c
   then (CELLSDEFS, StAssign (c_name c) (ALambda (c_formula c)))
        :: match c_doc c with Some d => [(CELLSDEFS, StExpr d)] | None => [] end
   else [(CELLSDEFS, StDef (c_name c) (c_formula c))])
  ++ match c_allow_none c with Some b => [(CELLSDEFS, StAssign "_allow_none" (ABool b))] | None => [] end
  ++ (if c_cached c then [] else [(CELLSDEFS, StAssign "_is_cached" (ABool false))]).

(** the reference encoders; [owner] is the id tuple of the owning space / model *)
Definition enc_refval (owner : list string) (v : refvalD) : aval :=
  match v with
  | VLit LNone => ANone
  | VLit (LBool b) => ABool b
  | VLit (LStr s) => AStr s
  | VLit (LNum i) => ANum i
  | VObj tg mode => let r := abs_to_rel_tuple tg owner in AIface (fst r) (snd r) mode
  | VModule n => AModule n
  | VPickle => APickle
  end.

Definition enc_ref (owner : list string) (r : refD) : line :=
  (REFDEFS, StAssign (r_name r) (enc_refval owner (r_val r))).

Definition visible_names (l : list string) : list string :=
  filter (fun n => negb (starts_underscore n)) l.

(** [SpaceEncoder.encode]; [parent] = id tuple of the parent (model name first) *)
Definition enc_space_lines (parent : list string) (s : spaceD) : list line :=
  match s with
  | SpaceD name doc formula bases allow cells refs children =>
      enc_doc doc
      ++ [(DEFAULT, StImport)]
      ++ [match formula with
          | None => (DEFAULT, StAssign "_formula" ANone)
          | Some (true, f) => (DEFAULT, StAssign "_formula" (ALambda f))
          | Some (false, f) => (DEFAULT, StDef "_formula" f)
          end]
      ++ [(DEFAULT, StAssign "_bases"
                      (AStrList (map (fun b => abs_to_rel (join_dot b) (join_dot parent)) bases)))]
      ++ [(DEFAULT, StAssign "_allow_none" (enc_optbool allow))]
      ++ [(DEFAULT, StAssign "_spaces" (AStrList (visible_names (map space_name children))))]
      ++ flat_map enc_cells cells
      ++ map (enc_ref (parent ++ [name])) refs
  end.

Fixpoint enc_space (parent : list string) (s : spaceD) : ftree :=
  match s with
  | SpaceD name doc formula bases allow cells refs children =>
      FT name (enc_space_lines parent s) (map (enc_space (parent ++ [name])) children)
  end.

(** [ModelEncoder.encode] + the tree of space files *)
Definition enc_model_lines (m : modelD) : list line :=
  enc_doc (m_doc m)
  ++ [(DEFAULT, StImport)]
  ++ [(DEFAULT, StAssign "_name" (AStr (m_name m)))]
  ++ [(DEFAULT, StAssign "_allow_none" (ABool (m_allow_none m)))]
  ++ [(DEFAULT, StAssign "_spaces" (AStrList (visible_names (map space_name (m_spaces m)))))]
  ++ map (enc_ref [m_name m]) (m_refs m).

Definition encode (m : modelD) : list line * list ftree :=
  (enc_model_lines m, map (enc_space [m_name m]) (m_spaces m)).

(** ---- decoder: ParserSelector rules --------------------------------------- *)
Record pstate := mkP {
  p_doc : option string; p_name : option string;
  p_formula : option (bool * N); p_bases : list string;
  p_allow : option bool; p_spaces : list string;
  p_cells : list cellsD; p_refs : list refD }.

Definition p0 : pstate := mkP None None None [] None [] [] [].

Definition is_prop_target (t : string) : bool :=
  String.eqb t "_allow_none" || String.eqb t "_is_cached".

(** look-ahead of [LambdaAssignParser] / [CellsFuncDefParser]: scan the
    statements that follow a cells definition (sections are NOT consulted) *)
Fixpoint peek (lam : bool) (rest : list line) (c : cellsD) : cellsD :=
  match rest with
  | (_, StExpr d) :: t =>
      if lam then peek lam t (mkCells (c_name c) (c_lambda c) (c_formula c) (c_allow_none c) (c_cached c) (Some d))
      else c
  | (_, StAssign tg v) :: t =>
      if String.eqb tg "_allow_none" then
        match v with
        | ABool b => peek lam t (mkCells (c_name c) (c_lambda c) (c_formula c) (Some b) (c_cached c) (c_doc c))
        | ANone => peek lam t (mkCells (c_name c) (c_lambda c) (c_formula c) None (c_cached c) (c_doc c))
        | _ => c
        end
      else if String.eqb tg "_is_cached" then
        match v with
        | ABool b => peek lam t (mkCells (c_name c) (c_lambda c) (c_formula c) (c_allow_none c) b (c_doc c))
        | _ => c
        end
      else c
  | _ => c
  end.

Definition dec_refval (is_model : bool) (owner : list string) (v : aval) : option refvalD :=
  match v with
  | ANone => Some (VLit LNone)
  | ABool b => Some (VLit (LBool b))
  | AStr s => Some (VLit (LStr s))
  | ANum i => Some (VLit (LNum i))
  | AIface d names mode =>
      Some (VObj (rel_to_abs_tuple (d, names) owner) (if is_model then "None" else mode))
  | AModule n => Some (VModule n)
  | APickle => Some VPickle
  | AStrList _ | ALambda _ => None
  end.

Definition opt_of_aval (v : aval) : option (option bool) :=
  match v with ANone => Some None | ABool b => Some (Some b) | _ => None end.

(** [AttrAssignParser.get_instruction]; in the Cells section the two cells
    properties are left to the look-ahead of the cells parsers *)
Definition attr_assign (in_default : bool) (parent : list string)
           (tg : string) (v : aval) (st : pstate) : option pstate :=
  if String.eqb tg "_formula" then
    match v with
    | ANone => Some (mkP (p_doc st) (p_name st) None (p_bases st) (p_allow st) (p_spaces st) (p_cells st) (p_refs st))
    | ALambda f => Some (mkP (p_doc st) (p_name st) (Some (true, f)) (p_bases st) (p_allow st) (p_spaces st) (p_cells st) (p_refs st))
    | _ => None
    end
  else if String.eqb tg "_bases" then
    match v with
    | AStrList bs => Some (mkP (p_doc st) (p_name st) (p_formula st)
                              (map (fun b => rel_to_abs b (join_dot parent)) bs)
                              (p_allow st) (p_spaces st) (p_cells st) (p_refs st))
    | _ => None
    end
  else if String.eqb tg "_spaces" then
    match v with
    | AStrList ns => Some (mkP (p_doc st) (p_name st) (p_formula st) (p_bases st) (p_allow st) ns (p_cells st) (p_refs st))
    | _ => None
    end
  else if String.eqb tg "_allow_none" then
    if in_default then
      match opt_of_aval v with
      | Some a => Some (mkP (p_doc st) (p_name st) (p_formula st) (p_bases st) a (p_spaces st) (p_cells st) (p_refs st))
      | None => None
      end
    else Some st
  else if String.eqb tg "_is_cached" then Some st     (* spaces have no such property setter effect here *)
  else None.

(** one statement; [None] = the reader raises *)
Definition step (is_model : bool) (parent owner : list string)
           (l : line) (rest : list line) (st : pstate) : option pstate :=
  match l with
  | (sec, StExpr d) =>                                   (* DocstringParser *)
      match sec with
      | DEFAULT => Some (mkP (Some d) (p_name st) (p_formula st) (p_bases st) (p_allow st) (p_spaces st) (p_cells st) (p_refs st))
      | _ => Some st
      end
  | (_, StImport) => Some st                             (* ImportFromParser *)
  | (sec, StAssign tg v) =>
      if String.eqb tg "_name" then                      (* RenameParser, any section *)
        match v with
        | AStr n => Some (mkP (p_doc st) (Some n) (p_formula st) (p_bases st) (p_allow st) (p_spaces st) (p_cells st) (p_refs st))
        | _ => None
        end
      else match sec with
      | CELLSDEFS =>
          if negb (starts_underscore tg) then            (* LambdaAssignParser *)
            match v with
            | ALambda f =>
                let c := peek true rest (mkCells tg true f None true None) in
                Some (mkP (p_doc st) (p_name st) (p_formula st) (p_bases st) (p_allow st) (p_spaces st) (p_cells st ++ [c]) (p_refs st))
            | _ => None
            end
          else attr_assign false parent tg v st          (* AttrAssignParser *)
      | DEFAULT => attr_assign true parent tg v st       (* AttrAssignParser *)
      | REFDEFS =>                                       (* RefAssignParser *)
          match dec_refval is_model owner v with
          | Some rv => Some (mkP (p_doc st) (p_name st) (p_formula st) (p_bases st) (p_allow st) (p_spaces st) (p_cells st) (p_refs st ++ [mkRef tg rv]))
          | None => None
          end
      end
  | (_, StDef n f) =>
      if String.eqb n "_formula" then                    (* SpaceFuncDefParser *)
        Some (mkP (p_doc st) (p_name st) (Some (false, f)) (p_bases st) (p_allow st) (p_spaces st) (p_cells st) (p_refs st))
      else                                               (* CellsFuncDefParser *)
        let c := peek false rest (mkCells n false f None true None) in
        Some (mkP (p_doc st) (p_name st) (p_formula st) (p_bases st) (p_allow st) (p_spaces st) (p_cells st ++ [c]) (p_refs st))
  end.

Fixpoint parse (is_model : bool) (parent owner : list string) (ls : list line) (st : pstate) : option pstate :=
  match ls with
  | [] => Some st
  | l :: rest =>
      match step is_model parent owner l rest st with
      | Some st' => parse is_model parent owner rest st'
      | None => None
      end
  end.

Fixpoint lookup_tree {A} (n : string) (l : list (string * A)) : option A :=
  match l with
  | [] => None
  | (k, v) :: t => if String.eqb k n then Some v else lookup_tree n t
  end.

Fixpoint all_some {A} (l : list (option A)) : option (list A) :=
  match l with
  | [] => Some []
  | Some x :: t => match all_some t with Some r => Some (x :: r) | None => None end
  | None :: _ => None
  end.

(** [parse_dir]: the children listed in [_spaces] are read from the sub-directories *)
Fixpoint dec_space (parent : list string) (t : ftree) : option spaceD :=
  match t with
  | FT name lines ch =>
      match parse false parent (parent ++ [name]) lines p0 with
      | None => None
      | Some st =>
          let decoded := map (fun c => (ft_name c, dec_space (parent ++ [name]) c)) ch in
          match all_some (map (fun n => match lookup_tree n decoded with
                                        | Some (Some s) => Some s
                                        | _ => None
                                        end) (p_spaces st)) with
          | Some children =>
              Some (SpaceD name (p_doc st) (p_formula st) (map split_dot (p_bases st)) (p_allow st)
                           (p_cells st) (p_refs st) children)
          | None => None
          end
      end
  end.

(** the model's name: the [_name] statement (RenameParser runs at parse time) *)
Fixpoint find_name (ls : list line) : option string :=
  match ls with
  | [] => None
  | (_, StAssign tg (AStr n)) :: t => if String.eqb tg "_name" then Some n else find_name t
  | _ :: t => find_name t
  end.

Definition decode (f : list line * list ftree) : option modelD :=
  let (lines, trees) := f in
  match find_name lines with
  | None => None
  | Some name =>
      (* references of the model are relative to the model's own id tuple *)
      match parse true [] [name] lines p0 with
      | None => None
      | Some st =>
          let decoded := map (fun c => (ft_name c, dec_space [name] c)) trees in
          match all_some (map (fun n => match lookup_tree n decoded with
                                        | Some (Some s) => Some s
                                        | _ => None
                                        end) (p_spaces st)) with
          | Some children =>
              match p_allow st with
              | Some a => Some (mkModel name (p_doc st) a (p_refs st) children)
              | None => None
              end
          | None => None
          end
      end
  end.

(** ---- well-formed descriptions ------------------------------------------- *)
Definition plain_name (n : string) : bool := okname n && negb (starts_underscore n).

Definition wf_ref (r : refD) : bool := negb (starts_underscore (r_name r)).

Definition wf_cells (c : cellsD) : bool :=
  negb (starts_underscore (c_name c))
  && (c_lambda c || match c_doc c with None => true | Some _ => false end).

Fixpoint nodup_namesb (l : list string) : bool :=
  match l with
  | [] => true
  | x :: t => negb (existsb (String.eqb x) t) && nodup_namesb t
  end.

Fixpoint wf_space (s : spaceD) : bool :=
  match s with
  | SpaceD name doc formula bases allow cells refs children =>
      plain_name name
      && forallb (fun b => match b with [] => false | _ => forallb okname b end) bases
      && forallb wf_cells cells && forallb wf_ref refs
      && nodup_namesb (map space_name children)
      && forallb wf_space children
  end.

Definition wf_model (m : modelD) : bool :=
  forallb wf_ref (m_refs m)
  && forallb (fun r => match r_val r with VObj _ mode => String.eqb mode "None" | _ => true end) (m_refs m)
  && nodup_namesb (map space_name (m_spaces m))
  && forallb wf_space (m_spaces m).

(** ---- equality tests for the correspondence ------------------------------- *)
Definition lstr_eqb' (a b : list string) : bool :=
  (fix go a b := match a, b with
                 | [], [] => true
                 | x :: a', y :: b' => String.eqb x y && go a' b'
                 | _, _ => false
                 end) a b.

Definition section_eqb (a b : section) : bool :=
  match a, b with DEFAULT, DEFAULT | CELLSDEFS, CELLSDEFS | REFDEFS, REFDEFS => true | _, _ => false end.

Definition aval_eqb (a b : aval) : bool :=
  match a, b with
  | ANone, ANone => true
  | ABool x, ABool y => Bool.eqb x y
  | AStr x, AStr y => String.eqb x y
  | AStrList x, AStrList y => lstr_eqb' x y
  | ALambda x, ALambda y => N.eqb x y
  | ANum x, ANum y => N.eqb x y
  | AIface d n m, AIface d' n' m' => Nat.eqb d d' && lstr_eqb' n n' && String.eqb m m'
  | AModule x, AModule y => String.eqb x y
  | APickle, APickle => true
  | _, _ => false
  end.

Definition stmt_eqb (a b : stmt) : bool :=
  match a, b with
  | StExpr x, StExpr y => String.eqb x y
  | StImport, StImport => true
  | StAssign t v, StAssign t' v' => String.eqb t t' && aval_eqb v v'
  | StDef n f, StDef n' f' => String.eqb n n' && N.eqb f f'
  | _, _ => false
  end.

Fixpoint lines_eqb (a b : list line) : bool :=
  match a, b with
  | [], [] => true
  | (s, x) :: a', (s', y) :: b' => section_eqb s s' && stmt_eqb x y && lines_eqb a' b'
  | _, _ => false
  end.

Fixpoint ftree_eqb (a b : ftree) : bool :=
  match a, b with
  | FT n l ch, FT n' l' ch' =>
      String.eqb n n' && lines_eqb l l'
      && (fix go (x y : list ftree) : bool :=
            match x, y with
            | [], [] => true
            | c :: x', d :: y' => ftree_eqb c d && go x' y'
            | _, _ => false
            end) ch ch'
  end.

Fixpoint ftrees_eqb (x y : list ftree) : bool :=
  match x, y with
  | [], [] => true
  | c :: x', d :: y' => ftree_eqb c d && ftrees_eqb x' y'
  | _, _ => false
  end.

Definition is_some {A} (o : option A) : bool := match o with Some _ => true | None => false end.

(** one generated case: the description of the model and the files the real
    writer produced for it (as abstract statements).  Checks: the description is
    well formed, the model's encoder emits exactly those files, and the model's
    decoder, run on the REAL files, re-encodes to the same files. *)
Definition check_codec (c : modelD * (list line * list ftree)) : bool :=
  let (d, files) := c in
  wf_model d
  && lines_eqb (fst (encode d)) (fst files) && ftrees_eqb (snd (encode d)) (snd files)
  && match decode files with
     | Some d' => lines_eqb (fst (encode d')) (fst files) && ftrees_eqb (snd (encode d')) (snd files)
     | None => false
     end.
