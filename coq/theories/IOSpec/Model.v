(** IOSpec book-keeping of modelx (ideal model, see harness/README.md).

    Code modelled (pinned tree):
      io/baseio.py      IOManager.{ios,_get_io,_new_io,_del_io,get_or_create_io,new_spec,add_spec,
                        del_spec,get_spec_from_value,update_spec_value,update_spec,update_path,_check_sanity},
                        BaseSharedIO.{_specs,_can_add_spec,_check_sanity}, BaseIOSpec._check_sanity
      io/pandasio.py    PandasData.{_can_add_other,_can_update_other,_init_spec,_can_update_value,_on_update_value,sheet}
      io/moduleio.py    ModuleData.{_can_add_other,_on_load_value,_can_update_value}
      core/model.py     ReferenceManager (1848-1996): _valid_to_refs, new_ref, del_ref, change_ref,
                        del_all_spec, update_value, specs, get_spec, _check_sanity;
                        ModelImpl.{set_attr,del_attr,_check_sanity}; SpaceManager.{new_ref,change_ref,del_ref};
                        SpaceGraph.get_mro; SpaceUpdater.{add_bases,remove_bases}
      core/parent.py    EditableParentImpl.{new_pandas,new_module} (912-948)
      core/space.py     UserSpaceImpl.{set_attr,del_attr,del_ref,on_inherit}
      core/model.py     ModelImpl.del_attr, SpaceUpdater.del_defined_space, ReferenceManager.forget_ref
                        (deleting a top-level space)
      core/system.py    System.{close_model,_check_sanity}

    Abstractions (all exercised by the tie):
      - names, space names, paths, sheets, values (object identities) and models are numbers ([N]);
        a name is a valid identifier iff it is below [bad_name_from];
      - value kinds (DataFrame/Series, module, other) are carried by the operation;
      - derived references are not stored: they are recomputed from the inheritance graph and the
        defined references ([visible_ref]); the implementation keeps them incrementally, and they are
        not entered in [_valid_to_refs] (model.py:1886-1898 registers the defined reference only);
      - model-level and space-level name pools are disjoint in the generated histories, so the
        interplay of global references with space namespaces is not modelled;
      - every ReferenceImpl object gets a fresh id [r_id] (the table is keyed by object identity).

    IDEAL behaviour where the pinned tree is defective (generators avoid the triggers, witnesses are
    stored in corpus/C18; see harness/props/C18.py):
      dup        new_pandas/new_module of a value that already has a spec in the model: rejected here;
                 the code registers a second spec (D26)
      rebind_same  [x = v] where [x] is the only reference of spec'd [v]: spec survives here;
                 the code deletes the spec (change_ref removes before it adds)
      update_bound update_pandas(old,new) with [new] already referenced: rejected here; the code
                 overwrites the table entry of [new]
      scalar     new_pandas onto a cells name: rejected here; on a scalar cells the code stored the
                 value in the cells and leaked the spec (repaired; scalar and non-scalar cells are
                 generated, both are [NewCells] here: a creation onto either is rejected)
      sheet_none spec.sheet = None in an excel file shared with other specs: rejected here; accepted by the code
      delspace   deleting a space forgets its defined references and, with the last reference of a
                 value, its spec ([del_space]); the code kept both (repaired)
      emptysheet the sheet name '' is the default sheet, like no sheet name: the emitter maps it to
                 [None] in operations and observations; the code accepted it next to a named sheet (repaired)
    Further recorded defects concern operations outside this vocabulary (absolute
    paths, reading back overridden references): see findings.d/C18.txt.
    Operations on a closed model are rejected here; the code keeps a closed model fully operational
    (never generated). *)
From Coq Require Import List NArith Bool Arith.
Import ListNotations.
Open Scope N_scope.

Inductive res (A : Type) : Type := Ok (a : A) | Err | OutOfFuel.
Arguments Ok {A} a.
Arguments Err {A}.
Arguments OutOfFuel {A}.

Definition bind {A B} (r : res A) (f : A -> res B) : res B :=
  match r with Ok a => f a | Err => Err | OutOfFuel => OutOfFuel end.

Fixpoint map_res {A B} (f : A -> res B) (l : list A) : res (list B) :=
  match l with
  | [] => Ok []
  | x :: t => bind (f x) (fun y => bind (map_res f t) (fun r => Ok (y :: r)))
  end.

(** * identities *)
Definition owner := (N * option N)%type.       (* (model, None) | (model, Some space) *)
Definition key := (N * N)%type.

Definition optN_eqb (a b : option N) : bool :=
  match a, b with
  | None, None => true
  | Some x, Some y => N.eqb x y
  | _, _ => false
  end.
Definition owner_eqb (a b : owner) : bool := N.eqb (fst a) (fst b) && optN_eqb (snd a) (snd b).
Definition key_eqb (a b : key) : bool := N.eqb (fst a) (fst b) && N.eqb (snd a) (snd b).
Definition memN (x : N) (l : list N) : bool := existsb (N.eqb x) l.

Definition bad_name_from : N := 1000.
Definition valid_name (n : N) : bool := N.ltb n bad_name_from.   (* util.is_valid_name *)

Inductive kind := KCsv | KExcel | KModule | KBad.
Inductive ftype := FCsv | FExcel | FBad.
Inductive vkind := VPandas | VModule | VPlain.

Definition kind_of_ft (f : ftype) : kind :=
  match f with FCsv => KCsv | FExcel => KExcel | FBad => KBad end.

Record ref := mkRef { r_id : N; r_own : owner; r_name : N; r_val : N }.
(** A spec together with the shared io object it is registered in: IOManager.ios maps
    (group, path) to a BaseSharedIO ([s_io] is its identity, [s_kind] its class / file_type) whose
    [_specs] holds the spec.  A shared io exists between operations only while it holds a spec
    (del_spec calls _del_io on the last one), so the two-level dict is kept flat. *)
Record spec := mkSpec { s_id : N; s_io : N; s_grp : N; s_path : N; s_kind : kind;
                        s_sheet : option N; s_val : N }.

Record state := mkState {
  st_refs : list ref;                       (* defined references (model level and spaces) *)
  st_tab : list (key * list N);             (* ReferenceManager._valid_to_refs, per model: (m, value) -> ref ids *)
  st_specs : list spec;                     (* IOManager.ios : (group, path) -> shared io -> specs *)
  st_spaces : list key;                     (* (model, space) *)
  st_bases : list (key * list N);           (* (model, space) -> ordered direct bases *)
  st_cells : list (key * N);                (* ((model, space), name): defined cells, scalar or not *)
  st_closed : list N;
  st_next : N }.

Definition init : state := mkState [] [] [] [] [] [] [] 0.

Definition with_rtsn (st : state) rs tb sp nx : state :=
  mkState rs tb sp (st_spaces st) (st_bases st) (st_cells st) (st_closed st) nx.
Definition with_specs (st : state) sp : state :=
  with_rtsn st (st_refs st) (st_tab st) sp (st_next st).
Definition with_graph (st : state) sp bs cl : state :=
  mkState (st_refs st) (st_tab st) (st_specs st) sp bs cl (st_closed st) (st_next st).

(** * the table: a Python dict as an association list *)
Fixpoint tget (k : key) (t : list (key * list N)) : option (list N) :=
  match t with
  | [] => None
  | (k', l) :: r => if key_eqb k k' then Some l else tget k r
  end.
Fixpoint tset (k : key) (l : list N) (t : list (key * list N)) : list (key * list N) :=
  match t with
  | [] => [(k, l)]
  | (k', l') :: r => if key_eqb k k' then (k, l) :: r else (k', l') :: tset k l r
  end.
Definition tdel (k : key) (t : list (key * list N)) : list (key * list N) :=
  filter (fun e => negb (key_eqb k (fst e))) t.
Definition lookup (k : key) (t : list (key * list N)) : list N :=
  match tget k t with Some l => l | None => [] end.

Fixpoint remove1 (x : N) (l : list N) : list N :=      (* list.remove: first occurrence *)
  match l with
  | [] => []
  | y :: t => if N.eqb x y then t else y :: remove1 x t
  end.

(** [refs.remove(ref); if not refs: del table[key]] *)
Definition tab_remove (k : key) (rid : N) (t : list (key * list N)) : list (key * list N) :=
  match tget k t with
  | None => t
  | Some l => match remove1 rid l with
              | [] => tdel k t
              | l' => tset k l' t
              end
  end.
(** [table.setdefault(key, []).append(ref)] *)
Definition tab_add (k : key) (rid : N) (t : list (key * list N)) : list (key * list N) :=
  tset k (lookup k t ++ [rid]) t.

(** * references *)
Definition find_ref (o : owner) (n : N) (rs : list ref) : option ref :=
  find (fun r => owner_eqb (r_own r) o && N.eqb (r_name r) n) rs.
Definition ref_by_id (rid : N) (rs : list ref) : option ref :=
  find (fun r => N.eqb (r_id r) rid) rs.
Definition drop_ref (rid : N) (rs : list ref) : list ref :=
  filter (fun r => negb (N.eqb (r_id r) rid)) rs.

(** * the IO manager *)
Definition same_file (m p : N) (s : spec) : bool := N.eqb (s_grp s) m && N.eqb (s_path s) p.
(** IOManager._get_io: the shared io registered under (group, path), seen through one of its specs *)
Definition find_io (m p : N) (sp : list spec) : option spec := find (same_file m p) sp.

(** get_spec_from_value: first spec of the group whose value is [v] *)
Definition get_spec (m v : N) (sp : list spec) : option spec :=
  find (fun s => N.eqb (s_grp s) m && N.eqb (s_val s) v) sp.

(** IOManager.del_spec (+ _del_io when the shared io becomes empty) *)
Definition del_spec (sid : N) (sp : list spec) : list spec :=
  filter (fun s => negb (N.eqb (s_id s) sid)) sp.

(** PandasData._can_add_other / ModuleData._can_add_other *)
Definition can_add_other (k : kind) (c other : spec) : bool :=
  match k with
  | KExcel => match s_sheet c, s_sheet other with
              | Some a, Some b => negb (N.eqb a b)
              | _, _ => false
              end
  | _ => false
  end.
(** BaseSharedIO._can_add_spec: all specs already in the shared io must agree *)
Definition can_add_spec (s : spec) (sp : list spec) : bool :=
  forallb (fun c => can_add_other (s_kind s) c s) (filter (same_file (s_grp s) (s_path s)) sp).

(** [_on_load_value] of a new spec on a shared io of kind [k] *)
Definition load_ok_pandas (k : kind) (vk : vkind) : bool :=
  match k, vk with
  | KCsv, VPandas => true
  | KExcel, VPandas => true
  | _, _ => false
  end.

(** IOManager.new_spec for a spec with value [v], sheet [sh]; [want] is the io kind requested by the caller
    (ignored when (group, path) is registered already: get_or_create_io), [loads k] says whether
    _on_load_value succeeds on an io of kind [k].  When it raises, the [except:] branch removes the
    shared io again if it holds no spec (i.e. if it was created by this call): nothing is left.
    Returns the new state and the id of the new spec (None: raised). *)
Definition new_spec (st : state) (m p : N) (want : kind) (loads : kind -> bool) (sh : option N) (v : N)
  : state * option N :=
  let nx := st_next st in
  let '(ioid, k, nx1) :=
    match find_io m p (st_specs st) with
    | Some c => (s_io c, s_kind c, nx)
    | None => (nx, want, nx + 1)
    end in
  let s := mkSpec nx1 ioid m p k sh v in
  if loads k && can_add_spec s (st_specs st)
  then (with_rtsn st (st_refs st) (st_tab st) (st_specs st ++ [s]) (nx1 + 1), Some nx1)
  else (with_rtsn st (st_refs st) (st_tab st) (st_specs st) (nx1 + 1), None).

(** * inheritance: ordered bases, C3 linearisation (SpaceGraph.get_mro) *)
Definition bases_of (g : list (key * list N)) (m s : N) : list N :=
  match find (fun e => key_eqb (fst e) (m, s)) g with
  | Some e => snd e
  | None => []
  end.
Fixpoint gset (k : key) (l : list N) (g : list (key * list N)) : list (key * list N) :=
  match g with
  | [] => [(k, l)]
  | (k', l') :: r => if key_eqb k k' then (k, l) :: r else (k', l') :: gset k l r
  end.

Definition is_nil {A} (l : list A) : bool := match l with [] => true | _ => false end.

Fixpoint find_cand (heads : list (list N)) (all : list (list N)) : option N :=
  match heads with
  | [] => None
  | [] :: t => find_cand t all
  | (c :: _) :: t => if existsb (fun s => memN c (tl s)) all then find_cand t all else Some c
  end.

Fixpoint merge (fuel : nat) (seqs : list (list N)) : res (list N) :=
  match fuel with
  | O => OutOfFuel
  | S f =>
      match filter (fun s => negb (is_nil s)) seqs with
      | [] => Ok []
      | ne => match find_cand ne ne with
              | None => Err                                  (* inconsistent hierarchy *)
              | Some c =>
                  bind (merge f (map (fun s => match s with
                                               | h :: t => if N.eqb h c then t else s
                                               | [] => []
                                               end) ne))
                       (fun r => Ok (c :: r))
              end
      end
  end.

Fixpoint mro (fuel : nat) (g : list (key * list N)) (m s : N) : res (list N) :=
  match fuel with
  | O => OutOfFuel
  | S f =>
      let bs := bases_of g m s in
      bind (map_res (mro f g m) bs) (fun seqs =>
      bind (merge (S (List.length (concat (seqs ++ [bs])))) (seqs ++ [bs])) (fun r => Ok (s :: r)))
  end.

(** all ancestors (with repetitions), the space itself first *)
Fixpoint anc (fuel : nat) (g : list (key * list N)) (m s : N) : res (list N) :=
  match fuel with
  | O => OutOfFuel
  | S f => bind (map_res (anc f g m) (bases_of g m s)) (fun ls => Ok (s :: concat ls))
  end.

Definition spaces_of (st : state) (m : N) : list N :=
  map snd (filter (fun k => N.eqb (fst k) m) (st_spaces st)).
Definition is_space (st : state) (m s : N) : bool := existsb (key_eqb (m, s)) (st_spaces st).

(** strict descendants of [s] in graph [g] *)
Definition descendants (fuel : nat) (st : state) (g : list (key * list N)) (m s : N) : res (list N) :=
  bind (map_res (fun t => bind (anc fuel g m t) (fun a => Ok (t, a))) (spaces_of st m)) (fun l =>
  Ok (map fst (filter (fun ta => negb (N.eqb (fst ta) s) && memN s (snd ta)) l))).

(** names along a linearisation *)
Definition defines_ref (st : state) (m b n : N) : bool :=
  match find_ref (m, Some b) n (st_refs st) with Some _ => true | None => false end.
Definition defines_cells (st : state) (m b n : N) : bool :=
  existsb (fun c => key_eqb (fst c) (m, b) && N.eqb (snd c) n) (st_cells st).

Fixpoint first_definer (st : state) (m n : N) (l : list N) : option ref :=
  match l with
  | [] => None
  | b :: t => match find_ref (m, Some b) n (st_refs st) with
              | Some r => Some r
              | None => first_definer st m n t
              end
  end.

(** the reference [n] visible in space (m,s): Some (value, derived?) *)
Definition visible_ref (fuel : nat) (st : state) (m s n : N) : res (option (N * bool)) :=
  bind (mro fuel (st_bases st) m s) (fun l =>
  match first_definer st m n l with
  | Some r => Ok (Some (r_val r, negb (optN_eqb (snd (r_own r)) (Some s))))
  | None => Ok None
  end).

Definition has_cells (fuel : nat) (st : state) (g : list (key * list N)) (m s n : N) : res bool :=
  bind (mro fuel g m s) (fun l => Ok (existsb (fun b => defines_cells st m b n) l)).
Definition has_ref (fuel : nat) (st : state) (g : list (key * list N)) (m s n : N) : res bool :=
  bind (mro fuel g m s) (fun l => Ok (existsb (fun b => defines_ref st m b n) l)).
Definition has_name (fuel : nat) (st : state) (g : list (key * list N)) (m s n : N) : res bool :=
  bind (has_cells fuel st g m s n) (fun a => bind (has_ref fuel st g m s n) (fun b => Ok (a || b))).

Fixpoint any_res {A} (f : A -> res bool) (l : list A) : res bool :=
  match l with
  | [] => Ok false
  | x :: t => bind (f x) (fun b => if b then Ok true else any_res f t)
  end.

(** * ReferenceManager *)

(** delete the spec of (m, v) when no reference to [v] is left in the table *)
Definition gc (m v : N) (tb : list (key * list N)) (sp : list spec) : list spec :=
  match tget (m, v) tb with
  | Some _ => sp
  | None => match get_spec m v sp with
            | Some s => del_spec (s_id s) sp
            | None => sp
            end
  end.

(** ReferenceManager.new_ref (after the name checks of the caller) *)
Definition rm_new_ref (st : state) (o : owner) (n v : N) : state :=
  let nx := st_next st in
  with_rtsn st (st_refs st ++ [mkRef nx o n v])
                         (tab_add (fst o, v) nx (st_tab st)) (st_specs st) (nx + 1).

(** ReferenceManager.change_ref; [prev] is the defined reference being replaced, or None when the
    visible reference is a derived one with value [pv] *)
Definition rm_change_ref (st : state) (o : owner) (n v : N) (prev : option ref) (pv : N) : state :=
  let nx := st_next st in
  let m := fst o in
  let rs1 := match prev with Some r => drop_ref (r_id r) (st_refs st) | None => st_refs st end in
  let tb1 := match prev with Some r => tab_remove (m, pv) (r_id r) (st_tab st) | None => st_tab st end in
  let tb2 := tab_add (m, v) nx tb1 in
  with_rtsn st (rs1 ++ [mkRef nx o n v]) tb2 (gc m pv tb2 (st_specs st)) (nx + 1).

(** ReferenceManager.del_ref of a defined reference *)
Definition rm_del_ref (st : state) (r : ref) : state :=
  let m := fst (r_own r) in
  let tb := tab_remove (m, r_val r) (r_id r) (st_tab st) in
  with_rtsn st (drop_ref (r_id r) (st_refs st)) tb (gc m (r_val r) tb (st_specs st)) (st_next st).

Definition is_closed (st : state) (m : N) : bool := memN m (st_closed st).

(** set_attr: UserSpaceImpl.set_attr (space.py:1737) / ModelImpl.set_attr (model.py:977) *)
Definition set_attr (fuel : nat) (st : state) (o : owner) (n v : N) : res state :=
  let m := fst o in
  match snd o with
  | None =>
      if is_space st m n then Err                                     (* KeyError *)
      else match find_ref o n (st_refs st) with
           | Some r => Ok (rm_change_ref st o n v (Some r) (r_val r))
           | None => Ok (rm_new_ref st o n v)
           end
  | Some s =>
      if negb (valid_name n) then Err                                 (* ValueError *)
      else if negb (is_space st m s) then Err
      else match find_ref o n (st_refs st) with
           | Some r => Ok (rm_change_ref st o n v (Some r) (r_val r))
           | None =>
               bind (mro fuel (st_bases st) m s) (fun l =>
               match first_definer st m n l with
               | Some b => Ok (rm_change_ref st o n v None (r_val b))  (* derived reference overridden *)
               | None =>
                   if existsb (fun b => defines_cells st m b n) l then Err      (* AttributeError: cells *)
                   else
                     (* SpaceManager.new_ref: no sub space may have the name *)
                     bind (descendants fuel st (st_bases st) m s) (fun ds =>
                     bind (any_res (fun d => has_name fuel st (st_bases st) m d n) ds) (fun clash =>
                     if clash then Err else Ok (rm_new_ref st o n v)))
               end)
           end
  end.

Inductive op :=
| NewSpace (m s : N)
| NewCells (m s n : N)
| NewPandas (o : owner) (n p : N) (ft : ftype) (sh : option N) (v : N) (vk : vkind)
| NewModule (o : owner) (n p : N) (v : N) (src_ok : bool)
| Assign (o : owner) (n v : N)
| DelRef (o : owner) (n : N)
| Update (m old new : N) (vk : vkind)
| AddBase (m s b : N)
| RemoveBase (m s b : N)
| Close (m : N)
| SetSheet (m v : N) (sh : option N)       (* model.get_spec(value).sheet = sh *)
| SetPath (m v p : N)                      (* model.get_spec(value).path = p : moves the whole shared file *)
| DelSpec (m v : N)                        (* model.del_spec(value) *)
| DelSpace (m s : N).                      (* del model.<space s> *)

Inductive outcome := ROk | RErr | RFuel.

Definition finish (st : state) (r : res state) : state * outcome :=
  match r with
  | Ok st' => (st', ROk)
  | Err => (st, RErr)
  | OutOfFuel => (st, RFuel)
  end.

(** EditableParentImpl.new_pandas / new_module: new_spec, then set_attr; if set_attr fails the spec
    is deleted again (parent.py:922-926, 942-946) *)
Definition create (fuel : nat) (st : state) (o : owner) (n p : N) (want : kind) (loads : kind -> bool)
           (sh : option N) (v : N) : state * outcome :=
  let m := fst o in
  if is_closed st m then (st, RErr)
  else if match get_spec m v (st_specs st) with Some _ => true | None => false end
       then (st, RErr)                       (* ideal: a value has at most one spec (finding dup) *)
  else
  match new_spec st m p want loads sh v with
  | (st1, None) => (st1, RErr)
  | (st1, Some sid) =>
      match set_attr fuel st1 o n v with
      | Ok st2 => (st2, ROk)
      | Err => (with_specs st1 (del_spec sid (st_specs st1)), RErr)
      | OutOfFuel => (with_specs st1 (del_spec sid (st_specs st1)), RFuel)
      end
  end.

Definition accepts (k : kind) (vk : vkind) : bool :=
  match k, vk with
  | KCsv, VPandas => true
  | KExcel, VPandas => true
  | KModule, VModule => true
  | _, _ => false
  end.

Definition set_spec_val (sid v : N) (sp : list spec) : list spec :=
  map (fun s => if N.eqb (s_id s) sid
                then mkSpec (s_id s) (s_io s) (s_grp s) (s_path s) (s_kind s) (s_sheet s) v else s) sp.

(** the [while refs: ref = refs.pop(); change_ref; newrefs.append] loop of update_value *)
Fixpoint rebind (rids : list N) (v : N) (rs : list ref) (nx : N) : list ref * list N * N :=
  match rids with
  | [] => (rs, [], nx)
  | rid :: t =>
      match ref_by_id rid rs with
      | Some r => let '(rs', ids, nx') := rebind t v (drop_ref rid rs ++ [mkRef nx (r_own r) (r_name r) v]) (nx + 1) in
                  (rs', nx :: ids, nx')
      | None => rebind t v rs nx
      end
  end.

(** ReferenceManager.update_value (update_pandas / update_module) *)
Definition update (st : state) (m old new : N) (vk : vkind) : res state :=
  if is_closed st m then Err else
  match tget (m, old) (st_tab st) with
  | None => Err                                                     (* value not referenced *)
  | Some l =>
      if negb (N.eqb old new) && match tget (m, new) (st_tab st) with Some _ => true | None => false end
      then Err                                                      (* ideal (finding update_bound) *)
      else
      let sp_r :=
        match get_spec m old (st_specs st) with
        | None => Ok (st_specs st)
        | Some s => if accepts (s_kind s) vk then Ok (set_spec_val (s_id s) new (st_specs st)) else Err
        end in
      bind sp_r (fun sp' =>
      let '(rs', ids, nx') := rebind (rev l) new (st_refs st) (st_next st) in
      Ok (with_rtsn st rs' (tset (m, new) ids (tdel (m, old) (st_tab st))) sp' nx'))
  end.

(** ReferenceManager.del_all_spec: the specs reachable through the table, deleted from the last *)
Definition all_specs_of (m : N) (tb : list (key * list N)) (sp : list spec) : list N :=
  flat_map (fun e => if N.eqb (fst (fst e)) m
                     then match get_spec m (snd (fst e)) sp with Some s => [s_id s] | None => [] end
                     else []) tb.
Definition close (st : state) (m : N) : res state :=
  if is_closed st m then Err
  else let sids := all_specs_of m (st_tab st) (st_specs st) in
       Ok (mkState (st_refs st) (st_tab st) (fold_left (fun sp sid => del_spec sid sp) (rev sids) (st_specs st))
                   (st_spaces st) (st_bases st) (st_cells st) (m :: st_closed st) (st_next st)).

(** PandasData.sheet setter: IOManager.update_spec, BaseSharedIO._can_update_spec,
    PandasData._can_update_other ([other is self or sheet != self._sheet]).
    Ideal: in a file shared with other specs the new sheet must be a name (the code also accepts None,
    which _can_add_other would have refused; recorded as finding sheet_none). *)
Definition can_update_other (c s : spec) (sh : option N) : bool :=
  N.eqb (s_id c) (s_id s) || negb (optN_eqb sh (s_sheet c)).
Definition with_sheet (s : spec) (sh : option N) : spec :=
  mkSpec (s_id s) (s_io s) (s_grp s) (s_path s) (s_kind s) sh (s_val s).
Definition with_path (s : spec) (p : N) : spec :=
  mkSpec (s_id s) (s_io s) (s_grp s) p (s_kind s) (s_sheet s) (s_val s).

Definition set_sheet (st : state) (m v : N) (sh : option N) : res state :=
  if is_closed st m then Err else
  match get_spec m v (st_specs st) with
  | None => Err                                                     (* spec not found *)
  | Some s =>
      match s_kind s with
      | KModule => Err                        (* ModuleData has no sheet property: outside the vocabulary *)
      | _ =>
        let file := filter (same_file (s_grp s) (s_path s)) (st_specs st) in
        let shared := existsb (fun c => negb (N.eqb (s_id c) (s_id s))) file in
        if shared && match sh with None => true | Some _ => false end then Err      (* ideal *)
        else if forallb (fun c => can_update_other c s sh) file
        then Ok (with_specs st (map (fun c => if N.eqb (s_id c) (s_id s) then with_sheet c sh else c) (st_specs st)))
        else Err                                                    (* cannot change spec *)
      end
  end.

(** BaseIOSpec.path setter: IOManager.update_path moves the shared io (with all its specs) to a free key *)
Definition set_path (st : state) (m v p : N) : res state :=
  if is_closed st m then Err else
  match get_spec m v (st_specs st) with
  | None => Err
  | Some s =>
      if N.eqb p (s_path s) then Ok st
      else if existsb (same_file (s_grp s) p) (st_specs st) then Err        (* cannot change path *)
      else Ok (with_specs st (map (fun c => if same_file (s_grp s) (s_path s) c then with_path c p else c) (st_specs st)))
  end.

(** Model.del_spec *)
Definition del_spec_op (st : state) (m v : N) : res state :=
  if is_closed st m then Err else
  match get_spec m v (st_specs st) with
  | None => Err
  | Some s => Ok (with_specs st (del_spec (s_id s) (st_specs st)))
  end.

(** del_attr *)
Definition del_attr (fuel : nat) (st : state) (o : owner) (n : N) : res state :=
  if is_closed st (fst o) then Err else
  match find_ref o n (st_refs st) with
  | Some r => Ok (rm_del_ref st r)
  | None => Err      (* derived (ValueError after re-derivation), cells (outside the vocabulary), unknown (KeyError) *)
  end.

(** * deleting a top-level space: ModelImpl.del_attr -> SpaceUpdater.del_defined_space.
    The defined references of the space are forgotten one by one exactly as ReferenceManager.del_ref
    does ([rm_del_ref]: out of the table, and the spec of a value goes with its last reference);
    the space, its cells and its inheritance edges disappear, so the references the sub spaces
    derived from it disappear with it ([visible_ref] is recomputed from the graph).
    Every former sub space must still have a linearisation. *)
Definition in_space (m s : N) (r : ref) : bool := owner_eqb (r_own r) (m, Some s).

Definition drop_space_graph (m s : N) (g : list (key * list N)) : list (key * list N) :=
  map (fun e => if N.eqb (fst (fst e)) m
                then (fst e, filter (fun x => negb (N.eqb x s)) (snd e)) else e)
      (filter (fun e => negb (key_eqb (fst e) (m, s))) g).

Definition del_space (fuel : nat) (st : state) (m s : N) : res state :=
  bind (descendants fuel st (st_bases st) m s) (fun ds =>
  let g := drop_space_graph m s (st_bases st) in
  bind (map_res (mro fuel g m) ds) (fun _ =>
  let st1 := fold_left rm_del_ref (filter (in_space m s) (st_refs st)) st in
  Ok (with_graph st1 (filter (fun k => negb (key_eqb k (m, s))) (st_spaces st)) g
                 (filter (fun c => negb (key_eqb (fst c) (m, s))) (st_cells st))))).

(** [del model.name]: the space of that name, else the global reference of that name *)
Definition del_model_attr (fuel : nat) (st : state) (m n : N) : res state :=
  if is_closed st m then Err
  else if is_space st m n then del_space fuel st m n
  else del_attr fuel st (m, None) n.

(** names of cells / references along the linearisation must stay disjoint (ideal; D13) *)
Definition names_of_refs (st : state) (m : N) (l : list N) : list N :=
  map r_name (filter (fun r => match snd (r_own r) with
                               | Some b => N.eqb (fst (r_own r)) m && memN b l
                               | None => false end) (st_refs st)).
Definition conflict (st : state) (m : N) (l : list N) : bool :=
  existsb (fun n => existsb (fun b => defines_cells st m b n) l) (names_of_refs st m l).

Definition graph_ok (fuel : nat) (st : state) (g : list (key * list N)) (m s : N) : res bool :=
  bind (descendants fuel st g m s) (fun ds =>
  bind (map_res (mro fuel g m) (s :: ds)) (fun ls => Ok (negb (existsb (conflict st m) ls)))).

Definition add_base (fuel : nat) (st : state) (m s b : N) : res state :=
  if is_closed st m then Err
  else if negb (is_space st m s && is_space st m b) then Err
  else
    bind (anc fuel (st_bases st) m b) (fun ab =>
    if memN s ab then Err                                           (* cyclic inheritance *)
    else
      let old := bases_of (st_bases st) m s in
      let g := gset (m, s) (filter (fun x => negb (N.eqb x b)) old ++ [b]) (st_bases st) in
      match graph_ok fuel st g m s with
      | Ok true => Ok (with_graph st (st_spaces st) g (st_cells st))
      | Ok false => Err
      | Err => Err                                                  (* no C3 linearisation *)
      | OutOfFuel => OutOfFuel
      end).

Definition remove_base (fuel : nat) (st : state) (m s b : N) : res state :=
  if is_closed st m then Err
  else if negb (is_space st m s && is_space st m b) then Err
  else
    let old := bases_of (st_bases st) m s in
    if negb (memN b old) then Err
    else
      let g := gset (m, s) (filter (fun x => negb (N.eqb x b)) old) (st_bases st) in
      match graph_ok fuel st g m s with
      | Ok true => Ok (with_graph st (st_spaces st) g (st_cells st))
      | Ok false => Err
      | Err => Err
      | OutOfFuel => OutOfFuel
      end.

Definition new_space (st : state) (m s : N) : res state :=
  if is_closed st m then Err
  else if is_space st m s then Err
  else match find_ref (m, None) s (st_refs st) with
       | Some _ => Err
       | None => Ok (with_graph st (st_spaces st ++ [(m, s)]) (st_bases st) (st_cells st))
       end.

Definition new_cells (fuel : nat) (st : state) (m s n : N) : res state :=
  if is_closed st m then Err
  else if negb (is_space st m s) || negb (valid_name n) then Err
  else
    (* SpaceManager._can_add: the name must be free in the space itself; a sub space may have it
       as a cells (which then overrides the new one) but not as a reference *)
    bind (has_name fuel st (st_bases st) m s n) (fun here =>
    bind (descendants fuel st (st_bases st) m s) (fun ds =>
    bind (any_res (fun d => has_ref fuel st (st_bases st) m d n) ds) (fun clash =>
    if here || clash then Err
    else Ok (with_graph st (st_spaces st) (st_bases st) (st_cells st ++ [((m, s), n)]))))).

Definition step (fuel : nat) (st : state) (o : op) : state * outcome :=
  match o with
  | NewSpace m s => finish st (new_space st m s)
  | NewCells m s n => finish st (new_cells fuel st m s n)
  | NewPandas ow n p ft sh v vk =>
      create fuel st ow n p (kind_of_ft ft) (fun k => load_ok_pandas k vk) sh v
  | NewModule ow n p v src_ok =>
      (* on an existing io _load_module either works (ModuleIO: add_spec then refuses) or raises (PandasIO) *)
      create fuel st ow n p KModule (fun k => match k with KModule => src_ok | _ => false end) None v
  | Assign ow n v => if is_closed st (fst ow) then (st, RErr) else finish st (set_attr fuel st ow n v)
  | DelRef ow n => finish st (match snd ow with
                              | None => del_model_attr fuel st (fst ow) n
                              | Some _ => del_attr fuel st ow n
                              end)
  | Update m old new vk => finish st (update st m old new vk)
  | AddBase m s b => finish st (add_base fuel st m s b)
  | RemoveBase m s b => finish st (remove_base fuel st m s b)
  | Close m => finish st (close st m)
  | SetSheet m v sh => finish st (set_sheet st m v sh)
  | SetPath m v p => finish st (set_path st m v p)
  | DelSpec m v => finish st (del_spec_op st m v)
  | DelSpace m s => finish st (del_model_attr fuel st m s)
  end.

Definition run (fuel : nat) (ops : list op) : state :=
  fold_left (fun st o => fst (step fuel st o)) ops init.

(** * vocabulary of the C18 statements *)
Definition rmodel (r : ref) : N := fst (r_own r).

(** some (defined) reference of model [m] is bound to value [v] *)
Definition bound (st : state) (m v : N) : Prop :=
  exists r, In r (st_refs st) /\ rmodel r = m /\ r_val r = v.

(** the file location a spec claims: (model, path) and, in an excel file, the sheet *)
Definition location (s : spec) : N * N * option N :=
  (s_grp s, s_path s, match s_kind s with KExcel => s_sheet s | _ => None end).

(** the creating operations: owner, name, value *)
Definition creation (o : op) : option (owner * N * N) :=
  match o with
  | NewPandas ow n _ _ _ v _ => Some (ow, n, v)
  | NewModule ow n _ v _ => Some (ow, n, v)
  | _ => None
  end.

(** the spec an operation deletes on request (Model.del_spec) *)
Definition explicit (o : op) : option key :=
  match o with DelSpec m v => Some (m, v) | _ => None end.

(** equal up to the counter of fresh object identities *)
Definition same_but_next (a b : state) : Prop :=
  st_refs a = st_refs b /\ st_tab a = st_tab b /\ st_specs a = st_specs b /\ st_spaces a = st_spaces b /\
  st_bases a = st_bases b /\ st_cells a = st_cells b /\ st_closed a = st_closed b.

(** * observables *)
Definition spec_view := (N * N * kind * option N * N)%type.    (* model, path, kind, sheet, value *)
Definition view (s : spec) : spec_view := (s_grp s, s_path s, s_kind s, s_sheet s, s_val s).
(** what the IO manager holds *)
Definition obs_specs (st : state) : list spec_view := map view (st_specs st).
(** Model.iospecs = ReferenceManager.specs: through the table *)
Definition api_specs (st : state) : list spec :=
  flat_map (fun e => match get_spec (fst (fst e)) (snd (fst e)) (st_specs st) with
                     | Some s => [s] | None => [] end) (st_tab st).
Definition obs_api (st : state) : list spec_view := map view (api_specs st).

Definition ref_view := (N * option N * N * N * bool)%type.     (* model, space, name, value, derived *)

Fixpoint own_refs_along (st : state) (m s : N) (seen : list N) (l : list N) : list ref_view :=
  match l with
  | [] => []
  | b :: t =>
      let here := filter (fun r => owner_eqb (r_own r) (m, Some b) && negb (memN (r_name r) seen)) (st_refs st) in
      map (fun r => (m, Some s, r_name r, r_val r, negb (N.eqb b s))) here
      ++ own_refs_along st m s (seen ++ map r_name here) t
  end.

Definition obs_refs (fuel : nat) (st : state) : res (list ref_view) :=
  let glob := map (fun r => (fst (r_own r), None, r_name r, r_val r, false))
                  (filter (fun r => match snd (r_own r) with None => negb (is_closed st (fst (r_own r))) | Some _ => false end)
                          (st_refs st)) in
  bind (map_res (fun k => if is_closed st (fst k) then Ok []
                          else bind (mro fuel (st_bases st) (fst k) (snd k))
                                    (fun l => Ok (own_refs_along st (fst k) (snd k) [] l)))
                (st_spaces st)) (fun ls => Ok (glob ++ concat ls)).

(** the modelled _check_sanity assertions:
    IOManager / BiDict: one shared io object per key (group, path) and one key per shared io object
    (len(ios) == len(set(id(v))), io.path == key[1], spec.io is the io that holds it);
    ModelImpl: the value of every global reference is a key of _valid_to_refs;
    ReferenceManager: every table entry resolves to live references whose value is the key (the code
    asserts [r.interface is spec.value] for the spec found through that value; the model states the
    stronger "the entry is keyed by the value of its references"). *)
Definition check_sanity (st : state) : bool :=
  forallb (fun s => forallb (fun s' => Bool.eqb (same_file (s_grp s) (s_path s) s') (N.eqb (s_io s) (s_io s')))
                            (st_specs st)) (st_specs st)
  && forallb (fun r => match snd (r_own r) with
                       | None => match tget (fst (r_own r), r_val r) (st_tab st) with Some _ => true | None => false end
                       | Some _ => true
                       end) (st_refs st)
  && forallb (fun e => forallb (fun rid => match ref_by_id rid (st_refs st) with
                                           | Some r => N.eqb (r_val r) (snd (fst e)) && N.eqb (fst (r_own r)) (fst (fst e))
                                           | None => false
                                           end) (lookup (fst e) (st_tab st))) (st_tab st).

(** * comparison with the implementation (used by the generated case files) *)
Definition kind_eqb (a b : kind) : bool :=
  match a, b with KCsv, KCsv | KExcel, KExcel | KModule, KModule | KBad, KBad => true | _, _ => false end.
Definition sv_eqb (a b : spec_view) : bool :=
  match a, b with (m, p, k, sh, v), (m', p', k', sh', v') =>
    N.eqb m m' && N.eqb p p' && kind_eqb k k' && optN_eqb sh sh' && N.eqb v v' end.
Definition rv_eqb (a b : ref_view) : bool :=
  match a, b with (m, s, n, v, d), (m', s', n', v', d') =>
    N.eqb m m' && optN_eqb s s' && N.eqb n n' && N.eqb v v' && Bool.eqb d d' end.

Definition count {A} (eqb : A -> A -> bool) (x : A) (l : list A) : nat := List.length (filter (eqb x) l).
Definition bag_eqb {A} (eqb : A -> A -> bool) (a b : list A) : bool :=
  Nat.eqb (List.length a) (List.length b)
  && forallb (fun x => Nat.eqb (count eqb x a) (count eqb x b)) a.

Definition out_eqb (a b : outcome) : bool :=
  match a, b with ROk, ROk | RErr, RErr | RFuel, RFuel => true | _, _ => false end.

(** one observation of the implementation after an operation *)
Record obs := mkObs { ob_out : outcome; ob_mgr : list spec_view; ob_api : list spec_view;
                      ob_getspec : list key; ob_refs : list ref_view; ob_sane : bool }.

Definition obs_ok (fuel : nat) (st : state) (r : outcome) (o : obs) : bool :=
  out_eqb r (ob_out o)
  && bag_eqb sv_eqb (obs_specs st) (ob_mgr o)
  && bag_eqb sv_eqb (obs_api st) (ob_api o)
  && bag_eqb key_eqb (map (fun v => match v with (m, _, _, _, x) => (m, x) end) (obs_specs st)) (ob_getspec o)
  && match obs_refs fuel st with Ok l => bag_eqb rv_eqb l (ob_refs o) | _ => false end
  && Bool.eqb (check_sanity st) (ob_sane o).

Fixpoint check_from (fuel : nat) (st : state) (l : list (op * obs)) : bool :=
  match l with
  | [] => true
  | (o, ob) :: t => let '(st', r) := step fuel st o in obs_ok fuel st' r ob && check_from fuel st' t
  end.
Definition check_case (l : list (op * obs)) : bool := check_from 20 init l.
