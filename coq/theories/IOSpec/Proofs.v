(** Invariants of the IOSpec book-keeping (IOSpec/Model.v) and their preservation by every operation. *)
From Coq Require Import List NArith Bool Arith Lia.
From MX Require Import IOSpec.Model.
Import ListNotations.
Open Scope N_scope.

(** * keys and the table *)
Lemma key_eqb_eq a b : key_eqb a b = true <-> a = b.
Proof.
  destruct a as [a1 a2], b as [b1 b2]; unfold key_eqb; simpl.
  rewrite andb_true_iff, !N.eqb_eq. split.
  - intros [H1 H2]; subst; reflexivity.
  - intros H; inversion H; auto.
Qed.
Lemma key_eqb_refl a : key_eqb a a = true.
Proof. apply key_eqb_eq; reflexivity. Qed.
Lemma key_eqb_neq a b : key_eqb a b = false <-> a <> b.
Proof.
  split.
  - intros H E. apply key_eqb_eq in E. congruence.
  - intros H. destruct (key_eqb a b) eqn:E; auto. apply key_eqb_eq in E. contradiction.
Qed.
Lemma key_dec (a b : key) : a = b \/ a <> b.
Proof. destruct (key_eqb a b) eqn:E; [left; apply key_eqb_eq | right; apply key_eqb_neq]; auto. Qed.

Lemma tget_tset_same k l t : tget k (tset k l t) = Some l.
Proof.
  induction t as [|[k' l'] t IH]; simpl.
  - rewrite key_eqb_refl; auto.
  - destruct (key_eqb k k') eqn:E; simpl.
    + rewrite key_eqb_refl; auto.
    + rewrite E; auto.
Qed.
Lemma tget_tset_other k k' l t : k <> k' -> tget k' (tset k l t) = tget k' t.
Proof.
  intros Hn. induction t as [|[k2 l2] t IH]; simpl.
  - destruct (key_eqb k' k) eqn:E; auto. apply key_eqb_eq in E. congruence.
  - destruct (key_eqb k k2) eqn:E; simpl.
    + apply key_eqb_eq in E; subst k2.
      destruct (key_eqb k' k) eqn:E2; auto. apply key_eqb_eq in E2. congruence.
    + destruct (key_eqb k' k2); auto.
Qed.
Lemma tget_tdel_same k t : tget k (tdel k t) = None.
Proof.
  induction t as [|[k2 l2] t IH]; simpl; auto.
  destruct (key_eqb k k2) eqn:E; simpl; auto. rewrite E; auto.
Qed.
Lemma tget_tdel_other k k' t : k <> k' -> tget k' (tdel k t) = tget k' t.
Proof.
  intros Hn. induction t as [|[k2 l2] t IH]; simpl; auto.
  destruct (key_eqb k k2) eqn:E; simpl.
  - apply key_eqb_eq in E; subst k2.
    destruct (key_eqb k' k) eqn:E2; auto. apply key_eqb_eq in E2. congruence.
  - destruct (key_eqb k' k2); auto.
Qed.
Lemma tget_in k l t : tget k t = Some l -> In (k, l) t.
Proof.
  induction t as [|[k2 l2] t IH]; simpl; [discriminate|].
  destruct (key_eqb k k2) eqn:E.
  - apply key_eqb_eq in E; subst. intros H; inversion H; auto.
  - auto.
Qed.
Lemma tget_lookup k l t : tget k t = Some l -> lookup k t = l.
Proof. unfold lookup; intros ->; auto. Qed.
Lemma lookup_none k t : tget k t = None -> lookup k t = [].
Proof. unfold lookup; intros ->; auto. Qed.

Lemma in_remove1_iff x y l : NoDup l -> (In y (remove1 x l) <-> In y l /\ y <> x).
Proof.
  induction l as [|a l IH]; simpl; intros Hnd.
  - tauto.
  - inversion Hnd as [|? ? Hna Hnd']; subst.
    destruct (N.eqb x a) eqn:E.
    + apply N.eqb_eq in E; subst a. split.
      * intros H. split; auto. intros ->. contradiction.
      * intros [[H|H] Hne]; [congruence|auto].
    + apply N.eqb_neq in E. simpl. rewrite IH by auto. split.
      * intros [H|[H1 H2]]; [subst; split; auto|tauto].
      * intros [[H|H] Hne]; auto.
Qed.
Lemma remove1_nodup x l : NoDup l -> NoDup (remove1 x l).
Proof.
  induction l as [|a l IH]; simpl; intros Hnd; auto.
  inversion Hnd as [|? ? Hna Hnd']; subst.
  destruct (N.eqb x a); auto. constructor; auto.
  intros H. apply in_remove1_iff in H; auto. tauto.
Qed.

Lemma tget_tab_add_same k x t : tget k (tab_add k x t) = Some (lookup k t ++ [x]).
Proof. unfold tab_add. apply tget_tset_same. Qed.
Lemma tget_tab_add_other k k' x t : k <> k' -> tget k' (tab_add k x t) = tget k' t.
Proof. unfold tab_add. apply tget_tset_other. Qed.
Lemma tget_tab_add_keeps k k' x t : tget k' t <> None -> tget k' (tab_add k x t) <> None.
Proof.
  intros H. destruct (key_dec k k') as [->|Hn].
  - rewrite tget_tab_add_same. discriminate.
  - rewrite tget_tab_add_other; auto.
Qed.
Lemma tget_tab_remove_other k k' x t : k <> k' -> tget k' (tab_remove k x t) = tget k' t.
Proof.
  intros Hn. unfold tab_remove. destruct (tget k t) as [l|]; auto.
  destruct (remove1 x l); [apply tget_tdel_other|apply tget_tset_other]; auto.
Qed.
Lemma tget_tab_remove_same k x t :
  tget k (tab_remove k x t) = match remove1 x (lookup k t) with [] => None | l => Some l end.
Proof.
  unfold tab_remove, lookup. destruct (tget k t) as [l|] eqn:E; simpl.
  - destruct (remove1 x l) eqn:R; [apply tget_tdel_same|apply tget_tset_same].
  - auto.
Qed.
Lemma lookup_tab_remove_same k x t : lookup k (tab_remove k x t) = remove1 x (lookup k t).
Proof.
  unfold lookup at 1. rewrite tget_tab_remove_same. destruct (remove1 x (lookup k t)); auto.
Qed.

(** * references and the table: [RT] *)

Record RT (rs : list ref) (tb : list (key * list N)) (nx : N) : Prop := {
  rt_lt : forall r, In r rs -> r_id r < nx;
  rt_nodup : NoDup (map r_id rs);
  rt_ne : forall k l, tget k tb = Some l -> l <> [] /\ NoDup l;
  rt_exact : forall m v rid, In rid (lookup (m, v) tb) <->
             exists r, In r rs /\ r_id r = rid /\ rmodel r = m /\ r_val r = v }.

Lemma RT_mono rs tb nx nx' : RT rs tb nx -> nx <= nx' -> RT rs tb nx'.
Proof.
  intros [H1 H2 H3 H4] Hle. constructor; auto.
  intros r Hr. specialize (H1 r Hr). lia.
Qed.

Lemma NoDup_map_inj {A} (f : A -> N) l x y :
  NoDup (map f l) -> In x l -> In y l -> f x = f y -> x = y.
Proof.
  induction l as [|a l IH]; simpl; intros Hnd Hx Hy Hf; [contradiction|].
  inversion Hnd as [|? ? Hna Hnd']; subst.
  destruct Hx as [->|Hx], Hy as [->|Hy]; auto.
  - exfalso. apply Hna. rewrite Hf. apply in_map; auto.
  - exfalso. apply Hna. rewrite <- Hf. apply in_map; auto.
Qed.
Lemma NoDup_map_filter {A} (f : A -> N) (p : A -> bool) l :
  NoDup (map f l) -> NoDup (map f (filter p l)).
Proof.
  induction l as [|a l IH]; simpl; intros Hnd; auto.
  inversion Hnd as [|? ? Hna Hnd']; subst.
  destruct (p a); simpl; auto. constructor; auto.
  intros H. apply Hna. apply in_map_iff in H. destruct H as [x [Hx Hin]].
  apply filter_In in Hin. rewrite <- Hx. apply in_map. tauto.
Qed.
Lemma NoDup_map_app_fresh {A} (f : A -> N) l x :
  NoDup (map f l) -> (forall y, In y l -> f y <> f x) -> NoDup (map f (l ++ [x])).
Proof.
  intros Hnd Hfr. rewrite map_app. simpl.
  induction l as [|a l IH]; simpl.
  - constructor; [simpl; tauto|constructor].
  - inversion Hnd as [|? ? Hna Hnd']; subst. constructor.
    + rewrite in_app_iff. intros [H|[H|[]]]; [contradiction|].
      apply (Hfr a); simpl; auto.
    + apply IH; auto. intros y Hy. apply Hfr. simpl; auto.
Qed.

Lemma in_drop_ref rid r rs : In r (drop_ref rid rs) <-> In r rs /\ r_id r <> rid.
Proof.
  unfold drop_ref. rewrite filter_In, negb_true_iff, N.eqb_neq. tauto.
Qed.

Lemma rt_add rs tb nx o n v :
  RT rs tb nx -> RT (rs ++ [mkRef nx o n v]) (tab_add (fst o, v) nx tb) (nx + 1).
Proof.
  intros [Hlt Hnd Hne Hex]. constructor.
  - intros r Hr. apply in_app_iff in Hr. destruct Hr as [Hr|[<-|[]]].
    + specialize (Hlt r Hr). lia.
    + simpl. lia.
  - apply NoDup_map_app_fresh; auto. intros y Hy. simpl. specialize (Hlt y Hy). lia.
  - intros k l Hk. destruct (key_dec (fst o, v) k) as [<-|Hn].
    + rewrite tget_tab_add_same in Hk. inversion Hk; subst l. split.
      * destruct (lookup (fst o, v) tb); discriminate.
      * assert (Hnd0 : NoDup (lookup (fst o, v) tb)).
        { unfold lookup. destruct (tget (fst o, v) tb) eqn:E; [apply (Hne _ _ E)|constructor]. }
        assert (Hni : ~ In nx (lookup (fst o, v) tb)).
        { intros Hi. apply Hex in Hi. destruct Hi as [r [Hr [Hid _]]]. specialize (Hlt r Hr). lia. }
        clear - Hnd0 Hni. induction (lookup (fst o, v) tb) as [|a l IH]; simpl.
        -- constructor; [simpl; tauto|constructor].
        -- inversion Hnd0; subst. constructor.
           ++ rewrite in_app_iff. simpl. intros [H|[H|[]]]; [contradiction|]. apply Hni. simpl; auto.
           ++ apply IH; auto. intros H. apply Hni. simpl; auto.
    + rewrite tget_tab_add_other in Hk; auto. apply (Hne _ _ Hk).
  - intros m v0 rid. destruct (key_dec (fst o, v) (m, v0)) as [E|Hn].
    + rewrite <- E. unfold lookup at 1. rewrite tget_tab_add_same. rewrite in_app_iff. simpl.
      inversion E; subst m v0. rewrite Hex. split.
      * intros [[r [Hr Hrest]]|[<-|[]]].
        -- exists r. split; [apply in_app_iff; auto|auto].
        -- exists (mkRef nx o n v). split; [apply in_app_iff; simpl; auto|]. simpl. auto.
      * intros [r [Hr [Hid [Hm Hv]]]]. apply in_app_iff in Hr. destruct Hr as [Hr|[<-|[]]].
        -- left. exists r; auto.
        -- right. left. auto.
    + unfold lookup at 1. rewrite tget_tab_add_other; auto. fold (lookup (m, v0) tb). rewrite Hex. split.
      * intros [r [Hr Hrest]]. exists r. split; [apply in_app_iff; auto|auto].
      * intros [r [Hr [Hid [Hm Hv]]]]. apply in_app_iff in Hr. destruct Hr as [Hr|[<-|[]]].
        -- exists r; auto.
        -- exfalso. apply Hn. simpl in Hm, Hv. unfold rmodel in Hm. simpl in Hm. congruence.
Qed.

Lemma rt_remove rs tb nx r :
  RT rs tb nx -> In r rs ->
  RT (drop_ref (r_id r) rs) (tab_remove (rmodel r, r_val r) (r_id r) tb) nx.
Proof.
  intros [Hlt Hnd Hne Hex] Hr. constructor.
  - intros r0 H0. apply in_drop_ref in H0. apply Hlt. tauto.
  - unfold drop_ref. apply NoDup_map_filter; auto.
  - intros k l Hk. destruct (key_dec (rmodel r, r_val r) k) as [<-|Hn].
    + rewrite tget_tab_remove_same in Hk.
      assert (Hnd0 : NoDup (lookup (rmodel r, r_val r) tb)).
      { unfold lookup. destruct (tget (rmodel r, r_val r) tb) eqn:E; [apply (Hne _ _ E)|constructor]. }
      destruct (remove1 (r_id r) (lookup (rmodel r, r_val r) tb)) eqn:R; [discriminate|].
      inversion Hk; subst l. split; [discriminate|]. rewrite <- R. apply remove1_nodup; auto.
    + rewrite tget_tab_remove_other in Hk; auto. apply (Hne _ _ Hk).
  - intros m v rid.
    assert (Hnd0 : NoDup (lookup (rmodel r, r_val r) tb)).
    { unfold lookup. destruct (tget (rmodel r, r_val r) tb) eqn:E; [apply (Hne _ _ E)|constructor]. }
    destruct (key_dec (rmodel r, r_val r) (m, v)) as [E|Hn].
    + rewrite <- E. rewrite lookup_tab_remove_same. rewrite in_remove1_iff; auto.
      inversion E; subst m v. rewrite Hex. split.
      * intros [[r0 [H0 [Hid Hrest]]] Hne0]. exists r0. split; auto. apply in_drop_ref. split; auto. congruence.
      * intros [r0 [H0 [Hid Hrest]]]. apply in_drop_ref in H0. split.
        -- exists r0. tauto.
        -- subst rid. tauto.
    + unfold lookup at 1. rewrite tget_tab_remove_other; auto. fold (lookup (m, v) tb). rewrite Hex. split.
      * intros [r0 [H0 [Hid [Hm Hv]]]]. exists r0. split; auto. apply in_drop_ref. split; auto.
        intros Heq. assert (r0 = r) by (eapply NoDup_map_inj; eauto). subst r0. apply Hn. congruence.
      * intros [r0 [H0 Hrest]]. apply in_drop_ref in H0. exists r0. tauto.
Qed.

(** * the specs: [SP] *)
Record SP (sp : list spec) (nx : N) : Prop := {
  sp_lt : forall s, In s sp -> s_id s < nx /\ s_io s < nx;
  sp_nodup : NoDup (map s_id sp);
  (** a value has at most one spec per model *)
  sp_uniq : forall s s', In s sp -> In s' sp -> s_grp s = s_grp s' -> s_val s = s_val s' -> s = s';
  (** two specs in one file: an excel file, with distinct non-empty sheets *)
  sp_loc : forall s s', In s sp -> In s' sp -> s_grp s = s_grp s' -> s_path s = s_path s' -> s <> s' ->
           s_kind s = KExcel /\ exists a b, s_sheet s = Some a /\ s_sheet s' = Some b /\ a <> b;
  (** one shared io object per (group, path), of one kind *)
  sp_io : forall s s', In s sp -> In s' sp ->
           ((s_grp s = s_grp s' /\ s_path s = s_path s') <-> s_io s = s_io s') /\
           (s_io s = s_io s' -> s_kind s = s_kind s') }.

Lemma SP_mono sp nx nx' : SP sp nx -> nx <= nx' -> SP sp nx'.
Proof.
  intros [H1 H2 H3 H4 H5] Hle. constructor; auto.
  intros s Hs. specialize (H1 s Hs). lia.
Qed.

Lemma SP_filter sp nx p : SP sp nx -> SP (filter p sp) nx.
Proof.
  intros [H1 H2 H3 H4 H5]. constructor.
  - intros s Hs. apply filter_In in Hs. apply H1; tauto.
  - apply NoDup_map_filter; auto.
  - intros s s' Hs Hs'. apply filter_In in Hs, Hs'. apply H3; tauto.
  - intros s s' Hs Hs'. apply filter_In in Hs, Hs'. apply H4; tauto.
  - intros s s' Hs Hs'. apply filter_In in Hs, Hs'. apply H5; tauto.
Qed.

Lemma in_del_spec sid s sp : In s (del_spec sid sp) <-> In s sp /\ s_id s <> sid.
Proof. unfold del_spec. rewrite filter_In, negb_true_iff, N.eqb_neq. tauto. Qed.

Lemma get_spec_some m v sp s : get_spec m v sp = Some s -> In s sp /\ s_grp s = m /\ s_val s = v.
Proof.
  unfold get_spec. intros H. apply find_some in H. destruct H as [Hin Hb].
  apply andb_true_iff in Hb. rewrite !N.eqb_eq in Hb. tauto.
Qed.
Lemma get_spec_none m v sp s : get_spec m v sp = None -> In s sp -> s_grp s = m -> s_val s = v -> False.
Proof.
  unfold get_spec. intros H Hin Hm Hv. pose proof (find_none _ _ H _ Hin) as Hb. simpl in Hb.
  subst. rewrite !N.eqb_refl in Hb. discriminate.
Qed.

(** * the whole invariant; [ex] is the spec being created (its reference is not bound yet) *)
Definition Live (ex : option N) (tb : list (key * list N)) (sp : list spec) : Prop :=
  forall s, In s sp -> Some (s_id s) <> ex -> tget (s_grp s, s_val s) tb <> None.
Definition NotClosed (cl : list N) (sp : list spec) : Prop :=
  forall s, In s sp -> ~ In (s_grp s) cl.

Record Inv' (ex : option N) (st : state) : Prop := {
  inv_rt : RT (st_refs st) (st_tab st) (st_next st);
  inv_sp : SP (st_specs st) (st_next st);
  inv_live : Live ex (st_tab st) (st_specs st);
  inv_closed : NotClosed (st_closed st) (st_specs st) }.
Definition Inv := Inv' None.

Lemma Inv_init : Inv init.
Proof.
  constructor; simpl.
  - constructor; simpl.
    + intros r [].
    + constructor.
    + intros k l H; discriminate.
    + intros m v rid. unfold lookup; simpl. split; [tauto|]. intros [r [[] _]].
  - constructor; simpl.
    + intros s [].
    + constructor.
    + intros s s' [].
    + intros s s' [].
    + intros s s' [].
  - intros s [].
  - intros s [].
Qed.

(** ** garbage collection of the spec of a value that lost its last reference *)
Lemma gc_cases m v tb sp :
  gc m v tb sp = sp \/
  (tget (m, v) tb = None /\ exists s0, get_spec m v sp = Some s0 /\ gc m v tb sp = del_spec (s_id s0) sp).
Proof.
  unfold gc. destruct (tget (m, v) tb); auto. destruct (get_spec m v sp) eqn:E; auto.
  right. split; auto. exists s; auto.
Qed.

Lemma gc_sub m v tb sp s : In s (gc m v tb sp) -> In s sp.
Proof.
  destruct (gc_cases m v tb sp) as [->|[_ [s0 [_ ->]]]]; auto.
  intros H. apply in_del_spec in H. tauto.
Qed.

Lemma SP_gc m v tb sp nx : SP sp nx -> SP (gc m v tb sp) nx.
Proof.
  intros H. destruct (gc_cases m v tb sp) as [->|[_ [s0 [_ ->]]]]; auto.
  apply SP_filter; auto.
Qed.

(** every old spec survives [gc] unless it is the spec of (m, v) and the table has no entry for (m, v) *)
Lemma gc_keeps m v tb sp nx s :
  SP sp nx -> In s sp -> In s (gc m v tb sp) \/ (tget (m, v) tb = None /\ s_grp s = m /\ s_val s = v).
Proof.
  intros HSP Hs. destruct (gc_cases m v tb sp) as [->|[Hn [s0 [Hg ->]]]]; auto.
  apply get_spec_some in Hg. destruct Hg as [H0 [Hm Hv]].
  destruct (N.eq_dec (s_id s) (s_id s0)) as [E|E].
  - right. assert (s = s0) by (eapply NoDup_map_inj; [apply (sp_nodup _ _ HSP)| | |]; eauto). subst. auto.
  - left. apply in_del_spec. auto.
Qed.

(** after [gc m v], liveness holds again if it held for every other key *)
Lemma gc_live ex m v tb sp nx :
  SP sp nx ->
  (forall s, In s sp -> Some (s_id s) <> ex -> (s_grp s, s_val s) <> (m, v) -> tget (s_grp s, s_val s) tb <> None) ->
  Live ex tb (gc m v tb sp).
Proof.
  intros HSP H s Hs Hex. pose proof (gc_sub _ _ _ _ _ Hs) as Hs0.
  destruct (key_dec (s_grp s, s_val s) (m, v)) as [E|Hn]; [|apply H; auto].
  rewrite E. intros Hnone.
  unfold gc in Hs. rewrite Hnone in Hs. inversion E; subst m v.
  destruct (get_spec (s_grp s) (s_val s) sp) as [s0|] eqn:G.
  - apply in_del_spec in Hs. destruct Hs as [_ Hne].
    apply get_spec_some in G. destruct G as [H0 [Hm Hv]].
    assert (s0 = s) by (eapply (sp_uniq _ _ HSP); eauto). subst. auto.
  - eapply get_spec_none; eauto.
Qed.

(** ** ReferenceManager.new_ref *)
Lemma rm_new_ref_inv ex st o n v :
  Inv' ex st -> Inv' ex (rm_new_ref st o n v) /\ tget (fst o, v) (st_tab (rm_new_ref st o n v)) <> None.
Proof.
  intros [Hrt Hsp Hlive Hcl]. split.
  - constructor; simpl.
    + apply rt_add; auto.
    + eapply SP_mono; eauto. lia.
    + intros s Hs Hex. apply tget_tab_add_keeps. apply Hlive; auto.
    + auto.
  - simpl. rewrite tget_tab_add_same. discriminate.
Qed.

(** ** ReferenceManager.change_ref *)
Lemma rm_change_ref_inv ex st o n v prev pv :
  Inv' ex st ->
  (forall r, prev = Some r -> In r (st_refs st) /\ rmodel r = fst o /\ r_val r = pv) ->
  Inv' ex (rm_change_ref st o n v prev pv) /\
  tget (fst o, v) (st_tab (rm_change_ref st o n v prev pv)) <> None.
Proof.
  intros [Hrt Hsp Hlive Hcl] Hprev.
  set (m := fst o).
  set (tb1 := match prev with Some r => tab_remove (m, pv) (r_id r) (st_tab st) | None => st_tab st end).
  set (rs1 := match prev with Some r => drop_ref (r_id r) (st_refs st) | None => st_refs st end).
  assert (Hrt1 : RT rs1 tb1 (st_next st)).
  { unfold rs1, tb1. destruct prev as [r|]; auto.
    destruct (Hprev r eq_refl) as [Hin [Hm Hv]]. unfold m. rewrite <- Hm, <- Hv. apply rt_remove; auto. }
  assert (Hk1 : forall k, k <> (m, pv) -> tget k tb1 = tget k (st_tab st)).
  { intros k Hk. unfold tb1. destruct prev; auto. apply tget_tab_remove_other. congruence. }
  split.
  - constructor; simpl; fold m; fold tb1; fold rs1.
    + apply rt_add; auto.
    + apply SP_gc. eapply SP_mono; eauto. lia.
    + eapply gc_live; eauto. intros s Hs Hex Hne.
      apply tget_tab_add_keeps. rewrite Hk1; auto.
    + intros s Hs. apply gc_sub in Hs. auto.
  - simpl. fold m. rewrite tget_tab_add_same. discriminate.
Qed.

(** ** ReferenceManager.del_ref *)
Lemma rm_del_ref_inv ex st r :
  Inv' ex st -> In r (st_refs st) -> Inv' ex (rm_del_ref st r).
Proof.
  intros [Hrt Hsp Hlive Hcl] Hr. constructor; simpl.
  - apply rt_remove; auto.
  - apply SP_gc; auto.
  - eapply gc_live; eauto. intros s Hs Hex Hne.
    rewrite tget_tab_remove_other; [apply Hlive; auto|].
    intros E. apply Hne. unfold rmodel in E. congruence.
  - intros s Hs. apply gc_sub in Hs. auto.
Qed.

(** ** set_attr *)
Lemma find_ref_some o n rs r : find_ref o n rs = Some r -> In r rs /\ rmodel r = fst o /\ r_name r = n.
Proof.
  unfold find_ref. intros H. apply find_some in H. destruct H as [Hin Hb].
  apply andb_true_iff in Hb. destruct Hb as [Ho Hn]. apply N.eqb_eq in Hn.
  unfold owner_eqb in Ho. apply andb_true_iff in Ho. destruct Ho as [Ho _]. apply N.eqb_eq in Ho.
  unfold rmodel. auto.
Qed.

Lemma set_attr_cases fuel st o n v st' :
  set_attr fuel st o n v = Ok st' ->
  st' = rm_new_ref st o n v \/
  (exists r, find_ref o n (st_refs st) = Some r /\ st' = rm_change_ref st o n v (Some r) (r_val r)) \/
  (exists pv, st' = rm_change_ref st o n v None pv).
Proof.
  unfold set_attr. destruct (snd o) as [s|].
  - destruct (negb (valid_name n)); [discriminate|].
    destruct (negb (is_space st (fst o) s)); [discriminate|].
    destruct (find_ref o n (st_refs st)) as [r|] eqn:F.
    + intros H; inversion H. right; left. exists r; auto.
    + destruct (mro fuel (st_bases st) (fst o) s) as [l| |]; simpl; try discriminate.
      destruct (first_definer st (fst o) n l) as [b|].
      * intros H; inversion H. right; right. eauto.
      * destruct (existsb _ l); [discriminate|].
        destruct (descendants fuel st (st_bases st) (fst o) s) as [ds| |]; simpl; try discriminate.
        destruct (any_res _ ds) as [[|]| |]; simpl; try discriminate.
        intros H; inversion H. auto.
  - destruct (is_space st (fst o) n); [discriminate|].
    destruct (find_ref o n (st_refs st)) as [r|] eqn:F.
    + intros H; inversion H. right; left. exists r; auto.
    + intros H; inversion H. auto.
Qed.

Lemma set_attr_inv ex fuel st o n v st' :
  set_attr fuel st o n v = Ok st' -> Inv' ex st ->
  Inv' ex st' /\ tget (fst o, v) (st_tab st') <> None.
Proof.
  intros H HI. apply set_attr_cases in H. destruct H as [->|[[r [F ->]]|[pv ->]]].
  - apply rm_new_ref_inv; auto.
  - apply rm_change_ref_inv; auto. intros r0 E. inversion E; subst r0.
    apply find_ref_some in F. tauto.
  - apply rm_change_ref_inv; auto. intros r0 E. discriminate.
Qed.
