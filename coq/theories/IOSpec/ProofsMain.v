(** The C18 statements over all operation sequences ([run fuel ops], any fuel, any list). *)
From Coq Require Import List NArith Bool Arith Lia.
From MX Require Import IOSpec.Model IOSpec.Proofs IOSpec.ProofsStep.
Import ListNotations.
Open Scope N_scope.

Lemma Inv_bound st m v : Inv st -> (bound st m v <-> tget (m, v) (st_tab st) <> None).
Proof.
  intros [Hrt _ _ _]. split.
  - intros [r [Hr [Hm Hv]]] Hn.
    assert (Hin : In (r_id r) (lookup (m, v) (st_tab st))) by (apply (rt_exact _ _ _ Hrt); exists r; auto).
    rewrite (lookup_none _ _ Hn) in Hin. contradiction.
  - intros Hn. destruct (tget (m, v) (st_tab st)) as [l|] eqn:TG; [|congruence].
    destruct (rt_ne _ _ _ Hrt _ _ TG) as [Hne _]. destruct l as [|rid l]; [congruence|].
    assert (Hin : In rid (lookup (m, v) (st_tab st))) by (rewrite (tget_lookup _ _ _ TG); simpl; auto).
    apply (rt_exact _ _ _ Hrt) in Hin. destruct Hin as [r [Hr [_ [Hm Hv]]]]. exists r; auto.
Qed.

(** ** C18_live: every spec held by the IO manager belongs to an open model and its value is bound by
    at least one reference of that model *)
Theorem live_spec_has_ref fuel ops s :
  In s (st_specs (run fuel ops)) ->
  ~ In (s_grp s) (st_closed (run fuel ops)) /\ bound (run fuel ops) (s_grp s) (s_val s).
Proof.
  intros Hs. pose proof (run_inv fuel ops) as HI. split.
  - apply (inv_closed _ _ HI); auto.
  - apply Inv_bound; auto. apply (inv_live _ _ HI); auto. discriminate.
Qed.

(** Model.iospecs (computed through the table of references) = the specs the IO manager holds *)
Theorem api_is_manager fuel ops s :
  In s (api_specs (run fuel ops)) <-> In s (st_specs (run fuel ops)).
Proof.
  pose proof (run_inv fuel ops) as HI. set (st := run fuel ops) in *. unfold api_specs. rewrite in_flat_map. split.
  - intros [e [_ Hin]]. destruct (get_spec _ _ _) as [s0|] eqn:G; [|contradiction].
    destruct Hin as [<-|[]]. apply get_spec_some in G. tauto.
  - intros Hs. pose proof (inv_live _ _ HI s Hs) as Hl.
    destruct (tget (s_grp s, s_val s) (st_tab st)) as [l|] eqn:TG.
    + exists ((s_grp s, s_val s), l). split; [apply tget_in; auto|]. simpl.
      destruct (get_spec (s_grp s) (s_val s) (st_specs st)) as [s0|] eqn:G.
      * apply get_spec_some in G. destruct G as [H0 [Hm Hv]].
        assert (s0 = s) by (eapply (sp_uniq _ _ (inv_sp _ _ HI)); eauto). subst. simpl; auto.
      * exfalso. eapply get_spec_none; eauto.
    + exfalso. apply Hl; auto. discriminate.
Qed.

(** ** a spec disappears in a step only if its model is closed, or no reference holds its value any
    more, or the step is Model.del_spec of that very value; update_pandas / update_module and the
    sheet / path setters keep the spec (same id) *)
Theorem spec_persists fuel ops o s :
  let st := run fuel ops in
  let st' := fst (step fuel st o) in
  In s (st_specs st) ->
  (exists s', In s' (st_specs st') /\ s_id s' = s_id s /\ s_grp s' = s_grp s)
  \/ In (s_grp s) (st_closed st')
  \/ ~ bound st' (s_grp s) (s_val s)
  \/ o = DelSpec (s_grp s) (s_val s).
Proof.
  intros st st' Hs. destruct (step_inv fuel st o (run_inv fuel ops)) as [HI' HK].
  destruct (HK s Hs) as [H|[H|[H|H]]]; auto.
  - right; right; left. intros Hb. apply (Inv_bound _ _ _ HI') in Hb. contradiction.
  - right; right; right. destruct o; simpl in H; try discriminate. inversion H; subst. reflexivity.
Qed.

(** ** a successful creation leaves the spec and the reference *)
Lemma set_attr_new_ref fuel st o n v st' :
  set_attr fuel st o n v = Ok st' ->
  st_closed st' = st_closed st /\
  exists r, In r (st_refs st') /\ r_own r = o /\ r_name r = n /\ r_val r = v.
Proof.
  intros H. apply set_attr_cases in H. destruct H as [->|[[r [F ->]]|[pv ->]]]; simpl; split; auto;
    eexists; (split; [apply in_app_iff; right; simpl; left; reflexivity|simpl; auto]).
Qed.

Lemma create_ok fuel st o n p want loads sh v :
  Inv st -> snd (create fuel st o n p want loads sh v) = ROk ->
  let st' := fst (create fuel st o n p want loads sh v) in
  (exists s, In s (st_specs st') /\ s_grp s = fst o /\ s_val s = v) /\
  (exists r, In r (st_refs st') /\ r_own r = o /\ r_name r = n /\ r_val r = v).
Proof.
  intros HI. unfold create.
  destruct (is_closed st (fst o)) eqn:C; [simpl; discriminate|].
  destruct (get_spec (fst o) v (st_specs st)) eqn:G; [simpl; discriminate|].
  destruct (new_spec st (fst o) p want loads sh v) as [st1 [sid|]] eqn:NS; [|simpl; discriminate].
  destruct (new_spec_some _ _ _ _ _ _ _ _ _ HI G (is_closed_false _ _ C) NS)
    as [HI1 [Er [Et [Ec [Hsid [snew [Es [Eid [Eg Ev]]]]]]]]].
  destruct (set_attr fuel st1 o n v) as [st2| |] eqn:SA; simpl; try discriminate.
  intros _. destruct (set_attr_inv _ _ _ _ _ _ _ SA HI1) as [HI2 Hkey].
  destruct (set_attr_new_ref _ _ _ _ _ _ SA) as [Ecl Href]. split; auto.
  assert (Hs1 : In snew (st_specs st1)) by (rewrite Es; apply in_app_iff; simpl; auto).
  destruct (set_attr_keeps fuel st1 o n v st2 (or_intror (ex_intro _ sid HI1)) SA snew Hs1) as [[s' [Hs' [Hid Hg]]]|[H|H]].
  - exists s'. split; auto.
    pose proof (set_attr_sub _ _ _ _ _ _ _ SA Hs') as Hs'1.
    assert (s' = snew) by (eapply NoDup_map_inj; [apply (sp_nodup _ _ (inv_sp _ _ HI1))| | |]; eauto).
    subst. auto.
  - exfalso. rewrite Ecl in H. apply (inv_closed _ _ HI1 snew Hs1). auto.
  - exfalso. rewrite Eg, Ev in H. contradiction.
Qed.

Theorem creation_leaves_both fuel ops o ow n v :
  creation o = Some (ow, n, v) ->
  snd (step fuel (run fuel ops) o) = ROk ->
  let st' := fst (step fuel (run fuel ops) o) in
  (exists s, In s (st_specs st') /\ s_grp s = fst ow /\ s_val s = v) /\
  (exists r, In r (st_refs st') /\ r_own r = ow /\ r_name r = n /\ r_val r = v).
Proof.
  intros Hc Hok. pose proof (run_inv fuel ops) as HI.
  destruct o; simpl in Hc; inversion Hc; subst; simpl in *; apply create_ok; auto.
Qed.

(** ** C18_rejected_clean: a rejected creation leaves neither a spec nor a reference (nothing changes
    but the counter of object identities) *)
Lemma same_refl a : same_but_next a a.
Proof. repeat split. Qed.

Lemma new_spec_fields st m p want loads sh v st1 r :
  new_spec st m p want loads sh v = (st1, r) ->
  st_refs st1 = st_refs st /\ st_tab st1 = st_tab st /\ st_spaces st1 = st_spaces st /\
  st_bases st1 = st_bases st /\ st_cells st1 = st_cells st /\ st_closed st1 = st_closed st.
Proof.
  unfold new_spec. destruct (find_io m p (st_specs st)) as [c|].
  - destruct (loads (s_kind c) && can_add_spec _ (st_specs st)); intros H; inversion H; simpl; repeat split.
  - destruct (loads want && can_add_spec _ (st_specs st)); intros H; inversion H; simpl; repeat split.
Qed.

Lemma filter_all {A} (f : A -> bool) l : (forall x, In x l -> f x = true) -> filter f l = l.
Proof.
  induction l as [|a l IH]; simpl; intros H; auto.
  rewrite (H a (or_introl eq_refl)). f_equal. apply IH. intros x Hx. apply H; auto.
Qed.

Lemma create_rejected fuel st o n p want loads sh v :
  Inv st -> snd (create fuel st o n p want loads sh v) <> ROk ->
  same_but_next st (fst (create fuel st o n p want loads sh v)).
Proof.
  intros HI. unfold create.
  destruct (is_closed st (fst o)) eqn:C; [intros; apply same_refl|].
  destruct (get_spec (fst o) v (st_specs st)) eqn:G; [intros; apply same_refl|].
  destruct (new_spec st (fst o) p want loads sh v) as [st1 [sid|]] eqn:NS.
  - destruct (new_spec_some _ _ _ _ _ _ _ _ _ HI G (is_closed_false _ _ C) NS)
      as [HI1 [Er [Et [Ec [Hsid [snew [Es [Eid [Eg Ev]]]]]]]]].
    destruct (new_spec_fields _ _ _ _ _ _ _ _ _ NS) as [_ [_ [F1 [F2 [F3 _]]]]].
    assert (Hdel : del_spec sid (st_specs st1) = st_specs st).
    { rewrite Es. unfold del_spec. rewrite filter_app. simpl. rewrite Eid, N.eqb_refl. simpl.
      rewrite app_nil_r. apply filter_all. intros s Hs.
      pose proof (sp_lt _ _ (inv_sp _ _ HI) s Hs). apply negb_true_iff, N.eqb_neq. lia. }
    destruct (set_attr fuel st1 o n v) as [st2| |] eqn:SA; simpl.
    + intros H; congruence.
    + intros _. unfold same_but_next. simpl. rewrite Hdel. repeat split; auto.
    + intros _. unfold same_but_next. simpl. rewrite Hdel. repeat split; auto.
  - intros _. apply new_spec_none in NS. destruct NS as [nx' [_ ->]]. simpl. repeat split.
Qed.

Theorem rejected_creation_clean fuel ops o :
  creation o <> None ->
  snd (step fuel (run fuel ops) o) <> ROk ->
  same_but_next (run fuel ops) (fst (step fuel (run fuel ops) o)).
Proof.
  intros Hc Hrej. pose proof (run_inv fuel ops) as HI.
  destruct o; simpl in Hc; try congruence; simpl in *; apply create_rejected; auto.
Qed.

(** ** deleting a space: the space is gone and exactly the references it defined are gone with it
    (with [live_spec_has_ref] on the state after the step: the specs left are those of values that
    some other reference of the model still holds) *)
Lemma owner_eqb_eq (a b : owner) : owner_eqb a b = true <-> a = b.
Proof.
  destruct a as [a1 a2], b as [b1 b2]; unfold owner_eqb; simpl. rewrite andb_true_iff, N.eqb_eq. split.
  - intros [H1 H2]. subst. f_equal. destruct a2, b2; simpl in H2; try discriminate; auto.
    apply N.eqb_eq in H2. congruence.
  - intros H; inversion H; subst. split; auto. destruct b2; simpl; auto. apply N.eqb_refl.
Qed.

Lemma del_refs_refs : forall l st r,
  In r (st_refs (fold_left rm_del_ref l st)) <-> In r (st_refs st) /\ ~ In (r_id r) (map r_id l).
Proof.
  induction l as [|a l IH]; intros st r; simpl.
  - tauto.
  - rewrite IH. simpl. rewrite in_drop_ref. split.
    + intros [[H1 H2] H3]. split; auto. intros [E|E]; auto.
    + intros [H1 H2]. split; [split|]; auto.
Qed.

Theorem delspace_forgets fuel ops m s :
  let st := run fuel ops in
  let st' := fst (step fuel st (DelSpace m s)) in
  is_space st m s = true ->
  snd (step fuel st (DelSpace m s)) = ROk ->
  is_space st' m s = false /\
  (forall r, In r (st_refs st') <-> In r (st_refs st) /\ r_own r <> (m, Some s)).
Proof.
  intros st st' Hsp. pose proof (run_inv fuel ops) as HI. fold st in HI.
  unfold st'. cbn [step]. unfold del_model_attr. rewrite Hsp.
  destruct (is_closed st m); [simpl; discriminate|].
  unfold del_space.
  destruct (descendants fuel st (st_bases st) m s) as [ds| |]; cbn [bind finish fst snd]; try discriminate.
  destruct (map_res _ ds) as [ls| |]; cbn [bind finish fst snd]; try discriminate.
  intros _. split.
  - unfold is_space. simpl. apply not_true_is_false. intros H. apply existsb_exists in H.
    destruct H as [k [Hk E]]. apply filter_In in Hk. destruct Hk as [_ Hk].
    apply key_eqb_eq in E. subst k. rewrite key_eqb_refl in Hk. discriminate.
  - intros r. simpl. rewrite del_refs_refs.
    pose proof (rt_nodup _ _ _ (inv_rt _ _ HI)) as Hnd. split.
    + intros [Hr Hni]. split; auto. intros E. apply Hni. apply in_map. apply filter_In. split; auto.
      unfold in_space. apply owner_eqb_eq; auto.
    + intros [Hr Hne]. split; auto. intros Hin. apply in_map_iff in Hin. destruct Hin as [r' [Hid Hr']].
      apply filter_In in Hr'. destruct Hr' as [Hr' Hown].
      assert (r' = r) by (eapply NoDup_map_inj; eauto). subst r'.
      apply Hne. apply owner_eqb_eq; auto.
Qed.

(** ** C18_no_shared_location *)
Theorem no_shared_location fuel ops s s' :
  In s (st_specs (run fuel ops)) -> In s' (st_specs (run fuel ops)) -> s <> s' ->
  location s <> location s' /\
  (s_grp s = s_grp s' -> s_path s = s_path s' ->
   s_kind s = KExcel /\ s_kind s' = KExcel /\
   exists a b, s_sheet s = Some a /\ s_sheet s' = Some b /\ a <> b).
Proof.
  intros Hs Hs' Hne. pose proof (inv_sp _ _ (run_inv fuel ops)) as HSP.
  assert (K : s_grp s = s_grp s' -> s_path s = s_path s' ->
              s_kind s = KExcel /\ s_kind s' = KExcel /\
              exists a b, s_sheet s = Some a /\ s_sheet s' = Some b /\ a <> b).
  { intros Eg Ep. destruct (sp_loc _ _ HSP s s' Hs Hs' Eg Ep Hne) as [K1 [a [b [Sa [Sb Hab]]]]].
    destruct (sp_loc _ _ HSP s' s Hs' Hs (eq_sym Eg) (eq_sym Ep) (fun E => Hne (eq_sym E))) as [K2 _].
    split; auto. split; auto. exists a, b; auto. }
  split; auto. unfold location. intros E. inversion E as [[Eg Ep Esh]].
  destruct (K Eg Ep) as [K1 [K2 [a [b [Sa [Sb Hab]]]]]]. rewrite K1, K2, Sa, Sb in Esh. congruence.
Qed.

(** distinct list positions are distinct specs *)
Theorem spec_ids_distinct fuel ops : NoDup (map s_id (st_specs (run fuel ops))).
Proof. apply (sp_nodup _ _ (inv_sp _ _ (run_inv fuel ops))). Qed.

(** ** C18_sanity *)
Lemma ref_by_id_unique rs r : NoDup (map r_id rs) -> In r rs -> ref_by_id (r_id r) rs = Some r.
Proof.
  intros Hnd Hr. destruct (ref_by_id (r_id r) rs) as [r0|] eqn:R.
  - apply ref_by_id_some in R. destruct R as [H0 Hid]. f_equal. eapply NoDup_map_inj; eauto.
  - exfalso. apply (ref_by_id_none _ _ _ R Hr). auto.
Qed.

Theorem sanity_holds fuel ops : check_sanity (run fuel ops) = true.
Proof.
  pose proof (run_inv fuel ops) as HI. set (st := run fuel ops) in *.
  destruct HI as [Hrt Hsp Hlive Hcl]. unfold check_sanity. rewrite !andb_true_iff. repeat split.
  - apply forallb_forall. intros s Hs. apply forallb_forall. intros s' Hs'.
    destruct (sp_io _ _ Hsp s s' Hs Hs') as [Hiff _].
    destruct (same_file (s_grp s) (s_path s) s') eqn:F, (N.eqb (s_io s) (s_io s')) eqn:E; auto; exfalso.
    + apply same_file_true in F. apply N.eqb_neq in E. apply E. apply Hiff. destruct F; split; congruence.
    + apply N.eqb_eq in E. apply Hiff in E.
      assert (same_file (s_grp s) (s_path s) s' = true) by (apply same_file_true; destruct E; split; congruence).
      congruence.
  - apply forallb_forall. intros r Hr. destruct (snd (r_own r)); auto.
    destruct (tget (fst (r_own r), r_val r) (st_tab st)) eqn:TG; auto. exfalso.
    assert (Hin : In (r_id r) (lookup (fst (r_own r), r_val r) (st_tab st))).
    { apply (rt_exact _ _ _ Hrt). exists r. unfold rmodel. auto. }
    rewrite (lookup_none _ _ TG) in Hin. contradiction.
  - apply forallb_forall. intros [[m v] l] He. simpl. apply forallb_forall. intros rid Hin.
    apply (rt_exact _ _ _ Hrt) in Hin. destruct Hin as [r [Hr [<- [Hm Hv]]]].
    rewrite (ref_by_id_unique _ _ (rt_nodup _ _ _ Hrt) Hr). rewrite Hv. unfold rmodel in Hm. rewrite Hm.
    rewrite !N.eqb_refl. auto.
Qed.

(** ** the table is exactly the inverse of the reference store (the book-keeping behind all of the above) *)
Theorem table_exact fuel ops m v rid :
  In rid (lookup (m, v) (st_tab (run fuel ops))) <->
  exists r, In r (st_refs (run fuel ops)) /\ r_id r = rid /\ rmodel r = m /\ r_val r = v.
Proof. apply (rt_exact _ _ _ (inv_rt _ _ (run_inv fuel ops))). Qed.

(** a derived reference (recomputed along the C3 linearisation) always carries the value of a defined
    reference of the same model, so counting derived references does not change [bound] *)
Lemma first_definer_in st m n l r : first_definer st m n l = Some r -> In r (st_refs st) /\ rmodel r = m.
Proof.
  induction l as [|b l IH]; simpl; [discriminate|].
  destruct (find_ref (m, Some b) n (st_refs st)) as [r0|] eqn:F.
  - intros H; inversion H; subst. apply find_ref_some in F. simpl in F. tauto.
  - auto.
Qed.
Theorem visible_ref_is_bound fuel fuel' ops m s n v d :
  visible_ref fuel' (run fuel ops) m s n = Ok (Some (v, d)) -> bound (run fuel ops) m v.
Proof.
  unfold visible_ref. destruct (mro fuel' _ m s) as [l| |]; simpl; try discriminate.
  destruct (first_definer (run fuel ops) m n l) as [r|] eqn:F; intros H; inversion H; subst.
  apply first_definer_in in F. exists r. tauto.
Qed.

(** ** non-vacuity: a history with a shared value, an inherited reference, an update, a rejected
    creation and a deletion *)
Definition demo : list op :=
  [ NewSpace 0 0; NewSpace 0 1; NewCells 0 0 20;
    NewPandas (0, Some 0) 10 2 FExcel (Some 1) 1 VPandas;      (* S0.x = df1 -> d/e.xlsx[s1] *)
    NewPandas (0, Some 0) 11 2 FExcel (Some 2) 2 VPandas;      (* S0.y = df2 -> d/e.xlsx[s2] *)
    Assign (0, None) 30 1;                                     (* M.g = df1 *)
    AddBase 0 1 0;                                             (* S1 derives S0 *)
    NewPandas (0, Some 1) 12 2 FExcel (Some 2) 3 VPandas;      (* rejected: sheet s2 is taken *)
    NewPandas (0, Some 1) 20 0 FCsv None 3 VPandas;            (* rejected: c is a cells *)
    Update 0 1 4 VPandas;                                      (* df1 -> df4 everywhere *)
    DelRef (0, Some 0) 10 ].                                   (* M.g still holds df4 *)

Example demo_state :
  let st := run 20 demo in
  map view (st_specs st) = [(0, 2, KExcel, Some 1, 4); (0, 2, KExcel, Some 2, 2)]
  /\ map (fun r => (r_own r, r_name r, r_val r)) (st_refs st) = [((0, Some 0), 11, 2); ((0, None), 30, 4)]
  /\ obs_refs 20 st = Ok [(0, None, 30, 4, false); (0, Some 0, 11, 2, false); (0, Some 1, 11, 2, true)]
  /\ map (fun o => snd (step 20 (run 20 (firstn 7 demo)) o)) [nth 7 demo (Close 0); nth 8 demo (Close 0)] = [RErr; RErr]
  /\ check_sanity st = true.
Proof. vm_compute. repeat split. Qed.

(** the setters and del_spec: a sheet clash is refused, a file moves with all its specs, an occupied
    path is refused, del_spec removes the spec and keeps the references *)
Definition demo2 : list op :=
  [ NewSpace 0 0;
    NewPandas (0, Some 0) 10 2 FExcel (Some 1) 1 VPandas;
    NewPandas (0, Some 0) 11 2 FExcel (Some 2) 2 VPandas;
    NewPandas (0, Some 0) 12 0 FCsv None 3 VPandas;
    SetSheet 0 1 (Some 2);          (* refused: s2 is taken *)
    SetSheet 0 1 None;              (* refused (ideal): the file is shared *)
    SetSheet 0 1 (Some 3);
    SetPath 0 1 0;                  (* refused: a.csv is taken *)
    SetPath 0 2 3;                  (* d/e.xlsx -> f.xlsx, both specs *)
    DelSpec 0 3 ].

(** deleting a space: its references go, the spec of a value nothing else holds goes, the spec of a
    value another reference holds stays, the derived references of the sub space go; a creation
    onto a cells name and onto a deleted space are refused; the space can be created again *)
Definition demo3 : list op :=
  [ NewSpace 0 0; NewSpace 0 1; NewSpace 0 2; NewCells 0 0 21;
    AddBase 0 1 0;                                             (* S1 derives S0 *)
    NewPandas (0, Some 0) 10 0 FCsv None 1 VPandas;            (* S0.x = df1 -> a.csv *)
    NewPandas (0, Some 0) 11 1 FCsv None 2 VPandas;            (* S0.y = df2 -> b.csv *)
    Assign (0, Some 2) 12 2;                                   (* S2.z = df2 *)
    NewPandas (0, Some 1) 21 2 FExcel None 3 VPandas;          (* refused: S1 derives the cells k *)
    DelSpace 0 0;
    NewPandas (0, Some 0) 10 0 FCsv None 1 VPandas;            (* refused: no such space *)
    DelRef (0, None) 0;                                        (* refused: neither a space nor a reference *)
    NewSpace 0 0;
    NewPandas (0, Some 0) 21 0 FCsv None 1 VPandas ].          (* a.csv and the name k are free again *)

Example demo3_state :
  obs_refs 20 (run 20 (firstn 9 demo3))
    = Ok [(0, Some 0, 10, 1, false); (0, Some 0, 11, 2, false);
          (0, Some 1, 10, 1, true); (0, Some 1, 11, 2, true); (0, Some 2, 12, 2, false)]
  /\ map view (st_specs (run 20 (firstn 10 demo3))) = [(0, 1, KCsv, None, 2)]
  /\ obs_refs 20 (run 20 (firstn 10 demo3)) = Ok [(0, Some 2, 12, 2, false)]
  /\ map (fun k => snd (step 20 (run 20 (firstn k demo3)) (nth k demo3 (Close 0)))) [8; 9; 10; 11; 12; 13]%nat
     = [RErr; ROk; RErr; RErr; ROk; ROk]
  /\ map view (st_specs (run 20 demo3)) = [(0, 1, KCsv, None, 2); (0, 0, KCsv, None, 1)]
  /\ check_sanity (run 20 demo3) = true.
Proof. vm_compute. repeat split. Qed.

Example demo2_state :
  let st := run 20 demo2 in
  map view (st_specs st) = [(0, 3, KExcel, Some 3, 1); (0, 3, KExcel, Some 2, 2)]
  /\ List.length (st_refs st) = 3%nat
  /\ map (fun k => snd (step 20 (run 20 (firstn k demo2)) (nth k demo2 (Close 0)))) [4; 5; 6; 7; 8; 9]%nat
     = [RErr; RErr; ROk; RErr; ROk; ROk]
  /\ check_sanity st = true.
Proof. vm_compute. repeat split. Qed.
