(** Every operation preserves the invariant; what happens to the existing specs in one step. *)
From Coq Require Import List NArith Bool Arith Lia.
From MX Require Import IOSpec.Model IOSpec.Proofs.
Import ListNotations.
Open Scope N_scope.

Lemma memN_In x l : memN x l = true <-> In x l.
Proof.
  unfold memN. rewrite existsb_exists. split.
  - intros [y [Hy E]]. apply N.eqb_eq in E. subst; auto.
  - intros H. exists x. split; auto. apply N.eqb_refl.
Qed.
Lemma is_closed_false st m : is_closed st m = false -> ~ In m (st_closed st).
Proof. unfold is_closed. intros H Hin. apply memN_In in Hin. congruence. Qed.

(** what a step may do to the specs that exist before it *)
Definition Keeps (st st' : state) : Prop :=
  forall s, In s (st_specs st) ->
    (exists s', In s' (st_specs st') /\ s_id s' = s_id s /\ s_grp s' = s_grp s)
    \/ In (s_grp s) (st_closed st')
    \/ tget (s_grp s, s_val s) (st_tab st') = None.

Lemma Keeps_same st st' : st_specs st' = st_specs st -> Keeps st st'.
Proof. intros E s Hs. left. exists s. rewrite E. auto. Qed.

(** ** appending a fresh spec *)
Lemma SP_app sp nx nx' s :
  SP sp nx -> nx <= nx' ->
  nx <= s_id s < nx' -> s_io s < nx' ->
  (forall s0, In s0 sp -> s_grp s0 = s_grp s -> s_val s0 = s_val s -> False) ->
  (forall s0, In s0 sp -> s_grp s0 = s_grp s -> s_path s0 = s_path s ->
       s_kind s0 = KExcel /\ s_kind s = KExcel /\ s_io s0 = s_io s /\
       exists a b, s_sheet s0 = Some a /\ s_sheet s = Some b /\ a <> b) ->
  (forall s0, In s0 sp -> s_io s0 = s_io s -> s_grp s0 = s_grp s /\ s_path s0 = s_path s) ->
  SP (sp ++ [s]) nx'.
Proof.
  intros [Hlt Hnd Hun Hloc Hio] Hle Hid Hioid Hfresh Hfile Hiofile. constructor.
  - intros s0 H0. apply in_app_iff in H0. destruct H0 as [H0|[<-|[]]].
    + specialize (Hlt s0 H0). lia.
    + lia.
  - apply NoDup_map_app_fresh; auto. intros y Hy. specialize (Hlt y Hy). lia.
  - intros s1 s2 H1 H2 Hg Hv. apply in_app_iff in H1, H2.
    destruct H1 as [H1|[<-|[]]], H2 as [H2|[<-|[]]]; auto.
    + exfalso. eapply Hfresh; eauto.
    + exfalso. eapply Hfresh; eauto.
  - intros s1 s2 H1 H2 Hg Hp Hne. apply in_app_iff in H1, H2.
    destruct H1 as [H1|[<-|[]]], H2 as [H2|[<-|[]]]; auto.
    + destruct (Hfile s1 H1 Hg Hp) as [K1 [K2 [_ [a [b [Sa [Sb Hab]]]]]]]. split; auto. exists a, b; auto.
    + destruct (Hfile s2 H2 (eq_sym Hg) (eq_sym Hp)) as [K1 [K2 [_ [a [b [Sa [Sb Hab]]]]]]].
      split; auto. exists b, a; auto.
    + contradiction.
  - intros s1 s2 H1 H2. apply in_app_iff in H1, H2.
    destruct H1 as [H1|[<-|[]]], H2 as [H2|[<-|[]]]; auto.
    + split.
      * split.
        -- intros [Hg Hp]. destruct (Hfile s1 H1 Hg Hp) as [_ [_ [E _]]]. auto.
        -- intros E. apply Hiofile; auto.
      * intros E. destruct (Hiofile s1 H1 E) as [Hg Hp]. destruct (Hfile s1 H1 Hg Hp) as [K1 [K2 _]]. congruence.
    + split.
      * split.
        -- intros [Hg Hp]. destruct (Hfile s2 H2 (eq_sym Hg) (eq_sym Hp)) as [_ [_ [E _]]]. auto.
        -- intros E. destruct (Hiofile s2 H2 (eq_sym E)). auto.
      * intros E. destruct (Hiofile s2 H2 (eq_sym E)) as [Hg Hp].
        destruct (Hfile s2 H2 Hg Hp) as [K1 [K2 _]]. congruence.
    + tauto.
Qed.

Lemma same_file_true m p s : same_file m p s = true <-> s_grp s = m /\ s_path s = p.
Proof. unfold same_file. rewrite andb_true_iff, !N.eqb_eq. tauto. Qed.

Lemma can_add_other_true k c s :
  can_add_other k c s = true -> k = KExcel /\ exists a b, s_sheet c = Some a /\ s_sheet s = Some b /\ a <> b.
Proof.
  unfold can_add_other. destruct k; try discriminate.
  destruct (s_sheet c) as [a|]; try discriminate. destruct (s_sheet s) as [b|]; try discriminate.
  intros H. apply negb_true_iff, N.eqb_neq in H. split; auto. exists a, b; auto.
Qed.

(** ** IOManager.new_spec *)
Lemma new_spec_none st m p want loads sh v st1 :
  new_spec st m p want loads sh v = (st1, None) ->
  exists nx', st_next st <= nx' /\ st1 = with_rtsn st (st_refs st) (st_tab st) (st_specs st) nx'.
Proof.
  unfold new_spec. destruct (find_io m p (st_specs st)) as [c|].
  - destruct (loads (s_kind c) && can_add_spec _ (st_specs st)); intros H; inversion H.
    exists (st_next st + 1). split; [lia|auto].
  - destruct (loads want && can_add_spec _ (st_specs st)); intros H; inversion H.
    exists (st_next st + 1 + 1). split; [lia|auto].
Qed.

Lemma Inv_bump ex st nx' :
  Inv' ex st -> st_next st <= nx' -> Inv' ex (with_rtsn st (st_refs st) (st_tab st) (st_specs st) nx').
Proof.
  intros [Hrt Hsp Hl Hc] Hle. constructor; simpl; auto.
  - eapply RT_mono; eauto.
  - eapply SP_mono; eauto.
Qed.

Lemma new_spec_some st m p want loads sh v st1 sid :
  Inv st -> get_spec m v (st_specs st) = None -> ~ In m (st_closed st) ->
  new_spec st m p want loads sh v = (st1, Some sid) ->
  Inv' (Some sid) st1 /\ st_refs st1 = st_refs st /\ st_tab st1 = st_tab st /\ st_closed st1 = st_closed st /\
  st_next st <= sid < st_next st1 /\
  exists s, st_specs st1 = st_specs st ++ [s] /\ s_id s = sid /\ s_grp s = m /\ s_val s = v.
Proof.
  intros [Hrt Hsp Hlive Hcl] Hg Hnc. unfold new_spec.
  destruct (find_io m p (st_specs st)) as [c|] eqn:F.
  - (* the file is registered already *)
    set (s := mkSpec (st_next st) (s_io c) m p (s_kind c) sh v).
    destruct (loads (s_kind c) && can_add_spec s (st_specs st)) eqn:C; intros H; inversion H; subst st1 sid; clear H.
    apply andb_true_iff in C. destruct C as [_ C]. unfold can_add_spec in C. rewrite forallb_forall in C.
    unfold find_io in F. apply find_some in F. destruct F as [Hc Hcf]. apply same_file_true in Hcf. destruct Hcf as [Hcg Hcp].
    pose proof (sp_lt _ _ Hsp c Hc) as Hclt.
    split; [|simpl; repeat split; auto; try lia; exists s; auto].
    constructor; simpl.
    + eapply RT_mono; eauto. lia.
    + apply SP_app with (nx := st_next st); auto; simpl; try lia.
      * intros s0 H0 E1 E2. eapply get_spec_none; eauto.
      * intros s0 H0 E1 E2.
        assert (Hin : In s0 (filter (same_file m p) (st_specs st))).
        { apply filter_In. split; auto. apply same_file_true; auto. }
        specialize (C s0 Hin). simpl in C. apply can_add_other_true in C. destruct C as [K [a [b [Sa [Sb Hab]]]]].
        destruct (sp_io _ _ Hsp s0 c H0 Hc) as [Hiff Hkind].
        assert (Eio : s_io s0 = s_io c) by (apply Hiff; split; congruence).
        split; [rewrite (Hkind Eio); auto|]. split; auto. split; auto. exists a, b; auto.
      * intros s0 H0 E. destruct (sp_io _ _ Hsp s0 c H0 Hc) as [Hiff _]. apply Hiff in E. destruct E; split; congruence.
    + intros s0 H0 Hex. apply in_app_iff in H0. destruct H0 as [H0|[<-|[]]].
      * apply Hlive; auto. discriminate.
      * simpl in Hex. congruence.
    + intros s0 H0. apply in_app_iff in H0. destruct H0 as [H0|[<-|[]]]; auto.
  - (* a new shared io *)
    set (s := mkSpec (st_next st + 1) (st_next st) m p want sh v).
    destruct (loads want && can_add_spec s (st_specs st)) eqn:C; intros H; inversion H; subst st1 sid; clear H.
    unfold find_io in F.
    assert (Hnofile : forall s0, In s0 (st_specs st) -> s_grp s0 = m -> s_path s0 = p -> False).
    { intros s0 H0 E1 E2. pose proof (find_none _ _ F _ H0) as Hb.
      assert (same_file m p s0 = true) by (apply same_file_true; auto). congruence. }
    split; [|simpl; repeat split; auto; try lia; exists s; auto].
    constructor; simpl.
    + eapply RT_mono; eauto. lia.
    + apply SP_app with (nx := st_next st); auto; simpl; try lia.
      * intros s0 H0 E1 E2. eapply get_spec_none; eauto.
      * intros s0 H0 E1 E2. exfalso. eauto.
      * intros s0 H0 E. pose proof (sp_lt _ _ Hsp s0 H0). lia.
    + intros s0 H0 Hex. apply in_app_iff in H0. destruct H0 as [H0|[<-|[]]].
      * apply Hlive; auto. discriminate.
      * simpl in Hex. congruence.
    + intros s0 H0. apply in_app_iff in H0. destruct H0 as [H0|[<-|[]]]; auto.
Qed.

(** ** set_attr only removes specs *)
Lemma set_attr_sub fuel st o n v st' s :
  set_attr fuel st o n v = Ok st' -> In s (st_specs st') -> In s (st_specs st).
Proof.
  intros H. apply set_attr_cases in H. destruct H as [->|[[r [F ->]]|[pv ->]]]; simpl; auto; apply gc_sub.
Qed.

Lemma rm_change_ref_keeps st o n v prev pv :
  Inv' None st \/ (exists x, Inv' (Some x) st) -> Keeps st (rm_change_ref st o n v prev pv).
Proof.
  intros HI s Hs. simpl.
  assert (HSP : SP (st_specs st) (st_next st)) by (destruct HI as [H|[x H]]; apply (inv_sp _ _ H)).
  match goal with |- context [gc ?m ?v ?tb ?sp] => destruct (gc_keeps m v tb sp _ s HSP Hs) as [H|[Hn [Hm Hv]]] end.
  - left. exists s. auto.
  - right; right. rewrite Hm, Hv. auto.
Qed.

Lemma rm_del_ref_keeps st r : Inv st -> Keeps st (rm_del_ref st r).
Proof.
  intros HI s Hs. simpl.
  pose proof (inv_sp _ _ HI) as HSP.
  match goal with |- context [gc ?m ?v ?tb ?sp] => destruct (gc_keeps m v tb sp _ s HSP Hs) as [H|[Hn [Hm Hv]]] end.
  - left. exists s. auto.
  - right; right. rewrite Hm, Hv. auto.
Qed.

Lemma set_attr_keeps fuel st o n v st' :
  Inv' None st \/ (exists x, Inv' (Some x) st) -> set_attr fuel st o n v = Ok st' -> Keeps st st'.
Proof.
  intros HI H. apply set_attr_cases in H. destruct H as [->|[[r [F ->]]|[pv ->]]].
  - apply Keeps_same. reflexivity.
  - apply rm_change_ref_keeps; auto.
  - apply rm_change_ref_keeps; auto.
Qed.

(** ** new_pandas / new_module *)
Lemma create_inv fuel st o n p want loads sh v :
  Inv st -> Inv (fst (create fuel st o n p want loads sh v)) /\ Keeps st (fst (create fuel st o n p want loads sh v)).
Proof.
  intros HI. unfold create.
  destruct (is_closed st (fst o)) eqn:C; [simpl; split; auto; apply Keeps_same; auto|].
  destruct (get_spec (fst o) v (st_specs st)) eqn:G; [simpl; split; auto; apply Keeps_same; auto|].
  destruct (new_spec st (fst o) p want loads sh v) as [st1 [sid|]] eqn:NS.
  - destruct (new_spec_some _ _ _ _ _ _ _ _ _ HI G (is_closed_false _ _ C) NS)
      as [HI1 [Er [Et [Ec [Hsid [snew [Es [Eid [Eg Ev]]]]]]]]].
    assert (Hold : forall s, In s (st_specs st) -> In s (st_specs st1) /\ s_id s <> sid).
    { intros s Hs. split; [rewrite Es; apply in_app_iff; auto|].
      pose proof (sp_lt _ _ (inv_sp _ _ HI) s Hs). lia. }
    assert (Hrollback : Inv (with_specs st1 (del_spec sid (st_specs st1))) /\
                        Keeps st (with_specs st1 (del_spec sid (st_specs st1)))).
    { split.
      - destruct HI1 as [Hrt Hsp Hl Hc]. constructor; simpl; auto.
        + apply SP_filter; auto.
        + intros s Hs _. apply in_del_spec in Hs. destruct Hs as [Hs Hne]. apply Hl; auto. congruence.
        + intros s Hs. apply in_del_spec in Hs. apply Hc; tauto.
      - intros s Hs. left. exists s. simpl. split; auto. apply in_del_spec. apply Hold; auto. }
    destruct (set_attr fuel st1 o n v) as [st2| |] eqn:SA; [|exact Hrollback|exact Hrollback].
    cbn [fst].
    destruct (set_attr_inv _ _ _ _ _ _ _ SA HI1) as [HI2 Hkey]. split.
    + destruct HI2 as [Hrt Hsp Hl Hc]. constructor; auto.
      intros s Hs _. destruct (N.eq_dec (s_id s) sid) as [E|E].
      * pose proof (set_attr_sub _ _ _ _ _ _ _ SA Hs) as Hs1.
        assert (s = snew).
        { eapply NoDup_map_inj; [apply (sp_nodup _ _ (inv_sp _ _ HI1))| | |]; eauto.
          - rewrite Es. apply in_app_iff; simpl; auto.
          - congruence. }
        subst s. rewrite Eg, Ev. auto.
      * apply Hl; auto. congruence.
    + intros s Hs. destruct (Hold s Hs) as [Hs1 _].
      apply (set_attr_keeps fuel st1 o n v st2 (or_intror (ex_intro _ sid HI1)) SA s Hs1).
  - apply new_spec_none in NS. destruct NS as [nx' [Hle ->]]. simpl. split.
    + apply Inv_bump; auto.
    + apply Keeps_same; auto.
Qed.

(** ** the rebinding loop of update_value *)
Lemma ref_by_id_some rid rs r : ref_by_id rid rs = Some r -> In r rs /\ r_id r = rid.
Proof. unfold ref_by_id. intros H. apply find_some in H. rewrite N.eqb_eq in H. auto. Qed.
Lemma ref_by_id_none rid rs r : ref_by_id rid rs = None -> In r rs -> r_id r <> rid.
Proof. unfold ref_by_id. intros H Hin. pose proof (find_none _ _ H _ Hin) as Hb. simpl in Hb. apply N.eqb_neq; auto. Qed.

Lemma rebind_spec : forall rids v rs nx rs' ids nx',
  rebind rids v rs nx = (rs', ids, nx') ->
  (forall rid, In rid rids -> rid < nx) ->
  (forall r, In r rs -> r_id r < nx) -> NoDup (map r_id rs) ->
  nx <= nx' /\
  (forall r, In r rs' -> r_id r < nx') /\
  NoDup (map r_id rs') /\
  NoDup ids /\
  (forall id, In id ids -> nx <= id) /\
  (forall r', In r' rs' ->
      (In r' rs /\ ~ In (r_id r') rids) \/
      (In (r_id r') ids /\ r_val r' = v /\
       exists r, In r rs /\ In (r_id r) rids /\ r_own r' = r_own r /\ r_name r' = r_name r)) /\
  (forall r, In r rs -> ~ In (r_id r) rids -> In r rs') /\
  (forall id, In id ids -> exists r', In r' rs' /\ r_id r' = id).
Proof.
  induction rids as [|rid t IH]; intros v rs nx rs' ids nx' H Hrids Hlt Hnd; simpl in H.
  - inversion H; subst. repeat split; auto; try lia; try constructor; try (intros ? []).
  - destruct (ref_by_id rid rs) as [r|] eqn:R.
    + destruct (rebind t v (drop_ref rid rs ++ [mkRef nx (r_own r) (r_name r) v]) (nx + 1)) as [[rs0 ids0] nx0] eqn:RB.
      inversion H; subst rs0 ids nx0; clear H.
      apply ref_by_id_some in R. destruct R as [Hr Hrid].
      set (rs1 := drop_ref rid rs ++ [mkRef nx (r_own r) (r_name r) v]) in *.
      assert (Hlt1 : forall r0, In r0 rs1 -> r_id r0 < nx + 1).
      { intros r0 H0. apply in_app_iff in H0. destruct H0 as [H0|[<-|[]]].
        - apply in_drop_ref in H0. specialize (Hlt r0 (proj1 H0)). lia.
        - simpl. lia. }
      assert (Hnd1 : NoDup (map r_id rs1)).
      { apply NoDup_map_app_fresh.
        - unfold drop_ref. apply NoDup_map_filter; auto.
        - intros y Hy. apply in_drop_ref in Hy. specialize (Hlt y (proj1 Hy)). simpl. lia. }
      assert (Hrids1 : forall rid0, In rid0 t -> rid0 < nx + 1).
      { intros rid0 H0. specialize (Hrids rid0 (or_intror H0)). lia. }
      destruct (IH v rs1 (nx + 1) rs' ids0 nx' RB Hrids1 Hlt1 Hnd1) as [Hle [Hlt' [Hnd' [Hndi [Hge [HA [HB HC]]]]]]].
      repeat split; auto; try lia.
      * constructor; auto. intros Hin. specialize (Hge nx Hin). lia.
      * intros id [<-|Hin]; [lia|]. specialize (Hge id Hin). lia.
      * intros r' Hr'. destruct (HA r' Hr') as [[H1 Hnt]|[Hi [Hv [r0 [H0 [H0t [Ho Hn]]]]]]].
        -- apply in_app_iff in H1. destruct H1 as [H1|[<-|[]]].
           ++ apply in_drop_ref in H1. left. split; [tauto|]. simpl. intros [E|E]; [|contradiction].
              destruct H1. congruence.
           ++ right. simpl. split; auto. split; auto. exists r. simpl. auto.
        -- right. split; [simpl; auto|]. split; auto.
           apply in_app_iff in H0. destruct H0 as [H0|[<-|[]]].
           ++ apply in_drop_ref in H0. exists r0. simpl. tauto.
           ++ exfalso. simpl in H0t. specialize (Hrids nx (or_intror H0t)). lia.
      * intros r0 H0 Hni. apply HB.
        -- apply in_app_iff. left. apply in_drop_ref. split; auto. intros E. apply Hni. simpl; auto.
        -- intros E. apply Hni. simpl; auto.
      * intros id [<-|Hin]; [|apply HC; auto].
        exists (mkRef nx (r_own r) (r_name r) v). split; auto. apply HB.
        -- apply in_app_iff. simpl; auto.
        -- simpl. intros Hin. specialize (Hrids nx (or_intror Hin)). lia.
    + assert (Hrids1 : forall rid0, In rid0 t -> rid0 < nx) by (intros; apply Hrids; simpl; auto).
      destruct (IH v rs nx rs' ids nx' H Hrids1 Hlt Hnd) as [Hle [Hlt' [Hnd' [Hndi [Hge [HA [HB HC]]]]]]].
      repeat split; auto.
      * intros r' Hr'. destruct (HA r' Hr') as [[H1 Hnt]|[Hi [Hv [r0 [H0 [H0t [Ho Hn]]]]]]].
        -- left. split; auto. simpl. intros [E|E]; [|contradiction].
           apply (ref_by_id_none _ _ _ R H1). auto.
        -- right. split; auto. split; auto. exists r0. simpl. auto.
      * intros r0 H0 Hni. apply HB; auto. intros E. apply Hni. simpl; auto.
Qed.

Lemma rebind_nonempty rid t v rs nx rs' ids nx' r :
  rebind (rid :: t) v rs nx = (rs', ids, nx') -> In r rs -> r_id r = rid -> ids <> [].
Proof.
  simpl. intros H Hr Hid. destruct (ref_by_id rid rs) as [r0|] eqn:R.
  - destruct (rebind t v _ (nx + 1)) as [[a b] c]. inversion H. discriminate.
  - exfalso. apply (ref_by_id_none _ _ _ R Hr). auto.
Qed.

Lemma in_set_spec_val sid v sp s' :
  In s' (set_spec_val sid v sp) <->
  exists s, In s sp /\ s' = (if N.eqb (s_id s) sid
                              then mkSpec (s_id s) (s_io s) (s_grp s) (s_path s) (s_kind s) (s_sheet s) v else s).
Proof.
  unfold set_spec_val. rewrite in_map_iff. split; intros [s [H1 H2]]; exists s; auto.
Qed.

(** ** update_pandas / update_module *)
Lemma update_inv st m old new vk st' :
  Inv st -> update st m old new vk = Ok st' -> Inv st' /\ Keeps st st'.
Proof.
  intros HI. pose proof HI as [Hrt Hsp Hlive Hcl]. unfold update.
  destruct (is_closed st m) eqn:C; [discriminate|].
  destruct (tget (m, old) (st_tab st)) as [l|] eqn:TG; [|discriminate].
  destruct (negb (N.eqb old new) && match tget (m, new) (st_tab st) with Some _ => true | None => false end) eqn:GD;
    [discriminate|].
  assert (Hguard : old = new \/ tget (m, new) (st_tab st) = None).
  { apply andb_false_iff in GD. destruct GD as [G|G].
    - left. apply negb_false_iff, N.eqb_eq in G. auto.
    - right. destruct (tget (m, new) (st_tab st)); [discriminate|auto]. }
  clear GD.
  set (sp_r := match get_spec m old (st_specs st) with
               | None => Ok (st_specs st)
               | Some s => if accepts (s_kind s) vk then Ok (set_spec_val (s_id s) new (st_specs st)) else Err
               end).
  destruct sp_r as [sp'| |] eqn:SPR; simpl; try discriminate.
  destruct (rebind (rev l) new (st_refs st) (st_next st)) as [[rs' ids] nx'] eqn:RB.
  intros H. inversion H; subst st'; clear H.
  (* facts about the old entry *)
  destruct (rt_ne _ _ _ Hrt _ _ TG) as [Hlne Hlnd].
  assert (Hl : forall rid, In rid l <-> exists r, In r (st_refs st) /\ r_id r = rid /\ rmodel r = m /\ r_val r = old).
  { intros rid. rewrite <- (rt_exact _ _ _ Hrt). rewrite (tget_lookup _ _ _ TG). tauto. }
  assert (Hrids : forall rid, In rid (rev l) -> rid < st_next st).
  { intros rid Hin. apply in_rev in Hin. apply Hl in Hin. destruct Hin as [r [Hr [<- _]]]. apply (rt_lt _ _ _ Hrt); auto. }
  destruct (rebind_spec _ _ _ _ _ _ _ RB Hrids (rt_lt _ _ _ Hrt) (rt_nodup _ _ _ Hrt))
    as [Hle [Hlt' [Hnd' [Hndi [Hge [HA [HB HC]]]]]]].
  assert (Hidsne : ids <> []).
  { destruct (rev l) as [|rid t] eqn:RL.
    - exfalso. apply Hlne. rewrite <- (rev_involutive l), RL. reflexivity.
    - assert (Hin : In rid l) by (apply in_rev; rewrite RL; simpl; auto).
      apply Hl in Hin. destruct Hin as [r [Hr [Hid _]]]. eapply rebind_nonempty; eauto. }
  set (tb' := tset (m, new) ids (tdel (m, old) (st_tab st))).
  assert (Hnew : tget (m, new) tb' = Some ids) by apply tget_tset_same.
  assert (Hother : forall k, k <> (m, new) -> k <> (m, old) -> tget k tb' = tget k (st_tab st)).
  { intros k H1 H2. unfold tb'. rewrite tget_tset_other by congruence. apply tget_tdel_other. congruence. }
  assert (Hold : (m, old) <> (m, new) -> tget (m, old) tb' = None).
  { intros H1. unfold tb'. rewrite tget_tset_other by congruence. apply tget_tdel_same. }
  (* the specs *)
  assert (Hsp' : SP sp' nx' /\ Live None tb' sp' /\ NotClosed (st_closed st) sp' /\
                 (forall s, In s (st_specs st) -> exists s', In s' sp' /\ s_id s' = s_id s /\ s_grp s' = s_grp s)).
  { unfold sp_r in SPR. destruct (get_spec m old (st_specs st)) as [su|] eqn:G.
    - destruct (accepts (s_kind su) vk); [|discriminate]. inversion SPR; subst sp'; clear SPR.
      apply get_spec_some in G. destruct G as [Hsu [Hsug Hsuv]].
      assert (Hupd : forall s, In s (st_specs st) -> s_id s = s_id su -> s = su).
      { intros s Hs E. eapply NoDup_map_inj; [apply (sp_nodup _ _ Hsp)| | |]; eauto. }
      assert (Hnoother : forall s, In s (st_specs st) -> s <> su -> s_grp s = m -> s_val s = new -> False).
      { intros s Hs Hne Hg Hv. destruct Hguard as [E|E].
        - subst new. apply Hne. eapply (sp_uniq _ _ Hsp); eauto; congruence.
        - apply (Hlive s Hs); [discriminate|]. rewrite Hg, Hv. auto. }
      split; [constructor|split; [|split]].
      + intros s' Hs'. apply in_set_spec_val in Hs'. destruct Hs' as [s [Hs ->]].
        pose proof (sp_lt _ _ Hsp s Hs). destruct (N.eqb (s_id s) (s_id su)); simpl; lia.
      + unfold set_spec_val. rewrite map_map.
        erewrite map_ext; [apply (sp_nodup _ _ Hsp)|]. intros s. simpl. destruct (N.eqb (s_id s) (s_id su)); auto.
      + intros s1' s2' H1 H2 Eg Ev. apply in_set_spec_val in H1, H2.
        destruct H1 as [s1 [H1 ->]], H2 as [s2 [H2 ->]].
        destruct (N.eqb (s_id s1) (s_id su)) eqn:E1, (N.eqb (s_id s2) (s_id su)) eqn:E2; simpl in *.
        * apply N.eqb_eq in E1, E2. rewrite (Hupd s1 H1 E1), (Hupd s2 H2 E2). auto.
        * apply N.eqb_eq in E1. apply N.eqb_neq in E2. rewrite (Hupd s1 H1 E1) in *.
          exfalso. apply (Hnoother s2 H2); try congruence.
        * apply N.eqb_eq in E2. apply N.eqb_neq in E1. rewrite (Hupd s2 H2 E2) in *.
          exfalso. apply (Hnoother s1 H1); try congruence.
        * eapply (sp_uniq _ _ Hsp); eauto.
      + intros s1' s2' H1 H2 Eg Ep Hne. apply in_set_spec_val in H1, H2.
        destruct H1 as [s1 [H1 ->]], H2 as [s2 [H2 ->]].
        assert (Hne0 : s1 <> s2) by (intros E; subst; apply Hne; auto).
        assert (K : s_kind s1 = KExcel /\ exists a b, s_sheet s1 = Some a /\ s_sheet s2 = Some b /\ a <> b).
        { apply (sp_loc _ _ Hsp); auto.
          - destruct (N.eqb (s_id s1) (s_id su)), (N.eqb (s_id s2) (s_id su)); simpl in Eg; auto.
          - destruct (N.eqb (s_id s1) (s_id su)), (N.eqb (s_id s2) (s_id su)); simpl in Ep; auto. }
        destruct (N.eqb (s_id s1) (s_id su)), (N.eqb (s_id s2) (s_id su)); simpl; auto.
      + intros s1' s2' H1 H2. apply in_set_spec_val in H1, H2.
        destruct H1 as [s1 [H1 ->]], H2 as [s2 [H2 ->]].
        pose proof (sp_io _ _ Hsp s1 s2 H1 H2) as K.
        destruct (N.eqb (s_id s1) (s_id su)), (N.eqb (s_id s2) (s_id su)); simpl; auto.
      + intros s' Hs' _. apply in_set_spec_val in Hs'. destruct Hs' as [s [Hs ->]].
        destruct (N.eqb (s_id s) (s_id su)) eqn:E; simpl.
        * apply N.eqb_eq in E. rewrite (Hupd s Hs E), Hsug, Hnew. discriminate.
        * apply N.eqb_neq in E.
          destruct (key_dec (s_grp s, s_val s) (m, new)) as [K|K]; [rewrite K, Hnew; discriminate|].
          rewrite Hother; auto; [apply Hlive; auto; discriminate|].
          intros K2. inversion K2. apply E. f_equal. eapply (sp_uniq _ _ Hsp); eauto; congruence.
      + intros s' Hs'. apply in_set_spec_val in Hs'. destruct Hs' as [s [Hs ->]].
        destruct (N.eqb (s_id s) (s_id su)); simpl; apply Hcl; auto.
      + intros s Hs. eexists. split; [apply in_set_spec_val; exists s; split; eauto|].
        destruct (N.eqb (s_id s) (s_id su)); simpl; auto.
    - inversion SPR; subst sp'; clear SPR. split; [|split; [|split]]; auto.
      + eapply SP_mono; eauto.
      + intros s Hs _.
        destruct (key_dec (s_grp s, s_val s) (m, new)) as [K|K]; [rewrite K, Hnew; discriminate|].
        rewrite Hother; auto; [apply Hlive; auto; discriminate|].
        intros K2. inversion K2. eapply get_spec_none; eauto.
      + intros s Hs. exists s; auto. }
  destruct Hsp' as [HSP' [HLive' [HCl' HKeep]]].
  split.
  - constructor; simpl; fold tb'; auto.
    constructor.
    + auto.
    + auto.
    + intros k l0 Hk. destruct (key_dec k (m, new)) as [->|K1].
      * rewrite Hnew in Hk. inversion Hk; subst. auto.
      * destruct (key_dec k (m, old)) as [->|K2].
        -- rewrite Hold in Hk by congruence. discriminate.
        -- rewrite Hother in Hk; auto. apply (rt_ne _ _ _ Hrt _ _ Hk).
    + intros m0 v0 rid. destruct (key_dec (m0, v0) (m, new)) as [K1|K1].
      * inversion K1; subst m0 v0. rewrite (tget_lookup _ _ _ Hnew). split.
        -- intros Hin. destruct (HC rid Hin) as [r' [Hr' Hid]]. exists r'. split; auto. split; auto.
           destruct (HA r' Hr') as [[H1 _]|[_ [Hv [r0 [H0 [H0t [Ho _]]]]]]].
           ++ exfalso. pose proof (rt_lt _ _ _ Hrt r' H1). specialize (Hge rid Hin). lia.
           ++ split; auto. apply in_rev in H0t. apply Hl in H0t.
              destruct H0t as [r1 [Hr1 [Hid1 [Hm1 _]]]].
              assert (r1 = r0) by (eapply NoDup_map_inj; [apply (rt_nodup _ _ _ Hrt)| | |]; eauto). subst r1.
              unfold rmodel in *. congruence.
        -- intros [r' [Hr' [Hid [Hm' Hv']]]]. destruct (HA r' Hr') as [[H1 Hni]|[Hi _]]; [|congruence].
           exfalso. destruct Hguard as [E|E].
           ++ subst new. apply Hni. apply -> in_rev. apply Hl. exists r'; auto.
           ++ assert (Hin : In (r_id r') (lookup (m, new) (st_tab st))).
              { apply (rt_exact _ _ _ Hrt). exists r'; auto. }
              rewrite (lookup_none _ _ E) in Hin. contradiction.
      * destruct (key_dec (m0, v0) (m, old)) as [K2|K2].
        -- inversion K2; subst m0 v0. rewrite (lookup_none _ _ (Hold K1)). split; [intros []|].
           intros [r' [Hr' [Hid [Hm' Hv']]]]. destruct (HA r' Hr') as [[H1 Hni]|[_ [Hv _]]].
           ++ apply Hni. apply -> in_rev. apply Hl. exists r'; auto.
           ++ apply K1. congruence.
        -- unfold lookup at 1. rewrite Hother; auto. fold (lookup (m0, v0) (st_tab st)).
           rewrite (rt_exact _ _ _ Hrt). split.
           ++ intros [r [Hr [Hid [Hm0 Hv0]]]]. exists r. split; auto. apply HB; auto.
              intros Hin. apply in_rev in Hin. apply Hl in Hin. destruct Hin as [r1 [Hr1 [Hid1 [Hm1 Hv1]]]].
              assert (r1 = r) by (eapply NoDup_map_inj; [apply (rt_nodup _ _ _ Hrt)| | |]; eauto). subst r1.
              apply K2. congruence.
           ++ intros [r' [Hr' [Hid [Hm' Hv']]]]. destruct (HA r' Hr') as [[H1 _]|[_ [Hv [r0 [H0 [H0t [Ho _]]]]]]].
              ** exists r'; auto.
              ** exfalso. apply K1. apply in_rev in H0t. apply Hl in H0t.
                 destruct H0t as [r1 [Hr1 [Hid1 [Hm1 _]]]].
                 assert (r1 = r0) by (eapply NoDup_map_inj; [apply (rt_nodup _ _ _ Hrt)| | |]; eauto). subst r1.
                 unfold rmodel in *. congruence.
  - intros s Hs. left. simpl. apply HKeep; auto.
Qed.

(** ** close *)
Lemma in_fold_del l : forall sp s,
  In s (fold_left (fun sp sid => del_spec sid sp) l sp) <-> In s sp /\ ~ In (s_id s) l.
Proof.
  induction l as [|a l IH]; intros sp s; simpl.
  - tauto.
  - rewrite IH, in_del_spec. split.
    + intros [[H1 H2] H3]. split; auto. intros [E|E]; auto.
    + intros [H1 H2]. split; [split|]; auto.
Qed.
Lemma SP_fold_del l : forall sp nx, SP sp nx -> SP (fold_left (fun sp sid => del_spec sid sp) l sp) nx.
Proof.
  induction l as [|a l IH]; intros sp nx H; simpl; auto. apply IH. apply SP_filter; auto.
Qed.

Lemma close_inv st m st' : Inv st -> close st m = Ok st' -> Inv st' /\ Keeps st st'.
Proof.
  intros [Hrt Hsp Hlive Hcl]. unfold close. destruct (is_closed st m) eqn:C; [discriminate|].
  intros H; inversion H; subst st'; clear H.
  set (sids := all_specs_of m (st_tab st) (st_specs st)).
  assert (Hgone : forall s, In s (st_specs st) -> s_grp s = m -> In (s_id s) sids).
  { intros s Hs Hg. assert (Hk := Hlive s Hs). destruct (tget (s_grp s, s_val s) (st_tab st)) as [l|] eqn:TG.
    - apply tget_in in TG. unfold sids, all_specs_of. apply in_flat_map. exists ((s_grp s, s_val s), l).
      split; auto. simpl. rewrite Hg, N.eqb_refl.
      destruct (get_spec m (s_val s) (st_specs st)) as [s0|] eqn:G.
      + apply get_spec_some in G. destruct G as [H0 [Hm Hv]].
        assert (s0 = s) by (eapply (sp_uniq _ _ Hsp); eauto; congruence). subst. simpl; auto.
      + exfalso. eapply get_spec_none; eauto.
    - exfalso. apply Hk; auto. discriminate. }
  assert (Hsids : forall sid, In sid sids -> exists s0, In s0 (st_specs st) /\ s_grp s0 = m /\ s_id s0 = sid).
  { intros sid Hin. unfold sids, all_specs_of in Hin. apply in_flat_map in Hin. destruct Hin as [e [_ Hin]].
    destruct (N.eqb (fst (fst e)) m); [|contradiction].
    destruct (get_spec m (snd (fst e)) (st_specs st)) as [s0|] eqn:G; [|contradiction].
    destruct Hin as [<-|[]]. apply get_spec_some in G. exists s0. tauto. }
  split.
  - constructor; simpl; auto.
    + apply SP_fold_del; auto.
    + intros s Hs _. apply in_fold_del in Hs. apply Hlive; [tauto|discriminate].
    + intros s Hs. apply in_fold_del in Hs. destruct Hs as [Hs Hni]. simpl. intros [E|E].
      * apply Hni. apply -> in_rev. apply Hgone; auto.
      * apply (Hcl s Hs); auto.
  - intros s Hs. simpl. destruct (N.eq_dec (s_grp s) m) as [E|E].
    + right; left. auto.
    + left. exists s. split; auto. apply in_fold_del. split; auto.
      intros Hin. apply in_rev in Hin. destruct (Hsids _ Hin) as [s0 [H0 [Hm Hid]]].
      assert (s0 = s) by (eapply NoDup_map_inj; [apply (sp_nodup _ _ Hsp)| | |]; eauto). subst. auto.
Qed.

(** ** the remaining operations do not touch references, table or specs *)
Lemma Inv_with_graph ex st sp bs cl : Inv' ex st -> Inv' ex (with_graph st sp bs cl).
Proof. intros [H1 H2 H3 H4]. constructor; auto. Qed.

Lemma graph_op_inv st r :
  Inv st -> (forall st', r = Ok st' -> exists sp bs cl, st' = with_graph st sp bs cl) ->
  Inv (fst (finish st r)) /\ Keeps st (fst (finish st r)).
Proof.
  intros HI H. destruct r as [st'| |]; cbn [finish fst].
  - destruct (H st' eq_refl) as [sp [bs [cl ->]]]. split; [apply Inv_with_graph; auto|apply Keeps_same; auto].
  - split; [auto|apply Keeps_same; auto].
  - split; [auto|apply Keeps_same; auto].
Qed.

Lemma new_space_shape st m s st' : new_space st m s = Ok st' -> exists sp bs cl, st' = with_graph st sp bs cl.
Proof.
  unfold new_space. destruct (is_closed st m); [discriminate|]. destruct (is_space st m s); [discriminate|].
  destruct (find_ref _ _ _); [discriminate|]. intros H; inversion H. eauto.
Qed.
Lemma new_cells_shape fuel st m s n st' : new_cells fuel st m s n = Ok st' -> exists sp bs cl, st' = with_graph st sp bs cl.
Proof.
  unfold new_cells. destruct (is_closed st m); [discriminate|].
  destruct (negb (is_space st m s) || negb (valid_name n)); [discriminate|].
  destruct (has_name fuel st (st_bases st) m s n) as [here| |]; cbn [bind]; try discriminate.
  destruct (descendants fuel st (st_bases st) m s) as [ds| |]; cbn [bind]; try discriminate.
  match goal with |- context [any_res ?f ?l] => destruct (any_res f l) as [clash| |] end;
    cbn [bind]; try discriminate.
  destruct (here || clash); [discriminate|]. intros H; inversion H. eauto.
Qed.
Lemma add_base_shape fuel st m s b st' : add_base fuel st m s b = Ok st' -> exists sp bs cl, st' = with_graph st sp bs cl.
Proof.
  unfold add_base. destruct (is_closed st m); [discriminate|].
  destruct (negb (is_space st m s && is_space st m b)); [discriminate|].
  destruct (anc fuel (st_bases st) m b) as [ab| |]; simpl; try discriminate.
  destruct (memN s ab); [discriminate|].
  destruct (graph_ok _ _ _ _ _) as [[|]| |]; try discriminate. intros H; inversion H. eauto.
Qed.
Lemma remove_base_shape fuel st m s b st' : remove_base fuel st m s b = Ok st' -> exists sp bs cl, st' = with_graph st sp bs cl.
Proof.
  unfold remove_base. destruct (is_closed st m); [discriminate|].
  destruct (negb (is_space st m s && is_space st m b)); [discriminate|].
  destruct (negb (memN b (bases_of (st_bases st) m s))); [discriminate|].
  destruct (graph_ok _ _ _ _ _) as [[|]| |]; try discriminate. intros H; inversion H. eauto.
Qed.

(** ** operations on the spec itself: sheet, path, explicit deletion *)
Definition KeepsX (e : option key) (st st' : state) : Prop :=
  forall s, In s (st_specs st) ->
    (exists s', In s' (st_specs st') /\ s_id s' = s_id s /\ s_grp s' = s_grp s)
    \/ In (s_grp s) (st_closed st')
    \/ tget (s_grp s, s_val s) (st_tab st') = None
    \/ e = Some (s_grp s, s_val s).
Lemma Keeps_X e st st' : Keeps st st' -> KeepsX e st st'.
Proof. intros H s Hs. destruct (H s Hs) as [K|[K|K]]; auto. Qed.

Lemma SP_map sp nx (f : spec -> spec) :
  SP sp nx ->
  (forall s, s_id (f s) = s_id s /\ s_io (f s) = s_io s /\ s_grp (f s) = s_grp s /\
             s_val (f s) = s_val s /\ s_kind (f s) = s_kind s) ->
  (forall s s', In s sp -> In s' sp -> s <> s' -> s_grp s = s_grp s' -> s_path (f s) = s_path (f s') ->
      s_kind s = KExcel /\ exists a b, s_sheet (f s) = Some a /\ s_sheet (f s') = Some b /\ a <> b) ->
  (forall s s', In s sp -> In s' sp -> s_grp s = s_grp s' -> (s_path (f s) = s_path (f s') <-> s_path s = s_path s')) ->
  SP (map f sp) nx.
Proof.
  intros [Hlt Hnd Hun Hloc Hio] Hf H3 H4. constructor.
  - intros s' Hs'. apply in_map_iff in Hs'. destruct Hs' as [s [<- Hs]].
    destruct (Hf s) as [E1 [E2 _]]. rewrite E1, E2. apply Hlt; auto.
  - rewrite map_map. erewrite map_ext; [apply Hnd|]. intros s. apply (Hf s).
  - intros s1' s2' H1 H2 Eg Ev. apply in_map_iff in H1, H2.
    destruct H1 as [s1 [<- H1]], H2 as [s2 [<- H2]].
    destruct (Hf s1) as [_ [_ [G1 [V1 _]]]], (Hf s2) as [_ [_ [G2 [V2 _]]]].
    f_equal. apply Hun; auto; congruence.
  - intros s1' s2' H1 H2 Eg Ep Hne. apply in_map_iff in H1, H2.
    destruct H1 as [s1 [<- H1]], H2 as [s2 [<- H2]].
    destruct (Hf s1) as [_ [_ [G1 [_ K1]]]], (Hf s2) as [_ [_ [G2 _]]].
    assert (Hne0 : s1 <> s2) by (intros E; subst; apply Hne; auto).
    destruct (H3 s1 s2 H1 H2 Hne0 ltac:(congruence) Ep) as [K R]. split; [congruence|auto].
  - intros s1' s2' H1 H2. apply in_map_iff in H1, H2.
    destruct H1 as [s1 [<- H1]], H2 as [s2 [<- H2]].
    destruct (Hf s1) as [_ [I1 [G1 [_ K1]]]], (Hf s2) as [_ [I2 [G2 [_ K2]]]].
    destruct (Hio s1 s2 H1 H2) as [Hiff Hk]. rewrite I1, I2, G1, G2, K1, K2. split; auto. split.
    + intros [Eg Ep]. apply Hiff. split; auto. apply (H4 s1 s2 H1 H2 Eg); auto.
    + intros E. apply Hiff in E. destruct E as [Eg Ep]. split; auto. apply (H4 s1 s2 H1 H2 Eg); auto.
Qed.

Lemma Inv_map st (f : spec -> spec) :
  Inv st ->
  (forall s, s_id (f s) = s_id s /\ s_io (f s) = s_io s /\ s_grp (f s) = s_grp s /\
             s_val (f s) = s_val s /\ s_kind (f s) = s_kind s) ->
  SP (map f (st_specs st)) (st_next st) ->
  Inv (with_specs st (map f (st_specs st))) /\ Keeps st (with_specs st (map f (st_specs st))).
Proof.
  intros [Hrt Hsp Hlive Hcl] Hf HSP. split.
  - constructor; simpl; auto.
    + intros s' Hs' _. apply in_map_iff in Hs'. destruct Hs' as [s [<- Hs]].
      destruct (Hf s) as [_ [_ [G [V _]]]]. rewrite G, V. apply Hlive; auto. discriminate.
    + intros s' Hs'. apply in_map_iff in Hs'. destruct Hs' as [s [<- Hs]].
      destruct (Hf s) as [_ [_ [G _]]]. rewrite G. apply Hcl; auto.
  - intros s Hs. left. exists (f s). simpl. split; [apply in_map; auto|].
    destruct (Hf s) as [I [_ [G _]]]. auto.
Qed.

Lemma set_sheet_inv st m v sh st' : Inv st -> set_sheet st m v sh = Ok st' -> Inv st' /\ Keeps st st'.
Proof.
  intros HI. pose proof HI as [Hrt Hsp Hlive Hcl]. unfold set_sheet.
  destruct (is_closed st m); [discriminate|].
  destruct (get_spec m v (st_specs st)) as [su|] eqn:G; [|discriminate].
  apply get_spec_some in G. destruct G as [Hsu _].
  set (file := filter (same_file (s_grp su) (s_path su)) (st_specs st)).
  set (f := fun c => if N.eqb (s_id c) (s_id su) then with_sheet c sh else c).
  assert (Hbody :
    (if existsb (fun c => negb (N.eqb (s_id c) (s_id su))) file && match sh with None => true | Some _ => false end
     then Err
     else if forallb (fun c => can_update_other c su sh) file
          then Ok (with_specs st (map f (st_specs st))) else Err) = Ok st' -> Inv st' /\ Keeps st st').
  { destruct (existsb (fun c => negb (N.eqb (s_id c) (s_id su))) file &&
              match sh with None => true | Some _ => false end) eqn:GD; [discriminate|].
    destruct (forallb (fun c => can_update_other c su sh) file) eqn:FA; [|discriminate].
    intros H; inversion H; subst st'; clear H.
    rewrite forallb_forall in FA.
    assert (Hf : forall s, s_id (f s) = s_id s /\ s_io (f s) = s_io s /\ s_grp (f s) = s_grp s /\
                           s_val (f s) = s_val s /\ s_kind (f s) = s_kind s).
    { intros s. unfold f. destruct (N.eqb (s_id s) (s_id su)); simpl; auto. }
    assert (Hpath : forall s, s_path (f s) = s_path s).
    { intros s. unfold f. destruct (N.eqb (s_id s) (s_id su)); simpl; auto. }
    assert (Hupd : forall s, In s (st_specs st) -> s_id s = s_id su -> s = su).
    { intros s Hs E. eapply NoDup_map_inj; [apply (sp_nodup _ _ Hsp)| | |]; eauto. }
    (* another spec of the same file forces a named, different sheet *)
    assert (Hother : forall c, In c (st_specs st) -> c <> su -> s_grp c = s_grp su -> s_path c = s_path su ->
                     forall b, s_sheet c = Some b -> exists a, sh = Some a /\ a <> b).
    { intros c Hc Hne Eg Ep b Sb.
      assert (Hin : In c file) by (apply filter_In; split; auto; apply same_file_true; auto).
      assert (Hid : N.eqb (s_id c) (s_id su) = false).
      { apply N.eqb_neq. intros E. apply Hne. apply Hupd; auto. }
      destruct sh as [a|].
      - exists a. split; auto. specialize (FA c Hin). unfold can_update_other in FA.
        rewrite Hid, Sb in FA. simpl in FA. apply negb_true_iff, N.eqb_neq in FA. auto.
      - exfalso. apply andb_false_iff in GD. destruct GD as [GD|GD]; [|discriminate].
        assert (existsb (fun c0 => negb (N.eqb (s_id c0) (s_id su))) file = true).
        { apply existsb_exists. exists c. rewrite Hid. auto. }
        congruence. }
    apply Inv_map; auto. apply SP_map; auto.
    - intros s s' Hs Hs' Hne Eg Ep. rewrite !Hpath in Ep.
      destruct (sp_loc _ _ Hsp s s' Hs Hs' Eg Ep Hne) as [K [a [b [Sa [Sb Hab]]]]]. split; auto.
      unfold f. destruct (N.eqb (s_id s) (s_id su)) eqn:E1, (N.eqb (s_id s') (s_id su)) eqn:E2; simpl.
      + apply N.eqb_eq in E1, E2. exfalso. apply Hne. rewrite (Hupd s Hs E1), (Hupd s' Hs' E2). auto.
      + apply N.eqb_eq in E1. pose proof (Hupd s Hs E1) as ->.
        destruct (Hother s' Hs' (fun E => Hne (eq_sym E)) (eq_sym Eg) (eq_sym Ep) b Sb) as [a' [-> Hab']].
        exists a', b. auto.
      + apply N.eqb_eq in E2. pose proof (Hupd s' Hs' E2) as ->.
        destruct (Hother s Hs Hne Eg Ep a Sa) as [b' [-> Hab']]. exists a, b'. auto.
      + exists a, b. auto.
    - intros s s' Hs Hs' Eg. rewrite !Hpath. tauto. }
  destruct (s_kind su); auto; discriminate.
Qed.

Lemma set_path_inv st m v p st' : Inv st -> set_path st m v p = Ok st' -> Inv st' /\ Keeps st st'.
Proof.
  intros HI. pose proof HI as [Hrt Hsp Hlive Hcl]. unfold set_path.
  destruct (is_closed st m); [discriminate|].
  destruct (get_spec m v (st_specs st)) as [su|] eqn:G; [|discriminate].
  destruct (N.eqb p (s_path su)) eqn:EP.
  { intros H; inversion H; subst. split; auto. apply Keeps_same; auto. }
  apply N.eqb_neq in EP.
  destruct (existsb (same_file (s_grp su) p) (st_specs st)) eqn:EX; [discriminate|].
  intros H; inversion H; subst st'; clear H.
  set (f := fun c => if same_file (s_grp su) (s_path su) c then with_path c p else c).
  assert (Hfree : forall s, In s (st_specs st) -> s_grp s = s_grp su -> s_path s = p -> False).
  { intros s Hs Eg Ep0. assert (existsb (same_file (s_grp su) p) (st_specs st) = true).
    { apply existsb_exists. exists s. split; auto. apply same_file_true; auto. }
    congruence. }
  assert (Hf : forall s, s_id (f s) = s_id s /\ s_io (f s) = s_io s /\ s_grp (f s) = s_grp s /\
                         s_val (f s) = s_val s /\ s_kind (f s) = s_kind s).
  { intros s. unfold f. destruct (same_file (s_grp su) (s_path su) s); simpl; auto. }
  assert (Hsheet : forall s, s_sheet (f s) = s_sheet s).
  { intros s. unfold f. destruct (same_file (s_grp su) (s_path su) s); simpl; auto. }
  assert (H4 : forall s s', In s (st_specs st) -> In s' (st_specs st) -> s_grp s = s_grp s' ->
               (s_path (f s) = s_path (f s') <-> s_path s = s_path s')).
  { intros s s' Hs Hs' Eg. unfold f.
    destruct (same_file (s_grp su) (s_path su) s) eqn:F1, (same_file (s_grp su) (s_path su) s') eqn:F2; simpl.
    - apply same_file_true in F1, F2. destruct F1, F2. split; congruence.
    - apply same_file_true in F1. destruct F1 as [G1 P1]. split.
      + intros E. exfalso. apply (Hfree s' Hs'); congruence.
      + intros E. exfalso. assert (same_file (s_grp su) (s_path su) s' = true) by (apply same_file_true; split; congruence).
        congruence.
    - apply same_file_true in F2. destruct F2 as [G2 P2]. split.
      + intros E. exfalso. apply (Hfree s Hs); congruence.
      + intros E. exfalso. assert (same_file (s_grp su) (s_path su) s = true) by (apply same_file_true; split; congruence).
        congruence.
    - tauto. }
  apply Inv_map; auto. apply SP_map; auto.
  intros s s' Hs Hs' Hne Eg Ep. apply (H4 s s' Hs Hs' Eg) in Ep. rewrite !Hsheet.
  apply (sp_loc _ _ Hsp); auto.
Qed.

Lemma del_spec_op_inv st m v st' :
  Inv st -> del_spec_op st m v = Ok st' -> Inv st' /\ KeepsX (Some (m, v)) st st'.
Proof.
  intros HI. pose proof HI as [Hrt Hsp Hlive Hcl]. unfold del_spec_op.
  destruct (is_closed st m); [discriminate|].
  destruct (get_spec m v (st_specs st)) as [su|] eqn:G; [|discriminate].
  intros H; inversion H; subst st'; clear H. apply get_spec_some in G. destruct G as [Hsu [Hg Hv]]. split.
  - constructor; simpl; auto.
    + apply SP_filter; auto.
    + intros s Hs _. apply in_del_spec in Hs. apply Hlive; [tauto|discriminate].
    + intros s Hs. apply in_del_spec in Hs. apply Hcl; tauto.
  - intros s Hs. destruct (N.eq_dec (s_id s) (s_id su)) as [E|E].
    + right; right; right. assert (s = su) by (eapply NoDup_map_inj; [apply (sp_nodup _ _ Hsp)| | |]; eauto).
      subst. congruence.
    + left. exists s. simpl. split; auto. apply in_del_spec. auto.
Qed.

(** ** deleting a reference, deleting a space *)
Lemma del_attr_inv fuel st ow n st' : Inv st -> del_attr fuel st ow n = Ok st' -> Inv st' /\ Keeps st st'.
Proof.
  intros HI. unfold del_attr. destruct (is_closed st (fst ow)); [discriminate|].
  destruct (find_ref ow n (st_refs st)) as [r|] eqn:F; [|discriminate].
  intros H; inversion H; subst st'; clear H. apply find_ref_some in F. split.
  - apply rm_del_ref_inv; tauto.
  - apply rm_del_ref_keeps; auto.
Qed.

Lemma tget_tab_remove_none k k' x t : tget k t = None -> tget k (tab_remove k' x t) = None.
Proof.
  intros H. destruct (key_dec k' k) as [->|Hn].
  - rewrite tget_tab_remove_same, (lookup_none _ _ H). reflexivity.
  - rewrite tget_tab_remove_other; auto.
Qed.

Lemma del_refs_none k : forall l st,
  tget k (st_tab st) = None -> tget k (st_tab (fold_left rm_del_ref l st)) = None.
Proof.
  induction l as [|a l IH]; intros st H; simpl; auto.
  apply IH. simpl. apply tget_tab_remove_none; auto.
Qed.

Lemma del_refs_stay a l st :
  (forall r, In r (a :: l) -> In r (st_refs st)) -> NoDup (map r_id (a :: l)) ->
  forall r, In r l -> In r (st_refs (rm_del_ref st a)).
Proof.
  intros Hin Hnd r Hr. simpl. apply in_drop_ref. split; [apply Hin; simpl; auto|].
  simpl in Hnd. inversion Hnd as [|? ? Hna _]; subst. intros E. apply Hna. rewrite <- E. apply in_map; auto.
Qed.

Lemma del_refs_inv ex : forall l st,
  Inv' ex st -> (forall r, In r l -> In r (st_refs st)) -> NoDup (map r_id l) ->
  Inv' ex (fold_left rm_del_ref l st).
Proof.
  induction l as [|a l IH]; intros st HI Hin Hnd; simpl; auto.
  apply IH.
  - apply rm_del_ref_inv; auto. apply Hin; simpl; auto.
  - eapply del_refs_stay; eauto.
  - simpl in Hnd. inversion Hnd; auto.
Qed.

(** a spec that does not survive the deletion of a list of references has lost its last reference *)
Lemma del_refs_keeps : forall l st,
  Inv st -> (forall r, In r l -> In r (st_refs st)) -> NoDup (map r_id l) ->
  forall s, In s (st_specs st) ->
    In s (st_specs (fold_left rm_del_ref l st)) \/
    tget (s_grp s, s_val s) (st_tab (fold_left rm_del_ref l st)) = None.
Proof.
  induction l as [|a l IH]; intros st HI Hin Hnd s Hs; simpl; auto.
  assert (HI1 : Inv (rm_del_ref st a)) by (apply rm_del_ref_inv; auto; apply Hin; simpl; auto).
  assert (Hin1 : forall r, In r l -> In r (st_refs (rm_del_ref st a))) by (eapply del_refs_stay; eauto).
  assert (Hnd1 : NoDup (map r_id l)) by (simpl in Hnd; inversion Hnd; auto).
  pose proof (inv_sp _ _ HI) as HSP.
  assert (K : In s (st_specs (rm_del_ref st a)) \/
              tget (s_grp s, s_val s) (st_tab (rm_del_ref st a)) = None).
  { simpl.
    match goal with |- context [gc ?m ?v ?tb ?sp] => destruct (gc_keeps m v tb sp _ s HSP Hs) as [H|[Hn [Hm Hv]]] end.
    - left; auto.
    - right. rewrite Hm, Hv. auto. }
  destruct K as [K|K].
  - apply IH; auto.
  - right. apply del_refs_none; auto.
Qed.

Lemma del_space_inv fuel st m s st' : Inv st -> del_space fuel st m s = Ok st' -> Inv st' /\ Keeps st st'.
Proof.
  intros HI. unfold del_space.
  destruct (descendants fuel st (st_bases st) m s) as [ds| |]; cbn [bind]; try discriminate.
  destruct (map_res _ ds) as [ls| |]; cbn [bind]; try discriminate.
  intros H; inversion H; subst st'; clear H.
  set (l := filter (in_space m s) (st_refs st)).
  assert (Hin : forall r, In r l -> In r (st_refs st)).
  { intros r Hr. unfold l in Hr. apply filter_In in Hr. tauto. }
  assert (Hnd : NoDup (map r_id l)).
  { unfold l. apply NoDup_map_filter. apply (rt_nodup _ _ _ (inv_rt _ _ HI)). }
  split.
  - apply Inv_with_graph. apply del_refs_inv; auto.
  - intros sp Hsp. destruct (del_refs_keeps l st HI Hin Hnd sp Hsp) as [K|K].
    + left. exists sp. simpl. auto.
    + right; right. simpl. auto.
Qed.

Lemma del_model_attr_inv fuel st m n st' :
  Inv st -> del_model_attr fuel st m n = Ok st' -> Inv st' /\ Keeps st st'.
Proof.
  intros HI. unfold del_model_attr. destruct (is_closed st m); [discriminate|].
  destruct (is_space st m n).
  - apply del_space_inv; auto.
  - apply del_attr_inv; auto.
Qed.

(** * every step preserves the invariant *)
Ltac unchanged := cbn [finish fst]; split; [assumption|apply Keeps_X, Keeps_same; reflexivity].

Theorem step_inv fuel st o :
  Inv st -> Inv (fst (step fuel st o)) /\ KeepsX (explicit o) st (fst (step fuel st o)).
Proof.
  intros HI.
  destruct o as [m s|m s n|ow n p ft sh v vk|ow n p v ok|ow n v|ow n|m old new vk|m s b|m s b|m|m v sh|m v p|m v|m s];
    cbn [step explicit].
  - destruct (graph_op_inv st (new_space st m s) HI (new_space_shape st m s)); split; auto using Keeps_X.
  - destruct (graph_op_inv st (new_cells fuel st m s n) HI (new_cells_shape fuel st m s n)); split; auto using Keeps_X.
  - destruct (create_inv fuel st ow n p (kind_of_ft ft) (fun k => load_ok_pandas k vk) sh v HI); split; auto using Keeps_X.
  - destruct (create_inv fuel st ow n p KModule (fun k => match k with KModule => ok | _ => false end) None v HI);
      split; auto using Keeps_X.
  - destruct (is_closed st (fst ow)); [unchanged|].
    destruct (set_attr fuel st ow n v) as [st'| |] eqn:SA; [|unchanged|unchanged].
    cbn [finish fst]. split.
    + apply (set_attr_inv _ _ _ _ _ _ _ SA HI).
    + apply Keeps_X. apply (set_attr_keeps fuel st ow n v st' (or_introl HI) SA).
  - destruct (snd ow).
    + destruct (del_attr fuel st ow n) as [st'| |] eqn:U; [|unchanged|unchanged].
      cbn [finish fst]. destruct (del_attr_inv _ _ _ _ _ HI U). split; auto using Keeps_X.
    + destruct (del_model_attr fuel st (fst ow) n) as [st'| |] eqn:U; [|unchanged|unchanged].
      cbn [finish fst]. destruct (del_model_attr_inv _ _ _ _ _ HI U). split; auto using Keeps_X.
  - destruct (update st m old new vk) as [st'| |] eqn:U; [|unchanged|unchanged].
    cbn [finish fst]. destruct (update_inv _ _ _ _ _ _ HI U). split; auto using Keeps_X.
  - destruct (graph_op_inv st (add_base fuel st m s b) HI (add_base_shape fuel st m s b)); split; auto using Keeps_X.
  - destruct (graph_op_inv st (remove_base fuel st m s b) HI (remove_base_shape fuel st m s b)); split; auto using Keeps_X.
  - destruct (close st m) as [st'| |] eqn:U; [|unchanged|unchanged].
    cbn [finish fst]. destruct (close_inv _ _ _ HI U). split; auto using Keeps_X.
  - destruct (set_sheet st m v sh) as [st'| |] eqn:U; [|unchanged|unchanged].
    cbn [finish fst]. destruct (set_sheet_inv _ _ _ _ _ HI U). split; auto using Keeps_X.
  - destruct (set_path st m v p) as [st'| |] eqn:U; [|unchanged|unchanged].
    cbn [finish fst]. destruct (set_path_inv _ _ _ _ _ HI U). split; auto using Keeps_X.
  - destruct (del_spec_op st m v) as [st'| |] eqn:U; [|unchanged|unchanged].
    cbn [finish fst]. apply (del_spec_op_inv _ _ _ _ HI U).
  - destruct (del_model_attr fuel st m s) as [st'| |] eqn:U; [|unchanged|unchanged].
    cbn [finish fst]. destruct (del_model_attr_inv _ _ _ _ _ HI U). split; auto using Keeps_X.
Qed.

Lemma run_from_inv fuel ops : forall st, Inv st -> Inv (fold_left (fun st o => fst (step fuel st o)) ops st).
Proof.
  induction ops as [|o ops IH]; intros st HI; simpl; auto. apply IH. apply step_inv; auto.
Qed.
Theorem run_inv fuel ops : Inv (run fuel ops).
Proof. apply run_from_inv. apply Inv_init. Qed.
