(** Comparison functions used by the generated cases of the C03 correspondence
    check (harness/props/C03.py).  Plain Gallina, no lemmas needed.

    An observation of the implementation after one operation:
      outcome code, and per space
      (path, cells, refs, direct bases, bases, values of calling each cells)
    members are (name, (is_derived, payload)).  Dict orders are not compared. *)
From Coq Require Import List String Bool Arith ZArith.
From MX Require Import C3.Model Defs.Model.
Import ListNotations.

Definition obs_member : Type := string * (bool * payload).
Definition obs_space : Type :=
  path * (list obs_member * list obs_member) * (list path * list path) * list (string * option Z).
(** [None]: the harness did not look at the model after this operation *)
Definition obs : Type := nat * option (list obs_space).

Definition payload_eqb (a b : payload) : bool :=
  match a, b with
  | PVal x, PVal y => Z.eqb x y
  | PRead x, PRead y => String.eqb x y
  | _, _ => false
  end.

Fixpoint paths_eqb (a b : list path) : bool :=
  match a, b with
  | [], [] => true
  | x :: a', y :: b' => path_eqb x y && paths_eqb a' b'
  | _, _ => false
  end.

Definition optz_eqb (a b : option Z) : bool :=
  match a, b with
  | None, None => true
  | Some x, Some y => Z.eqb x y
  | _, _ => false
  end.

(** same set of (name, flag, payload), given that the observed names are distinct *)
Definition members_match (o : list obs_member) (ms : members) : bool :=
  Nat.eqb (List.length o) (List.length ms) &&
  forallb (fun e => match lookup (fst e) ms with
                    | Some m => Bool.eqb (fst (snd e)) (m_derived m) && payload_eqb (snd (snd e)) (m_pay m)
                    | None => false
                    end) o.

Definition reason_code (r : reason) : nat :=
  match r with
  | NoSuchSpace => 2 | SpaceExists => 3 | NoSuchBase => 4 | Cyclic => 5 | NoMro => 6
  | NotABase => 7 | NameConflict => 8 | NameInUse => 9 | NoSuchMember => 10 | IsDerived => 11
  end.

(** code 0 = accepted, 1 = rejected for a reason the driver cannot name, >= 2 = that reason *)
Definition outcome_matches (code : nat) (o : outcome) : bool :=
  match o with
  | Accepted => Nat.eqb code 0
  | Rejected r => Nat.eqb code 1 || Nat.eqb code (reason_code r)
  end.

Definition space_matches (g : graph) (s : space) (bases : list path) (o : obs_space) : bool :=
  match o with
  | (p, (oc, orf), (odirect, obases), oev) =>
      members_match oc (sp_cells s) && members_match orf (sp_refs s)
      && paths_eqb odirect (bases_of g p) && paths_eqb obases bases
      && forallb (fun e => optz_eqb (eval_cells s (fst e)) (snd e)) oev
  end.

Definition obs_path (o : obs_space) : path :=
  match o with (p, _, _, _) => p end.

(** (T): the model state against one observation *)
Definition state_matches (st : state) (os : list obs_space) : bool :=
  Nat.eqb (List.length os) (List.length (st_spaces st)) &&
  forallb (fun o => has_space (st_spaces st) (obs_path o)
                    && space_matches (st_graph st) (get (st_spaces st) (obs_path o))
                                     (bases_obs st (obs_path o)) o) os.

Fixpoint tie_from (st : state) (h : list op) (os : list obs) : bool :=
  match h, os with
  | [], [] => true
  | o :: h', (code, snap) :: os' =>
      let r := step st o in
      outcome_matches code (snd r)
      && match snap with Some s => state_matches (fst r) s | None => true end
      && tie_from (fst r) h' os'
  | _, _ => false
  end.

Definition check_tie (c : list op * list obs) : bool := tie_from init (fst c) (snd c).

(** (P): the implementation's own members against [rederive] of its own
    defined members and direct bases; its [bases] against [mro] *)
Definition to_members (o : list obs_member) : members :=
  map (fun e => (fst e, mkMember (snd (snd e)) (fst (snd e)))) o.

Definition snap_spaces (os : list obs_space) : spaces :=
  map (fun o => match o with (p, (oc, orf), _, _) => (p, mkSpace (to_members oc) (to_members orf)) end) os.

Definition snap_graph (os : list obs_space) : graph :=
  map (fun o => match o with (p, _, (odirect, _), _) => (p, odirect) end) os.

Definition check_snapshot (os : list obs_space) : bool :=
  let sp := snap_spaces os in
  let g := snap_graph os in
  forallb (fun o => is_ok (mro_of g (obs_path o))
                    && space_matches g (rederive_space g sp (obs_path o))
                                     (tl (mro_list g (obs_path o))) o) os.

Definition check_p (c : list op * list obs) : bool :=
  forallb (fun o => match snd o with Some s => check_snapshot s | None => true end) (snd c).

Definition check_both (c : list op * list obs) : bool := check_tie c && check_p c.

(** ---- suite (A): the linearisation alone ---- *)
Definition mro_matches (g : graph) (e : path * option (list path)) : bool :=
  match mro_of g (fst e), snd e with
  | Ok l, Some l' => paths_eqb l l'
  | Inconsistent, None => true
  | _, _ => false
  end.

Definition check_mro (c : graph * list (path * option (list path))) : bool :=
  forallb (mro_matches (fst c)) (snd c).

(** diagnostics: per step (outcome agrees, observation agrees) *)
Fixpoint tie_trace (st : state) (h : list op) (os : list obs) : list (bool * bool) :=
  match h, os with
  | o :: h', (code, snap) :: os' =>
      let r := step st o in
      (outcome_matches code (snd r), match snap with Some s => state_matches (fst r) s | None => true end)
      :: tie_trace (fst r) h' os'
  | _, _ => []
  end.
