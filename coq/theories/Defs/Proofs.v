(** Lemmas about [Defs/Model.v].
    Main result: [inv_run] - after every operation sequence every space equals
    its from-scratch re-derivation ([rederive_space]) from the defined members
    and the graph; consequences [run_rederive], [rederive_lookup],
    [derived_eval], [step_rejected_unchanged]. *)
From Coq Require Import List String Bool Arith ZArith Lia.
From MX Require Import C3.Model C3.Proofs Defs.Model.
Import ListNotations.

(** ---- association lists of spaces ---- *)
Lemma get_set sp p s q :
  get (set sp p s) q = if path_eqb q p && has_space sp p then s else get sp q.
Proof.
  unfold set, has_space, keys.
  induction sp as [|[k v] t IH]; simpl.
  - rewrite andb_false_r. reflexivity.
  - destruct (path_eqb_spec q p) as [E|Nqp].
    + subst q. simpl in IH. simpl.
      destruct (path_eqb_spec k p) as [->|N]; simpl.
      * rewrite path_eqb_refl. reflexivity.
      * rewrite (proj2 (path_eqb_neq k p) N).
        rewrite (proj2 (path_eqb_neq p k)) by congruence. simpl. exact IH.
    + simpl in IH. simpl.
      destruct (path_eqb_spec k p) as [->|N]; simpl.
      * rewrite (proj2 (path_eqb_neq p q)) by congruence. exact IH.
      * destruct (path_eqb k q); [reflexivity|exact IH].
Qed.

Lemma keys_set sp p s : keys (set sp p s) = keys sp.
Proof.
  unfold keys, set. rewrite map_map. apply map_ext.
  intros [k v]; simpl. destruct (path_eqb k p); reflexivity.
Qed.

Lemma has_space_In sp p : has_space sp p = true <-> In p (keys sp).
Proof. apply memb_In. Qed.

Lemma get_not_in sp p : ~ In p (keys sp) -> get sp p = empty_space.
Proof.
  induction sp as [|[k v] t IH]; simpl; [reflexivity|].
  intros H. destruct (path_eqb_spec k p) as [->|N]; [tauto|]. apply IH; tauto.
Qed.

Lemma get_In_NoDup sp p s : NoDup (keys sp) -> In (p, s) sp -> get sp p = s.
Proof.
  induction sp as [|[k v] t IH]; simpl; [easy|].
  intros ND [E|H].
  - inversion E; subst. rewrite path_eqb_refl. reflexivity.
  - inversion ND; subst.
    destruct (path_eqb_spec k p) as [->|N].
    + exfalso. apply H2. change (In (fst (p, s)) (map fst t)). apply in_map; assumption.
    + apply IH; assumption.
Qed.

Lemma get_app sp sp' q :
  get (sp ++ sp') q = if has_space sp q then get sp q else get sp' q.
Proof.
  unfold has_space, keys.
  induction sp as [|[k v] t IH]; simpl; [reflexivity|].
  rewrite (path_eqb_sym q k).
  destruct (path_eqb k q); simpl; [reflexivity|apply IH].
Qed.

Lemma map_fst_filter {A B} (f : A -> bool) (l : list (A * B)) :
  map fst (filter (fun e => f (fst e)) l) = filter f (map fst l).
Proof.
  induction l as [|[a b] t IH]; simpl; [reflexivity|].
  destruct (f a); simpl; rewrite IH; reflexivity.
Qed.

Lemma keys_del sp s : keys (del_space_entry sp s) = remove_path s (keys sp).
Proof.
  unfold keys, del_space_entry, remove_path.
  apply (map_fst_filter (fun x => negb (path_eqb x s))).
Qed.

Lemma get_del sp s q : q <> s -> get (del_space_entry sp s) q = get sp q.
Proof.
  intros N. unfold del_space_entry.
  induction sp as [|[k v] t IH]; simpl; [reflexivity|].
  destruct (path_eqb_spec k s) as [->|N2]; simpl.
  - rewrite (proj2 (path_eqb_neq s q)) by congruence. assumption.
  - destruct (path_eqb k q); [reflexivity|assumption].
Qed.

Lemma remove_path_In s l x : In x (remove_path s l) <-> In x l /\ x <> s.
Proof.
  unfold remove_path. rewrite filter_In, negb_true_iff, path_eqb_neq. tauto.
Qed.

Lemma remove_path_notin s l : ~ In s l -> remove_path s l = l.
Proof.
  unfold remove_path. induction l as [|x t IH]; simpl; [reflexivity|].
  intros H. destruct (path_eqb_spec x s) as [->|N]; simpl; [tauto|].
  rewrite IH; tauto.
Qed.

(** ---- graphs ---- *)
Lemma bases_of_not_in g x : ~ In x (nodes g) -> bases_of g x = [].
Proof.
  induction g as [|[k bs] t IH]; simpl; [reflexivity|].
  intros H. destruct (path_eqb_spec k x) as [->|N]; [tauto|]. apply IH; tauto.
Qed.

Lemma bases_of_app g g' x :
  bases_of (g ++ g') x = if memb x (nodes g) then bases_of g x else bases_of g' x.
Proof.
  induction g as [|[k bs] t IH]; simpl; [reflexivity|].
  rewrite (path_eqb_sym x k).
  destruct (path_eqb k x); simpl; [reflexivity|apply IH].
Qed.

Lemma nodes_set_bases g n bs : nodes (set_bases g n bs) = nodes g.
Proof.
  unfold nodes, set_bases. rewrite map_map. apply map_ext.
  intros [k v]; simpl. destruct (path_eqb k n); reflexivity.
Qed.

Lemma bases_of_set_bases_other g n bs x : x <> n -> bases_of (set_bases g n bs) x = bases_of g x.
Proof.
  intros N. unfold set_bases.
  induction g as [|[k v] t IH]; simpl; [reflexivity|].
  destruct (path_eqb_spec k n) as [->|N2]; simpl.
  - rewrite (proj2 (path_eqb_neq n x)) by congruence. assumption.
  - destruct (path_eqb k x); [reflexivity|assumption].
Qed.

Lemma nodes_del_node g s : nodes (del_node g s) = remove_path s (nodes g).
Proof.
  unfold nodes, del_node, remove_path. rewrite map_map. simpl.
  rewrite <- (map_fst_filter (fun x => negb (path_eqb x s))).
  reflexivity.
Qed.

Lemma bases_of_del_node g s x : x <> s -> bases_of (del_node g s) x = remove_path s (bases_of g x).
Proof.
  intros N. unfold del_node.
  induction g as [|[k v] t IH]; simpl; [reflexivity|].
  destruct (path_eqb_spec k s) as [->|N2]; simpl.
  - rewrite (proj2 (path_eqb_neq s x)) by congruence. assumption.
  - destruct (path_eqb k x); [reflexivity|assumption].
Qed.

Lemma all_mro_ok_at g p : all_mro_ok g = true -> In p (nodes g) -> exists l, mro_of g p = Ok l.
Proof.
  unfold all_mro_ok. rewrite forallb_forall. intros H Hp. specialize (H _ Hp).
  destruct (mro_of g p) as [l| |]; try discriminate. eauto.
Qed.

Lemma mro_list_ok g p l : mro_of g p = Ok l -> mro_list g p = l.
Proof. unfold mro_list. intros ->. reflexivity. Qed.

(** two graphs that agree on the declared bases of everything in the
    linearisation give the same linearisation *)
Lemma mro_agree g g1 p l l1 :
  mro_of g p = Ok l -> mro_of g1 p = Ok l1 ->
  (forall x, In x l -> bases_of g x = bases_of g1 x) -> l = l1.
Proof.
  unfold mro_of. intros H H1 A.
  assert (E : mro (S (List.length g)) g p = mro (S (List.length g)) g1 p).
  { apply mro_local. intros x Hx. apply A. eapply mro_anc_In; eauto. }
  rewrite E in H. eapply mro_det; eauto.
Qed.

Lemma subs_of_In g s p : In p (subs_of g s) <-> In p (nodes g) /\ In s (mro_list g p).
Proof. unfold subs_of. rewrite filter_In, memb_In. tauto. Qed.

(** ---- members ---- *)
Lemma filter_idem {A} (f : A -> bool) l : filter f (filter f l) = filter f l.
Proof.
  induction l as [|x t IH]; simpl; [reflexivity|].
  destruct (f x) eqn:E; simpl; [rewrite E, IH|]; auto.
Qed.

Lemma defined_members_idem ms : defined_members (defined_members ms) = defined_members ms.
Proof. apply filter_idem. Qed.

Lemma derive_all_derived : forall chain seen, defined_members (derive seen chain) = [].
Proof.
  induction chain as [|[n m] t IH]; intros seen; simpl; [reflexivity|].
  destruct (mem_str n seen); simpl; auto.
Qed.

Lemma defined_inherit own bases : defined_members (inherit own bases) = defined_members own.
Proof.
  unfold inherit, defined_members at 1. rewrite filter_app.
  fold (defined_members (defined_members own)).
  fold (defined_members (derive (map fst (defined_members own)) (List.concat (map defined_members bases)))).
  rewrite derive_all_derived, defined_members_idem, app_nil_r. reflexivity.
Qed.

Lemma inherit_ext own own' bases bases' :
  defined_members own = defined_members own' ->
  map defined_members bases = map defined_members bases' ->
  inherit own bases = inherit own' bases'.
Proof. unfold inherit. intros -> ->. reflexivity. Qed.

Lemma defined_sp_idem s : defined_sp (defined_sp s) = defined_sp s.
Proof. unfold defined_sp; simpl. rewrite !defined_members_idem. reflexivity. Qed.

Lemma defined_sp_inj_cells a b : defined_sp a = defined_sp b ->
  defined_members (sp_cells a) = defined_members (sp_cells b).
Proof. unfold defined_sp. intros H; inversion H; reflexivity. Qed.

Lemma defined_sp_inj_refs a b : defined_sp a = defined_sp b ->
  defined_members (sp_refs a) = defined_members (sp_refs b).
Proof. unfold defined_sp. intros H; inversion H; reflexivity. Qed.

(** ---- re-derivation of one space ---- *)
Lemma rederive_space_ext g g' sp sp' p :
  mro_list g p = mro_list g' p ->
  (forall q, q = p \/ In q (tl (mro_list g p)) -> defined_sp (get sp q) = defined_sp (get sp' q)) ->
  rederive_space g sp p = rederive_space g' sp' p.
Proof.
  intros E H. unfold rederive_space. rewrite <- E.
  f_equal; apply inherit_ext.
  - apply defined_sp_inj_cells, H; auto.
  - rewrite !map_map. apply map_ext_in. intros q Hq. apply defined_sp_inj_cells, H; auto.
  - apply defined_sp_inj_refs, H; auto.
  - rewrite !map_map. apply map_ext_in. intros q Hq. apply defined_sp_inj_refs, H; auto.
Qed.

Lemma defined_rederive_space g sp p : defined_sp (rederive_space g sp p) = defined_sp (get sp p).
Proof. unfold rederive_space, defined_sp; simpl. rewrite !defined_inherit. reflexivity. Qed.

Lemma get_defined_part sp q : get (defined_part sp) q = defined_sp (get sp q).
Proof.
  unfold defined_part. induction sp as [|[k v] t IH]; simpl; [reflexivity|].
  destruct (path_eqb k q); auto.
Qed.

Lemma rederive_space_defined_part g sp p :
  rederive_space g (defined_part sp) p = rederive_space g sp p.
Proof.
  apply rederive_space_ext; [reflexivity|].
  intros q _. rewrite get_defined_part. apply defined_sp_idem.
Qed.

(** ---- one on_inherit, a sequence of them ---- *)
Lemma defined_on_inherit g sp p q :
  defined_sp (get (on_inherit_at g sp p) q) = defined_sp (get sp q).
Proof.
  unfold on_inherit_at. rewrite get_set.
  destruct (path_eqb_spec q p) as [->|N]; simpl; [|reflexivity].
  destruct (has_space sp p); [|reflexivity].
  apply defined_rederive_space.
Qed.

Lemma update_subs_spec g : forall V sp,
  keys (update_subs g sp V) = keys sp /\
  (forall q, defined_sp (get (update_subs g sp V) q) = defined_sp (get sp q)) /\
  (forall q, In q V -> has_space sp q = true -> get (update_subs g sp V) q = rederive_space g sp q) /\
  (forall q, ~ In q V -> get (update_subs g sp V) q = get sp q).
Proof.
  induction V as [|v V IH]; intros sp; simpl.
  - repeat split; auto. intros q [].
  - destruct (IH (on_inherit_at g sp v)) as (K & D & R & U).
    assert (K' : keys (on_inherit_at g sp v) = keys sp) by apply keys_set.
    split; [congruence|]. split; [|split].
    + intros q. rewrite D. apply defined_on_inherit.
    + intros q Hq Hs.
      destruct (memb q V) eqn:M.
      * apply memb_In in M. rewrite R; auto.
        -- apply rederive_space_ext; [reflexivity|]. intros x _. apply defined_on_inherit.
        -- unfold has_space in *. rewrite K'. assumption.
      * apply memb_nIn in M. destruct Hq as [->|Hq]; [|contradiction].
        rewrite U by assumption. unfold on_inherit_at. rewrite get_set.
        rewrite path_eqb_refl, Hs. reflexivity.
    + intros q Hq. rewrite U by tauto.
      unfold on_inherit_at. rewrite get_set.
      destruct (path_eqb_spec q v) as [->|N]; simpl; [tauto|reflexivity].
Qed.

(** ---- the invariant ---- *)
Definition inv (st : state) : Prop :=
  NoDup (keys (st_spaces st)) /\
  keys (st_spaces st) = nodes (st_graph st) /\
  all_mro_ok (st_graph st) = true /\
  (forall p, In p (keys (st_spaces st)) ->
             get (st_spaces st) p = rederive_space (st_graph st) (st_spaces st) p).

Lemma inv_init : inv init.
Proof. unfold inv; simpl. repeat split; auto; try constructor. Qed.

(** generic commit: spaces in [V] are re-derived under the new graph; for the
    others the new re-derivation coincides with the old one *)
Lemma commit_correct sp g sp1 g1 V :
  inv (mkState sp g) ->
  NoDup (keys sp1) -> keys sp1 = nodes g1 -> all_mro_ok g1 = true ->
  (forall p, In p (keys sp1) -> ~ In p V ->
     In p (keys sp) /\ get sp1 p = get sp p /\ rederive_space g1 sp1 p = rederive_space g sp p) ->
  inv (mkState (update_subs g1 sp1 V) g1).
Proof.
  intros (ND & K & OK & R) ND1 K1 OK1 H. simpl in *.
  destruct (update_subs_spec g1 V sp1) as (K2 & D2 & R2 & U2).
  unfold inv; simpl. rewrite K2. repeat split; auto.
  intros p Hp.
  assert (X : rederive_space g1 (update_subs g1 sp1 V) p = rederive_space g1 sp1 p).
  { apply rederive_space_ext; [reflexivity|]. intros q _. apply D2. }
  rewrite X.
  destruct (memb p V) eqn:M.
  - apply memb_In in M. apply R2; auto. apply has_space_In; assumption.
  - apply memb_nIn in M. rewrite U2 by assumption.
    destruct (H p Hp M) as (Hk & E1 & E2). rewrite E1, E2. apply R; assumption.
Qed.

Lemma mro_of_head g p l : mro_of g p = Ok l -> In p l.
Proof. intros H. destruct (mro_head _ _ _ _ H) as [l' ->]. left; reflexivity. Qed.

(** member edits *)
Lemma inv_commit_members st s k ms :
  inv st -> inv (fst (commit_members st s k ms)).
Proof.
  destruct st as [sp g]. intros I. pose proof I as (ND & K & OK & R). simpl in *.
  unfold commit_members; simpl.
  apply commit_correct with (sp := sp) (g := g); auto.
  - rewrite keys_set; assumption.
  - rewrite keys_set; assumption.
  - intros p Hp Hv. rewrite keys_set in Hp.
    assert (Hn : In p (nodes g)) by congruence.
    destruct (all_mro_ok_at _ _ OK Hn) as [l Hl].
    assert (Hs : ~ In s l).
    { intros X. apply Hv. apply subs_of_In. split; [assumption|].
      rewrite (mro_list_ok _ _ _ Hl). assumption. }
    assert (Hne : forall q, In q l -> q <> s) by (intros q Hq ->; contradiction).
    split; [assumption|]. split.
    + rewrite get_set. rewrite (proj2 (path_eqb_neq p s)); [reflexivity|].
      apply Hne. eapply mro_of_head; eauto.
    + apply rederive_space_ext; [reflexivity|].
      rewrite (mro_list_ok _ _ _ Hl). intros q Hq.
      rewrite get_set. rewrite (proj2 (path_eqb_neq q s)); [reflexivity|].
      apply Hne. destruct Hq as [->|Hq]; [eapply mro_of_head; eauto|].
      destruct l; simpl in *; auto.
Qed.

(** base edits at one node *)
Lemma inv_set_bases sp g s bs :
  inv (mkState sp g) -> all_mro_ok (set_bases g s bs) = true ->
  inv (mkState (update_subs (set_bases g s bs) sp (subs_of (set_bases g s bs) s)) (set_bases g s bs)).
Proof.
  intros I OK1. pose proof I as (ND & K & OK & R). simpl in *.
  apply commit_correct with (sp := sp) (g := g); auto.
  - rewrite nodes_set_bases; assumption.
  - intros p Hp Hv.
    assert (Hn : In p (nodes g)) by congruence.
    assert (Hn1 : In p (nodes (set_bases g s bs))) by (rewrite nodes_set_bases; assumption).
    destruct (all_mro_ok_at _ _ OK Hn) as [l Hl].
    destruct (all_mro_ok_at _ _ OK1 Hn1) as [l1 Hl1].
    assert (Hs : ~ In s l1).
    { intros X. apply Hv. apply subs_of_In. split; [assumption|].
      rewrite (mro_list_ok _ _ _ Hl1). assumption. }
    assert (E : l1 = l).
    { eapply mro_agree; eauto. intros x Hx. apply bases_of_set_bases_other.
      intros ->; contradiction. }
    repeat split; auto.
    apply rederive_space_ext; [|reflexivity].
    rewrite (mro_list_ok _ _ _ Hl1), (mro_list_ok _ _ _ Hl). assumption.
Qed.

Lemma NoDup_app_single {A} (l : list A) x : ~ In x l -> NoDup l -> NoDup (l ++ [x]).
Proof.
  intros Hx ND. induction ND as [|y t Hy ND IH]; simpl.
  - constructor; [intros []|constructor].
  - constructor.
    + intros H. apply in_app_or in H. destruct H as [H|[H|[]]]; [contradiction|].
      subst. apply Hx. left; reflexivity.
    + apply IH. intros H. apply Hx. right; assumption.
Qed.

(** a new node *)
Lemma inv_new_space sp g s bs :
  inv (mkState sp g) -> has_space sp s = false ->
  all_mro_ok (g ++ [(s, bs)]) = true ->
  inv (mkState (update_subs (g ++ [(s, bs)]) (sp ++ [(s, empty_space)]) (subs_of (g ++ [(s, bs)]) s))
               (g ++ [(s, bs)])).
Proof.
  intros I Hs OK1. pose proof I as (ND & K & OK & R). simpl in *.
  assert (Hns : ~ In s (keys sp)).
  { intros X. apply has_space_In in X. congruence. }
  apply commit_correct with (sp := sp) (g := g); auto.
  - unfold keys in *. rewrite map_app. simpl.
    apply NoDup_app_single; assumption.
  - unfold keys, nodes in *. rewrite !map_app. simpl. congruence.
  - intros p Hp Hv.
    assert (Hn1 : In p (nodes (g ++ [(s, bs)]))).
    { unfold keys, nodes in *. rewrite map_app in *. simpl in *. rewrite <- K. assumption. }
    destruct (all_mro_ok_at _ _ OK1 Hn1) as [l1 Hl1].
    assert (Hsl : ~ In s l1).
    { intros X. apply Hv. apply subs_of_In. split; [assumption|].
      rewrite (mro_list_ok _ _ _ Hl1). assumption. }
    assert (Hps : p <> s).
    { intros ->. apply Hsl. eapply mro_of_head; eauto. }
    assert (Hk : In p (keys sp)).
    { unfold keys in *. rewrite map_app in Hp. apply in_app_or in Hp.
      destruct Hp as [Hp|[Hp|[]]]; [assumption|]. simpl in Hp. congruence. }
    assert (Hn : In p (nodes g)) by congruence.
    destruct (all_mro_ok_at _ _ OK Hn) as [l Hl].
    assert (Hb : forall x, x <> s -> bases_of (g ++ [(s, bs)]) x = bases_of g x).
    { intros x Hx. rewrite bases_of_app.
      destruct (memb x (nodes g)) eqn:M; [reflexivity|].
      apply memb_nIn in M. rewrite (bases_of_not_in _ _ M). simpl.
      rewrite (proj2 (path_eqb_neq s x)) by congruence. reflexivity. }
    assert (Hg : forall x, x <> s -> get (sp ++ [(s, empty_space)]) x = get sp x).
    { intros x Hx. rewrite get_app.
      destruct (has_space sp x) eqn:M; [reflexivity|].
      assert (M' : ~ In x (keys sp)) by (intros X; apply has_space_In in X; congruence).
      rewrite (get_not_in _ _ M'). simpl.
      rewrite (proj2 (path_eqb_neq s x)) by congruence. reflexivity. }
    assert (E : l1 = l).
    { eapply mro_agree; eauto. intros x Hx. apply Hb. intros ->; contradiction. }
    split; [assumption|]. split; [apply Hg; assumption|].
    apply rederive_space_ext.
    + rewrite (mro_list_ok _ _ _ Hl1), (mro_list_ok _ _ _ Hl). assumption.
    + rewrite (mro_list_ok _ _ _ Hl1). intros q Hq. rewrite Hg; [reflexivity|].
      intros ->. apply Hsl. destruct Hq as [Hq|Hq]; [congruence|].
      destruct l1; simpl in *; auto.
Qed.

(** deleting a node *)
Lemma inv_del_space sp g s :
  inv (mkState sp g) -> all_mro_ok (del_node g s) = true ->
  inv (mkState (update_subs (del_node g s) (del_space_entry sp s) (remove_path s (subs_of g s)))
               (del_node g s)).
Proof.
  intros I OK1. pose proof I as (ND & K & OK & R). simpl in *.
  apply commit_correct with (sp := sp) (g := g); auto.
  - rewrite keys_del. unfold remove_path. apply NoDup_filter. assumption.
  - rewrite keys_del, nodes_del_node. congruence.
  - intros p Hp Hv. rewrite keys_del in Hp. apply remove_path_In in Hp. destruct Hp as [Hp Hps].
    assert (Hn : In p (nodes g)) by congruence.
    assert (Hn1 : In p (nodes (del_node g s))).
    { rewrite nodes_del_node. apply remove_path_In. auto. }
    destruct (all_mro_ok_at _ _ OK Hn) as [l Hl].
    destruct (all_mro_ok_at _ _ OK1 Hn1) as [l1 Hl1].
    assert (Hsl : ~ In s l).
    { intros X. apply Hv. apply remove_path_In. split; [|assumption].
      apply subs_of_In. split; [assumption|]. rewrite (mro_list_ok _ _ _ Hl). assumption. }
    assert (E : l = l1).
    { eapply mro_agree; eauto. intros x Hx.
      assert (Hxs : x <> s) by (intros ->; contradiction).
      rewrite bases_of_del_node by assumption.
      symmetry. apply remove_path_notin. intros Hb. apply Hsl.
      pose proof (mro_local_precedence _ _ _ _ Hl x Hx) as Sub.
      eapply subseq_In; eauto. right; assumption. }
    split; [assumption|]. split; [apply get_del; assumption|].
    apply rederive_space_ext.
    + rewrite (mro_list_ok _ _ _ Hl1), (mro_list_ok _ _ _ Hl). congruence.
    + rewrite (mro_list_ok _ _ _ Hl1). subst l1. intros q Hq. rewrite get_del; [reflexivity|].
      intros ->. apply Hsl. destruct Hq as [Hq|Hq]; [subst; eapply mro_of_head; eauto|].
      destruct l; simpl in *; auto.
Qed.

Lemma inv_commit_graph st g1 sp1 V :
  inv st ->
  (all_mro_ok g1 = true -> inv (mkState (update_subs g1 sp1 V) g1)) ->
  inv (fst (commit_graph st g1 sp1 V)).
Proof.
  intros I H. unfold commit_graph, reject.
  destruct (all_mro_ok g1); simpl; [|assumption].
  destruct (all_no_clash (update_subs g1 sp1 V)); simpl; auto.
Qed.

Theorem inv_step st o : inv st -> inv (fst (step st o)).
Proof.
  intros I. destruct st as [sp g].
  destruct o; unfold step.
  - (* NewSpace *) unfold step_new_space, reject; cbn [st_spaces st_graph].
    destruct (has_space sp s) eqn:Hs; [exact I|].
    destruct (negb (forallb (has_space sp) bases)); [exact I|].
    apply inv_commit_graph; [exact I|]. intros OK1. apply inv_new_space; auto.
  - (* AddBases *) unfold step_add_bases, reject; cbn [st_spaces st_graph].
    destruct (negb (has_space sp s)); [exact I|].
    destruct (negb (forallb (has_space sp) bases)); [exact I|].
    destruct (existsb _ bases); [exact I|].
    apply inv_commit_graph; [exact I|]. intros OK1. apply inv_set_bases; auto.
  - (* RemoveBases *) unfold step_remove_bases, reject; cbn [st_spaces st_graph].
    destruct (negb (has_space sp s)); [exact I|].
    destruct (negb (forallb (has_space sp) bases)); [exact I|].
    destruct (remove_bases_seq (bases_of g s) bases) as [bs1|]; [|exact I].
    apply inv_commit_graph; [exact I|]. intros OK1. apply inv_set_bases; auto.
  - (* DelSpace *) unfold step_del_space, reject; cbn [st_spaces st_graph].
    destruct (negb (has_space sp s)); [exact I|].
    apply inv_commit_graph; [exact I|]. intros OK1. apply inv_del_space; auto.
  - (* NewCells *) unfold step_new, reject; cbn [st_spaces st_graph].
    destruct (negb (has_space sp s)); [exact I|].
    destruct (has n (sp_cells (get sp s)) || has n (sp_refs (get sp s))); [exact I|].
    destruct (existsb _ (subs_of g s)); [exact I|].
    apply inv_commit_members; exact I.
  - (* DelCells *) unfold step_del, reject; cbn [st_spaces st_graph].
    destruct (negb (has_space sp s)); [exact I|].
    destruct (lookup n (mem_of KCells (get sp s))) as [m|]; [|exact I].
    destruct (m_derived m); [exact I|].
    apply inv_commit_members; exact I.
  - (* SetFormula *) unfold step_set, reject; cbn [st_spaces st_graph].
    destruct (negb (has_space sp s)); [exact I|].
    destruct (negb (has n (mem_of KCells (get sp s)))); [exact I|].
    apply inv_commit_members; exact I.
  - (* NewRef *) unfold step_new, reject; cbn [st_spaces st_graph].
    destruct (negb (has_space sp s)); [exact I|].
    destruct (has n (sp_cells (get sp s)) || has n (sp_refs (get sp s))); [exact I|].
    destruct (existsb _ (subs_of g s)); [exact I|].
    apply inv_commit_members; exact I.
  - (* ChangeRef *) unfold step_set, reject; cbn [st_spaces st_graph].
    destruct (negb (has_space sp s)); [exact I|].
    destruct (negb (has n (mem_of KRefs (get sp s)))); [exact I|].
    apply inv_commit_members; exact I.
  - (* DelRef *) unfold step_del, reject; cbn [st_spaces st_graph].
    destruct (negb (has_space sp s)); [exact I|].
    destruct (lookup n (mem_of KRefs (get sp s))) as [m|]; [|exact I].
    destruct (m_derived m); [exact I|].
    apply inv_commit_members; exact I.
Qed.

Theorem inv_run_from : forall h st, inv st -> inv (run_from st h).
Proof.
  induction h as [|o h IH]; intros st I; simpl; [assumption|].
  apply IH. apply inv_step; assumption.
Qed.

Theorem inv_run h : inv (run h).
Proof. apply inv_run_from, inv_init. Qed.

(** ---- the property, from the invariant ---- *)
Lemma inv_rederive st : inv st ->
  st_spaces st = rederive (defined_part (st_spaces st)) (st_graph st).
Proof.
  destruct st as [sp g]. intros (ND & K & OK & R). simpl in *.
  unfold rederive, defined_part at 2. rewrite map_map. simpl.
  rewrite <- (map_id sp) at 1. apply map_ext_in. intros [p s] Hin. simpl.
  f_equal. rewrite rederive_space_defined_part.
  rewrite <- R.
  - symmetry. apply get_In_NoDup; assumption.
  - change (In (fst (p, s)) (map fst sp)). apply in_map; assumption.
Qed.

(** C03, model level: incremental maintenance = derivation from scratch, and
    [bases] is the tail of the linearisation, which exists *)
Theorem run_rederive h :
  st_spaces (run h) = rederive (defined_part (st_spaces (run h))) (st_graph (run h)) /\
  (forall s, In s (keys (st_spaces (run h))) ->
     exists l, mro_of (st_graph (run h)) s = Ok l /\ bases_obs (run h) s = tl l).
Proof.
  pose proof (inv_run h) as I. split; [apply inv_rederive; assumption|].
  destruct I as (ND & K & OK & R). intros s Hs. rewrite K in Hs.
  destruct (all_mro_ok_at _ _ OK Hs) as [l Hl]. exists l; split; [assumption|].
  unfold bases_obs. rewrite (mro_list_ok _ _ _ Hl). reflexivity.
Qed.

(** ---- what [rederive_space] says, name by name ---- *)
Lemma lookup_app n a b :
  lookup n (a ++ b) = match lookup n a with Some m => Some m | None => lookup n b end.
Proof.
  induction a as [|[k m] t IH]; simpl; [reflexivity|].
  destruct (String.eqb k n); auto.
Qed.

Lemma mem_str_names n (d : members) : mem_str n (map fst d) = has n d.
Proof.
  unfold has. induction d as [|[k m] t IH]; simpl; [reflexivity|].
  destruct (String.eqb k n); simpl; auto.
Qed.

Definition as_derived (m : member) : member := mkMember (m_pay m) true.

Lemma lookup_derive n : forall chain seen,
  lookup n (derive seen chain) =
  if mem_str n seen then None else option_map as_derived (lookup n chain).
Proof.
  induction chain as [|[k m] t IH]; intros seen; simpl.
  - destruct (mem_str n seen); reflexivity.
  - destruct (mem_str k seen) eqn:Mk.
    + rewrite IH. destruct (mem_str n seen) eqn:Mn; [reflexivity|].
      destruct (String.eqb_spec k n) as [->|N]; [congruence|reflexivity].
    + simpl. destruct (String.eqb_spec k n) as [->|N].
      * rewrite Mk. reflexivity.
      * rewrite IH. simpl. rewrite (proj2 (String.eqb_neq k n) N). simpl. reflexivity.
Qed.

Lemma lookup_chain k sp n : forall l,
  lookup n (List.concat (map defined_members (map (mem_of k) (map (get sp) l)))) = first_def k sp n l.
Proof.
  induction l as [|b t IH]; simpl; [reflexivity|].
  rewrite lookup_app, IH. reflexivity.
Qed.

Lemma mem_of_rederive k g sp p :
  mem_of k (rederive_space g sp p) =
  inherit (mem_of k (get sp p)) (map (mem_of k) (map (get sp) (tl (mro_list g p)))).
Proof. destruct k; unfold rederive_space; simpl; rewrite !map_map; reflexivity. Qed.

(** the specification function, name by name: the own defined member, else a
    derived copy of the first definer along the linearisation, else nothing *)
Theorem rederive_lookup k g sp p n :
  lookup n (mem_of k (rederive_space g sp p)) =
  match lookup n (defined_members (mem_of k (get sp p))) with
  | Some m => Some m
  | None => option_map as_derived (first_def k sp n (tl (mro_list g p)))
  end.
Proof.
  rewrite mem_of_rederive. unfold inherit. rewrite lookup_app.
  destruct (lookup n (defined_members (mem_of k (get sp p)))) as [m|] eqn:E; [reflexivity|].
  rewrite lookup_derive, mem_str_names. unfold has. rewrite E.
  rewrite lookup_chain. reflexivity.
Qed.

Lemma lookup_defined_Some n ms m :
  lookup n (defined_members ms) = Some m -> m_derived m = false.
Proof.
  unfold defined_members, defd. induction ms as [|[k x] t IH]; simpl; [discriminate|].
  destruct (m_derived x) eqn:D; simpl; [assumption|].
  destruct (String.eqb k n); [|assumption].
  intros E; inversion E; subst; assumption.
Qed.

Lemma first_def_defined k sp n : forall l m, first_def k sp n l = Some m -> m_derived m = false.
Proof.
  induction l as [|b t IH]; simpl; intros m; [discriminate|].
  destruct (lookup n (defined_members (mem_of k (get sp b)))) as [x|] eqn:E; [|apply IH].
  intros H; inversion H; subst. eapply lookup_defined_Some; eauto.
Qed.

(** every member of a reachable state, name by name *)
Theorem run_member_spec h k p n :
  In p (keys (st_spaces (run h))) ->
  lookup n (mem_of k (get (st_spaces (run h)) p)) =
  match lookup n (defined_members (mem_of k (get (st_spaces (run h)) p))) with
  | Some m => Some m
  | None => option_map as_derived (first_def k (st_spaces (run h)) n (bases_obs (run h) p))
  end.
Proof.
  intros Hp. destruct (inv_run h) as (_ & _ & _ & R).
  rewrite (R p Hp) at 1. apply rederive_lookup.
Qed.

(** a derived cells carries the formula of its first definer and evaluates
    with names resolved in the sub space *)
Theorem derived_eval h p n m :
  In p (keys (st_spaces (run h))) ->
  lookup n (sp_cells (get (st_spaces (run h)) p)) = Some m -> m_derived m = true ->
  exists md, first_def KCells (st_spaces (run h)) n (bases_obs (run h) p) = Some md /\
             m_pay m = m_pay md /\
             eval_cells (get (st_spaces (run h)) p) n =
             eval_payload (sp_refs (get (st_spaces (run h)) p)) (m_pay md).
Proof.
  intros Hp L D.
  pose proof (run_member_spec h KCells p n Hp) as S. simpl in S. rewrite L in S.
  destruct (lookup n (defined_members (sp_cells (get (st_spaces (run h)) p)))) as [x|] eqn:E.
  - inversion S; subst. apply lookup_defined_Some in E. congruence.
  - destruct (first_def KCells (st_spaces (run h)) n (bases_obs (run h) p)) as [md|]; [|discriminate].
    simpl in S. inversion S; subst. exists md. repeat split.
    unfold eval_cells. rewrite L. reflexivity.
Qed.

(** rejected operations change nothing *)
Theorem step_rejected_unchanged st o r : snd (step st o) = Rejected r -> fst (step st o) = st.
Proof.
  assert (CG : forall g1 sp1 V, snd (commit_graph st g1 sp1 V) = Rejected r ->
                                fst (commit_graph st g1 sp1 V) = st).
  { intros g1 sp1 V. unfold commit_graph, reject.
    destruct (negb (all_mro_ok g1)); [reflexivity|].
    destruct (negb (all_no_clash (update_subs g1 sp1 V))); [reflexivity|].
    cbn [snd]. discriminate. }
  assert (CM : forall s k ms, snd (commit_members st s k ms) = Rejected r ->
                              fst (commit_members st s k ms) = st).
  { intros s k ms. unfold commit_members. cbn [snd]. discriminate. }
  destruct o; unfold step.
  - unfold step_new_space, reject.
    destruct (has_space (st_spaces st) s); [reflexivity|].
    destruct (negb (forallb (has_space (st_spaces st)) bases)); [reflexivity|]. apply CG.
  - unfold step_add_bases, reject.
    destruct (negb (has_space (st_spaces st) s)); [reflexivity|].
    destruct (negb (forallb (has_space (st_spaces st)) bases)); [reflexivity|].
    destruct (existsb _ bases); [reflexivity|]. apply CG.
  - unfold step_remove_bases, reject.
    destruct (negb (has_space (st_spaces st) s)); [reflexivity|].
    destruct (negb (forallb (has_space (st_spaces st)) bases)); [reflexivity|].
    destruct (remove_bases_seq _ bases); [|reflexivity]. apply CG.
  - unfold step_del_space, reject.
    destruct (negb (has_space (st_spaces st) s)); [reflexivity|]. apply CG.
  - unfold step_new, reject.
    destruct (negb (has_space (st_spaces st) s)); [reflexivity|].
    destruct (has n _ || has n _); [reflexivity|].
    destruct (existsb _ _); [reflexivity|]. apply CM.
  - unfold step_del, reject.
    destruct (negb (has_space (st_spaces st) s)); [reflexivity|].
    destruct (lookup n _) as [m|]; [|reflexivity].
    destruct (m_derived m); [reflexivity|]. apply CM.
  - unfold step_set, reject.
    destruct (negb (has_space (st_spaces st) s)); [reflexivity|].
    destruct (negb (has n _)); [reflexivity|]. apply CM.
  - unfold step_new, reject.
    destruct (negb (has_space (st_spaces st) s)); [reflexivity|].
    destruct (has n _ || has n _); [reflexivity|].
    destruct (existsb _ _); [reflexivity|]. apply CM.
  - unfold step_set, reject.
    destruct (negb (has_space (st_spaces st) s)); [reflexivity|].
    destruct (negb (has n _)); [reflexivity|]. apply CM.
  - unfold step_del, reject.
    destruct (negb (has_space (st_spaces st) s)); [reflexivity|].
    destruct (lookup n _) as [m|]; [|reflexivity].
    destruct (m_derived m); [reflexivity|]. apply CM.
Qed.

(** ---- "exactly one": member names are unique in every space ---- *)
Lemma mem_str_In n l : mem_str n l = true <-> In n l.
Proof.
  induction l as [|x t IH]; simpl; [easy|].
  rewrite orb_true_iff, String.eqb_eq, IH. split; intros [H|H]; auto.
Qed.

Lemma derive_names : forall chain seen,
  NoDup (map fst (derive seen chain)) /\
  (forall n, In n (map fst (derive seen chain)) -> mem_str n seen = false).
Proof.
  induction chain as [|[k m] t IH]; intros seen; simpl.
  - split; [constructor|intros n []].
  - destruct (mem_str k seen) eqn:Mk.
    + apply IH.
    + destruct (IH (k :: seen)) as [ND F]. simpl. split.
      * constructor; [|assumption]. intros H. apply F in H. simpl in H.
        rewrite String.eqb_refl in H. discriminate.
      * intros n [<-|H]; [assumption|]. apply F in H. simpl in H.
        apply orb_false_iff in H. tauto.
Qed.

Lemma NoDup_app_disj {A} (a b : list A) :
  NoDup a -> NoDup b -> (forall x, In x a -> ~ In x b) -> NoDup (a ++ b).
Proof.
  intros Na Nb D. induction Na as [|x t Hx Na IH]; simpl; [assumption|].
  constructor.
  - intros X. apply in_app_or in X. destruct X as [X|X]; [contradiction|].
    apply (D x); [left; reflexivity|assumption].
  - apply IH. intros y Hy. apply D. right; assumption.
Qed.

Lemma NoDup_names_filter (f : string * member -> bool) (ms : members) :
  NoDup (map fst ms) -> NoDup (map fst (filter f ms)).
Proof.
  induction ms as [|[k m] t IH]; simpl; intros ND; [constructor|].
  inversion ND as [|? ? Hk ND']; subst.
  destruct (f (k, m)); simpl; [|auto].
  constructor; [|auto].
  intros X. apply Hk. apply in_map_iff in X. destruct X as ([k' m'] & E & Hin).
  simpl in E; subst. apply filter_In in Hin. apply in_map_iff. exists (k, m'). tauto.
Qed.

Lemma inherit_NoDup own bases :
  NoDup (map fst (defined_members own)) -> NoDup (map fst (inherit own bases)).
Proof.
  intros ND. unfold inherit. rewrite map_app.
  destruct (derive_names (List.concat (map defined_members bases)) (map fst (defined_members own))) as [ND2 F].
  apply NoDup_app_disj; auto.
  intros x Hx Hy. apply F in Hy. apply mem_str_In in Hx. congruence.
Qed.

Definition names_ok (sp : spaces) : Prop :=
  forall q k, NoDup (map fst (mem_of k (get sp q))).

Lemma rederive_space_names g sp p k :
  names_ok sp -> NoDup (map fst (mem_of k (rederive_space g sp p))).
Proof.
  intros N. rewrite mem_of_rederive. apply inherit_NoDup.
  apply NoDup_names_filter. apply N.
Qed.

Lemma names_ok_set sp p s :
  names_ok sp -> (forall k, NoDup (map fst (mem_of k s))) -> names_ok (set sp p s).
Proof.
  intros N Hs q k. rewrite get_set.
  destruct (path_eqb q p && has_space sp p); auto.
Qed.

Lemma names_ok_update_subs g : forall V sp, names_ok sp -> names_ok (update_subs g sp V).
Proof.
  induction V as [|v V IH]; intros sp N; simpl; [assumption|].
  apply IH. unfold on_inherit_at. apply names_ok_set; [assumption|].
  intros k. apply rederive_space_names; assumption.
Qed.

Lemma names_ok_new sp s : names_ok sp -> names_ok (sp ++ [(s, empty_space)]).
Proof.
  intros N q k. rewrite get_app. destruct (has_space sp q); [apply N|].
  simpl. destruct (path_eqb s q); destruct k; simpl; constructor.
Qed.

Lemma names_ok_del sp s : names_ok sp -> names_ok (del_space_entry sp s).
Proof.
  intros N q k. destruct (path_eqb_spec q s) as [->|Nq].
  - rewrite get_not_in.
    + destruct k; simpl; constructor.
    + rewrite keys_del. intros X. apply remove_path_In in X. tauto.
  - rewrite get_del by assumption. apply N.
Qed.

Lemma has_false_notin n (ms : members) : has n ms = false -> ~ In n (map fst ms).
Proof.
  rewrite <- mem_str_names. intros H X. apply mem_str_In in X. congruence.
Qed.

Lemma names_set_member n m (ms : members) : map fst (set_member n m ms) = map fst ms.
Proof.
  unfold set_member. rewrite map_map. apply map_ext. intros [k x]; simpl.
  destruct (String.eqb k n); reflexivity.
Qed.

Lemma names_ok_commit_graph st g1 sp1 V :
  names_ok (st_spaces st) -> names_ok sp1 ->
  names_ok (st_spaces (fst (commit_graph st g1 sp1 V))).
Proof.
  intros N N1. unfold commit_graph, reject.
  destruct (negb (all_mro_ok g1)); [exact N|].
  destruct (negb (all_no_clash (update_subs g1 sp1 V))); [exact N|].
  cbn [fst st_spaces]. apply names_ok_update_subs; assumption.
Qed.

Lemma names_ok_commit_members st s k ms :
  names_ok (st_spaces st) -> NoDup (map fst ms) ->
  names_ok (st_spaces (fst (commit_members st s k ms))).
Proof.
  intros N Hms. unfold commit_members. cbn [fst st_spaces].
  apply names_ok_update_subs. apply names_ok_set; [assumption|].
  intros k'. destruct k, k'; simpl; auto.
  - apply (N s KRefs).
  - apply (N s KCells).
Qed.

Theorem names_ok_step st o : names_ok (st_spaces st) -> names_ok (st_spaces (fst (step st o))).
Proof.
  intros N. destruct st as [sp g]. cbn [st_spaces] in N.
  assert (NEW : forall k s n p,
            names_ok (st_spaces (fst (step_new (mkState sp g) k s n p)))).
  { intros k s n p. unfold step_new, reject; cbn [st_spaces st_graph].
    destruct (negb (has_space sp s)); [exact N|].
    destruct (has n (sp_cells (get sp s)) || has n (sp_refs (get sp s))) eqn:H; [exact N|].
    destruct (existsb _ (subs_of g s)); [exact N|].
    apply names_ok_commit_members; [exact N|].
    rewrite map_app. simpl. apply NoDup_app_single; [|apply N].
    apply has_false_notin. apply orb_false_iff in H. destruct k; simpl; tauto. }
  assert (SET : forall k s n p,
            names_ok (st_spaces (fst (step_set (mkState sp g) k s n p)))).
  { intros k s n p. unfold step_set, reject; cbn [st_spaces st_graph].
    destruct (negb (has_space sp s)); [exact N|].
    destruct (negb (has n (mem_of k (get sp s)))); [exact N|].
    apply names_ok_commit_members; [exact N|].
    rewrite names_set_member. apply N. }
  assert (DEL : forall k s n,
            names_ok (st_spaces (fst (step_del (mkState sp g) k s n)))).
  { intros k s n. unfold step_del, reject; cbn [st_spaces st_graph].
    destruct (negb (has_space sp s)); [exact N|].
    destruct (lookup n (mem_of k (get sp s))) as [m|]; [|exact N].
    destruct (m_derived m); [exact N|].
    apply names_ok_commit_members; [exact N|].
    unfold remove_name. apply NoDup_names_filter. apply N. }
  destruct o; unfold step; auto.
  - unfold step_new_space, reject; cbn [st_spaces st_graph].
    destruct (has_space sp s); [exact N|].
    destruct (negb (forallb (has_space sp) bases)); [exact N|].
    apply names_ok_commit_graph; [exact N|]. apply names_ok_new; assumption.
  - unfold step_add_bases, reject; cbn [st_spaces st_graph].
    destruct (negb (has_space sp s)); [exact N|].
    destruct (negb (forallb (has_space sp) bases)); [exact N|].
    destruct (existsb _ bases); [exact N|].
    apply names_ok_commit_graph; assumption.
  - unfold step_remove_bases, reject; cbn [st_spaces st_graph].
    destruct (negb (has_space sp s)); [exact N|].
    destruct (negb (forallb (has_space sp) bases)); [exact N|].
    destruct (remove_bases_seq (bases_of g s) bases); [|exact N].
    apply names_ok_commit_graph; assumption.
  - unfold step_del_space, reject; cbn [st_spaces st_graph].
    destruct (negb (has_space sp s)); [exact N|].
    apply names_ok_commit_graph; [exact N|]. apply names_ok_del; assumption.
Qed.

(** in every reachable state a space holds at most one cells and at most one
    reference of each name (so the derived copy of [run_member_spec] is the
    only member of that name) *)
Theorem names_unique_run h p k : NoDup (map fst (mem_of k (get (st_spaces (run h)) p))).
Proof.
  assert (X : forall h st, names_ok (st_spaces st) -> names_ok (st_spaces (run_from st h))).
  { clear. induction h as [|o h IH]; intros st N; simpl; [assumption|].
    apply IH. apply names_ok_step; assumption. }
  apply (X h init). intros q k'. destruct k'; simpl; constructor.
Qed.

(** the order (topological, DFS, BFS ...) and multiplicity in which the sub
    spaces are visited is irrelevant for the ideal [on_inherit] *)
Theorem update_subs_order_irrelevant g sp V V' :
  (forall q, In q V <-> In q V') ->
  forall q, get (update_subs g sp V) q = get (update_subs g sp V') q.
Proof.
  intros E q.
  destruct (update_subs_spec g V sp) as (_ & _ & R & U).
  destruct (update_subs_spec g V' sp) as (_ & _ & R' & U').
  destruct (memb q V) eqn:M.
  - apply memb_In in M. destruct (has_space sp q) eqn:H.
    + rewrite R, R'; auto. apply E; assumption.
    + assert (X : forall W, get (update_subs g sp W) q = get sp q).
      { clear -H. induction W as [|w W IH] using rev_ind; [reflexivity|].
        unfold update_subs in *. rewrite fold_left_app. simpl.
        unfold on_inherit_at at 1. rewrite get_set.
        destruct (path_eqb_spec q w) as [->|N]; simpl; [|exact IH].
        destruct (has_space (fold_left (on_inherit_at g) W sp) w) eqn:H2; [|exact IH].
        exfalso. apply has_space_In in H2.
        destruct (update_subs_spec g W sp) as (K & _). unfold update_subs in K. rewrite K in H2.
        apply has_space_In in H2. congruence. }
      rewrite !X. reflexivity.
  - apply memb_nIn in M. rewrite U, U'; auto. intros X. apply M, E; assumption.
Qed.

(** ---- examples: the statements are not vacuous ---- *)
Local Open Scope string_scope.
Local Open Scope Z_scope.
(** diamond S(A,B) with both bases defining foo, B.g reading the reference x
    that S overrides; then A loses foo *)
Definition ex_hist : list op :=
  [ NewSpace ["O"] []; NewRef ["O"] "x" (PVal 1);
    NewSpace ["A"] [["O"]]; NewSpace ["B"] [["O"]];
    NewCells ["B"] "foo" (PVal 2); NewCells ["B"] "g" (PRead "x");
    NewSpace ["S"] [["A"]; ["B"]];
    NewCells ["A"] "foo" (PVal 3);           (* D1's history: S.foo must follow A *)
    ChangeRef ["S"] "x" (PVal 7);            (* override in the sub space *)
    AddBases ["O"] [["S"]];                  (* rejected: cyclic *)
    DelCells ["A"] "foo" ].                  (* S.foo falls back to B *)

Example ex_keys : keys (st_spaces (run ex_hist)) = [["O"]; ["A"]; ["B"]; ["S"]].
Proof. vm_compute. reflexivity. Qed.

Example ex_before_del :
  lookup "foo" (sp_cells (get (st_spaces (run (firstn 8 ex_hist))) ["S"])) = Some (mkMember (PVal 3) true).
Proof. vm_compute. reflexivity. Qed.

Example ex_after_del :
  lookup "foo" (sp_cells (get (st_spaces (run ex_hist)) ["S"])) = Some (mkMember (PVal 2) true)
  /\ bases_obs (run ex_hist) ["S"] = [["A"]; ["B"]; ["O"]]
  /\ eval_cells (get (st_spaces (run ex_hist)) ["S"]) "g" = Some 7
  /\ eval_cells (get (st_spaces (run ex_hist)) ["B"]) "g" = Some 1.
Proof. vm_compute. repeat split; reflexivity. Qed.

Example ex_rejected : snd (step (run (firstn 9 ex_hist)) (AddBases ["O"] [["S"]])) = Rejected Cyclic.
Proof. vm_compute. reflexivity. Qed.
