(** Defs: spaces, their cells / references (defined or derived) and the
    inheritance graph; the editing operations of [SpaceManager] /
    [SpaceUpdater] ([modelx/core/model.py:1214-1845]) and
    [UserSpaceImpl.on_inherit] ([modelx/core/space.py:1836-1881]).
    Definitions only; lemmas are in [Defs/Proofs.v].

    IDEAL model (harness/README.md): every accepted edit changes the defined
    members / the graph of one space and then re-derives that space and its
    sub spaces with [on_inherit_at], which - like the code - looks only at the
    *defined* members of the spaces along the C3 order.  Where the pinned tree
    deviates (D1 D2 D3 D13 D23, change_ref's [break], remove_bases without an
    MRO test) the model does what the code does in all the non-defective cases.
    A rejected operation returns the state unchanged, explicitly.

    Vocabulary kept out on purpose: nesting (child spaces), renaming, dynamic
    spaces, [is_cached]/[allow_none]/doc, reference modes (values are plain
    integers here, so absolute = relative). *)
From Coq Require Import List String Bool Arith ZArith.
From MX Require Import C3.Model.
Import ListNotations.

(** ---- members ---- *)

(** what a member carries: for a reference its value; for a cells its formula.
    [PVal z] is the value z / the formula [lambda: z]; [PRead r] is the formula
    [lambda: r] that reads the reference named r of the space it is evaluated in. *)
Inductive payload : Type :=
| PVal (z : Z)
| PRead (r : string).

Record member : Type := mkMember { m_pay : payload; m_derived : bool }.

(** association list name -> member, in dict order (the order is not part of
    any property) *)
Definition members := list (string * member).

Inductive kind : Type := KCells | KRefs.

Record space : Type := mkSpace { sp_cells : members; sp_refs : members }.

Definition spaces := list (path * space).

Record state : Type := mkState { st_spaces : spaces; st_graph : graph }.

Definition empty_space : space := mkSpace [] [].
Definition init : state := mkState [] [].

Definition mem_of (k : kind) (s : space) : members :=
  match k with KCells => sp_cells s | KRefs => sp_refs s end.

Definition with_mem (k : kind) (s : space) (ms : members) : space :=
  match k with
  | KCells => mkSpace ms (sp_refs s)
  | KRefs => mkSpace (sp_cells s) ms
  end.

Fixpoint lookup (n : string) (ms : members) : option member :=
  match ms with
  | [] => None
  | (k, m) :: t => if String.eqb k n then Some m else lookup n t
  end.

Definition has (n : string) (ms : members) : bool :=
  match lookup n ms with Some _ => true | None => false end.

Definition remove_name (n : string) (ms : members) : members :=
  filter (fun e => negb (String.eqb (fst e) n)) ms.

Definition set_member (n : string) (m : member) (ms : members) : members :=
  map (fun e => if String.eqb (fst e) n then (fst e, m) else e) ms.

Fixpoint mem_str (n : string) (l : list string) : bool :=
  match l with
  | [] => false
  | x :: t => String.eqb x n || mem_str n t
  end.

(** ---- spaces ---- *)
Fixpoint get (sp : spaces) (p : path) : space :=
  match sp with
  | [] => empty_space
  | (k, s) :: t => if path_eqb k p then s else get t p
  end.

Definition keys (sp : spaces) : list path := map fst sp.

Definition has_space (sp : spaces) (p : path) : bool := memb p (keys sp).

Definition set (sp : spaces) (p : path) (s : space) : spaces :=
  map (fun e => if path_eqb (fst e) p then (fst e, s) else e) sp.

Definition del_space_entry (sp : spaces) (p : path) : spaces :=
  filter (fun e => negb (path_eqb (fst e) p)) sp.

(** ---- derivation ([on_inherit]) ---- *)
Definition defd (e : string * member) : bool := negb (m_derived (snd e)).

Definition defined_members (ms : members) : members := filter defd ms.

Definition defined_sp (s : space) : space :=
  mkSpace (defined_members (sp_cells s)) (defined_members (sp_refs s)).

(** the abstraction used by the property: only the defined members *)
Definition defined_part (sp : spaces) : spaces :=
  map (fun e => (fst e, defined_sp (snd e))) sp.

(** walk the defined members of the bases in C3 order; the first definer of a
    name wins ([bs[0]] in [on_inherit]) and yields one derived copy *)
Fixpoint derive (seen : list string) (chain : members) : members :=
  match chain with
  | [] => []
  | (n, m) :: t =>
      if mem_str n seen then derive seen t
      else (n, mkMember (m_pay m) true) :: derive (n :: seen) t
  end.

(** members of one kind of one space after [on_inherit]: its own defined
    members, then one derived member per name defined along [bases] and not
    in the space itself *)
Definition inherit (own : members) (bases : list members) : members :=
  let d := defined_members own in
  (d ++ derive (map fst d) (List.concat (map defined_members bases)))%list.

(** from-scratch derivation of space p: [sp] supplies the defined members
    (derived ones in [sp] are ignored), [g] the C3 order *)
Definition rederive_space (g : graph) (sp : spaces) (p : path) : space :=
  let own := get sp p in
  let bl := map (get sp) (tl (mro_list g p)) in
  mkSpace (inherit (sp_cells own) (map sp_cells bl))
          (inherit (sp_refs own) (map sp_refs bl)).

(** SPECIFICATION FUNCTION of C03: all members, from the defined part and the graph *)
Definition rederive (dp : spaces) (g : graph) : spaces :=
  map (fun e => (fst e, rederive_space g dp (fst e))) dp.

(** one [space.on_inherit(bases)] (cells and references) *)
Definition on_inherit_at (g : graph) (sp : spaces) (p : path) : spaces :=
  set sp p (rederive_space g sp p).

(** [_get_subs(space, skip_self=False)]: the space and its descendants = the
    nodes whose linearisation contains it *)
Definition subs_of (g : graph) (p : path) : list path :=
  filter (fun s => memb p (mro_list g s)) (nodes g).

(** [update_subs] / the instruction list of the updater *)
Definition update_subs (g : graph) (sp : spaces) (visit : list path) : spaces :=
  fold_left (on_inherit_at g) visit sp.

(** ---- graph edits ---- *)
Definition remove_path (b : path) (l : list path) : list path :=
  filter (fun x => negb (path_eqb x b)) l.

(** [add_edge(b, node, index=max_index+1)]: an existing edge moves to the end *)
Definition add_base (bs : list path) (b : path) : list path :=
  (remove_path b bs ++ [b])%list.

Definition set_bases (g : graph) (n : path) (bs : list path) : graph :=
  map (fun e => if path_eqb (fst e) n then (fst e, bs) else e) g.

Definition del_node (g : graph) (n : path) : graph :=
  map (fun e => (fst e, remove_path n (snd e)))
      (filter (fun e => negb (path_eqb (fst e) n)) g).

(** [remove_edge] one by one; [None] when one of them is not a base (any more) *)
Fixpoint remove_bases_seq (cur : list path) (bs : list path) : option (list path) :=
  match bs with
  | [] => Some cur
  | b :: t => if memb b cur then remove_bases_seq (remove_path b cur) t else None
  end.

Definition all_mro_ok (g : graph) : bool :=
  forallb (fun n => is_ok (mro_of g n)) (nodes g).

(** no name is both a cells and a reference of the same space *)
Definition no_clash (s : space) : bool :=
  forallb (fun e => negb (has (fst e) (sp_refs s))) (sp_cells s).

Definition all_no_clash (sp : spaces) : bool :=
  forallb (fun e => no_clash (snd e)) sp.

(** ---- operations ---- *)
Inductive op : Type :=
| NewSpace (s : path) (bases : list path)
| AddBases (s : path) (bases : list path)
| RemoveBases (s : path) (bases : list path)
| DelSpace (s : path)
| NewCells (s : path) (n : string) (p : payload)
| DelCells (s : path) (n : string)
| SetFormula (s : path) (n : string) (p : payload)
| NewRef (s : path) (n : string) (p : payload)
| ChangeRef (s : path) (n : string) (p : payload)
| DelRef (s : path) (n : string).

Inductive reason : Type :=
| NoSuchSpace | SpaceExists | NoSuchBase | Cyclic | NoMro | NotABase
| NameConflict | NameInUse | NoSuchMember | IsDerived.

Inductive outcome : Type :=
| Accepted
| Rejected (r : reason).

Definition reject (st : state) (r : reason) : state * outcome := (st, Rejected r).

(** commit a graph edit at [s]: test every linearisation, re-derive [visit],
    refuse name clashes *)
Definition commit_graph (st : state) (g1 : graph) (sp1 : spaces) (visit : list path)
  : state * outcome :=
  if negb (all_mro_ok g1) then reject st NoMro
  else
    let sp2 := update_subs g1 sp1 visit in
    if negb (all_no_clash sp2) then reject st NameConflict
    else (mkState sp2 g1, Accepted).

Definition step_new_space (st : state) (s : path) (bases : list path) : state * outcome :=
  let sp := st_spaces st in
  let g := st_graph st in
  if has_space sp s then reject st SpaceExists
  else if negb (forallb (has_space sp) bases) then reject st NoSuchBase
  else
    let g1 := (g ++ [(s, fold_left add_base bases [])])%list in
    let sp1 := (sp ++ [(s, empty_space)])%list in
    commit_graph st g1 sp1 (subs_of g1 s).

Definition step_add_bases (st : state) (s : path) (bases : list path) : state * outcome :=
  let sp := st_spaces st in
  let g := st_graph st in
  if negb (has_space sp s) then reject st NoSuchSpace
  else if negb (forallb (has_space sp) bases) then reject st NoSuchBase
  else if existsb (fun b => memb s (mro_list g b)) bases then reject st Cyclic
  else
    let g1 := set_bases g s (fold_left add_base bases (bases_of g s)) in
    commit_graph st g1 sp (subs_of g1 s).

Definition step_remove_bases (st : state) (s : path) (bases : list path) : state * outcome :=
  let sp := st_spaces st in
  let g := st_graph st in
  if negb (has_space sp s) then reject st NoSuchSpace
  else if negb (forallb (has_space sp) bases) then reject st NoSuchBase
  else
    match remove_bases_seq (bases_of g s) bases with
    | None => reject st NotABase
    | Some bs1 =>
        let g1 := set_bases g s bs1 in
        commit_graph st g1 sp (subs_of g1 s)
    end.

Definition step_del_space (st : state) (s : path) : state * outcome :=
  let sp := st_spaces st in
  let g := st_graph st in
  if negb (has_space sp s) then reject st NoSuchSpace
  else
    let g1 := del_node g s in
    let sp1 := del_space_entry sp s in
    commit_graph st g1 sp1 (remove_path s (subs_of g s)).

(** a member edit at [s]: replace its members of kind [k], re-derive [s] and
    its sub spaces *)
Definition commit_members (st : state) (s : path) (k : kind) (ms : members) : state * outcome :=
  let sp := st_spaces st in
  let g := st_graph st in
  let sp1 := set sp s (with_mem k (get sp s) ms) in
  (mkState (update_subs g sp1 (subs_of g s)) g, Accepted).

Definition other (k : kind) : kind := match k with KCells => KRefs | KRefs => KCells end.

(** [new_cells] / [new_ref] *)
Definition step_new (st : state) (k : kind) (s : path) (n : string) (p : payload) : state * outcome :=
  let sp := st_spaces st in
  let g := st_graph st in
  if negb (has_space sp s) then reject st NoSuchSpace
  else if has n (sp_cells (get sp s)) || has n (sp_refs (get sp s)) then reject st NameInUse
  else if existsb (fun d => has n (mem_of (other k) (get sp d))
                            || match k with KRefs => has n (sp_refs (get sp d)) | KCells => false end)
                  (subs_of g s)
       then reject st NameInUse
  else commit_members st s k (mem_of k (get sp s) ++ [(n, mkMember p false)])%list.

(** [cells.formula = ...] / [space.ref = ...] on an existing (defined or
    derived) member: it becomes a defined member with the new payload *)
Definition step_set (st : state) (k : kind) (s : path) (n : string) (p : payload) : state * outcome :=
  let sp := st_spaces st in
  if negb (has_space sp s) then reject st NoSuchSpace
  else if negb (has n (mem_of k (get sp s))) then reject st NoSuchMember
  else commit_members st s k (set_member n (mkMember p false) (mem_of k (get sp s))).

(** [del space.name] *)
Definition step_del (st : state) (k : kind) (s : path) (n : string) : state * outcome :=
  let sp := st_spaces st in
  if negb (has_space sp s) then reject st NoSuchSpace
  else
    match lookup n (mem_of k (get sp s)) with
    | None => reject st NoSuchMember
    | Some m =>
        if m_derived m then reject st IsDerived
        else commit_members st s k (remove_name n (mem_of k (get sp s)))
    end.

Definition step (st : state) (o : op) : state * outcome :=
  match o with
  | NewSpace s bs => step_new_space st s bs
  | AddBases s bs => step_add_bases st s bs
  | RemoveBases s bs => step_remove_bases st s bs
  | DelSpace s => step_del_space st s
  | NewCells s n p => step_new st KCells s n p
  | DelCells s n => step_del st KCells s n
  | SetFormula s n p => step_set st KCells s n p
  | NewRef s n p => step_new st KRefs s n p
  | ChangeRef s n p => step_set st KRefs s n p
  | DelRef s n => step_del st KRefs s n
  end.

Definition run_from (st : state) (h : list op) : state :=
  fold_left (fun st o => fst (step st o)) h st.

Definition run (h : list op) : state := run_from init h.

(** ---- observables ---- *)

(** [space.bases]: the linearisation without the space itself *)
Definition bases_obs (st : state) (s : path) : list path := tl (mro_list (st_graph st) s).

Definition eval_payload (refs : members) (p : payload) : option Z :=
  match p with
  | PVal z => Some z
  | PRead r =>
      match lookup r refs with
      | Some (mkMember (PVal z) _) => Some z
      | _ => None
      end
  end.

(** value of calling cells n of space s: names are resolved in s itself *)
Definition eval_cells (s : space) (n : string) : option Z :=
  match lookup n (sp_cells s) with
  | Some m => eval_payload (sp_refs s) (m_pay m)
  | None => None
  end.

(** first definer of [n] along a list of spaces *)
Fixpoint first_def (k : kind) (sp : spaces) (n : string) (l : list path) : option member :=
  match l with
  | [] => None
  | b :: t =>
      match lookup n (defined_members (mem_of k (get sp b))) with
      | Some m => Some m
      | None => first_def k sp n t
      end
  end.
