(** Export layer: the decidable check [model_okb] evaluated by the correspondence on
    every dumped model implies the hypothesis [model_ok] of the C15 theorems. *)
From Coq Require Import List String ZArith Bool Arith Lia.
From MX Require Import Export.Model Export.Proofs Export.Run.
Import ListNotations.
Open Scope string_scope.
Open Scope list_scope.

Lemma assoc_In2 {A} : forall x (l : list (string * A)) v, assoc x l = Some v -> In (x, v) l.
Proof.
  intros x l v; induction l as [|[y a] t IH]; simpl; intros H; [discriminate|].
  destruct (String.eqb y x) eqn:E.
  - apply String.eqb_eq in E; inversion H; subst; left; reflexivity.
  - right; apply IH; exact H.
Qed.

Lemma stbl_of : forall tbl bi s t, model_okb tbl bi = true -> nth_error tbl s = Some t ->
  stbl_okb bi t = true.
Proof.
  intros tbl bi s t H Hn. unfold model_okb in H. apply andb_true_iff in H; destruct H as [H _].
  rewrite forallb_forall in H. apply H. eapply nth_error_In; exact Hn.
Qed.

Theorem model_okb_sound : forall tbl bi, model_okb tbl bi = true -> model_ok (mk_model tbl bi).
Proof.
  intros tbl bi H. constructor.
  - (* ok_ns_fo *)
    intros s x v Hv. simpl in Hv. destruct (nth_error tbl s) as [t|] eqn:Hn; [|discriminate].
    pose proof (stbl_of tbl bi s t H Hn) as Ht. unfold stbl_okb in Ht.
    repeat (apply andb_true_iff in Ht; let H' := fresh "Ht" in destruct Ht as [Ht H']).
    rewrite forallb_forall in Ht. apply (Ht (x, v)). apply assoc_In2; exact Hv.
  - (* ok_bi_fo *)
    intros x v Hv. change ((if mem x py_fn_names then Some (VBuiltin x) else None) = Some v) in Hv.
    destruct (mem x py_fn_names); inversion Hv; reflexivity.
  - (* ok_cells *)
    intros s n ps b Hc. simpl in Hc. destruct (nth_error tbl s) as [t|] eqn:Hn; [|discriminate].
    pose proof (stbl_of tbl bi s t H Hn) as Ht. unfold stbl_okb in Ht.
    repeat (apply andb_true_iff in Ht; let H' := fresh "Ht" in destruct Ht as [Ht H']).
    rewrite forallb_forall in Ht3. specialize (Ht3 (n, (ps, b)) (assoc_In2 _ _ _ Hc)). simpl in Ht3.
    apply andb_true_iff in Ht3; destruct Ht3 as [Ha Hb]. apply negb_true_iff in Ha. split; assumption.
  - (* ok_top_complete *)
    intros s x Hn0 Hb. simpl in *. destruct (nth_error tbl s) as [t|] eqn:Hn; [|congruence].
    pose proof (stbl_of tbl bi s t H Hn) as Ht. unfold stbl_okb in Ht.
    repeat (apply andb_true_iff in Ht; let H' := fresh "Ht" in destruct Ht as [Ht H']).
    destruct (assoc x (s_ns t)) as [v|] eqn:Ea; [|congruence].
    rewrite forallb_forall in Ht2. specialize (Ht2 (x, v) (assoc_In2 _ _ _ Ea)). simpl in Ht2.
    simpl in Hb. apply mem_In in Hb. rewrite Hb in Ht2. simpl in Ht2. apply mem_In; exact Ht2.
  - (* ok_top_sound *)
    intros s x Hi. simpl in *. destruct (nth_error tbl s) as [t|] eqn:Hn; [|destruct Hi].
    pose proof (stbl_of tbl bi s t H Hn) as Ht. unfold stbl_okb in Ht.
    repeat (apply andb_true_iff in Ht; let H' := fresh "Ht" in destruct Ht as [Ht H']).
    simpl in Hi. rewrite forallb_forall in Ht1. specialize (Ht1 x Hi).
    destruct (assoc x (s_ns t)); [discriminate|discriminate Ht1].
  - (* ok_bi *)
    intros s x Hx. change ((if mem x py_fn_names then Some (VBuiltin x) else None) <> None) in Hx.
    assert (Hm : mem x py_fn_names = true) by (destruct (mem x py_fn_names); [reflexivity|congruence]).
    unfold model_okb in H. apply andb_true_iff in H; destruct H as [_ H].
    rewrite forallb_forall in H. apply mem_In in Hm. specialize (H x Hm). apply mem_In in H.
    simpl. destruct (nth_error tbl s); exact H.
  - (* ok_cellnames *)
    intros s x Hi. simpl in *. destruct (nth_error tbl s) as [t|] eqn:Hn; [|destruct Hi].
    pose proof (stbl_of tbl bi s t H Hn) as Ht. unfold stbl_okb in Ht.
    repeat (apply andb_true_iff in Ht; let H' := fresh "Ht" in destruct Ht as [Ht H']).
    simpl in Hi. rewrite forallb_forall in Ht0. specialize (Ht0 x Hi).
    destruct (assoc x (s_ns t)) as [v|]; [|discriminate]. destruct v; try discriminate. eauto.
Qed.

(** for a dumped model that passes the check: every cells, every argument tuple, every
    fuel — the exported world returns the closure-free value the model returns *)
Theorem checked_model_sound : forall tbl bi, model_okb tbl bi = true ->
  forall n s nm args v, forallb fo args = true -> fo v = true ->
  call_cells n (Wo (mk_model tbl bi)) s nm args = Ok v ->
  call_cells n (Wt (mk_model tbl bi)) s nm args = Ok v.
Proof.
  intros tbl bi H. apply call_cells_same_value. apply model_okb_sound; exact H.
Qed.
