(** Export layer: proofs.
    Main result [eval_sim]: evaluating the transformed formula in the exported
    world ([Wt]: globals = builtins, [self] bound to the space object) yields the
    translation [tv] of the value the original formula yields in the modelx world
    ([Wo]: globals = namespace then builtins), for every expression of the grammar,
    every environment and every amount of fuel. *)
From Coq Require Import List String ZArith Bool Arith Lia.
From MX Require Import Export.Model.
Import ListNotations.
Open Scope string_scope.
Open Scope list_scope.

(* keep [simpl] from computing string comparisons with the literal *)
Opaque self_name.

(* ------------------------------------------------------------------ *)
(** * Induction principles for the nested types *)

Lemma expr_ind2 (P : expr -> Prop)
  (HInt : forall z, P (EInt z)) (HNone : P ENone) (HName : forall x, P (EName x))
  (HAttr : forall e a, P e -> P (EAttr e a))
  (HBin : forall op a b, P a -> P b -> P (EBin op a b))
  (HIf : forall c a b, P c -> P a -> P b -> P (EIf c a b))
  (HCall : forall f args kws kwv, P f -> Forall P args -> Forall P kwv -> P (ECall f args kws kwv))
  (HSub : forall e idx, P e -> Forall P idx -> P (ESub e idx))
  (HLam : forall ps b, P b -> P (ELam ps b))
  (HList : forall es, Forall P es -> P (EList es))
  (HComp : forall k elt x iter conds, P elt -> P iter -> Forall P conds -> P (EComp k elt x iter conds))
  (HLet : forall x e1 rest, P e1 -> P rest -> P (ELet x e1 rest))
  (HDef : forall f ps fb rest, P fb -> P rest -> P (EDef f ps fb rest))
  : forall e, P e.
Proof.
  fix IH 1.
  pose (go := fix go (l : list expr) : Forall P l :=
          match l with [] => Forall_nil P | x :: t => Forall_cons x (IH x) (go t) end).
  intros e; destruct e.
  - apply HInt.
  - apply HNone.
  - apply HName.
  - apply HAttr; apply IH.
  - apply HBin; apply IH.
  - apply HIf; apply IH.
  - apply HCall; [apply IH | apply go | apply go].
  - apply HSub; [apply IH | apply go].
  - apply HLam; apply IH.
  - apply HList; apply go.
  - apply HComp; [apply IH | apply IH | apply go].
  - apply HLet; apply IH.
  - apply HDef; apply IH.
Qed.

Lemma value_ind2 (P : value -> Prop)
  (HI : forall z, P (VInt z)) (HB : forall b, P (VBool b)) (HN : P VNone)
  (HL : forall l, Forall P l -> P (VList l))
  (HO : forall s, P (VObj s)) (HC : forall s n, P (VCell s n)) (HU : forall n, P (VBuiltin n))
  (HF : forall s rn ps b cenv, P (VClos s rn ps b cenv))
  : forall v, P v.
Proof.
  fix IH 1.
  intros v; destruct v.
  - apply HI.
  - apply HB.
  - apply HN.
  - apply HL. induction l as [|x t IHt]; constructor; [apply IH | exact IHt].
  - apply HO.
  - apply HC.
  - apply HU.
  - apply HF.
Qed.

(* ------------------------------------------------------------------ *)
(** * Small facts *)

Lemma mem_In : forall x l, mem x l = true <-> In x l.
Proof.
  intros x l; unfold mem; rewrite existsb_exists; split.
  - intros [y [Hy He]]; apply String.eqb_eq in He; subst; exact Hy.
  - intros H; exists x; split; [exact H|apply String.eqb_refl].
Qed.

Lemma mem_false : forall x l, mem x l = false <-> ~ In x l.
Proof.
  intros x l; split.
  - intros H HI; apply mem_In in HI; congruence.
  - intros H; destruct (mem x l) eqn:E; [apply mem_In in E; contradiction|reflexivity].
Qed.

(** the symtable rule *)
Lemma classify_spec : forall sc x, classify_global sc x = true <-> ~ In x sc.
Proof.
  intros sc x; unfold classify_global; rewrite negb_true_iff; apply mem_false.
Qed.

Lemma forallb_Forall {A} (f : A -> bool) l : forallb f l = true <-> Forall (fun x => f x = true) l.
Proof.
  induction l as [|x t IH]; simpl.
  - split; [constructor|reflexivity].
  - rewrite andb_true_iff, IH; split.
    + intros [H1 H2]; constructor; assumption.
    + intros H; inversion H; subst; split; assumption.
Qed.

Lemma transform_sub_notname : forall c sc e idx, (forall x, e <> EName x) ->
  transform c sc (ESub e idx) = ESub (transform c sc e) (map (transform c sc) idx).
Proof.
  intros c sc e idx H; destruct e; try reflexivity. exfalso; apply (H x); reflexivity.
Qed.

Lemma name_or_not : forall e, (exists x, e = EName x) \/ (forall x, e <> EName x).
Proof.
  intros e; destruct e; try (right; intros; discriminate). left; eexists; reflexivity.
Qed.

(** the transformation does not touch binders *)
Lemma assigned_transform : forall c e sc, assigned (transform c sc e) = assigned e.
Proof.
  intros c e; induction e using expr_ind2; intros sc; try reflexivity.
  - simpl. destruct (replace c sc x); reflexivity.
  - simpl. apply IHe.
  - simpl. rewrite IHe1, IHe2; reflexivity.
  - simpl. rewrite IHe1, IHe2, IHe3; reflexivity.
  - simpl. rewrite IHe. f_equal. f_equal.
    + induction H as [|a l Ha Hl IHl]; simpl; [reflexivity|]. rewrite Ha, IHl; reflexivity.
    + induction H0 as [|a l Ha Hl IHl]; simpl; [reflexivity|]. rewrite Ha, IHl; reflexivity.
  - assert (HL : flat_map assigned (map (transform c sc) idx) = flat_map assigned idx).
    { induction H as [|a l Ha Hl IHl]; simpl; [reflexivity|]. rewrite Ha, IHl; reflexivity. }
    destruct (name_or_not e) as [[x ->]|Hn].
    + simpl. destruct (replace c sc x && mem x (t_cells c)); simpl; rewrite HL, ?app_nil_r; try reflexivity.
      destruct (replace c sc x); reflexivity.
    + rewrite transform_sub_notname by assumption. cbn [assigned]. rewrite IHe, HL; reflexivity.
  - simpl. induction H as [|a l Ha Hl IHl]; simpl; [reflexivity|]. rewrite Ha, IHl; reflexivity.
  - simpl. apply IHe2.
  - simpl. rewrite IHe1, IHe2; reflexivity.
  - simpl. rewrite IHe2; reflexivity.
Qed.

Lemma flat_assigned_transform : forall c sc l,
  flat_map assigned (map (transform c sc) l) = flat_map assigned l.
Proof.
  intros c sc l; induction l as [|a l IH]; simpl; [reflexivity|].
  rewrite assigned_transform, IH; reflexivity.
Qed.

(* ------------------------------------------------------------------ *)
(** * Values and their translation *)

Definition rmap {A B} (f : A -> B) (r : res A) : res B :=
  match r with Ok a => Ok (f a) | Err => Err | OutOfFuel => OutOfFuel end.

Lemma fo_tv : forall M v, fo v = true -> tv M v = v.
Proof.
  intros M v; induction v using value_ind2; simpl; intros Hf; try reflexivity; try discriminate.
  f_equal. induction H as [|a l Ha Hl IHl]; simpl in *; [reflexivity|].
  apply andb_true_iff in Hf; destruct Hf as [H1 H2].
  rewrite Ha, IHl by assumption; reflexivity.
Qed.

Lemma fo_tv_b : forall M v, fo (tv M v) = fo v.
Proof.
  intros M v; induction v using value_ind2; simpl; try reflexivity.
  induction H as [|a l Ha Hl IHl]; simpl; [reflexivity|]. rewrite Ha, IHl; reflexivity.
Qed.

Lemma fo_vok : forall v, fo v = true -> vok v = true.
Proof.
  intros v; induction v using value_ind2; simpl; intros Hf; try reflexivity; try discriminate.
  induction H as [|a l Ha Hl IHl]; simpl in *; [reflexivity|].
  apply andb_true_iff in Hf; destruct Hf as [H1 H2].
  rewrite Ha, IHl by assumption; reflexivity.
Qed.

Lemma fo_list_tv : forall M l, forallb fo l = true -> map (tv M) l = l.
Proof.
  intros M l; induction l as [|a l IH]; simpl; intros H; [reflexivity|].
  apply andb_true_iff in H; destruct H as [H1 H2].
  rewrite fo_tv, IH by assumption; reflexivity.
Qed.

Lemma fo_list_tv_b : forall M l, forallb fo (map (tv M) l) = forallb fo l.
Proof.
  intros M l; induction l as [|a l IH]; simpl; [reflexivity|]. rewrite fo_tv_b, IH; reflexivity.
Qed.

Lemma fo_list_vok : forall l, forallb fo l = true -> forallb vok l = true.
Proof.
  intros l; induction l as [|a l IH]; simpl; intros H; [reflexivity|].
  apply andb_true_iff in H; destruct H as [H1 H2].
  rewrite fo_vok, IH by assumption; reflexivity.
Qed.

Lemma truthy_tv : forall M v, truthy (tv M v) = truthy v.
Proof. intros M v; destruct v; try reflexivity. destruct l; reflexivity. Qed.

Lemma as_int_tv : forall M v, as_int (tv M v) = as_int v.
Proof. intros M v; destruct v; reflexivity. Qed.

Lemma binop_tv : forall M op a b,
  binop_eval op (tv M a) (tv M b) = rmap (tv M) (binop_eval op a b).
Proof.
  intros M op a b.
  destruct a, b, op; simpl; try reflexivity;
    try (match goal with |- context [Z.eqb ?x 0] => destruct (Z.eqb x 0) end; reflexivity);
    try (rewrite map_app; reflexivity).
  all: try (destruct b; simpl; try reflexivity).
  all: try (destruct b0; simpl; try reflexivity).
Qed.

Lemma vok_app : forall a b, forallb vok (a ++ b) = forallb vok a && forallb vok b.
Proof. intros; apply forallb_app. Qed.

Lemma binop_vok : forall op a b v, vok a = true -> vok b = true ->
  binop_eval op a b = Ok v -> vok v = true.
Proof.
  intros op a b v Ha Hb H.
  assert (Hi : forall r, match as_int a, as_int b with
                         | Some x, Some y =>
                           match op with
                           | Add => Ok (VInt (x + y)) | Sub => Ok (VInt (x - y)) | Mul => Ok (VInt (x * y))
                           | FloorDiv => if Z.eqb y 0 then Err else Ok (VInt (x / y))
                           | Mod => if Z.eqb y 0 then Err else Ok (VInt (x mod y))
                           | Lt => Ok (VBool (Z.ltb x y)) | Eq => Ok (VBool (Z.eqb x y)) end
                         | _, _ => Err end = Ok r -> vok r = true).
  { intros r Hr. destruct (as_int a), (as_int b); try discriminate.
    destruct op; try (destruct (Z.eqb z0 0)); inversion Hr; reflexivity. }
  destruct op, a, b; simpl in H; try (apply Hi; exact H); try (inversion H; reflexivity).
  inversion H; subst. simpl in *. rewrite vok_app, Ha, Hb; reflexivity.
Qed.

(* ---- environments ---- *)

Lemma map_fst_tenv : forall M en, map fst (tenv M en) = map fst en.
Proof. intros M en; unfold tenv; rewrite map_map; simpl; reflexivity. Qed.

Lemma tenv_app : forall M a b, tenv M (a ++ b) = tenv M a ++ tenv M b.
Proof. intros; unfold tenv; apply map_app. Qed.

Lemma tenv_undecl : forall M l, tenv M (undecl l) = undecl l.
Proof. intros M l; unfold tenv, undecl; rewrite map_map; reflexivity. Qed.

Lemma map_fst_undecl : forall l, map fst (undecl l) = l.
Proof. intros l; unfold undecl; rewrite map_map; simpl; apply map_id. Qed.

Lemma lookup_app : forall a b x,
  lookup (a ++ b) x = match lookup a x with Some o => Some o | None => lookup b x end.
Proof.
  intros a b x; induction a as [|[y o] t IH]; simpl; [reflexivity|].
  destruct (String.eqb y x); [reflexivity|exact IH].
Qed.

Lemma lookup_tenv : forall M en x,
  lookup (tenv M en) x = option_map (option_map (tv M)) (lookup en x).
Proof.
  intros M en x; induction en as [|[y o] t IH]; simpl; [reflexivity|].
  destruct (String.eqb y x); [reflexivity|exact IH].
Qed.

Lemma lookup_None : forall en x, lookup en x = None <-> ~ In x (map fst en).
Proof.
  intros en x; induction en as [|[y o] t IH]; simpl.
  - split; [intros _ []|reflexivity].
  - destruct (String.eqb y x) eqn:E.
    + apply String.eqb_eq in E; subst. split; [discriminate|intros H; exfalso; apply H; left; reflexivity].
    + apply String.eqb_neq in E. rewrite IH. split.
      * intros H [H1|H1]; [contradiction|apply H; exact H1].
      * intros H H1; apply H; right; exact H1.
Qed.

Lemma map_fst_upd : forall en x v, map fst (upd en x v) = map fst en.
Proof.
  intros en x v; induction en as [|[y o] t IH]; simpl; [reflexivity|].
  destruct (String.eqb y x); simpl; [reflexivity|rewrite IH; reflexivity].
Qed.

Lemma upd_tenv_self : forall M s en x v, x <> self_name ->
  upd (tenv M en ++ self_frame s) x (tv M v) = tenv M (upd en x v) ++ self_frame s.
Proof.
  intros M s en x v Hx; induction en as [|[y o] t IH]; simpl.
  - destruct (String.eqb self_name x) eqn:E; [apply String.eqb_eq in E; congruence|reflexivity].
  - destruct (String.eqb y x); simpl; [reflexivity|rewrite IH; reflexivity].
Qed.

Definition entry_ok (p : string * option value) : bool :=
  negb (String.eqb (fst p) self_name) && match snd p with Some v => vok v | None => true end.

Lemma env_ok_unfold : forall en, env_ok en = forallb entry_ok en.
Proof. reflexivity. Qed.

Lemma env_ok_app : forall a b, env_ok (a ++ b) = env_ok a && env_ok b.
Proof. intros; unfold env_ok; apply forallb_app. Qed.

Lemma env_ok_upd : forall en x v, env_ok en = true -> vok v = true -> env_ok (upd en x v) = true.
Proof.
  intros en x v; induction en as [|[y o] t IH]; simpl; intros He Hv; [reflexivity|].
  apply andb_true_iff in He; destruct He as [H1 H2].
  destruct (String.eqb y x); simpl.
  - apply andb_true_iff in H1; destruct H1 as [H1 _]. rewrite H1, Hv, H2; reflexivity.
  - rewrite H1, IH by assumption; reflexivity.
Qed.

Lemma env_ok_noself : forall en, env_ok en = true -> lookup en self_name = None.
Proof.
  intros en; induction en as [|[y o] t IH]; simpl; intros H; [reflexivity|].
  apply andb_true_iff in H; destruct H as [H1 H2].
  apply andb_true_iff in H1; destruct H1 as [H1 _]. simpl in H1.
  apply negb_true_iff in H1. rewrite H1. apply IH; exact H2.
Qed.

Lemma env_ok_lookup : forall en x v, env_ok en = true -> lookup en x = Some (Some v) -> vok v = true.
Proof.
  intros en x v; induction en as [|[y o] t IH]; simpl; intros H Hl; [discriminate|].
  apply andb_true_iff in H; destruct H as [H1 H2].
  destruct (String.eqb y x).
  - inversion Hl; subst. apply andb_true_iff in H1; destruct H1 as [_ H1]; exact H1.
  - apply IH; assumption.
Qed.

Lemma env_ok_undecl : forall l, mem self_name l = false -> env_ok (undecl l) = true.
Proof.
  intros l; induction l as [|a l IH]; simpl; intros H; [reflexivity|].
  apply orb_false_iff in H; destruct H as [H1 H2].
  rewrite String.eqb_sym in H1. rewrite H1; simpl. apply IH; exact H2.
Qed.

Lemma env_ok_combine : forall ps vs, mem self_name ps = false -> forallb vok vs = true ->
  env_ok (combine ps (map Some vs)) = true.
Proof.
  intros ps; induction ps as [|p ps IH]; intros vs Hp Hv; simpl; [reflexivity|].
  destruct vs as [|v vs]; simpl; [reflexivity|].
  simpl in Hp, Hv. apply orb_false_iff in Hp; destruct Hp as [H1 H2].
  apply andb_true_iff in Hv; destruct Hv as [H3 H4].
  rewrite String.eqb_sym in H1. rewrite H1, H3; simpl. apply IH; assumption.
Qed.

Lemma tenv_combine : forall M ps vs,
  tenv M (combine ps (map Some vs)) = combine ps (map Some (map (tv M) vs)).
Proof.
  intros M ps; induction ps as [|p ps IH]; intros vs; simpl; [reflexivity|].
  destruct vs as [|v vs]; simpl; [reflexivity|]. rewrite IH; reflexivity.
Qed.

Lemma map_fst_combine : forall (ps : list string) (vs : list (option value)),
  List.length ps = List.length vs -> map fst (combine ps vs) = ps.
Proof.
  intros ps; induction ps as [|p ps IH]; intros vs H; destruct vs; simpl in *; try discriminate; [reflexivity|].
  rewrite IH by lia; reflexivity.
Qed.

(* ---- argument binding ---- *)

Definition tkw (M : model) (kw : list (string * value)) : list (string * value) :=
  map (fun p => (fst p, tv M (snd p))) kw.

Lemma assoc_tkw : forall M x kw, assoc x (tkw M kw) = option_map (tv M) (assoc x kw).
Proof.
  intros M x kw; induction kw as [|[y a] t IH]; simpl; [reflexivity|].
  destruct (String.eqb y x); [reflexivity|exact IH].
Qed.

Lemma bind_kw_tv : forall M ps kw, bind_kw ps (tkw M kw) = option_map (map (tv M)) (bind_kw ps kw).
Proof.
  intros M ps kw; induction ps as [|p ps IH]; simpl; [reflexivity|].
  rewrite assoc_tkw, IH. destruct (assoc p kw); simpl; [|reflexivity].
  destruct (bind_kw ps kw); reflexivity.
Qed.

Lemma map_fst_tkw : forall M kw, map fst (tkw M kw) = map fst kw.
Proof. intros; unfold tkw; rewrite map_map; reflexivity. Qed.

Lemma bind_args_tv : forall M ps args kw,
  bind_args ps (map (tv M) args) (tkw M kw) = option_map (map (tv M)) (bind_args ps args kw).
Proof.
  intros M ps args kw; unfold bind_args.
  rewrite map_length, map_fst_tkw. unfold tkw at 1; rewrite map_length.
  destruct (Nat.leb (List.length args) (List.length ps)); [|reflexivity].
  destruct (nodup_names (map fst kw) && Nat.eqb (List.length kw) (List.length (skipn (List.length args) ps))); [|reflexivity].
  rewrite bind_kw_tv. destruct (bind_kw (skipn (List.length args) ps) kw); simpl; [|reflexivity].
  rewrite map_app; reflexivity.
Qed.

Lemma bind_kw_length : forall ps kw vs, bind_kw ps kw = Some vs -> List.length vs = List.length ps.
Proof.
  intros ps kw; induction ps as [|p ps IH]; simpl; intros vs H.
  - inversion H; reflexivity.
  - destruct (assoc p kw); [|discriminate]. destruct (bind_kw ps kw) eqn:E; [|discriminate].
    inversion H; subst; simpl. rewrite (IH l eq_refl); reflexivity.
Qed.

Lemma bind_args_length : forall ps args kw vs,
  bind_args ps args kw = Some vs -> List.length vs = List.length ps.
Proof.
  intros ps args kw vs; unfold bind_args.
  destruct (Nat.leb (List.length args) (List.length ps)) eqn:E; [|discriminate].
  destruct (nodup_names (map fst kw) && _); [|discriminate].
  destruct (bind_kw _ kw) eqn:E2; [|discriminate]. intros H; inversion H; subst.
  apply bind_kw_length in E2. rewrite app_length, E2, skipn_length.
  apply Nat.leb_le in E. lia.
Qed.

Lemma assoc_vok : forall x (kw : list (string * value)) v,
  forallb vok (map snd kw) = true -> assoc x kw = Some v -> vok v = true.
Proof.
  intros x kw v; induction kw as [|[y a] t IH]; simpl; intros H Ha; [discriminate|].
  apply andb_true_iff in H; destruct H as [H1 H2].
  destruct (String.eqb y x); [inversion Ha; subst; exact H1|apply IH; assumption].
Qed.

Lemma bind_kw_vok : forall ps kw vs, forallb vok (map snd kw) = true ->
  bind_kw ps kw = Some vs -> forallb vok vs = true.
Proof.
  intros ps kw; induction ps as [|p ps IH]; simpl; intros vs Hk H.
  - inversion H; reflexivity.
  - destruct (assoc p kw) eqn:Ea; [|discriminate]. destruct (bind_kw ps kw) eqn:E; [|discriminate].
    inversion H; subst; simpl. rewrite (assoc_vok _ _ _ Hk Ea), (IH l Hk eq_refl); reflexivity.
Qed.

Lemma bind_args_vok : forall ps args kw vs,
  forallb vok args = true -> forallb vok (map snd kw) = true ->
  bind_args ps args kw = Some vs -> forallb vok vs = true.
Proof.
  intros ps args kw vs Ha Hk; unfold bind_args.
  destruct (Nat.leb _ _); [|discriminate]. destruct (_ && _); [|discriminate].
  destruct (bind_kw _ kw) eqn:E; [|discriminate]. intros H; inversion H; subst.
  rewrite vok_app, Ha, (bind_kw_vok _ _ _ Hk E); reflexivity.
Qed.

Lemma combine_tkw : forall M kws vks,
  combine kws (map (tv M) vks) = tkw M (combine kws vks).
Proof.
  intros M kws; induction kws as [|k kws IH]; intros vks; simpl; [reflexivity|].
  destruct vks; simpl; [reflexivity|]. rewrite IH; reflexivity.
Qed.

Lemma snd_combine_vok : forall (kws : list string) vks,
  forallb vok vks = true -> forallb vok (map snd (combine kws vks)) = true.
Proof.
  intros kws; induction kws as [|k kws IH]; intros vks H; simpl; [reflexivity|].
  destruct vks; simpl in *; [reflexivity|].
  apply andb_true_iff in H; destruct H as [H1 H2]. rewrite H1, IH by assumption; reflexivity.
Qed.

Lemma map_snd_tkw : forall M kw, map snd (tkw M kw) = map (tv M) (map snd kw).
Proof. intros; unfold tkw; rewrite !map_map; reflexivity. Qed.

Lemma tkw_fo : forall M kw, forallb fo (map snd kw) = true -> tkw M kw = kw.
Proof.
  intros M kw; induction kw as [|[y a] t IH]; simpl; intros H; [reflexivity|].
  apply andb_true_iff in H; destruct H as [H1 H2].
  rewrite fo_tv, IH by assumption; reflexivity.
Qed.

(* ---- frames ---- *)

Lemma map_fst_frame : forall ps b vs, List.length vs = List.length ps ->
  map fst (frame ps b vs) = fscope ps b.
Proof.
  intros ps b vs H; unfold frame, fscope.
  rewrite map_app, map_fst_undecl, map_fst_combine; [reflexivity|rewrite map_length; lia].
Qed.

Lemma tenv_frame : forall M c sc ps b vs,
  tenv M (frame ps b vs) = frame ps (transform c sc b) (map (tv M) vs).
Proof.
  intros; unfold frame. rewrite tenv_app, tenv_undecl, tenv_combine, assigned_transform; reflexivity.
Qed.

Lemma no_self_assigned : forall e, no_self e = true -> mem self_name (assigned e) = false.
Proof.
  assert (Happ : forall a b, mem self_name (a ++ b) = mem self_name a || mem self_name b)
    by (intros; unfold mem; apply existsb_app).
  assert (HL : forall l, Forall (fun e => no_self e = true -> mem self_name (assigned e) = false) l ->
               forallb no_self l = true -> mem self_name (flat_map assigned l) = false).
  { intros l H; induction H as [|a l Ha Hl IHl]; simpl; intros Hn; [reflexivity|].
    apply andb_true_iff in Hn; destruct Hn as [H1 H2]. rewrite Happ, Ha, IHl by assumption; reflexivity. }
  intros e; induction e using expr_ind2; simpl; intros Hn; try reflexivity;
    repeat (apply andb_true_iff in Hn; let H' := fresh "Hn" in destruct Hn as [Hn H']).
  - apply IHe; exact Hn.
  - rewrite Happ, IHe1, IHe2 by assumption; reflexivity.
  - rewrite !Happ, IHe1, IHe2, IHe3 by assumption; reflexivity.
  - rewrite !Happ, IHe, !HL by assumption; reflexivity.
  - rewrite Happ, IHe, HL by assumption; reflexivity.
  - apply HL; assumption.
  - apply IHe2; assumption.
  - apply negb_true_iff in Hn. rewrite String.eqb_sym in Hn. rewrite Hn; simpl.
    rewrite Happ, IHe1, IHe2 by assumption; reflexivity.
  - apply negb_true_iff in Hn. rewrite String.eqb_sym in Hn. rewrite Hn; simpl.
    apply IHe2; assumption.
Qed.

Lemma env_ok_frame : forall ps b vs,
  mem self_name ps = false -> no_self b = true -> forallb vok vs = true ->
  env_ok (frame ps b vs) = true.
Proof.
  intros ps b vs Hp Hb Hv; unfold frame.
  rewrite env_ok_app, env_ok_combine, env_ok_undecl; auto using no_self_assigned.
Qed.

(* ---- subscription ---- *)

Lemma nth_error_map_tv : forall M l n, nth_error (map (tv M) l) n = option_map (tv M) (nth_error l n).
Proof. intros; apply nth_error_map. Qed.

Lemma index_tv : forall M l z, index (map (tv M) l) z = rmap (tv M) (index l z).
Proof.
  intros M l z; unfold index. rewrite map_length.
  destruct (Z.ltb _ 0); [reflexivity|].
  rewrite nth_error_map_tv. destruct (nth_error l _); reflexivity.
Qed.

Lemma index_vok : forall l z v, forallb vok l = true -> index l z = Ok v -> vok v = true.
Proof.
  intros l z v Hl; unfold index. destruct (Z.ltb _ 0); [discriminate|].
  destruct (nth_error l _) eqn:E; [|discriminate]. intros H; inversion H; subst.
  apply nth_error_In in E. rewrite forallb_forall in Hl. apply Hl; exact E.
Qed.
