(** Export layer: proofs.
    Main result [eval_sim]: evaluating the transformed formula in the exported
    world ([Wt]: globals = builtins, [self] bound to the space object) yields the
    translation [tv] of the value the original formula yields in the modelx world
    ([Wo]: globals = namespace then builtins), for every expression of the grammar,
    every environment and every amount of fuel. *)
From Coq Require Import List String ZArith Bool Arith Lia.
From MX Require Import Export.Model.
Import ListNotations.
Open Scope string_scope.
Open Scope list_scope.

(* keep [simpl] from computing string comparisons with the literal *)
Opaque self_name.

(* ------------------------------------------------------------------ *)
(** * Induction principles for the nested types *)

Lemma expr_ind2 (P : expr -> Prop)
  (HInt : forall z, P (EInt z)) (HNone : P ENone) (HName : forall x, P (EName x))
  (HAttr : forall e a, P e -> P (EAttr e a))
  (HBin : forall op a b, P a -> P b -> P (EBin op a b))
  (HIf : forall c a b, P c -> P a -> P b -> P (EIf c a b))
  (HCall : forall f args kws kwv, P f -> Forall P args -> Forall P kwv -> P (ECall f args kws kwv))
  (HSub : forall e idx, P e -> Forall P idx -> P (ESub e idx))
  (HLam : forall ps b, P b -> P (ELam ps b))
  (HList : forall es, Forall P es -> P (EList es))
  (HComp : forall k elt x iter conds, P elt -> P iter -> Forall P conds -> P (EComp k elt x iter conds))
  (HLet : forall x e1 rest, P e1 -> P rest -> P (ELet x e1 rest))
  (HDef : forall f ps fb rest, P fb -> P rest -> P (EDef f ps fb rest))
  : forall e, P e.
Proof.
  fix IH 1.
  pose (go := fix go (l : list expr) : Forall P l :=
          match l with [] => Forall_nil P | x :: t => Forall_cons x (IH x) (go t) end).
  intros e; destruct e.
  - apply HInt.
  - apply HNone.
  - apply HName.
  - apply HAttr; apply IH.
  - apply HBin; apply IH.
  - apply HIf; apply IH.
  - apply HCall; [apply IH | apply go | apply go].
  - apply HSub; [apply IH | apply go].
  - apply HLam; apply IH.
  - apply HList; apply go.
  - apply HComp; [apply IH | apply IH | apply go].
  - apply HLet; apply IH.
  - apply HDef; apply IH.
Qed.

Lemma value_ind2 (P : value -> Prop)
  (HI : forall z, P (VInt z)) (HB : forall b, P (VBool b)) (HN : P VNone)
  (HL : forall l, Forall P l -> P (VList l))
  (HO : forall s, P (VObj s)) (HC : forall s n, P (VCell s n)) (HU : forall n, P (VBuiltin n))
  (HF : forall s rn ps b cenv, P (VClos s rn ps b cenv))
  : forall v, P v.
Proof.
  fix IH 1.
  intros v; destruct v.
  - apply HI.
  - apply HB.
  - apply HN.
  - apply HL. induction l as [|x t IHt]; constructor; [apply IH | exact IHt].
  - apply HO.
  - apply HC.
  - apply HU.
  - apply HF.
Qed.

(* ------------------------------------------------------------------ *)
(** * Small facts *)

Lemma mem_In : forall x l, mem x l = true <-> In x l.
Proof.
  intros x l; unfold mem; rewrite existsb_exists; split.
  - intros [y [Hy He]]; apply String.eqb_eq in He; subst; exact Hy.
  - intros H; exists x; split; [exact H|apply String.eqb_refl].
Qed.

Lemma mem_false : forall x l, mem x l = false <-> ~ In x l.
Proof.
  intros x l; split.
  - intros H HI; apply mem_In in HI; congruence.
  - intros H; destruct (mem x l) eqn:E; [apply mem_In in E; contradiction|reflexivity].
Qed.

(** the symtable rule *)
Lemma classify_spec : forall sc x, classify_global sc x = true <-> ~ In x sc.
Proof.
  intros sc x; unfold classify_global; rewrite negb_true_iff; apply mem_false.
Qed.

Lemma forallb_Forall {A} (f : A -> bool) l : forallb f l = true <-> Forall (fun x => f x = true) l.
Proof.
  induction l as [|x t IH]; simpl.
  - split; [constructor|reflexivity].
  - rewrite andb_true_iff, IH; split.
    + intros [H1 H2]; constructor; assumption.
    + intros H; inversion H; subst; split; assumption.
Qed.

Lemma transform_sub_notname : forall c sc e idx, (forall x, e <> EName x) ->
  transform c sc (ESub e idx) = ESub (transform c sc e) (map (transform c sc) idx).
Proof.
  intros c sc e idx H; destruct e; try reflexivity. exfalso; apply (H x); reflexivity.
Qed.

Lemma name_or_not : forall e, (exists x, e = EName x) \/ (forall x, e <> EName x).
Proof.
  intros e; destruct e; try (right; intros; discriminate). left; eexists; reflexivity.
Qed.

(** the transformation does not touch binders *)
Lemma assigned_transform : forall c e sc, assigned (transform c sc e) = assigned e.
Proof.
  intros c e; induction e using expr_ind2; intros sc; try reflexivity.
  - simpl. destruct (replace c sc x); reflexivity.
  - simpl. apply IHe.
  - simpl. rewrite IHe1, IHe2; reflexivity.
  - simpl. rewrite IHe1, IHe2, IHe3; reflexivity.
  - simpl. rewrite IHe. f_equal. f_equal.
    + induction H as [|a l Ha Hl IHl]; simpl; [reflexivity|]. rewrite Ha, IHl; reflexivity.
    + induction H0 as [|a l Ha Hl IHl]; simpl; [reflexivity|]. rewrite Ha, IHl; reflexivity.
  - assert (HL : flat_map assigned (map (transform c sc) idx) = flat_map assigned idx).
    { induction H as [|a l Ha Hl IHl]; simpl; [reflexivity|]. rewrite Ha, IHl; reflexivity. }
    destruct (name_or_not e) as [[x ->]|Hn].
    + simpl. destruct (replace c sc x && mem x (t_cells c)); simpl; rewrite HL, ?app_nil_r; try reflexivity.
      destruct (replace c sc x); reflexivity.
    + rewrite transform_sub_notname by assumption. cbn [assigned]. rewrite IHe, HL; reflexivity.
  - simpl. induction H as [|a l Ha Hl IHl]; simpl; [reflexivity|]. rewrite Ha, IHl; reflexivity.
  - simpl. apply IHe2.
  - simpl. rewrite IHe1, IHe2; reflexivity.
  - simpl. rewrite IHe2; reflexivity.
Qed.

Lemma flat_assigned_transform : forall c sc l,
  flat_map assigned (map (transform c sc) l) = flat_map assigned l.
Proof.
  intros c sc l; induction l as [|a l IH]; simpl; [reflexivity|].
  rewrite assigned_transform, IH; reflexivity.
Qed.

(* ------------------------------------------------------------------ *)
(** * Values and their translation *)

Definition rmap {A B} (f : A -> B) (r : res A) : res B :=
  match r with Ok a => Ok (f a) | Err => Err | OutOfFuel => OutOfFuel end.

Lemma fo_tv : forall M v, fo v = true -> tv M v = v.
Proof.
  intros M v; induction v using value_ind2; simpl; intros Hf; try reflexivity; try discriminate.
  f_equal. induction H as [|a l Ha Hl IHl]; simpl in *; [reflexivity|].
  apply andb_true_iff in Hf; destruct Hf as [H1 H2].
  rewrite Ha, IHl by assumption; reflexivity.
Qed.

Lemma fo_tv_b : forall M v, fo (tv M v) = fo v.
Proof.
  intros M v; induction v using value_ind2; simpl; try reflexivity.
  induction H as [|a l Ha Hl IHl]; simpl; [reflexivity|]. rewrite Ha, IHl; reflexivity.
Qed.

Lemma fo_vok : forall v, fo v = true -> vok v = true.
Proof.
  intros v; induction v using value_ind2; simpl; intros Hf; try reflexivity; try discriminate.
  induction H as [|a l Ha Hl IHl]; simpl in *; [reflexivity|].
  apply andb_true_iff in Hf; destruct Hf as [H1 H2].
  rewrite Ha, IHl by assumption; reflexivity.
Qed.

Lemma fo_list_tv : forall M l, forallb fo l = true -> map (tv M) l = l.
Proof.
  intros M l; induction l as [|a l IH]; simpl; intros H; [reflexivity|].
  apply andb_true_iff in H; destruct H as [H1 H2].
  rewrite fo_tv, IH by assumption; reflexivity.
Qed.

Lemma fo_list_tv_b : forall M l, forallb fo (map (tv M) l) = forallb fo l.
Proof.
  intros M l; induction l as [|a l IH]; simpl; [reflexivity|]. rewrite fo_tv_b, IH; reflexivity.
Qed.

Lemma fo_list_vok : forall l, forallb fo l = true -> forallb vok l = true.
Proof.
  intros l; induction l as [|a l IH]; simpl; intros H; [reflexivity|].
  apply andb_true_iff in H; destruct H as [H1 H2].
  rewrite fo_vok, IH by assumption; reflexivity.
Qed.

Lemma truthy_tv : forall M v, truthy (tv M v) = truthy v.
Proof. intros M v; destruct v; try reflexivity. destruct l; reflexivity. Qed.

Lemma as_int_tv : forall M v, as_int (tv M v) = as_int v.
Proof. intros M v; destruct v; reflexivity. Qed.

Lemma binop_tv : forall M op a b,
  binop_eval op (tv M a) (tv M b) = rmap (tv M) (binop_eval op a b).
Proof.
  intros M op a b.
  destruct a, b, op; simpl; try reflexivity;
    try (match goal with |- context [Z.eqb ?x 0] => destruct (Z.eqb x 0) end; reflexivity);
    try (rewrite map_app; reflexivity).
  all: try (destruct b; simpl; try reflexivity).
  all: try (destruct b0; simpl; try reflexivity).
Qed.

Lemma vok_app : forall a b, forallb vok (a ++ b) = forallb vok a && forallb vok b.
Proof. intros; apply forallb_app. Qed.

Lemma binop_vok : forall op a b v, vok a = true -> vok b = true ->
  binop_eval op a b = Ok v -> vok v = true.
Proof.
  intros op a b v Ha Hb H.
  assert (Hi : forall r, match as_int a, as_int b with
                         | Some x, Some y =>
                           match op with
                           | Add => Ok (VInt (x + y)) | Sub => Ok (VInt (x - y)) | Mul => Ok (VInt (x * y))
                           | FloorDiv => if Z.eqb y 0 then Err else Ok (VInt (x / y))
                           | Mod => if Z.eqb y 0 then Err else Ok (VInt (x mod y))
                           | Lt => Ok (VBool (Z.ltb x y)) | Eq => Ok (VBool (Z.eqb x y)) end
                         | _, _ => Err end = Ok r -> vok r = true).
  { intros r Hr. destruct (as_int a), (as_int b); try discriminate.
    destruct op; try (destruct (Z.eqb z0 0)); inversion Hr; reflexivity. }
  destruct op, a, b; simpl in H; try (apply Hi; exact H); try (inversion H; reflexivity).
  inversion H; subst. simpl in *. rewrite vok_app, Ha, Hb; reflexivity.
Qed.

(* ---- environments ---- *)

Lemma map_fst_tenv : forall M en, map fst (tenv M en) = map fst en.
Proof. intros M en; unfold tenv; rewrite map_map; simpl; reflexivity. Qed.

Lemma tenv_app : forall M a b, tenv M (a ++ b) = tenv M a ++ tenv M b.
Proof. intros; unfold tenv; apply map_app. Qed.

Lemma tenv_undecl : forall M l, tenv M (undecl l) = undecl l.
Proof. intros M l; unfold tenv, undecl; rewrite map_map; reflexivity. Qed.

Lemma map_fst_undecl : forall l, map fst (undecl l) = l.
Proof. intros l; unfold undecl; rewrite map_map; simpl; apply map_id. Qed.

Lemma lookup_app : forall a b x,
  lookup (a ++ b) x = match lookup a x with Some o => Some o | None => lookup b x end.
Proof.
  intros a b x; induction a as [|[y o] t IH]; simpl; [reflexivity|].
  destruct (String.eqb y x); [reflexivity|exact IH].
Qed.

Lemma lookup_tenv : forall M en x,
  lookup (tenv M en) x = option_map (option_map (tv M)) (lookup en x).
Proof.
  intros M en x; induction en as [|[y o] t IH]; simpl; [reflexivity|].
  destruct (String.eqb y x); [reflexivity|exact IH].
Qed.

Lemma lookup_None : forall en x, lookup en x = None <-> ~ In x (map fst en).
Proof.
  intros en x; induction en as [|[y o] t IH]; simpl.
  - split; [intros _ []|reflexivity].
  - destruct (String.eqb y x) eqn:E.
    + apply String.eqb_eq in E; subst. split; [discriminate|intros H; exfalso; apply H; left; reflexivity].
    + apply String.eqb_neq in E. rewrite IH. split.
      * intros H [H1|H1]; [contradiction|apply H; exact H1].
      * intros H H1; apply H; right; exact H1.
Qed.

Lemma map_fst_upd : forall en x v, map fst (upd en x v) = map fst en.
Proof.
  intros en x v; induction en as [|[y o] t IH]; simpl; [reflexivity|].
  destruct (String.eqb y x); simpl; [reflexivity|rewrite IH; reflexivity].
Qed.

Lemma upd_tenv_self : forall M s en x v, x <> self_name ->
  upd (tenv M en ++ self_frame s) x (tv M v) = tenv M (upd en x v) ++ self_frame s.
Proof.
  intros M s en x v Hx; induction en as [|[y o] t IH]; simpl.
  - destruct (String.eqb self_name x) eqn:E; [apply String.eqb_eq in E; congruence|reflexivity].
  - destruct (String.eqb y x); simpl; [reflexivity|rewrite IH; reflexivity].
Qed.

Definition entry_ok (p : string * option value) : bool :=
  negb (String.eqb (fst p) self_name) && match snd p with Some v => vok v | None => true end.

Lemma env_ok_unfold : forall en, env_ok en = forallb entry_ok en.
Proof. reflexivity. Qed.

Lemma env_ok_app : forall a b, env_ok (a ++ b) = env_ok a && env_ok b.
Proof. intros; unfold env_ok; apply forallb_app. Qed.

Lemma env_ok_upd : forall en x v, env_ok en = true -> vok v = true -> env_ok (upd en x v) = true.
Proof.
  intros en x v; induction en as [|[y o] t IH]; simpl; intros He Hv; [reflexivity|].
  apply andb_true_iff in He; destruct He as [H1 H2].
  destruct (String.eqb y x); simpl.
  - apply andb_true_iff in H1; destruct H1 as [H1 _]. rewrite H1, Hv, H2; reflexivity.
  - rewrite H1, IH by assumption; reflexivity.
Qed.

Lemma env_ok_noself : forall en, env_ok en = true -> lookup en self_name = None.
Proof.
  intros en; induction en as [|[y o] t IH]; simpl; intros H; [reflexivity|].
  apply andb_true_iff in H; destruct H as [H1 H2].
  apply andb_true_iff in H1; destruct H1 as [H1 _]. simpl in H1.
  apply negb_true_iff in H1. rewrite H1. apply IH; exact H2.
Qed.

Lemma env_ok_lookup : forall en x v, env_ok en = true -> lookup en x = Some (Some v) -> vok v = true.
Proof.
  intros en x v; induction en as [|[y o] t IH]; simpl; intros H Hl; [discriminate|].
  apply andb_true_iff in H; destruct H as [H1 H2].
  destruct (String.eqb y x).
  - inversion Hl; subst. apply andb_true_iff in H1; destruct H1 as [_ H1]; exact H1.
  - apply IH; assumption.
Qed.

Lemma env_ok_undecl : forall l, mem self_name l = false -> env_ok (undecl l) = true.
Proof.
  intros l; induction l as [|a l IH]; simpl; intros H; [reflexivity|].
  apply orb_false_iff in H; destruct H as [H1 H2].
  rewrite String.eqb_sym in H1. rewrite H1; simpl. apply IH; exact H2.
Qed.

Lemma env_ok_combine : forall ps vs, mem self_name ps = false -> forallb vok vs = true ->
  env_ok (combine ps (map Some vs)) = true.
Proof.
  intros ps; induction ps as [|p ps IH]; intros vs Hp Hv; simpl; [reflexivity|].
  destruct vs as [|v vs]; simpl; [reflexivity|].
  simpl in Hp, Hv. apply orb_false_iff in Hp; destruct Hp as [H1 H2].
  apply andb_true_iff in Hv; destruct Hv as [H3 H4].
  rewrite String.eqb_sym in H1. rewrite H1, H3; simpl. apply IH; assumption.
Qed.

Lemma tenv_combine : forall M ps vs,
  tenv M (combine ps (map Some vs)) = combine ps (map Some (map (tv M) vs)).
Proof.
  intros M ps; induction ps as [|p ps IH]; intros vs; simpl; [reflexivity|].
  destruct vs as [|v vs]; simpl; [reflexivity|]. rewrite IH; reflexivity.
Qed.

Lemma map_fst_combine : forall (ps : list string) (vs : list (option value)),
  List.length ps = List.length vs -> map fst (combine ps vs) = ps.
Proof.
  intros ps; induction ps as [|p ps IH]; intros vs H; destruct vs; simpl in *; try discriminate; [reflexivity|].
  rewrite IH by lia; reflexivity.
Qed.

(* ---- argument binding ---- *)

Definition tkw (M : model) (kw : list (string * value)) : list (string * value) :=
  map (fun p => (fst p, tv M (snd p))) kw.

Lemma assoc_tkw : forall M x kw, assoc x (tkw M kw) = option_map (tv M) (assoc x kw).
Proof.
  intros M x kw; induction kw as [|[y a] t IH]; simpl; [reflexivity|].
  destruct (String.eqb y x); [reflexivity|exact IH].
Qed.

Lemma bind_kw_tv : forall M ps kw, bind_kw ps (tkw M kw) = option_map (map (tv M)) (bind_kw ps kw).
Proof.
  intros M ps kw; induction ps as [|p ps IH]; simpl; [reflexivity|].
  rewrite assoc_tkw, IH. destruct (assoc p kw); simpl; [|reflexivity].
  destruct (bind_kw ps kw); reflexivity.
Qed.

Lemma map_fst_tkw : forall M kw, map fst (tkw M kw) = map fst kw.
Proof. intros; unfold tkw; rewrite map_map; reflexivity. Qed.

Lemma bind_args_tv : forall M ps args kw,
  bind_args ps (map (tv M) args) (tkw M kw) = option_map (map (tv M)) (bind_args ps args kw).
Proof.
  intros M ps args kw; unfold bind_args.
  rewrite map_length, map_fst_tkw. unfold tkw at 1; rewrite map_length.
  destruct (Nat.leb (List.length args) (List.length ps)); [|reflexivity].
  destruct (nodup_names (map fst kw) && Nat.eqb (List.length kw) (List.length (skipn (List.length args) ps))); [|reflexivity].
  rewrite bind_kw_tv. destruct (bind_kw (skipn (List.length args) ps) kw); simpl; [|reflexivity].
  rewrite map_app; reflexivity.
Qed.

Lemma bind_kw_length : forall ps kw vs, bind_kw ps kw = Some vs -> List.length vs = List.length ps.
Proof.
  intros ps kw; induction ps as [|p ps IH]; simpl; intros vs H.
  - inversion H; reflexivity.
  - destruct (assoc p kw); [|discriminate]. destruct (bind_kw ps kw) eqn:E; [|discriminate].
    inversion H; subst; simpl. rewrite (IH l eq_refl); reflexivity.
Qed.

Lemma bind_args_length : forall ps args kw vs,
  bind_args ps args kw = Some vs -> List.length vs = List.length ps.
Proof.
  intros ps args kw vs; unfold bind_args.
  destruct (Nat.leb (List.length args) (List.length ps)) eqn:E; [|discriminate].
  destruct (nodup_names (map fst kw) && _); [|discriminate].
  destruct (bind_kw _ kw) eqn:E2; [|discriminate]. intros H; inversion H; subst.
  apply bind_kw_length in E2. rewrite app_length, E2, skipn_length.
  apply Nat.leb_le in E. lia.
Qed.

Lemma assoc_vok : forall x (kw : list (string * value)) v,
  forallb vok (map snd kw) = true -> assoc x kw = Some v -> vok v = true.
Proof.
  intros x kw v; induction kw as [|[y a] t IH]; simpl; intros H Ha; [discriminate|].
  apply andb_true_iff in H; destruct H as [H1 H2].
  destruct (String.eqb y x); [inversion Ha; subst; exact H1|apply IH; assumption].
Qed.

Lemma bind_kw_vok : forall ps kw vs, forallb vok (map snd kw) = true ->
  bind_kw ps kw = Some vs -> forallb vok vs = true.
Proof.
  intros ps kw; induction ps as [|p ps IH]; simpl; intros vs Hk H.
  - inversion H; reflexivity.
  - destruct (assoc p kw) eqn:Ea; [|discriminate]. destruct (bind_kw ps kw) eqn:E; [|discriminate].
    inversion H; subst; simpl. rewrite (assoc_vok _ _ _ Hk Ea), (IH l Hk eq_refl); reflexivity.
Qed.

Lemma bind_args_vok : forall ps args kw vs,
  forallb vok args = true -> forallb vok (map snd kw) = true ->
  bind_args ps args kw = Some vs -> forallb vok vs = true.
Proof.
  intros ps args kw vs Ha Hk; unfold bind_args.
  destruct (Nat.leb _ _); [|discriminate]. destruct (_ && _); [|discriminate].
  destruct (bind_kw _ kw) eqn:E; [|discriminate]. intros H; inversion H; subst.
  rewrite vok_app, Ha, (bind_kw_vok _ _ _ Hk E); reflexivity.
Qed.

Lemma combine_tkw : forall M kws vks,
  combine kws (map (tv M) vks) = tkw M (combine kws vks).
Proof.
  intros M kws; induction kws as [|k kws IH]; intros vks; simpl; [reflexivity|].
  destruct vks; simpl; [reflexivity|]. rewrite IH; reflexivity.
Qed.

Lemma snd_combine_vok : forall (kws : list string) vks,
  forallb vok vks = true -> forallb vok (map snd (combine kws vks)) = true.
Proof.
  intros kws; induction kws as [|k kws IH]; intros vks H; simpl; [reflexivity|].
  destruct vks; simpl in *; [reflexivity|].
  apply andb_true_iff in H; destruct H as [H1 H2]. rewrite H1, IH by assumption; reflexivity.
Qed.

Lemma map_snd_tkw : forall M kw, map snd (tkw M kw) = map (tv M) (map snd kw).
Proof. intros; unfold tkw; rewrite !map_map; reflexivity. Qed.

Lemma tkw_fo : forall M kw, forallb fo (map snd kw) = true -> tkw M kw = kw.
Proof.
  intros M kw; induction kw as [|[y a] t IH]; simpl; intros H; [reflexivity|].
  apply andb_true_iff in H; destruct H as [H1 H2].
  rewrite fo_tv, IH by assumption; reflexivity.
Qed.

(* ---- frames ---- *)

Lemma map_fst_frame : forall ps b vs, List.length vs = List.length ps ->
  map fst (frame ps b vs) = fscope ps b.
Proof.
  intros ps b vs H; unfold frame, fscope.
  rewrite map_app, map_fst_undecl, map_fst_combine; [reflexivity|rewrite map_length; lia].
Qed.

Lemma tenv_frame : forall M c sc ps b vs,
  tenv M (frame ps b vs) = frame ps (transform c sc b) (map (tv M) vs).
Proof.
  intros; unfold frame. rewrite tenv_app, tenv_undecl, tenv_combine, assigned_transform; reflexivity.
Qed.

Lemma no_self_assigned : forall e, no_self e = true -> mem self_name (assigned e) = false.
Proof.
  assert (Happ : forall a b, mem self_name (a ++ b) = mem self_name a || mem self_name b)
    by (intros; unfold mem; apply existsb_app).
  assert (HL : forall l, Forall (fun e => no_self e = true -> mem self_name (assigned e) = false) l ->
               forallb no_self l = true -> mem self_name (flat_map assigned l) = false).
  { intros l H; induction H as [|a l Ha Hl IHl]; simpl; intros Hn; [reflexivity|].
    apply andb_true_iff in Hn; destruct Hn as [H1 H2]. rewrite Happ, Ha, IHl by assumption; reflexivity. }
  intros e; induction e using expr_ind2; simpl; intros Hn; try reflexivity;
    repeat (apply andb_true_iff in Hn; let H' := fresh "Hn" in destruct Hn as [Hn H']).
  - apply IHe; exact Hn.
  - rewrite Happ, IHe1, IHe2 by assumption; reflexivity.
  - rewrite !Happ, IHe1, IHe2, IHe3 by assumption; reflexivity.
  - rewrite !Happ, IHe, !HL by assumption; reflexivity.
  - rewrite Happ, IHe, HL by assumption; reflexivity.
  - apply HL; assumption.
  - apply IHe2; assumption.
  - apply negb_true_iff in Hn. rewrite String.eqb_sym in Hn. rewrite Hn; simpl.
    rewrite Happ, IHe1, IHe2 by assumption; reflexivity.
  - apply negb_true_iff in Hn. rewrite String.eqb_sym in Hn. rewrite Hn; simpl.
    apply IHe2; assumption.
Qed.

Lemma env_ok_frame : forall ps b vs,
  mem self_name ps = false -> no_self b = true -> forallb vok vs = true ->
  env_ok (frame ps b vs) = true.
Proof.
  intros ps b vs Hp Hb Hv; unfold frame.
  rewrite env_ok_app, env_ok_combine, env_ok_undecl; auto using no_self_assigned.
Qed.

(* ---- subscription ---- *)

Lemma nth_error_map_tv : forall M l n, nth_error (map (tv M) l) n = option_map (tv M) (nth_error l n).
Proof. intros; apply nth_error_map. Qed.

Lemma index_tv : forall M l z, index (map (tv M) l) z = rmap (tv M) (index l z).
Proof.
  intros M l z; unfold index. rewrite map_length.
  destruct (Z.ltb _ 0); [reflexivity|].
  rewrite nth_error_map_tv. destruct (nth_error l _); reflexivity.
Qed.

Lemma index_vok : forall l z v, forallb vok l = true -> index l z = Ok v -> vok v = true.
Proof.
  intros l z v Hl; unfold index. destruct (Z.ltb _ 0); [discriminate|].
  destruct (nth_error l _) eqn:E; [|discriminate]. intros H; inversion H; subst.
  apply nth_error_In in E. rewrite forallb_forall in Hl. apply Hl; exact E.
Qed.

(* ------------------------------------------------------------------ *)
(** * The simulation *)

(** what the exporter relies on *)
Record model_ok (M : model) : Prop := {
  ok_ns_fo : forall s x v, m_ns M s x = Some v -> fo v = true;
  ok_bi_fo : forall x v, m_builtins M x = Some v -> fo v = true;
  ok_cells : forall s n ps b, m_cells M s n = Some (ps, b) ->
             mem self_name ps = false /\ no_self b = true;
  (* names of the namespace that shadow a built-in are known to the transformer *)
  ok_top_complete : forall s x, m_ns M s x <> None -> In x (t_bi (m_cfg M s)) -> In x (t_top (m_cfg M s));
  ok_top_sound : forall s x, In x (t_top (m_cfg M s)) -> m_ns M s x <> None;
  ok_bi : forall s x, m_builtins M x <> None -> In x (t_bi (m_cfg M s));
  ok_cellnames : forall s x, In x (t_cells (m_cfg M s)) -> exists s' n, m_ns M s x = Some (VCell s' n)
}.

Definition sim (M : model) (ro rt : res value) : Prop :=
  forall v, ro = Ok v -> rt = Ok (tv M v) /\ vok v = true.

Definition rec_rel (M : model) (ro rt : sid -> expr -> env -> res value) : Prop :=
  forall s b en, env_ok en = true -> no_self b = true ->
    sim M (ro s b en) (rt s (transform (m_cfg M s) (map fst en) b) (tenv M en ++ self_frame s)).

Lemma subscript_sim : forall M v idx r,
  vok v = true -> forallb vok idx = true ->
  subscript (Wo M) v idx = Ok r ->
  subscript (Wt M) (tv M v) (map (tv M) idx) = Ok (tv M r) /\ vok r = true.
Proof.
  intros M v idx r Hv Hi H.
  destruct v; simpl in H; try discriminate.
  - (* list *)
    destruct idx as [|i [|j t]]; try discriminate. simpl.
    rewrite as_int_tv. destruct (as_int i); [|discriminate].
    rewrite index_tv, H; simpl. split; [reflexivity|]. apply (index_vok l z r); [exact Hv|exact H].
  - (* space object *)
    simpl. rewrite fo_list_tv_b. destruct (forallb fo idx) eqn:E; [|discriminate].
    rewrite (fo_list_tv M idx E). simpl in *.
    destruct (m_item M s idx); [|discriminate]. inversion H; subst; split; reflexivity.
Qed.

Lemma vok_clos_inv : forall s rn ps b cenv, vok (VClos s rn ps b cenv) = true ->
  match rn with Some f => f <> self_name | None => True end /\
  mem self_name ps = false /\ no_self b = true /\ env_ok cenv = true.
Proof.
  intros s rn ps b cenv H; simpl in H.
  repeat (apply andb_true_iff in H; let H' := fresh "H" in destruct H as [H H']).
  repeat split; try assumption.
  - destruct rn; [|exact I]. apply negb_true_iff in H. apply String.eqb_neq; exact H.
  - apply negb_true_iff; exact H2.
Qed.

Lemma apply_sim : forall M ro rt, model_ok M -> rec_rel M ro rt ->
  forall f args kw r,
  vok f = true -> forallb vok args = true -> forallb vok (map snd kw) = true ->
  apply ro (Wo M) f args kw = Ok r ->
  apply rt (Wt M) (tv M f) (map (tv M) args) (tkw M kw) = Ok (tv M r) /\ vok r = true.
Proof.
  intros M ro rt HM Hrec f args kw r Hf Ha Hk H.
  destruct f; simpl in H; try discriminate.
  - (* space object called: ItemSpace *)
    destruct kw; [|discriminate]. simpl tkw. cbn [apply tv].
    apply (subscript_sim M (VObj s) args r); assumption.
  - (* cells *)
    simpl. destruct (m_cells M s n) as [[ps b]|] eqn:Ec; [|discriminate]. simpl.
    rewrite bind_args_tv. destruct (bind_args ps args kw) as [vs|] eqn:Eb; [|discriminate]. simpl.
    destruct (ok_cells M HM _ _ _ _ Ec) as [Hps Hb].
    assert (Hvs : forallb vok vs = true) by (exact (bind_args_vok ps args kw vs Ha Hk Eb)).
    assert (Hen : env_ok (frame ps b vs ++ []) = true)
      by (rewrite env_ok_app, env_ok_frame by assumption; reflexivity).
    specialize (Hrec s b _ Hen Hb r H).
    rewrite app_nil_r in Hrec. rewrite map_fst_frame in Hrec by (exact (bind_args_length ps args kw vs Eb)).
    rewrite (tenv_frame M (m_cfg M s) (fscope ps b)) in Hrec.
    exact Hrec.
  - (* builtin *)
    simpl. rewrite fo_list_tv_b, map_snd_tkw, fo_list_tv_b.
    destruct (forallb fo args) eqn:E1; [|discriminate].
    destruct (forallb fo (map snd kw)) eqn:E2; [|discriminate]. simpl in *.
    rewrite (fo_list_tv M args E1), (tkw_fo M kw E2).
    destruct (m_fn M n args kw) as [r0|]; [|discriminate].
    destruct (fo r0) eqn:E3; [|discriminate]. inversion H; subst.
    rewrite (fo_tv M r E3); split; [reflexivity|apply fo_vok; exact E3].
  - (* closure *)
    destruct (vok_clos_inv _ _ _ _ _ Hf) as [Hrn [Hps [Hb Hce]]].
    cbn [tv apply]. rewrite bind_args_tv.
    destruct (bind_args ps args kw) as [vs|] eqn:Eb; [|discriminate]. simpl option_map. cbv iota.
    assert (Hvs : forallb vok vs = true) by (exact (bind_args_vok ps args kw vs Ha Hk Eb)).
    set (f0 := VClos s rn ps body cenv) in *.
    set (cenv' := match rn with Some g => upd cenv g f0 | None => cenv end) in *.
    assert (Hce' : env_ok cenv' = true).
    { unfold cenv'; destruct rn; [apply env_ok_upd; assumption|assumption]. }
    assert (Hfst : map fst cenv' = map fst cenv).
    { unfold cenv'; destruct rn; [apply map_fst_upd|reflexivity]. }
    assert (Hen : env_ok (frame ps body vs ++ cenv') = true)
      by (rewrite env_ok_app, env_ok_frame, Hce' by assumption; reflexivity).
    specialize (Hrec s body _ Hen Hb r H).
    rewrite map_app, map_fst_frame, Hfst in Hrec by (exact (bind_args_length ps args kw vs Eb)).
    rewrite tenv_app, (tenv_frame M (m_cfg M s) (fscope ps body ++ map fst cenv)) in Hrec.
    rewrite <- app_assoc in Hrec.
    assert (Hupd : match rn with
                   | Some g => upd (tenv M cenv ++ self_frame s) g (tv M f0)
                   | None => tenv M cenv ++ self_frame s
                   end = tenv M cenv' ++ self_frame s).
    { unfold cenv'; destruct rn; [apply upd_tenv_self; exact Hrn|reflexivity]. }
    unfold f0 in Hupd at 1. cbn [tv] in Hupd. unfold tenv at 1 2 in Hupd.
    rewrite Hupd. exact Hrec.
Qed.

Lemma evlist_sim : forall M (f g : expr -> res value) (T : expr -> expr) es,
  Forall (fun e => sim M (f e) (g (T e))) es ->
  forall vs, evlist f es = Ok vs ->
  evlist g (map T es) = Ok (map (tv M) vs) /\ forallb vok vs = true.
Proof.
  intros M f g T es HF; induction HF as [|e es He Hes IH]; simpl; intros vs H.
  - inversion H; subst; split; reflexivity.
  - destruct (f e) as [v| |] eqn:E; simpl in H; try discriminate.
    destruct (He v eq_refl) as [H1 H2]. rewrite H1; simpl.
    destruct (evlist f es) as [vs'| |] eqn:E2; simpl in H; try discriminate.
    destruct (IH vs' eq_refl) as [H3 H4]. rewrite H3; simpl.
    inversion H; subst; simpl. rewrite H2, H4; split; reflexivity.
Qed.

Lemma evconds_sim : forall M (f g : expr -> res value) (T : expr -> expr) cs,
  Forall (fun e => sim M (f e) (g (T e))) cs ->
  forall b, evconds f cs = Ok b -> evconds g (map T cs) = Ok b.
Proof.
  intros M f g T cs HF; induction HF as [|e es He Hes IH]; simpl; intros b H.
  - exact H.
  - destruct (f e) as [v| |] eqn:E; simpl in H; try discriminate.
    destruct (He v eq_refl) as [H1 H2]. rewrite H1; simpl. rewrite truthy_tv.
    destruct (truthy v); [apply IH; exact H|exact H].
Qed.

Lemma comp_loop_sim : forall M (bo bt : value -> res (option value)),
  (forall v o, vok v = true -> bo v = Ok o ->
     bt (tv M v) = Ok (option_map (tv M) o) /\ match o with Some r => vok r | None => true end = true) ->
  forall vs rs, forallb vok vs = true -> comp_loop bo vs = Ok rs ->
  comp_loop bt (map (tv M) vs) = Ok (map (tv M) rs) /\ forallb vok rs = true.
Proof.
  intros M bo bt Hb vs; induction vs as [|v vs IH]; simpl; intros rs Hv H.
  - inversion H; subst; split; reflexivity.
  - apply andb_true_iff in Hv; destruct Hv as [Hv1 Hv2].
    destruct (bo v) as [o| |] eqn:E; simpl in H; try discriminate.
    destruct (Hb v o Hv1 E) as [H1 H2]. rewrite H1; simpl.
    destruct (comp_loop bo vs) as [rs'| |] eqn:E2; simpl in H; try discriminate.
    destruct (IH rs' Hv2 eq_refl) as [H3 H4]. rewrite H3; simpl.
    inversion H; subst. destruct o; simpl; [rewrite H2, H4|rewrite H4]; split; reflexivity.
Qed.

Lemma lookup_mem : forall en x, mem x (map fst en) = match lookup en x with Some _ => true | None => false end.
Proof.
  intros en x. destruct (lookup en x) eqn:E.
  - apply mem_In. destruct (in_dec string_dec x (map fst en)) as [Hi|Hn]; [exact Hi|].
    apply lookup_None in Hn; congruence.
  - apply mem_false. apply lookup_None; exact E.
Qed.

Lemma lookup_self : forall M s en, env_ok en = true ->
  lookup (tenv M en ++ self_frame s) self_name = Some (Some (VObj s)).
Proof.
  intros M s en H. rewrite lookup_app, lookup_tenv, (env_ok_noself en H). simpl.
  rewrite String.eqb_refl; reflexivity.
Qed.

Lemma lookup_tenv_self : forall M s en x, x <> self_name ->
  lookup (tenv M en ++ self_frame s) x = option_map (option_map (tv M)) (lookup en x).
Proof.
  intros M s en x Hx. rewrite lookup_app, lookup_tenv.
  destruct (lookup en x); simpl; [reflexivity|].
  destruct (String.eqb self_name x) eqn:E; [apply String.eqb_eq in E; congruence|reflexivity].
Qed.

Lemma name_sim : forall M ro rt, model_ok M ->
  forall x s en, env_ok en = true -> no_self (EName x) = true ->
  sim M (ev ro (Wo M) s (EName x) en)
        (ev rt (Wt M) s (transform (m_cfg M s) (map fst en) (EName x)) (tenv M en ++ self_frame s)).
Proof.
  intros M ro rt HM x s en Hen Hns v H.
  simpl in Hns. apply negb_true_iff in Hns. apply String.eqb_neq in Hns.
  simpl in H. cbn [transform]. unfold replace, classify_global. rewrite lookup_mem.
  destruct (lookup en x) as [[v0|]|] eqn:El; try discriminate.
  - inversion H; subst. simpl. rewrite lookup_tenv_self, El by exact Hns. simpl.
    split; [reflexivity|eapply env_ok_lookup; eauto].
  - cbn [negb andb].
    destruct (m_ns M s x) as [v1|] eqn:En.
    + (* a name of the namespace *)
      inversion H; subst.
      assert (Hrep : mem x (t_top (m_cfg M s)) || negb (mem x (t_bi (m_cfg M s))) = true).
      { destruct (mem x (t_bi (m_cfg M s))) eqn:Eb; [|apply orb_true_r].
        apply mem_In in Eb. rewrite orb_false_r. apply mem_In.
        apply (ok_top_complete M HM); [congruence|exact Eb]. }
      rewrite Hrep. unfold self_attr. cbn [ev]. rewrite (lookup_self M s en Hen). simpl.
      rewrite En. rewrite (fo_tv M v (ok_ns_fo M HM _ _ _ En)).
      split; [reflexivity|apply fo_vok; eapply ok_ns_fo; eauto].
    + (* a built-in *)
      destruct (m_builtins M x) as [v1|] eqn:Eb; [|discriminate]. inversion H; subst.
      assert (Hrep : mem x (t_top (m_cfg M s)) || negb (mem x (t_bi (m_cfg M s))) = false).
      { apply orb_false_iff; split.
        - apply mem_false. intros Hi. apply (ok_top_sound M HM) in Hi. congruence.
        - apply negb_false_iff. apply mem_In. apply (ok_bi M HM). congruence. }
      rewrite Hrep. cbn [ev]. rewrite lookup_tenv_self, El by exact Hns. simpl. rewrite Eb.
      rewrite (fo_tv M v (ok_bi_fo M HM _ _ Eb)).
      split; [reflexivity|apply fo_vok; eapply ok_bi_fo; eauto].
Qed.

Definition ev_rel (M : model) (ro rt : sid -> expr -> env -> res value) (e : expr) : Prop :=
  forall s en, env_ok en = true -> no_self e = true ->
    sim M (ev ro (Wo M) s e en)
          (ev rt (Wt M) s (transform (m_cfg M s) (map fst en) e) (tenv M en ++ self_frame s)).

Lemma Forall_ev_rel : forall M ro rt s en l,
  Forall (ev_rel M ro rt) l -> env_ok en = true -> forallb no_self l = true ->
  Forall (fun e => sim M ((fun a => ev ro (Wo M) s a en) e)
                         ((fun a => ev rt (Wt M) s a (tenv M en ++ self_frame s))
                            (transform (m_cfg M s) (map fst en) e))) l.
Proof.
  intros M ro rt s en l HF Hen Hn; induction HF as [|e l He Hl IH]; [constructor|].
  simpl in Hn; apply andb_true_iff in Hn; destruct Hn as [H1 H2].
  constructor; [apply He; assumption|apply IH; exact H2].
Qed.

Lemma sub_generic : forall M ro rt e idx,
  ev_rel M ro rt e -> Forall (ev_rel M ro rt) idx ->
  forall s en, env_ok en = true -> no_self e = true -> forallb no_self idx = true ->
  sim M (ev ro (Wo M) s (ESub e idx) en)
        (ev rt (Wt M) s (ESub (transform (m_cfg M s) (map fst en) e)
                              (map (transform (m_cfg M s) (map fst en)) idx))
            (tenv M en ++ self_frame s)).
Proof.
  intros M ro rt e idx He Hidx s en Hen Hne Hni v H.
  cbn [ev] in *.
  destruct (ev ro (Wo M) s e en) as [v0| |] eqn:E0; simpl in H; try discriminate.
  destruct (He s en Hen Hne v0 E0) as [H1 H2]. rewrite H1; simpl.
  destruct (evlist (fun a => ev ro (Wo M) s a en) idx) as [vi| |] eqn:E1; simpl in H; try discriminate.
  destruct (evlist_sim M _ _ _ idx (Forall_ev_rel M ro rt s en idx Hidx Hen Hni) vi E1) as [H3 H4].
  rewrite H3; simpl. apply subscript_sim; assumption.
Qed.

Theorem ev_sim : forall M ro rt, model_ok M -> rec_rel M ro rt -> forall e, ev_rel M ro rt e.
Proof.
  intros M ro rt HM Hrec e;
  induction e as [ z | | x | e a IHe | op a b IHa IHb | c a b IHc IHa IHb
                 | f args kws kwv IHf Hargs Hkwv | e idx IHe Hidx | ps b IHb | es Hes
                 | k elt x iter conds IHelt IHiter Hconds | x e1 rest IH1 IH2
                 | f ps fb rest IHfb IHrest ] using expr_ind2;
  intros s en Hen Hns v H.
  - (* EInt *) inversion H; subst; split; reflexivity.
  - (* ENone *) inversion H; subst; split; reflexivity.
  - (* EName *) eapply name_sim; eauto.
  - (* EAttr *)
    cbn [ev transform no_self] in *.
    destruct (ev ro (Wo M) s e en) as [v0| |] eqn:E0; simpl in H; try discriminate.
    destruct (IHe s en Hen Hns v0 E0) as [H1 H2]. rewrite H1; simpl.
    destruct v0; simpl in H; try discriminate. simpl.
    destruct (m_ns M s0 a) eqn:En; [|discriminate]. inversion H; subst.
    rewrite (fo_tv M v (ok_ns_fo M HM _ _ _ En)).
    split; [reflexivity|apply fo_vok; eapply ok_ns_fo; eauto].
  - (* EBin *)
    cbn [ev transform no_self] in *. apply andb_true_iff in Hns; destruct Hns as [Hn1 Hn2].
    destruct (ev ro (Wo M) s a en) as [va| |] eqn:E1; simpl in H; try discriminate.
    destruct (IHa s en Hen Hn1 va E1) as [H1 H2]. rewrite H1; simpl.
    destruct (ev ro (Wo M) s b en) as [vb| |] eqn:E2; simpl in H; try discriminate.
    destruct (IHb s en Hen Hn2 vb E2) as [H3 H4]. rewrite H3; simpl.
    rewrite binop_tv, H; simpl. split; [reflexivity|exact (binop_vok op va vb v H2 H4 H)].
  - (* EIf *)
    cbn [ev transform no_self] in *.
    apply andb_true_iff in Hns; destruct Hns as [Hns Hn3].
    apply andb_true_iff in Hns; destruct Hns as [Hn1 Hn2].
    destruct (ev ro (Wo M) s c en) as [vc| |] eqn:E1; simpl in H; try discriminate.
    destruct (IHc s en Hen Hn1 vc E1) as [H1 H2]. rewrite H1; simpl. rewrite truthy_tv.
    destruct (truthy vc); [apply IHa|apply IHb]; assumption.
  - (* ECall *)
    cbn [ev transform no_self] in *.
    apply andb_true_iff in Hns; destruct Hns as [Hns Hn3].
    apply andb_true_iff in Hns; destruct Hns as [Hn1 Hn2].
    destruct (ev ro (Wo M) s f en) as [vf| |] eqn:E0; simpl in H; try discriminate.
    destruct (IHf s en Hen Hn1 vf E0) as [H1 H2]. rewrite H1; simpl.
    destruct (evlist (fun a => ev ro (Wo M) s a en) args) as [vas| |] eqn:E1; simpl in H; try discriminate.
    destruct (evlist_sim M _ _ _ args (Forall_ev_rel M ro rt s en args Hargs Hen Hn2) vas E1) as [H3 H4].
    rewrite H3; simpl.
    destruct (evlist (fun a => ev ro (Wo M) s a en) kwv) as [vks| |] eqn:E2; simpl in H; try discriminate.
    destruct (evlist_sim M _ _ _ kwv (Forall_ev_rel M ro rt s en kwv Hkwv Hen Hn3) vks E2) as [H5 H6].
    rewrite H5; simpl. rewrite map_length.
    destruct (Nat.eqb (List.length kws) (List.length vks)); [|discriminate].
    rewrite combine_tkw. eapply apply_sim; eauto. apply snd_combine_vok; exact H6.
  - (* ESub *)
    cbn [no_self] in Hns. apply andb_true_iff in Hns; destruct Hns as [Hn1 Hn2].
    destruct (name_or_not e) as [[x ->]|Hnn].
    + cbn [transform].
      destruct (replace (m_cfg M s) (map fst en) x && mem x (t_cells (m_cfg M s))) eqn:Er.
      * (* rewritten to a call: the original subscribes a cells (a bound method) and fails *)
        exfalso. apply andb_true_iff in Er; destruct Er as [Er1 Er2].
        unfold replace, classify_global in Er1. apply andb_true_iff in Er1; destruct Er1 as [Er1 _].
        rewrite lookup_mem in Er1.
        apply mem_In in Er2. destruct (ok_cellnames M HM s x Er2) as [s' [n En]].
        cbn [ev] in H. destruct (lookup en x); [discriminate|]. simpl in H. rewrite En in H. simpl in H.
        destruct (evlist (fun a => ev ro (Wo M) s a en) idx); simpl in H; discriminate.
      * apply (sub_generic M ro rt (EName x) idx IHe Hidx s en Hen Hn1 Hn2 v H).
    + rewrite transform_sub_notname by exact Hnn.
      apply (sub_generic M ro rt e idx IHe Hidx s en Hen Hn1 Hn2 v H).
  - (* ELam *)
    cbn [ev transform] in *. inversion H; subst. split; [reflexivity|].
    cbn [no_self] in Hns. apply andb_true_iff in Hns; destruct Hns as [Hn1 Hn2].
    cbn [vok]. rewrite Hn1, Hn2. exact Hen.
  - (* EList *)
    cbn [ev transform no_self] in *.
    destruct (evlist (fun a => ev ro (Wo M) s a en) es) as [vs| |] eqn:E1; simpl in H; try discriminate.
    destruct (evlist_sim M _ _ _ es (Forall_ev_rel M ro rt s en es Hes Hen Hns) vs E1) as [H3 H4].
    rewrite H3; simpl. inversion H; subst. split; [reflexivity|exact H4].
  - (* EComp *)
    cbn [ev transform no_self] in *.
    apply andb_true_iff in Hns; destruct Hns as [Hns Hn4].
    apply andb_true_iff in Hns; destruct Hns as [Hns Hn3].
    apply andb_true_iff in Hns; destruct Hns as [Hn1 Hn2].
    apply negb_true_iff in Hn1.
    destruct (ev ro (Wo M) s iter en) as [vi| |] eqn:E0; simpl in H; try discriminate.
    destruct (IHiter s en Hen Hn3 vi E0) as [H1 H2]. rewrite H1; simpl.
    destruct vi; simpl in H; try discriminate. cbn [tv].
    match type of H with rbind (comp_loop ?bo l) _ = _ => set (body_o := bo) in * end.
    destruct (comp_loop body_o l) as [rs| |] eqn:E1; simpl in H; try discriminate.
    inversion H; subst. clear H.
    match goal with |- rbind (comp_loop ?bt _) _ = _ /\ _ => set (body_t := bt) end.
    assert (Hb : forall v o, vok v = true -> body_o v = Ok o ->
                 body_t (tv M v) = Ok (option_map (tv M) o) /\
                 match o with Some r => vok r | None => true end = true).
    { intros v o Hv Ho. unfold body_o in Ho. unfold body_t.
      rewrite assigned_transform, flat_assigned_transform.
      set (L := assigned elt ++ flat_map assigned conds) in *.
      set (en' := (x, Some v) :: undecl L ++ en) in *.
      assert (Hen' : env_ok en' = true).
      { change en' with (((x, Some v) :: undecl L) ++ en).
        rewrite env_ok_app, Hen, andb_true_r. simpl. rewrite Hn1, Hv; simpl.
        apply env_ok_undecl. unfold L, mem. rewrite existsb_app. apply orb_false_iff; split.
        - apply no_self_assigned; exact Hn2.
        - clear - Hn4. induction conds as [|c cs IH]; simpl in *; [reflexivity|].
          apply andb_true_iff in Hn4; destruct Hn4 as [Ha Hb].
          rewrite existsb_app. apply orb_false_iff; split;
            [apply no_self_assigned; exact Ha|apply IH; exact Hb]. }
      assert (Hfst : map fst en' = x :: L ++ map fst en).
      { unfold en'. simpl. rewrite map_app, map_fst_undecl. reflexivity. }
      assert (Hte : (x, Some (tv M v)) :: undecl L ++ tenv M en ++ self_frame s
                    = tenv M en' ++ self_frame s).
      { change en' with (((x, Some v) :: undecl L) ++ en).
        rewrite tenv_app. simpl. rewrite tenv_undecl, <- app_assoc. reflexivity. }
      rewrite Hte, <- Hfst. clearbody en'.
      destruct (evconds (fun c => ev ro (Wo M) s c en') conds) as [ok| |] eqn:Ec; simpl in Ho; try discriminate.
      rewrite (evconds_sim M _ _ _ conds (Forall_ev_rel M ro rt s en' conds Hconds Hen' Hn4) ok Ec). simpl.
      destruct ok.
      - destruct (ev ro (Wo M) s elt en') as [r| |] eqn:Ee; simpl in Ho; try discriminate.
        destruct (IHelt s en' Hen' Hn2 r Ee) as [H3 H4]. rewrite H3; simpl.
        inversion Ho; subst; simpl. split; [reflexivity|exact H4].
      - inversion Ho; subst; simpl. split; reflexivity. }
    destruct (comp_loop_sim M body_o body_t Hb l rs H2 E1) as [H3 H4].
    rewrite H3; simpl. split; [reflexivity|exact H4].
  - (* ELet *)
    cbn [ev transform no_self] in *.
    apply andb_true_iff in Hns; destruct Hns as [Hns Hn3].
    apply andb_true_iff in Hns; destruct Hns as [Hn1 Hn2].
    apply negb_true_iff in Hn1. apply String.eqb_neq in Hn1.
    destruct (ev ro (Wo M) s e1 en) as [v1| |] eqn:E1; simpl in H; try discriminate.
    destruct (IH1 s en Hen Hn2 v1 E1) as [H1 H2]. rewrite H1; simpl.
    rewrite upd_tenv_self by exact Hn1.
    rewrite <- (map_fst_upd en x v1).
    apply IH2; [apply env_ok_upd; assumption|exact Hn3|exact H].
  - (* EDef *)
    cbn [ev transform no_self] in *.
    apply andb_true_iff in Hns; destruct Hns as [Hns Hn4].
    apply andb_true_iff in Hns; destruct Hns as [Hns Hn3].
    apply andb_true_iff in Hns; destruct Hns as [Hn1 Hn2].
    assert (Hf : f <> self_name) by (apply negb_true_iff in Hn1; apply String.eqb_neq; exact Hn1).
    set (clo := VClos s (Some f) ps fb en) in *.
    assert (Hclo : vok clo = true).
    { unfold clo. cbn [vok]. rewrite Hn1, Hn2, Hn3. exact Hen. }
    change (VClos s (Some f) ps (transform (m_cfg M s) (fscope ps fb ++ map fst en) fb)
                  (tenv M en ++ self_frame s)) with (tv M clo).
    rewrite upd_tenv_self by exact Hf.
    rewrite <- (map_fst_upd en f clo).
    apply IHrest; [apply env_ok_upd; assumption|exact Hn4|exact H].
Qed.

Lemma eval_unfold : forall n W s e en,
  eval n W s e en = ev (match n with O => fun _ _ _ => OutOfFuel | S n' => eval n' W end) W s e en.
Proof. intros n; destruct n; reflexivity. Qed.

(** every formula, every environment, every fuel *)
Theorem eval_sim : forall M, model_ok M -> forall n, rec_rel M (eval n (Wo M)) (eval n (Wt M)).
Proof.
  intros M HM n; induction n as [|n IH]; intros s b en Hen Hb; rewrite !eval_unfold.
  - apply ev_sim; try assumption. intros s' b' en' _ _ v H; discriminate.
  - apply ev_sim; assumption.
Qed.

Theorem transform_sound : forall M, model_ok M -> forall n s e en v,
  env_ok en = true -> no_self e = true ->
  eval n (Wo M) s e en = Ok v ->
  eval n (Wt M) s (transform (m_cfg M s) (map fst en) e) (tenv M en ++ self_frame s) = Ok (tv M v).
Proof.
  intros M HM n s e en v Hen He H. destruct (eval_sim M HM n s e en Hen He v H) as [H1 _]; exact H1.
Qed.

(** calling a cells of the exported package from outside with closure-free
    arguments gives the value the model gives *)
Theorem call_cells_sound : forall M, model_ok M -> forall n s nm args v,
  forallb fo args = true ->
  call_cells n (Wo M) s nm args = Ok v ->
  call_cells n (Wt M) s nm args = Ok (tv M v).
Proof.
  intros M HM n s nm args v Ha H. unfold call_cells in *.
  assert (Hrec : rec_rel M (match n with O => fun _ _ _ => OutOfFuel | S n' => eval n' (Wo M) end)
                           (match n with O => fun _ _ _ => OutOfFuel | S n' => eval n' (Wt M) end)).
  { destruct n; [intros s' b' en' _ _ v' H'; discriminate|apply eval_sim; exact HM]. }
  destruct (apply_sim M _ _ HM Hrec (VCell s nm) args [] v eq_refl (fo_list_vok _ Ha) eq_refl H) as [H1 _].
  rewrite (fo_list_tv M args Ha) in H1. exact H1.
Qed.

Corollary call_cells_same_value : forall M, model_ok M -> forall n s nm args v,
  forallb fo args = true -> fo v = true ->
  call_cells n (Wo M) s nm args = Ok v ->
  call_cells n (Wt M) s nm args = Ok v.
Proof.
  intros M HM n s nm args v Ha Hv H.
  pose proof (call_cells_sound M HM n s nm args v Ha H) as H1.
  rewrite (fo_tv M v Hv) in H1. exact H1.
Qed.

(* ------------------------------------------------------------------ *)
(** * Memo tables *)

Lemma leqb_Z_eq : forall a b : list Z, leqb Z.eqb a b = true <-> a = b.
Proof.
  induction a as [|x a IH]; destruct b as [|y b]; simpl; split; intros H; try reflexivity; try discriminate.
  - apply andb_true_iff in H; destruct H as [H1 H2]. apply Z.eqb_eq in H1. apply IH in H2. subst; reflexivity.
  - inversion H; subst. rewrite Z.eqb_refl. apply andb_true_iff; split; [reflexivity|apply IH; reflexivity].
Qed.

Definition memo_inv {V} (f : key -> V) (t : memo V) : Prop :=
  forall k v, mfind t k = Some v -> v = f k.

Lemma mfind_filter {V} : forall (t : memo V) k k' v,
  mfind (filter (fun p => negb (key_eqb (fst p) k)) t) k' = Some v -> mfind t k' = Some v.
Proof.
  intros t k k' v; induction t as [|[k0 v0] t IH]; simpl; intros H; [exact H|].
  destruct (key_eqb k0 k) eqn:E; simpl in H.
  - destruct (key_eqb k0 k') eqn:E2; [|apply IH; exact H].
    (* the removed key is asked again: it cannot be found in the filtered rest *)
    exfalso. apply leqb_Z_eq in E. apply leqb_Z_eq in E2. subst.
    clear IH. induction t as [|[k1 v1] t IH]; simpl in H; [discriminate|].
    destruct (key_eqb k1 k') eqn:E3; simpl in H; [apply IH; exact H|].
    rewrite E3 in H. apply IH; exact H.
  - destruct (key_eqb k0 k'); [exact H|apply IH; exact H].
Qed.

Lemma mstep_inv {V} : forall (f : key -> V) t o,
  memo_inv f t ->
  memo_inv f (fst (mstep f t o)) /\
  snd (mstep f t o) = match o with MCall k => Some (f k) | _ => None end.
Proof.
  intros f t o Hi; destruct o as [k| |k]; simpl.
  - destruct (mfind t k) as [v|] eqn:E; simpl.
    + split; [exact Hi|rewrite (Hi k v E); reflexivity].
    + split; [|reflexivity]. intros k' v' H; simpl in H.
      destruct (key_eqb k k') eqn:E2; [|apply Hi; exact H].
      apply leqb_Z_eq in E2; subst. inversion H; reflexivity.
  - split; [intros k v H; discriminate|reflexivity].
  - split; [|reflexivity]. intros k' v' H. apply Hi. eapply mfind_filter; exact H.
Qed.

(** any sequence of calls, clears and deletions: the memoised method answers
    what the uncached body answers *)
Theorem memo_sound {V} : forall (f : key -> V) ops t,
  memo_inv f t ->
  snd (mrun f t ops) = mspec f ops /\ memo_inv f (fst (mrun f t ops)).
Proof.
  intros f ops; induction ops as [|o ops IH]; intros t Hi; simpl.
  - split; [reflexivity|exact Hi].
  - destruct (mstep_inv f t o Hi) as [H1 H2].
    destruct (mstep f t o) as [t1 x] eqn:E. simpl in H1, H2.
    destruct (IH t1 H1) as [H3 H4].
    destruct (mrun f t1 ops) as [t2 xs] eqn:E2. simpl in *.
    split; [rewrite H2, H3; reflexivity|exact H4].
Qed.

Corollary memo_sound_fresh {V} : forall (f : key -> V) ops,
  snd (mrun f [] ops) = mspec f ops.
Proof. intros f ops. apply memo_sound. intros k v H; discriminate. Qed.
