(** Export layer: a concrete model satisfying [model_ok], used to show that the
    hypotheses of the C15 theorems are satisfiable on a non-trivial state, and
    sanity examples of [transform]. *)
From Coq Require Import List String ZArith Bool Arith Lia.
From MX Require Import Export.Model Export.Proofs.
Import ListNotations.
Open Scope string_scope.
Open Scope list_scope.

(** space 0 (A):  k = 3 ; max = 5 (shadows the built-in) ; lst = [1,2,3] ; sp = <space 1>
      def foo(x):
          g = lambda y: y + k
          return sum([bar(a) + g(a) for a in lst]) + max + sp.k + x
      bar = lambda t: t * k if 0 < t else 0
    space 1 (B):  k = 10 *)
Definition foo_body : expr :=
  ELet "g" (ELam ["y"] (EBin Add (EName "y") (EName "k")))
   (EBin Add (EBin Add (EBin Add
      (ECall (EName "sum")
         [EComp CList (EBin Add (ECall (EName "bar") [EName "a"] [] [])
                                (ECall (EName "g") [] ["y"] [EName "a"]))
                "a" (EName "lst") []] [] [])
      (EName "max")) (EAttr (EName "sp") "k")) (EName "x")).
Definition bar_body : expr :=
  EIf (EBin Lt (EInt 0) (EName "t")) (EBin Mul (EName "t") (EName "k")) (EInt 0).

Definition ns0 : list (string * value) :=
  [("k", VInt 3); ("max", VInt 5); ("lst", VList [VInt 1; VInt 2; VInt 3]); ("sp", VObj 1);
   ("foo", VCell 0 "foo"); ("bar", VCell 0 "bar")].
Definition ns1 : list (string * value) := [("k", VInt 10)].
Definition bi0 : list string := ["sum"; "max"; "len"].

Definition sum_list (l : list value) : option Z :=
  fold_right (fun v acc => match as_int v, acc with Some z, Some a => Some (z + a)%Z | _, _ => None end) (Some 0%Z) l.

Definition M0 : model := {|
  m_ns := fun s x => match s with 0 => assoc x ns0 | 1 => assoc x ns1 | _ => None end;
  m_cells := fun s n => match s with
                        | 0 => if String.eqb n "foo" then Some (["x"], foo_body)
                               else if String.eqb n "bar" then Some (["t"], bar_body) else None
                        | _ => None end;
  m_item := fun _ _ => None;
  m_builtins := fun x => if mem x bi0 then Some (VBuiltin x) else None;
  m_fn := fun n args _ => match n, args with
                          | "sum", [VList l] => option_map VInt (sum_list l)
                          | _, _ => None end;
  m_cfg := fun s => match s with
                    | 0 => {| t_top := map fst ns0; t_cells := ["foo"; "bar"]; t_bi := bi0 |}
                    | 1 => {| t_top := map fst ns1; t_cells := []; t_bi := bi0 |}
                    | _ => {| t_top := []; t_cells := []; t_bi := bi0 |} end |}.

Lemma assoc_In {A} : forall x (l : list (string * A)) v, assoc x l = Some v -> In (x, v) l.
Proof.
  intros x l v; induction l as [|[y a] t IH]; simpl; intros H; [discriminate|].
  destruct (String.eqb y x) eqn:E.
  - apply String.eqb_eq in E; inversion H; subst; left; reflexivity.
  - right; apply IH; exact H.
Qed.

Lemma assoc_notin {A} : forall x (l : list (string * A)), ~ In x (map fst l) -> assoc x l = None.
Proof.
  intros x l; induction l as [|[y a] t IH]; simpl; intros H; [reflexivity|].
  destruct (String.eqb y x) eqn:E.
  - apply String.eqb_eq in E; subst. exfalso; apply H; left; reflexivity.
  - apply IH. intros Hi; apply H; right; exact Hi.
Qed.

Lemma In_ns_fo : forall (l : list (string * value)) x v,
  forallb (fun p => fo (snd p)) l = true -> In (x, v) l -> fo v = true.
Proof.
  intros l x v H Hi. rewrite forallb_forall in H. apply (H (x, v) Hi).
Qed.

Lemma M0_ok : model_ok M0.
Proof.
  constructor.
  - intros s x v H. destruct s as [|[|s]].
    + change (assoc x ns0 = Some v) in H. apply assoc_In in H.
      apply (In_ns_fo ns0 x v); [vm_compute; reflexivity|exact H].
    + change (assoc x ns1 = Some v) in H. apply assoc_In in H.
      apply (In_ns_fo ns1 x v); [vm_compute; reflexivity|exact H].
    + discriminate H.
  - intros x v H. change ((if mem x bi0 then Some (VBuiltin x) else None) = Some v) in H.
    destruct (mem x bi0); inversion H; reflexivity.
  - intros s n ps b H. destruct s as [|s]; [|discriminate H].
    change ((if String.eqb n "foo" then Some (["x"], foo_body)
             else if String.eqb n "bar" then Some (["t"], bar_body) else None) = Some (ps, b)) in H.
    destruct (String.eqb n "foo"); [inversion H; subst; split; vm_compute; reflexivity|].
    destruct (String.eqb n "bar"); [inversion H; subst; split; vm_compute; reflexivity|discriminate].
  - intros s x Hn Hb.
    destruct s as [|[|s]].
    + change (assoc x ns0 <> None) in Hn. change (In x (map fst ns0)).
      destruct (in_dec string_dec x (map fst ns0)) as [Hi|Hi]; [exact Hi|].
      exfalso; apply Hn; apply assoc_notin; exact Hi.
    + change (assoc x ns1 <> None) in Hn. change (In x (map fst ns1)).
      destruct (in_dec string_dec x (map fst ns1)) as [Hi|Hi]; [exact Hi|].
      exfalso; apply Hn; apply assoc_notin; exact Hi.
    + exfalso; apply Hn; reflexivity.
  - intros s x Hi. destruct s as [|[|s]].
    + change (In x (map fst ns0)) in Hi. change (assoc x ns0 <> None).
      unfold ns0 in *. cbn [map fst] in Hi.
      repeat (destruct Hi as [Hi|Hi]; [subst x; vm_compute; discriminate|]). destruct Hi.
    + change (In x (map fst ns1)) in Hi. change (assoc x ns1 <> None).
      unfold ns1 in *. cbn [map fst] in Hi.
      repeat (destruct Hi as [Hi|Hi]; [subst x; vm_compute; discriminate|]). destruct Hi.
    + destruct Hi.
  - intros s x H. change ((if mem x bi0 then Some (VBuiltin x) else None) <> None) in H.
    assert (Hm : mem x bi0 = true) by (destruct (mem x bi0); [reflexivity|congruence]).
    apply mem_In in Hm. destruct s as [|[|s]]; exact Hm.
  - intros s x Hi. destruct s as [|[|s]]; try (destruct Hi; fail).
    change (In x ["foo"; "bar"]) in Hi.
    destruct Hi as [Hi|[Hi|[]]]; subst x; [exists 0, "foo"|exists 0, "bar"]; vm_compute; reflexivity.
Qed.

(** the model evaluates foo(2) = 50; so does the exported package *)
Example M0_foo_model : call_cells 5 (Wo M0) 0 "foo" [VInt 2] = Ok (VInt 50).
Proof. vm_compute. reflexivity. Qed.
Example M0_foo_exported : call_cells 5 (Wt M0) 0 "foo" [VInt 2] = Ok (VInt 50).
Proof. exact (call_cells_same_value M0 M0_ok 5 0 "foo" [VInt 2] (VInt 50) eq_refl eq_refl M0_foo_model). Qed.
Example M0_foo_exported_computed : call_cells 5 (Wt M0) 0 "foo" [VInt 2] = Ok (VInt 50).
Proof. vm_compute. reflexivity. Qed.

(** what the transformed method looks like: k, bar, lst, max (a reference), sp are
    prefixed; g, y, a, x (bound) and sum (built-in only) are not; the keyword y= stays *)
Example M0_foo_transformed :
  transform (m_cfg M0 0) (fscope ["x"] foo_body) foo_body =
  ELet "g" (ELam ["y"] (EBin Add (EName "y") (self_attr "k")))
   (EBin Add (EBin Add (EBin Add
      (ECall (EName "sum")
         [EComp CList (EBin Add (ECall (self_attr "bar") [EName "a"] [] [])
                                (ECall (EName "g") [] ["y"] [EName "a"]))
                "a" (self_attr "lst") []] [] [])
      (self_attr "max")) (EAttr (self_attr "sp") "k")) (EName "x")).
Proof. vm_compute. reflexivity. Qed.

(** a function object as a value: the theorem relates it to its translation *)
Example M0_closure :
  exists v, eval 3 (Wo M0) 0 (ELam ["y"] (EBin Add (EName "y") (EName "k"))) [] = Ok v /\
            eval 3 (Wt M0) 0 (transform (m_cfg M0 0) [] (ELam ["y"] (EBin Add (EName "y") (EName "k"))))
                 (self_frame 0) = Ok (tv M0 v) /\ fo v = false.
Proof. eexists; repeat split; vm_compute; reflexivity. Qed.

(** memo: calls, a deletion and a clear in between *)
Example memo_example :
  snd (mrun (fun k => match k with [z] => (z * z)%Z | _ => 0%Z end) []
            [MCall [3%Z]; MCall [3%Z]; MDel [3%Z]; MCall [4%Z]; MClear; MCall [3%Z]])
  = [Some 9%Z; Some 9%Z; None; Some 16%Z; None; Some 9%Z].
Proof. vm_compute. reflexivity. Qed.
