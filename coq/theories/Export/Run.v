(** Export layer: executable instantiation used by the correspondence check —
    a [model] built from tables dumped from the real modelx objects, the built-in
    functions used by generated formulas, and the comparison of [call_cells] in both
    worlds with the values observed on the implementation.  Definitions only. *)
From Coq Require Import List String ZArith Bool Arith.
From MX Require Import Export.Model.
Import ListNotations.
Open Scope string_scope.
Open Scope list_scope.

Fixpoint ints_of (l : list value) : option (list Z) :=
  match l with
  | [] => Some []
  | v :: t => match as_int v, ints_of t with
              | Some z, Some r => Some (z :: r)
              | _, _ => None
              end
  end.

Fixpoint insert_z (x : Z) (l : list Z) : list Z :=
  match l with
  | [] => [x]
  | y :: t => if Z.leb x y then x :: l else y :: insert_z x t
  end.
Definition sort_z (l : list Z) : list Z := fold_right insert_z [] l.

Definition max_z (l : list Z) : option Z :=
  match l with [] => None | x :: t => Some (fold_left Z.max t x) end.
Definition min_z (l : list Z) : option Z :=
  match l with [] => None | x :: t => Some (fold_left Z.min t x) end.

Fixpoint range_z (n : nat) : list Z :=
  match n with O => [] | S k => range_z k ++ [Z.of_nat k] end.

(** the built-in functions the generator uses, on integers / lists of integers
    (max/min keep the first extremal element: indistinguishable on integers) *)
Definition py_fn (n : string) (args : list value) (kw : list (string * value)) : option value :=
  match kw with
  | _ :: _ => None
  | [] =>
    if String.eqb n "sum" then
      match args with [VList l] => option_map (fun zs => VInt (fold_left Z.add zs 0%Z)) (ints_of l) | _ => None end
    else if String.eqb n "len" then
      match args with [VList l] => Some (VInt (Z.of_nat (List.length l))) | _ => None end
    else if String.eqb n "abs" then
      match args with [v] => option_map (fun z => VInt (Z.abs z)) (as_int v) | _ => None end
    else if String.eqb n "max" then
      match args with
      | [VList l] => match ints_of l with Some zs => option_map VInt (max_z zs) | None => None end
      | _ :: _ :: _ => match ints_of args with Some zs => option_map VInt (max_z zs) | None => None end
      | _ => None
      end
    else if String.eqb n "min" then
      match args with
      | [VList l] => match ints_of l with Some zs => option_map VInt (min_z zs) | None => None end
      | _ :: _ :: _ => match ints_of args with Some zs => option_map VInt (min_z zs) | None => None end
      | _ => None
      end
    else if String.eqb n "range" then
      match args with
      | [v] => match as_int v with
               | Some z => if Z.ltb z 2000 then Some (VList (map VInt (range_z (Z.to_nat z)))) else None
               | None => None end
      | _ => None
      end
    else if String.eqb n "sorted" then
      match args with [VList l] => option_map (fun zs => VList (map VInt (sort_z zs))) (ints_of l) | _ => None end
    else if String.eqb n "list" then
      match args with [VList l] => Some (VList l) | _ => None end
    else None
  end.

Definition py_fn_names : list string := ["sum"; "len"; "abs"; "max"; "min"; "range"; "sorted"; "list"].

(** one dumped space: namespace, formulas, ItemSpaces by argument tuple, and what the
    exporter hands to FormulaTransformer for its class *)
Record stbl := { s_ns : list (string * value);
                 s_cells : list (string * (list string * expr));
                 s_items : list (list Z * sid);
                 s_top : list string;
                 s_cellnames : list string }.

Fixpoint find_item (k : list Z) (l : list (list Z * sid)) : option sid :=
  match l with
  | [] => None
  | (k', s) :: t => if leqb Z.eqb k' k then Some s else find_item k t
  end.

Definition mk_model (tbl : list stbl) (bi : list string) : model := {|
  m_ns := fun s x => match nth_error tbl s with Some t => assoc x (s_ns t) | None => None end;
  m_cells := fun s n => match nth_error tbl s with Some t => assoc n (s_cells t) | None => None end;
  m_item := fun s args => match nth_error tbl s, ints_of args with
                          | Some t, Some k => find_item k (s_items t)
                          | _, _ => None end;
  m_builtins := fun x => if mem x py_fn_names then Some (VBuiltin x) else None;
  m_fn := py_fn;
  m_cfg := fun s => match nth_error tbl s with
                    | Some t => {| t_top := s_top t; t_cells := s_cellnames t; t_bi := bi |}
                    | None => {| t_top := []; t_cells := []; t_bi := bi |} end |}.

(** equality of closure-free values as Python's == sees them (True == 1) *)
Fixpoint veq (a b : value) : bool :=
  match a, b with
  | VNone, VNone => true
  | VList x, VList y =>
      (fix go (x y : list value) : bool :=
         match x, y with
         | [], [] => true
         | u :: x', w :: y' => veq u w && go x' y'
         | _, _ => false
         end) x y
  | _, _ => match as_int a, as_int b with Some x, Some y => Z.eqb x y | _, _ => false end
  end.

Definition res_is (r : res value) (v : value) : bool :=
  match r with Ok w => veq w v | _ => false end.

(** a query: space, cells name, arguments, the value the implementation returned *)
Definition query := (sid * string * list value * value)%type.

Definition fuel0 : nat := 200.

Definition check_query (M : model) (q : query) : bool :=
  match q with (s, nm, args, v) =>
    res_is (call_cells fuel0 (Wo M) s nm args) v && res_is (call_cells fuel0 (Wt M) s nm args) v
  end.


(** diagnostics: what the two evaluators return *)
Definition show_query (bi : list string) (tbl : list stbl) (q : query) : res value * res value :=
  match q with (s, nm, args, _) =>
    (call_cells fuel0 (Wo (mk_model tbl bi)) s nm args, call_cells fuel0 (Wt (mk_model tbl bi)) s nm args)
  end.

(** decidable sufficient condition for [model_ok] (Proofs.v) on dumped tables; the
    correspondence check evaluates it on every dumped model *)
Definition stbl_okb (bi : list string) (t : stbl) : bool :=
  forallb (fun p => fo (snd p)) (s_ns t)
  && forallb (fun c => negb (mem self_name (fst (snd c))) && no_self (snd (snd c))) (s_cells t)
  && forallb (fun p => negb (mem (fst p) bi) || mem (fst p) (s_top t)) (s_ns t)
  && forallb (fun x => match assoc x (s_ns t) with Some _ => true | None => false end) (s_top t)
  && forallb (fun x => match assoc x (s_ns t) with Some (VCell _ _) => true | _ => false end) (s_cellnames t).

Definition model_okb (tbl : list stbl) (bi : list string) : bool :=
  forallb (stbl_okb bi) tbl && forallb (fun x => mem x bi) py_fn_names.

(** the per-model check of the correspondence: the dumped model satisfies the hypotheses
    of the C15 theorems, and both evaluators return the observed values *)
Definition check_model (bi : list string) (c : list stbl * list query) : bool :=
  model_okb (fst c) bi && forallb (check_query (mk_model (fst c) bi)) (snd c).
