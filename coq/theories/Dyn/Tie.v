(** Comparison function evaluated by the generated [cases_*.v] files of the
    C07 correspondence check: runs Dyn/Model.v on the operations the harness
    performed on the real library and compares, after every operation, the
    output, the set of live ItemSpaces, and the state of every handle kept. *)
From Coq Require Import List String ZArith NArith Bool Arith.
From MX Require Import Show.Check Dyn.Model.
Import ListNotations.

(** live ItemSpaces seen through [itemspaces], space handles (dref, valid?),
    cells handles in the order they were taken (valid?) *)
Definition obs := (list ikey * list (dref * bool) * list bool)%type.
Definition tie_case := (defs * list (op * out * obs))%type.

Definition out_match (m i : out) : bool :=
  match m, i with
  | OVal a, OVal b => Z.eqb a b
  | OFail, OFail => true
  | ODeleted, ODeleted => true
  | OHandle a, OHandle b => zs_eqb a b
  | OUid _, ODone => true
  | ODone, ODone => true
  | ORejected, ORejected => true
  | _, _ => false
  end.

Definition space_live (st : state) (h : dref) : bool :=
  match h with
  | ((p, []), cp) => dmem (p ++ cp) (st_defs st)
  | (k, cp) => match find_inst k (st_live st) with Some r => dmem cp (i_snap r) | None => false end
  end.
Definition cells_live (st : state) (h : ikey * N) : bool :=
  match find_inst (fst h) (st_live st) with Some r => N.eqb (i_uid r) (snd h) | None => false end.
Definition live_match (st : state) (il : list ikey) : bool :=
  forallb (fun k => existsb (ikey_eqb k) il) (map i_key (st_live st))
  && forallb (fun k => existsb (ikey_eqb k) (map i_key (st_live st))) il.

Definition fuel0 := 400.

Fixpoint check_steps (st : state) (chs : list (ikey * N)) (steps : list (op * out * obs)) : bool :=
  match steps with
  | [] => true
  | (o, io, (ilive, ish, ich)) :: t =>
      let (st', mo) := step fuel0 st o in
      let chs' := match o, mo with
                  | OTakeCells (k, _) _, OUid n => chs ++ [(k, n)]
                  | _, _ => chs
                  end in
      out_match mo io
      && live_match st' ilive
      && forallb (fun hb => Bool.eqb (space_live st' (fst hb)) (snd hb)) ish
      && list_eqb Bool.eqb (map (cells_live st') chs') ich
      && check_steps st' chs' t
  end.

Definition tie_check (c : tie_case) : bool := check_steps (init (fst c)) [] (snd c).

(** diagnostics: what the model answers and holds after every operation *)
Fixpoint show_steps (st : state) (chs : list (ikey * N)) (steps : list (op * out * obs))
  : list (out * list ikey * list bool * list bool) :=
  match steps with
  | [] => []
  | (o, io, (ilive, ish, ich)) :: t =>
      let (st', mo) := step fuel0 st o in
      let chs' := match o, mo with
                  | OTakeCells (k, _) _, OUid n => chs ++ [(k, n)]
                  | _, _ => chs
                  end in
      (mo, map i_key (st_live st'), map (fun hb => space_live st' (fst hb)) ish, map (cells_live st') chs')
        :: show_steps st' chs' t
  end.
Definition tie_show (c : tie_case) := show_steps (init (fst c)) [] (snd c).

(** ** property oracle (P) through the proved specification: every value the
    implementation served is [spec_value] of the current definitions (the
    definitions are threaded through the edits the implementation accepted; no
    instance state of the model is consulted), and every key it returned
    instantiates under the current definitions (canonical key, existing base) *)
Definition spec_out_match (s : res Z) (i : out) : bool :=
  match i with
  | OVal v => match s with Ok w => Z.eqb v w | _ => false end
  | OFail => match s with Fail => true | _ => false end
  | _ => true
  end.
Definition child_key (par : dref) (key : list Z) : ikey :=
  match par with
  | ((p, []), cp) => (p ++ cp, [([], key)])
  | ((p, its), cp) => (p, its ++ [(cp, key)])
  end.
(** the key a request must return under the current definitions (None: it must fail) *)
Definition spec_getitem (d : defs) (par : dref) (pos : list Z) (kw : list (string * Z)) : option (list Z) :=
  match par with
  | ((p, its), cp) =>
      match (match its with
             | [] => Some (p ++ cp)
             | _ => match instantiate d (p, its) with Some (b, _, _) => Some (b ++ cp) | None => None end
             end) with
      | Some loc =>
          match dlookup loc d with
          | Some n =>
              match sn_params n with
              | Some f =>
                  match bind (pf_sig f) pos kw with
                  | Some key => match instantiate d (child_key par key) with Some _ => Some key | None => None end
                  | None => None
                  end
              | None => None
              end
          | None => None
          end
      | None => None
      end
  end.
Definition spec_one (d : defs) (g : list (string * Z)) (o : op) (io : out) : bool :=
  match o with
  | OEval (k, cp) c args => spec_out_match (spec_value fuel0 d g k cp c args) io
  | OGetItem par pos kw =>
      match io with
      | OHandle key => match spec_getitem d par pos kw with Some key' => zs_eqb key key' | None => false end
      | OFail => match spec_getitem d par pos kw with Some _ => false | None => true end
      | _ => true
      end
  | _ => true
  end.
Fixpoint spec_steps (st : state) (steps : list (op * out * obs)) : bool :=
  match steps with
  | [] => true
  | (o, io, _) :: t =>
      spec_one (st_defs st) (st_glob st) o io
      && spec_steps (match io with ORejected => st | _ => fst (step fuel0 st o) end) t
  end.
Definition spec_check (c : tie_case) : bool := spec_steps (init (fst c)) (snd c).

Fixpoint spec_show_steps (st : state) (steps : list (op * out * obs)) : list (option (res Z) * bool) :=
  match steps with
  | [] => []
  | (o, io, _) :: t =>
      (match o with OEval (k, cp) c args => Some (spec_value fuel0 (st_defs st) (st_glob st) k cp c args) | _ => None end,
       spec_one (st_defs st) (st_glob st) o io)
        :: spec_show_steps (match io with ORejected => st | _ => fst (step fuel0 st o) end) t
  end.
Definition spec_show (c : tie_case) := spec_show_steps (init (fst c)) (snd c).
