(** Dyn — the statements of C07 over all reachable states. *)
From Coq Require Import List String Ascii ZArith NArith Bool Arith Lia.
From MX Require Import Dyn.Model Dyn.ProofsBase Dyn.ProofsEval Dyn.ProofsInv.
Import ListNotations.
Open Scope list_scope.

(** ** the context of a live instance is the one the current definitions give *)
Lemma walk_app : forall d its1 its2 base outer xr,
  walk d base outer xr (its1 ++ its2) =
  match walk d base outer xr its1 with
  | Some (b, o, x) => walk d b o x its2
  | None => None
  end.
Proof.
  intros d its1 its2. induction its1 as [|[cp key] t IH]; intros base outer xr; simpl; [reflexivity|].
  destruct (dlookup (base ++ cp) d) as [n|]; [|reflexivity].
  destruct (sn_params n) as [f|]; [|reflexivity].
  destruct (bind (pf_sig f) key []) as [key'|]; [|reflexivity].
  destruct (zs_eqb key' key); [|reflexivity].
  destruct (item_ctx d f (base ++ cp) outer key) as [[[b' a'] x']|]; [apply IH|reflexivity].
Qed.

Lemma walk_last : forall d base outer xr cp key f b a x,
  params_at d (base ++ cp) = Some f -> bind (pf_sig f) key [] = Some key ->
  item_ctx d f (base ++ cp) outer key = Some (b, a, x) ->
  walk d base outer xr [(cp, key)] = Some (b, a, x).
Proof.
  intros d base outer xr cp key f b a x Hp Hb Hi. simpl. unfold params_at in Hp.
  destruct (dlookup (base ++ cp) d) as [n|]; [|discriminate]. rewrite Hp, Hb, zs_eqb_refl, Hi. reflexivity.
Qed.

Lemma live_instantiate_aux : forall gl d l, live_ok gl d l -> forall n r, In r l ->
  List.length (snd (i_key r)) = n ->
  instantiate d (i_key r) = Some (i_base r, i_args r, i_xrefs r).
Proof.
  intros gl d l Hok n. induction n as [n IH] using lt_wf_ind. intros r Hr Hn.
  destruct (Hok r Hr) as [(its & cp & key & pbase & outer & f & Hk & Hp & Hf & Hb & Hi) _].
  destruct Hp as [(E1 & E2 & E3 & E4)|(Hne & r0 & Hin0 & Hk0 & E3 & E4)].
  - subst. unfold instantiate. rewrite Hk. simpl app. apply walk_last with f; assumption.
  - assert (List.length (snd (i_key r0)) < n) as Hlt.
    { rewrite <- Hn, Hk0, Hk. simpl. rewrite app_length. simpl. rewrite Nat.add_1_r. apply Nat.lt_succ_diag_r. }
    pose proof (IH _ Hlt r0 Hin0 eq_refl) as H0. unfold instantiate in H0. rewrite Hk0 in H0. simpl in H0.
    unfold instantiate. rewrite Hk, walk_app, H0. subst. apply walk_last with f; assumption.
Qed.
Lemma live_instantiate : forall gl d l r, live_ok gl d l -> In r l ->
  instantiate d (i_key r) = Some (i_base r, i_args r, i_xrefs r).
Proof. intros gl d l r Hok Hr. eapply live_instantiate_aux; eauto. Qed.

Lemma ectx_current : forall gl d l r, live_ok gl d l -> In r l ->
  {| ec_snap := subtree (i_base r) d; ec_args := i_args r; ec_xrefs := i_xrefs r; ec_glob := gl |} = ectx_of gl r.
Proof. intros gl d l r Hok Hr. destruct (Hok r Hr) as [_ [Hs _]]. unfold ectx_of. now rewrite Hs. Qed.

(** ** C07_instance_eq_base *)
Theorem instance_eq_base : forall fuel d0 ops k cp c args st' o,
  step fuel (run fuel (init d0) ops) (OEval (k, cp) c args) = (st', o) ->
  match o with
  | OVal v => exists f', spec_value f' (st_defs (run fuel (init d0) ops)) (st_glob (run fuel (init d0) ops)) k cp c args = Ok v
  | OFail => exists f', spec_value f' (st_defs (run fuel (init d0) ops)) (st_glob (run fuel (init d0) ops)) k cp c args = Fail
  | _ => True
  end.
Proof.
  intros fuel d0 ops k cp c args st' o H.
  pose proof (run_preserves_inv fuel ops (init d0) (inv_init d0)) as HI.
  set (st := run fuel (init d0) ops) in *. unfold step in H.
  destruct (find_inst k (st_live st)) as [r|] eqn:Ef; [|inversion H; exact I].
  destruct (dmem cp (i_snap r)); [|inversion H; exact I].
  apply find_inst_some in Ef as [Hin Hk].
  destruct (HI r Hin) as [_ [_ Hc]].
  destruct (ev_call fuel (ectx_of (st_glob st) r) cp c args (i_cache r)) as [[v| |] c'] eqn:Ee; inversion H; subst; try exact I.
  - destruct (ev_call_sound _ _ _ _ _ _ _ _ Hc Ee) as [_ Hv]. destruct (Hv ltac:(discriminate)) as [f' Hs].
    exists f'. unfold spec_value. rewrite (live_instantiate _ _ _ _ HI Hin). now rewrite (ectx_current _ _ _ _ HI Hin).
  - destruct (ev_call_sound _ _ _ _ _ _ _ _ Hc Ee) as [_ Hv]. destruct (Hv ltac:(discriminate)) as [f' Hs].
    exists f'. unfold spec_value. rewrite (live_instantiate _ _ _ _ HI Hin). now rewrite (ectx_current _ _ _ _ HI Hin).
Qed.

(** conversely: with the fuel the specification needs, a live instance answers what the specification says *)
Theorem instance_eq_base_complete : forall fuel d0 ops k cp c args r res,
  find_inst k (st_live (run fuel (init d0) ops)) = Some r -> dmem cp (i_snap r) = true ->
  spec_value fuel (st_defs (run fuel (init d0) ops)) (st_glob (run fuel (init d0) ops)) k cp c args = res -> res <> OutOfFuel ->
  snd (step fuel (run fuel (init d0) ops) (OEval (k, cp) c args))
  = match res with Ok v => OVal v | _ => OFail end.
Proof.
  intros fuel d0 ops k cp c args r res Hf Hm Hs Hr.
  pose proof (run_preserves_inv fuel ops (init d0) (inv_init d0)) as HI.
  set (st := run fuel (init d0) ops) in *.
  pose proof (find_inst_some _ _ _ Hf) as [Hin Hk].
  unfold spec_value in Hs. rewrite <- Hk in Hs. rewrite (live_instantiate _ _ _ _ HI Hin) in Hs.
  rewrite (ectx_current _ _ _ _ HI Hin) in Hs.
  destruct (HI r Hin) as [_ [_ Hc]].
  destruct (ev_call_complete _ _ _ _ _ _ _ Hc Hs Hr) as [ca' He].
  unfold step. rewrite Hf, Hm, He. destruct res; try reflexivity. congruence.
Qed.

(** ** C07_fresh: whatever the history, everything a live instance holds reflects the current definitions *)
Theorem fresh : forall fuel d0 ops r,
  In r (st_live (run fuel (init d0) ops)) ->
  let d := st_defs (run fuel (init d0) ops) in
  let g := st_glob (run fuel (init d0) ops) in
  instantiate d (i_key r) = Some (i_base r, i_args r, i_xrefs r)
  /\ i_snap r = subtree (i_base r) d
  /\ forall cp c vs v, clookup (cp, c, vs) (i_cache r) = Some v ->
       exists f, spec_value f d g (i_key r) cp c vs = Ok v.
Proof.
  intros fuel d0 ops r Hin d g. subst d g.
  pose proof (run_preserves_inv fuel ops (init d0) (inv_init d0)) as HI.
  destruct (HI r Hin) as [_ [Hs Hc]]. split; [|split].
  - exact (live_instantiate _ _ _ _ HI Hin).
  - symmetry. exact Hs.
  - intros cp c vs v H. destruct (Hc _ _ _ _ H) as [f Hf]. exists f. unfold spec_value.
    rewrite (live_instantiate _ _ _ _ HI Hin). now rewrite (ectx_current _ _ _ _ HI Hin).
Qed.

(** ** C07_same_args_same_instance *)
Definition parent_sig (st : state) (par : dref) : option sig :=
  match resolve_parent st par with
  | PFound (Some f) _ _ _ => Some (pf_sig f)
  | _ => None
  end.

Lemma isteps_eqb_longer : forall its x, isteps_eqb its (its ++ [x]) = false.
Proof.
  induction its as [|y t IH]; intros x; simpl; [reflexivity|]. rewrite IH. apply andb_false_r.
Qed.

Lemma find_inst_cons_other : forall k r l, ikey_eqb k (i_key r) = false -> find_inst k (r :: l) = find_inst k l.
Proof. intros k r l H. simpl. now rewrite H. Qed.

Lemma find_inst_head : forall r l, find_inst (i_key r) (r :: l) = Some r.
Proof. intros r l. simpl. now rewrite ikey_eqb_refl. Qed.

Theorem same_args_same_instance : forall fuel st par s pos1 kw1 pos2 kw2 key st1 o,
  parent_sig st par = Some s ->
  bind s pos1 kw1 = Some key -> bind s pos2 kw2 = Some key ->
  step fuel st (OGetItem par pos1 kw1) = (st1, o) -> o <> OFail ->
  o = OHandle key /\ step fuel st1 (OGetItem par pos2 kw2) = (st1, OHandle key).
Proof.
  intros fuel st par s pos1 kw1 pos2 kw2 key st1 o Hsig Hb1 Hb2 Hstep Hnf.
  unfold parent_sig in Hsig.
  destruct (resolve_parent st par) as [|[f|] defbase outer newkey] eqn:Er; try discriminate.
  inversion Hsig; subst s. unfold step in Hstep. rewrite Er, Hb1 in Hstep.
  destruct (find_inst (newkey key) (st_live st)) as [r0|] eqn:Ef.
  - inversion Hstep; subst. split; [reflexivity|]. unfold step. now rewrite Er, Hb2, Ef.
  - destruct (item_ctx (st_defs st) f defbase outer key) as [[[b a] x]|] eqn:Ei; [|inversion Hstep; congruence].
    inversion Hstep; subst. split; [reflexivity|]. unfold step.
    assert (resolve_parent
              {| st_defs := st_defs st; st_glob := st_glob st;
                 st_live := {| i_key := newkey key; i_uid := st_next st; i_base := b;
                               i_snap := subtree b (st_defs st); i_args := a; i_xrefs := x; i_cache := [] |}
                            :: st_live st;
                 st_next := N.succ (st_next st) |} par = PFound (Some f) defbase outer newkey) as Er'.
    { destruct par as [[p its] cp]. unfold resolve_parent in *. destruct its as [|it its]; [exact Er|].
      destruct (find_inst (p, it :: its) (st_live st)) as [rp|] eqn:Efp; [|discriminate].
      destruct (dlookup cp (i_snap rp)) as [n|] eqn:En; [|discriminate]. inversion Er; subst.
      cbn [st_live]. rewrite find_inst_cons_other.
      2:{ cbn [i_key]. unfold ikey_eqb. cbn [fst snd].
          change (it :: its ++ [(cp, key)]) with ((it :: its) ++ [(cp, key)]). rewrite isteps_eqb_longer. apply andb_false_r. }
      rewrite Efp, En. reflexivity. }
    rewrite Er', Hb2. cbn [st_live]. simpl find_inst. now rewrite ikey_eqb_refl.
Qed.

(** ** C07_isolation *)
Lemma find_inst_replace_other : forall k' r' l, ikey_eqb k' (i_key r') = false ->
  find_inst k' (replace_inst r' l) = find_inst k' l.
Proof.
  intros k' r' l H. induction l as [|r t IH]; simpl; [reflexivity|].
  destruct (ikey_eqb (i_key r') (i_key r)) eqn:E.
  - apply ikey_eqb_eq in E. simpl. rewrite H. now rewrite <- E, H.
  - simpl. now rewrite IH.
Qed.

(** an evaluation in the instance [k] touches no other instance and no definition *)
Theorem eval_isolated : forall fuel st k cp c args st' o k',
  step fuel st (OEval (k, cp) c args) = (st', o) -> k' <> k ->
  find_inst k' (st_live st') = find_inst k' (st_live st) /\ st_defs st' = st_defs st /\ st_glob st' = st_glob st.
Proof.
  intros fuel st k cp c args st' o k' H Hne. unfold step in H.
  destruct (find_inst k (st_live st)) as [r|] eqn:Ef; [|inversion H; auto].
  destruct (dmem cp (i_snap r)); [|inversion H; auto].
  apply find_inst_some in Ef as [_ Hk].
  assert (ikey_eqb k' (i_key (with_cache r (snd (ev_call fuel (ectx_of (st_glob st) r) cp c args (i_cache r))))) = false) as Hx.
  { simpl. rewrite Hk. destruct (ikey_eqb k' k) eqn:E; [apply ikey_eqb_eq in E; congruence|reflexivity]. }
  destruct (ev_call fuel (ectx_of (st_glob st) r) cp c args (i_cache r)) as [[v| |] c'] eqn:Ee; inversion H; subst; simpl;
    auto; split; auto; apply find_inst_replace_other; exact Hx.
Qed.

(** what an evaluation answers depends on the instance alone *)
Lemma eval_out_local : forall fuel st1 st2 k cp c args,
  find_inst k (st_live st1) = find_inst k (st_live st2) -> st_glob st1 = st_glob st2 ->
  snd (step fuel st1 (OEval (k, cp) c args)) = snd (step fuel st2 (OEval (k, cp) c args)).
Proof.
  intros fuel st1 st2 k cp c args H Hg. unfold step. rewrite H, Hg.
  destruct (find_inst k (st_live st2)) as [r|]; [|reflexivity].
  destruct (dmem cp (i_snap r)); [|reflexivity].
  destruct (ev_call fuel (ectx_of (st_glob st2) r) cp c args (i_cache r)) as [[v| |] c']; reflexivity.
Qed.

Lemma run_cons : forall fuel st o ops, run fuel st (o :: ops) = run fuel (fst (step fuel st o)) ops.
Proof. reflexivity. Qed.

Definition eval_elsewhere (k' : ikey) (o : op) : Prop :=
  exists k cp c args, o = OEval (k, cp) c args /\ k <> k'.

(** values of S[a] are unaffected by any evaluations in instances S[b], b <> a *)
Theorem isolation : forall fuel evs st k' cp c args,
  Forall (eval_elsewhere k') evs ->
  snd (step fuel (run fuel st evs) (OEval (k', cp) c args)) = snd (step fuel st (OEval (k', cp) c args))
  /\ find_inst k' (st_live (run fuel st evs)) = find_inst k' (st_live st)
  /\ st_glob (run fuel st evs) = st_glob st.
Proof.
  intros fuel evs. induction evs as [|e evs IH]; intros st k' cp c args HF; [repeat split; reflexivity|].
  inversion HF as [|e' evs' He HF']; subst. destruct He as (k & cp0 & c0 & a0 & -> & Hne).
  rewrite run_cons.
  destruct (step fuel st (OEval (k, cp0) c0 a0)) as [st1 o1] eqn:Es. cbn [fst].
  destruct (eval_isolated _ _ _ _ _ _ _ _ k' Es (not_eq_sym Hne)) as [Hf [_ Hg]].
  destruct (IH st1 k' cp c args HF') as [A [B G]]. split; [|split].
  - rewrite A. apply eval_out_local; assumption.
  - now rewrite B.
  - now rewrite G.
Qed.

(** ** an accepted edit of a space discards every instance that holds a copy of it
    (DynamicBase.on_namespace_change -> clear_subs_rootitems; set_cells_property / new_cells) *)
Definition edited_space (o : op) : option path :=
  match o with
  | OSetFormula p _ _ | ONewCells p _ _ | ODelCells p _ | OSetRef p _ _ | ODelRef p _ | OSetParams p _ => Some p
  | ONewSpace q _ | ODelSpace q => Some (parent_of q)
  | _ => None
  end.

Lemma del_where_dynsub : forall (f : inst -> bool) p l r,
  (forall r0, has_dynsub p r0 = true -> f r0 = true) -> In r (del_where f l) -> has_dynsub p r = false.
Proof.
  intros f p l r Hf H. apply del_where_self in H.
  destruct (has_dynsub p r) eqn:E; [|reflexivity]. rewrite (Hf r E) in H. discriminate.
Qed.

Theorem edit_discards : forall fuel st o p st' r,
  edited_space o = Some p -> step fuel st o = (st', ODone) -> In r (st_live st') -> has_dynsub p r = false.
Proof.
  intros fuel st o p st' r He Hs Hr. destruct o; cbn [edited_space] in He; try discriminate; inversion He; subst; unfold step in Hs.
  - destruct (dlookup p (st_defs st)) as [n|]; [|inversion Hs].
    destruct (amem c (sn_cells n)); inversion Hs; subst. cbn [edit st_live] in Hr.
    eapply del_where_dynsub; [|exact Hr]. auto.
  - destruct (dlookup p (st_defs st)) as [n|]; [|inversion Hs].
    destruct (name_free n (st_defs st) p c); inversion Hs; subst. cbn [edit st_live] in Hr.
    eapply del_where_dynsub; [|exact Hr]. intros r0 H. cbv beta. rewrite H. apply orb_true_r.
  - destruct (dlookup p (st_defs st)) as [n|]; [|inversion Hs].
    destruct (amem c (sn_cells n)); inversion Hs; subst. cbn [edit st_live] in Hr.
    eapply del_where_dynsub; [|exact Hr]. intros r0 H. cbv beta. rewrite H. apply orb_true_r.
  - destruct (dlookup p (st_defs st)) as [n|]; [|inversion Hs].
    destruct (amem x (sn_cells n) || dmem (p ++ [x]) (st_defs st)); inversion Hs; subst. cbn [edit st_live] in Hr.
    eapply del_where_dynsub; [|exact Hr]. intros r0 H. cbv beta. rewrite H. apply orb_true_r.
  - destruct (dlookup p (st_defs st)) as [n|]; [|inversion Hs].
    destruct (amem x (sn_refs n)); inversion Hs; subst. cbn [edit st_live] in Hr.
    eapply del_where_dynsub; [|exact Hr]. intros r0 H. cbv beta. rewrite H. apply orb_true_r.
  - destruct q as [|q0 q']; [inversion Hs|].
    destruct (existsb (fun e => is_prefix (q0 :: q') (fst e)) (st_defs st)); [inversion Hs|].
    destruct (parent_free (st_defs st) (parent_of (q0 :: q')) (last (q0 :: q') EmptyString)); inversion Hs; subst.
    cbn [edit st_live] in Hr.
    eapply del_where_dynsub; [|exact Hr]. intros r0 H. cbv beta. apply orb_true_iff. right. exact H.
  - destruct (dmem q (st_defs st)); inversion Hs; subst. cbn [edit st_live] in Hr.
    eapply del_where_dynsub; [|exact Hr]. intros r0 H. cbv beta. rewrite H. apply orb_true_r.
  - destruct (dlookup p (st_defs st)) as [n|]; inversion Hs; subst. cbn [edit st_live] in Hr.
    eapply del_where_dynsub; [|exact Hr]. intros r0 H. cbv beta. rewrite H. apply orb_true_r.
Qed.
