(** Dyn — the hypotheses of the C07 theorems are satisfiable on non-trivial
    states (everything by computation). *)
From Coq Require Import List String Ascii ZArith NArith Bool Arith.
From MX Require Import Dyn.Model Dyn.ProofsBase Dyn.ProofsBind Dyn.ProofsEval Dyn.ProofsInv Dyn.ProofsTop.
Import ListNotations.
Open Scope list_scope.
Open Scope string_scope.

(** S(i, j=2): foo(x) = x + i + j, bar() = foo(1) * 10 + C.cw(), child C: cw() = w + i;
    T(k) built from S with the extra reference j := k * 3 *)
Definition ex_defs : defs :=
  [ (["S"], {| sn_params := Some {| pf_sig := [("i", None); ("j", Some 2%Z)]; pf_body := PNone |};
               sn_cells := [("foo", {| cd_params := ["x"];
                                       cd_body := EBin OAdd (EBin OAdd (EName "x") (EName "i")) (EName "j") |});
                            ("bar", {| cd_params := [];
                                       cd_body := EBin OAdd (EBin OMul (ECall "foo" [EConst 1%Z]) (EConst 10%Z))
                                                            (EChild "C" "cw" []) |})];
               sn_refs := [] |});
    (["S"; "C"], {| sn_params := None;
                    sn_cells := [("cw", {| cd_params := []; cd_body := EBin OAdd (EName "w") (EName "i") |})];
                    sn_refs := [("w", 100%Z)] |});
    (["T"], {| sn_params := Some {| pf_sig := [("k", None)];
                                    pf_body := PDict (Some ["S"]) [("j", PBin OMul (PParam "k") (PConst 3%Z));
                                                                  ("i", PConst 0%Z)] |};
               sn_cells := []; sn_refs := [] |}) ].

Definition S_ : dref := ((["S"], []), []).
Definition S12 : ikey := (["S"], [([], [1%Z; 2%Z])]).
Definition S32 : ikey := (["S"], [([], [3%Z; 2%Z])]).
Definition T5 : ikey := (["T"], [([], [5%Z])]).

Definition st1 := run 100 (init ex_defs) [OGetItem S_ [1%Z] []; OGetItem S_ [] [("i", 3%Z)]; OGetItem ((["T"], []), []) [5%Z] []].

(** instance_eq_base: S[1].bar() = (1 + 1 + 2) * 10 + (100 + 1); T[5].foo(1) = 1 + 0 + 15 *)
Example ex_eval : snd (step 100 st1 (OEval (S12, []) "bar" [])) = OVal 141%Z
                  /\ snd (step 100 st1 (OEval (T5, []) "foo" [1%Z])) = OVal 16%Z
                  /\ spec_value 100 (st_defs st1) (st_glob st1) S12 [] "bar" [] = Ok 141%Z.
Proof. vm_compute. auto. Qed.

(** same_args_same_instance: S[1], S(1, 2), S(j=2, i=1) *)
Example ex_same_args :
  parent_sig st1 S_ = Some [("i", None); ("j", Some 2%Z)]
  /\ bind [("i", None); ("j", Some 2%Z)] [1%Z] [] = Some [1%Z; 2%Z]
  /\ bind [("i", None); ("j", Some 2%Z)] [1%Z; 2%Z] [] = Some [1%Z; 2%Z]
  /\ bind [("i", None); ("j", Some 2%Z)] [] [("j", 2%Z); ("i", 1%Z)] = Some [1%Z; 2%Z]
  /\ snd (step 100 st1 (OGetItem S_ [] [("j", 2%Z); ("i", 1%Z)])) = OHandle [1%Z; 2%Z]
  /\ bind [("i", None); ("j", Some 2%Z)] [1%Z; 2%Z; 3%Z] [] = None
  /\ bind [("i", None); ("j", Some 2%Z)] [1%Z] [("i", 1%Z)] = None.
Proof. vm_compute. repeat split. Qed.

(** isolation: evaluations in S[3] and T[5] leave S[1] as it is *)
Example ex_isolation :
  Forall (eval_elsewhere S12) [OEval (S32, []) "bar" []; OEval (T5, []) "foo" [2%Z]]
  /\ snd (step 100 (run 100 st1 [OEval (S32, []) "bar" []; OEval (T5, []) "foo" [2%Z]]) (OEval (S12, []) "bar" []))
     = OVal 141%Z.
Proof.
  split; [|vm_compute; reflexivity].
  repeat constructor.
  - exists S32, [], "bar", []. split; [reflexivity|discriminate].
  - exists T5, [], "foo", [2%Z]. split; [reflexivity|discriminate].
Qed.

(** fresh: S.C.w = 7 deletes S[1], S[3] and T[5] (each contains a copy of S.C: DynamicBase.on_namespace_change
    -> clear_subs_rootitems); the old handle is dead until the instance is requested again and then serves the
    new value; S.foo.formula = x * i likewise *)
Definition st2 := run 100 st1 [OEval (S12, []) "bar" []; OSetRef ["S"; "C"] "w" 7%Z].
Definition st2' := run 100 st2 [OGetItem S_ [1%Z; 2%Z] []; OGetItem ((["T"], []), []) [5%Z] []].
Definition st3 := run 100 st2' [OSetFormula ["S"] "foo" {| cd_params := ["x"]; cd_body := EBin OMul (EName "x") (EName "i") |}].
Example ex_fresh :
  st_live st2 = []
  /\ snd (step 100 st2 (OEval (S12, []) "bar" [])) = ODeleted
  /\ map i_key (st_live st2') = [T5; S12]
  /\ snd (step 100 st2' (OEval (S12, []) "bar" [])) = OVal 48%Z
  /\ st_live st3 = []
  /\ snd (step 100 st3 (OEval (S12, []) "bar" [])) = ODeleted
  /\ snd (step 100 (run 100 st3 [OGetItem S_ [1%Z; 2%Z] []]) (OEval (S12, []) "bar" [])) = OVal 18%Z.
Proof. vm_compute. repeat split. Qed.

(** a new reference in the child S.C deletes every live instance that contains a copy of S.C (S[1], S[3],
    T[5]); the pinned tree did not do that (finding D16, repaired by 76f1b96) *)
Example ex_new_ref_child :
  map i_key (st_live (run 100 st1 [OSetRef ["S"; "C"] "z" 3%Z])) = [].
Proof. vm_compute. reflexivity. Qed.

(** edit_discards: st1 holds three instances with a copy of S.C; the change of S.C.w is accepted and leaves none *)
Example ex_edit_discards :
  edited_space (OSetRef ["S"; "C"] "w" 7%Z) = Some ["S"; "C"]
  /\ snd (step 100 st1 (OSetRef ["S"; "C"] "w" 7%Z)) = ODone
  /\ List.length (filter (has_dynsub ["S"; "C"]) (st_live st1)) = 3
  /\ existsb (has_dynsub ["S"; "C"]) (st_live (fst (step 100 st1 (OSetRef ["S"; "C"] "w" 7%Z)))) = false.
Proof. vm_compute. repeat split. Qed.

(** the spelling lemmas apply: S(1, 2) = S(1, j=2) = S(1) for the signature (i, j=2) *)
Example ex_spellings :
  let s := [("i", None); ("j", Some 2%Z)] in
  NoDup (map fst s)
  /\ bind_pos s [1%Z] = Some ([1%Z], [("j", Some 2%Z)])
  /\ amem "j" (@nil (string * Z)) = false
  /\ In ("j", Some 2%Z) [("j", Some 2%Z)]
  /\ bind s ([1%Z] ++ [2%Z]) [] = bind s [1%Z] [("j", 2%Z)]
  /\ bind s [1%Z] [("j", 2%Z)] = bind s [1%Z] [].
Proof.
  cbv zeta. repeat split; try reflexivity.
  - repeat constructor; simpl; intuition discriminate.
  - now left.
Qed.

(** a model-level reference is the last link of the chain; changing it deletes every instance *)
Definition st4 := run 100 st1 [ONewCells ["S"] "gg" {| cd_params := []; cd_body := EBin OAdd (EName "g") (EName "i") |};
                               OGetItem S_ [1%Z] []; OSetGlobal "g" 50%Z].
Example ex_global :
  st_live st4 = []
  /\ snd (step 100 (run 100 st4 [OGetItem S_ [1%Z] []]) (OEval (S12, []) "gg" [])) = OVal 51%Z.
Proof. vm_compute. repeat split. Qed.
