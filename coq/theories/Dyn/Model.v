(** Dyn — ItemSpaces (property C07).  Definitions only.

    Anchors: core/space.py ItemSpaceParent (get_itemspace / on_eval_formula /
    del_all_itemspaces / clear_itemspace_at / _del_itemspace), DynamicSpaceImpl,
    ItemSpaceImpl (_init_child_spaces, _init_refs, _init_allargs, _bind_args,
    dynamic_key), DynamicBase (_dynamic_subs, on_namespace_change,
    change_dynsub_refs, clear_subs_rootitems); core/node.py get_node/_bind_args;
    core/model.py SpaceManager (every edit that calls clear_subs_rootitems).

    Static definitions are a flat map  path -> node  (children of [p] are the
    entries [p ++ [X]]).  A live ItemSpace is a record holding a *snapshot* of
    the definitions it was built from (the code copies the base's cells, its
    references and its child spaces eagerly at construction), the bound
    arguments of itself and of the enclosing ItemSpaces, the references the
    parameter formula returned, and its own value cache.  Evaluation inside an
    instance reads the snapshot only; the theorems show that the deletions the
    edits perform keep every snapshot equal to the current definitions.

    Every edit of a static space [p] that changes its namespace (new / changed /
    deleted reference, new / deleted cells, new / deleted child space) deletes
    the ItemSpaces of [p] and every root ItemSpace that contains a dynamic
    space built from [p] (DynamicBase.on_namespace_change: del_all_itemspaces
    + clear_subs_rootitems, /repo 76f1b96; set_formula and new_cells call
    clear_subs_rootitems themselves).  Nothing is updated in place: the change
    of an existing reference deletes and re-creates it (on_change_ref ->
    on_del_ref), so the same rule applies and change_dynsub_refs finds no
    dynamic space left.  A deleted space takes its own ItemSpaces with it
    (BaseSpaceImpl.on_delete, /repo 9ebab50).
    IDEAL in two places, where the tree still keeps instances alive: a changed
    parameter formula deletes only the ItemSpaces whose parent is the edited
    space (finding D38), and deleting a space without child spaces does not
    reach the ItemSpaces other spaces built from it through 'base' (finding
    D39); the model deletes them. *)
From Coq Require Import List String Ascii ZArith NArith Bool Arith Lia.
Import ListNotations.
Open Scope list_scope.

Definition path := list string.

(** ** association lists keyed by names *)
Fixpoint alookup {A} (k : string) (l : list (string * A)) : option A :=
  match l with
  | [] => None
  | (k', v) :: t => if String.eqb k k' then Some v else alookup k t
  end.
Definition amem {A} (k : string) (l : list (string * A)) : bool :=
  match alookup k l with Some _ => true | None => false end.
Fixpoint aset {A} (k : string) (v : A) (l : list (string * A)) : list (string * A) :=
  match l with
  | [] => [(k, v)]
  | (k', v') :: t => if String.eqb k k' then (k, v) :: t else (k', v') :: aset k v t
  end.
Fixpoint adel {A} (k : string) (l : list (string * A)) : list (string * A) :=
  match l with
  | [] => []
  | (k', v') :: t => if String.eqb k k' then adel k t else (k', v') :: adel k t
  end.

(** ** paths *)
Fixpoint path_eqb (a b : path) : bool :=
  match a, b with
  | [], [] => true
  | x :: a', y :: b' => String.eqb x y && path_eqb a' b'
  | _, _ => false
  end.
Fixpoint strip_prefix (b p : path) : option path :=
  match b, p with
  | [], _ => Some p
  | x :: b', y :: p' => if String.eqb x y then strip_prefix b' p' else None
  | _ :: _, [] => None
  end.
Definition is_prefix (b p : path) : bool :=
  match strip_prefix b p with Some _ => true | None => false end.
Fixpoint zs_eqb (a b : list Z) : bool :=
  match a, b with
  | [], [] => true
  | x :: a', y :: b' => Z.eqb x y && zs_eqb a' b'
  | _, _ => false
  end.

(** ** formulas of cells *)
Inductive binop := OAdd | OSub | OMul.
Definition arith (o : binop) (a b : Z) : Z :=
  match o with OAdd => a + b | OSub => a - b | OMul => a * b end%Z.

Inductive expr :=
| EConst (z : Z)
| EName (x : string)                         (* parameter of the cells, argument of an ItemSpace, reference *)
| EBin (o : binop) (a b : expr)
| EIfPos (c a b : expr)                      (* a if c > 0 else b *)
| ECall (c : string) (args : list expr)      (* sibling cells *)
| EChild (X c : string) (args : list expr).  (* X.c(args), X a child space *)

Record cdef := { cd_params : list string; cd_body : expr }.

(** ** parameter formulas:  lambda sig: None | {'base': B, 'refs': {...}} | (a if e > 0 else b) *)
Inductive pexpr :=
| PConst (z : Z)
| PParam (x : string)
| PBin (o : binop) (a b : pexpr).
Inductive pbody :=
| PNone
| PDict (base : option path) (refs : list (string * pexpr))
| PIfPos (c : pexpr) (a b : pbody).
Record pform := { pf_sig : list (string * option Z); pf_body : pbody }.

(** ** static definitions *)
Record snode := { sn_params : option pform;
                  sn_cells : list (string * cdef);
                  sn_refs : list (string * Z) }.
Definition defs := list (path * snode).

Fixpoint dlookup (p : path) (d : defs) : option snode :=
  match d with
  | [] => None
  | (q, n) :: t => if path_eqb p q then Some n else dlookup p t
  end.
Definition dmem (p : path) (d : defs) : bool :=
  match dlookup p d with Some _ => true | None => false end.
Fixpoint dupdate (p : path) (f : snode -> snode) (d : defs) : defs :=
  match d with
  | [] => []
  | (q, n) :: t => (q, if path_eqb p q then f n else n) :: dupdate p f t
  end.
(** the definitions below [b], with paths relative to [b]: what an instance built from [b] copies *)
Fixpoint subtree (b : path) (d : defs) : defs :=
  match d with
  | [] => []
  | (q, n) :: t => match strip_prefix b q with
                   | Some r => (r, n) :: subtree b t
                   | None => subtree b t
                   end
  end.
Definition ddelete (q : path) (d : defs) : defs :=
  filter (fun e => negb (is_prefix q (fst e))) d.

Definition set_cells (c : string) (cd : cdef) (n : snode) : snode :=
  {| sn_params := sn_params n; sn_cells := aset c cd (sn_cells n); sn_refs := sn_refs n |}.
Definition del_cells (c : string) (n : snode) : snode :=
  {| sn_params := sn_params n; sn_cells := adel c (sn_cells n); sn_refs := sn_refs n |}.
Definition set_ref (x : string) (v : Z) (n : snode) : snode :=
  {| sn_params := sn_params n; sn_cells := sn_cells n; sn_refs := aset x v (sn_refs n) |}.
Definition del_ref (x : string) (n : snode) : snode :=
  {| sn_params := sn_params n; sn_cells := sn_cells n; sn_refs := adel x (sn_refs n) |}.
Definition set_params (f : option pform) (n : snode) : snode :=
  {| sn_params := f; sn_cells := sn_cells n; sn_refs := sn_refs n |}.

(** ** bind: inspect.Signature.bind (positional and keyword arguments) + apply_defaults for
    positional-or-keyword parameters (node.py _bind_args) *)
Definition sig := list (string * option Z).
Fixpoint bind_pos (s : sig) (pos : list Z) {struct pos} : option (list Z * sig) :=
  match pos, s with
  | [], _ => Some ([], s)
  | v :: pos', _ :: s' => match bind_pos s' pos' with
                          | Some (b, rest) => Some (v :: b, rest)
                          | None => None
                          end
  | _ :: _, [] => None                                     (* too many positional arguments *)
  end.
Fixpoint bind_rest (rest : sig) (kw : list (string * Z)) : option (list Z) :=
  match rest with
  | [] => Some []
  | (x, d) :: rest' =>
      match (match alookup x kw with Some v => Some v | None => d end) with
      | Some v => match bind_rest rest' kw with Some l => Some (v :: l) | None => None end
      | None => None                                       (* missing argument *)
      end
  end.
Definition bind (s : sig) (pos : list Z) (kw : list (string * Z)) : option (list Z) :=
  match bind_pos s pos with
  | None => None
  | Some (b, rest) =>
      if forallb (fun k => amem (fst k) rest) kw            (* unknown keyword / multiple values *)
      then match bind_rest rest kw with Some l => Some (b ++ l) | None => None end
      else None
  end.

(** ** evaluation of a parameter formula on bound arguments *)
Fixpoint pe_eval (bound : list (string * Z)) (e : pexpr) : option Z :=
  match e with
  | PConst z => Some z
  | PParam x => alookup x bound
  | PBin o a b => match pe_eval bound a, pe_eval bound b with
                  | Some va, Some vb => Some (arith o va vb)
                  | _, _ => None
                  end
  end.
Fixpoint pe_refs (bound : list (string * Z)) (l : list (string * pexpr)) : option (list (string * Z)) :=
  match l with
  | [] => Some []
  | (x, e) :: t => match pe_eval bound e, pe_refs bound t with
                   | Some v, Some r => Some ((x, v) :: r)
                   | _, _ => None
                   end
  end.
Fixpoint run_pbody (bound : list (string * Z)) (b : pbody) : option (option path * list (string * Z)) :=
  match b with
  | PNone => Some (None, [])
  | PDict ob refs => match pe_refs bound refs with Some r => Some (ob, r) | None => None end
  | PIfPos c x y => match pe_eval bound c with
                    | Some v => if (0 <? v)%Z then run_pbody bound x else run_pbody bound y
                    | None => None
                    end
  end.

Definition layers := list (list (string * Z)).

(** on_eval_formula: the base the new ItemSpace is built from, its argument
    layers (own arguments first, then those of the enclosing ItemSpaces) and the
    references returned by the formula.  [defbase] is the static space the
    parent is (built from). *)
Definition item_ctx (d : defs) (f : pform) (defbase : path) (outer : layers) (key : list Z)
  : option (path * layers * list (string * Z)) :=
  let bound := combine (map fst (pf_sig f)) key in
  match run_pbody bound (pf_body f) with
  | Some (ob, xr) =>
      let b := match ob with Some b => b | None => defbase end in
      if dmem b d then Some (b, bound :: outer, xr) else None
  | None => None
  end.

(** ** instances *)
Definition istep := (path * list Z)%type.       (* child path inside the enclosing instance, bound arguments *)
Definition ikey := (path * list istep)%type.    (* static parent, then one step per nested ItemSpace *)
Definition dref := (ikey * path)%type.          (* a space: static ([], with the path absorbed) or dynamic *)
Definition ckey := (path * string * list Z)%type.
Definition cache := list (ckey * Z).

Record inst := { i_key : ikey;
                 i_uid : N;
                 i_base : path;
                 i_snap : defs;
                 i_args : layers;
                 i_xrefs : list (string * Z);
                 i_cache : cache }.

(** [st_glob]: the references of the model itself (last link of every refs chain) *)
Record state := { st_defs : defs; st_glob : list (string * Z); st_live : list inst; st_next : N }.
Definition init (d : defs) : state := {| st_defs := d; st_glob := []; st_live := []; st_next := 0%N |}.

Definition istep_eqb (a b : istep) : bool := path_eqb (fst a) (fst b) && zs_eqb (snd a) (snd b).
Fixpoint isteps_eqb (a b : list istep) : bool :=
  match a, b with
  | [], [] => true
  | x :: a', y :: b' => istep_eqb x y && isteps_eqb a' b'
  | _, _ => false
  end.
Fixpoint isteps_prefix (a b : list istep) : bool :=
  match a, b with
  | [], _ => true
  | x :: a', y :: b' => istep_eqb x y && isteps_prefix a' b'
  | _ :: _, [] => false
  end.
Definition ikey_eqb (a b : ikey) : bool := path_eqb (fst a) (fst b) && isteps_eqb (snd a) (snd b).
(** [a] is [b] or an ItemSpace enclosing [b] *)
Definition ikey_prefix (a b : ikey) : bool := path_eqb (fst a) (fst b) && isteps_prefix (snd a) (snd b).

Fixpoint find_inst (k : ikey) (l : list inst) : option inst :=
  match l with
  | [] => None
  | r :: t => if ikey_eqb k (i_key r) then Some r else find_inst k t
  end.

(** ** evaluation inside an instance (memoising, what DynamicCellsImpl does)
    and its specification (no cache) *)
Inductive res (A : Type) := Ok (a : A) | Fail | OutOfFuel.
Arguments Ok {A} _.
Arguments Fail {A}.
Arguments OutOfFuel {A}.

Record ectx := { ec_snap : defs; ec_args : layers; ec_xrefs : list (string * Z); ec_glob : list (string * Z) }.

Fixpoint lookup_layers (x : string) (ls : layers) : option Z :=
  match ls with
  | [] => None
  | l :: t => match alookup x l with Some v => Some v | None => lookup_layers x t end
  end.
(** refs chain of a dynamic space: arguments (inner first) > references returned by
    the parameter formula (root of the instance only) > references of the base >
    references of the model *)
Definition ref_lookup (E : ectx) (n : snode) (cp : path) (x : string) : option Z :=
  match lookup_layers x (ec_args E) with
  | Some v => Some v
  | None =>
      match (match cp with [] => alookup x (ec_xrefs E) | _ => None end) with
      | Some v => Some v
      | None => match alookup x (sn_refs n) with
                | Some v => Some v
                | None => alookup x (ec_glob E)
                end
      end
  end.
(** a name read as a value: locals, then the namespace cells > refs > spaces
    (a cells or a space is not a number: failure) *)
Definition name_lookup (E : ectx) (cp : path) (locs : list (string * Z)) (x : string) : option Z :=
  match alookup x locs with
  | Some v => Some v
  | None =>
      match dlookup cp (ec_snap E) with
      | None => None
      | Some n => if amem x (sn_cells n) then None else ref_lookup E n cp x
      end
  end.
Definition child_ok (E : ectx) (cp : path) (locs : list (string * Z)) (X : string) : bool :=
  negb (amem X locs)
  && match dlookup cp (ec_snap E) with
     | None => false
     | Some n => negb (amem X (sn_cells n))
                 && match ref_lookup E n cp X with Some _ => false | None => true end
     end
  && dmem (cp ++ [X]) (ec_snap E).

Fixpoint clookup (k : ckey) (c : cache) : option Z :=
  match c with
  | [] => None
  | ((p, n, a), v) :: t =>
      if path_eqb (fst (fst k)) p && String.eqb (snd (fst k)) n && zs_eqb (snd k) a then Some v else clookup k t
  end.

Definition lift {A B} (r : res A) : res B :=
  match r with Ok _ => Fail | Fail => Fail | OutOfFuel => OutOfFuel end.

Fixpoint ev (fuel : nat) (E : ectx) (cp : path) (locs : list (string * Z)) (ca : cache) (e : expr)
  {struct fuel} : res Z * cache :=
  match fuel with
  | O => (OutOfFuel, ca)
  | S f =>
      match e with
      | EConst z => (Ok z, ca)
      | EName x => (match name_lookup E cp locs x with Some v => Ok v | None => Fail end, ca)
      | EBin o a b =>
          match ev f E cp locs ca a with
          | (Ok va, c1) => match ev f E cp locs c1 b with
                           | (Ok vb, c2) => (Ok (arith o va vb), c2)
                           | r => r
                           end
          | r => r
          end
      | EIfPos c a b =>
          match ev f E cp locs ca c with
          | (Ok vc, c1) => if (0 <? vc)%Z then ev f E cp locs c1 a else ev f E cp locs c1 b
          | r => r
          end
      | ECall c args =>
          match ev_args f E cp locs ca args with
          | (Ok vs, c1) => if amem c locs then (Fail, c1) else ev_call f E cp c vs c1
          | (r, c1) => (lift r, c1)
          end
      | EChild X c args =>
          match ev_args f E cp locs ca args with
          | (Ok vs, c1) => if child_ok E cp locs X then ev_call f E (cp ++ [X]) c vs c1 else (Fail, c1)
          | (r, c1) => (lift r, c1)
          end
      end
  end
with ev_args (fuel : nat) (E : ectx) (cp : path) (locs : list (string * Z)) (ca : cache) (es : list expr)
  {struct fuel} : res (list Z) * cache :=
  match fuel with
  | O => (OutOfFuel, ca)
  | S f =>
      match es with
      | [] => (Ok [], ca)
      | e :: rest =>
          match ev f E cp locs ca e with
          | (Ok v, c1) => match ev_args f E cp locs c1 rest with
                          | (Ok vs, c2) => (Ok (v :: vs), c2)
                          | r => r
                          end
          | (r, c1) => (lift r, c1)
          end
      end
  end
with ev_call (fuel : nat) (E : ectx) (cp : path) (c : string) (vs : list Z) (ca : cache)
  {struct fuel} : res Z * cache :=
  match fuel with
  | O => (OutOfFuel, ca)
  | S f =>
      match dlookup cp (ec_snap E) with
      | None => (Fail, ca)
      | Some n =>
          match alookup c (sn_cells n) with
          | None => (Fail, ca)
          | Some d =>
              if negb (Nat.eqb (List.length (cd_params d)) (List.length vs)) then (Fail, ca)
              else match clookup (cp, c, vs) ca with
                   | Some v => (Ok v, ca)
                   | None =>
                       match ev f E cp (combine (cd_params d) vs) ca (cd_body d) with
                       | (Ok v, c1) => (Ok v, ((cp, c, vs), v) :: c1)
                       | r => r
                       end
                   end
          end
      end
  end.

(** the specification: the same formulas interpreted as pure functions *)
Fixpoint sp (fuel : nat) (E : ectx) (cp : path) (locs : list (string * Z)) (e : expr) {struct fuel} : res Z :=
  match fuel with
  | O => OutOfFuel
  | S f =>
      match e with
      | EConst z => Ok z
      | EName x => match name_lookup E cp locs x with Some v => Ok v | None => Fail end
      | EBin o a b =>
          match sp f E cp locs a with
          | Ok va => match sp f E cp locs b with Ok vb => Ok (arith o va vb) | r => r end
          | r => r
          end
      | EIfPos c a b =>
          match sp f E cp locs c with
          | Ok vc => if (0 <? vc)%Z then sp f E cp locs a else sp f E cp locs b
          | r => r
          end
      | ECall c args =>
          match sp_args f E cp locs args with
          | Ok vs => if amem c locs then Fail else sp_call f E cp c vs
          | r => lift r
          end
      | EChild X c args =>
          match sp_args f E cp locs args with
          | Ok vs => if child_ok E cp locs X then sp_call f E (cp ++ [X]) c vs else Fail
          | r => lift r
          end
      end
  end
with sp_args (fuel : nat) (E : ectx) (cp : path) (locs : list (string * Z)) (es : list expr) {struct fuel}
  : res (list Z) :=
  match fuel with
  | O => OutOfFuel
  | S f =>
      match es with
      | [] => Ok []
      | e :: rest =>
          match sp f E cp locs e with
          | Ok v => match sp_args f E cp locs rest with Ok vs => Ok (v :: vs) | r => r end
          | r => lift r
          end
      end
  end
with sp_call (fuel : nat) (E : ectx) (cp : path) (c : string) (vs : list Z) {struct fuel} : res Z :=
  match fuel with
  | O => OutOfFuel
  | S f =>
      match dlookup cp (ec_snap E) with
      | None => Fail
      | Some n =>
          match alookup c (sn_cells n) with
          | None => Fail
          | Some d =>
              if negb (Nat.eqb (List.length (cd_params d)) (List.length vs)) then Fail
              else sp f E cp (combine (cd_params d) vs) (cd_body d)
          end
      end
  end.

Definition ectx_of (g : list (string * Z)) (r : inst) : ectx :=
  {| ec_snap := i_snap r; ec_args := i_args r; ec_xrefs := i_xrefs r; ec_glob := g |}.

(** ** the context of an instance derived from the CURRENT definitions alone
    (substitution semantics): re-run the parameter formulas along the key *)
Fixpoint walk (d : defs) (base : path) (outer : layers) (xr : list (string * Z)) (its : list istep)
  : option (path * layers * list (string * Z)) :=
  match its with
  | [] => Some (base, outer, xr)
  | (cp, key) :: t =>
      match dlookup (base ++ cp) d with
      | Some n =>
          match sn_params n with
          | Some f =>
              match bind (pf_sig f) key [] with
              | Some key' =>
                  if zs_eqb key' key then
                    match item_ctx d f (base ++ cp) outer key with
                    | Some (b', a', x') => walk d b' a' x' t
                    | None => None
                    end
                  else None
              | None => None
              end
          | None => None
          end
      | None => None
      end
  end.
Definition instantiate (d : defs) (k : ikey) := walk d (fst k) [] [] (snd k).

(** value of cells [c] of the (child [cp] of the) instance [k] under definitions [d] *)
Definition spec_value (fuel : nat) (d : defs) (g : list (string * Z)) (k : ikey) (cp : path) (c : string)
  (vs : list Z) : res Z :=
  match instantiate d k with
  | Some (b, a, x) => sp_call fuel {| ec_snap := subtree b d; ec_args := a; ec_xrefs := x; ec_glob := g |} cp c vs
  | None => Fail
  end.

(** ** deletion of instances *)
(** delete every instance satisfying [f] together with the ItemSpaces nested in it *)
Definition del_where (f : inst -> bool) (l : list inst) : list inst :=
  filter (fun r => negb (existsb (fun d => f d && ikey_prefix (i_key d) (i_key r)) l)) l.

(** [r] is an ItemSpace of the static space [p] (ItemSpaceParent.del_all_itemspaces of p) *)
Definition own (p : path) (r : inst) : bool :=
  path_eqb p (fst (i_key r))
  && match snd (i_key r) with [(cp, _)] => path_eqb cp [] | _ => false end.
(** [r] contains a dynamic space built from [p] (p._dynamic_subs; clear_subs_rootitems deletes r) *)
Definition has_dynsub (p : path) (r : inst) : bool :=
  match strip_prefix (i_base r) p with
  | Some cp => dmem cp (i_snap r)
  | None => false
  end.
(** [r] lives in, or is built from something in, the deleted tree [q] *)
Definition under (q : path) (r : inst) : bool :=
  is_prefix q (fst (i_key r))
  || existsb (fun e => is_prefix q (i_base r ++ fst e)) (i_snap r).

(** ** operations *)
Inductive op :=
| OGetItem (par : dref) (pos : list Z) (kw : list (string * Z))   (* S[..] / S(..) / h.C[..] *)
| OEval (h : dref) (c : string) (args : list Z)                   (* h.c(args) through a handle *)
| OTakeCells (h : dref) (c : string)                              (* keep the cells object h.c *)
| OTakeChild (h : dref) (X : string)                              (* keep the child space h.X *)
| OSetFormula (p : path) (c : string) (d : cdef)
| ONewCells (p : path) (c : string) (d : cdef)
| ODelCells (p : path) (c : string)
| OSetRef (p : path) (x : string) (v : Z)
| ODelRef (p : path) (x : string)
| ONewSpace (q : path) (f : option pform)
| ODelSpace (q : path)
| OSetParams (p : path) (f : option pform)
| OSetGlobal (x : string) (v : Z)                                 (* model.x = v *)
| ODelGlobal (x : string)                                         (* del model.x *)
| OClearItems (p : path)                                          (* S.clear_items() *)
| ODelItem (k : ikey).                                            (* del S[..] *)

Inductive out :=
| OVal (z : Z) | OFail | ODeleted | OHandle (key : list Z) | OUid (n : N) | ODone | ORejected | OFuel.

Inductive presolve :=
| PDeleted
| PFound (f : option pform) (defbase : path) (outer : layers) (newkey : list Z -> ikey).

Definition resolve_parent (st : state) (par : dref) : presolve :=
  match par with
  | ((p, []), cp) =>
      match dlookup (p ++ cp) (st_defs st) with
      | Some n => PFound (sn_params n) (p ++ cp) [] (fun key => (p ++ cp, [([], key)]))
      | None => PDeleted
      end
  | ((p, its), cp) =>
      match find_inst (p, its) (st_live st) with
      | None => PDeleted
      | Some r =>
          match dlookup cp (i_snap r) with
          | None => PDeleted
          | Some n => PFound (sn_params n) (i_base r ++ cp) (i_args r) (fun key => (p, its ++ [(cp, key)]))
          end
      end
  end.

Fixpoint replace_inst (r' : inst) (l : list inst) : list inst :=
  match l with
  | [] => []
  | r :: t => if ikey_eqb (i_key r') (i_key r) then r' :: t else r :: replace_inst r' t
  end.
Definition with_cache (r : inst) (c : cache) : inst :=
  {| i_key := i_key r; i_uid := i_uid r; i_base := i_base r; i_snap := i_snap r;
     i_args := i_args r; i_xrefs := i_xrefs r; i_cache := c |}.

Definition set_live (st : state) (l : list inst) : state :=
  {| st_defs := st_defs st; st_glob := st_glob st; st_live := l; st_next := st_next st |}.
Definition edit (st : state) (d : defs) (l : list inst) : state :=
  {| st_defs := d; st_glob := st_glob st; st_live := l; st_next := st_next st |}.
(** a change of the model's references reaches the namespace of every static space: every ItemSpace goes *)
Definition set_glob (st : state) (g : list (string * Z)) : state :=
  {| st_defs := st_defs st; st_glob := g; st_live := []; st_next := st_next st |}.

Definition parent_of (q : path) : path := removelast q.
Definition name_free (n : snode) (d : defs) (p : path) (x : string) : bool :=
  negb (amem x (sn_cells n)) && negb (amem x (sn_refs n)) && negb (dmem (p ++ [x]) d).

(** the container of a new space: the model itself, or an existing space in which the name is free *)
Definition parent_free (d : defs) (p : path) (x : string) : bool :=
  match p with
  | [] => true
  | _ => match dlookup p d with
         | Some n => negb (amem x (sn_cells n)) && negb (amem x (sn_refs n))
         | None => false
         end
  end.

Definition step (fuel : nat) (st : state) (o : op) : state * out :=
  let d := st_defs st in
  let l := st_live st in
  match o with
  | OGetItem par pos kw =>
      match resolve_parent st par with
      | PDeleted => (st, ODeleted)
      | PFound None _ _ _ => (st, OFail)
      | PFound (Some f) defbase outer newkey =>
          match bind (pf_sig f) pos kw with
          | None => (st, OFail)
          | Some key =>
              match find_inst (newkey key) l with
              | Some _ => (st, OHandle key)
              | None =>
                  match item_ctx d f defbase outer key with
                  | None => (st, OFail)
                  | Some (b, a, x) =>
                      ({| st_defs := d; st_glob := st_glob st;
                          st_live := {| i_key := newkey key; i_uid := st_next st; i_base := b;
                                        i_snap := subtree b d; i_args := a; i_xrefs := x;
                                        i_cache := [] |} :: l;
                          st_next := N.succ (st_next st) |}, OHandle key)
                  end
              end
          end
      end
  | OEval (k, cp) c args =>
      match find_inst k l with
      | None => (st, ODeleted)
      | Some r =>
          if dmem cp (i_snap r) then
            match ev_call fuel (ectx_of (st_glob st) r) cp c args (i_cache r) with
            | (Ok v, c') => (set_live st (replace_inst (with_cache r c') l), OVal v)
            | (Fail, c') => (set_live st (replace_inst (with_cache r c') l), OFail)
            | (OutOfFuel, _) => (st, OFuel)
            end
          else (st, ODeleted)
      end
  | OTakeCells (k, cp) c =>
      match find_inst k l with
      | None => (st, ODeleted)
      | Some r =>
          match dlookup cp (i_snap r) with
          | None => (st, ODeleted)
          | Some n => if amem c (sn_cells n) then (st, OUid (i_uid r)) else (st, OFail)
          end
      end
  | OTakeChild (k, cp) X =>
      match find_inst k l with
      | None => (st, ODeleted)
      | Some r =>
          if dmem cp (i_snap r)
          then (if child_ok (ectx_of (st_glob st) r) cp [] X then (st, ODone) else (st, OFail))
          else (st, ODeleted)
      end
  | OSetFormula p c cd =>
      match dlookup p d with
      | Some n =>
          if amem c (sn_cells n)
          then (edit st (dupdate p (set_cells c cd) d) (del_where (has_dynsub p) l), ODone)
          else (st, ORejected)
      | None => (st, ORejected)
      end
  | ONewCells p c cd =>
      match dlookup p d with
      | Some n =>
          if name_free n d p c
          then (edit st (dupdate p (set_cells c cd) d)
                     (del_where (fun r => own p r || has_dynsub p r) l), ODone)
          else (st, ORejected)
      | None => (st, ORejected)
      end
  | ODelCells p c =>
      match dlookup p d with
      | Some n =>
          if amem c (sn_cells n)
          then (edit st (dupdate p (del_cells c) d)
                     (del_where (fun r => own p r || has_dynsub p r) l), ODone)
          else (st, ORejected)
      | None => (st, ORejected)
      end
  | OSetRef p x v =>
      match dlookup p d with
      | Some n =>
          if amem x (sn_cells n) || dmem (p ++ [x]) d then (st, ORejected)
          else (edit st (dupdate p (set_ref x v) d)
                     (del_where (fun r => own p r || has_dynsub p r) l), ODone)
      | None => (st, ORejected)
      end
  | ODelRef p x =>
      match dlookup p d with
      | Some n =>
          if amem x (sn_refs n)
          then (edit st (dupdate p (del_ref x) d)
                     (del_where (fun r => own p r || has_dynsub p r) l), ODone)
          else (st, ORejected)
      | None => (st, ORejected)
      end
  | ONewSpace q f =>
      match q with
      | [] => (st, ORejected)
      | _ =>
          if existsb (fun e => is_prefix q (fst e)) d then (st, ORejected)
          else
            let p := parent_of q in
            let nd := {| sn_params := f; sn_cells := []; sn_refs := [] |} in
            if parent_free d p (last q EmptyString)
            then (edit st (d ++ [(q, nd)]) (del_where (fun r => own p r || has_dynsub p r) l), ODone)
            else (st, ORejected)
      end
  | ODelSpace q =>
      if dmem q d then
        let p := parent_of q in
        (edit st (ddelete q d)
              (del_where (fun r => under q r || own p r || has_dynsub p r) l), ODone)
      else (st, ORejected)
  | OSetParams p f =>
      match dlookup p d with
      | Some n => (edit st (dupdate p (set_params f) d)
                        (del_where (fun r => own p r || has_dynsub p r) l), ODone)
      | None => (st, ORejected)
      end
  | OSetGlobal x v =>
      if dmem [x] d then (st, ORejected) else (set_glob st (aset x v (st_glob st)), ODone)
  | ODelGlobal x =>
      if amem x (st_glob st) then (set_glob st (adel x (st_glob st)), ODone) else (st, ORejected)
  | OClearItems p =>
      if dmem p d then (set_live st (del_where (own p) l), ODone) else (st, ORejected)
  | ODelItem k =>
      match find_inst k l with
      | Some _ => (set_live st (del_where (fun r => ikey_eqb k (i_key r)) l), ODone)
      | None => (st, ORejected)
      end
  end.

Definition run (fuel : nat) (st : state) (ops : list op) : state :=
  fold_left (fun s o => fst (step fuel s o)) ops st.
