(** Dyn — [bind]: the spellings of one argument tuple (positional / keyword /
    omitted default) bind equally. *)
From Coq Require Import List String Ascii ZArith NArith Bool Arith Lia.
From MX Require Import Dyn.Model Dyn.ProofsBase.
Import ListNotations.
Open Scope list_scope.

Lemma alookup_cons_other : forall A x y (v : A) l, x <> y -> alookup x ((y, v) :: l) = alookup x l.
Proof. intros A x y v l H. simpl. apply String.eqb_neq in H. now rewrite H. Qed.
Lemma alookup_cons_same : forall A x (v : A) l, alookup x ((x, v) :: l) = Some v.
Proof. intros A x v l. simpl. now rewrite String.eqb_refl. Qed.
Lemma amem_in : forall A x (l : list (string * A)), amem x l = true <-> In x (map fst l).
Proof.
  intros A x l. unfold amem. induction l as [|[y v] t IH]; simpl; [split; [discriminate|tauto]|].
  destruct (String.eqb x y) eqn:E.
  - apply String.eqb_eq in E. subst. split; auto.
  - apply String.eqb_neq in E. rewrite IH. split; [auto|intros [H|H]; [congruence|exact H]].
Qed.

(** one more positional argument: the next parameter leaves the rest *)
Lemma bind_pos_snoc : forall s pos x d rest v,
  bind_pos s pos = Some (pos, (x, d) :: rest) -> bind_pos s (pos ++ [v]) = Some (pos ++ [v], rest).
Proof.
  intros s pos. revert s. induction pos as [|w pos IH]; intros s x d rest v H; simpl in *.
  - inversion H; subst. reflexivity.
  - destruct s as [|y s]; [discriminate|].
    destruct (bind_pos s pos) as [[b r]|] eqn:E; [|discriminate]. inversion H; subst.
    now rewrite (IH _ _ _ _ v E).
Qed.

Lemma bind_rest_drop_kw : forall rest x v kw, ~ In x (map fst rest) ->
  bind_rest rest ((x, v) :: kw) = bind_rest rest kw.
Proof.
  induction rest as [|[y d] rest IH]; intros x v kw H; simpl; [reflexivity|].
  simpl in H. assert (y <> x) as Hne by (intros ->; apply H; now left).
  apply String.eqb_neq in Hne. rewrite Hne. rewrite IH by (intros Hin; apply H; now right). reflexivity.
Qed.

Lemma bind_pos_suffix : forall s pos b rest, bind_pos s pos = Some (b, rest) -> exists s1, s = s1 ++ rest.
Proof.
  intros s pos. revert s. induction pos as [|w pos IH]; intros s b rest H; simpl in H.
  - inversion H; subst. now exists [].
  - destruct s as [|y s]; [discriminate|].
    destruct (bind_pos s pos) as [[b' r]|] eqn:E; [|discriminate]. inversion H; subst.
    destruct (IH _ _ _ E) as [s1 ->]. now exists (y :: s1).
Qed.

(** S(.., v) and S(.., x=v): passing the next parameter positionally or by keyword is the same *)
Theorem bind_positional_keyword : forall s pos kw x d rest v,
  NoDup (map fst s) ->
  bind_pos s pos = Some (pos, (x, d) :: rest) ->
  amem x kw = false ->
  bind s (pos ++ [v]) kw = bind s pos ((x, v) :: kw).
Proof.
  intros s pos kw x d rest v Hnd Hp Hx. unfold bind. rewrite (bind_pos_snoc _ _ _ _ _ v Hp), Hp.
  assert (~ In x (map fst rest)) as Hnr.
  { destruct (bind_pos_suffix _ _ _ _ Hp) as [s1 ->]. rewrite map_app in Hnd. simpl in Hnd.
    apply NoDup_remove_2 in Hnd. intros Hin. apply Hnd. apply in_or_app. now right. }
  cbn [forallb fst]. unfold amem at 2. rewrite alookup_cons_same. cbn [andb].
  assert (forallb (fun k => amem (fst k) ((x, d) :: rest)) kw = forallb (fun k => amem (fst k) rest) kw) as ->.
  { clear -Hx. induction kw as [|[y w] kw IH]; [reflexivity|]. cbn [forallb fst].
    unfold amem in Hx. simpl in Hx. destruct (String.eqb x y) eqn:E; [discriminate|].
    rewrite IH by (unfold amem; exact Hx). f_equal. unfold amem. simpl.
    rewrite String.eqb_sym, E. reflexivity. }
  destruct (forallb (fun k => amem (fst k) rest) kw); [|reflexivity].
  simpl bind_rest. rewrite String.eqb_refl. rewrite (bind_rest_drop_kw _ _ _ _ Hnr).
  destruct (bind_rest rest kw); [|reflexivity]. now rewrite <- app_assoc.
Qed.

Lemma bind_rest_default : forall rest x dv kw,
  NoDup (map fst rest) -> In (x, Some dv) rest -> alookup x kw = None ->
  bind_rest rest ((x, dv) :: kw) = bind_rest rest kw.
Proof.
  induction rest as [|[y d] rest IH]; intros x dv kw Hnd Hin Hx; simpl; [reflexivity|].
  simpl in Hnd. inversion Hnd as [|? ? Hny Hnd']; subst.
  destruct Hin as [Heq|Hin].
  - inversion Heq; subst. rewrite String.eqb_refl, Hx.
    rewrite bind_rest_drop_kw by exact Hny. reflexivity.
  - assert (y <> x) as Hne.
    { intros ->. apply Hny. change x with (fst (x, Some dv)). now apply in_map. }
    apply String.eqb_neq in Hne. rewrite Hne. rewrite (IH _ _ _ Hnd' Hin Hx). reflexivity.
Qed.

Lemma NoDup_app_r : forall A (l1 l2 : list A), NoDup (l1 ++ l2) -> NoDup l2.
Proof. intros A l1. induction l1 as [|a l1 IH]; intros l2 H; [exact H|]. inversion H; subst. now apply IH. Qed.

(** S(..) and S(.., x=default of x): omitting a parameter that has a default is passing the default *)
Theorem bind_default_omitted : forall s pos kw b rest x dv,
  NoDup (map fst s) ->
  bind_pos s pos = Some (b, rest) -> In (x, Some dv) rest -> alookup x kw = None ->
  bind s pos ((x, dv) :: kw) = bind s pos kw.
Proof.
  intros s pos kw b rest x dv Hnd Hp Hin Hx. unfold bind. rewrite Hp.
  cbn [forallb fst].
  assert (amem x rest = true) as ->.
  { apply amem_in. change x with (fst (x, Some dv)). now apply in_map. }
  cbn [andb]. destruct (forallb (fun k => amem (fst k) rest) kw); [|reflexivity].
  rewrite bind_rest_default; [reflexivity| |exact Hin|exact Hx].
  destruct (bind_pos_suffix _ _ _ _ Hp) as [s1 ->]. rewrite map_app in Hnd. now apply NoDup_app_r in Hnd.
Qed.
