(** Dyn — the invariant: every live instance is what the CURRENT definitions
    say it is (context re-derivable from its parent and the definitions,
    snapshot = subtree of the current definitions at its base) and every cached
    value is a specification value; preserved by every operation. *)
From Coq Require Import List String Ascii ZArith NArith Bool Arith Lia.
From MX Require Import Dyn.Model Dyn.ProofsBase Dyn.ProofsEval.
Import ListNotations.
Open Scope list_scope.

Definition parent_ok (d : defs) (l : list inst) (r : inst) : Prop :=
  exists its cp key pbase outer f,
    snd (i_key r) = its ++ [(cp, key)]
    /\ ((its = [] /\ cp = [] /\ pbase = fst (i_key r) /\ outer = [])
        \/ (its <> [] /\ exists r0, In r0 l /\ i_key r0 = (fst (i_key r), its)
                                   /\ pbase = i_base r0 /\ outer = i_args r0))
    /\ params_at d (pbase ++ cp) = Some f
    /\ bind (pf_sig f) key [] = Some key
    /\ item_ctx d f (pbase ++ cp) outer key = Some (i_base r, i_args r, i_xrefs r).

Definition inst_ok (g : list (string * Z)) (d : defs) (l : list inst) (r : inst) : Prop :=
  parent_ok d l r /\ subtree (i_base r) d = i_snap r /\ cache_ok (ectx_of g r) (i_cache r).

Definition live_ok (g : list (string * Z)) (d : defs) (l : list inst) : Prop := forall r, In r l -> inst_ok g d l r.
Definition Inv (st : state) : Prop := live_ok (st_glob st) (st_defs st) (st_live st).

(** ** item_ctx depends on the definitions only through the existence of the chosen base *)
Lemma item_ctx_mem : forall d f db o k b a x, item_ctx d f db o k = Some (b, a, x) -> dmem b d = true.
Proof.
  intros d f db o k b a x H. unfold item_ctx in H.
  destruct (run_pbody _ _) as [[ob xr]|]; [|discriminate].
  destruct (dmem _ d) eqn:E; [|discriminate]. inversion H; subst. exact E.
Qed.
Lemma item_ctx_frame : forall d d' f db o k b a x,
  item_ctx d f db o k = Some (b, a, x) -> dmem b d' = true -> item_ctx d' f db o k = Some (b, a, x).
Proof.
  intros d d' f db o k b a x H M. unfold item_ctx in *.
  destruct (run_pbody _ _) as [[ob xr]|]; [|discriminate].
  destruct (dmem _ d) eqn:E; [|discriminate]. inversion H; subst. now rewrite M.
Qed.
Lemma base_mem : forall gl d l r, inst_ok gl d l r -> dmem (i_base r) d = true.
Proof.
  intros gl d l r [(its & cp & key & pbase & outer & f & _ & _ & _ & _ & Hi) _]. eapply item_ctx_mem; eauto.
Qed.
Lemma dmem_via_subtree : forall b d d', subtree b d' = subtree b d -> dmem b d = true -> dmem b d' = true.
Proof.
  intros b d d' H M. rewrite <- (app_nil_r b). rewrite <- dmem_subtree. rewrite H. rewrite dmem_subtree.
  now rewrite app_nil_r.
Qed.

(** ** deletion *)
Lemma in_del_where : forall f l r,
  In r (del_where f l) <->
  In r l /\ (forall d0, In d0 l -> f d0 = true -> ikey_prefix (i_key d0) (i_key r) = false).
Proof.
  intros f l r. unfold del_where. rewrite filter_In. split; intros [H1 H2]; split; try assumption.
  - intros d0 Hin Hf. apply negb_true_iff in H2.
    destruct (ikey_prefix (i_key d0) (i_key r)) eqn:E; [|reflexivity].
    assert (existsb (fun d => f d && ikey_prefix (i_key d) (i_key r)) l = true) as X; [|congruence].
    apply existsb_exists. exists d0. split; [assumption|]. now rewrite Hf, E.
  - apply negb_true_iff. destruct (existsb _ l) eqn:E; [|reflexivity].
    apply existsb_exists in E as [d0 [Hin Hd]]. apply andb_true_iff in Hd as [Hf Hp].
    rewrite (H2 d0 Hin Hf) in Hp. discriminate.
Qed.
Lemma del_where_self : forall f l r, In r (del_where f l) -> f r = false.
Proof.
  intros f l r H. apply in_del_where in H as [Hin H]. destruct (f r) eqn:E; [|reflexivity].
  specialize (H r Hin E). now rewrite ikey_prefix_refl in H.
Qed.
Lemma del_where_parent : forall f l r r0, In r (del_where f l) -> In r0 l ->
  ikey_prefix (i_key r0) (i_key r) = true -> In r0 (del_where f l).
Proof.
  intros f l r r0 H Hin0 Hp. apply in_del_where in H as [Hin H]. apply in_del_where. split; [assumption|].
  intros d0 Hd Hf. destruct (ikey_prefix (i_key d0) (i_key r0)) eqn:E; [|reflexivity].
  specialize (H d0 Hd Hf). rewrite (ikey_prefix_trans _ _ _ E Hp) in H. discriminate.
Qed.

(** ** the frame lemma: instances that survive an edit which leaves what they
    were built from untouched stay consistent *)
Lemma frame : forall gl d d' l l',
  live_ok gl d l ->
  (forall r, In r l' -> In r l) ->
  (forall r r0, In r l' -> In r0 l -> ikey_prefix (i_key r0) (i_key r) = true -> In r0 l') ->
  (forall r, In r l' -> subtree (i_base r) d' = subtree (i_base r) d) ->
  (forall r key f, In r l' -> snd (i_key r) = [([], key)] ->
     params_at d (fst (i_key r)) = Some f -> params_at d' (fst (i_key r)) = Some f) ->
  live_ok gl d' l'.
Proof.
  intros gl d d' l l' Hok Hsub Hpar Hsnap Hpf r Hr.
  destruct (Hok r (Hsub r Hr)) as [(its & cp & key & pbase & outer & f & Hk & Hp & Hf & Hb & Hi) [Hs Hc]].
  split; [|split].
  - exists its, cp, key, pbase, outer, f. split; [exact Hk|]. split; [|split; [|split]].
    + destruct Hp as [(E1 & E2 & E3 & E4)|(Hne & r0 & Hin0 & Hk0 & E3 & E4)].
      * left. auto.
      * right. split; [exact Hne|]. exists r0. split; [|auto].
        apply (Hpar r r0 Hr Hin0). apply ikey_prefix_spec. rewrite Hk0. simpl. split; [reflexivity|].
        rewrite Hk. now exists [(cp, key)].
    + destruct Hp as [(E1 & E2 & E3 & E4)|(Hne & r0 & Hin0 & Hk0 & E3 & E4)].
      * subst. rewrite app_nil_r in *. simpl in Hk. eapply Hpf; eauto.
      * subst pbase. rewrite <- params_at_subtree. rewrite <- params_at_subtree in Hf.
        assert (In r0 l') as Hin0'.
        { apply (Hpar r r0 Hr Hin0). apply ikey_prefix_spec. rewrite Hk0. simpl. split; [reflexivity|].
          rewrite Hk. now exists [(cp, key)]. }
        now rewrite (Hsnap r0 Hin0').
    + exact Hb.
    + eapply item_ctx_frame; [exact Hi|].
      eapply dmem_via_subtree; [apply (Hsnap r Hr)|]. eapply item_ctx_mem; eauto.
  - rewrite (Hsnap r Hr). exact Hs.
  - exact Hc.
Qed.

Lemma live_ok_del : forall gl d l f, live_ok gl d l -> live_ok gl d (del_where f l).
Proof.
  intros gl d l f Hok. apply (frame gl d d l); auto.
  - intros r H. now apply in_del_where in H.
  - intros r r0 H H0 Hp. eapply del_where_parent; eauto.
Qed.

(** a survivor of an edit of node [p] was not built from [p] *)
Lemma survivor_not_under : forall gl d l p r, inst_ok gl d l r -> dmem p d = true -> has_dynsub p r = false ->
  strip_prefix (i_base r) p = None.
Proof.
  intros gl d l p r [_ [Hs _]] Hm Hh. unfold has_dynsub in Hh.
  destruct (strip_prefix (i_base r) p) as [cp|] eqn:E; [|reflexivity].
  rewrite <- Hs in Hh. rewrite dmem_subtree in Hh. apply strip_prefix_spec in E. subst p. congruence.
Qed.

Lemma own_top : forall p r key, snd (i_key r) = [([], key)] -> fst (i_key r) = p -> own p r = true.
Proof.
  intros p r key Hk Hp. unfold own. rewrite Hk, Hp, path_eqb_refl. reflexivity.
Qed.

(** edits of one node: set_formula, new/deleted cells, new/deleted reference, parameter formula *)
Lemma live_ok_edit_node : forall gl d l p g f,
  live_ok gl d l -> dmem p d = true ->
  (forall r, has_dynsub p r = true -> f r = true) ->
  ((forall m, sn_params (g m) = sn_params m) \/ (forall r, own p r = true -> f r = true)) ->
  live_ok gl (dupdate p g d) (del_where f l).
Proof.
  intros gl d l p g f Hok Hm Hdyn Hpar. apply (frame gl d _ l).
  - exact Hok.
  - intros r H. now apply in_del_where in H.
  - intros r r0 H H0 Hp. eapply del_where_parent; eauto.
  - intros r H. apply subtree_dupdate_out.
    assert (In r l) as Hin by (now apply in_del_where in H).
    apply (survivor_not_under gl d l p r (Hok r Hin) Hm).
    apply del_where_self in H. destruct (has_dynsub p r) eqn:E; [|reflexivity].
    rewrite (Hdyn r E) in H. discriminate.
  - intros r key f0 H Hk Hf. destruct Hpar as [Hpres|Hown].
    + now rewrite params_at_dupdate_pres.
    + rewrite params_at_dupdate_other; [exact Hf|].
      intros E. apply del_where_self in H. rewrite (Hown r (own_top p r key Hk E)) in H. discriminate.
Qed.

Lemma dmem_exists_prefix : forall q d, dmem q d = true -> existsb (fun e => is_prefix q (fst e)) d = true.
Proof.
  intros q d. unfold dmem. induction d as [|[q' n] t IH]; simpl; [discriminate|].
  destruct (path_eqb q q') eqn:E.
  - apply path_eqb_eq in E. subst. now rewrite is_prefix_refl.
  - intros H. rewrite (IH H). apply orb_true_r.
Qed.

Lemma subtree_single_none : forall b q n, strip_prefix b q = None -> subtree b [(q, n)] = [].
Proof. intros b q n H. simpl. now rewrite H. Qed.

(** a new space [q] *)
Lemma live_ok_new_space : forall gl d l q nd f,
  live_ok gl d l -> q <> [] ->
  existsb (fun e => is_prefix q (fst e)) d = false ->
  (parent_of q = [] \/ dmem (parent_of q) d = true) ->
  (forall r, has_dynsub (parent_of q) r = true -> f r = true) ->
  live_ok gl (d ++ [(q, nd)]) (del_where f l).
Proof.
  intros gl d l q nd f Hok Hq Hfresh Hpar Hdyn. apply (frame gl d _ l).
  - exact Hok.
  - intros r H. now apply in_del_where in H.
  - intros r r0 H H0 Hp. eapply del_where_parent; eauto.
  - intros r H. rewrite subtree_app.
    assert (In r l) as Hin by (now apply in_del_where in H).
    assert (strip_prefix (i_base r) q = None) as Hn.
    { destruct (strip_prefix (i_base r) q) as [r'|] eqn:E; [|reflexivity]. exfalso.
      apply strip_prefix_spec in E.
      pose proof (base_mem _ _ _ _ (Hok r Hin)) as Hbm.
      destruct r' as [|x r'].
      - rewrite app_nil_r in E. subst q. apply dmem_exists_prefix in Hbm. congruence.
      - assert (parent_of q = i_base r ++ removelast (x :: r')) as Hpq.
        { unfold parent_of. rewrite E. apply removelast_app. discriminate. }
        assert (has_dynsub (parent_of q) r = true) as Hh.
        { unfold has_dynsub. rewrite Hpq, strip_prefix_app.
          destruct (Hok r Hin) as [_ [Hs _]]. rewrite <- Hs. rewrite dmem_subtree. rewrite <- Hpq.
          destruct Hpar as [Hp0|Hp1]; [|exact Hp1].
          rewrite Hp0. rewrite Hp0 in Hpq. symmetry in Hpq. apply app_eq_nil in Hpq as [Hb0 _].
          rewrite <- Hb0. exact Hbm. }
        apply del_where_self in H. rewrite (Hdyn r Hh) in H. discriminate. }
    rewrite (subtree_single_none _ _ _ Hn). apply app_nil_r.
  - intros r key f0 H Hk Hf. unfold params_at in *. rewrite dlookup_app.
    destruct (dlookup (fst (i_key r)) d); [exact Hf|discriminate].
Qed.

(** a deleted space [q] (with everything below it) *)
Lemma live_ok_del_space : forall gl d l q f,
  live_ok gl d l -> (forall r, under q r = true -> f r = true) ->
  live_ok gl (ddelete q d) (del_where f l).
Proof.
  intros gl d l q f Hok Hund. apply (frame gl d _ l).
  - exact Hok.
  - intros r H. now apply in_del_where in H.
  - intros r r0 H H0 Hp. eapply del_where_parent; eauto.
  - intros r H. assert (In r l) as Hin by (now apply in_del_where in H).
    apply subtree_ddelete. destruct (Hok r Hin) as [_ [Hs _]]. rewrite Hs.
    apply del_where_self in H.
    destruct (existsb (fun e => is_prefix q (i_base r ++ fst e)) (i_snap r)) eqn:E; [|reflexivity].
    rewrite (Hund r) in H; [discriminate|]. unfold under. rewrite E. apply orb_true_r.
  - intros r key f0 H Hk Hf. unfold params_at in *. rewrite dlookup_ddelete; [exact Hf|].
    apply del_where_self in H. destruct (is_prefix q (fst (i_key r))) eqn:E; [|reflexivity].
    rewrite (Hund r) in H; [discriminate|]. unfold under. now rewrite E.
Qed.

(** ** a new instance *)
Lemma find_inst_some : forall k l r, find_inst k l = Some r -> In r l /\ i_key r = k.
Proof.
  intros k l r. induction l as [|r' t IH]; simpl; [discriminate|].
  destruct (ikey_eqb k (i_key r')) eqn:E.
  - intros H. inversion H; subst. apply ikey_eqb_eq in E. auto.
  - intros H. destruct (IH H). auto.
Qed.

Lemma live_ok_mono : forall gl d l r0, live_ok gl d l -> forall r, In r l -> inst_ok gl d (r0 :: l) r.
Proof.
  intros gl d l r0 Hok r Hr.
  destruct (Hok r Hr) as [(its & cp & key & pbase & outer & f & Hk & Hp & Hrest) Hsc].
  split; [|exact Hsc]. exists its, cp, key, pbase, outer, f. split; [exact Hk|]. split; [|exact Hrest].
  destruct Hp as [Hp|(Hne & r1 & Hin1 & H1)]; [now left|right]. split; [exact Hne|]. exists r1. split; [now right|exact H1].
Qed.

Lemma live_ok_new_inst : forall st par f defbase outer newkey pos kw key b a x,
  Inv st -> resolve_parent st par = PFound (Some f) defbase outer newkey ->
  bind (pf_sig f) pos kw = Some key ->
  item_ctx (st_defs st) f defbase outer key = Some (b, a, x) ->
  live_ok (st_glob st) (st_defs st)
    ({| i_key := newkey key; i_uid := st_next st; i_base := b; i_snap := subtree b (st_defs st);
        i_args := a; i_xrefs := x; i_cache := [] |} :: st_live st).
Proof.
  intros st par f defbase outer newkey pos kw key b a x HI Hres Hb Hi r [<-|Hr].
  2:{ now apply live_ok_mono. }
  split; [|split; [reflexivity|apply cache_ok_nil]].
  pose proof (bind_canonical _ _ _ _ Hb) as Hcan.
  destruct par as [[p its] cp]. unfold resolve_parent in Hres. destruct its as [|it its].
  - destruct (dlookup (p ++ cp) (st_defs st)) as [n|] eqn:En; [|discriminate]. inversion Hres; subst. simpl.
    exists [], [], key, (p ++ cp), [], f. simpl. rewrite app_nil_r. split; [reflexivity|]. split; [left; auto|].
    split; [|split; [exact Hcan|exact Hi]]. unfold params_at. now rewrite En.
  - destruct (find_inst (p, it :: its) (st_live st)) as [r0|] eqn:Ef; [|discriminate].
    destruct (dlookup cp (i_snap r0)) as [n|] eqn:En; [|discriminate]. inversion Hres; subst. simpl.
    apply find_inst_some in Ef as [Hin0 Hk0].
    exists (it :: its), cp, key, (i_base r0), (i_args r0), f. split; [reflexivity|]. split.
    + right. split; [discriminate|]. exists r0. split; [now right|]. simpl. auto.
    + split; [|split; [exact Hcan|exact Hi]].
      destruct (HI r0 Hin0) as [_ [Hs _]]. rewrite <- Hs in En. rewrite dlookup_subtree in En.
      unfold params_at. now rewrite En.
Qed.

(** ** evaluation: only the cache of the instance changes *)
Lemma in_replace_inst : forall r' l r, In r (replace_inst r' l) -> r = r' \/ In r l.
Proof.
  intros r' l r. induction l as [|r1 t IH]; simpl; [tauto|].
  destruct (ikey_eqb (i_key r') (i_key r1)); simpl; intros [H|H]; auto. destruct (IH H); auto.
Qed.
Lemma replace_inst_keeps : forall r' l r0, In r0 l ->
  (forall r1, In r1 l -> i_key r1 = i_key r' -> i_base r1 = i_base r' /\ i_args r1 = i_args r') ->
  exists r0', In r0' (replace_inst r' l) /\ i_key r0' = i_key r0 /\ i_base r0' = i_base r0 /\ i_args r0' = i_args r0.
Proof.
  intros r' l r0. induction l as [|r1 t IH]; simpl; [tauto|]. intros Hin Hsame.
  destruct (ikey_eqb (i_key r') (i_key r1)) eqn:E.
  - destruct Hin as [<-|Hin].
    + apply ikey_eqb_eq in E. destruct (Hsame r1 (or_introl eq_refl) (eq_sym E)) as [Hb Ha].
      exists r'. split; [now left|auto].
    + exists r0. split; [now right|auto].
  - destruct Hin as [<-|Hin].
    + exists r1. split; [now left|auto].
    + destruct (IH Hin) as (r0' & H1 & H2); [intros; apply Hsame; auto|]. exists r0'. split; [now right|exact H2].
Qed.

Lemma live_ok_with_cache : forall gl d l r c',
  live_ok gl d l -> In r l -> cache_ok (ectx_of gl r) c' ->
  (forall r1, In r1 l -> i_key r1 = i_key r -> i_base r1 = i_base r /\ i_args r1 = i_args r) ->
  live_ok gl d (replace_inst (with_cache r c') l).
Proof.
  intros gl d l r c' Hok Hr Hc Hsame r2 H2.
  assert (exists r3, In r3 l /\ i_key r2 = i_key r3 /\ i_base r2 = i_base r3 /\ i_args r2 = i_args r3
                    /\ i_xrefs r2 = i_xrefs r3 /\ i_snap r2 = i_snap r3
                    /\ cache_ok (ectx_of gl r2) (i_cache r2)) as (r3 & H3 & Fk & Fb & Fa & Fx & Fs & Fc).
  { apply in_replace_inst in H2 as [->|H2].
    - exists r. simpl. repeat split; auto.
    - exists r2. destruct (Hok r2 H2) as [_ [_ Hc2]]. repeat split; auto. }
  destruct (Hok r3 H3) as [(its & cp & key & pbase & outer & f & Hk & Hp & Hrest) [Hs _]].
  split; [|split; [now rewrite Fb, Fs|exact Fc]].
  exists its, cp, key, pbase, outer, f. rewrite Fk, Fb, Fa, Fx. split; [exact Hk|]. split; [|exact Hrest].
  destruct Hp as [Hp|(Hne & r0 & Hin0 & Hk0 & E3 & E4)]; [now left|right]. split; [exact Hne|].
  destruct (replace_inst_keeps (with_cache r c') l r0 Hin0) as (r0' & G1 & G2 & G3 & G4).
  { intros r1 Hr1 Hk1. simpl in *. now apply Hsame. }
  exists r0'. rewrite G2, G3, G4. auto.
Qed.

(** instances with the same key were built the same way (the context is a function of key and definitions) *)
Lemma same_key_same_ctx_aux : forall gl d l, live_ok gl d l -> forall n r1 r2, In r1 l -> In r2 l ->
  List.length (snd (i_key r1)) = n -> i_key r1 = i_key r2 ->
  i_base r1 = i_base r2 /\ i_args r1 = i_args r2 /\ i_xrefs r1 = i_xrefs r2.
Proof.
  intros gl d l Hok n. induction n as [n IH] using lt_wf_ind. intros r1 r2 H1 H2 Hn Hk.
  destruct (Hok r1 H1) as [(its & cp & key & pbase & outer & f & Hk1 & Hp1 & Hf1 & _ & Hi1) _].
  destruct (Hok r2 H2) as [(its' & cp' & key' & pbase' & outer' & f' & Hk2 & Hp2 & Hf2 & _ & Hi2) _].
  rewrite <- Hk in Hk2. rewrite Hk1 in Hk2. apply app_inj_tail in Hk2 as [Eits Est]. inversion Est; subst its' cp' key'.
  assert (pbase = pbase' /\ outer = outer') as [-> ->].
  { destruct Hp1 as [(E1 & E2 & E3 & E4)|(Hne1 & r01 & Hin01 & Hk01 & E31 & E41)];
    destruct Hp2 as [(E1' & E2' & E3' & E4')|(Hne2 & r02 & Hin02 & Hk02 & E32 & E42)]; subst; try congruence.
    - rewrite Hk. auto.
    - assert (List.length (snd (i_key r01)) < List.length (snd (i_key r1))) as Hlt.
      { rewrite Hk01, Hk1. simpl. rewrite app_length. simpl. rewrite Nat.add_1_r. apply Nat.lt_succ_diag_r. }
      destruct (IH _ Hlt r01 r02 Hin01 Hin02 eq_refl) as (A & B & _); [rewrite Hk01, Hk02; now rewrite Hk|].
      now rewrite A, B. }
  rewrite Hf1 in Hf2. inversion Hf2; subst f'. rewrite Hi1 in Hi2. inversion Hi2. auto.
Qed.
Lemma same_key_same_ctx : forall gl d l r1 r2, live_ok gl d l -> In r1 l -> In r2 l -> i_key r1 = i_key r2 ->
  i_base r1 = i_base r2 /\ i_args r1 = i_args r2 /\ i_xrefs r1 = i_xrefs r2.
Proof. intros gl d l r1 r2 Hok H1 H2 Hk. eapply same_key_same_ctx_aux; eauto. Qed.

Lemma parent_free_mem : forall d p x, parent_free d p x = true -> p = [] \/ dmem p d = true.
Proof.
  intros d p x H. destruct p as [|p0 p']; [now left|right]. unfold parent_free in H. unfold dmem.
  destruct (dlookup (p0 :: p') d); [reflexivity|discriminate].
Qed.

(** ** every operation preserves the invariant *)
Theorem step_preserves_inv : forall fuel st o, Inv st -> Inv (fst (step fuel st o)).
Proof.
  intros fuel st o HI. unfold Inv in *. destruct o; unfold step.
  - (* OGetItem *)
    destruct (resolve_parent st par) as [|[f|] defbase outer newkey] eqn:Er; simpl; try exact HI.
    destruct (bind (pf_sig f) pos kw) as [key|] eqn:Eb; simpl; try exact HI.
    destruct (find_inst (newkey key) (st_live st)); simpl; try exact HI.
    destruct (item_ctx (st_defs st) f defbase outer key) as [[[b a] x]|] eqn:Ei; simpl; try exact HI.
    eapply live_ok_new_inst; eauto.
  - (* OEval *)
    destruct h as [k cp]. destruct (find_inst k (st_live st)) as [r|] eqn:Ef; simpl; try exact HI.
    destruct (dmem cp (i_snap r)); simpl; try exact HI.
    apply find_inst_some in Ef as [Hin Hk].
    destruct (ev_call fuel (ectx_of (st_glob st) r) cp c args (i_cache r)) as [[v| |] c'] eqn:Ee; simpl; try exact HI.
    + apply live_ok_with_cache; auto.
      * destruct (HI r Hin) as [_ [_ Hc]]. eapply ev_call_sound; eauto.
      * intros r1 H1 Hk1. destruct (same_key_same_ctx _ _ _ r1 r HI H1 Hin Hk1) as (A & B & _). auto.
    + apply live_ok_with_cache; auto.
      * destruct (HI r Hin) as [_ [_ Hc]]. eapply ev_call_sound; eauto.
      * intros r1 H1 Hk1. destruct (same_key_same_ctx _ _ _ r1 r HI H1 Hin Hk1) as (A & B & _). auto.
  - (* OTakeCells *)
    destruct h as [k cp]. destruct (find_inst k (st_live st)) as [r|]; simpl; try exact HI.
    destruct (dlookup cp (i_snap r)) as [n|]; simpl; try exact HI. destruct (amem c (sn_cells n)); exact HI.
  - (* OTakeChild *)
    destruct h as [k cp]. destruct (find_inst k (st_live st)) as [r|]; simpl; try exact HI.
    destruct (dmem cp (i_snap r)); simpl; try exact HI. destruct (child_ok _ _ _ _); exact HI.
  - (* OSetFormula *)
    destruct (dlookup p (st_defs st)) as [n|] eqn:En; simpl; try exact HI.
    destruct (amem c (sn_cells n)); simpl; try exact HI.
    apply live_ok_edit_node; [exact HI|unfold dmem; now rewrite En|intros r H; exact H|left; reflexivity].
  - (* ONewCells *)
    destruct (dlookup p (st_defs st)) as [n|] eqn:En; simpl; try exact HI.
    destruct (name_free n (st_defs st) p c); simpl; try exact HI.
    apply live_ok_edit_node; [exact HI|unfold dmem; now rewrite En|intros r H; rewrite H; apply orb_true_r|left; reflexivity].
  - (* ODelCells *)
    destruct (dlookup p (st_defs st)) as [n|] eqn:En; simpl; try exact HI.
    destruct (amem c (sn_cells n)); simpl; try exact HI.
    apply live_ok_edit_node; [exact HI|unfold dmem; now rewrite En|intros r H; rewrite H; apply orb_true_r|left; reflexivity].
  - (* OSetRef *)
    destruct (dlookup p (st_defs st)) as [n|] eqn:En; simpl; try exact HI.
    destruct (amem x (sn_cells n) || dmem (p ++ [x]) (st_defs st)); simpl; try exact HI.
    apply live_ok_edit_node; [exact HI|unfold dmem; now rewrite En|intros r H; rewrite H; apply orb_true_r|left; reflexivity].
  - (* ODelRef *)
    destruct (dlookup p (st_defs st)) as [n|] eqn:En; simpl; try exact HI.
    destruct (amem x (sn_refs n)); simpl; try exact HI.
    apply live_ok_edit_node; [exact HI|unfold dmem; now rewrite En|intros r H; rewrite H; apply orb_true_r|left; reflexivity].
  - (* ONewSpace *)
    destruct q as [|q0 q']; try exact HI.
    destruct (existsb (fun e => is_prefix (q0 :: q') (fst e)) (st_defs st)) eqn:Efresh; try exact HI.
    destruct (parent_free (st_defs st) (parent_of (q0 :: q')) (last (q0 :: q') EmptyString)) eqn:Epf; try exact HI.
    cbn [fst edit st_defs st_live st_glob]. apply live_ok_new_space; [exact HI|discriminate|exact Efresh| |].
    + now apply parent_free_mem with (last (q0 :: q') EmptyString).
    + intros r H; rewrite H; apply orb_true_r.
  - (* ODelSpace *)
    destruct (dmem q (st_defs st)); simpl; try exact HI.
    apply live_ok_del_space; auto. intros r H. now rewrite H.
  - (* OSetParams *)
    destruct (dlookup p (st_defs st)) as [n|] eqn:En; simpl; try exact HI.
    apply live_ok_edit_node; [exact HI|unfold dmem; now rewrite En|intros r H; rewrite H; apply orb_true_r|].
    right. intros r H. now rewrite H.
  - (* OSetGlobal *)
    destruct (dmem [x] (st_defs st)); simpl; try exact HI. intros r H. destruct H.
  - (* ODelGlobal *)
    destruct (amem x (st_glob st)); simpl; try exact HI. intros r H. destruct H.
  - (* OClearItems *)
    destruct (dmem p (st_defs st)); simpl; try exact HI. now apply live_ok_del.
  - (* ODelItem *)
    destruct (find_inst k (st_live st)); simpl; try exact HI. now apply live_ok_del.
Qed.

Theorem run_preserves_inv : forall fuel ops st, Inv st -> Inv (run fuel st ops).
Proof.
  intros fuel ops. unfold run. induction ops as [|o ops IH]; intros st HI; simpl; [exact HI|].
  apply IH. now apply step_preserves_inv.
Qed.

Lemma inv_init : forall d, Inv (init d).
Proof. intros d r H. destruct H. Qed.
