(** Dyn — basic lemmas: names, paths, definitions as flat maps, subtrees, bind. *)
From Coq Require Import List String Ascii ZArith NArith Bool Arith Lia.
From MX Require Import Dyn.Model.
Import ListNotations.
Open Scope list_scope.

(** ** equalities *)
Lemma path_eqb_eq : forall a b, path_eqb a b = true <-> a = b.
Proof.
  induction a as [|x a IH]; destruct b as [|y b]; simpl; split; intros H; try congruence; try reflexivity.
  - apply andb_true_iff in H as [H1 H2]. apply String.eqb_eq in H1. apply IH in H2. congruence.
  - inversion H; subst. rewrite String.eqb_refl. simpl. now apply IH.
Qed.
Lemma path_eqb_refl : forall a, path_eqb a a = true.
Proof. intros a. now apply path_eqb_eq. Qed.
Lemma path_eqb_neq : forall a b, path_eqb a b = false <-> a <> b.
Proof.
  intros a b. split.
  - intros H E. apply path_eqb_eq in E. congruence.
  - intros H. destruct (path_eqb a b) eqn:E; [apply path_eqb_eq in E; congruence|reflexivity].
Qed.
Lemma zs_eqb_eq : forall a b, zs_eqb a b = true <-> a = b.
Proof.
  induction a as [|x a IH]; destruct b as [|y b]; simpl; split; intros H; try congruence; try reflexivity.
  - apply andb_true_iff in H as [H1 H2]. apply Z.eqb_eq in H1. apply IH in H2. congruence.
  - inversion H; subst. rewrite Z.eqb_refl. simpl. now apply IH.
Qed.
Lemma zs_eqb_refl : forall a, zs_eqb a a = true.
Proof. intros a. now apply zs_eqb_eq. Qed.
Lemma istep_eqb_eq : forall a b, istep_eqb a b = true <-> a = b.
Proof.
  intros [a1 a2] [b1 b2]. unfold istep_eqb. simpl. rewrite andb_true_iff, path_eqb_eq, zs_eqb_eq.
  split; [intros [-> ->]; reflexivity|intros H; inversion H; auto].
Qed.
Lemma isteps_eqb_eq : forall a b, isteps_eqb a b = true <-> a = b.
Proof.
  induction a as [|x a IH]; destruct b as [|y b]; simpl; split; intros H; try congruence; try reflexivity.
  - apply andb_true_iff in H as [H1 H2]. apply istep_eqb_eq in H1. apply IH in H2. congruence.
  - inversion H; subst. apply andb_true_iff. split; [now apply istep_eqb_eq|now apply IH].
Qed.
Lemma ikey_eqb_eq : forall a b, ikey_eqb a b = true <-> a = b.
Proof.
  intros [a1 a2] [b1 b2]. unfold ikey_eqb. simpl. rewrite andb_true_iff, path_eqb_eq, isteps_eqb_eq.
  split; [intros [-> ->]; reflexivity|intros H; inversion H; auto].
Qed.
Lemma ikey_eqb_refl : forall a, ikey_eqb a a = true.
Proof. intros a. now apply ikey_eqb_eq. Qed.

Lemma isteps_prefix_spec : forall a b, isteps_prefix a b = true <-> exists t, b = a ++ t.
Proof.
  induction a as [|x a IH]; intros b; simpl.
  - split; [intros _; now exists b|reflexivity].
  - destruct b as [|y b].
    + split; [discriminate|intros [t H]; discriminate].
    + rewrite andb_true_iff, istep_eqb_eq, IH. split.
      * intros [-> [t ->]]. now exists t.
      * intros [t H]. inversion H; subst. split; [reflexivity|now exists t].
Qed.
Lemma ikey_prefix_spec : forall a b, ikey_prefix a b = true <-> fst a = fst b /\ exists t, snd b = snd a ++ t.
Proof.
  intros a b. unfold ikey_prefix. now rewrite andb_true_iff, path_eqb_eq, isteps_prefix_spec.
Qed.
Lemma ikey_prefix_refl : forall a, ikey_prefix a a = true.
Proof. intros a. apply ikey_prefix_spec. split; [reflexivity|exists []; now rewrite app_nil_r]. Qed.
Lemma ikey_prefix_trans : forall a b c, ikey_prefix a b = true -> ikey_prefix b c = true -> ikey_prefix a c = true.
Proof.
  intros a b c H1 H2. apply ikey_prefix_spec in H1 as [E1 [t1 H1]]. apply ikey_prefix_spec in H2 as [E2 [t2 H2]].
  apply ikey_prefix_spec. split; [congruence|]. exists (t1 ++ t2). rewrite H2, H1. now rewrite app_assoc.
Qed.

(** ** prefixes of paths *)
Lemma strip_prefix_spec : forall b p r, strip_prefix b p = Some r <-> p = b ++ r.
Proof.
  induction b as [|x b IH]; intros p r; simpl.
  - split; [intros H; now inversion H|intros ->; reflexivity].
  - destruct p as [|y p].
    + split; [discriminate|discriminate].
    + destruct (String.eqb x y) eqn:E.
      * apply String.eqb_eq in E; subst. rewrite IH. split; [intros ->; reflexivity|intros H; now inversion H].
      * apply String.eqb_neq in E. split; [discriminate|intros H; inversion H; congruence].
Qed.
Lemma strip_prefix_app : forall b r, strip_prefix b (b ++ r) = Some r.
Proof. intros b r. now apply strip_prefix_spec. Qed.
Lemma is_prefix_spec : forall b p, is_prefix b p = true <-> exists r, p = b ++ r.
Proof.
  intros b p. unfold is_prefix. destruct (strip_prefix b p) as [r|] eqn:E.
  - apply strip_prefix_spec in E. split; [intros _; now exists r|reflexivity].
  - split; [discriminate|]. intros [r H]. apply strip_prefix_spec in H. congruence.
Qed.
Lemma is_prefix_refl : forall p, is_prefix p p = true.
Proof. intros p. apply is_prefix_spec. exists []. now rewrite app_nil_r. Qed.

(** ** definitions *)
Lemma dlookup_dupdate : forall p f d q,
  dlookup q (dupdate p f d) = if path_eqb q p then option_map f (dlookup q d) else dlookup q d.
Proof.
  intros p f d q. induction d as [|[q' n] t IH]; simpl.
  - now destruct (path_eqb q p).
  - destruct (path_eqb q q') eqn:E.
    + apply path_eqb_eq in E; subst q'. destruct (path_eqb q p) eqn:E2.
      * apply path_eqb_eq in E2; subst. now rewrite path_eqb_refl.
      * assert (path_eqb p q = false) as ->; [|reflexivity].
        apply path_eqb_neq. apply path_eqb_neq in E2. congruence.
    + exact IH.
Qed.
Lemma dmem_dupdate : forall p f d q, dmem q (dupdate p f d) = dmem q d.
Proof.
  intros. unfold dmem. rewrite dlookup_dupdate. destruct (path_eqb q p); [|reflexivity].
  now destruct (dlookup q d).
Qed.
Lemma dupdate_absent : forall p f d, dmem p d = false -> dupdate p f d = d.
Proof.
  intros p f d. unfold dmem. induction d as [|[q n] t IH]; simpl; [reflexivity|].
  destruct (path_eqb p q); [discriminate|]. intros H. now rewrite IH.
Qed.
Lemma dlookup_subtree : forall b d cp, dlookup cp (subtree b d) = dlookup (b ++ cp) d.
Proof.
  intros b d cp. induction d as [|[q n] t IH]; simpl; [reflexivity|].
  destruct (strip_prefix b q) as [r|] eqn:E.
  - apply strip_prefix_spec in E; subst q. simpl.
    destruct (path_eqb cp r) eqn:E2.
    + apply path_eqb_eq in E2; subst. now rewrite path_eqb_refl.
    + assert (path_eqb (b ++ cp) (b ++ r) = false) as ->; [|exact IH].
      apply path_eqb_neq. apply path_eqb_neq in E2. intros H. apply app_inv_head in H. congruence.
  - assert (path_eqb (b ++ cp) q = false) as ->; [|exact IH].
    apply path_eqb_neq. intros <-. now rewrite strip_prefix_app in E.
Qed.
Lemma dmem_subtree : forall b d cp, dmem cp (subtree b d) = dmem (b ++ cp) d.
Proof. intros. unfold dmem. now rewrite dlookup_subtree. Qed.
Lemma subtree_dupdate_out : forall b p f d, strip_prefix b p = None -> subtree b (dupdate p f d) = subtree b d.
Proof.
  intros b p f d H. induction d as [|[q n] t IH]; simpl; [reflexivity|].
  destruct (strip_prefix b q) as [r|] eqn:E; [|exact IH].
  assert (path_eqb p q = false) as ->; [|now rewrite IH].
  apply path_eqb_neq. intros ->. congruence.
Qed.
Lemma subtree_dupdate_in : forall b p f d cp, strip_prefix b p = Some cp ->
  subtree b (dupdate p f d) = dupdate cp f (subtree b d).
Proof.
  intros b p f d cp H. apply strip_prefix_spec in H. subst p.
  induction d as [|[q n] t IH]; simpl; [reflexivity|].
  destruct (strip_prefix b q) as [r|] eqn:E; [|exact IH].
  apply strip_prefix_spec in E. subst q. simpl. rewrite IH. f_equal. f_equal.
  destruct (path_eqb cp r) eqn:E2.
  - apply path_eqb_eq in E2; subst. now rewrite path_eqb_refl.
  - assert (path_eqb (b ++ cp) (b ++ r) = false) as ->; [|reflexivity].
    apply path_eqb_neq. apply path_eqb_neq in E2. intros H. apply app_inv_head in H. congruence.
Qed.
Lemma subtree_app : forall b d e, subtree b (d ++ e) = subtree b d ++ subtree b e.
Proof.
  intros b d e. induction d as [|[q n] t IH]; simpl; [reflexivity|].
  destruct (strip_prefix b q); [simpl; now rewrite IH|exact IH].
Qed.
Lemma dlookup_app : forall p d e,
  dlookup p (d ++ e) = match dlookup p d with Some n => Some n | None => dlookup p e end.
Proof.
  intros p d e. induction d as [|[q n] t IH]; simpl; [reflexivity|]. now destruct (path_eqb p q).
Qed.
Lemma dlookup_ddelete : forall q d p, is_prefix q p = false -> dlookup p (ddelete q d) = dlookup p d.
Proof.
  intros q d p H. unfold ddelete. induction d as [|[q' n] t IH]; simpl; [reflexivity|].
  destruct (is_prefix q q') eqn:E; simpl.
  - assert (path_eqb p q' = false) as ->; [|exact IH].
    apply path_eqb_neq. intros ->. congruence.
  - now rewrite IH.
Qed.
Lemma subtree_ddelete : forall q b d,
  existsb (fun e => is_prefix q (b ++ fst e)) (subtree b d) = false ->
  subtree b (ddelete q d) = subtree b d.
Proof.
  intros q b d. unfold ddelete. induction d as [|[q' n] t IH]; simpl; [reflexivity|].
  destruct (strip_prefix b q') as [r|] eqn:E.
  - apply strip_prefix_spec in E. subst q'. simpl. intros H. apply orb_false_iff in H as [H1 H2].
    rewrite H1. simpl. rewrite strip_prefix_app. rewrite IH by exact H2. reflexivity.
  - intros H. destruct (is_prefix q q'); simpl; [now apply IH|]. rewrite E. now apply IH.
Qed.

Definition params_at (d : defs) (q : path) : option pform :=
  match dlookup q d with Some n => sn_params n | None => None end.
Lemma params_at_subtree : forall b d cp, params_at (subtree b d) cp = params_at d (b ++ cp).
Proof. intros. unfold params_at. now rewrite dlookup_subtree. Qed.
Lemma params_at_dupdate_pres : forall p f d q, (forall n, sn_params (f n) = sn_params n) ->
  params_at (dupdate p f d) q = params_at d q.
Proof.
  intros p f d q H. unfold params_at. rewrite dlookup_dupdate. destruct (path_eqb q p); [|reflexivity].
  destruct (dlookup q d); simpl; [apply H|reflexivity].
Qed.
Lemma params_at_dupdate_other : forall p f d q, q <> p -> params_at (dupdate p f d) q = params_at d q.
Proof.
  intros p f d q H. unfold params_at. rewrite dlookup_dupdate.
  apply path_eqb_neq in H. now rewrite H.
Qed.

(** ** bind *)
Lemma bind_pos_full : forall s t, List.length t = List.length s -> bind_pos s t = Some (t, []).
Proof.
  induction s as [|x s IH]; destruct t as [|v t]; simpl; intros H; try discriminate; [reflexivity|].
  rewrite IH by lia. reflexivity.
Qed.
Lemma bind_pos_length : forall s pos b rest, bind_pos s pos = Some (b, rest) ->
  b = pos /\ List.length s = (List.length pos + List.length rest)%nat.
Proof.
  intros s pos. revert s. induction pos as [|v pos IH]; intros s b rest H; simpl in H.
  - inversion H; subst. simpl. auto.
  - destruct s as [|x s]; [discriminate|].
    destruct (bind_pos s pos) as [[b' rest']|] eqn:E; [|discriminate].
    inversion H; subst. apply IH in E as [-> E]. simpl. split; [reflexivity|lia].
Qed.
Lemma bind_rest_length : forall rest kw l, bind_rest rest kw = Some l -> List.length l = List.length rest.
Proof.
  induction rest as [|[x d] rest IH]; intros kw l H; simpl in H.
  - inversion H. reflexivity.
  - destruct (match alookup x kw with Some v => Some v | None => d end); [|discriminate].
    destruct (bind_rest rest kw) eqn:E; [|discriminate]. inversion H; subst. simpl. f_equal. now apply IH with kw.
Qed.
Lemma bind_length : forall s pos kw t, bind s pos kw = Some t -> List.length t = List.length s.
Proof.
  intros s pos kw t H. unfold bind in H.
  destruct (bind_pos s pos) as [[b rest]|] eqn:E; [|discriminate].
  destruct (forallb _ kw); [|discriminate].
  destruct (bind_rest rest kw) eqn:E2; [|discriminate]. inversion H; subst.
  apply bind_pos_length in E as [-> E]. apply bind_rest_length in E2. rewrite app_length. lia.
Qed.
(** the bound tuple is the canonical spelling of itself *)
Lemma bind_canonical : forall s pos kw t, bind s pos kw = Some t -> bind s t [] = Some t.
Proof.
  intros s pos kw t H. apply bind_length in H. unfold bind. rewrite bind_pos_full by exact H.
  simpl. now rewrite app_nil_r.
Qed.
