(** Dyn — evaluation inside an instance: the memoising evaluator [ev] refines
    the specification [sp] (values and failures), whatever the cache holds as
    long as every entry is a specification value. *)
From Coq Require Import List String Ascii ZArith NArith Bool Arith Lia.
From MX Require Import Dyn.Model Dyn.ProofsBase.
Import ListNotations.
Open Scope list_scope.

(** ** fuel monotonicity of the specification *)
Definition mono_e (f : nat) : Prop :=
  forall E cp locs e r, sp f E cp locs e = r -> r <> OutOfFuel -> forall f', f <= f' -> sp f' E cp locs e = r.
Definition mono_a (f : nat) : Prop :=
  forall E cp locs es r, sp_args f E cp locs es = r -> r <> OutOfFuel -> forall f', f <= f' -> sp_args f' E cp locs es = r.
Definition mono_c (f : nat) : Prop :=
  forall E cp c vs r, sp_call f E cp c vs = r -> r <> OutOfFuel -> forall f', f <= f' -> sp_call f' E cp c vs = r.

Ltac fuel_step f' :=
  match goal with
  | H : S _ <= f' |- _ => destruct f' as [|f']; [lia|]; apply le_S_n in H
  end.

Lemma sp_mono_all : forall f, mono_e f /\ mono_a f /\ mono_c f.
Proof.
  induction f as [|f (IHe & IHa & IHc)].
  - repeat split; intros until r; simpl; intros <- Hr; congruence.
  - repeat split.
    + intros E cp locs e r H Hr f' Hle. fuel_step f'.
      destruct e; simpl in *; try assumption.
      * (* EBin *)
        destruct (sp f E cp locs e1) as [va| |] eqn:E1.
        -- rewrite (IHe _ _ _ _ _ E1 ltac:(discriminate) f' Hle).
           destruct (sp f E cp locs e2) as [vb| |] eqn:E2.
           ++ now rewrite (IHe _ _ _ _ _ E2 ltac:(discriminate) f' Hle).
           ++ now rewrite (IHe _ _ _ _ _ E2 ltac:(discriminate) f' Hle).
           ++ congruence.
        -- now rewrite (IHe _ _ _ _ _ E1 ltac:(discriminate) f' Hle).
        -- congruence.
      * (* EIfPos *)
        destruct (sp f E cp locs e1) as [vc| |] eqn:E1.
        -- rewrite (IHe _ _ _ _ _ E1 ltac:(discriminate) f' Hle).
           destruct (0 <? vc)%Z; eapply IHe; eauto.
        -- now rewrite (IHe _ _ _ _ _ E1 ltac:(discriminate) f' Hle).
        -- congruence.
      * (* ECall *)
        destruct (sp_args f E cp locs args) as [vs| |] eqn:E1.
        -- rewrite (IHa _ _ _ _ _ E1 ltac:(discriminate) f' Hle).
           destruct (amem c locs); [assumption|]. eapply IHc; eauto.
        -- now rewrite (IHa _ _ _ _ _ E1 ltac:(discriminate) f' Hle).
        -- simpl in H. congruence.
      * (* EChild *)
        destruct (sp_args f E cp locs args) as [vs| |] eqn:E1.
        -- rewrite (IHa _ _ _ _ _ E1 ltac:(discriminate) f' Hle).
           destruct (child_ok E cp locs X); [|assumption]. eapply IHc; eauto.
        -- now rewrite (IHa _ _ _ _ _ E1 ltac:(discriminate) f' Hle).
        -- simpl in H. congruence.
    + intros E cp locs es r H Hr f' Hle. fuel_step f'.
      destruct es as [|e rest]; simpl in *; [assumption|].
      destruct (sp f E cp locs e) as [v| |] eqn:E1.
      * rewrite (IHe _ _ _ _ _ E1 ltac:(discriminate) f' Hle).
        destruct (sp_args f E cp locs rest) as [vs| |] eqn:E2.
        -- now rewrite (IHa _ _ _ _ _ E2 ltac:(discriminate) f' Hle).
        -- now rewrite (IHa _ _ _ _ _ E2 ltac:(discriminate) f' Hle).
        -- congruence.
      * now rewrite (IHe _ _ _ _ _ E1 ltac:(discriminate) f' Hle).
      * simpl in H. congruence.
    + intros E cp c vs r H Hr f' Hle. fuel_step f'. simpl in *.
      destruct (dlookup cp (ec_snap E)) as [n|]; [|assumption].
      destruct (alookup c (sn_cells n)) as [d|]; [|assumption].
      destruct (negb (Nat.eqb (List.length (cd_params d)) (List.length vs))); [assumption|].
      eapply IHe; eauto.
Qed.

Lemma sp_mono : forall f E cp locs e r, sp f E cp locs e = r -> r <> OutOfFuel ->
  forall f', f <= f' -> sp f' E cp locs e = r.
Proof. intros f. apply (sp_mono_all f). Qed.
Lemma sp_args_mono : forall f E cp locs es r, sp_args f E cp locs es = r -> r <> OutOfFuel ->
  forall f', f <= f' -> sp_args f' E cp locs es = r.
Proof. intros f. apply (sp_mono_all f). Qed.
Lemma sp_call_mono : forall f E cp c vs r, sp_call f E cp c vs = r -> r <> OutOfFuel ->
  forall f', f <= f' -> sp_call f' E cp c vs = r.
Proof. intros f. apply (sp_mono_all f). Qed.

(** results at two fuels agree unless one ran out *)
Lemma sp_call_det : forall f1 f2 E cp c vs r1 r2,
  sp_call f1 E cp c vs = r1 -> sp_call f2 E cp c vs = r2 -> r1 <> OutOfFuel -> r2 <> OutOfFuel -> r1 = r2.
Proof.
  intros f1 f2 E cp c vs r1 r2 H1 H2 N1 N2.
  pose proof (sp_call_mono _ _ _ _ _ _ H1 N1 (max f1 f2) (Nat.le_max_l _ _)) as A.
  pose proof (sp_call_mono _ _ _ _ _ _ H2 N2 (max f1 f2) (Nat.le_max_r _ _)) as B. congruence.
Qed.

(** ** the cache *)
Definition cache_ok (E : ectx) (ca : cache) : Prop :=
  forall cp c vs v, clookup (cp, c, vs) ca = Some v -> exists f, sp_call f E cp c vs = Ok v.

Lemma cache_ok_nil : forall E, cache_ok E [].
Proof. intros E cp c vs v H. discriminate. Qed.

Lemma clookup_cons : forall cp c vs cp' c' vs' v ca,
  clookup (cp, c, vs) (((cp', c', vs'), v) :: ca) =
  if path_eqb cp cp' && String.eqb c c' && zs_eqb vs vs' then Some v else clookup (cp, c, vs) ca.
Proof. reflexivity. Qed.

Lemma cache_ok_cons : forall E ca cp c vs v f,
  cache_ok E ca -> sp_call f E cp c vs = Ok v -> cache_ok E (((cp, c, vs), v) :: ca).
Proof.
  intros E ca cp c vs v f Hok Hsp cp' c' vs' v' H. rewrite clookup_cons in H.
  destruct (path_eqb cp' cp && String.eqb c' c && zs_eqb vs' vs) eqn:Eq.
  - apply andb_true_iff in Eq as [Eq E3]. apply andb_true_iff in Eq as [E1 E2].
    apply path_eqb_eq in E1. apply String.eqb_eq in E2. apply zs_eqb_eq in E3. subst.
    inversion H; subst. now exists f.
  - now apply Hok.
Qed.

(** ** soundness of the memoising evaluator *)
Definition sound_e (f : nat) : Prop :=
  forall E cp locs ca e r ca', cache_ok E ca -> ev f E cp locs ca e = (r, ca') ->
  cache_ok E ca' /\ (r <> OutOfFuel -> exists f', sp f' E cp locs e = r).
Definition sound_a (f : nat) : Prop :=
  forall E cp locs ca es r ca', cache_ok E ca -> ev_args f E cp locs ca es = (r, ca') ->
  cache_ok E ca' /\ (r <> OutOfFuel -> exists f', sp_args f' E cp locs es = r).
Definition sound_c (f : nat) : Prop :=
  forall E cp c vs ca r ca', cache_ok E ca -> ev_call f E cp c vs ca = (r, ca') ->
  cache_ok E ca' /\ (r <> OutOfFuel -> exists f', sp_call f' E cp c vs = r).

Ltac cok IH := (eapply proj1; eapply IH; [|eassumption]; eassumption).

Lemma ev_sound_all : forall f, sound_e f /\ sound_a f /\ sound_c f.
Proof.
  induction f as [|f (IHe & IHa & IHc)].
  - repeat split; simpl in *; try (inversion H0; subst; assumption);
      intros; inversion H0; subst; congruence.
  - repeat split.
    + (* expressions: cache *)
      destruct e; simpl in H0.
      * inversion H0; subst; assumption.
      * inversion H0; subst; assumption.
      * destruct (ev f E cp locs ca e1) as [[va| |] c1] eqn:E1; try (inversion H0; subst; cok IHe).
        destruct (IHe _ _ _ _ _ _ _ H E1) as [Hc1 _].
        destruct (ev f E cp locs c1 e2) as [[vb| |] c2] eqn:E2; inversion H0; subst; cok IHe.
      * destruct (ev f E cp locs ca e1) as [[vc| |] c1] eqn:E1; try (inversion H0; subst; cok IHe).
        destruct (IHe _ _ _ _ _ _ _ H E1) as [Hc1 _].
        destruct (0 <? vc)%Z; cok IHe.
      * destruct (ev_args f E cp locs ca args) as [[vs| |] c1] eqn:E1; try (inversion H0; subst; cok IHa).
        destruct (IHa _ _ _ _ _ _ _ H E1) as [Hc1 _].
        destruct (amem c locs); [inversion H0; subst; assumption|]. cok IHc.
      * destruct (ev_args f E cp locs ca args) as [[vs| |] c1] eqn:E1; try (inversion H0; subst; cok IHa).
        destruct (IHa _ _ _ _ _ _ _ H E1) as [Hc1 _].
        destruct (child_ok E cp locs X); [|inversion H0; subst; assumption]. cok IHc.
    + (* expressions: value *)
      intros Hr. destruct e; simpl in H0.
      * inversion H0; subst. now exists 1.
      * inversion H0; subst. now exists 1.
      * destruct (ev f E cp locs ca e1) as [[va| |] c1] eqn:E1.
        -- destruct (IHe _ _ _ _ _ _ _ H E1) as [Hc1 Hv1]. destruct (Hv1 ltac:(discriminate)) as [f1 S1].
           destruct (ev f E cp locs c1 e2) as [[vb| |] c2] eqn:E2.
           ++ destruct (IHe _ _ _ _ _ _ _ Hc1 E2) as [_ Hv2]. destruct (Hv2 ltac:(discriminate)) as [f2 S2].
              inversion H0; subst. exists (S (max f1 f2)). simpl.
              rewrite (sp_mono _ _ _ _ _ _ S1 ltac:(discriminate) _ (Nat.le_max_l _ _)).
              now rewrite (sp_mono _ _ _ _ _ _ S2 ltac:(discriminate) _ (Nat.le_max_r _ _)).
           ++ destruct (IHe _ _ _ _ _ _ _ Hc1 E2) as [_ Hv2]. destruct (Hv2 ltac:(discriminate)) as [f2 S2].
              inversion H0; subst. exists (S (max f1 f2)). simpl.
              rewrite (sp_mono _ _ _ _ _ _ S1 ltac:(discriminate) _ (Nat.le_max_l _ _)).
              now rewrite (sp_mono _ _ _ _ _ _ S2 ltac:(discriminate) _ (Nat.le_max_r _ _)).
           ++ inversion H0; subst. congruence.
        -- destruct (IHe _ _ _ _ _ _ _ H E1) as [_ Hv1]. destruct (Hv1 ltac:(discriminate)) as [f1 S1].
           inversion H0; subst. exists (S f1). simpl. now rewrite S1.
        -- inversion H0; subst. congruence.
      * destruct (ev f E cp locs ca e1) as [[vc| |] c1] eqn:E1.
        -- destruct (IHe _ _ _ _ _ _ _ H E1) as [Hc1 Hv1]. destruct (Hv1 ltac:(discriminate)) as [f1 S1].
           destruct (0 <? vc)%Z eqn:Epos.
           ++ destruct (IHe _ _ _ _ _ _ _ Hc1 H0) as [_ Hv2]. destruct (Hv2 Hr) as [f2 S2].
              exists (S (max f1 f2)). simpl.
              rewrite (sp_mono _ _ _ _ _ _ S1 ltac:(discriminate) _ (Nat.le_max_l _ _)). rewrite Epos.
              exact (sp_mono _ _ _ _ _ _ S2 Hr _ (Nat.le_max_r _ _)).
           ++ destruct (IHe _ _ _ _ _ _ _ Hc1 H0) as [_ Hv2]. destruct (Hv2 Hr) as [f2 S2].
              exists (S (max f1 f2)). simpl.
              rewrite (sp_mono _ _ _ _ _ _ S1 ltac:(discriminate) _ (Nat.le_max_l _ _)). rewrite Epos.
              exact (sp_mono _ _ _ _ _ _ S2 Hr _ (Nat.le_max_r _ _)).
        -- destruct (IHe _ _ _ _ _ _ _ H E1) as [_ Hv1]. destruct (Hv1 ltac:(discriminate)) as [f1 S1].
           inversion H0; subst. exists (S f1). simpl. now rewrite S1.
        -- inversion H0; subst. congruence.
      * destruct (ev_args f E cp locs ca args) as [[vs| |] c1] eqn:E1.
        -- destruct (IHa _ _ _ _ _ _ _ H E1) as [Hc1 Hv1]. destruct (Hv1 ltac:(discriminate)) as [f1 S1].
           destruct (amem c locs) eqn:Em.
           ++ inversion H0; subst. exists (S f1). simpl. now rewrite S1, Em.
           ++ destruct (IHc _ _ _ _ _ _ _ Hc1 H0) as [_ Hv2]. destruct (Hv2 Hr) as [f2 S2].
              exists (S (max f1 f2)). simpl.
              rewrite (sp_args_mono _ _ _ _ _ _ S1 ltac:(discriminate) _ (Nat.le_max_l _ _)). rewrite Em.
              exact (sp_call_mono _ _ _ _ _ _ S2 Hr _ (Nat.le_max_r _ _)).
        -- destruct (IHa _ _ _ _ _ _ _ H E1) as [_ Hv1]. destruct (Hv1 ltac:(discriminate)) as [f1 S1].
           inversion H0; subst. exists (S f1). simpl. now rewrite S1.
        -- inversion H0; subst. simpl in Hr. congruence.
      * destruct (ev_args f E cp locs ca args) as [[vs| |] c1] eqn:E1.
        -- destruct (IHa _ _ _ _ _ _ _ H E1) as [Hc1 Hv1]. destruct (Hv1 ltac:(discriminate)) as [f1 S1].
           destruct (child_ok E cp locs X) eqn:Em.
           ++ destruct (IHc _ _ _ _ _ _ _ Hc1 H0) as [_ Hv2]. destruct (Hv2 Hr) as [f2 S2].
              exists (S (max f1 f2)). simpl.
              rewrite (sp_args_mono _ _ _ _ _ _ S1 ltac:(discriminate) _ (Nat.le_max_l _ _)). rewrite Em.
              exact (sp_call_mono _ _ _ _ _ _ S2 Hr _ (Nat.le_max_r _ _)).
           ++ inversion H0; subst. exists (S f1). simpl. now rewrite S1, Em.
        -- destruct (IHa _ _ _ _ _ _ _ H E1) as [_ Hv1]. destruct (Hv1 ltac:(discriminate)) as [f1 S1].
           inversion H0; subst. exists (S f1). simpl. now rewrite S1.
        -- inversion H0; subst. simpl in Hr. congruence.
    + (* argument lists: cache *)
      destruct es as [|e rest]; simpl in H0; [inversion H0; subst; assumption|].
      destruct (ev f E cp locs ca e) as [[v| |] c1] eqn:E1; try (inversion H0; subst; cok IHe).
      destruct (IHe _ _ _ _ _ _ _ H E1) as [Hc1 _].
      destruct (ev_args f E cp locs c1 rest) as [[vs| |] c2] eqn:E2; inversion H0; subst; cok IHa.
    + (* argument lists: value *)
      intros Hr. destruct es as [|e rest]; simpl in H0; [inversion H0; subst; now exists 1|].
      destruct (ev f E cp locs ca e) as [[v| |] c1] eqn:E1.
      * destruct (IHe _ _ _ _ _ _ _ H E1) as [Hc1 Hv1]. destruct (Hv1 ltac:(discriminate)) as [f1 S1].
        destruct (ev_args f E cp locs c1 rest) as [[vs| |] c2] eqn:E2.
        -- destruct (IHa _ _ _ _ _ _ _ Hc1 E2) as [_ Hv2]. destruct (Hv2 ltac:(discriminate)) as [f2 S2].
           inversion H0; subst. exists (S (max f1 f2)). simpl.
           rewrite (sp_mono _ _ _ _ _ _ S1 ltac:(discriminate) _ (Nat.le_max_l _ _)).
           now rewrite (sp_args_mono _ _ _ _ _ _ S2 ltac:(discriminate) _ (Nat.le_max_r _ _)).
        -- destruct (IHa _ _ _ _ _ _ _ Hc1 E2) as [_ Hv2]. destruct (Hv2 ltac:(discriminate)) as [f2 S2].
           inversion H0; subst. exists (S (max f1 f2)). simpl.
           rewrite (sp_mono _ _ _ _ _ _ S1 ltac:(discriminate) _ (Nat.le_max_l _ _)).
           now rewrite (sp_args_mono _ _ _ _ _ _ S2 ltac:(discriminate) _ (Nat.le_max_r _ _)).
        -- inversion H0; subst. congruence.
      * destruct (IHe _ _ _ _ _ _ _ H E1) as [_ Hv1]. destruct (Hv1 ltac:(discriminate)) as [f1 S1].
        inversion H0; subst. exists (S f1). simpl. now rewrite S1.
      * inversion H0; subst. simpl in Hr. congruence.
    + (* calls: cache *)
      simpl in H0.
      destruct (dlookup cp (ec_snap E)) as [n|] eqn:En; [|inversion H0; subst; assumption].
      destruct (alookup c (sn_cells n)) as [d|] eqn:Ec; [|inversion H0; subst; assumption].
      destruct (negb (Nat.eqb (List.length (cd_params d)) (List.length vs))) eqn:Ear; [inversion H0; subst; assumption|].
      destruct (clookup (cp, c, vs) ca) as [v|] eqn:Eh; [inversion H0; subst; assumption|].
      destruct (ev f E cp (combine (cd_params d) vs) ca (cd_body d)) as [[v| |] c1] eqn:E1;
        try (inversion H0; subst; cok IHe).
      destruct (IHe _ _ _ _ _ _ _ H E1) as [Hc1 Hv1]. destruct (Hv1 ltac:(discriminate)) as [f1 S1].
      inversion H0; subst. apply cache_ok_cons with (S f1); [assumption|].
      simpl. rewrite En, Ec, Ear. exact S1.
    + (* calls: value *)
      intros Hr. simpl in H0.
      destruct (dlookup cp (ec_snap E)) as [n|] eqn:En;
        [|inversion H0; subst; exists 1; simpl; now rewrite En].
      destruct (alookup c (sn_cells n)) as [d|] eqn:Ec;
        [|inversion H0; subst; exists 1; simpl; now rewrite En, Ec].
      destruct (negb (Nat.eqb (List.length (cd_params d)) (List.length vs))) eqn:Ear;
        [inversion H0; subst; exists 1; simpl; now rewrite En, Ec, Ear|].
      destruct (clookup (cp, c, vs) ca) as [v|] eqn:Eh.
      * inversion H0; subst. exact (H _ _ _ _ Eh).
      * destruct (ev f E cp (combine (cd_params d) vs) ca (cd_body d)) as [[v| |] c1] eqn:E1.
        -- destruct (IHe _ _ _ _ _ _ _ H E1) as [_ Hv1]. destruct (Hv1 ltac:(discriminate)) as [f1 S1].
           inversion H0; subst. exists (S f1). simpl. now rewrite En, Ec, Ear.
        -- destruct (IHe _ _ _ _ _ _ _ H E1) as [_ Hv1]. destruct (Hv1 ltac:(discriminate)) as [f1 S1].
           inversion H0; subst. exists (S f1). simpl. now rewrite En, Ec, Ear.
        -- inversion H0; subst. congruence.
Qed.

Lemma ev_call_sound : forall f E cp c vs ca r ca', cache_ok E ca -> ev_call f E cp c vs ca = (r, ca') ->
  cache_ok E ca' /\ (r <> OutOfFuel -> exists f', sp_call f' E cp c vs = r).
Proof. intros f. apply (ev_sound_all f). Qed.

(** ** completeness: with the fuel the specification needs, the memoising
    evaluator gives the same answer (a cache hit can only save fuel) *)
Definition compl_e (f : nat) : Prop :=
  forall E cp locs ca e r, cache_ok E ca -> sp f E cp locs e = r -> r <> OutOfFuel ->
  exists ca', ev f E cp locs ca e = (r, ca').
Definition compl_a (f : nat) : Prop :=
  forall E cp locs ca es r, cache_ok E ca -> sp_args f E cp locs es = r -> r <> OutOfFuel ->
  exists ca', ev_args f E cp locs ca es = (r, ca').
Definition compl_c (f : nat) : Prop :=
  forall E cp c vs ca r, cache_ok E ca -> sp_call f E cp c vs = r -> r <> OutOfFuel ->
  exists ca', ev_call f E cp c vs ca = (r, ca').

Lemma ev_sound_cache : forall f E cp locs ca e r ca', cache_ok E ca -> ev f E cp locs ca e = (r, ca') -> cache_ok E ca'.
Proof. intros f E cp locs ca e r ca' H H0. exact (proj1 (proj1 (ev_sound_all f) _ _ _ _ _ _ _ H H0)). Qed.
Lemma ev_args_sound_cache : forall f E cp locs ca es r ca', cache_ok E ca -> ev_args f E cp locs ca es = (r, ca') -> cache_ok E ca'.
Proof. intros f E cp locs ca es r ca' H H0. exact (proj1 (proj1 (proj2 (ev_sound_all f)) _ _ _ _ _ _ _ H H0)). Qed.

Lemma ev_complete_all : forall f, compl_e f /\ compl_a f /\ compl_c f.
Proof.
  induction f as [|f (IHe & IHa & IHc)].
  - repeat split; intros until r; simpl; intros _ <- Hr; congruence.
  - repeat split.
    + intros E cp locs ca e r Hok H Hr. destruct e; simpl in *.
      * subst. eauto.
      * subst. eauto.
      * destruct (sp f E cp locs e1) as [va| |] eqn:E1.
        -- destruct (IHe _ _ _ ca _ _ Hok E1 ltac:(discriminate)) as [c1 X1]. rewrite X1.
           pose proof (ev_sound_cache _ _ _ _ _ _ _ _ Hok X1) as Hc1.
           destruct (sp f E cp locs e2) as [vb| |] eqn:E2.
           ++ destruct (IHe _ _ _ c1 _ _ Hc1 E2 ltac:(discriminate)) as [c2 X2]. rewrite X2. subst. eauto.
           ++ destruct (IHe _ _ _ c1 _ _ Hc1 E2 ltac:(discriminate)) as [c2 X2]. rewrite X2. subst. eauto.
           ++ congruence.
        -- destruct (IHe _ _ _ ca _ _ Hok E1 ltac:(discriminate)) as [c1 X1]. rewrite X1. subst. eauto.
        -- congruence.
      * destruct (sp f E cp locs e1) as [vc| |] eqn:E1.
        -- destruct (IHe _ _ _ ca _ _ Hok E1 ltac:(discriminate)) as [c1 X1]. rewrite X1.
           pose proof (ev_sound_cache _ _ _ _ _ _ _ _ Hok X1) as Hc1.
           destruct (0 <? vc)%Z; eapply IHe; eauto.
        -- destruct (IHe _ _ _ ca _ _ Hok E1 ltac:(discriminate)) as [c1 X1]. rewrite X1. subst. eauto.
        -- congruence.
      * destruct (sp_args f E cp locs args) as [vs| |] eqn:E1.
        -- destruct (IHa _ _ _ ca _ _ Hok E1 ltac:(discriminate)) as [c1 X1]. rewrite X1.
           pose proof (ev_args_sound_cache _ _ _ _ _ _ _ _ Hok X1) as Hc1.
           destruct (amem c locs); [subst; eauto|]. eapply IHc; eauto.
        -- destruct (IHa _ _ _ ca _ _ Hok E1 ltac:(discriminate)) as [c1 X1]. rewrite X1. subst. simpl. eauto.
        -- simpl in H. congruence.
      * destruct (sp_args f E cp locs args) as [vs| |] eqn:E1.
        -- destruct (IHa _ _ _ ca _ _ Hok E1 ltac:(discriminate)) as [c1 X1]. rewrite X1.
           pose proof (ev_args_sound_cache _ _ _ _ _ _ _ _ Hok X1) as Hc1.
           destruct (child_ok E cp locs X); [|subst; eauto]. eapply IHc; eauto.
        -- destruct (IHa _ _ _ ca _ _ Hok E1 ltac:(discriminate)) as [c1 X1]. rewrite X1. subst. simpl. eauto.
        -- simpl in H. congruence.
    + intros E cp locs ca es r Hok H Hr. destruct es as [|e rest]; simpl in *; [subst; eauto|].
      destruct (sp f E cp locs e) as [v| |] eqn:E1.
      * destruct (IHe _ _ _ ca _ _ Hok E1 ltac:(discriminate)) as [c1 X1]. rewrite X1.
        pose proof (ev_sound_cache _ _ _ _ _ _ _ _ Hok X1) as Hc1.
        destruct (sp_args f E cp locs rest) as [vs| |] eqn:E2.
        -- destruct (IHa _ _ _ c1 _ _ Hc1 E2 ltac:(discriminate)) as [c2 X2]. rewrite X2. subst. eauto.
        -- destruct (IHa _ _ _ c1 _ _ Hc1 E2 ltac:(discriminate)) as [c2 X2]. rewrite X2. subst. eauto.
        -- congruence.
      * destruct (IHe _ _ _ ca _ _ Hok E1 ltac:(discriminate)) as [c1 X1]. rewrite X1. subst. simpl. eauto.
      * simpl in H. congruence.
    + intros E cp c vs ca r Hok H Hr. pose proof H as Hfull. simpl in H. simpl.
      destruct (dlookup cp (ec_snap E)) as [n|] eqn:En; [|subst; eauto].
      destruct (alookup c (sn_cells n)) as [d|] eqn:Ec; [|subst; eauto].
      destruct (negb (Nat.eqb (List.length (cd_params d)) (List.length vs))) eqn:Ear; [subst; eauto|].
      destruct (clookup (cp, c, vs) ca) as [v|] eqn:Eh.
      * destruct (Hok _ _ _ _ Eh) as [f0 H0].
        rewrite (sp_call_det _ _ _ _ _ _ _ _ Hfull H0 Hr ltac:(discriminate)). eauto.
      * destruct (IHe _ _ _ ca _ _ Hok H Hr) as [c1 X1]. rewrite X1. destruct r; eauto.
Qed.

Lemma ev_call_complete : forall f E cp c vs ca r, cache_ok E ca -> sp_call f E cp c vs = r -> r <> OutOfFuel ->
  exists ca', ev_call f E cp c vs ca = (r, ca').
Proof. intros f. apply (ev_complete_all f). Qed.
