(** Capture - the hypotheses of the C20 theorems are satisfiable on
    non-trivial texts; the model computes on them. *)
From Coq Require Import List String Ascii Bool Arith NArith.
From MX Require Import Show.Check Capture.Model Capture.Texts Capture.Tie.
Import ListNotations.
Open Scope string_scope.

(** an indented, decorated definition with leading / trailing comments, a
    white-space-only line and a docstring *)
Definition ex_def : ftext :=
  mk_ft "    " [(true, "# lead")] [(true, "@deco(1,"); (true, "   2)  # c")] [(false, "  ")]
        " " "foo" "(x, y=1):  # def g():"
        [(true, "    """"""doc"""""""); (false, "   "); (true, "    return (x +"); (true, "  y)"); (true, "    # last")]
        true.

Example ex_def_wf : wf_ftext ex_def = true.
Proof. reflexivity. Qed.

Example ex_def_normalize :
  string_of_list_ascii (normalize ex_def (Some (S "bar")))
  = jn ["# lead"; ""; "def bar(x, y=1):  # def g():"; "    """"""doc"""""""; ""; "    return (x +"; "  y)"; "    # last"; ""].
Proof. vm_compute. reflexivity. Qed.

Example ex_def_positions : deco_pos ex_def = Some (2, 3) /\ name_pos ex_def = (3, 4, 7).
Proof. split; reflexivity. Qed.

(** docstring view of the stored text of [ex_def] *)
Definition ex_doc : dtext :=
  mk_dt ["# lead"; ""; "def bar(x, y=1):  # def g():"] "    " false (Some """""""doc""""""")
        (jn [""; ""; "    return (x +"; "  y)"; "    # last"; ""]).

Example ex_doc_render : drender ex_doc = normalize ex_def (Some (S "bar")).
Proof. vm_compute. reflexivity. Qed.

Example ex_doc_wf : wf_dtextb ex_doc (S "bar") (3, 4, 7) = true.
Proof. vm_compute. reflexivity. Qed.

Example ex_doc_set :
  string_of_list_ascii (set_doc_src (drender ex_doc) (dpos_of ex_doc) (S "New ""doc"".") false (S "bar") (3, 4, 7))
  = jn ["# lead"; ""; "def bar(x, y=1):  # def g():"; "    """"""New ""doc""."""""""; ""; "    return (x +"; "  y)"; "    # last"; ""].
Proof. vm_compute. reflexivity. Qed.

Example ex_safe : safe_doc (S "New ""doc"".") = true /\ safe_doc (S "ends with """) = false
                  /\ safe_doc (S "a """""" b") = false /\ safe_doc (S "back\slash") = false.
Proof. repeat split; reflexivity. Qed.

(** one-line body without docstring: the ideal model inserts a separator (D30) *)
Definition ex_oneline : dtext := mk_dt [] "def f(x): " true None (jn ["return x"; ""]).
Example ex_oneline_set :
  string_of_list_ascii (replace_docstring (drender ex_oneline) (dpos_of ex_oneline) (S "doc") false)
  = jn ["def f(x): """"""doc""""""; return x"; ""].
Proof. vm_compute. reflexivity. Qed.

(** a lambda embedded in a call, indented, after a comment line *)
Definition ex_lam : ltext :=
  mk_lt "  " [(true, "# c"); (false, " ")] "foo = bar(" "lambda x, y=1: (x, y)" ", 3)  # c" true.
Example ex_lam_wf : wf_ltext ex_lam = true.
Proof. reflexivity. Qed.
Example ex_lam_norm : string_of_list_ascii (normalize_lambda ex_lam) = "lambda x, y=1: (x, y)".
Proof. vm_compute. reflexivity. Qed.

Example ex_defcells : defcells_existing (S "def k(x): return 1", true) (S "def k(x): return 2") (Some false)
                      = (S "def k(x): return 2", false).
Proof. reflexivity. Qed.
