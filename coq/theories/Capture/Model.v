(** Capture - formula capture of modelx: [core/formula.py:131-370]
    ([remove_decorator], [replace_funcname], [replace_docstring],
    [extract_lambda_from_source], [Formula._init_from_funcdef/_init_from_lambda])
    and [core/cells.py:68-96, 895-932] ([CellsMaker], [set_doc], [on_rename]).

    The code works on *text, lines and token positions*; so does the model.
    A text is a [list ascii] (bytes).  Token positions (rows, columns, offsets;
    in the code they come from asttokens/ast) are INPUTS of the functions.
    The second half of the file defines the structured texts the theorems
    quantify over ([ftext], [dtext], [ltext]), their rendering and the token
    positions they have by construction.

    Definitions only; proofs are in [Proofs*.v].  IDEAL model: it differs
    from the pinned tree at D30 (separator after an inserted one-line
    docstring), D32 ([splitlines] splits at "\n" only) and D10 (flag union). *)
From Coq Require Import List String Ascii Bool Arith NArith.
Import ListNotations.
Open Scope list_scope.

Definition str := list ascii.

Definition nl : ascii := "010"%char.
Definition sp : ascii := " "%char.
Definition tab : ascii := "009"%char.
Definition dq : ascii := """"%char.
Definition bsl : ascii := "\"%char.

(** [ \t] of textwrap's regular expressions *)
Definition is_ws (c : ascii) : bool := Ascii.eqb c sp || Ascii.eqb c tab.

(** characters removed by [str.strip()] (ASCII part): 9-13, 28-32 *)
Definition is_pyspace (c : ascii) : bool :=
  let n := N_of_ascii c in
  ((9 <=? n) && (n <=? 13))%N || ((28 <=? n) && (n <=? 32))%N.

Definition ws_only (l : str) : bool := forallb is_ws l.

Fixpoint str_eqb (a b : str) : bool :=
  match a, b with
  | [], [] => true
  | x :: a', y :: b' => Ascii.eqb x y && str_eqb a' b'
  | _, _ => false
  end.

(** ** lines *)

(** Python [s.split("\n")] - never empty *)
Fixpoint split_nl (s : str) : list str :=
  match s with
  | [] => [[]]
  | c :: s' =>
      if Ascii.eqb c nl then [] :: split_nl s'
      else match split_nl s' with
           | [] => [[c]]
           | h :: t => (c :: h) :: t
           end
  end.

(** ["\n".join(l)] *)
Fixpoint join_nl (l : list str) : str :=
  match l with
  | [] => []
  | [x] => x
  | x :: t => x ++ nl :: join_nl t
  end.

Definition is_nil {A} (l : list A) : bool := match l with [] => true | _ => false end.

(** [str.splitlines()] (ideal: "\n" is the only line boundary; the pinned
    tree also splits at CR VT FF FS GS RS NEL LS PS: D32) *)
Definition splitlines (s : str) : list str :=
  let l := split_nl s in
  if is_nil (last l [nl]) then removelast l else l.

(** ["\n".join(lines) + "\n"] *)
Definition join_lines (l : list str) : str := join_nl l ++ [nl].

(** ** textwrap.dedent *)

Fixpoint prefixb (p l : str) : bool :=
  match p, l with
  | [], _ => true
  | a :: p', b :: l' => Ascii.eqb a b && prefixb p' l'
  | _ :: _, [] => false
  end.

Fixpoint common_prefix (a b : str) : str :=
  match a, b with
  | x :: a', y :: b' => if Ascii.eqb x y then x :: common_prefix a' b' else []
  | _, _ => []
  end.

Fixpoint lead_ws (l : str) : str :=
  match l with
  | c :: t => if is_ws c then c :: lead_ws t else []
  | [] => []
  end.

(** [_whitespace_only_re.sub('', text)] on one line *)
Definition blank_line (l : str) : str := if ws_only l then [] else l.

(** one iteration of the [for indent in indents] loop; lines without a
    non-blank character are not found by [_leading_whitespace_re] *)
Definition margin_step (m : option str) (l : str) : option str :=
  if ws_only l then m
  else
    let i := lead_ws l in
    match m with
    | None => Some i
    | Some mg =>
        if prefixb mg i then Some mg
        else if prefixb i mg then Some i
        else Some (common_prefix mg i)
    end.

Definition margin (ls : list str) : option str := fold_left margin_step ls None.

(** [re.sub(r'(?m)^' + margin, '', text)] on one line *)
Definition strip_prefix (m l : str) : str :=
  if prefixb m l then skipn (List.length m) l else l.

Definition dedent (s : str) : str :=
  let ls := map blank_line (split_nl s) in
  match margin ls with
  | Some (c :: m) => join_nl (map (strip_prefix (c :: m)) ls)
  | _ => join_nl ls
  end.

(** ** formula.py:131-176 *)

(** [deco = Some (line_first, line_last)] (1-based rows of the "@" of the
    first decorator and of the token following the last decorator) *)
Definition remove_decorator (src : str) (deco : option (nat * nat)) : str :=
  let lines := splitlines src in
  join_lines
    match deco with
    | Some (lf, ll) => firstn (lf - 1) lines ++ skipn ll lines
    | None => lines
    end.

Fixpoint set_nth {A} (n : nat) (l : list A) (x : A) : list A :=
  match n, l with
  | O, _ :: t => x :: t
  | S k, h :: t => h :: set_nth k t x
  | _, [] => []
  end.

(** [lines[i][:cb] + name + lines[i][ce:]] *)
Definition splice (l : str) (cb ce : nat) (name : str) : str :=
  firstn cb l ++ name ++ skipn ce l.

(** position of the name token: (row (1-based), col_begin, col_end) *)
Definition replace_funcname (src : str) (npos : nat * nat * nat) (name : str) : str :=
  let '(row, cb, ce) := npos in
  let lines := splitlines src in
  join_lines (set_nth (row - 1) lines (splice (nth (row - 1) lines []) cb ce name)).

(** [Formula._init_from_funcdef]: [deco] are positions in [dedent src],
    [npos] the position of the name token after decorator removal *)
Definition init_from_funcdef (src : str) (name : option str)
           (deco : option (nat * nat)) (npos : nat * nat * nat) : str :=
  let s1 := remove_decorator (dedent src) deco in
  match name with
  | Some nm => replace_funcname s1 npos nm
  | None => s1
  end.

(** ** formula.py:248-281, 327-333 *)

(** [source[b:e]] *)
Definition slice (s : str) (b e : nat) : str := firstn (e - b) (skipn b s).

Definition extract_lambda_from_source (src : str) (b e : nat) : str := slice src b e.

(** source text given: offsets are in [dedent src] *)
Definition init_lambda_from_source (src : str) (b e : nat) : str :=
  extract_lambda_from_source (dedent src) b e.

(** function object given: offsets are in the text of the whole file *)
Definition init_lambda_from_func (file : str) (b e : nat) : str := slice file b e.

(** ** formula.py:179-231 *)

Definition tq : str := [dq; dq; dq].
Definition quote_doc (d : str) : str := tq ++ d ++ tq.

(** [textwrap.indent(l, prefix)] for a single line *)
Definition indent_line (prefix l : str) : str :=
  if forallb is_pyspace l then l else prefix ++ l.

Fixpoint indent_lines_from (i : nat) (all : bool) (prefix : str) (ls : list str) : list str :=
  match ls with
  | [] => []
  | l :: t =>
      (if Nat.eqb i 0 || all then indent_line prefix l else l)
        :: indent_lines_from (S i) all prefix t
  end.

(** the re-indented docstring text of the "compound statement" branches *)
Definition block_docstr (prefix d : str) (insert_indents : bool) : str :=
  join_nl (indent_lines_from 0 insert_indents prefix (splitlines (quote_doc d))).

(** what the code reads off the tokens:
    [prev_indent] = [Some s] iff the token before the first statement is an
    INDENT token with string [s]; [has_doc] = first statement is a string
    expression; [P] = startpos of that previous token; [S], [E] = startpos
    and endpos of the first token of the first statement *)
Record dpos := { dp_prev_indent : option str; dp_has_doc : bool;
                 dp_P : nat; dp_S : nat; dp_E : nat }.

(** separator inserted after a docstring put in front of a one-line body
    (the pinned tree inserts nothing: D30) *)
Definition oneline_sep : str := [";"%char; sp].

Definition replace_docstring (src : str) (p : dpos) (d : str) (insert_indents : bool) : str :=
  match dp_prev_indent p with
  | Some ind =>
      let ds := block_docstr ind d insert_indents in
      if dp_has_doc p
      then firstn (dp_P p) src ++ ds ++ skipn (dp_E p) src
      else firstn (dp_P p) src ++ ds ++ [nl] ++ skipn (dp_P p) src
  | None =>
      if dp_has_doc p
      then firstn (dp_S p) src ++ quote_doc d ++ skipn (dp_E p) src
      else firstn (dp_S p) src ++ quote_doc d ++ oneline_sep ++ skipn (dp_S p) src
  end.

(** [UserCellsImpl.set_doc] for a def formula: the edited text goes through
    [Formula(funcdef, name=self.name)] again ([npos]: name token in the edited text) *)
Definition set_doc_src (src : str) (p : dpos) (d : str) (insert_indents : bool)
           (name : str) (npos : nat * nat * nat) : str :=
  init_from_funcdef (replace_docstring src p d insert_indents) (Some name) None npos.

(** [UserCellsImpl.on_rename] for a def formula: [Formula(self.formula, name=name)] *)
Definition rename_src (src : str) (name : str) (npos : nat * nat * nat) : str :=
  init_from_funcdef src (Some name) None npos.

(** ** cells.py:77-96 [CellsMaker.create_or_change_cells] on an existing cells *)

Definition PROP_FORMULA : N := 1.
Definition PROP_CACHE : N := 2.
(** ideal: union of the two flags (the pinned tree has [&] = 0: D10) *)
Definition maker_flags : N := N.lor PROP_FORMULA PROP_CACHE.

(** state of a cells as far as the decorator is concerned: (source, is_cached) *)
Definition on_set_property (flags : N) (st : str * bool) (newsrc : str) (cache : bool) : str * bool :=
  (if N.testbit flags 0 then newsrc else fst st,
   if N.testbit flags 1 then cache else snd st).

Definition defcells_existing (st : str * bool) (newsrc : str) (is_cached : option bool) : str * bool :=
  match is_cached with
  | None => on_set_property PROP_FORMULA st newsrc true
  | Some b => on_set_property maker_flags st newsrc b
  end.

(** ** a reader for the docstring literal written by [replace_docstring]:
    the text following an opening triple quote up to the closing one;
    a backslash protects the next character (escapes are skipped, not
    interpreted); [None] when unterminated *)
Fixpoint lex_triple (esc : bool) (s : str) : option (str * str) :=
  match s with
  | [] => None
  | c :: t =>
      if esc then
        match lex_triple false t with Some (d, r) => Some (c :: d, r) | None => None end
      else if prefixb tq s then Some ([], skipn 3 s)
      else
        match lex_triple (Ascii.eqb c bsl) t with Some (d, r) => Some (c :: d, r) | None => None end
  end.

(** the documentation string read back from a text that starts with the literal *)
Definition read_doc (s : str) : option str :=
  if prefixb tq s then
    match lex_triple false (skipn 3 s) with Some (d, _) => Some d | None => None end
  else None.
