(** Capture - the structured texts the theorems quantify over, their
    rendering, and the token positions they have by construction (the harness
    compares these with the positions asttokens reports on the real text).
    Definitions only. *)
From Coq Require Import List String Ascii Bool Arith NArith.
From MX Require Import Capture.Model.
Import ListNotations.
Open Scope list_scope.

(** ** function definitions *)

(** a physical line of an indented block: blank (white space only, rendered
    as it is) or code (rendered after the common indentation) *)
Inductive sline := Blank (ws : str) | Code (s : str).

Definition rline (ind : str) (l : sline) : str :=
  match l with Blank ws => ws | Code s => ind ++ s end.

Definition def_kw : str := ["d"; "e"; "f"]%char.

Record ftext := {
  ft_ind : str;            (* common indentation of the definition *)
  ft_lead : list sline;    (* comment / blank lines before the first decorator *)
  ft_deco : list sline;    (* first "@" line .. last line of the last decorator *)
  ft_mid : list sline;     (* comment / blank lines between decorators and "def" *)
  ft_defws : str;          (* white space between "def" and the name *)
  ft_name : str;
  ft_sig : str;            (* rest of the "def" line: parameters, ":", one-line body, comment *)
  ft_rest : list sline;    (* all following lines: body, trailing comments *)
  ft_eofnl : bool          (* text ends with a line feed *)
}.

Definition def_line (t : ftext) : str := def_kw ++ ft_defws t ++ ft_name t ++ ft_sig t.

Definition ft_lines (t : ftext) : list sline :=
  ft_lead t ++ ft_deco t ++ ft_mid t ++ Code (def_line t) :: ft_rest t.

Definition render (t : ftext) : str :=
  join_nl (map (rline (ft_ind t)) (ft_lines t)) ++ (if ft_eofnl t then [nl] else []).

(** rows (1-based) of the "@" of the first decorator and of the last
    decorator line, in [dedent (render t)] *)
Definition deco_pos (t : ftext) : option (nat * nat) :=
  match ft_deco t with
  | [] => None
  | _ => Some (List.length (ft_lead t) + 1, List.length (ft_lead t) + List.length (ft_deco t))
  end.

(** position of the name token once the decorator lines are gone *)
Definition name_pos (t : ftext) : nat * nat * nat :=
  (List.length (ft_lead t) + List.length (ft_mid t) + 1,
   3 + List.length (ft_defws t),
   3 + List.length (ft_defws t) + List.length (ft_name t)).

Definition no_nl (s : str) : bool := forallb (fun c => negb (Ascii.eqb c nl)) s.

Definition wf_sline (l : sline) : bool :=
  match l with
  | Blank ws => ws_only ws
  | Code s => no_nl s && negb (ws_only s)
  end.

Definition is_code (l : sline) : bool := match l with Code _ => true | Blank _ => false end.

Definition wf_ftext (t : ftext) : bool :=
  ws_only (ft_ind t)
  && forallb wf_sline (ft_lead t) && forallb wf_sline (ft_deco t)
  && forallb wf_sline (ft_mid t) && forallb wf_sline (ft_rest t)
  && ws_only (ft_defws t) && negb (is_nil (ft_defws t))
  && no_nl (ft_name t) && no_nl (ft_sig t)
  && (ft_eofnl t || is_code (last (ft_rest t) (Code []))).

Definition blankify (l : sline) : sline :=
  match l with Blank _ => Blank [] | Code s => Code s end.

(** the text modelx keeps: not indented, no decorators, white-space-only
    lines emptied, ends with a line feed, named [nm] when a name is given *)
Definition canon (t : ftext) (nm : option str) : ftext :=
  {| ft_ind := [];
     ft_lead := map blankify (ft_lead t);
     ft_deco := [];
     ft_mid := map blankify (ft_mid t);
     ft_defws := ft_defws t;
     ft_name := match nm with Some n => n | None => ft_name t end;
     ft_sig := ft_sig t;
     ft_rest := map blankify (ft_rest t);
     ft_eofnl := true |}.

(** normalisation on texts: what [Formula(text, name)] stores *)
Definition normalize (t : ftext) (nm : option str) : str :=
  init_from_funcdef (render t) nm (deco_pos t) (name_pos t).

(** ** the docstring view of a stored (normalised) definition

    [d_front] whole lines before the line of the first statement
    (block body) or before the "def" line (one-line body);
    [d_bind]  block body: the indentation of the first statement;
              one-line body: the "def" line up to the first statement;
    [d_doc]   source text of the docstring literal if there is one;
    [d_tail]  everything after the literal (or from the first statement on). *)
Record dtext := {
  d_front : list str;
  d_bind : str;
  d_oneline : bool;
  d_doc : option str;
  d_tail : str
}.

Definition front_text (l : list str) : str := List.concat (map (fun x => x ++ [nl]) l).

Definition doc_lit (t : dtext) : str := match d_doc t with Some s => s | None => [] end.

Definition drender (t : dtext) : str :=
  front_text (d_front t) ++ d_bind t ++ doc_lit t ++ d_tail t.

Definition dpos_of (t : dtext) : dpos :=
  let P := List.length (front_text (d_front t)) in
  let S := P + List.length (d_bind t) in
  {| dp_prev_indent := if d_oneline t then None else Some (d_bind t);
     dp_has_doc := match d_doc t with Some _ => true | None => false end;
     dp_P := P; dp_S := S; dp_E := S + List.length (doc_lit t) |}.

(** the edited text, as a structure: only the docstring statement differs *)
Definition set_doc_text (t : dtext) (d : str) : dtext :=
  {| d_front := d_front t;
     d_bind := d_bind t;
     d_oneline := d_oneline t;
     d_doc := Some (quote_doc d);
     d_tail := match d_doc t with
               | Some _ => d_tail t
               | None => if d_oneline t then oneline_sep ++ d_tail t
                         else nl :: d_bind t ++ d_tail t
               end |}.

(** a line that dedent's blank-line rule leaves alone *)
Definition okline (l : str) : bool := is_nil l || negb (ws_only l).

(** decidable well-formedness of a docstring view of a text stored under
    [name] with the name token at [npos] (reflected by [wf_dtext] in
    ProofsStored.v); evaluated by the tie on every generated view *)
Definition name_at (l : str) (cb ce : nat) (name : str) : bool :=
  Nat.leb cb (List.length l) && Nat.eqb ce (cb + List.length name) && str_eqb (slice l cb ce) name.

Definition wf_dtextb (t : dtext) (name : str) (npos : nat * nat * nat) : bool :=
  let '(row, cb, ce) := npos in
  forallb no_nl (d_front t) && forallb okline (d_front t) && no_nl (d_bind t)
  && Ascii.eqb (last (d_tail t) sp) nl
  && match split_nl (removelast (d_tail t)) with
     | t0 :: tr => forallb okline tr
                   && match d_doc t with None => negb (ws_only t0) | Some _ => true end
     | [] => false
     end
  && (if d_oneline t
      then negb (ws_only (d_bind t)) && is_nil (lead_ws (d_bind t))
      else existsb (fun l => negb (ws_only l) && is_nil (lead_ws l)) (d_front t))
  && (if d_oneline t
      then Nat.eqb (row - 1) (List.length (d_front t)) && name_at (d_bind t) cb ce name
      else Nat.ltb (row - 1) (List.length (d_front t)) && name_at (nth (row - 1) (d_front t) []) cb ce name).

(** documentation strings that survive the round trip through source text:
    no backslash, no triple quote inside or formed with the closing quotes
    (so no quote at the end), no line that
    consists of blanks only (dedent would empty it), no carriage return etc. *)
Fixpoint no_tq_inside (d : str) : bool :=
  match d with
  | [] => true
  | c :: t => negb (prefixb tq (d ++ tq)) && no_tq_inside t
  end.

Definition plain_char (c : ascii) : bool :=
  negb (Ascii.eqb c bsl) &&
  let n := N_of_ascii c in
  negb (((11 <=? n) && (n <=? 13))%N || ((28 <=? n) && (n <=? 30))%N || (n =? 0)%N || (128 <=? n)%N).

Definition safe_doc (d : str) : bool :=
  forallb plain_char d && no_tq_inside d
  && forallb (fun l => is_nil l || negb (ws_only l)) (tl (split_nl d)).

(** ** lambda expressions embedded in a longer one-line statement *)
Record ltext := {
  l_ind : str;
  l_before : list sline;   (* lines before the line holding the lambda *)
  l_pre : str;             (* text of that line before the lambda *)
  l_lam : str;             (* the lambda expression *)
  l_post : str;            (* rest of the line *)
  l_eofnl : bool
}.

Definition lam_line (t : ltext) : str := l_pre t ++ l_lam t ++ l_post t.

Definition lrender (t : ltext) : str :=
  join_nl (map (rline (l_ind t)) (l_before t ++ [Code (lam_line t)]))
  ++ (if l_eofnl t then [nl] else []).

Definition wf_ltext (t : ltext) : bool :=
  ws_only (l_ind t) && forallb wf_sline (l_before t)
  && no_nl (l_pre t) && no_nl (l_lam t) && no_nl (l_post t)
  && match l_pre t ++ l_lam t with c :: _ => negb (is_ws c) | [] => false end.

(** offsets of the lambda in the dedented text *)
Definition lam_pos (t : ltext) : nat * nat :=
  let b := List.length (front_text (map (rline []) (map blankify (l_before t)))) + List.length (l_pre t) in
  (b, b + List.length (l_lam t)).

Definition normalize_lambda (t : ltext) : str :=
  init_lambda_from_source (lrender t) (fst (lam_pos t)) (snd (lam_pos t)).
