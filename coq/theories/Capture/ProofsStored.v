(** Capture - stored texts (what [Formula] keeps) are fixed points of
    [init_from_funcdef]; the text edited by [replace_docstring] is stored
    again.  Together: the full [set_doc] statement. *)
From Coq Require Import List String Ascii Bool Arith NArith Lia.
From MX Require Import Capture.Model Capture.Texts Capture.Proofs Capture.ProofsDef Capture.ProofsDoc.
Import ListNotations.
Open Scope list_scope.

Lemma okline_blank l : okline l = true -> blank_line l = l.
Proof.
  unfold okline, blank_line. destruct l as [|c l]; [reflexivity|].
  cbn [is_nil orb]. intros H. apply negb_true_iff in H. now rewrite H.
Qed.

Lemma okline_okl l : okline l = true -> okl [] l.
Proof.
  unfold okline. destruct l as [|c l]; [now left|].
  cbn [is_nil orb]. intros H. apply negb_true_iff in H. right. now exists (c :: l).
Qed.

Lemma no_nl_split_nl s : forallb no_nl (split_nl s) = true.
Proof.
  induction s as [|c s IH]; [reflexivity|].
  cbn [split_nl]. destruct (Ascii.eqb c nl) eqn:E.
  - cbn. exact IH.
  - destruct (split_nl s) as [|h t]; cbn in *; rewrite E; cbn; [reflexivity|exact IH].
Qed.

(** a text that ends with a line feed, and its lines *)
Lemma body_lines (body : str) :
  body ++ [nl] = join_lines (split_nl body).
Proof. unfold join_lines. now rewrite join_split_nl. Qed.

Definition stored (s name : str) (npos : nat * nat * nat) : Prop :=
  exists body,
    s = body ++ [nl]
    /\ forallb okline (split_nl body) = true
    /\ (exists pre l post, split_nl body = pre ++ l :: post /\ ws_only l = false /\ lead_ws l = [])
    /\ (exists a b, nth (fst (fst npos) - 1) (split_nl body) [] = a ++ name ++ b
                    /\ List.length a = snd (fst npos)
                    /\ snd npos = snd (fst npos) + List.length name
                    /\ fst (fst npos) - 1 < List.length (split_nl body)).

Lemma set_nth_same {A} (l : list A) i d : i < List.length l -> set_nth i l (nth i l d) = l.
Proof.
  revert i. induction l as [|x l IH]; intros i H; cbn in H; [lia|].
  destruct i; cbn; [reflexivity|]. f_equal. apply IH. lia.
Qed.

Lemma splice_same (a name b : str) :
  splice (a ++ name ++ b) (List.length a) (List.length a + List.length name) name = a ++ name ++ b.
Proof. unfold splice. now rewrite firstn_app_exact, skipn_two. Qed.

Lemma map_blank_ok ls : forallb okline ls = true -> map blank_line ls = ls.
Proof.
  induction ls as [|l ls IH]; cbn; [reflexivity|]. intros H.
  apply andb_true_iff in H as [Hl Hls]. now rewrite okline_blank, IH.
Qed.

Lemma Forall_okl ls : forallb okline ls = true -> Forall (okl []) ls.
Proof.
  intros H. apply Forall_forall. intros x Hx. apply okline_okl.
  eapply forallb_forall in H; eassumption.
Qed.

Lemma stored_dedent s name npos : stored s name npos -> dedent s = s.
Proof.
  intros (body & -> & Hok & (pre & l & post & Esp & Hl & Hlw) & _).
  rewrite body_lines. set (ls := split_nl body) in *.
  assert (Hne : ls <> []) by apply split_nl_nonnil.
  assert (Hnn : forallb no_nl ls = true) by apply no_nl_split_nl.
  unfold dedent. change (join_lines ls) with (with_eof ls true).
  rewrite split_with_eof by assumption.
  rewrite map_app, map_blank_ok by assumption. change (map blank_line [[]]) with [@nil ascii].
  assert (Hm : margin (ls ++ [[]]) = Some []).
  { rewrite Esp, <- app_assoc. cbn [app].
    change (l :: post ++ [[]]) with (([] ++ l) :: post ++ [[]]).
    assert (Hall : Forall (okl []) (pre ++ l :: post)) by (rewrite <- Esp; now apply Forall_okl).
    apply Forall_app in Hall as [Hpre Hpost]. inversion Hpost as [|? ? _ Hpost']; subst.
    apply margin_anchor; try assumption; [reflexivity|].
    apply Forall_app. split; [assumption|]. constructor; [now left|constructor]. }
  rewrite Hm. unfold with_eof. now apply join_nl_snoc_nil.
Qed.

(** stored texts are fixed points of [Formula(text, name)] *)
Lemma stored_fixed s name npos :
  stored s name npos -> init_from_funcdef s (Some name) None npos = s.
Proof.
  intros St. unfold init_from_funcdef. rewrite (stored_dedent _ _ _ St).
  destruct St as (body & -> & Hok & _ & (a & b & Hnth & Ha & He & Hlt)).
  rewrite body_lines. set (ls := split_nl body) in *.
  assert (Hne : ls <> []) by apply split_nl_nonnil.
  assert (Hnn : forallb no_nl ls = true) by apply no_nl_split_nl.
  unfold remove_decorator. rewrite splitlines_join_lines by assumption.
  destruct npos as [[row cb] ce]. cbn [fst snd] in *.
  unfold replace_funcname. rewrite splitlines_join_lines by assumption.
  f_equal. rewrite Hnth. subst cb ce. rewrite splice_same. rewrite <- Hnth.
  now apply set_nth_same.
Qed.

(** ** lines of a concatenation *)

Lemma split_nl_app (a b : str) la xa xb lb :
  split_nl a = la ++ [xa] -> split_nl b = xb :: lb ->
  split_nl (a ++ b) = la ++ (xa ++ xb) :: lb.
Proof.
  revert la xa. induction a as [|c a IH]; intros la xa Ha Hb.
  - cbn in Ha. destruct la as [|l0 la]; [|destruct la; discriminate].
    cbn in Ha. injection Ha as <-. cbn. exact Hb.
  - cbn [app split_nl] in *. destruct (Ascii.eqb c nl).
    + destruct la as [|l0 la].
      * cbn in Ha. injection Ha as _ Ha. now destruct (split_nl_nonnil a).
      * cbn in Ha. injection Ha as <- Ha. cbn [app]. f_equal. now apply IH.
    + destruct (split_nl a) as [|h t] eqn:Ea; [now destruct (split_nl_nonnil a)|].
      destruct la as [|l0 la].
      * cbn in Ha. injection Ha as <- ->.
        rewrite (IH [] h eq_refl Hb). reflexivity.
      * cbn in Ha. injection Ha as <- ->.
        rewrite (IH (h :: la) xa eq_refl Hb). reflexivity.
Qed.

Lemma split_nl_front_text (l : list str) :
  forallb no_nl l = true -> split_nl (front_text l) = l ++ [[]].
Proof.
  unfold front_text. induction l as [|x l IH]; intros H; [reflexivity|].
  cbn in H. apply andb_true_iff in H as [Hx Hl].
  cbn [map List.concat app]. rewrite <- app_assoc. cbn [app].
  rewrite split_nl_app_line by assumption. now rewrite IH.
Qed.

Lemma ws_only_with_dq a b : ws_only (a ++ dq :: b) = false.
Proof.
  rewrite ws_only_app. cbn [ws_only forallb]. change (is_ws dq) with false.
  cbn. apply andb_false_r.
Qed.

Lemma okline_with_dq a b : okline (a ++ dq :: b) = true.
Proof. unfold okline. rewrite ws_only_with_dq. apply orb_true_r. Qed.

(** ** well-formed docstring views *)

(** [t] is the docstring view of a text stored under [name] with the name
    token at [npos]; the conditions are on the pieces that an edit keeps *)
Record wf_dtext (t : dtext) (name : str) (npos : nat * nat * nat) : Prop := {
  wd_front_nl : forallb no_nl (d_front t) = true;
  wd_front_ok : forallb okline (d_front t) = true;
  wd_bind_nl : no_nl (d_bind t) = true;
  wd_tail : exists t0 tr, d_tail t = join_nl (t0 :: tr) ++ [nl] /\ no_nl t0 = true
                          /\ forallb no_nl tr = true /\ forallb okline tr = true
                          /\ (d_doc t = None -> ws_only t0 = false);
  wd_anchor :
    if d_oneline t
    then ws_only (d_bind t) = false /\ lead_ws (d_bind t) = []
    else exists pre l post, d_front t = pre ++ l :: post /\ ws_only l = false /\ lead_ws l = [];
  wd_name :
    snd npos = snd (fst npos) + List.length name /\
    if d_oneline t
    then fst (fst npos) - 1 = List.length (d_front t)
         /\ exists a b, d_bind t = a ++ name ++ b /\ List.length a = snd (fst npos)
    else fst (fst npos) - 1 < List.length (d_front t)
         /\ exists a b, nth (fst (fst npos) - 1) (d_front t) [] = a ++ name ++ b
                        /\ List.length a = snd (fst npos)
}.

Definition doc_ok (d : str) : Prop :=
  forallb okline (tl (split_nl d)) = true.

Lemma safe_doc_ok d : safe_doc d = true -> doc_ok d.
Proof.
  unfold safe_doc, doc_ok. intros H. apply andb_true_iff in H as [_ H]. exact H.
Qed.

(** the edited text without its final line feed, as: text before the
    documentation, the documentation, text after it *)
Definition new_tail (t : dtext) : str :=
  match d_doc t with
  | Some _ => d_tail t
  | None => if d_oneline t then oneline_sep ++ d_tail t else nl :: d_bind t ++ d_tail t
  end.

Lemma drender_set_doc t d :
  drender (set_doc_text t d)
  = (front_text (d_front t) ++ d_bind t ++ tq) ++ d ++ (tq ++ new_tail t).
Proof.
  unfold drender, set_doc_text, doc_lit, new_tail, quote_doc.
  cbn [d_front d_bind d_doc d_tail]. now rewrite <- !app_assoc.
Qed.

Lemma split_nl_pref (p s : str) x l :
  no_nl p = true -> split_nl s = x :: l -> split_nl (p ++ s) = (p ++ x) :: l.
Proof.
  intros Hp Hs. rewrite (split_nl_app p s [] p x l); [reflexivity| |assumption].
  now apply split_nl_line.
Qed.

(** lines of the part after the documentation *)
Lemma new_tail_lines t name npos :
  wf_dtext t name npos ->
  exists body x0 lr,
    tq ++ new_tail t = body ++ [nl]
    /\ split_nl body = (tq ++ x0) :: lr
    /\ forallb okline lr = true.
Proof.
  intros W. destruct (wd_tail t name npos W) as (t0 & tr & Et & Ht0 & Htr & Hok & Hnd).
  assert (Hsp : split_nl (join_nl (t0 :: tr)) = t0 :: tr).
  { apply split_join_nl; [discriminate|]. cbn [forallb]. now rewrite Ht0, Htr. }
  unfold new_tail. destruct (d_doc t) as [lit|] eqn:Ed.
  - exists (tq ++ join_nl (t0 :: tr)), t0, tr. split; [|split].
    + rewrite Et. now rewrite <- app_assoc.
    + now apply split_nl_pref.
    + assumption.
  - specialize (Hnd eq_refl). destruct (d_oneline t).
    + exists (tq ++ oneline_sep ++ join_nl (t0 :: tr)), (oneline_sep ++ t0), tr. split; [|split].
      * rewrite Et. now rewrite <- !app_assoc.
      * rewrite app_assoc. rewrite (split_nl_pref (tq ++ oneline_sep) (join_nl (t0 :: tr)) t0 tr eq_refl Hsp).
        now rewrite <- app_assoc.
      * assumption.
    + exists (tq ++ nl :: d_bind t ++ join_nl (t0 :: tr)), [], ((d_bind t ++ t0) :: tr). split; [|split].
      * rewrite Et. unfold tq. cbn [app]. now rewrite <- !app_assoc.
      * change (tq ++ nl :: d_bind t ++ join_nl (t0 :: tr))
          with (tq ++ nl :: (d_bind t ++ join_nl (t0 :: tr))).
        rewrite split_nl_app_line by reflexivity. rewrite app_nil_r. f_equal.
        apply split_nl_pref; [apply (wd_bind_nl t name npos W)|assumption].
      * cbn [forallb]. rewrite Hok, andb_true_r. unfold okline.
        rewrite ws_only_app, Hnd, andb_false_r. apply orb_true_r.
Qed.

(** the lines of the edited text: the front lines, then the lines that
    carry the documentation (each holds a quote character or is a line of
    the documentation), then the untouched rest *)
Lemma edited_lines t name npos d :
  wf_dtext t name npos -> doc_ok d ->
  exists body q0 mid,
    drender (set_doc_text t d) = body ++ [nl]
    /\ split_nl body = d_front t ++ (d_bind t ++ tq ++ q0) :: mid
    /\ forallb okline mid = true
    /\ okline (d_bind t ++ tq ++ q0) = true.
Proof.
  intros W Hd. rewrite drender_set_doc.
  destruct (new_tail_lines t name npos W) as (tb & x0 & lr & Etb & Stb & Hlr).
  rewrite Etb.
  exists ((front_text (d_front t) ++ d_bind t ++ tq) ++ d ++ tb).
  (* lines of the part before the documentation *)
  assert (S1 : split_nl (front_text (d_front t) ++ d_bind t ++ tq) = d_front t ++ [d_bind t ++ tq]).
  { rewrite (split_nl_app _ _ (d_front t) [] (d_bind t ++ tq) []).
    - reflexivity.
    - apply split_nl_front_text, (wd_front_nl t name npos W).
    - apply split_nl_line. rewrite no_nl_app, (wd_bind_nl t name npos W). reflexivity. }
  destruct (split_nl d) as [|d0 dr] eqn:Sd; [now destruct (split_nl_nonnil d)|].
  unfold doc_ok in Hd. rewrite Sd in Hd. cbn [tl] in Hd.
  assert (S2 : split_nl ((front_text (d_front t) ++ d_bind t ++ tq) ++ d)
               = d_front t ++ ((d_bind t ++ tq) ++ d0) :: dr).
  { now apply (split_nl_app _ _ (d_front t) (d_bind t ++ tq) d0 dr). }
  destruct (exists_last (l := d0 :: dr)) as (dl & dx & Edl); [discriminate|].
  destruct dl as [|d0' dl].
  - (* the documentation is one line *)
    cbn in Edl. injection Edl as <- ->.
    exists (d0 ++ tq ++ x0), lr. split; [|split; [|split]].
    + now rewrite <- !app_assoc.
    + rewrite app_assoc.
      rewrite (split_nl_app _ tb (d_front t) ((d_bind t ++ tq) ++ d0) (tq ++ x0) lr S2 Stb).
      now rewrite <- !app_assoc.
    + assumption.
    + unfold tq. cbn [app]. apply okline_with_dq.
  - (* several lines *)
    cbn in Edl. injection Edl as <- Edr.
    exists d0, (dl ++ (dx ++ tq ++ x0) :: lr). split; [|split; [|split]].
    + now rewrite <- !app_assoc.
    + rewrite app_assoc.
      assert (S2' : split_nl ((front_text (d_front t) ++ d_bind t ++ tq) ++ d)
                    = (d_front t ++ ((d_bind t ++ tq) ++ d0) :: dl) ++ [dx]).
      { rewrite S2, Edr. now rewrite <- !app_assoc. }
      rewrite (split_nl_app _ tb _ dx (tq ++ x0) lr S2' Stb).
      now rewrite <- !app_assoc.
    + rewrite Edr, forallb_app in Hd. apply andb_true_iff in Hd as [Hdl _].
      rewrite forallb_app, Hdl. cbn [forallb]. rewrite Hlr, andb_true_r.
      apply okline_with_dq.
    + unfold tq. cbn [app]. apply okline_with_dq.
Qed.

Lemma nth_app_l {A} (a b : list A) i d : i < List.length a -> nth i (a ++ b) d = nth i a d.
Proof. intros H. now apply app_nth1. Qed.

(** the edited text is stored again: same name token, same position *)
Lemma edited_stored t name npos d :
  wf_dtext t name npos -> doc_ok d ->
  stored (drender (set_doc_text t d)) name npos.
Proof.
  intros W Hd.
  destruct (edited_lines t name npos d W Hd) as (body & q0 & mid & Eb & Sb & Hmid & Hq).
  exists body. split; [exact Eb|]. split; [|split].
  - rewrite Sb, forallb_app, (wd_front_ok t name npos W). cbn [forallb]. now rewrite Hq, Hmid.
  - pose proof (wd_anchor t name npos W) as Ha. destruct (d_oneline t).
    + destruct Ha as [Hw Hl]. exists (d_front t), (d_bind t ++ tq ++ q0), mid.
      split; [exact Sb|]. split.
      * rewrite ws_only_app, Hw. reflexivity.
      * destruct (d_bind t) as [|c r]; [discriminate|].
        cbn in Hl |- *. destruct (is_ws c); [discriminate|reflexivity].
    + destruct Ha as (pre & l & post & Ef & Hw & Hl).
      exists pre, l, (post ++ (d_bind t ++ tq ++ q0) :: mid).
      split; [|now split]. rewrite Sb, Ef. now rewrite <- app_assoc.
  - destruct (wd_name t name npos W) as [He Hn]. destruct (d_oneline t).
    + destruct Hn as (Hrow & a & b & Ebind & Hla).
      exists a, (b ++ tq ++ q0). rewrite Sb, Hrow.
      rewrite nth_app_exact. repeat split; try assumption.
      * rewrite Ebind. now rewrite <- !app_assoc.
      * rewrite app_length. cbn. lia.
    + destruct Hn as (Hrow & a & b & Enth & Hla).
      exists a, b. rewrite Sb. rewrite nth_app_l by assumption.
      repeat split; try assumption. rewrite app_length. lia.
Qed.

(** the full statement for [set_doc] *)
Lemma set_doc_main t name npos d :
  wf_dtext t name npos -> safe_doc d = true ->
  set_doc_src (drender t) (dpos_of t) d false name npos = drender (set_doc_text t d).
Proof.
  intros W Hs. unfold set_doc_src. rewrite replace_docstring_drender.
  apply stored_fixed. apply edited_stored; [assumption|now apply safe_doc_ok].
Qed.

(** ** the decidable well-formedness test implies [wf_dtext] *)

Lemma str_eqb_eq a b : str_eqb a b = true -> a = b.
Proof.
  revert b. induction a as [|x a IH]; intros [|y b] H; cbn in H; try discriminate; [reflexivity|].
  apply andb_true_iff in H as [Hx Ha]. apply Ascii.eqb_eq in Hx. subst. f_equal. now apply IH.
Qed.

Lemma name_at_spec l cb ce name :
  name_at l cb ce name = true ->
  ce = cb + List.length name /\ exists a b, l = a ++ name ++ b /\ List.length a = cb.
Proof.
  unfold name_at. intros H.
  apply andb_true_iff in H as [H Hs]. apply andb_true_iff in H as [Hle He].
  apply Nat.leb_le in Hle. apply Nat.eqb_eq in He. apply str_eqb_eq in Hs.
  split; [assumption|].
  exists (firstn cb l), (skipn (ce - cb) (skipn cb l)). split.
  - unfold slice in Hs. rewrite <- Hs at 1.
    rewrite firstn_skipn. now rewrite firstn_skipn.
  - rewrite firstn_length. lia.
Qed.

Lemma last_removelast_nl (s : str) :
  Ascii.eqb (last s sp) nl = true -> s = removelast s ++ [nl].
Proof.
  intros H. destruct s as [|c s]; [discriminate|].
  apply Ascii.eqb_eq in H. rewrite <- H. apply app_removelast_last. discriminate.
Qed.

Lemma wf_dtextb_spec t name npos : wf_dtextb t name npos = true -> wf_dtext t name npos.
Proof.
  destruct npos as [[row cb] ce]. unfold wf_dtextb. intros H.
  repeat match type of H with (_ && _) = true => apply andb_true_iff in H as [H ?] end.
  rename H0 into Hname, H1 into Hanchor, H2 into Htail, H3 into Hlast, H4 into Hbind, H5 into Hok.
  constructor; cbn [fst snd]; try assumption.
  - (* tail *)
    destruct (split_nl (removelast (d_tail t))) as [|t0 tr] eqn:Es; [discriminate|].
    apply andb_true_iff in Htail as [Htr Hnd].
    exists t0, tr. pose proof (no_nl_split_nl (removelast (d_tail t))) as Hnn.
    rewrite Es in Hnn. cbn [forallb] in Hnn. apply andb_true_iff in Hnn as [Hn0 Hnr].
    repeat split; try assumption.
    + rewrite <- Es, join_split_nl. now apply last_removelast_nl.
    + intros Hd. rewrite Hd in Hnd. now apply negb_true_iff in Hnd.
  - (* anchor *)
    destruct (d_oneline t).
    + apply andb_true_iff in Hanchor as [Hw Hl]. apply negb_true_iff in Hw.
      split; [assumption|]. destruct (lead_ws (d_bind t)); [reflexivity|discriminate].
    + apply existsb_exists in Hanchor as (l & Hin & Hl).
      apply andb_true_iff in Hl as [Hw Hl]. apply negb_true_iff in Hw.
      apply in_split in Hin as (pre & post & ->).
      exists pre, l, post. repeat split; try assumption.
      destruct (lead_ws l); [reflexivity|discriminate].
  - (* name *)
    destruct (d_oneline t); apply andb_true_iff in Hname as [Hrow Hn];
      apply name_at_spec in Hn as (He & a & b & El & Hla).
    + apply Nat.eqb_eq in Hrow. repeat split; try assumption. now exists a, b.
    + apply Nat.ltb_lt in Hrow. repeat split; try assumption. now exists a, b.
Qed.
