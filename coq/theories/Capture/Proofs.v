(** Capture - lemmas about lines, dedent and the def-text normalisation. *)
From Coq Require Import List String Ascii Bool Arith Lia.
From MX Require Import Capture.Model Capture.Texts.
Import ListNotations.
Open Scope list_scope.

(** ** split / join *)

Lemma join_split_nl s : join_nl (split_nl s) = s.
Proof.
  induction s as [|c s IH]; [reflexivity|].
  cbn [split_nl]. destruct (Ascii.eqb c nl) eqn:E.
  - apply Ascii.eqb_eq in E; subst c.
    destruct (split_nl s) as [|h t] eqn:Es; cbn [join_nl] in *; [now subst|].
    now rewrite IH.
  - destruct (split_nl s) as [|h t] eqn:Es; cbn [join_nl] in *; [now subst|].
    destruct t; cbn in *; now rewrite <- IH.
Qed.

Lemma split_nl_nonnil s : split_nl s <> [].
Proof.
  destruct s as [|c s]; cbn; [discriminate|].
  destruct (Ascii.eqb c nl); [discriminate|]. destruct (split_nl s); discriminate.
Qed.

Lemma split_nl_line (x : str) : no_nl x = true -> split_nl x = [x].
Proof.
  induction x as [|c x IH]; intros H; [reflexivity|].
  cbn in H. apply andb_true_iff in H as [Hc Hx]. cbn [split_nl].
  destruct (Ascii.eqb c nl); [discriminate|]. now rewrite (IH Hx).
Qed.

Lemma split_nl_app_line (x rest : str) :
  no_nl x = true -> split_nl (x ++ nl :: rest) = x :: split_nl rest.
Proof.
  induction x as [|c x IH]; intros H.
  - cbn. reflexivity.
  - cbn in H. apply andb_true_iff in H as [Hc Hx]. cbn [app split_nl].
    destruct (Ascii.eqb c nl); [discriminate|]. now rewrite (IH Hx).
Qed.

Lemma split_join_nl (l : list str) :
  l <> [] -> forallb no_nl l = true -> split_nl (join_nl l) = l.
Proof.
  induction l as [|x l IH]; intros Hne H; [congruence|].
  cbn in H. apply andb_true_iff in H as [Hx Hl].
  destruct l as [|y l]; [now apply split_nl_line|].
  cbn [join_nl]. rewrite split_nl_app_line by assumption.
  f_equal. apply IH; [discriminate|assumption].
Qed.

Lemma join_nl_snoc_nil (l : list str) :
  l <> [] -> join_nl (l ++ [[]]) = join_nl l ++ [nl].
Proof.
  induction l as [|x l IH]; intros Hne; [congruence|].
  destruct l as [|y l]; [reflexivity|].
  change ((x :: y :: l) ++ [[]]) with (x :: (y :: l) ++ [[]]).
  cbn [join_nl app]. cbn [join_nl app] in IH. rewrite IH by discriminate.
  now rewrite <- app_assoc.
Qed.

Lemma join_nl_cons (x : str) (l : list str) :
  l <> [] -> join_nl (x :: l) = x ++ nl :: join_nl l.
Proof. destruct l; [congruence|reflexivity]. Qed.

(** text that ends (or not) with a line feed, as lines *)
Definition with_eof (l : list str) (eofnl : bool) : str :=
  join_nl l ++ (if eofnl then [nl] else []).

Lemma split_with_eof (l : list str) (e : bool) :
  l <> [] -> forallb no_nl l = true ->
  split_nl (with_eof l e) = l ++ (if e then [[]] else []).
Proof.
  intros Hne H. unfold with_eof. destruct e.
  - rewrite <- join_nl_snoc_nil by assumption. apply split_join_nl.
    + destruct l; discriminate.
    + rewrite forallb_app, H. reflexivity.
  - rewrite !app_nil_r. now apply split_join_nl.
Qed.

Lemma last_snoc {A} (l : list A) (x d : A) : last (l ++ [x]) d = x.
Proof. apply last_last. Qed.

Lemma splitlines_with_eof (l : list str) (e : bool) :
  l <> [] -> forallb no_nl l = true ->
  (e = false -> is_nil (last l [nl]) = false) ->
  splitlines (with_eof l e) = l.
Proof.
  intros Hne H Hl. unfold splitlines. rewrite split_with_eof by assumption.
  destruct e.
  - rewrite last_snoc. cbn [is_nil]. apply removelast_last.
  - rewrite app_nil_r. now rewrite Hl.
Qed.

Lemma splitlines_join_lines (l : list str) :
  l <> [] -> forallb no_nl l = true -> splitlines (join_lines l) = l.
Proof.
  intros Hne H. change (join_lines l) with (with_eof l true).
  apply splitlines_with_eof; try assumption. discriminate.
Qed.

(** ** white space *)

Lemma is_ws_not_nl c : is_ws c = true -> negb (Ascii.eqb c nl) = true.
Proof.
  unfold is_ws. intros H. apply orb_true_iff in H as [H|H];
    apply Ascii.eqb_eq in H; subst; reflexivity.
Qed.

Lemma ws_only_no_nl s : ws_only s = true -> no_nl s = true.
Proof.
  unfold ws_only, no_nl. induction s as [|c s IH]; cbn; [reflexivity|].
  intros H. apply andb_true_iff in H as [Hc Hs].
  now rewrite (is_ws_not_nl _ Hc), IH.
Qed.

Lemma no_nl_app a b : no_nl (a ++ b) = no_nl a && no_nl b.
Proof. apply forallb_app. Qed.

Lemma ws_only_app a b : ws_only (a ++ b) = ws_only a && ws_only b.
Proof. apply forallb_app. Qed.

Lemma prefixb_app p l : prefixb p (p ++ l) = true.
Proof. induction p as [|c p IH]; cbn; [reflexivity|]. now rewrite Ascii.eqb_refl. Qed.

Lemma prefixb_self_app_inv p x : prefixb (p ++ x) p = true -> x = [].
Proof.
  induction p as [|c p IH]; cbn.
  - destruct x; [reflexivity|discriminate].
  - rewrite Ascii.eqb_refl. cbn. exact IH.
Qed.

Lemma lead_ws_app ind s : ws_only ind = true -> lead_ws (ind ++ s) = ind ++ lead_ws s.
Proof.
  induction ind as [|c ind IH]; cbn; [reflexivity|].
  intros H. apply andb_true_iff in H as [Hc Hi]. now rewrite Hc, IH.
Qed.

Lemma skipn_app_exact {A} (a b : list A) : skipn (List.length a) (a ++ b) = b.
Proof. induction a; cbn; auto. Qed.

Lemma firstn_app_exact {A} (a b : list A) : firstn (List.length a) (a ++ b) = a.
Proof. induction a; cbn; [destruct b; reflexivity|]. now f_equal. Qed.

Lemma strip_prefix_app ind s : strip_prefix ind (ind ++ s) = s.
Proof. unfold strip_prefix. now rewrite prefixb_app, skipn_app_exact. Qed.

Lemma strip_prefix_nil ind : strip_prefix ind [] = [].
Proof. unfold strip_prefix. destruct ind; reflexivity. Qed.

(** ** dedent of an indented block *)

(** a line after [_whitespace_only_re]: empty, or the indentation followed by
    something that is not blank *)
Definition okl (ind l : str) : Prop :=
  l = [] \/ exists s, l = ind ++ s /\ ws_only s = false.

Definition mok (ind : str) (m : option str) : Prop :=
  m = None \/ exists x, m = Some (ind ++ x).

Lemma common_prefix_app p a b : common_prefix (p ++ a) (p ++ b) = p ++ common_prefix a b.
Proof. induction p as [|c p IH]; cbn; [reflexivity|]. now rewrite Ascii.eqb_refl, IH. Qed.

Lemma margin_step_mok ind m l :
  ws_only ind = true -> okl ind l -> mok ind m -> mok ind (margin_step m l).
Proof.
  intros Hi [->|(s & -> & Hs)] Hm; unfold margin_step.
  - cbn. exact Hm.
  - rewrite ws_only_app, Hi, Hs. cbn [andb].
    rewrite lead_ws_app by assumption.
    destruct Hm as [->|(x & ->)].
    + right. eexists. reflexivity.
    + destruct (prefixb (ind ++ x) (ind ++ lead_ws s)); [right; eexists; reflexivity|].
      destruct (prefixb (ind ++ lead_ws s) (ind ++ x)); [right; eexists; reflexivity|].
      right. rewrite common_prefix_app. eexists. reflexivity.
Qed.

Lemma margin_step_exact ind l :
  ws_only ind = true -> okl ind l -> margin_step (Some ind) l = Some ind.
Proof.
  intros Hi [->|(s & -> & Hs)]; unfold margin_step.
  - reflexivity.
  - rewrite ws_only_app, Hi, Hs. cbn [andb].
    rewrite lead_ws_app by assumption. now rewrite prefixb_app.
Qed.

(** a line whose first character after the indentation is not blank fixes the margin *)
Lemma margin_step_anchor ind m s :
  ws_only ind = true -> mok ind m -> ws_only s = false -> lead_ws s = [] ->
  margin_step m (ind ++ s) = Some ind.
Proof.
  intros Hi Hm Hs Hl. unfold margin_step.
  rewrite ws_only_app, Hi, Hs. cbn [andb].
  rewrite lead_ws_app, Hl, app_nil_r by assumption.
  destruct Hm as [->|(x & ->)]; [reflexivity|].
  destruct (prefixb (ind ++ x) ind) eqn:E.
  - apply prefixb_self_app_inv in E. subst x. now rewrite app_nil_r.
  - now rewrite prefixb_app.
Qed.

Lemma fold_margin_mok ind ls m :
  ws_only ind = true -> Forall (okl ind) ls -> mok ind m ->
  mok ind (fold_left margin_step ls m).
Proof.
  intros Hi H. revert m. induction H as [|l ls Hl _ IH]; intros m Hm; cbn; [assumption|].
  apply IH. now apply margin_step_mok.
Qed.

Lemma fold_margin_exact ind ls :
  ws_only ind = true -> Forall (okl ind) ls ->
  fold_left margin_step ls (Some ind) = Some ind.
Proof.
  intros Hi H. induction H as [|l ls Hl _ IH]; cbn; [reflexivity|].
  now rewrite margin_step_exact.
Qed.

Lemma margin_anchor ind pre s post :
  ws_only ind = true -> Forall (okl ind) pre -> Forall (okl ind) post ->
  ws_only s = false -> lead_ws s = [] ->
  margin (pre ++ (ind ++ s) :: post) = Some ind.
Proof.
  intros Hi Hpre Hpost Hs Hl. unfold margin.
  rewrite fold_left_app. cbn [fold_left].
  rewrite (margin_step_anchor ind _ s); try assumption.
  - now apply fold_margin_exact.
  - apply fold_margin_mok; try assumption. now left.
Qed.

(** dedented form of a structured line *)
Definition dline (l : sline) : str := match l with Blank _ => [] | Code s => s end.

Lemma dline_rline l : dline l = rline [] (blankify l).
Proof. destruct l; reflexivity. Qed.

Lemma blank_rline ind l :
  ws_only ind = true -> wf_sline l = true ->
  blank_line (rline ind l) = match l with Blank _ => [] | Code s => ind ++ s end.
Proof.
  intros Hi Hl. destruct l as [ws|s]; cbn in *; unfold blank_line.
  - now rewrite Hl.
  - apply andb_true_iff in Hl as [_ Hs]. apply negb_true_iff in Hs.
    now rewrite ws_only_app, Hi, Hs.
Qed.

Lemma okl_blank_rline ind l :
  ws_only ind = true -> wf_sline l = true -> okl ind (blank_line (rline ind l)).
Proof.
  intros Hi Hl. rewrite blank_rline by assumption. destruct l as [ws|s]; [now left|].
  right. exists s. split; [reflexivity|].
  cbn in Hl. apply andb_true_iff in Hl as [_ Hs]. now apply negb_true_iff in Hs.
Qed.

Lemma strip_blank_rline ind l :
  ws_only ind = true -> wf_sline l = true ->
  strip_prefix ind (blank_line (rline ind l)) = dline l.
Proof.
  intros Hi Hl. rewrite blank_rline by assumption. destruct l as [ws|s]; cbn.
  - apply strip_prefix_nil.
  - apply strip_prefix_app.
Qed.

Lemma no_nl_rline ind l :
  ws_only ind = true -> wf_sline l = true -> no_nl (rline ind l) = true.
Proof.
  intros Hi Hl. destruct l as [ws|s]; cbn in *.
  - now apply ws_only_no_nl.
  - apply andb_true_iff in Hl as [Hs _]. now rewrite no_nl_app, (ws_only_no_nl _ Hi), Hs.
Qed.

Lemma no_nl_dline l : wf_sline l = true -> no_nl (dline l) = true.
Proof.
  destruct l as [ws|s]; cbn; [reflexivity|]. intros H. now apply andb_true_iff in H as [Hs _].
Qed.

Lemma forallb_map {A B} (f : B -> bool) (g : A -> B) l :
  forallb f (map g l) = forallb (fun x => f (g x)) l.
Proof. induction l; cbn; congruence. Qed.

Lemma forallb_impl {A} (f g : A -> bool) l :
  (forall x, f x = true -> g x = true) -> forallb f l = true -> forallb g l = true.
Proof.
  intros H. induction l; cbn; [reflexivity|]. intros Hl.
  apply andb_true_iff in Hl as [Ha Hl]. now rewrite (H _ Ha), IHl.
Qed.

(** an anchored block: every line well formed, one code line starts (after
    the indentation) with a non-blank character *)
Lemma dedent_block ind (pre post : list sline) (s : str) (e : bool) :
  ws_only ind = true ->
  forallb wf_sline pre = true -> forallb wf_sline post = true ->
  wf_sline (Code s) = true -> lead_ws s = [] ->
  dedent (with_eof (map (rline ind) (pre ++ Code s :: post)) e)
  = with_eof (map dline (pre ++ Code s :: post)) e.
Proof.
  intros Hi Hpre Hpost Hs Hl.
  set (L := pre ++ Code s :: post).
  assert (HL : forallb wf_sline L = true).
  { unfold L. rewrite forallb_app. cbn [forallb]. now rewrite Hpre, Hs, Hpost. }
  assert (HLne : map (rline ind) L <> []).
  { unfold L. destruct pre; discriminate. }
  assert (Hnn : forallb no_nl (map (rline ind) L) = true).
  { rewrite forallb_map. revert HL. apply forallb_impl. intros x Hx. now apply no_nl_rline. }
  unfold dedent. rewrite split_with_eof by assumption.
  rewrite map_app.
  (* the processed lines *)
  assert (Hmap : map blank_line (map (rline ind) L)
                 = map blank_line (map (rline ind) pre) ++ (ind ++ s) :: map blank_line (map (rline ind) post)).
  { unfold L. rewrite !map_app. cbn [map]. f_equal. f_equal.
    now rewrite (blank_rline ind (Code s)). }
  assert (Hok : forall l, forallb wf_sline l = true -> Forall (okl ind) (map blank_line (map (rline ind) l))).
  { intros l H. rewrite map_map. apply Forall_forall. intros x Hx.
    apply in_map_iff in Hx as (y & <- & Hy).
    apply okl_blank_rline; [assumption|].
    eapply forallb_forall in H; eassumption. }
  assert (Hsws : ws_only s = false).
  { cbn in Hs. apply andb_true_iff in Hs as [_ Hs]. now apply negb_true_iff in Hs. }
  assert (Hmargin : margin (map blank_line (map (rline ind) L) ++ map blank_line (if e then [[]] else [])) = Some ind).
  { rewrite Hmap, <- app_assoc. cbn [app].
    apply margin_anchor; try assumption; [now apply Hok|].
    apply Forall_app. split; [now apply Hok|].
    destruct e; cbn; [|constructor]. constructor; [now left|constructor]. }
  rewrite Hmargin.
  assert (Hres : map (strip_prefix ind) (map blank_line (map (rline ind) L) ++ map blank_line (if e then [[]] else []))
                 = map dline L ++ (if e then [[]] else [])).
  { rewrite map_app. f_equal.
    - rewrite !map_map. apply map_ext_in. intros x Hx.
      apply strip_blank_rline; [assumption|]. eapply forallb_forall in HL; eassumption.
    - destruct e; cbn; [|reflexivity]. now rewrite strip_prefix_nil. }
  assert (Hne2 : map dline L <> []) by (unfold L; destruct pre; discriminate).
  assert (Hfin : join_nl (map dline L ++ (if e then [[]] else [])) = with_eof (map dline L) e).
  { unfold with_eof. destruct e; [now apply join_nl_snoc_nil|now rewrite !app_nil_r]. }
  destruct ind as [|c m].
  - (* no margin: nothing is stripped, and stripping the empty margin is the identity *)
    rewrite <- Hfin, <- Hres. f_equal. rewrite <- (map_id (map blank_line _ ++ _)) at 1.
    apply map_ext. intros a. unfold strip_prefix. cbn. reflexivity.
  - now rewrite Hres.
Qed.
