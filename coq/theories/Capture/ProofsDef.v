(** Capture - normalisation of a def text: [normalize t nm = render (canon t nm)]
    and its corollaries (idempotence, name, rename). *)
From Coq Require Import List String Ascii Bool Arith Lia.
From MX Require Import Capture.Model Capture.Texts Capture.Proofs.
Import ListNotations.
Open Scope list_scope.

Record wf_parts (t : ftext) : Prop := {
  wp_ind : ws_only (ft_ind t) = true;
  wp_lead : forallb wf_sline (ft_lead t) = true;
  wp_deco : forallb wf_sline (ft_deco t) = true;
  wp_mid : forallb wf_sline (ft_mid t) = true;
  wp_rest : forallb wf_sline (ft_rest t) = true;
  wp_defws : ws_only (ft_defws t) = true;
  wp_defws_ne : ft_defws t <> [];
  wp_name : no_nl (ft_name t) = true;
  wp_sig : no_nl (ft_sig t) = true;
  wp_eof : ft_eofnl t = true \/ is_code (last (ft_rest t) (Code [])) = true
}.

Lemma wf_ftext_parts t : wf_ftext t = true -> wf_parts t.
Proof.
  unfold wf_ftext. intros H.
  repeat match type of H with (_ && _) = true => apply andb_true_iff in H as [H ?] end.
  constructor; try assumption.
  - destruct (ft_defws t); [discriminate|discriminate].
  - now apply orb_true_iff.
Qed.

Lemma parts_wf_ftext t : wf_parts t -> wf_ftext t = true.
Proof.
  intros [H1 H2 H3 H4 H5 H6 H7 H8 H9 H10]. unfold wf_ftext.
  rewrite H1, H2, H3, H4, H5, H6, H8, H9. cbn [andb].
  destruct (ft_defws t); [congruence|]. cbn [is_nil negb andb].
  now apply orb_true_iff.
Qed.

Lemma wf_def_line t : wf_parts t -> wf_sline (Code (def_line t)) = true.
Proof.
  intros W. cbn [wf_sline]. unfold def_line.
  rewrite !no_nl_app, (ws_only_no_nl _ (wp_defws t W)), (wp_name t W), (wp_sig t W).
  reflexivity.
Qed.

Lemma lead_ws_def_line t : lead_ws (def_line t) = [].
Proof. reflexivity. Qed.

Definition pre_lines (t : ftext) : list sline := ft_lead t ++ ft_deco t ++ ft_mid t.

Lemma ft_lines_split t : ft_lines t = pre_lines t ++ Code (def_line t) :: ft_rest t.
Proof. unfold ft_lines, pre_lines. now rewrite <- !app_assoc. Qed.

Lemma render_eq t :
  render t = with_eof (map (rline (ft_ind t)) (pre_lines t ++ Code (def_line t) :: ft_rest t)) (ft_eofnl t).
Proof. unfold render. now rewrite ft_lines_split. Qed.

Lemma wf_pre_lines t : wf_parts t -> forallb wf_sline (pre_lines t) = true.
Proof.
  intros W. unfold pre_lines. now rewrite !forallb_app, (wp_lead t W), (wp_deco t W), (wp_mid t W).
Qed.

Lemma dedent_render t :
  wf_parts t ->
  dedent (render t) = with_eof (map dline (ft_lines t)) (ft_eofnl t).
Proof.
  intros W. rewrite render_eq, ft_lines_split.
  apply dedent_block.
  - apply (wp_ind t W).
  - now apply wf_pre_lines.
  - apply (wp_rest t W).
  - now apply wf_def_line.
  - reflexivity.
Qed.

Lemma wf_all_lines t : wf_parts t -> forallb wf_sline (ft_lines t) = true.
Proof.
  intros W. rewrite ft_lines_split, forallb_app. cbn [forallb].
  now rewrite (wf_pre_lines t W), (wf_def_line t W), (wp_rest t W).
Qed.

Lemma no_nl_dlines l : forallb wf_sline l = true -> forallb no_nl (map dline l) = true.
Proof.
  intros H. rewrite forallb_map. revert H. apply forallb_impl. intros x. apply no_nl_dline.
Qed.

Lemma last_code_nonnil (l : list sline) (d : str) :
  forallb wf_sline l = true -> l <> [] -> is_code (last l (Code [])) = true ->
  is_nil (last (map dline l) d) = false.
Proof.
  induction l as [|x l IH]; intros Hwf Hne Hc; [congruence|].
  cbn in Hwf. apply andb_true_iff in Hwf as [Hx Hl].
  destruct l as [|y l].
  - cbn in *. destruct x as [ws|s]; [discriminate|]. cbn in *.
    apply andb_true_iff in Hx as [_ Hx]. destruct s; [discriminate|reflexivity].
  - change (last (map dline (x :: y :: l)) d) with (last (map dline (y :: l)) d).
    apply IH; [assumption|discriminate|exact Hc].
Qed.

Lemma last_app_cons {A} (a : list A) x b d : last (a ++ x :: b) d = last (x :: b) d.
Proof.
  induction a as [|y a IH]; [reflexivity|].
  cbn [app]. destruct (a ++ x :: b) eqn:E; [destruct a; discriminate|].
  cbn [last]. exact IH.
Qed.

Lemma last_lines_code t :
  wf_parts t -> ft_eofnl t = false -> is_nil (last (map dline (ft_lines t)) [nl]) = false.
Proof.
  intros W He. apply last_code_nonnil.
  - now apply wf_all_lines.
  - rewrite ft_lines_split. destruct (pre_lines t); discriminate.
  - rewrite ft_lines_split. rewrite last_app_cons.
    destruct (wp_eof t W) as [H|H]; [congruence|].
    destruct (ft_rest t) as [|y r]; [reflexivity|].
    change (last (Code (def_line t) :: y :: r) (Code [])) with (last (y :: r) (Code [])). exact H.
Qed.

Lemma splitlines_dedent_render t :
  wf_parts t -> splitlines (dedent (render t)) = map dline (ft_lines t).
Proof.
  intros W. rewrite dedent_render by assumption.
  apply splitlines_with_eof.
  - rewrite ft_lines_split. destruct (pre_lines t); discriminate.
  - apply no_nl_dlines. now apply wf_all_lines.
  - intros He. now apply last_lines_code.
Qed.

(** lines kept by [remove_decorator] *)
Definition kept_lines (t : ftext) : list sline :=
  ft_lead t ++ ft_mid t ++ Code (def_line t) :: ft_rest t.

Lemma remove_decorator_render t :
  wf_parts t ->
  remove_decorator (dedent (render t)) (deco_pos t) = join_lines (map dline (kept_lines t)).
Proof.
  intros W. unfold remove_decorator. rewrite splitlines_dedent_render by assumption.
  f_equal. unfold deco_pos, kept_lines, ft_lines.
  destruct (ft_deco t) as [|d ds] eqn:Ed; [reflexivity|].
  rewrite !map_app.
  replace (List.length (ft_lead t) + 1 - 1) with (List.length (map dline (ft_lead t)))
    by (rewrite map_length; lia).
  rewrite firstn_app_exact. f_equal.
  replace (List.length (ft_lead t) + List.length (d :: ds))
    with (List.length (map dline (ft_lead t) ++ map dline (d :: ds)))
    by (rewrite app_length, !map_length; reflexivity).
  rewrite app_assoc, skipn_app_exact. reflexivity.
Qed.

Lemma set_nth_app {A} (a : list A) x y b :
  set_nth (List.length a) (a ++ x :: b) y = a ++ y :: b.
Proof. induction a; cbn; [reflexivity|]. now f_equal. Qed.

Lemma nth_app_exact {A} (a : list A) x b d : nth (List.length a) (a ++ x :: b) d = x.
Proof. induction a; cbn; auto. Qed.

Lemma splice_def_line t nm :
  splice (def_line t) (3 + List.length (ft_defws t))
         (3 + List.length (ft_defws t) + List.length (ft_name t)) nm
  = def_kw ++ ft_defws t ++ nm ++ ft_sig t.
Proof.
  unfold splice, def_line.
  replace (3 + List.length (ft_defws t)) with (List.length (def_kw ++ ft_defws t))
    by (rewrite app_length; reflexivity).
  rewrite (app_assoc def_kw), firstn_app_exact.
  replace (List.length (def_kw ++ ft_defws t) + List.length (ft_name t))
    with (List.length ((def_kw ++ ft_defws t) ++ ft_name t)) by (now rewrite app_length).
  rewrite (app_assoc (def_kw ++ ft_defws t) (ft_name t)), skipn_app_exact.
  now rewrite <- !app_assoc.
Qed.

Definition with_name (t : ftext) (nm : str) : ftext :=
  {| ft_ind := ft_ind t; ft_lead := ft_lead t; ft_deco := ft_deco t; ft_mid := ft_mid t;
     ft_defws := ft_defws t; ft_name := nm; ft_sig := ft_sig t; ft_rest := ft_rest t;
     ft_eofnl := ft_eofnl t |}.

Lemma wf_kept_lines t : wf_parts t -> forallb wf_sline (kept_lines t) = true.
Proof.
  intros W. unfold kept_lines. rewrite !forallb_app. cbn [forallb].
  now rewrite (wp_lead t W), (wp_mid t W), (wf_def_line t W), (wp_rest t W).
Qed.

Lemma replace_funcname_kept t nm :
  wf_parts t ->
  replace_funcname (join_lines (map dline (kept_lines t))) (name_pos t) nm
  = join_lines (map dline (kept_lines (with_name t nm))).
Proof.
  intros W. unfold replace_funcname, name_pos.
  rewrite splitlines_join_lines.
  2:{ unfold kept_lines. destruct (ft_lead t); destruct (ft_mid t); discriminate. }
  2:{ apply no_nl_dlines. now apply wf_kept_lines. }
  f_equal. unfold kept_lines. cbn [with_name ft_lead ft_mid ft_rest].
  rewrite !app_assoc, !map_app. cbn [map dline].
  replace (List.length (ft_lead t) + List.length (ft_mid t) + 1 - 1)
    with (List.length (map dline (ft_lead t ++ ft_mid t)))
    by (rewrite map_length, app_length; lia).
  rewrite <- !map_app.
  rewrite nth_app_exact, set_nth_app. f_equal. f_equal.
  apply splice_def_line.
Qed.

Lemma map_rline_blankify l : map (rline []) (map blankify l) = map dline l.
Proof. rewrite map_map. apply map_ext. intros a. now rewrite dline_rline. Qed.

Lemma render_canon t nm :
  render (canon t nm)
  = join_lines (map dline (kept_lines (match nm with Some n => with_name t n | None => t end))).
Proof.
  unfold render, join_lines, ft_lines, kept_lines.
  cbn [canon ft_ind ft_lead ft_deco ft_mid ft_rest ft_eofnl app].
  f_equal. f_equal.
  destruct nm as [n|]; cbn [with_name ft_lead ft_mid ft_rest];
    rewrite !map_app; cbn [map]; rewrite !map_rline_blankify; reflexivity.
Qed.

(** the main equation: what [Formula(text, name)] stores is the canonical text *)
Lemma normalize_render t nm : wf_ftext t = true -> normalize t nm = render (canon t nm).
Proof.
  intros H. apply wf_ftext_parts in H as W.
  unfold normalize, init_from_funcdef.
  rewrite remove_decorator_render by assumption.
  rewrite render_canon. destruct nm as [n|]; [|reflexivity].
  now apply replace_funcname_kept.
Qed.

(** ** the canonical text is well formed and a fixed point *)

Lemma wf_blankify l : wf_sline l = true -> wf_sline (blankify l) = true.
Proof. destruct l; cbn; auto. Qed.

Lemma wf_map_blankify l : forallb wf_sline l = true -> forallb wf_sline (map blankify l) = true.
Proof. rewrite forallb_map. apply forallb_impl. apply wf_blankify. Qed.

Definition name_ok (nm : option str) : Prop :=
  match nm with Some n => no_nl n = true | None => True end.

Lemma wf_canon t nm : wf_ftext t = true -> name_ok nm -> wf_ftext (canon t nm) = true.
Proof.
  intros H Hn. apply wf_ftext_parts in H as W. apply parts_wf_ftext.
  constructor; cbn; try reflexivity.
  - apply wf_map_blankify, (wp_lead t W).
  - apply wf_map_blankify, (wp_mid t W).
  - apply wf_map_blankify, (wp_rest t W).
  - apply (wp_defws t W).
  - apply (wp_defws_ne t W).
  - destruct nm; [exact Hn|apply (wp_name t W)].
  - apply (wp_sig t W).
  - now left.
Qed.

Lemma blankify_idem l : blankify (blankify l) = blankify l.
Proof. destruct l; reflexivity. Qed.

Lemma map_blankify_idem l : map blankify (map blankify l) = map blankify l.
Proof. rewrite map_map. apply map_ext. apply blankify_idem. Qed.

Lemma canon_canon t nm nm' :
  canon (canon t nm) (Some nm') = canon t (Some nm').
Proof. unfold canon. cbn. now rewrite !map_blankify_idem. Qed.

Lemma canon_canon_none t nm : canon (canon t nm) None = canon t nm.
Proof. unfold canon. cbn. now rewrite !map_blankify_idem. Qed.

(** idempotence on texts *)
Lemma normalize_idem t nm :
  wf_ftext t = true -> no_nl nm = true ->
  normalize (canon t (Some nm)) (Some nm) = normalize t (Some nm).
Proof.
  intros H Hn.
  rewrite (normalize_render t) by assumption.
  rewrite normalize_render by (now apply wf_canon).
  now rewrite canon_canon.
Qed.

Lemma normalize_idem_none t nm :
  wf_ftext t = true -> name_ok nm ->
  normalize (canon t nm) None = normalize t nm.
Proof.
  intros H Hn.
  rewrite (normalize_render t) by assumption.
  rewrite normalize_render by (now apply wf_canon).
  now rewrite canon_canon_none.
Qed.

(** ** rename at the level of characters: only the name token differs *)

Definition text_before_name (t : ftext) : str :=
  List.concat (map (fun l => dline l ++ [nl]) (ft_lead t ++ ft_mid t)) ++ def_kw ++ ft_defws t.

Definition text_after_name (t : ftext) : str :=
  ft_sig t ++ nl :: List.concat (map (fun l => dline l ++ [nl]) (ft_rest t)).

Lemma join_lines_concat (l : list str) : l <> [] ->
  join_lines l = List.concat (map (fun x => x ++ [nl]) l).
Proof.
  unfold join_lines. induction l as [|x l IH]; intros Hne; [congruence|].
  destruct l as [|y l].
  - cbn. now rewrite app_nil_r.
  - cbn [join_nl map List.concat]. cbn [join_nl map List.concat] in IH.
    rewrite <- IH by discriminate. now rewrite <- !app_assoc.
Qed.

Lemma render_canon_split t nm :
  render (canon t (Some nm)) = text_before_name t ++ nm ++ text_after_name t.
Proof.
  rewrite render_canon. rewrite join_lines_concat.
  2:{ unfold kept_lines. destruct (ft_lead (with_name t nm)); destruct (ft_mid (with_name t nm)); discriminate. }
  unfold kept_lines, text_before_name, text_after_name. cbn [with_name ft_lead ft_mid ft_rest].
  rewrite app_assoc, !map_app, concat_app. cbn [map List.concat dline].
  rewrite !map_map. unfold def_line. cbn [ft_defws ft_name ft_sig with_name].
  rewrite <- !app_assoc. cbn [app]. reflexivity.
Qed.
