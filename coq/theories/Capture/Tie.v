(** Capture - comparison functions evaluated (vm_compute) by the generated
    case files of the correspondence check C20.  Each constructor of [tcase]
    carries a structured text built by the generator, the text the
    implementation really worked on, the token positions asttokens/ast gave
    for it, and what the implementation stored; [check] says whether the
    model reproduces all of it. *)
From Coq Require Import List String Ascii Bool Arith NArith.
From MX Require Import Show.Check Capture.Model Capture.Texts.
Import ListNotations.
Open Scope list_scope.

Definition S (s : string) : str := list_ascii_of_string s.

(** text given as its lines (joined by line feeds) *)
Definition jn (l : list string) : string :=
  string_of_list_ascii (join_nl (map list_ascii_of_string l)).

Definition sl (p : bool * string) : sline := if fst p then Code (S (snd p)) else Blank (S (snd p)).

Definition mk_ft (ind : string) (lead deco mid : list (bool * string)) (defws name sig : string)
           (rest : list (bool * string)) (eofnl : bool) : ftext :=
  {| ft_ind := S ind; ft_lead := map sl lead; ft_deco := map sl deco; ft_mid := map sl mid;
     ft_defws := S defws; ft_name := S name; ft_sig := S sig; ft_rest := map sl rest;
     ft_eofnl := eofnl |}.

Definition mk_dt (front : list string) (bind : string) (oneline : bool) (doc : option string) (tail : string) : dtext :=
  {| d_front := map S front; d_bind := S bind; d_oneline := oneline;
     d_doc := option_map S doc; d_tail := S tail |}.

Definition mk_lt (ind : string) (before : list (bool * string)) (pre lam post : string) (eofnl : bool) : ltext :=
  {| l_ind := S ind; l_before := map sl before; l_pre := S pre; l_lam := S lam; l_post := S post;
     l_eofnl := eofnl |}.

Definition mk_dpos (ind : option string) (has : bool) (P S' E : N) : dpos :=
  {| dp_prev_indent := option_map S ind; dp_has_doc := has;
     dp_P := N.to_nat P; dp_S := N.to_nat S'; dp_E := N.to_nat E |}.

Definition nat2_eqb (a b : nat * nat) : bool := Nat.eqb (fst a) (fst b) && Nat.eqb (snd a) (snd b).
Definition nat3_eqb (a b : nat * nat * nat) : bool :=
  nat2_eqb (fst a) (fst b) && Nat.eqb (snd a) (snd b).

Definition dpos_eqb (a b : dpos) : bool :=
  opt_eqb str_eqb (dp_prev_indent a) (dp_prev_indent b)
  && Bool.eqb (dp_has_doc a) (dp_has_doc b)
  && (if dp_prev_indent a then Nat.eqb (dp_P a) (dp_P b) else true)
  && Nat.eqb (dp_S a) (dp_S b)
  && (if dp_has_doc a then Nat.eqb (dp_E a) (dp_E b) else true).

Inductive tcase :=
| TDef (t : ftext) (nm : option string) (src dedented : string)
       (odeco : option (nat * nat)) (onpos : nat * nat * nat) (out : string)
| TRename (t : ftext) (nm : string) (src : string) (onpos : nat * nat * nat) (out : string)
| TDoc (dt : dtext) (src : string) (op : dpos) (d : string) (ins : bool)
       (nm : string) (onpos : nat * nat * nat) (out : string) (odoc : string)
| TLam (lt : ltext) (src dedented : string) (b e : N) (out : string)
| TLamRaw (dedent_first : bool) (src : string) (b e : N) (out : string).

Definition check (c : tcase) : bool :=
  match c with
  | TDef t nm src dedented odeco onpos out =>
      wf_ftext t
      && str_eqb (render t) (S src)
      && str_eqb (dedent (S src)) (S dedented)
      && opt_eqb nat2_eqb (deco_pos t) odeco
      && nat3_eqb (name_pos t) onpos
      && str_eqb (init_from_funcdef (S src) (option_map S nm) odeco onpos) (S out)
      && str_eqb (normalize t (option_map S nm)) (S out)
      && str_eqb (render (canon t (option_map S nm))) (S out)
  | TRename t nm src onpos out =>
      (* [t] describes [src], the stored text before the edit *)
      wf_ftext t
      && str_eqb (render t) (S src)
      && nat3_eqb (name_pos t) onpos
      && str_eqb (rename_src (S src) (S nm) onpos) (S out)
      && str_eqb (render (canon t (Some (S nm)))) (S out)
  | TDoc dt src op d ins nm onpos out odoc =>
      str_eqb (drender dt) (S src)
      && dpos_eqb (dpos_of dt) op
      && str_eqb (set_doc_src (S src) op (S d) ins (S nm) onpos) (S out)
      && (if negb ins && safe_doc (S d)
          then wf_dtextb dt (S nm) onpos
               && str_eqb (drender (set_doc_text dt (S d))) (S out)
               && opt_eqb str_eqb (read_doc (skipn (dp_S op) (S out))) (Some (S d))
               && str_eqb (S odoc) (S d)
          else true)
  | TLam lt src dedented b e out =>
      wf_ltext lt
      && str_eqb (lrender lt) (S src)
      && str_eqb (dedent (S src)) (S dedented)
      && nat2_eqb (lam_pos lt) (N.to_nat b, N.to_nat e)
      && str_eqb (init_lambda_from_source (S src) (N.to_nat b) (N.to_nat e)) (S out)
      && str_eqb (normalize_lambda lt) (S out)
      && str_eqb (l_lam lt) (S out)
  | TLamRaw dd src b e out =>
      str_eqb (if dd then init_lambda_from_source (S src) (N.to_nat b) (N.to_nat e)
               else init_lambda_from_func (S src) (N.to_nat b) (N.to_nat e)) (S out)
  end.

(** diagnostics: which conjunct fails *)
Definition explain (c : tcase) : list bool :=
  match c with
  | TDef t nm src dedented odeco onpos out =>
      [ wf_ftext t; str_eqb (render t) (S src); str_eqb (dedent (S src)) (S dedented);
        opt_eqb nat2_eqb (deco_pos t) odeco; nat3_eqb (name_pos t) onpos;
        str_eqb (init_from_funcdef (S src) (option_map S nm) odeco onpos) (S out);
        str_eqb (normalize t (option_map S nm)) (S out);
        str_eqb (render (canon t (option_map S nm))) (S out) ]
  | TRename t nm src onpos out =>
      [ wf_ftext t; str_eqb (render t) (S src); nat3_eqb (name_pos t) onpos;
        str_eqb (rename_src (S src) (S nm) onpos) (S out);
        str_eqb (render (canon t (Some (S nm)))) (S out) ]
  | TDoc dt src op d ins nm onpos out odoc =>
      [ str_eqb (drender dt) (S src); dpos_eqb (dpos_of dt) op;
        str_eqb (set_doc_src (S src) op (S d) ins (S nm) onpos) (S out);
        negb ins && safe_doc (S d); wf_dtextb dt (S nm) onpos;
        str_eqb (drender (set_doc_text dt (S d))) (S out);
        opt_eqb str_eqb (read_doc (skipn (dp_S op) (S out))) (Some (S d));
        str_eqb (S odoc) (S d) ]
  | TLam lt src dedented b e out =>
      [ wf_ltext lt; str_eqb (lrender lt) (S src); str_eqb (dedent (S src)) (S dedented);
        nat2_eqb (lam_pos lt) (N.to_nat b, N.to_nat e);
        str_eqb (init_lambda_from_source (S src) (N.to_nat b) (N.to_nat e)) (S out);
        str_eqb (normalize_lambda lt) (S out); str_eqb (l_lam lt) (S out) ]
  | TLamRaw dd src b e out =>
      [ str_eqb (if dd then init_lambda_from_source (S src) (N.to_nat b) (N.to_nat e)
                 else init_lambda_from_func (S src) (N.to_nat b) (N.to_nat e)) (S out) ]
  end.
