(** Capture - the statements used by Props/C20.v *)
From Coq Require Import List String Ascii Bool Arith NArith Lia.
From MX Require Import Capture.Model Capture.Texts Capture.Proofs Capture.ProofsDef Capture.ProofsDoc Capture.ProofsStored.
Import ListNotations.
Open Scope list_scope.

Lemma stored_is_canon t nm :
  normalize (canon t (Some nm)) (Some nm)
  = init_from_funcdef (render (canon t (Some nm))) (Some nm) None (name_pos (canon t (Some nm))).
Proof. reflexivity. Qed.

Lemma idem_main t nm :
  wf_ftext t = true -> no_nl nm = true ->
  let s := normalize t (Some nm) in
  let pos := name_pos (canon t (Some nm)) in
  init_from_funcdef s (Some nm) None pos = s /\ init_from_funcdef s None None pos = s.
Proof.
  intros H Hn s pos. subst s pos.
  rewrite (normalize_render t) by assumption. split.
  - change (normalize (canon t (Some nm)) (Some nm) = render (canon t (Some nm))).
    rewrite normalize_render by (now apply wf_canon). now rewrite canon_canon.
  - change (normalize (canon t (Some nm)) None = render (canon t (Some nm))).
    rewrite normalize_render by (now apply wf_canon). now rewrite canon_canon_none.
Qed.

Lemma name_main t nm :
  wf_ftext t = true -> no_nl nm = true ->
  splitlines (normalize t (Some nm))
  = map dline (ft_lead t) ++ map dline (ft_mid t)
    ++ (def_kw ++ ft_defws t ++ nm ++ ft_sig t) :: map dline (ft_rest t).
Proof.
  intros H Hn. rewrite normalize_render by assumption.
  assert (W : wf_ftext (canon t (Some nm)) = true) by (now apply wf_canon).
  apply wf_ftext_parts in W. apply wf_ftext_parts in H as W0.
  rewrite render_canon. rewrite splitlines_join_lines.
  - unfold kept_lines. cbn [with_name ft_lead ft_mid ft_rest]. now rewrite !map_app.
  - unfold kept_lines. destruct (ft_lead (with_name t nm)); destruct (ft_mid (with_name t nm)); discriminate.
  - apply no_nl_dlines. apply wf_kept_lines.
    destruct W0. constructor; cbn; assumption.
Qed.

Lemma name_none_main t :
  wf_ftext t = true ->
  splitlines (normalize t None)
  = map dline (ft_lead t) ++ map dline (ft_mid t)
    ++ (def_kw ++ ft_defws t ++ ft_name t ++ ft_sig t) :: map dline (ft_rest t).
Proof.
  intros H. rewrite normalize_render by assumption.
  apply wf_ftext_parts in H as W0.
  rewrite render_canon. rewrite splitlines_join_lines.
  - unfold kept_lines. now rewrite !map_app.
  - unfold kept_lines. destruct (ft_lead t); destruct (ft_mid t); discriminate.
  - apply no_nl_dlines. now apply wf_kept_lines.
Qed.

Lemma rename_main t nm nm' :
  wf_ftext t = true -> no_nl nm = true ->
  rename_src (normalize t (Some nm)) nm' (name_pos (canon t (Some nm))) = normalize t (Some nm')
  /\ normalize t (Some nm) = text_before_name t ++ nm ++ text_after_name t
  /\ normalize t (Some nm') = text_before_name t ++ nm' ++ text_after_name t.
Proof.
  intros H Hn. rewrite !(normalize_render t) by assumption. repeat split.
  - change (normalize (canon t (Some nm)) (Some nm') = render (canon t (Some nm'))).
    rewrite normalize_render by (now apply wf_canon). now rewrite canon_canon.
  - apply render_canon_split.
  - apply render_canon_split.
Qed.

Lemma doc_main_partial t d :
  replace_docstring (drender t) (dpos_of t) d false = drender (set_doc_text t d)
  /\ d_front (set_doc_text t d) = d_front t /\ d_bind (set_doc_text t d) = d_bind t
  /\ (exists sep, d_tail (set_doc_text t d) = sep ++ d_tail t /\
                  (d_doc t <> None -> sep = []) /\
                  (d_doc t = None -> sep = if d_oneline t then oneline_sep else nl :: d_bind t))
  /\ (safe_doc d = true ->
      read_doc (skipn (dp_S (dpos_of t)) (drender (set_doc_text t d))) = Some d).
Proof.
  split; [apply replace_docstring_drender|].
  destruct (set_doc_text_keeps t d) as (H1 & H2 & H3).
  repeat split; try assumption. apply read_back.
Qed.

(** full statement for [set_doc]: the stored text after the edit is the old
    one with the docstring statement replaced, it is stored again (so
    idempotence and further edits apply), and the documentation read back is [d] *)
Lemma doc_main t name npos d :
  wf_dtext t name npos -> safe_doc d = true ->
  let s' := set_doc_src (drender t) (dpos_of t) d false name npos in
  s' = drender (set_doc_text t d)
  /\ stored s' name npos
  /\ init_from_funcdef s' (Some name) None npos = s'
  /\ read_doc (skipn (dp_S (dpos_of t)) s') = Some d.
Proof.
  intros W Hs s'. subst s'. rewrite set_doc_main by assumption.
  assert (St : stored (drender (set_doc_text t d)) name npos)
    by (apply edited_stored; [assumption|now apply safe_doc_ok]).
  repeat split; try assumption.
  - now apply stored_fixed.
  - now apply read_back.
Qed.

Lemma doc_check_main t name npos : wf_dtextb t name npos = true -> wf_dtext t name npos.
Proof. apply wf_dtextb_spec. Qed.

Lemma stored_main s name npos :
  stored s name npos -> init_from_funcdef s (Some name) None npos = s.
Proof. apply stored_fixed. Qed.

Lemma lambda_main t :
  wf_ltext t = true ->
  normalize_lambda t = l_lam t
  /\ (forall c r, l_lam t = c :: r -> is_ws c = false ->
      init_lambda_from_source (l_lam t) 0 (List.length (l_lam t)) = l_lam t).
Proof.
  intros H. split; [now apply normalize_lambda_eq|].
  intros c r E Hc. unfold init_lambda_from_source, extract_lambda_from_source.
  apply wf_ltext_parts in H as W.
  rewrite (dedent_line _ c r E Hc (lp_lam t W)). apply slice_all.
Qed.

Lemma defcells_main st newsrc b :
  defcells_existing st newsrc (Some b) = (newsrc, b)
  /\ defcells_existing st newsrc None = (newsrc, snd st).
Proof. split; reflexivity. Qed.
