(** Capture - docstring replacement and lambda extraction. *)
From Coq Require Import List String Ascii Bool Arith NArith Lia.
From MX Require Import Capture.Model Capture.Texts Capture.Proofs Capture.ProofsDef.
Import ListNotations.
Open Scope list_scope.

(** ** replace_docstring on the docstring view *)

Lemma indent_lines_from_S i p ls : indent_lines_from (S i) false p ls = ls.
Proof.
  revert i. induction ls as [|l ls IH]; intros i; cbn; [reflexivity|]. now rewrite IH.
Qed.

Lemma split_nl_cons_not_nl c s :
  Ascii.eqb c nl = false ->
  exists h t, split_nl s = h :: t /\ split_nl (c :: s) = (c :: h) :: t.
Proof.
  intros H. cbn [split_nl]. rewrite H.
  destruct (split_nl s) as [|h t] eqn:E; [now destruct (split_nl_nonnil s)|].
  now exists h, t.
Qed.

Lemma last_cons_cons {A} (x y : A) l d : last (x :: y :: l) d = last (y :: l) d.
Proof. reflexivity. Qed.

Lemma last_split_nl_snoc s c d :
  Ascii.eqb c nl = false -> is_nil (last (split_nl (s ++ [c])) d) = false.
Proof.
  intros Hc. induction s as [|a s IH]; cbn [app split_nl].
  - rewrite Hc. reflexivity.
  - destruct (split_nl (s ++ [c])) as [|h t] eqn:E; [now destruct (split_nl_nonnil (s ++ [c]))|].
    destruct (Ascii.eqb a nl).
    + rewrite last_cons_cons. exact IH.
    + destruct t as [|h2 t]; [reflexivity|]. rewrite last_cons_cons.
      rewrite last_cons_cons in IH. exact IH.
Qed.

Lemma quote_doc_snoc d : quote_doc d = (tq ++ d ++ [dq; dq]) ++ [dq].
Proof. unfold quote_doc, tq. now rewrite <- !app_assoc. Qed.

Lemma splitlines_quote_doc d : splitlines (quote_doc d) = split_nl (quote_doc d).
Proof.
  unfold splitlines. rewrite quote_doc_snoc.
  now rewrite last_split_nl_snoc.
Qed.

(** without [insert_indents] the re-indented docstring is the indentation
    followed by the quoted documentation - for every documentation string *)
Lemma block_docstr_plain bind d : block_docstr bind d false = bind ++ quote_doc d.
Proof.
  unfold block_docstr. rewrite splitlines_quote_doc.
  destruct (split_nl_cons_not_nl dq ([dq; dq] ++ d ++ tq) eq_refl) as (h & t & E1 & E2).
  change (dq :: [dq; dq] ++ d ++ tq) with (quote_doc d) in E2.
  rewrite <- (join_split_nl (quote_doc d)) at 2. rewrite E2.
  cbn [indent_lines_from Nat.eqb orb]. rewrite indent_lines_from_S.
  unfold indent_line. cbn [forallb is_pyspace]. cbn.
  destruct t; cbn [join_nl]; now rewrite <- ?app_assoc.
Qed.

Lemma drender_assoc t :
  drender t = front_text (d_front t) ++ d_bind t ++ doc_lit t ++ d_tail t.
Proof. reflexivity. Qed.

Lemma firstn_front (a b : str) : firstn (List.length a) (a ++ b) = a.
Proof. apply firstn_app_exact. Qed.

Lemma skipn_two {A} (a b c : list A) :
  skipn (List.length a + List.length b) (a ++ b ++ c) = c.
Proof.
  rewrite app_assoc, <- app_length. apply skipn_app_exact.
Qed.

Lemma firstn_two {A} (a b c : list A) :
  firstn (List.length a + List.length b) (a ++ b ++ c) = a ++ b.
Proof.
  rewrite app_assoc, <- app_length. apply firstn_app_exact.
Qed.

Lemma skipn_three {A} (a b c e : list A) :
  skipn (List.length a + List.length b + List.length c) (a ++ b ++ c ++ e) = e.
Proof.
  replace (List.length a + List.length b + List.length c)
    with (List.length a + List.length (b ++ c)) by (rewrite app_length; lia).
  rewrite (app_assoc b). apply skipn_two.
Qed.

(** the edit, for every documentation string [d] and every view [t] *)
Lemma replace_docstring_drender t d :
  replace_docstring (drender t) (dpos_of t) d false = drender (set_doc_text t d).
Proof.
  unfold replace_docstring, dpos_of, drender, set_doc_text, doc_lit.
  cbn [dp_prev_indent dp_has_doc dp_P dp_S dp_E d_front d_bind d_oneline d_doc d_tail].
  destruct (d_oneline t); destruct (d_doc t) as [lit|].
  - (* one line, docstring present *)
    rewrite firstn_two, skipn_three. now rewrite <- !app_assoc.
  - (* one line, no docstring *)
    cbn [app]. rewrite firstn_two, skipn_two. now rewrite <- !app_assoc.
  - (* block, docstring present *)
    rewrite block_docstr_plain, firstn_front, skipn_three. now rewrite <- !app_assoc.
  - (* block, no docstring *)
    cbn [app]. rewrite block_docstr_plain, firstn_front, skipn_app_exact.
    now rewrite <- !app_assoc.
Qed.

(** everything but the docstring statement is kept (text before it: the
    name, the parameters, comments; text after it: the body) *)
Lemma set_doc_text_keeps t d :
  d_front (set_doc_text t d) = d_front t /\ d_bind (set_doc_text t d) = d_bind t /\
  exists sep, d_tail (set_doc_text t d) = sep ++ d_tail t /\
              (d_doc t <> None -> sep = []) /\
              (d_doc t = None -> sep = if d_oneline t then oneline_sep else nl :: d_bind t).
Proof.
  split; [reflexivity|]. split; [reflexivity|].
  unfold set_doc_text. cbn [d_tail].
  destruct (d_doc t) as [lit|].
  - exists []. repeat split; congruence.
  - destruct (d_oneline t).
    + exists oneline_sep. repeat split; congruence.
    + exists (nl :: d_bind t). repeat split; try congruence.
Qed.

(** ** reading the docstring back *)

Lemma prefixb_short p a b :
  List.length p <= List.length a -> prefixb p (a ++ b) = prefixb p a.
Proof.
  revert a. induction p as [|c p IH]; intros a H; [reflexivity|].
  destruct a as [|x a]; cbn in H; [lia|]. cbn. now rewrite IH by lia.
Qed.

Lemma lex_triple_safe d rest :
  forallb plain_char d = true -> no_tq_inside d = true ->
  lex_triple false (d ++ tq ++ rest) = Some (d, rest).
Proof.
  induction d as [|c d IH]; intros Hp Hq.
  - reflexivity.
  - cbn [forallb] in Hp. apply andb_true_iff in Hp as [Hc Hp].
    cbn [no_tq_inside] in Hq. apply andb_true_iff in Hq as [Hq1 Hq].
    apply negb_true_iff in Hq1.
    change ((c :: d) ++ tq ++ rest) with (c :: (d ++ tq ++ rest)).
    cbn [lex_triple].
    assert (E : prefixb tq (c :: d ++ tq ++ rest) = false).
    { change (c :: d ++ tq ++ rest) with ((c :: d) ++ tq ++ rest).
      rewrite app_assoc, prefixb_short; [exact Hq1|].
      rewrite app_length. cbn. lia. }
    rewrite E.
    unfold plain_char in Hc. apply andb_true_iff in Hc as [Hb _].
    apply negb_true_iff in Hb. rewrite Hb.
    now rewrite IH.
Qed.

Lemma read_doc_quote d rest :
  forallb plain_char d = true -> no_tq_inside d = true ->
  read_doc (quote_doc d ++ rest) = Some d.
Proof.
  intros Hp Hq. unfold read_doc, quote_doc.
  rewrite <- !app_assoc. rewrite prefixb_app.
  change (skipn 3 (tq ++ d ++ tq ++ rest)) with (d ++ tq ++ rest).
  now rewrite lex_triple_safe.
Qed.

Lemma safe_doc_parts d :
  safe_doc d = true -> forallb plain_char d = true /\ no_tq_inside d = true.
Proof.
  unfold safe_doc. intros H.
  apply andb_true_iff in H as [H _]. now apply andb_true_iff in H.
Qed.

(** the documentation read back from the edited text, at the offset of the
    first statement, is [d] *)
Lemma read_back t d :
  safe_doc d = true ->
  read_doc (skipn (dp_S (dpos_of t)) (drender (set_doc_text t d))) = Some d.
Proof.
  intros Hs. apply safe_doc_parts in Hs as [Hp Hq].
  unfold dpos_of, drender, set_doc_text, doc_lit.
  cbn [dp_S d_front d_bind d_doc d_tail].
  rewrite skipn_two. now apply read_doc_quote.
Qed.

(** ** lambdas *)

Lemma slice_mid (a b c : str) :
  slice (a ++ b ++ c) (List.length a) (List.length a + List.length b) = b.
Proof.
  unfold slice. rewrite skipn_app_exact.
  replace (List.length a + List.length b - List.length a) with (List.length b) by lia.
  apply firstn_app_exact.
Qed.

Lemma slice_all (s : str) : slice s 0 (List.length s) = s.
Proof. unfold slice. cbn [skipn]. rewrite Nat.sub_0_r. apply firstn_all. Qed.

Record wf_lparts (t : ltext) : Prop := {
  lp_ind : ws_only (l_ind t) = true;
  lp_before : forallb wf_sline (l_before t) = true;
  lp_pre : no_nl (l_pre t) = true;
  lp_lam : no_nl (l_lam t) = true;
  lp_post : no_nl (l_post t) = true;
  lp_anchor : exists c r, l_pre t ++ l_lam t = c :: r /\ is_ws c = false
}.

Lemma wf_ltext_parts t : wf_ltext t = true -> wf_lparts t.
Proof.
  unfold wf_ltext. intros H.
  repeat match type of H with (_ && _) = true => apply andb_true_iff in H as [H ?] end.
  constructor; try assumption.
  destruct (l_pre t ++ l_lam t) as [|c r]; [discriminate|].
  exists c, r. split; [reflexivity|]. now apply negb_true_iff.
Qed.

Lemma lam_line_anchor t :
  wf_lparts t -> wf_sline (Code (lam_line t)) = true /\ lead_ws (lam_line t) = [].
Proof.
  intros W. destruct (lp_anchor t W) as (c & r & E & Hc).
  unfold lam_line. rewrite app_assoc, E. cbn [app wf_sline lead_ws ws_only forallb].
  rewrite Hc. cbn [andb negb]. split; [|reflexivity].
  rewrite andb_true_r.
  change (c :: r ++ l_post t) with ((c :: r) ++ l_post t). rewrite <- E.
  now rewrite !no_nl_app, (lp_pre t W), (lp_lam t W), (lp_post t W).
Qed.

Lemma lrender_eq t :
  lrender t = with_eof (map (rline (l_ind t)) (l_before t ++ Code (lam_line t) :: [])) (l_eofnl t).
Proof. reflexivity. Qed.

Lemma join_nl_snoc (l : list str) (x : str) : join_nl (l ++ [x]) = front_text l ++ x.
Proof.
  unfold front_text. induction l as [|y l IH]; [reflexivity|].
  cbn [app map List.concat]. rewrite <- !app_assoc. cbn [app]. rewrite <- IH.
  destruct l; reflexivity.
Qed.

Lemma with_eof_snoc (l : list str) (x : str) e :
  with_eof (l ++ [x]) e = front_text l ++ x ++ (if e then [nl] else []).
Proof. unfold with_eof. now rewrite join_nl_snoc, <- app_assoc. Qed.

Lemma dedent_lrender t :
  wf_lparts t ->
  dedent (lrender t)
  = front_text (map (rline []) (map blankify (l_before t)))
    ++ l_pre t ++ l_lam t ++ l_post t ++ (if l_eofnl t then [nl] else []).
Proof.
  intros W. rewrite lrender_eq.
  destruct (lam_line_anchor t W) as [Hwf Hl].
  rewrite dedent_block; try assumption; try reflexivity.
  - rewrite map_app. cbn [map dline]. rewrite with_eof_snoc.
    rewrite map_rline_blankify. unfold lam_line. now rewrite <- !app_assoc.
  - apply (lp_ind t W).
  - apply (lp_before t W).
Qed.

(** the stored text of a lambda cells is the lambda expression itself *)
Lemma normalize_lambda_eq t : wf_ltext t = true -> normalize_lambda t = l_lam t.
Proof.
  intros H. apply wf_ltext_parts in H as W.
  unfold normalize_lambda, init_lambda_from_source, extract_lambda_from_source, lam_pos.
  cbn [fst snd]. rewrite dedent_lrender by assumption.
  rewrite (app_assoc (front_text _) (l_pre t)), <- app_length.
  apply slice_mid.
Qed.

(** a text that starts with a non-blank character, has no blank-only line
    and no line feed is left alone by dedent *)
Lemma dedent_line (s : str) c r :
  s = c :: r -> is_ws c = false -> no_nl s = true -> dedent s = s.
Proof.
  intros E Hc Hn.
  pose (t := {| l_ind := []; l_before := []; l_pre := []; l_lam := s; l_post := []; l_eofnl := false |}).
  assert (W : wf_lparts t).
  { constructor; cbn; try reflexivity; try assumption. exists c, r. now split. }
  pose proof (dedent_lrender t W) as D.
  unfold lrender, lam_line in D. cbn in D. rewrite !app_nil_r in D. exact D.
Qed.
