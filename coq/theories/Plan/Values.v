(** Plan layer with values (definitions only).  Same executor as
    [Plan/Model.v], but the cache holds a value next to every flag; a formula
    is any function of the values returned by the calls it makes.  The flag
    part of a run is the run of [Plan/Model.v] (erasure, ProofsValues.v). *)
From Coq Require Import List Arith Bool PeanoNat ZArith.
From MX Require Import Plan.Model.
Import ListNotations.

Definition vstate := node -> option (flag * Z).
Definition formula := node -> list Z -> Z.
Record vxs := mkvxs { vcache : vstate; vlog : list node }.

Definition vupd (st : vstate) (n : node) (v : option (flag * Z)) : vstate :=
  fun m => if Nat.eqb m n then v else st m.

Definition erase (st : vstate) : state :=
  fun n => match st n with Some (f, _) => Some f | None => None end.

Definition erase_x (x : vxs) : xs := mkxs (erase (vcache x)) (vlog x).

(** evaluate a list of nodes in order, collecting the returned values *)
Fixpoint vfold (f : node -> vxs -> res (vxs * Z)) (l : list node) (x : vxs) : res (vxs * list Z) :=
  match l with
  | [] => Ok (x, [])
  | p :: t => match f p x with
              | Ok (x1, v) => match vfold f t x1 with
                              | Ok (x2, vs) => Ok (x2, v :: vs)
                              | OutOfFuel => OutOfFuel
                              end
              | OutOfFuel => OutOfFuel
              end
  end.

Fixpoint veval (g : dag) (fn : formula) (fuel : nat) (n : node) (x : vxs) {struct fuel} : res (vxs * Z) :=
  match fuel with
  | 0 => OutOfFuel
  | S f =>
      match vcache x n with
      | Some (_, v) => Ok (x, v)
      | None =>
          match vfold (veval g fn f) (preds g n) (mkvxs (vcache x) (vlog x ++ [n])) with
          | Ok (x', vs) => let v := fn n vs in
                           Ok (mkvxs (vupd (vcache x') n (Some (Calc, v))) (vlog x'), v)
          | OutOfFuel => OutOfFuel
          end
      end
  end.

Definition vclear_at (g : dag) (n : node) (st : vstate) : vstate :=
  match st n with
  | None => st
  | Some _ => let R := descs g (erase st) n in fun m => if mem m R then None else st m
  end.

Definition vpaste_one (g : dag) (nv : node * Z) (st : vstate) : vstate :=
  vupd (vclear_at g (fst nv) st) (fst nv) (Some (Input, snd nv)).

Definition vexec_action (g : dag) (fn : formula) (fuel : nat) (a : action) (x : vxs) : res vxs :=
  match a with
  | (ACalc, ns) => match vfold (veval g fn fuel) ns x with
                   | Ok (x', _) => Ok x'
                   | OutOfFuel => OutOfFuel
                   end
  | (APaste, ns) =>
      match vfold (veval g fn fuel) ns x with
      | Ok (x', vs) =>
          Ok (mkvxs (fold_left (fun st nv => vpaste_one g nv st) (combine ns vs) (vcache x')) (vlog x'))
      | OutOfFuel => OutOfFuel
      end
  | (AClear, ns) => Ok (mkvxs (fold_left (fun st n => vclear_at g n st) ns (vcache x)) (vlog x))
  end.

Definition vexecute (g : dag) (fn : formula) (fuel : nat) (acts : list action) (x : vxs) : res vxs :=
  fold_res (vexec_action g fn fuel) acts x.

(** a valuation that agrees with every value held at the start and satisfies
    the formula of every element that is not an input at the start *)
Definition consistent (g : dag) (fn : formula) (st0 : vstate) (V : node -> Z) : Prop :=
  (forall n f v, st0 n = Some (f, v) -> V n = v) /\
  (forall n, (forall v, st0 n <> Some (Input, v)) -> V n = fn n (map V (preds g n))).

(** helpers for the correspondence check: formulas of the generated models
    are  base + sum of the calls *)
Fixpoint lookupZ (l : list (nat * Z)) (n : nat) : Z :=
  match l with [] => 0%Z | (m, z) :: t => if Nat.eqb m n then z else lookupZ t n end.

Definition sum_formula (bases : list (nat * Z)) : formula :=
  fun n vs => fold_left Z.add vs (lookupZ bases n).

Fixpoint lookup_init (l : list (nat * (nat * Z))) (n : nat) : option (flag * Z) :=
  match l with
  | [] => None
  | (m, (c, z)) :: t => if Nat.eqb m n then (match c with 1 => Some (Input, z) | 2 => Some (Calc, z) | _ => None end)
                        else lookup_init t n
  end.

Definition vsnapshot (g : dag) (st : vstate) : list (nat * Z) :=
  map (fun n => match st n with None => (0, 0%Z) | Some (Input, z) => (1, z) | Some (Calc, z) => (2, z) end) (nodes g).
