(** Plan layer: the planner [get_calcsteps].  Block view of the index loop,
    loop induction principle, planner invariant, partition, [pasted = []]. *)
From Coq Require Import List Arith Bool PeanoNat Lia.
From MX Require Import Plan.Model Plan.Spec Plan.ProofsBase.
Import ListNotations.

(** ** list slicing *)
Lemma firstn_add : forall {A : Type} a b (l : list A),
  firstn (a + b) l = firstn a l ++ firstn b (skipn a l).
Proof.
  intros A a; induction a as [|a IH]; intros b l; [reflexivity|].
  destruct l as [|x l]; cbn [plus firstn skipn app].
  - rewrite firstn_nil. reflexivity.
  - rewrite IH. reflexivity.
Qed.

Lemma firstn_min_len : forall {A : Type} k (l : list A), firstn (Nat.min (List.length l) k) l = firstn k l.
Proof.
  intros A k l. destruct (Nat.le_gt_cases k (List.length l)) as [H|H].
  - rewrite Nat.min_r by assumption. reflexivity.
  - rewrite Nat.min_l by lia. rewrite firstn_all. symmetry. apply firstn_all2. lia.
Qed.

Lemma NoDup_app_disjoint : forall {A : Type} (l1 l2 : list A) x,
  NoDup (l1 ++ l2) -> In x l1 -> In x l2 -> False.
Proof.
  intros A l1; induction l1 as [|a t IH]; intros l2 x Hnd H1 H2; [contradiction|].
  cbn [app] in Hnd. inversion Hnd as [|? ? Hna Hnd']; subst.
  destruct H1 as [->|H1].
  - apply Hna. apply in_or_app. right; assumption.
  - eapply IH; eassumption.
Qed.

(** ** the body of the loop in terms of the nodes done so far and the block *)
Definition block_step (g : dag) (targets ordered done B pasted : list node) : list node * list action :=
  let is_paste := fun n => mem n targets || has_succ_outside g ordered B n in
  let cur_paste := filter is_paste B in
  let cur_clear := filter (fun n => negb (is_paste n)) B in
  let cur_targets := filter (fun n => mem n targets) B in
  let accum := done ++ B in
  let expired := filter (fun n => negb (has_succ_outside g ordered accum n)) pasted in
  let kept := filter (fun n => has_succ_outside g ordered accum n) pasted in
  (kept ++ filter (fun n => negb (mem n cur_targets)) cur_paste,
   [(ACalc, B); (APaste, rev cur_paste); (AClear, cur_clear ++ expired)]).

Lemma plan_step_block : forall g targets ordered sz step pasted,
  step * sz < List.length ordered ->
  plan_step g targets ordered sz step pasted =
  block_step g targets ordered (firstn (step * sz) ordered)
             (slice (step * sz) (Nat.min (List.length ordered) ((step + 1) * sz)) ordered) pasted.
Proof.
  intros g targets ordered sz step pasted Hlt.
  unfold plan_step, block_step.
  set (start := step * sz). set (stop := Nat.min (List.length ordered) ((step + 1) * sz)).
  assert (Hle : start <= stop) by (unfold start, stop; apply Nat.min_glb; lia).
  assert (Hacc : firstn stop ordered = firstn start ordered ++ slice start stop ordered).
  { unfold slice. rewrite <- firstn_add. f_equal. lia. }
  rewrite Hacc. reflexivity.
Qed.

(** ** induction principle for the loop *)
Lemma loop_inv : forall g targets ordered sz (Inv : list node -> list node -> list action -> Prop),
  (forall done B rest pasted acc, ordered = done ++ B ++ rest -> Inv done pasted acc ->
     Inv (done ++ B) (fst (block_step g targets ordered done B pasted))
         (acc ++ snd (block_step g targets ordered done B pasted))) ->
  forall fuel step pasted acc p a,
    Inv (firstn (step * sz) ordered) pasted acc ->
    calcsteps_loop fuel g targets ordered sz step pasted acc = Ok (p, a) ->
    Inv ordered p a.
Proof.
  intros g targets ordered sz Inv Hstep fuel; induction fuel as [|f IH]; intros step pasted acc p a HI H.
  - cbn [calcsteps_loop] in H. destruct (step * sz <? List.length ordered) eqn:E; [discriminate|].
    apply Nat.ltb_ge in E. inversion H; subst. rewrite firstn_all2 in HI by assumption. assumption.
  - cbn [calcsteps_loop] in H. destruct (step * sz <? List.length ordered) eqn:E.
    + apply Nat.ltb_lt in E. rewrite plan_step_block in H by assumption.
      set (done := firstn (step * sz) ordered) in *.
      set (stop := Nat.min (List.length ordered) ((step + 1) * sz)) in *.
      set (B := slice (step * sz) stop ordered) in *.
      assert (Hle : step * sz <= stop) by (unfold stop; apply Nat.min_glb; lia).
      assert (Hacc : firstn stop ordered = done ++ B).
      { unfold done, B, slice. rewrite <- firstn_add. f_equal. lia. }
      assert (Hsplit : ordered = done ++ B ++ skipn stop ordered).
      { rewrite app_assoc, <- Hacc. symmetry. apply firstn_skipn. }
      pose proof (Hstep done B (skipn stop ordered) pasted acc Hsplit HI) as HI'.
      destruct (block_step g targets ordered done B pasted) as [p' a'] eqn:Eb. cbn [fst snd] in HI'.
      apply IH in H; [assumption|].
      replace (firstn (S step * sz) ordered) with (done ++ B); [assumption|].
      rewrite <- Hacc. unfold stop. rewrite firstn_min_len. f_equal. lia.
    + apply Nat.ltb_ge in E. inversion H; subst. rewrite firstn_all2 in HI by assumption. assumption.
Qed.

Lemma loop_terminates : forall g targets ordered sz, 1 <= sz ->
  forall fuel step pasted acc, List.length ordered <= step * sz + fuel ->
  exists r, calcsteps_loop fuel g targets ordered sz step pasted acc = Ok r.
Proof.
  intros g targets ordered sz Hsz fuel; induction fuel as [|f IH]; intros step pasted acc Hlen;
    cbn [calcsteps_loop]; destruct (step * sz <? List.length ordered) eqn:E.
  - apply Nat.ltb_lt in E. lia.
  - eexists; reflexivity.
  - destruct (plan_step g targets ordered sz step pasted) as [p' a']. apply IH.
    apply Nat.ltb_lt in E. cbn [mult]. lia.
  - eexists; reflexivity.
Qed.

(** ** what the successor test means *)
Definition pending (g : dag) (ordered inside : list node) (q : node) : Prop :=
  exists s, In s ordered /\ In q (preds g s) /\ ~ In s inside.

Lemma has_succ_outside_spec : forall g ordered inside n,
  has_succ_outside g ordered inside n = true <-> pending g ordered inside n.
Proof.
  intros g ordered inside n. unfold has_succ_outside, succs, pending. rewrite existsb_exists. split.
  - intros [s [Hs Hout]]. apply filter_In in Hs. destruct Hs as [Hs Hp].
    exists s. split; [assumption|]. split; [apply mem_In; assumption|].
    apply negb_true_iff in Hout. apply mem_false; assumption.
  - intros [s [Hs [Hp Hout]]]. exists s. split.
    + apply filter_In. split; [assumption|apply mem_In; assumption].
    + apply negb_true_iff. apply mem_false; assumption.
Qed.

Lemma has_succ_outside_false : forall g ordered inside n,
  has_succ_outside g ordered inside n = false <-> ~ pending g ordered inside n.
Proof.
  intros. rewrite <- has_succ_outside_spec. destruct (has_succ_outside g ordered inside n); split; congruence.
Qed.

(** ** consequences of the topological order *)
Lemma topo_pred_before : forall g ordered done rest s p,
  topological g ordered -> ordered = done ++ rest -> In s done ->
  In p (preds g s) -> In p ordered -> In p done.
Proof.
  intros g ordered done rest s p [_ Ht] Ho Hs Hp Hpo.
  apply in_split in Hs. destruct Hs as [d1 [d2 Hd]]. subst done.
  rewrite <- app_assoc in Ho. cbn [app] in Ho.
  pose proof (Ht _ _ _ _ Ho Hp Hpo) as H. apply in_or_app. left; assumption.
Qed.

Lemma topo_succ_not_done : forall g ordered done B rest q s,
  topological g ordered -> ordered = done ++ B ++ rest -> In q B ->
  In s ordered -> In q (preds g s) -> ~ In s done.
Proof.
  intros g ordered done B rest q s Ht Ho Hq Hs Hp Hsd.
  assert (Hqo : In q ordered) by (rewrite Ho; apply in_or_app; right; apply in_or_app; left; assumption).
  pose proof (topo_pred_before g ordered done (B ++ rest) s q Ht Ho Hsd Hp Hqo) as Hqd.
  destruct Ht as [Hnd _]. rewrite Ho in Hnd.
  eapply NoDup_app_disjoint; [exact Hnd|exact Hqd|]. apply in_or_app; left; assumption.
Qed.

(** ** planner invariant *)
Definition inv_plan (g : dag) (targets ordered done pasted : list node) (acc : list action) : Prop :=
  concat (calc_blocks acc) = done /\
  (forall q, In q pasted -> In q done /\ ~ In q targets /\ pending g ordered done q) /\
  (forall q, In q done -> ~ In q targets -> pending g ordered done q -> In q pasted).

Lemma calc_blocks_app : forall a b, calc_blocks (a ++ b) = calc_blocks a ++ calc_blocks b.
Proof. intros; unfold calc_blocks. rewrite filter_app, map_app. reflexivity. Qed.

(** membership in the pieces of a block step *)
Lemma in_cur_targets : forall targets B q,
  In q B -> (mem q (filter (fun n => mem n targets) B) = false <-> ~ In q targets).
Proof.
  intros targets B q Hq. rewrite mem_false. rewrite filter_In. rewrite mem_In. tauto.
Qed.

Lemma block_pasted_In : forall g targets ordered done B pasted q,
  In q (fst (block_step g targets ordered done B pasted)) <->
  (In q pasted /\ pending g ordered (done ++ B) q) \/
  (In q B /\ ~ In q targets /\ pending g ordered B q).
Proof.
  intros g targets ordered done B pasted q. unfold block_step; cbn [fst].
  rewrite in_app_iff, !filter_In. rewrite has_succ_outside_spec.
  split.
  - intros [[H1 H2]|[[H1 H2] H3]]; [left; split; assumption|right].
    apply negb_true_iff in H3. apply (in_cur_targets targets B q H1) in H3.
    split; [assumption|]. split; [assumption|].
    apply orb_true_iff in H2. destruct H2 as [H2|H2].
    + apply mem_In in H2. contradiction.
    + apply has_succ_outside_spec; assumption.
  - intros [[H1 H2]|[H1 [H2 H3]]]; [left; split; assumption|right].
    split; [split; [assumption|]|].
    + apply orb_true_iff. right. apply has_succ_outside_spec; assumption.
    + apply negb_true_iff. apply (in_cur_targets targets B q H1). assumption.
Qed.

Lemma inv_plan_step : forall g targets ordered done B rest pasted acc,
  topological g ordered -> ordered = done ++ B ++ rest ->
  inv_plan g targets ordered done pasted acc ->
  inv_plan g targets ordered (done ++ B) (fst (block_step g targets ordered done B pasted))
           (acc ++ snd (block_step g targets ordered done B pasted)).
Proof.
  intros g targets ordered done B rest pasted acc Ht Ho [Ia [Ib Ic]].
  split; [|split].
  - rewrite calc_blocks_app, concat_app, Ia. unfold block_step; cbn [snd].
    unfold calc_blocks; cbn. rewrite app_nil_r. reflexivity.
  - intros q Hq. apply block_pasted_In in Hq. destruct Hq as [[H1 H2]|[H1 [H2 H3]]].
    + destruct (Ib q H1) as [Hd [Hnt _]]. split; [apply in_or_app; left; assumption|]. split; assumption.
    + split; [apply in_or_app; right; assumption|]. split; [assumption|].
      destruct H3 as [s [Hs [Hp Hout]]]. exists s. split; [assumption|]. split; [assumption|].
      intros Hin. apply in_app_or in Hin. destruct Hin as [Hin|Hin]; [|contradiction].
      eapply topo_succ_not_done; eassumption.
  - intros q Hq Hnt Hpend. apply block_pasted_In.
    apply in_app_or in Hq. destruct Hq as [Hq|Hq].
    + left. split; [|assumption]. apply Ic; [assumption|assumption|].
      destruct Hpend as [s [Hs [Hp Hout]]]. exists s. split; [assumption|]. split; [assumption|].
      intros Hin; apply Hout; apply in_or_app; left; assumption.
    + right. split; [assumption|]. split; [assumption|].
      destruct Hpend as [s [Hs [Hp Hout]]]. exists s. split; [assumption|]. split; [assumption|].
      intros Hin; apply Hout; apply in_or_app; right; assumption.
Qed.

Lemma inv_plan_init : forall g targets ordered sz,
  inv_plan g targets ordered (firstn (0 * sz) ordered) [] [].
Proof.
  intros. cbn [mult firstn]. split; [reflexivity|]. split; intros q H; contradiction.
Qed.

Lemma plan_inv_final : forall g targets ordered sz fuel p a,
  topological g ordered ->
  get_calcsteps fuel g targets ordered sz = Ok (p, a) ->
  inv_plan g targets ordered ordered p a.
Proof.
  intros g targets ordered sz fuel p a Ht H. unfold get_calcsteps in H.
  eapply (loop_inv g targets ordered sz (inv_plan g targets ordered)); [| |exact H].
  - intros; eapply inv_plan_step; eassumption.
  - apply inv_plan_init.
Qed.

(** every node of [ordered] is in exactly one calc step: the calc steps,
    concatenated, are [ordered] itself *)
Lemma plan_partition : forall g targets ordered sz fuel p a,
  get_calcsteps fuel g targets ordered sz = Ok (p, a) ->
  concat (calc_blocks a) = ordered.
Proof.
  intros g targets ordered sz fuel p a H. unfold get_calcsteps in H.
  apply (loop_inv g targets ordered sz (fun done _ acc => concat (calc_blocks acc) = done)) in H; [assumption| |reflexivity].
  intros done B rest pasted acc _ Ia.
  rewrite calc_blocks_app, concat_app, Ia. unfold block_step; cbn [snd].
  unfold calc_blocks; cbn. rewrite app_nil_r. reflexivity.
Qed.

(** the final [assert not pasted] *)
Lemma plan_pasted_empty : forall g targets ordered sz fuel p a,
  topological g ordered ->
  get_calcsteps fuel g targets ordered sz = Ok (p, a) -> p = [].
Proof.
  intros g targets ordered sz fuel p a Ht H.
  destruct (plan_inv_final _ _ _ _ _ _ _ Ht H) as [_ [Ib _]].
  destruct p as [|q t]; [reflexivity|]. exfalso.
  destruct (Ib q (or_introl eq_refl)) as [_ [_ [s [Hs [_ Hout]]]]]. contradiction.
Qed.

Lemma plan_terminates : forall g targets ordered sz fuel,
  1 <= sz -> List.length ordered <= fuel ->
  exists r, get_calcsteps fuel g targets ordered sz = Ok r.
Proof.
  intros. unfold get_calcsteps. apply loop_terminates; [assumption|]. lia.
Qed.
