(** Comparison function evaluated by the generated [cases_*.v] files of the
    C16 correspondence check: runs the Plan model on the order the
    implementation produced and compares every observation. *)
From Coq Require Import List Arith Bool PeanoNat.
From MX Require Import Show.Check Plan.Model.
Import ListNotations.

Definition lnat_eqb := list_eqb Nat.eqb.

Definition act_eqb (a : action) (b : nat * list nat) : bool :=
  Nat.eqb (akind_code (fst a)) (fst b) && lnat_eqb (snd a) (snd b).

Fixpoint acts_eqb (a : list action) (b : list (nat * list nat)) : bool :=
  match a, b with
  | [], [] => true
  | x :: a', y :: b' => act_eqb x y && acts_eqb a' b'
  | _, _ => false
  end.

Fixpoint lookup_code (l : list (nat * nat)) (n : nat) : nat :=
  match l with
  | [] => 0
  | (m, c) :: t => if Nat.eqb m n then c else lookup_code t n
  end.

(** state from codes 0 = no value, 1 = input, 2 = calculated *)
Definition state_of_codes (l : list (nat * nat)) : state :=
  fun n => match lookup_code l n with 1 => Some Input | 2 => Some Calc | _ => None end.

(** observations of run 1 (whole action list at once): action list,
    execution log of generate_actions, state after generate_actions,
    execution log of execute_actions, final state;
    of run 2 (second identical model, one action at a time): its action list
    (networkx may order the same graph differently), state after every action,
    execution log *)
Definition impl_obs :=
  ((list (nat * list nat) * list nat * list nat * list nat * list nat)
   * (list (nat * list nat) * list (list nat) * list nat))%type.

(** case: graph, initial state codes, targets, step size, observations *)
Definition tie_case := (dag * list (nat * nat) * list nat * nat * impl_obs)%type.

Definition order_of (iacts : list (nat * list nat)) : list nat :=
  concat (map snd (filter (fun a => Nat.eqb (fst a) 0) iacts)).

Definition tie_check (c : tie_case) : bool :=
  match c with
  | (g, codes, targets, sz, ((iacts, igenlog, iaftergen, iexeclog, ifinal), (iacts2, isteps, istepslog))) =>
      let st0 := state_of_codes codes in
      let fuel := List.length g + 2 in
      match generate g fuel st0 targets sz (order_of iacts), generate g fuel st0 targets sz (order_of iacts2) with
      | Ok r, Ok r2 =>
          acts_eqb (g_actions r) iacts
          && match g_pasted r with [] => true | _ => false end
          && lnat_eqb (g_calculated r) igenlog
          && check_order g (g_calculated r) (order_of iacts)
          && lnat_eqb (snapshot g (g_state r)) iaftergen
          && match execute g fuel (g_actions r) (mkxs (g_state r) []) with
             | OutOfFuel => false
             | Ok xf => lnat_eqb (snapshot g (cache xf)) ifinal && lnat_eqb (log xf) iexeclog
             end
          && acts_eqb (g_actions r2) iacts2
          && check_order g (g_calculated r2) (order_of iacts2)
          && match execute_trace g fuel (g_actions r2) (mkxs (g_state r2) []) with
             | OutOfFuel => false
             | Ok (sn, xf) => list_eqb lnat_eqb sn isteps && lnat_eqb (log xf) istepslog
             end
      | _, _ => false
      end
  end.

(** what the model computes, for diagnostics *)
Definition tie_show (c : tie_case) :=
  match c with
  | (g, codes, targets, sz, ((iacts, igenlog, iaftergen, iexeclog, ifinal), (iacts2, isteps, istepslog))) =>
      let st0 := state_of_codes codes in
      let fuel := List.length g + 2 in
      match generate g fuel st0 targets sz (order_of iacts), generate g fuel st0 targets sz (order_of iacts2) with
      | Ok r, Ok r2 =>
          Some (map (fun a => (akind_code (fst a), snd a)) (g_actions r), g_pasted r, g_calculated r,
                check_order g (g_calculated r) (order_of iacts), snapshot g (g_state r),
                match execute g fuel (g_actions r) (mkxs (g_state r) []) with
                | OutOfFuel => None
                | Ok xf => Some (snapshot g (cache xf), log xf)
                end,
                map (fun a => (akind_code (fst a), snd a)) (g_actions r2),
                match execute_trace g fuel (g_actions r2) (mkxs (g_state r2) []) with
                | OutOfFuel => None
                | Ok (sn, xf) => Some (sn, log xf)
                end)
      | _, _ => None
      end
  end.

(** ** values: the valued executor of [Plan/Values.v] on the implementation's
    own action list, with formulas  base + sum of calls *)
From Coq Require Import ZArith.
From MX Require Import Plan.Values.

Definition akind_of_code (c : nat) : akind := match c with 0 => ACalc | 1 => APaste | _ => AClear end.

Definition pairZ_eqb (a b : nat * Z) : bool := Nat.eqb (fst a) (fst b) && Z.eqb (snd a) (snd b).

(** graph, initial (node, (code, value)), bases, implementation's actions,
    implementation's final (code, value) per node, direct values of the targets *)
Definition vtie_case :=
  (dag * list (nat * (nat * Z)) * list (nat * Z) * list (nat * list nat) * list (nat * Z) * list (nat * Z))%type.

Definition vtie_check (c : vtie_case) : bool :=
  match c with
  | (g, init, bases, iacts, ifinal, idirect) =>
      let fn := sum_formula bases in
      let fuel := List.length g + 2 in
      let x0 := mkvxs (lookup_init init) [] in
      match vexecute g fn fuel (map (fun a => (akind_of_code (fst a), snd a)) iacts) x0 with
      | OutOfFuel => false
      | Ok x => list_eqb pairZ_eqb (vsnapshot g (vcache x)) ifinal
      end
      && forallb (fun tv => match veval g fn fuel (fst tv) x0 with
                            | Ok (_, v) => Z.eqb v (snd tv)
                            | OutOfFuel => false
                            end) idirect
  end.
