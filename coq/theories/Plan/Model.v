(** Plan layer: memory-optimised runs ([Model.generate_actions],
    [Model.execute_actions], [TraceManager.get_calcsteps];
    modelx/core/model.py:575-615, 617-743, 780-844).
    Definitions only; proofs are in [Plan/Proofs*.v].

    Abstract cache model.  A [dag] gives every element (node) the list of
    elements its formula calls, in call order.  A [state] says which nodes
    hold a value and whether the value is an input ([input_keys]) or was
    calculated.  Values themselves are not modelled (see Plan/Values.v for the
    value layer).  The trace graph of the implementation is not carried
    explicitly: on states reachable by the real system an edge p -> c exists
    exactly when c holds a calculated value and p is called by c, so the
    descendants of a node are the nodes reachable through calculated nodes. *)
From Coq Require Import List Arith Bool PeanoNat.
Import ListNotations.

Definition node := nat.

(** association list: element -> elements its formula calls (call order) *)
Definition dag := list (node * list node).

Fixpoint preds (g : dag) (n : node) : list node :=
  match g with
  | [] => []
  | (m, ps) :: t => if Nat.eqb m n then ps else preds t n
  end.

Definition nodes (g : dag) : list node := map fst g.

Definition mem (n : node) (l : list node) : bool := existsb (Nat.eqb n) l.

Inductive flag := Input | Calc.

Definition state := node -> option flag.

Definition upd (st : state) (n : node) (v : option flag) : state :=
  fun m => if Nat.eqb m n then v else st m.

Definition is_input (st : state) (n : node) : bool :=
  match st n with Some Input => true | _ => false end.

Definition is_calc (st : state) (n : node) : bool :=
  match st n with Some Calc => true | _ => false end.

Inductive res (A : Type) := Ok (a : A) | OutOfFuel.
Arguments Ok {A} a.
Arguments OutOfFuel {A}.

(** executor state: the cache and the log of formula executions, in the
    order in which the formulas were entered (the "ENTER" records of the
    trace stack; also the order in which a counting function called first
    thing by every formula is hit) *)
Record xs := mkxs { cache : state; log : list node }.

Fixpoint fold_res {A B : Type} (f : B -> A -> res A) (l : list B) (a : A) : res A :=
  match l with
  | [] => Ok a
  | b :: t => match f b a with
              | Ok a' => fold_res f t a'
              | OutOfFuel => OutOfFuel
              end
  end.

(** [SystemExecutor.eval_node] (system.py:49-85) for cached cells: a hit
    returns; a miss runs the formula, which calls every precedent in order
    (each call is again a hit or a miss), then stores the value. *)
Fixpoint eval (g : dag) (fuel : nat) (n : node) (x : xs) {struct fuel} : res xs :=
  match fuel with
  | 0 => OutOfFuel
  | S f =>
      match cache x n with
      | Some _ => Ok x
      | None =>
          match fold_res (eval g f) (preds g n) (mkxs (cache x) (log x ++ [n])) with
          | Ok x' => Ok (mkxs (upd (cache x') n (Some Calc)) (log x'))
          | OutOfFuel => OutOfFuel
          end
      end
  end.

(** [TraceGraph.remove_with_descs]: the node and everything reachable from
    it in the trace graph.  One round adds the calculated nodes that call a
    node already collected; [length g] rounds reach the fixed point. *)
Definition desc_step (g : dag) (st : state) (R : list node) : list node :=
  R ++ filter (fun c => is_calc st c && negb (mem c R)
                        && existsb (fun p => mem p R) (preds g c)) (nodes g).

Fixpoint iter {A : Type} (k : nat) (f : A -> A) (a : A) : A :=
  match k with 0 => a | S k' => iter k' f (f a) end.

Definition descs (g : dag) (st : state) (n : node) : list node :=
  iter (List.length g) (desc_step g st) [n].

(** [CellsImpl.clear_value_at] (cells.py:823-826) + [clear_with_descs] +
    [on_clear_trace]: nothing when the node holds no value. *)
Definition clear_at (g : dag) (n : node) (st : state) : state :=
  match st n with
  | None => st
  | Some _ => let R := descs g st n in fun m => if mem m R then None else st m
  end.

(** [set_value_from_key] outside a formula (cells.py:789-795) *)
Definition paste_one (g : dag) (n : node) (st : state) : state :=
  upd (clear_at g n st) n (Some Input).

Inductive akind := ACalc | APaste | AClear.
Definition action := (akind * list node)%type.

(** one step of [execute_actions] (model.py:715-740) *)
Definition exec_action (g : dag) (fuel : nat) (a : action) (x : xs) : res xs :=
  match a with
  | (ACalc, ns) => fold_res (eval g fuel) ns x
  | (APaste, ns) =>
      (* first read every value (a read of a missing value computes it) ... *)
      match fold_res (eval g fuel) ns x with
      | Ok x' =>
          (* ... then assign them one by one *)
          Ok (mkxs (fold_left (fun st n => paste_one g n st) ns (cache x')) (log x'))
      | OutOfFuel => OutOfFuel
      end
  | (AClear, ns) => Ok (mkxs (fold_left (fun st n => clear_at g n st) ns (cache x)) (log x))
  end.

Definition execute (g : dag) (fuel : nat) (acts : list action) (x : xs) : res xs :=
  fold_res (exec_action g fuel) acts x.

(** ** The planner, [get_calcsteps] (model.py:780-844) *)

(** [subgraph.successors(n)]: the traced nodes whose formula called [n] *)
Definition succs (g : dag) (ordered : list node) (n : node) : list node :=
  filter (fun s => mem n (preds g s)) ordered.

(** [for suc in subgraph.successors(n): if suc not in inside: paste = True] *)
Definition has_succ_outside (g : dag) (ordered inside : list node) (n : node) : bool :=
  existsb (fun s => negb (mem s inside)) (succs g ordered n).

(** Python [l[start:stop]] for [0 <= start], [0 <= stop] *)
Definition slice {A : Type} (start stop : nat) (l : list A) : list A :=
  firstn (stop - start) (skipn start l).

(** body of the [while] loop; returns the new [pasted] list and the three
    actions of the block *)
Definition plan_step (g : dag) (targets ordered : list node) (sz step : nat)
           (pasted : list node) : list node * list action :=
  let node_len := List.length ordered in
  let start := step * sz in
  let stop := Nat.min node_len ((step + 1) * sz) in
  let cur_block := slice start stop ordered in
  let is_paste := fun n => mem n targets || has_succ_outside g ordered cur_block n in
  let cur_paste := filter is_paste cur_block in
  let cur_clear := filter (fun n => negb (is_paste n)) cur_block in
  let cur_targets := filter (fun n => mem n targets) cur_block in
  let accum := firstn stop ordered in
  let expired := filter (fun n => negb (has_succ_outside g ordered accum n)) pasted in
  let kept := filter (fun n => has_succ_outside g ordered accum n) pasted in
  let pasted' := kept ++ filter (fun n => negb (mem n cur_targets)) cur_paste in
  (pasted', [(ACalc, cur_block); (APaste, rev cur_paste); (AClear, cur_clear ++ expired)]).

(** [while step * step_size < node_len]; the loop does not terminate for
    [step_size = 0], hence fuel *)
Fixpoint calcsteps_loop (fuel : nat) (g : dag) (targets ordered : list node) (sz step : nat)
         (pasted : list node) (acc : list action) : res (list node * list action) :=
  if step * sz <? List.length ordered then
    match fuel with
    | 0 => OutOfFuel
    | S f =>
        let '(pasted', acts) := plan_step g targets ordered sz step pasted in
        calcsteps_loop f g targets ordered sz (S step) pasted' (acc ++ acts)
    end
  else Ok (pasted, acc).

(** result: the final [pasted] list (the code asserts it is empty) and the
    action list *)
Definition get_calcsteps (fuel : nat) (g : dag) (targets ordered : list node) (sz : nat)
  : res (list node * list action) :=
  calcsteps_loop fuel g targets ordered sz 0 [] [].

(** ** [generate_actions] (model.py:593-615)
    [ordered] is what [nx.topological_sort(subgraph)] returned; it is an
    input of the model, constrained by [check_order] below. *)
Record gen := mkgen { g_actions : list action; g_pasted : list node;
                      g_calculated : list node; g_state : state }.

Definition generate (g : dag) (fuel : nat) (st0 : state) (targets : list node) (sz : nat)
           (ordered : list node) : res gen :=
  let calc_targets := filter (fun t => negb (is_input st0 t)) targets in
  match fold_res (eval g fuel) calc_targets (mkxs st0 []) with
  | OutOfFuel => OutOfFuel
  | Ok x =>
      let calculated := log x in
      match get_calcsteps fuel g calc_targets ordered sz with
      | OutOfFuel => OutOfFuel
      | Ok (pasted, acts) =>
          Ok (mkgen acts pasted calculated
                    (fold_left (fun st n => clear_at g n st) calculated (cache x)))
      end
  end.

(** what is assumed of networkx: [ordered] lists every traced node once and
    every node after the traced nodes it calls *)
Fixpoint topo_ok (g : dag) (all seen l : list node) : bool :=
  match l with
  | [] => true
  | n :: t => forallb (fun p => negb (mem p all) || mem p seen) (preds g n)
              && negb (mem n seen) && topo_ok g all (n :: seen) t
  end.

Definition check_order (g : dag) (calculated ordered : list node) : bool :=
  topo_ok g ordered [] ordered
  && forallb (fun n => mem n ordered) calculated
  && forallb (fun n => mem n calculated) ordered.

(** ** helpers for the correspondence check *)
Definition calc_blocks (acts : list action) : list (list node) :=
  map snd (filter (fun a => match fst a with ACalc => true | _ => false end) acts).

Definition state_of (inputs : list node) : state :=
  fun n => if mem n inputs then Some Input else None.

Definition flag_code (o : option flag) : nat :=
  match o with None => 0 | Some Input => 1 | Some Calc => 2 end.

(** the state on the nodes of the graph, as codes 0/1/2 *)
Definition snapshot (g : dag) (st : state) : list nat := map (fun n => flag_code (st n)) (nodes g).

Definition akind_code (k : akind) : nat := match k with ACalc => 0 | APaste => 1 | AClear => 2 end.

(** run the actions one by one, returning the snapshot after each and the final log *)
Fixpoint execute_trace (g : dag) (fuel : nat) (acts : list action) (x : xs)
  : res (list (list nat) * xs) :=
  match acts with
  | [] => Ok ([], x)
  | a :: t => match exec_action g fuel a x with
              | OutOfFuel => OutOfFuel
              | Ok x' => match execute_trace g fuel t x' with
                         | OutOfFuel => OutOfFuel
                         | Ok (sn, xf) => Ok (snapshot g (cache x') :: sn, xf)
                         end
              end
  end.
