(** Plan layer: executing the planned actions.  Block-wise simulation:
    after every block exactly the targets seen so far and the elements of
    the running [pasted] list hold (input) values, every formula ran once. *)
From Coq Require Import List Arith Bool PeanoNat Lia.
From MX Require Import Plan.Model Plan.Spec Plan.ProofsBase Plan.ProofsPlan.
Import ListNotations.

(** what the run relies on: [ordered] is topological, its nodes hold nothing
    at the start, everything they call outside [ordered] holds a value, and
    the start state is well formed *)
Definition run_hyps (g : dag) (st0 : state) (ordered : list node) : Prop :=
  topological g ordered /\
  (forall n, In n ordered -> st0 n = None) /\
  (forall n p, In n ordered -> In p (preds g n) -> ~ In p ordered -> st0 p <> None) /\
  wf_state g st0.

(** state between two blocks *)
Definition J (st0 : state) (targets ordered done pasted : list node) (x : xs) : Prop :=
  log x = done /\
  (forall n, ~ In n ordered -> cache x n = st0 n) /\
  (forall n, In n done -> In n targets \/ In n pasted -> cache x n = Some Input) /\
  (forall n, In n ordered -> ~ In n done -> cache x n = None) /\
  (forall n, In n done -> ~ In n targets -> ~ In n pasted -> cache x n = None).

(** states that agree with [st0] outside [ordered] satisfy the closure
    condition of the [*_inside] lemmas *)
Lemma closure_from_agree : forall g st0 ordered (st : state),
  run_hyps g st0 ordered ->
  (forall n, ~ In n ordered -> st n = st0 n) ->
  forall c p, st c = Some Calc -> In p (preds g c) -> In p ordered -> In c ordered.
Proof.
  intros g st0 ordered st [_ [Hfresh [_ Hwf]]] Hag c p Hc Hp Hpo.
  destruct (In_dec_node c ordered) as [Hin|Hout]; [assumption|exfalso].
  rewrite (Hag c Hout) in Hc. apply (Hwf c p Hc Hp). apply Hfresh; assumption.
Qed.

(** ** calc phase *)
Lemma calc_block : forall g f B x,
  NoDup B ->
  (forall n, In n B -> cache x n = None) ->
  (forall l1 n l2 p, B = l1 ++ n :: l2 -> In p (preds g n) -> cache x p <> None \/ In p l1) ->
  exists x', fold_res (eval g (S (S f))) B x = Ok x' /\ log x' = log x ++ B /\
             forall m, cache x' m = if mem m B then Some Calc else cache x m.
Proof.
  intros g f B; induction B as [|n t IH]; intros x Hnd Hnone Hready.
  - exists x. split; [reflexivity|]. split; [rewrite app_nil_r; reflexivity|]. intros m; reflexivity.
  - inversion Hnd as [|? ? Hnt Hndt]; subst.
    assert (Hn : cache x n = None) by (apply Hnone; left; reflexivity).
    assert (Hp : forall p, In p (preds g n) -> cache x p <> None).
    { intros p Hp. destruct (Hready [] n t p eq_refl Hp) as [H|[]]. assumption. }
    cbn [fold_res]. rewrite (eval_miss_ready g f n x Hn Hp).
    set (x1 := mkxs (upd (cache x) n (Some Calc)) (log x ++ [n])).
    destruct (IH x1 Hndt) as [x' [He [Hl Hc]]].
    + intros m Hm. unfold x1; cbn [cache]. rewrite upd_other; [apply Hnone; right; assumption|].
      intros ->; contradiction.
    + intros l1 m l2 p Ht Hpm. subst t.
      destruct (Hready (n :: l1) m l2 p eq_refl Hpm) as [H|[H|H]].
      * left. unfold x1; cbn [cache]. destruct (Nat.eq_dec p n) as [->|Hne].
        -- rewrite upd_same; discriminate.
        -- rewrite upd_other by assumption; assumption.
      * subst p. left. unfold x1; cbn [cache]. rewrite upd_same; discriminate.
      * right; assumption.
    + exists x'. split; [assumption|]. split.
      * rewrite Hl. unfold x1; cbn [log]. rewrite <- app_assoc. reflexivity.
      * intros m. rewrite Hc. unfold x1; cbn [cache].
        change (mem m (n :: t)) with (Nat.eqb m n || mem m t).
        destruct (Nat.eq_dec m n) as [->|Hne].
        -- rewrite Nat.eqb_refl. cbn [orb]. rewrite upd_same. destruct (mem n t); reflexivity.
        -- rewrite upd_other by assumption. apply Nat.eqb_neq in Hne. rewrite Hne. reflexivity.
Qed.

(** ** one block *)
Lemma NoDup_app_l : forall {A : Type} (a b : list A), NoDup (a ++ b) -> NoDup a.
Proof.
  intros A a; induction a as [|x t IH]; intros b H; [constructor|].
  cbn [app] in H. inversion H as [|? ? Hx Ht]; subst. constructor.
  - intros Hin. apply Hx. apply in_or_app; left; assumption.
  - eapply IH; eassumption.
Qed.

Lemma NoDup_app_r : forall {A : Type} (a b : list A), NoDup (a ++ b) -> NoDup b.
Proof.
  intros A a; induction a as [|x t IH]; intros b H; [assumption|].
  cbn [app] in H. inversion H; subst. apply IH; assumption.
Qed.

Lemma NoDup_mid : forall {A : Type} (a b c : list A), NoDup (a ++ b ++ c) -> NoDup b.
Proof.
  intros A a b c H. apply NoDup_app_r in H. apply NoDup_app_l in H. assumption.
Qed.

Lemma block_exec : forall g st0 targets ordered done B rest pasted acc f x,
  run_hyps g st0 ordered ->
  ordered = done ++ B ++ rest ->
  inv_plan g targets ordered done pasted acc ->
  J st0 targets ordered done pasted x ->
  exists x', execute g (S (S f)) (snd (block_step g targets ordered done B pasted)) x = Ok x' /\
             J st0 targets ordered (done ++ B) (fst (block_step g targets ordered done B pasted)) x'.
Proof.
  intros g st0 targets ordered done B rest pasted acc f x Hrun Ho [_ [Ib Ic]] [J1 [J2 [J3 [J4 J5]]]].
  pose proof Hrun as [Ht [Hfresh [Hclosed Hwf]]].
  pose proof Ht as [Hnd Htopo].
  assert (HB_ord : forall n, In n B -> In n ordered).
  { intros n Hn. rewrite Ho. apply in_or_app; right; apply in_or_app; left; assumption. }
  assert (Hdone_ord : forall n, In n done -> In n ordered).
  { intros n Hn. rewrite Ho. apply in_or_app; left; assumption. }
  assert (Hdisj : forall n, In n done -> In n B -> False).
  { intros n Hd HnB. rewrite Ho in Hnd. eapply NoDup_app_disjoint; [exact Hnd|exact Hd|].
    apply in_or_app; left; assumption. }
  assert (HndB : NoDup B) by (rewrite Ho in Hnd; eapply NoDup_mid; eassumption).
  (* ---- calc phase *)
  destruct (calc_block g f B x HndB) as [xc [Hec [Hlc Hcc]]].
  { intros n Hn. apply J4; [apply HB_ord; assumption|]. intros Hd; eapply Hdisj; eassumption. }
  { intros l1 n l2 p HBs Hp.
    destruct (In_dec_node p ordered) as [Hpo|Hpo].
    - assert (Ho' : ordered = (done ++ l1) ++ n :: (l2 ++ rest)).
      { rewrite Ho, HBs. rewrite <- !app_assoc. cbn [app]. reflexivity. }
      pose proof (Htopo _ _ _ _ Ho' Hp Hpo) as Hin. apply in_app_or in Hin.
      destruct Hin as [Hd|Hl]; [left|right; assumption].
      assert (HnB : In n B) by (rewrite HBs; apply in_or_app; right; left; reflexivity).
      destruct (In_dec_node p targets) as [Hpt|Hpt].
      + rewrite (J3 p Hd (or_introl Hpt)); discriminate.
      + assert (Hpp : In p pasted).
        { apply Ic; [assumption|assumption|]. exists n. split; [apply HB_ord; assumption|].
          split; [assumption|]. intros Hnd'; eapply Hdisj; eassumption. }
        rewrite (J3 p Hd (or_intror Hpp)); discriminate.
    - left. rewrite (J2 p Hpo). apply (Hclosed n p); [|assumption|assumption].
      apply HB_ord. rewrite HBs. apply in_or_app; right; left; reflexivity. }
  (* names for the pieces of the block step *)
  unfold block_step; cbn [fst snd].
  set (is_paste := fun n => mem n targets || has_succ_outside g ordered B n).
  set (cur_paste := filter is_paste B).
  set (cur_clear := filter (fun n => negb (is_paste n)) B).
  set (expired := filter (fun n => negb (has_succ_outside g ordered (done ++ B) n)) pasted).
  set (pasted' := filter (fun n => has_succ_outside g ordered (done ++ B) n) pasted ++
                  filter (fun n => negb (mem n (filter (fun n0 => mem n0 targets) B))) cur_paste).
  assert (Hp'In : forall q, In q pasted' <->
            (In q pasted /\ pending g ordered (done ++ B) q) \/
            (In q B /\ ~ In q targets /\ pending g ordered B q)).
  { intros q. exact (block_pasted_In g targets ordered done B pasted q). }
  (* ---- paste phase: every read is a hit *)
  assert (Hreads : fold_res (eval g (S (S f))) (rev cur_paste) xc = Ok xc).
  { apply fold_eval_hits. intros p Hp. apply in_rev in Hp. apply filter_In in Hp. destruct Hp as [Hp _].
    rewrite Hcc. apply mem_In in Hp. rewrite Hp. discriminate. }
  set (cp := paste_list g (rev cur_paste) (cache xc)).
  set (cf := clear_list g (cur_clear ++ expired) cp).
  exists (mkxs cf (log xc)).
  split.
  { unfold execute. cbn [fold_res exec_action]. rewrite Hec. rewrite Hreads. reflexivity. }
  (* ---- facts about the three states *)
  assert (Hxc_out : forall n, ~ In n B -> cache xc n = cache x n).
  { intros n Hn. rewrite Hcc. apply mem_false in Hn. rewrite Hn. reflexivity. }
  assert (Hxc_in : forall n, In n B -> cache xc n = Some Calc).
  { intros n Hn. rewrite Hcc. apply mem_In in Hn. rewrite Hn. reflexivity. }
  assert (Hcp_sub : forall n, In n (rev cur_paste) -> In n ordered).
  { intros n Hn. apply in_rev in Hn. apply filter_In in Hn. apply HB_ord; tauto. }
  assert (Hag_xc : forall n, ~ In n ordered -> cache xc n = st0 n).
  { intros n Hn. rewrite Hxc_out; [apply J2; assumption|]. intros HnB; apply Hn, HB_ord; assumption. }
  assert (Hag_cp : forall n, ~ In n ordered -> cp n = st0 n).
  { intros n Hn. unfold cp. rewrite (paste_list_inside g _ _ ordered Hcp_sub); [apply Hag_xc; assumption| |assumption].
    eapply closure_from_agree; eassumption. }
  assert (Hexp_sub : forall n, In n expired -> In n pasted /\ ~ pending g ordered (done ++ B) n).
  { intros n Hn. apply filter_In in Hn. destruct Hn as [Hn Hh]. split; [assumption|].
    apply negb_true_iff in Hh. apply has_succ_outside_false; assumption. }
  assert (Hcl_sub : forall n, In n (cur_clear ++ expired) -> In n ordered).
  { intros n Hn. apply in_app_or in Hn. destruct Hn as [Hn|Hn].
    - apply filter_In in Hn. apply HB_ord; tauto.
    - apply Hexp_sub in Hn. apply Hdone_ord. apply Ib; tauto. }
  assert (His_paste : forall n, In n B -> (is_paste n = true <-> In n targets \/ pending g ordered B n)).
  { intros n Hn. unfold is_paste. rewrite orb_true_iff, mem_In, has_succ_outside_spec. tauto. }
  split; [cbn [log]; rewrite Hlc, J1; reflexivity|]. cbn [cache].
  split; [|split; [|split]].
  - (* outside [ordered] nothing changes *)
    intros n Hn. unfold cf. rewrite (clear_list_inside g _ _ ordered Hcl_sub); [apply Hag_cp; assumption| |assumption].
    eapply closure_from_agree; eassumption.
  - (* targets and pasted elements hold input values *)
    intros n Hn Hor.
    apply in_app_or in Hn. destruct Hn as [Hd|HnB].
    + assert (HnotB : ~ In n B) by (intros HnB; eapply Hdisj; eassumption).
      assert (Hx : cache x n = Some Input).
      { apply J3; [assumption|]. destruct Hor as [Hor|Hor]; [left; assumption|].
        apply Hp'In in Hor. destruct Hor as [[Hor _]|[Hor _]]; [right; assumption|contradiction]. }
      unfold cf. apply clear_list_input.
      * intros Hin. apply in_app_or in Hin. destruct Hin as [Hin|Hin].
        -- apply filter_In in Hin. tauto.
        -- apply Hexp_sub in Hin. destruct Hin as [Hinp Hnpend].
           destruct Hor as [Hor|Hor]; [apply (Ib n Hinp); assumption|].
           apply Hp'In in Hor. destruct Hor as [[_ Hor]|[Hor _]]; contradiction.
      * unfold cp. apply paste_list_input_stays. rewrite Hxc_out by assumption. assumption.
    + assert (Hip : is_paste n = true).
      { apply His_paste; [assumption|]. destruct Hor as [Hor|Hor]; [left; assumption|].
        apply Hp'In in Hor. destruct Hor as [[Hor _]|[_ [_ Hor]]]; [|right; assumption].
        exfalso. eapply Hdisj; [|exact HnB]. apply Ib; assumption. }
      unfold cf. apply clear_list_input.
      * intros Hin. apply in_app_or in Hin. destruct Hin as [Hin|Hin].
        -- apply filter_In in Hin. destruct Hin as [_ Hin]. rewrite Hip in Hin. discriminate.
        -- apply Hexp_sub in Hin. destruct Hin as [Hinp _]. eapply Hdisj; [|exact HnB]. apply Ib; assumption.
      * unfold cp. apply paste_list_pasted. apply -> in_rev. apply filter_In. split; assumption.
  - (* nodes of later blocks hold nothing *)
    intros n Hno Hnd'.
    assert (Hnd0 : ~ In n done) by (intros H; apply Hnd'; apply in_or_app; left; assumption).
    assert (HnB : ~ In n B) by (intros H; apply Hnd'; apply in_or_app; right; assumption).
    unfold cf. apply clear_list_none.
    assert (Hxcn : cache xc n = None) by (rewrite Hxc_out by assumption; apply J4; assumption).
    destruct (paste_list_other g (rev cur_paste) (cache xc) n) as [H|[H _]].
    { intros Hin. apply in_rev in Hin. apply filter_In in Hin. tauto. }
    { unfold cp. rewrite H. assumption. }
    { assumption. }
  - (* everything else of the blocks done so far has been cleared *)
    intros n Hn Hnt Hnp.
    apply in_app_or in Hn. destruct Hn as [Hd|HnB].
    + assert (HnotB : ~ In n B) by (intros HnB; eapply Hdisj; eassumption).
      destruct (In_dec_node n pasted) as [Hinp|Hinp].
      * unfold cf. apply clear_list_cleared. apply in_or_app; right. apply filter_In. split; [assumption|].
        apply negb_true_iff. apply has_succ_outside_false. intros Hpend. apply Hnp. apply Hp'In. left; split; assumption.
      * unfold cf. apply clear_list_none.
        assert (Hxcn : cache xc n = None) by (rewrite Hxc_out by assumption; apply J5; assumption).
        destruct (paste_list_other g (rev cur_paste) (cache xc) n) as [H|[H _]].
        { intros Hin. apply in_rev in Hin. apply filter_In in Hin. tauto. }
        { unfold cp. rewrite H. assumption. }
        { assumption. }
    + unfold cf. apply clear_list_cleared. apply in_or_app; left. apply filter_In. split; [assumption|].
      apply negb_true_iff. destruct (is_paste n) eqn:E; [|reflexivity]. exfalso.
      apply (His_paste n HnB) in E. destruct E as [E|E]; [contradiction|].
      apply Hnp. apply Hp'In. right. split; [assumption|]. split; assumption.
Qed.

(** ** the whole plan *)
Lemma J_init : forall g st0 targets ordered x0,
  run_hyps g st0 ordered -> log x0 = [] -> (forall n, cache x0 n = st0 n) ->
  J st0 targets ordered [] [] x0.
Proof.
  intros g st0 targets ordered x0 [_ [Hfresh _]] Hl Hc. unfold J.
  split; [assumption|]. split; [intros; apply Hc|]. split; [intros n []|]. split; [|intros n []].
  intros n Hn _. rewrite Hc. apply Hfresh; assumption.
Qed.

Lemma exec_plan : forall g st0 targets ordered sz fuel f p a x0,
  run_hyps g st0 ordered -> log x0 = [] -> (forall n, cache x0 n = st0 n) ->
  get_calcsteps fuel g targets ordered sz = Ok (p, a) ->
  exists x, execute g (S (S f)) a x0 = Ok x /\ J st0 targets ordered ordered p x.
Proof.
  intros g st0 targets ordered sz fuel f p a x0 Hrun Hl0 Hc0 H. unfold get_calcsteps in H.
  pose proof Hrun as [Ht _].
  pose (Inv := fun done pasted acc =>
                 inv_plan g targets ordered done pasted acc /\
                 exists x, execute g (S (S f)) acc x0 = Ok x /\ J st0 targets ordered done pasted x).
  assert (HInv : Inv ordered p a).
  { eapply (loop_inv g targets ordered sz Inv); [| |exact H].
    - intros done B rest pasted acc Ho [Hip [x [Hex HJ]]]. split.
      + eapply inv_plan_step; eassumption.
      + destruct (block_exec g st0 targets ordered done B rest pasted acc f x Hrun Ho Hip HJ) as [x' [Hex' HJ']].
        exists x'. split; [|assumption]. unfold execute in *. eapply fold_res_app_ok; eassumption.
    - split; [apply inv_plan_init|]. exists x0. split; [reflexivity|].
      cbn [mult firstn]. eapply J_init; eassumption. }
  destruct HInv as [_ Hx]. exact Hx.
Qed.

(** final state and execution log of a planned run, for any amount of fuel
    that lets it finish *)
Lemma exec_plan_result : forall g st0 targets ordered sz fuel fuel' p a x0 x,
  run_hyps g st0 ordered -> log x0 = [] -> (forall n, cache x0 n = st0 n) ->
  get_calcsteps fuel g targets ordered sz = Ok (p, a) ->
  execute g fuel' a x0 = Ok x ->
  log x = ordered /\
  (forall n, ~ In n ordered -> cache x n = st0 n) /\
  (forall n, In n ordered -> In n targets -> cache x n = Some Input) /\
  (forall n, In n ordered -> ~ In n targets -> cache x n = None).
Proof.
  intros g st0 targets ordered sz fuel fuel' p a x0 x Hrun Hl0 Hc0 Hp Hx.
  destruct (exec_plan g st0 targets ordered sz fuel fuel' p a x0 Hrun Hl0 Hc0 Hp) as [x' [Hx' HJ]].
  assert (x = x').
  { apply (execute_mono g fuel' (S (S fuel'))) in Hx; [|lia]. congruence. }
  subst x'. pose proof Hrun as [Ht _].
  assert (p = []) by (eapply plan_pasted_empty; eassumption). subst p.
  destruct HJ as [J1 [J2 [J3 [_ J5]]]].
  split; [assumption|]. split; [assumption|]. split.
  - intros n Hn Hnt. apply J3; [assumption|left; assumption].
  - intros n Hn Hnt. apply J5; [assumption|assumption|intros []].
Qed.

Lemma exec_plan_terminates : forall g st0 targets ordered sz fuel fuel' p a x0,
  run_hyps g st0 ordered -> log x0 = [] -> (forall n, cache x0 n = st0 n) ->
  get_calcsteps fuel g targets ordered sz = Ok (p, a) ->
  2 <= fuel' ->
  exists x, execute g fuel' a x0 = Ok x.
Proof.
  intros g st0 targets ordered sz fuel fuel' p a x0 Hrun Hl0 Hc0 Hp Hf.
  destruct fuel' as [|[|f]]; try lia.
  destruct (exec_plan g st0 targets ordered sz fuel f p a x0 Hrun Hl0 Hc0 Hp) as [x [Hx _]]. exists x; assumption.
Qed.
