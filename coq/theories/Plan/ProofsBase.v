(** Plan layer, basic lemmas: membership, [fold_res], the lazy evaluator
    [eval], [clear_at] / [paste_one]. *)
From Coq Require Import List Arith Bool PeanoNat Lia.
From MX Require Import Plan.Model.
Import ListNotations.

Lemma mem_In : forall n l, mem n l = true <-> In n l.
Proof.
  intros n l; unfold mem; rewrite existsb_exists; split.
  - intros [x [Hx He]]. apply Nat.eqb_eq in He. subst; assumption.
  - intros Hn. exists n. split; [assumption|apply Nat.eqb_refl].
Qed.

Lemma mem_false : forall n l, mem n l = false <-> ~ In n l.
Proof.
  intros n l; split.
  - intros Hf Hin. apply mem_In in Hin. congruence.
  - intros Hn. destruct (mem n l) eqn:E; [|reflexivity]. apply mem_In in E. contradiction.
Qed.

Lemma In_dec_node : forall (n : node) l, {In n l} + {~ In n l}.
Proof. intros; apply in_dec, Nat.eq_dec. Qed.

Lemma upd_same : forall st n v, upd st n v n = v.
Proof. intros; unfold upd; rewrite Nat.eqb_refl; reflexivity. Qed.

Lemma upd_other : forall st n v m, m <> n -> upd st n v m = st m.
Proof. intros st n v m H; unfold upd. apply Nat.eqb_neq in H. rewrite H. reflexivity. Qed.

(** ** fold_res *)
Lemma fold_res_app : forall {A B : Type} (f : B -> A -> res A) l1 l2 a r,
  fold_res f (l1 ++ l2) a = Ok r ->
  exists a1, fold_res f l1 a = Ok a1 /\ fold_res f l2 a1 = Ok r.
Proof.
  intros A B f l1; induction l1 as [|b t IH]; intros l2 a r H; simpl in *.
  - exists a; split; [reflexivity|assumption].
  - destruct (f b a) as [a'|] eqn:E; [|discriminate]. apply IH in H. exact H.
Qed.

Lemma fold_res_app_ok : forall {A B : Type} (f : B -> A -> res A) l1 l2 a a1 r,
  fold_res f l1 a = Ok a1 -> fold_res f l2 a1 = Ok r -> fold_res f (l1 ++ l2) a = Ok r.
Proof.
  intros A B f l1; induction l1 as [|b t IH]; intros l2 a a1 r H1 H2; simpl in *.
  - inversion H1; subst; assumption.
  - destruct (f b a) as [a'|] eqn:E; [|discriminate]. eapply IH; eassumption.
Qed.

(** ** eval: more fuel never changes an answer *)
Lemma fold_res_mono : forall {A B : Type} (f f' : B -> A -> res A),
  (forall b a r, f b a = Ok r -> f' b a = Ok r) ->
  forall l a r, fold_res f l a = Ok r -> fold_res f' l a = Ok r.
Proof.
  intros A B f f' Hff l; induction l as [|b t IH]; intros a r H; simpl in *; [assumption|].
  destruct (f b a) as [a'|] eqn:E; [|discriminate].
  rewrite (Hff _ _ _ E). apply IH; assumption.
Qed.

Lemma eval_mono : forall g f f' n x r, f <= f' -> eval g f n x = Ok r -> eval g f' n x = Ok r.
Proof.
  intros g f; induction f as [|f IH]; intros f' n x r Hle H; [discriminate|].
  destruct f' as [|f']; [lia|]. simpl in *.
  destruct (cache x n); [assumption|].
  destruct (fold_res (eval g f) (preds g n) _) as [x'|] eqn:E; [|discriminate].
  rewrite (fold_res_mono (eval g f) (eval g f') (fun b a r0 => IH f' b a r0 ltac:(lia)) _ _ _ E).
  assumption.
Qed.

Lemma exec_action_mono : forall g f f' a x r, f <= f' ->
  exec_action g f a x = Ok r -> exec_action g f' a x = Ok r.
Proof.
  intros g f f' [k ns] x r Hle H; destruct k; simpl in *.
  - eapply fold_res_mono; [|eassumption]. intros; eapply eval_mono; eassumption.
  - destruct (fold_res (eval g f) ns x) as [x'|] eqn:E; [|discriminate].
    rewrite (fold_res_mono (eval g f) (eval g f') (fun b a r0 => eval_mono g f f' b a r0 Hle) _ _ _ E).
    assumption.
  - assumption.
Qed.

Lemma execute_mono : forall g f f' acts x r, f <= f' ->
  execute g f acts x = Ok r -> execute g f' acts x = Ok r.
Proof.
  intros g f f' acts x r Hle H. unfold execute in *.
  eapply fold_res_mono; [|eassumption]. intros; eapply exec_action_mono; eassumption.
Qed.

(** ** eval when nothing is missing below *)
Lemma eval_hit : forall g f n x, cache x n <> None -> eval g (S f) n x = Ok x.
Proof. intros g f n x H; simpl. destruct (cache x n); [reflexivity|congruence]. Qed.

Lemma fold_eval_hits : forall g f ns x,
  (forall p, In p ns -> cache x p <> None) -> fold_res (eval g (S f)) ns x = Ok x.
Proof.
  intros g f ns; induction ns as [|p t IH]; intros x H; [reflexivity|].
  cbn [fold_res]. rewrite eval_hit by (apply H; left; reflexivity).
  apply IH. intros q Hq; apply H; right; assumption.
Qed.

Lemma eval_miss_ready : forall g f n x,
  cache x n = None -> (forall p, In p (preds g n) -> cache x p <> None) ->
  eval g (S (S f)) n x = Ok (mkxs (upd (cache x) n (Some Calc)) (log x ++ [n])).
Proof.
  intros g f n x Hn Hp. remember (S f) as f1 eqn:Ef. cbn [eval]. rewrite Hn. subst f1.
  rewrite fold_eval_hits by (cbn [cache]; assumption). reflexivity.
Qed.

(** ** descendants, clear_at *)
Lemma iter_inv : forall {A : Type} (P : A -> Prop) (f : A -> A),
  (forall a, P a -> P (f a)) -> forall k a, P a -> P (iter k f a).
Proof. intros A P f Hf k; induction k as [|k IH]; intros a Ha; simpl; [assumption|]. apply IH, Hf, Ha. Qed.

Lemma desc_step_In : forall g st R c, In c (desc_step g st R) ->
  In c R \/ (st c = Some Calc /\ exists p, In p (preds g c) /\ In p R).
Proof.
  intros g st R c H. unfold desc_step in H. apply in_app_or in H. destruct H as [H|H]; [left; assumption|].
  right. apply filter_In in H. destruct H as [_ H].
  apply andb_true_iff in H. destruct H as [H Hp]. apply andb_true_iff in H. destruct H as [Hc _].
  split.
  - unfold is_calc in Hc. destruct (st c) as [[|]|]; try discriminate; reflexivity.
  - apply existsb_exists in Hp. destruct Hp as [p [Hp1 Hp2]]. exists p. split; [assumption|apply mem_In; assumption].
Qed.

Lemma descs_root : forall g st n, In n (descs g st n).
Proof.
  intros g st n. unfold descs.
  apply (iter_inv (fun R => In n R)); [|left; reflexivity].
  intros R H. unfold desc_step. apply in_or_app. left; assumption.
Qed.

Lemma descs_calc : forall g st n m, In m (descs g st n) -> m = n \/ st m = Some Calc.
Proof.
  intros g st n m. unfold descs.
  revert m. apply (iter_inv (fun R => forall m, In m R -> m = n \/ st m = Some Calc)).
  - intros R HR m Hm. apply desc_step_In in Hm. destruct Hm as [Hm|[Hm _]]; [apply HR; assumption|right; assumption].
  - intros m [Hm|[]]. left; symmetry; assumption.
Qed.

(** the descendants stay inside any set [O] that is closed in the following
    sense: a calculated node outside [O] has no precedent in [O] *)
Lemma descs_inside : forall g st n (O : list node),
  In n O ->
  (forall c p, st c = Some Calc -> In p (preds g c) -> In p O -> In c O) ->
  forall m, In m (descs g st n) -> In m O.
Proof.
  intros g st n O Hn Hcl. unfold descs.
  apply (iter_inv (fun R => forall m, In m R -> In m O)).
  - intros R HR m Hm. apply desc_step_In in Hm. destruct Hm as [Hm|[Hc [p [Hp1 Hp2]]]]; [apply HR; assumption|].
    eapply Hcl; [eassumption|eassumption|]. apply HR; assumption.
  - intros m [Hm|[]]. subst; assumption.
Qed.

Lemma clear_at_cases : forall g n st m,
  clear_at g n st m = st m \/ (clear_at g n st m = None /\ (m = n \/ st m = Some Calc)).
Proof.
  intros g n st m. unfold clear_at. destruct (st n) eqn:En; [|left; reflexivity].
  destruct (mem m (descs g st n)) eqn:E; [|left; reflexivity].
  right. split; [reflexivity|]. apply mem_In in E. apply descs_calc in E. exact E.
Qed.

Lemma clear_at_self : forall g n st, clear_at g n st n = None.
Proof.
  intros g n st. unfold clear_at. destruct (st n) eqn:En; [|assumption].
  pose proof (descs_root g st n) as H. apply mem_In in H. rewrite H. reflexivity.
Qed.

Lemma clear_at_inside : forall g n st (O : list node),
  In n O ->
  (forall c p, st c = Some Calc -> In p (preds g c) -> In p O -> In c O) ->
  forall m, ~ In m O -> clear_at g n st m = st m.
Proof.
  intros g n st O Hn Hcl m Hm. unfold clear_at. destruct (st n); [|reflexivity].
  destruct (mem m (descs g st n)) eqn:E; [|reflexivity].
  apply mem_In in E. exfalso. apply Hm. eapply descs_inside; eassumption.
Qed.

(** a sequence of clears *)
Definition clear_list (g : dag) (ns : list node) (st : state) : state :=
  fold_left (fun st n => clear_at g n st) ns st.

Definition paste_list (g : dag) (ns : list node) (st : state) : state :=
  fold_left (fun st n => paste_one g n st) ns st.

Lemma clear_list_cases : forall g ns st m,
  clear_list g ns st m = st m \/ (clear_list g ns st m = None /\ (In m ns \/ st m = Some Calc)).
Proof.
  intros g ns; induction ns as [|n t IH]; intros st m; [left; reflexivity|].
  unfold clear_list in *. cbn [fold_left].
  destruct (IH (clear_at g n st) m) as [H|[H1 H2]].
  - rewrite H. destruct (clear_at_cases g n st m) as [H'|[H1' H2']]; [left; assumption|].
    right. split; [assumption|]. destruct H2' as [->|H2']; [left; left; reflexivity|right; assumption].
  - right. split; [assumption|]. destruct H2 as [H2|H2]; [left; right; assumption|].
    destruct (clear_at_cases g n st m) as [H'|[H1' H2']]; [right; congruence|congruence].
Qed.

Lemma clear_list_none : forall g ns st m, st m = None -> clear_list g ns st m = None.
Proof.
  intros g ns st m H. destruct (clear_list_cases g ns st m) as [H'|[H' _]]; congruence.
Qed.

Lemma clear_list_cleared : forall g ns st m, In m ns -> clear_list g ns st m = None.
Proof.
  intros g ns; induction ns as [|n t IH]; intros st m Hin; [contradiction|].
  unfold clear_list in *. cbn [fold_left].
  destruct (In_dec_node m t) as [Ht|Ht]; [apply IH; assumption|].
  destruct Hin as [->|Hin]; [|contradiction].
  apply (clear_list_none g t). apply clear_at_self.
Qed.

Lemma clear_list_input : forall g ns st m, ~ In m ns -> st m = Some Input -> clear_list g ns st m = Some Input.
Proof.
  intros g ns st m Hn Hi. destruct (clear_list_cases g ns st m) as [H|[_ [H|H]]]; congruence || contradiction.
Qed.

Lemma clear_list_inside : forall g ns st (O : list node),
  (forall n, In n ns -> In n O) ->
  (forall c p, st c = Some Calc -> In p (preds g c) -> In p O -> In c O) ->
  forall m, ~ In m O -> clear_list g ns st m = st m.
Proof.
  intros g ns; induction ns as [|n t IH]; intros st O Hsub Hcl m Hm; [reflexivity|].
  unfold clear_list in *. cbn [fold_left].
  rewrite (IH (clear_at g n st) O); [| |  |assumption].
  - apply clear_at_inside with (O := O); [apply Hsub; left; reflexivity|assumption|assumption].
  - intros k Hk; apply Hsub; right; assumption.
  - intros c p Hc Hp HpO.
    destruct (clear_at_cases g n st c) as [H|[H _]]; [|congruence].
    rewrite H in Hc. eapply Hcl; eassumption.
Qed.

Lemma paste_one_cases : forall g n st m, m <> n ->
  paste_one g n st m = st m \/ (paste_one g n st m = None /\ st m = Some Calc).
Proof.
  intros g n st m Hne. unfold paste_one. rewrite upd_other by assumption.
  destruct (clear_at_cases g n st m) as [H|[H1 [H2|H2]]]; [left; assumption|contradiction|right; split; assumption].
Qed.

Lemma paste_list_other : forall g ns st m, ~ In m ns ->
  paste_list g ns st m = st m \/ (paste_list g ns st m = None /\ st m = Some Calc).
Proof.
  intros g ns; induction ns as [|n t IH]; intros st m Hn; [left; reflexivity|].
  unfold paste_list in *. cbn [fold_left].
  assert (Hne : m <> n) by (intros ->; apply Hn; left; reflexivity).
  assert (Ht : ~ In m t) by (intros H; apply Hn; right; assumption).
  destruct (IH (paste_one g n st) m Ht) as [H|[H1 H2]].
  - rewrite H. apply paste_one_cases; assumption.
  - right. split; [assumption|].
    destruct (paste_one_cases g n st m Hne) as [H'|[H' _]]; congruence.
Qed.

Lemma paste_list_input_stays : forall g ns st m, st m = Some Input -> paste_list g ns st m = Some Input.
Proof.
  intros g ns; induction ns as [|n t IH]; intros st m H; [assumption|].
  unfold paste_list in *. cbn [fold_left]. apply IH.
  destruct (Nat.eq_dec m n) as [->|Hne]; [unfold paste_one; apply upd_same|].
  destruct (paste_one_cases g n st m Hne) as [H'|[_ H']]; congruence.
Qed.

Lemma paste_list_pasted : forall g ns st m, In m ns -> paste_list g ns st m = Some Input.
Proof.
  intros g ns; induction ns as [|n t IH]; intros st m Hin; [contradiction|].
  unfold paste_list in *. cbn [fold_left].
  destruct Hin as [->|Hin]; [|apply IH; assumption].
  apply (paste_list_input_stays g t). unfold paste_one; apply upd_same.
Qed.

Lemma paste_list_inside : forall g ns st (O : list node),
  (forall n, In n ns -> In n O) ->
  (forall c p, st c = Some Calc -> In p (preds g c) -> In p O -> In c O) ->
  forall m, ~ In m O -> paste_list g ns st m = st m.
Proof.
  intros g ns; induction ns as [|n t IH]; intros st O Hsub Hcl m Hm; [reflexivity|].
  unfold paste_list in *. cbn [fold_left].
  assert (HnO : In n O) by (apply Hsub; left; reflexivity).
  assert (Hne : m <> n) by (intros ->; contradiction).
  rewrite (IH (paste_one g n st) O); [| | |assumption].
  - unfold paste_one. rewrite upd_other by assumption. apply clear_at_inside with (O := O); assumption.
  - intros k Hk; apply Hsub; right; assumption.
  - intros c p Hc Hp HpO.
    destruct (Nat.eq_dec c n) as [->|Hcn]; [assumption|].
    destruct (paste_one_cases g n st c Hcn) as [H|[H _]]; [|congruence].
    rewrite H in Hc. eapply Hcl; eassumption.
Qed.
