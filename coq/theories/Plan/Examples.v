(** Plan layer: the hypotheses of the C16 theorems are satisfiable on a
    non-trivial run, and the precondition cannot be dropped (defect D25). *)
From Coq Require Import List Arith Bool PeanoNat Lia ZArith.
From MX Require Import Plan.Model Plan.Spec Plan.Values Plan.ProofsBase Plan.ProofsGen Plan.ProofsValues.
Import ListNotations.

(** the model of tests/core/model/test_actions.py (1 = Cells1(), 20..22 =
    Cells2(0..2), 32 = Cells3(2)), plus an input 5 called by 21 and an
    unrelated calculated value 41 computed from the input 40 *)
Definition ex_g : dag :=
  [(1, []); (20, [1]); (21, [20; 5]); (22, [21]); (32, [1; 22]); (5, [1]); (40, []); (41, [40])].

Definition ex_st0 : state :=
  fun n => if Nat.eqb n 5 then Some Input else if Nat.eqb n 40 then Some Input
           else if Nat.eqb n 41 then Some Calc else None.

Definition ex_ordered : list node := [1; 20; 21; 22; 32].

Ltac preds_cases H :=
  cbn [preds ex_g] in H;
  repeat match type of H with
         | In _ (if Nat.eqb ?a ?n then _ else _) =>
             let E := fresh "E" in destruct (Nat.eqb a n) eqn:E;
             [apply Nat.eqb_eq in E; subst n|]
         end.

Lemma ex_acyclic : acyclic ex_g.
Proof.
  exists (fun n => n). intros n p H. preds_cases H; cbn [In] in H; intuition lia.
Qed.

Lemma ex_wf : wf_state ex_g ex_st0.
Proof.
  intros c p Hc Hp. unfold ex_st0 in Hc.
  destruct (Nat.eqb c 5) eqn:E5; [discriminate|]. destruct (Nat.eqb c 40) eqn:E40; [discriminate|].
  destruct (Nat.eqb c 41) eqn:E41; [|discriminate]. apply Nat.eqb_eq in E41. subst c.
  cbn in Hp. destruct Hp as [<-|[]]. discriminate.
Qed.

Lemma ex_depends : forall n, depends ex_g ex_st0 [32] n -> In n ex_ordered.
Proof.
  intros n H; induction H as [t Ht _|n p _ IH Hp Hpi].
  - destruct Ht as [<-|[]]. cbn; tauto.
  - cbn [ex_ordered In] in IH.
    destruct IH as [<-|[<-|[<-|[<-|[<-|[]]]]]]; cbn in Hp; cbn [ex_ordered In];
      repeat (destruct Hp as [<-|Hp]; [try tauto|]); try contradiction.
Qed.

Lemma ex_precondition : precondition ex_g ex_st0 [32].
Proof.
  intros n H. apply ex_depends in H. cbn [ex_ordered In] in H.
  destruct H as [<-|[<-|[<-|[<-|[<-|[]]]]]]; reflexivity.
Qed.

(** three blocks of size two; the pasted list is empty at the end; the
    order is accepted by [check_order] *)
Example ex_generate :
  exists r, generate ex_g 10 ex_st0 [32] 2 ex_ordered = Ok r /\
            g_actions r = [(ACalc, [1; 20]); (APaste, [20; 1]); (AClear, []);
                           (ACalc, [21; 22]); (APaste, [22]); (AClear, [21; 20]);
                           (ACalc, [32]); (APaste, [32]); (AClear, [1; 22])] /\
            g_pasted r = [] /\
            valid_order ex_g (g_calculated r) ex_ordered.
Proof.
  eexists. split; [vm_compute; reflexivity|]. split; [reflexivity|]. split; [reflexivity|].
  apply check_order_sound. vm_compute. reflexivity.
Qed.

Example ex_execute :
  exists r x, generate ex_g 10 ex_st0 [32] 2 ex_ordered = Ok r /\
              execute ex_g 10 (g_actions r) (mkxs (g_state r) []) = Ok x /\
              log x = ex_ordered /\
              map (fun n => flag_code (cache x n)) (nodes ex_g) = [0; 0; 0; 0; 1; 1; 1; 2].
Proof.
  eexists. eexists. split; [vm_compute; reflexivity|]. split; [vm_compute; reflexivity|].
  split; reflexivity.
Qed.

(** ** values: formulas  base + sum of the calls; inputs 5 -> 100, 40 -> 7,
    the unrelated calculated 41 holds 1 + 7 *)
Definition ex_bases : list (nat * Z) :=
  [(1, 1%Z); (20, 2%Z); (21, 3%Z); (22, 4%Z); (32, 5%Z); (5, 6%Z); (40, 0%Z); (41, 1%Z)].
Definition ex_fn : formula := sum_formula ex_bases.
Definition ex_st0v : vstate := lookup_init [(5, (1, 100%Z)); (40, (1, 7%Z)); (41, (2, 8%Z))].
Definition ex_V : node -> Z :=
  lookupZ [(1, 1%Z); (20, 3%Z); (21, 106%Z); (22, 110%Z); (32, 116%Z); (5, 100%Z); (40, 7%Z); (41, 8%Z)].

Lemma ex_consistent : consistent ex_g ex_fn ex_st0v ex_V.
Proof.
  split.
  - intros n f v H. unfold ex_st0v in H. cbn [lookup_init] in H.
    destruct (Nat.eqb 5 n) eqn:E5; [apply Nat.eqb_eq in E5; subst; inversion H; reflexivity|].
    destruct (Nat.eqb 40 n) eqn:E40; [apply Nat.eqb_eq in E40; subst; inversion H; reflexivity|].
    destruct (Nat.eqb 41 n) eqn:E41; [apply Nat.eqb_eq in E41; subst; inversion H; reflexivity|]. discriminate.
  - intros n Hn.
    destruct (Nat.eq_dec n 1) as [->|H1]; [reflexivity|].
    destruct (Nat.eq_dec n 20) as [->|H20]; [reflexivity|].
    destruct (Nat.eq_dec n 21) as [->|H21]; [reflexivity|].
    destruct (Nat.eq_dec n 22) as [->|H22]; [reflexivity|].
    destruct (Nat.eq_dec n 32) as [->|H32]; [reflexivity|].
    destruct (Nat.eq_dec n 5) as [->|H5]; [exfalso; eapply Hn; reflexivity|].
    destruct (Nat.eq_dec n 40) as [->|H40]; [exfalso; eapply Hn; reflexivity|].
    destruct (Nat.eq_dec n 41) as [->|H41]; [reflexivity|].
    assert (E : forall k, n <> k -> Nat.eqb k n = false) by (intros k Hk; apply Nat.eqb_neq; congruence).
    unfold ex_V, ex_fn, sum_formula, ex_bases, ex_g. cbn [lookupZ preds].
    rewrite !E by assumption. reflexivity.
Qed.

(** the target ends with the value of its direct evaluation, as an input *)
Example ex_values :
  exists r x xd vd,
    generate ex_g 10 (erase ex_st0v) [32] 2 ex_ordered = Ok r /\
    vexecute ex_g ex_fn 10 (g_actions r) (mkvxs ex_st0v []) = Ok x /\
    veval ex_g ex_fn 10 32 (mkvxs ex_st0v []) = Ok (xd, vd) /\
    vcache x 32 = Some (Input, vd) /\ vd = 116%Z /\ vd = ex_V 32.
Proof.
  eexists. eexists. eexists. eexists.
  split; [vm_compute; reflexivity|]. split; [vm_compute; reflexivity|]. split; [vm_compute; reflexivity|].
  split; [vm_compute; reflexivity|]. split; reflexivity.
Qed.

(** ** D25: without the precondition the statement fails.
    0 <- 1 <- 2, element 0 already calculated when generate_actions is called
    with target 2: element 0 is a precedent of the target, it is in no calc
    step and it still holds a calculated value after the run. *)
Definition d25_g : dag := [(0, []); (1, [0]); (2, [1])].
Definition d25_st0 : state := fun n => if Nat.eqb n 0 then Some Calc else None.

Example d25_refutation :
  acyclic d25_g /\ wf_state d25_g d25_st0 /\ ~ precondition d25_g d25_st0 [2] /\
  exists r x,
    generate d25_g 5 d25_st0 [2] 1 [1; 2] = Ok r /\
    valid_order d25_g (g_calculated r) [1; 2] /\
    execute d25_g 5 (g_actions r) (mkxs (g_state r) []) = Ok x /\
    depends d25_g d25_st0 [2] 0 /\ ~ In 0 [2] /\
    ~ In 0 (concat (calc_blocks (g_actions r))) /\
    cache x 0 = Some Calc.
Proof.
  assert (Hdep : depends d25_g d25_st0 [2] 0).
  { apply dep_pred with (n := 1); [|cbn; tauto|discriminate].
    apply dep_pred with (n := 2); [|cbn; tauto|discriminate].
    apply dep_target; [cbn; tauto|discriminate]. }
  split.
  { exists (fun n => n). intros n p H. cbn [preds d25_g] in H.
    destruct (Nat.eqb 0 n); [contradiction|].
    destruct (Nat.eqb 1 n) eqn:E1; [apply Nat.eqb_eq in E1; subst; cbn in H; intuition lia|].
    destruct (Nat.eqb 2 n) eqn:E2; [apply Nat.eqb_eq in E2; subst; cbn in H; intuition lia|]. contradiction. }
  split.
  { intros c p Hc Hp. unfold d25_st0 in Hc. destruct (Nat.eqb c 0) eqn:E; [|discriminate].
    apply Nat.eqb_eq in E. subst c. cbn in Hp. contradiction. }
  split.
  { intros Hpre. specialize (Hpre 0 Hdep). discriminate. }
  eexists. eexists. split; [vm_compute; reflexivity|].
  split; [apply check_order_sound; vm_compute; reflexivity|].
  split; [vm_compute; reflexivity|].
  split; [assumption|]. split; [cbn; intuition lia|]. split; [cbn; intuition lia|]. reflexivity.
Qed.
