(** Plan layer: the notions the C16 theorems are stated with (definitions only). *)
From Coq Require Import List Arith Bool PeanoNat.
From MX Require Import Plan.Model.
Import ListNotations.

(** a dependency DAG: some rank strictly decreases along every call *)
Definition acyclic (g : dag) : Prop :=
  exists rank : node -> nat, forall n p, In p (preds g n) -> rank p < rank n.

(** invariant of every cache of the real system (C06): a calculated value
    exists only while everything it was calculated from holds a value *)
Definition wf_state (g : dag) (st : state) : Prop :=
  forall c p, st c = Some Calc -> In p (preds g c) -> st p <> None.

(** [ordered] lists each node once and after the listed nodes it calls *)
Definition topological (g : dag) (ordered : list node) : Prop :=
  NoDup ordered /\
  forall l1 n l2 p, ordered = l1 ++ n :: l2 -> In p (preds g n) -> In p ordered -> In p l1.

(** what is assumed of [nx.topological_sort(tracegraph.subgraph(calculated))] *)
Definition valid_order (g : dag) (calculated ordered : list node) : Prop :=
  topological g ordered /\ forall n, In n ordered <-> In n calculated.

(** the elements the targets depend on: the targets that are not inputs and,
    transitively, everything they call, not looking behind inputs *)
Inductive depends (g : dag) (st0 : state) (targets : list node) : node -> Prop :=
| dep_target : forall t, In t targets -> st0 t <> Some Input -> depends g st0 targets t
| dep_pred : forall n p, depends g st0 targets n -> In p (preds g n) -> st0 p <> Some Input ->
                         depends g st0 targets p.

(** the precondition of generate_actions (defect D25 when it is violated):
    nothing the targets depend on already holds a (calculated) value *)
Definition precondition (g : dag) (st0 : state) (targets : list node) : Prop :=
  forall n, depends g st0 targets n -> st0 n = None.

(** the missing nodes a lazy evaluation of [roots] in state [st] has to run *)
Inductive needed (g : dag) (st : state) (roots : list node) : node -> Prop :=
| need_root : forall r, In r roots -> st r = None -> needed g st roots r
| need_pred : forall n p, needed g st roots n -> In p (preds g n) -> st p = None -> needed g st roots p.

(** position statement used by C16_partition: in the concatenation of the calc
    steps, [p] occurs strictly before this occurrence of [n] *)
Definition calc_before (acts : list action) (p n : node) : Prop :=
  forall l1 l2, concat (calc_blocks acts) = l1 ++ n :: l2 -> In p l1.
