(** Plan layer with values: the flag part of a valued run is a run of
    [Plan/Model.v] (erasure), every value ever held is the one given by a
    consistent valuation, hence the targets end with the values direct
    evaluation gives. *)
From Coq Require Import List Arith Bool PeanoNat ZArith Lia.
From MX Require Import Plan.Model Plan.Spec Plan.Values Plan.ProofsBase Plan.ProofsPlan Plan.ProofsExec Plan.ProofsGen.
Import ListNotations.

(** ** pointwise equality of caches *)
Definition steq (a b : state) : Prop := forall n, a n = b n.
Definition xeq (a b : xs) : Prop := log a = log b /\ steq (cache a) (cache b).

Lemma desc_step_ext : forall g st st' R, steq st st' -> desc_step g st R = desc_step g st' R.
Proof.
  intros g st st' R H. unfold desc_step. f_equal. apply filter_ext. intros c.
  unfold is_calc. rewrite (H c). reflexivity.
Qed.

Lemma iter_ext : forall {A : Type} (f f' : A -> A), (forall a, f a = f' a) -> forall k a, iter k f a = iter k f' a.
Proof. intros A f f' H k; induction k as [|k IH]; intros a; cbn [iter]; [reflexivity|]. rewrite H. apply IH. Qed.

Lemma descs_ext : forall g st st' n, steq st st' -> descs g st n = descs g st' n.
Proof. intros g st st' n H. unfold descs. apply iter_ext. intros R. apply desc_step_ext; assumption. Qed.

(** ** erasure: the flags of a valued run are a run of the flag model *)
Lemma vclear_sim : forall g n st vst, steq st (erase vst) -> steq (clear_at g n st) (erase (vclear_at g n vst)).
Proof.
  intros g n st vst H m. unfold clear_at, vclear_at. pose proof (H n) as Hn.
  destruct (vst n) as [[f v]|] eqn:E.
  - assert (Hs : st n = Some f) by (rewrite Hn; unfold erase; rewrite E; reflexivity). rewrite Hs.
    rewrite (descs_ext g st (erase vst) n H). set (R := descs g (erase vst) n).
    unfold erase. destruct (mem m R); [reflexivity|]. apply (H m).
  - assert (Hs : st n = None) by (rewrite Hn; unfold erase; rewrite E; reflexivity). rewrite Hs. apply (H m).
Qed.

Lemma vclear_list_sim : forall g ns st vst, steq st (erase vst) ->
  steq (fold_left (fun st n => clear_at g n st) ns st) (erase (fold_left (fun st n => vclear_at g n st) ns vst)).
Proof.
  intros g ns; induction ns as [|n t IH]; intros st vst H; [assumption|].
  cbn [fold_left]. apply IH. apply vclear_sim; assumption.
Qed.

Lemma vpaste_sim : forall g n v st vst, steq st (erase vst) ->
  steq (paste_one g n st) (erase (vpaste_one g (n, v) vst)).
Proof.
  intros g n v st vst H m. unfold paste_one, vpaste_one, upd, vupd, erase; cbn [fst snd].
  destruct (Nat.eqb m n); [reflexivity|]. apply (vclear_sim g n st vst H m).
Qed.

Lemma vpaste_list_sim : forall g ns vs st vst, List.length vs = List.length ns -> steq st (erase vst) ->
  steq (fold_left (fun st n => paste_one g n st) ns st)
       (erase (fold_left (fun st nv => vpaste_one g nv st) (combine ns vs) vst)).
Proof.
  intros g ns; induction ns as [|n t IH]; intros vs st vst Hlen H; [assumption|].
  destruct vs as [|v vs]; [discriminate|]. cbn [combine fold_left]. apply IH; [cbn in Hlen; lia|].
  apply vpaste_sim; assumption.
Qed.

Lemma vfold_length : forall f l x x' vs, vfold f l x = Ok (x', vs) -> List.length vs = List.length l.
Proof.
  intros f l; induction l as [|p t IH]; intros x x' vs H; cbn [vfold] in H.
  - inversion H; reflexivity.
  - destruct (f p x) as [[x1 v]|]; [|discriminate].
    destruct (vfold f t x1) as [[x2 vs2]|] eqn:E; [|discriminate]. inversion H; subst.
    cbn. f_equal. eapply IH; eassumption.
Qed.

Definition sim_ev (ev : node -> vxs -> res (vxs * Z)) (ev' : node -> xs -> res xs) : Prop :=
  forall n x x' v, ev n x = Ok (x', v) -> forall y, xeq y (erase_x x) ->
                   exists y', ev' n y = Ok y' /\ xeq y' (erase_x x').

Lemma vfold_sim : forall ev ev', sim_ev ev ev' ->
  forall l x x' vs, vfold ev l x = Ok (x', vs) -> forall y, xeq y (erase_x x) ->
  exists y', fold_res ev' l y = Ok y' /\ xeq y' (erase_x x').
Proof.
  intros ev ev' Hs l; induction l as [|p t IH]; intros x x' vs H y Hy; cbn [vfold] in H.
  - inversion H; subst. exists y. split; [reflexivity|assumption].
  - destruct (ev p x) as [[x1 v]|] eqn:E; [|discriminate].
    destruct (vfold ev t x1) as [[x2 vs2]|] eqn:E2; [|discriminate]. inversion H; subst.
    destruct (Hs _ _ _ _ E y Hy) as [y1 [Hy1 Hq1]].
    destruct (IH _ _ _ E2 y1 Hq1) as [y2 [Hy2 Hq2]].
    exists y2. split; [|assumption]. cbn [fold_res]. rewrite Hy1. assumption.
Qed.

Lemma veval_sim : forall g fn fuel, sim_ev (veval g fn fuel) (eval g fuel).
Proof.
  intros g fn fuel; induction fuel as [|f IH]; intros n x x' v H y [Hyl Hyc]; [discriminate|].
  cbn [veval] in H. cbn [eval]. pose proof (Hyc n) as Hn. cbn [erase_x cache] in Hn. unfold erase in Hn.
  destruct (vcache x n) as [[fl v0]|] eqn:En.
  - inversion H; subst. rewrite Hn. exists y. split; [reflexivity|split; assumption].
  - rewrite Hn.
    destruct (vfold (veval g fn f) (preds g n) (mkvxs (vcache x) (vlog x ++ [n]))) as [[xp vs]|] eqn:E; [|discriminate].
    inversion H; subst; clear H.
    destruct (vfold_sim _ _ IH _ _ _ _ E (mkxs (cache y) (log y ++ [n]))) as [yp [Hyp [Hpl Hpc]]].
    { split; cbn; [rewrite Hyl; reflexivity|assumption]. }
    rewrite Hyp. eexists. split; [reflexivity|]. split; cbn; [assumption|].
    intros m. unfold upd, vupd, erase. destruct (Nat.eqb m n); [reflexivity|]. apply (Hpc m).
Qed.

Lemma vexec_action_sim : forall g fn fuel a x x', vexec_action g fn fuel a x = Ok x' ->
  forall y, xeq y (erase_x x) -> exists y', exec_action g fuel a y = Ok y' /\ xeq y' (erase_x x').
Proof.
  intros g fn fuel [k ns] x x' H y Hy. destruct k; cbn [vexec_action exec_action] in *.
  - destruct (vfold (veval g fn fuel) ns x) as [[x1 vs]|] eqn:E; [|discriminate]. inversion H; subst.
    eapply vfold_sim; [apply veval_sim|eassumption|assumption].
  - destruct (vfold (veval g fn fuel) ns x) as [[x1 vs]|] eqn:E; [|discriminate]. inversion H; subst; clear H.
    destruct (vfold_sim _ _ (veval_sim g fn fuel) _ _ _ _ E y Hy) as [y1 [Hy1 [Hl1 Hc1]]].
    rewrite Hy1. eexists. split; [reflexivity|]. split; cbn; [assumption|].
    apply vpaste_list_sim; [eapply vfold_length; eassumption|assumption].
  - inversion H; subst; clear H. destruct Hy as [Hl Hc]. eexists. split; [reflexivity|].
    split; cbn; [assumption|]. apply vclear_list_sim; assumption.
Qed.

Lemma vexecute_sim : forall g fn fuel acts x x', vexecute g fn fuel acts x = Ok x' ->
  forall y, xeq y (erase_x x) -> exists y', execute g fuel acts y = Ok y' /\ xeq y' (erase_x x').
Proof.
  intros g fn fuel acts; induction acts as [|a t IH]; intros x x' H y Hy; unfold vexecute, execute in *; cbn [fold_res] in *.
  - inversion H; subst. exists y. split; [reflexivity|assumption].
  - destruct (vexec_action g fn fuel a x) as [x1|] eqn:E; [|discriminate].
    destruct (vexec_action_sim _ _ _ _ _ _ E y Hy) as [y1 [Hy1 Hq1]]. rewrite Hy1.
    eapply IH; eassumption.
Qed.

(** ** every value held is the consistent one; inputs of the start state stay *)
Definition Vinv (st0 : vstate) (V : node -> Z) (x : vxs) : Prop :=
  (forall n f v, vcache x n = Some (f, v) -> V n = v) /\
  (forall n v, st0 n = Some (Input, v) -> vcache x n = Some (Input, v)).

Definition val_ev (g : dag) (st0 : vstate) (V : node -> Z) (ev : node -> vxs -> res (vxs * Z)) : Prop :=
  forall n x x' v, Vinv st0 V x -> ev n x = Ok (x', v) -> Vinv st0 V x' /\ v = V n.

Lemma vfold_V : forall g st0 V ev, val_ev g st0 V ev ->
  forall l x x' vs, Vinv st0 V x -> vfold ev l x = Ok (x', vs) -> Vinv st0 V x' /\ vs = map V l.
Proof.
  intros g st0 V ev Hev l; induction l as [|p t IH]; intros x x' vs HI H; cbn [vfold] in H.
  - inversion H; subst. split; [assumption|reflexivity].
  - destruct (ev p x) as [[x1 v]|] eqn:E; [|discriminate].
    destruct (vfold ev t x1) as [[x2 vs2]|] eqn:E2; [|discriminate]. inversion H; subst.
    destruct (Hev _ _ _ _ HI E) as [HI1 Hv]. destruct (IH _ _ _ HI1 E2) as [HI2 Hvs].
    split; [assumption|]. cbn [map]. congruence.
Qed.

Lemma veval_V : forall g fn st0 V, consistent g fn st0 V -> forall fuel, val_ev g st0 V (veval g fn fuel).
Proof.
  intros g fn st0 V [C1 C2] fuel; induction fuel as [|f IH]; intros n x x' v HI H; [discriminate|].
  cbn [veval] in H. destruct (vcache x n) as [[fl v0]|] eqn:En.
  - inversion H; subst. split; [assumption|]. symmetry. eapply HI; eassumption.
  - destruct (vfold (veval g fn f) (preds g n) (mkvxs (vcache x) (vlog x ++ [n]))) as [[xp vs]|] eqn:E; [|discriminate].
    inversion H; subst; clear H.
    assert (HI1 : Vinv st0 V (mkvxs (vcache x) (vlog x ++ [n]))) by exact HI.
    destruct (vfold_V g st0 V _ IH _ _ _ _ HI1 E) as [[P1 P2] Hvs]. subst vs.
    assert (Hni : forall v, st0 n <> Some (Input, v)).
    { intros v Hv. destruct HI as [_ HI2]. rewrite (HI2 n v Hv) in En. discriminate. }
    assert (HV : fn n (map V (preds g n)) = V n) by (symmetry; apply C2; assumption).
    split; [|assumption]. split; cbn [vcache].
    + intros m fl v Hm. unfold vupd in Hm. destruct (Nat.eqb m n) eqn:Em.
      * apply Nat.eqb_eq in Em. subst m. inversion Hm; subst. symmetry; assumption.
      * eapply P1; eassumption.
    + intros m v Hm. unfold vupd. destruct (Nat.eqb m n) eqn:Em.
      * apply Nat.eqb_eq in Em. subst m. exfalso. eapply Hni; eassumption.
      * apply P2; assumption.
Qed.

Lemma vclear_V : forall g st0 V n x st',
  Vinv st0 V x -> (forall v, st0 n <> Some (Input, v)) ->
  st' = vclear_at g n (vcache x) -> Vinv st0 V (mkvxs st' (vlog x)).
Proof.
  intros g st0 V n x st' [I1 I2] Hn ->. split; cbn [vcache].
  - intros m f v Hm. unfold vclear_at in Hm. destruct (vcache x n); [|eapply I1; eassumption].
    destruct (mem m (descs g (erase (vcache x)) n)); [discriminate|]. eapply I1; eassumption.
  - intros m v Hm. pose proof (I2 m v Hm) as Hx. unfold vclear_at. destruct (vcache x n) eqn:En; [|assumption].
    destruct (mem m (descs g (erase (vcache x)) n)) eqn:E; [|assumption]. exfalso.
    apply mem_In in E. apply descs_calc in E. destruct E as [->|E].
    + eapply Hn; eassumption.
    + unfold erase in E. rewrite Hx in E. discriminate.
Qed.

Lemma vclear_list_V : forall g st0 V ns st lg,
  Vinv st0 V (mkvxs st lg) -> (forall n, In n ns -> forall v, st0 n <> Some (Input, v)) ->
  Vinv st0 V (mkvxs (fold_left (fun st n => vclear_at g n st) ns st) lg).
Proof.
  intros g st0 V ns; induction ns as [|n t IH]; intros st lg HI Hns; [assumption|].
  cbn [fold_left]. apply IH; [|intros k Hk; apply Hns; right; assumption].
  apply (vclear_V g st0 V n (mkvxs st lg) _ HI (Hns n (or_introl eq_refl)) eq_refl).
Qed.

Lemma vpaste_list_V : forall g st0 V ns st lg,
  Vinv st0 V (mkvxs st lg) -> (forall n, In n ns -> forall v, st0 n <> Some (Input, v)) ->
  Vinv st0 V (mkvxs (fold_left (fun st nv => vpaste_one g nv st) (combine ns (map V ns)) st) lg).
Proof.
  intros g st0 V ns; induction ns as [|n t IH]; intros st lg HI Hns; [assumption|].
  cbn [map combine fold_left]. apply IH; [|intros k Hk; apply Hns; right; assumption].
  pose proof (vclear_V g st0 V n (mkvxs st lg) _ HI (Hns n (or_introl eq_refl)) eq_refl) as [P1 P2].
  cbn [vcache vlog] in *. unfold vpaste_one; cbn [fst snd]. split; cbn [vcache].
  - intros m f v Hm. unfold vupd in Hm. destruct (Nat.eqb m n) eqn:Em.
    + apply Nat.eqb_eq in Em. subst m. inversion Hm; reflexivity.
    + eapply P1; eassumption.
  - intros m v Hm. unfold vupd. destruct (Nat.eqb m n) eqn:Em.
    + apply Nat.eqb_eq in Em. subst m. exfalso. eapply (Hns n (or_introl eq_refl)); eassumption.
    + apply P2; assumption.
Qed.

Lemma vexec_action_V : forall g fn st0 V fuel a x x',
  consistent g fn st0 V -> Vinv st0 V x ->
  (forall n, In n (snd a) -> forall v, st0 n <> Some (Input, v)) ->
  vexec_action g fn fuel a x = Ok x' -> Vinv st0 V x'.
Proof.
  intros g fn st0 V fuel [k ns] x x' Hc HI Hns H. cbn [snd] in Hns. destruct k; cbn [vexec_action] in H.
  - destruct (vfold (veval g fn fuel) ns x) as [[x1 vs]|] eqn:E; [|discriminate]. inversion H; subst.
    eapply (vfold_V g st0 V _ (veval_V g fn st0 V Hc fuel)); eassumption.
  - destruct (vfold (veval g fn fuel) ns x) as [[x1 vs]|] eqn:E; [|discriminate]. inversion H; subst; clear H.
    destruct (vfold_V g st0 V _ (veval_V g fn st0 V Hc fuel) _ _ _ _ HI E) as [HI1 ->].
    destruct x1 as [c1 l1]. apply vpaste_list_V; assumption.
  - inversion H; subst; clear H. destruct x as [c l]. apply vclear_list_V; assumption.
Qed.

Lemma vexecute_V : forall g fn st0 V fuel acts x x',
  consistent g fn st0 V -> Vinv st0 V x ->
  (forall a n, In a acts -> In n (snd a) -> forall v, st0 n <> Some (Input, v)) ->
  vexecute g fn fuel acts x = Ok x' -> Vinv st0 V x'.
Proof.
  intros g fn st0 V fuel acts; induction acts as [|a t IH]; intros x x' Hc HI Hns H; unfold vexecute in *; cbn [fold_res] in H.
  - inversion H; subst; assumption.
  - destruct (vexec_action g fn fuel a x) as [x1|] eqn:E; [|discriminate].
    eapply IH; [assumption| |intros b n Hb; apply Hns; right; assumption|exact H].
    eapply vexec_action_V; [eassumption|eassumption| |eassumption].
    intros n Hn; eapply Hns; [left; reflexivity|assumption].
Qed.

(** ** the actions only name nodes of [ordered] *)
Lemma plan_nodes : forall g targets ordered sz fuel p a,
  get_calcsteps fuel g targets ordered sz = Ok (p, a) ->
  forall act n, In act a -> In n (snd act) -> In n ordered.
Proof.
  intros g targets ordered sz fuel p a H. unfold get_calcsteps in H.
  pose (Inv := fun (done pasted : list node) (acc : list action) =>
                 (forall n, In n done -> In n ordered) /\ (forall n, In n pasted -> In n done) /\
                 (forall act n, In act acc -> In n (snd act) -> In n done)).
  assert (HI : Inv ordered p a).
  { eapply (loop_inv g targets ordered sz Inv); [| |exact H].
    - intros done B rest pasted acc Ho [I1 [I2 I3]].
      assert (HB : forall n, In n B -> In n ordered).
      { intros n Hn. rewrite Ho. apply in_or_app; right; apply in_or_app; left; assumption. }
      split; [|split].
      + intros n Hn. apply in_app_or in Hn. destruct Hn; [apply I1|apply HB]; assumption.
      + intros n Hn. apply block_pasted_In in Hn. apply in_or_app.
        destruct Hn as [[Hn _]|[Hn _]]; [left; apply I2|right]; assumption.
      + intros act n Hact Hn. apply in_app_or in Hact. destruct Hact as [Hact|Hact].
        * apply in_or_app; left. eapply I3; eassumption.
        * unfold block_step in Hact; cbn [snd] in Hact. apply in_or_app.
          destruct Hact as [<-|[<-|[<-|[]]]]; cbn [snd] in Hn.
          -- right; assumption.
          -- apply in_rev in Hn. apply filter_In in Hn. right; tauto.
          -- apply in_app_or in Hn. destruct Hn as [Hn|Hn]; apply filter_In in Hn; [right; tauto|left; apply I2; tauto].
    - cbn [mult firstn]. split; [intros n []|]. split; intros; contradiction. }
  destruct HI as [I1 [_ I3]]. intros act n Hact Hn. apply I1. eapply I3; eassumption.
Qed.

(** ** targets end with the values direct evaluation gives *)
Lemma values_direct : forall g fn fuel fuel' fuel'' st0 targets sz ordered r x V t xd vd,
  acyclic g -> wf_state g (erase st0) -> precondition g (erase st0) targets ->
  consistent g fn st0 V ->
  generate g fuel (erase st0) targets sz ordered = Ok r ->
  valid_order g (g_calculated r) ordered ->
  vexecute g fn fuel' (g_actions r) (mkvxs st0 []) = Ok x ->
  In t targets ->
  veval g fn fuel'' t (mkvxs st0 []) = Ok (xd, vd) ->
  vcache x t = Some (Input, vd) /\ vd = V t.
Proof.
  intros g fn fuel fuel' fuel'' st0 targets sz ordered r x V t xd vd Hac Hwf Hpre Hc Hg Hvo Hx Ht Hd.
  assert (HI0 : Vinv st0 V (mkvxs st0 [])).
  { split; cbn [vcache]; [intros n f v Hn; eapply Hc; eassumption|intros; assumption]. }
  (* the flag part of the run *)
  destruct (vexecute_sim g fn fuel' _ _ _ Hx (mkxs (g_state r) [])) as [y [Hy [_ Hyc]]].
  { split; cbn; [reflexivity|]. intros n. eapply generate_clean; eassumption. }
  destruct (only_targets _ _ _ _ _ _ _ _ _ Hac Hwf Hpre Hg Hvo Hy) as [Hin _].
  pose proof (Hin t Ht) as Hyt. rewrite (Hyc t) in Hyt. cbn [erase_x cache] in Hyt. unfold erase in Hyt.
  destruct (vcache x t) as [[f v]|] eqn:Ext; [|discriminate]. inversion Hyt; subst f.
  (* the values *)
  assert (HIx : Vinv st0 V x).
  { eapply vexecute_V; [eassumption|exact HI0| |exact Hx].
    intros a n Ha Hn v0 Hv.
    destruct (generate_inv _ _ _ _ _ _ _ Hg) as [x1 [_ [Hp _]]].
    pose proof (plan_nodes _ _ _ _ _ _ _ Hp a n Ha Hn) as Ho.
    destruct (generate_run_hyps _ _ _ _ _ _ _ Hac Hwf Hg Hvo) as [_ [Hfresh _]].
    apply Hfresh in Ho. unfold erase in Ho. rewrite Hv in Ho. discriminate. }
  destruct (veval_V g fn st0 V Hc fuel'' t _ _ _ HI0 Hd) as [_ Hvd].
  destruct HIx as [P1 _]. pose proof (P1 t _ _ Ext). split; congruence.
Qed.

(** a consistent valuation exists when the start state holds no calculated value *)
Fixpoint Vf (g : dag) (fn : formula) (st0 : vstate) (fuel : nat) (n : node) : Z :=
  match fuel with
  | 0 => 0%Z
  | S f => match st0 n with
           | Some (Input, v) => v
           | _ => fn n (map (Vf g fn st0 f) (preds g n))
           end
  end.

Lemma Vf_stable : forall g fn st0 (rank : node -> nat),
  (forall n p, In p (preds g n) -> rank p < rank n) ->
  forall f1 f2 n, rank n < f1 -> rank n < f2 -> Vf g fn st0 f1 n = Vf g fn st0 f2 n.
Proof.
  intros g fn st0 rank Hr f1; induction f1 as [|f1 IH]; intros f2 n H1 H2; [lia|].
  destruct f2 as [|f2]; [lia|]. cbn [Vf].
  destruct (st0 n) as [[[|] v]|]; try reflexivity; f_equal; apply map_ext_in; intros p Hp;
    pose proof (Hr n p Hp); apply IH; lia.
Qed.

Lemma consistent_exists : forall g fn st0,
  acyclic g -> (forall n v, st0 n <> Some (Calc, v)) -> exists V, consistent g fn st0 V.
Proof.
  intros g fn st0 [rank Hr] Hnc. exists (fun n => Vf g fn st0 (S (rank n)) n). split.
  - intros n f v Hn. cbn [Vf]. rewrite Hn. destruct f; [reflexivity|]. exfalso; eapply Hnc; eassumption.
  - intros n Hn.
    assert (Hmap : map (fun p => Vf g fn st0 (S (rank p)) p) (preds g n) = map (Vf g fn st0 (rank n)) (preds g n)).
    { apply map_ext_in. intros p Hp. pose proof (Hr n p Hp). apply (Vf_stable g fn st0 rank Hr); lia. }
    rewrite Hmap. cbn [Vf]. destruct (st0 n) as [[[|] v]|] eqn:E; [exfalso; eapply Hn; reflexivity|reflexivity|reflexivity].
Qed.
