(** Plan layer: the tracing run of [generate_actions] (what the lazy
    evaluator executes), soundness of [check_order], and the C16 theorems
    over [generate] followed by [execute]. *)
From Coq Require Import List Arith Bool PeanoNat Lia.
From MX Require Import Plan.Model Plan.Spec Plan.ProofsBase Plan.ProofsPlan Plan.ProofsExec.
Import ListNotations.

(** ** effect of a lazy evaluation: the cache is extended by the nodes [new],
    each of which was missing, is now calculated, and has all its precedents *)
Definition ext (g : dag) (st st' : state) (new : list node) : Prop :=
  (forall m, In m new -> st m = None /\ st' m = Some Calc) /\
  (forall m, ~ In m new -> st' m = st m) /\
  NoDup new /\
  (forall m p, In m new -> In p (preds g m) -> st' p <> None).

Lemma ext_nil : forall g st, ext g st st [].
Proof.
  intros g st. split; [intros m []|]. split; [reflexivity|]. split; [constructor|intros m p []].
Qed.

Lemma ext_mono : forall g st st' new p, ext g st st' new -> st p <> None -> st' p <> None.
Proof.
  intros g st st' new p [X1 [X2 _]] H. destruct (In_dec_node p new) as [Hin|Hout].
  - destruct (X1 p Hin) as [H0 _]. contradiction.
  - rewrite (X2 p Hout). assumption.
Qed.

Lemma ext_none_back : forall g st st' new p, ext g st st' new -> st' p = None -> st p = None.
Proof.
  intros g st st' new p Hext H. destruct (st p) eqn:E; [|reflexivity]. exfalso.
  apply (ext_mono g st st' new p Hext); congruence.
Qed.

Lemma NoDup_app_intro : forall {A : Type} (a b : list A),
  NoDup a -> NoDup b -> (forall x, In x a -> In x b -> False) -> NoDup (a ++ b).
Proof.
  intros A a; induction a as [|x t IH]; intros b Ha Hb Hd; [assumption|].
  inversion Ha as [|? ? Hx Ht]; subst. cbn [app]. constructor.
  - intros Hin. apply in_app_or in Hin. destruct Hin as [Hin|Hin]; [contradiction|].
    apply (Hd x); [left; reflexivity|assumption].
  - apply IH; [assumption|assumption|]. intros y Hy1 Hy2. apply (Hd y); [right; assumption|assumption].
Qed.

Lemma ext_trans : forall g st st1 st2 new1 new2,
  ext g st st1 new1 -> ext g st1 st2 new2 -> ext g st st2 (new1 ++ new2).
Proof.
  intros g st st1 st2 new1 new2 H1 H2.
  pose proof H1 as [A1 [A2 [A3 A4]]]. pose proof H2 as [B1 [B2 [B3 B4]]].
  assert (Hdisj : forall x, In x new1 -> In x new2 -> False).
  { intros x Hx1 Hx2. destruct (A1 x Hx1) as [_ Hc]. destruct (B1 x Hx2) as [Hn _]. congruence. }
  split; [|split; [|split]].
  - intros m Hm. apply in_app_or in Hm. destruct Hm as [Hm|Hm].
    + destruct (A1 m Hm) as [Hn Hc]. split; [assumption|]. rewrite B2; [assumption|].
      intros Hm2; eapply Hdisj; eassumption.
    + destruct (B1 m Hm) as [Hn Hc]. split; [|assumption]. rewrite <- A2; [assumption|].
      intros Hm1; eapply Hdisj; eassumption.
  - intros m Hm. rewrite B2, A2; [reflexivity| |]; intros H; apply Hm; apply in_or_app; [left|right]; assumption.
  - apply NoDup_app_intro; assumption.
  - intros m p Hm Hp. apply in_app_or in Hm. destruct Hm as [Hm|Hm].
    + eapply ext_mono; [exact H2|]. eapply A4; eassumption.
    + eapply B4; eassumption.
Qed.

(** ** the set of nodes a lazy evaluation has to run *)
Lemma needed_roots_incl : forall g st roots roots' m,
  (forall r, In r roots -> In r roots') -> needed g st roots m -> needed g st roots' m.
Proof.
  intros g st roots roots' m Hsub H; induction H as [r Hr Hn|n p Hn IH Hp Hpn].
  - apply need_root; [apply Hsub; assumption|assumption].
  - eapply need_pred; eassumption.
Qed.

Lemma needed_state_back : forall g (st st1 : state) roots m,
  (forall k, st1 k = None -> st k = None) -> needed g st1 roots m -> needed g st roots m.
Proof.
  intros g st st1 roots m Hb H; induction H as [r Hr Hn|n p Hn IH Hp Hpn].
  - apply need_root; [assumption|apply Hb; assumption].
  - eapply need_pred; [eassumption|eassumption|apply Hb; assumption].
Qed.

Lemma needed_through : forall g st n m,
  st n = None -> needed g st (preds g n) m -> needed g st [n] m.
Proof.
  intros g st n m Hn H; induction H as [r Hr Hrn|k p Hk IH Hp Hpn].
  - eapply need_pred; [apply need_root; [left; reflexivity|assumption]|assumption|assumption].
  - eapply need_pred; eassumption.
Qed.

Lemma needed_rank : forall g st roots m (rank : node -> nat),
  (forall n p, In p (preds g n) -> rank p < rank n) ->
  needed g st roots m -> exists r, In r roots /\ rank m <= rank r.
Proof.
  intros g st roots m rank Hr H; induction H as [r Hin Hn|n p Hn IH Hp Hpn].
  - exists r. split; [assumption|lia].
  - destruct IH as [r [Hin Hle]]. exists r. split; [assumption|]. pose proof (Hr n p Hp). lia.
Qed.

Lemma needed_missing : forall g st roots m, needed g st roots m -> st m = None.
Proof. intros g st roots m H; destruct H; assumption. Qed.

(** ** specification of [eval] *)
Definition eval_spec (g : dag) (n : node) (x x' : xs) : Prop :=
  exists new, log x' = log x ++ new /\ ext g (cache x) (cache x') new /\
              cache x' n <> None /\ (forall m, In m new -> needed g (cache x) [n] m).

Definition fold_spec (g : dag) (ps : list node) (x x' : xs) : Prop :=
  exists new, log x' = log x ++ new /\ ext g (cache x) (cache x') new /\
              (forall p, In p ps -> cache x' p <> None) /\
              (forall m, In m new -> needed g (cache x) ps m).

Lemma fold_eval_spec : forall g (ev : node -> xs -> res xs),
  (forall n x x', ev n x = Ok x' -> eval_spec g n x x') ->
  forall ps x x', fold_res ev ps x = Ok x' -> fold_spec g ps x x'.
Proof.
  intros g ev Hev ps; induction ps as [|p t IH]; intros x x' H.
  - cbn [fold_res] in H. inversion H; subst. exists []. split; [rewrite app_nil_r; reflexivity|].
    split; [apply ext_nil|]. split; [intros p []|intros m []].
  - cbn [fold_res] in H. destruct (ev p x) as [x1|] eqn:E; [|discriminate].
    destruct (Hev _ _ _ E) as [new1 [Hl1 [Hx1 [Hp1 Hn1]]]].
    destruct (IH _ _ H) as [new2 [Hl2 [Hx2 [Hp2 Hn2]]]].
    exists (new1 ++ new2). split; [rewrite Hl2, Hl1, app_assoc; reflexivity|].
    split; [eapply ext_trans; eassumption|]. split.
    + intros q [->|Hq]; [eapply ext_mono; eassumption|apply Hp2; assumption].
    + intros m Hm. apply in_app_or in Hm. destruct Hm as [Hm|Hm].
      * apply needed_roots_incl with (roots := [p]); [intros r [->|[]]; left; reflexivity|apply Hn1; assumption].
      * apply needed_roots_incl with (roots := t); [intros r Hr; right; assumption|].
        apply needed_state_back with (st1 := cache x1); [|apply Hn2; assumption].
        intros k Hk. eapply ext_none_back; eassumption.
Qed.

Lemma eval_sound : forall g, acyclic g -> forall fuel n x x', eval g fuel n x = Ok x' -> eval_spec g n x x'.
Proof.
  intros g [rank Hrank] fuel; induction fuel as [|f IH]; intros n x x' H; [discriminate|].
  cbn [eval] in H. destruct (cache x n) as [fl|] eqn:En.
  - inversion H; subst. exists []. split; [rewrite app_nil_r; reflexivity|].
    split; [apply ext_nil|]. split; [congruence|intros m []].
  - destruct (fold_res (eval g f) (preds g n) (mkxs (cache x) (log x ++ [n]))) as [xp|] eqn:E; [|discriminate].
    inversion H; subst x'; clear H.
    destruct (fold_eval_spec g (eval g f) IH _ _ _ E) as [new [Hl [Hx [Hp Hn]]]]. cbn [cache log] in *.
    pose proof Hx as [X1 [X2 [X3 X4]]].
    assert (Hnn : ~ In n new).
    { intros Hin. destruct (needed_rank g (cache x) (preds g n) n rank Hrank (Hn n Hin)) as [r [Hr Hle]].
      pose proof (Hrank n r Hr). lia. }
    exists (n :: new). cbn [cache log].
    split; [rewrite Hl, <- app_assoc; reflexivity|].
    split; [|split].
    + split; [|split; [|split]].
      * intros m [<-|Hm].
        -- split; [assumption|apply upd_same].
        -- destruct (X1 m Hm) as [H0 H1]. split; [assumption|].
           rewrite upd_other; [assumption|]. intros ->; contradiction.
      * intros m Hm. rewrite upd_other; [|intros ->; apply Hm; left; reflexivity].
        apply X2. intros Hin; apply Hm; right; assumption.
      * constructor; assumption.
      * intros m p Hm Hpm.
        assert (Hxp : cache xp p <> None).
        { destruct Hm as [<-|Hm]; [apply Hp; assumption|eapply X4; eassumption]. }
        destruct (Nat.eq_dec p n) as [->|Hne]; [rewrite upd_same; discriminate|].
        rewrite upd_other by assumption. assumption.
    + rewrite upd_same; discriminate.
    + intros m [<-|Hm]; [apply need_root; [left; reflexivity|assumption]|].
      apply needed_through; [assumption|apply Hn; assumption].
Qed.

(** the tracing run of generate_actions: [calculated] is exactly the set of
    missing nodes the targets need, each once *)
Lemma trace_spec : forall g fuel st0 roots x,
  acyclic g ->
  fold_res (eval g fuel) roots (mkxs st0 []) = Ok x ->
  ext g st0 (cache x) (log x) /\
  (forall r, In r roots -> cache x r <> None) /\
  (forall m, In m (log x) <-> needed g st0 roots m).
Proof.
  intros g fuel st0 roots x Hac H.
  destruct (fold_eval_spec g (eval g fuel) (eval_sound g Hac fuel) _ _ _ H) as [new [Hl [Hx [Hp Hn]]]].
  cbn [cache log app] in *. subst new.
  split; [assumption|]. split; [assumption|].
  pose proof Hx as [X1 [X2 [X3 X4]]].
  intros m; split; [apply Hn|].
  intros Hm; induction Hm as [r Hr Hrn|n p Hnn IH Hpp Hpn].
  - destruct (In_dec_node r (log x)) as [Hin|Hout]; [assumption|exfalso].
    apply (Hp r Hr). rewrite (X2 r Hout). assumption.
  - destruct (In_dec_node p (log x)) as [Hin|Hout]; [assumption|exfalso].
    apply (X4 n p IH Hpp). rewrite (X2 p Hout). assumption.
Qed.

(** ** [check_order] establishes [valid_order] *)
Lemma topo_ok_sound : forall g all l seen,
  topo_ok g all seen l = true ->
  (forall n, In n l -> ~ In n seen) /\ NoDup l /\
  (forall l1 n l2 p, l = l1 ++ n :: l2 -> In p (preds g n) -> In p all -> In p seen \/ In p l1).
Proof.
  intros g all l; induction l as [|n t IH]; intros seen H.
  - split; [intros n []|]. split; [constructor|]. intros l1 n l2 p Hl. destruct l1; discriminate.
  - cbn [topo_ok] in H. apply andb_true_iff in H. destruct H as [H Ht].
    apply andb_true_iff in H. destruct H as [Hp Hn].
    apply negb_true_iff in Hn. apply mem_false in Hn.
    destruct (IH _ Ht) as [I1 [I2 I3]].
    split; [|split].
    + intros m [<-|Hm]; [assumption|]. intros Hs. apply (I1 m Hm). right; assumption.
    + constructor; [|assumption]. intros Hin. apply (I1 n Hin). left; reflexivity.
    + intros l1 m l2 p Hl Hpm Hpa. destruct l1 as [|k l1]; cbn [app] in Hl; inversion Hl; subst.
      * left. rewrite forallb_forall in Hp. specialize (Hp p Hpm).
        apply orb_true_iff in Hp. destruct Hp as [Hp|Hp]; [|apply mem_In; assumption].
        apply negb_true_iff in Hp. apply mem_false in Hp. contradiction.
      * destruct (I3 l1 m l2 p eq_refl Hpm Hpa) as [[<-|Hs]|Hl1].
        -- right; left; reflexivity.
        -- left; assumption.
        -- right; right; assumption.
Qed.

Lemma check_order_sound : forall g calculated ordered,
  check_order g calculated ordered = true -> valid_order g calculated ordered.
Proof.
  intros g calculated ordered H. unfold check_order in H.
  apply andb_true_iff in H. destruct H as [H H3]. apply andb_true_iff in H. destruct H as [H1 H2].
  destruct (topo_ok_sound g ordered ordered [] H1) as [_ [Hnd Hord]].
  split; [split; [assumption|]|].
  - intros l1 n l2 p Hl Hp Hpo. destruct (Hord l1 n l2 p Hl Hp Hpo) as [[]|Hin]. assumption.
  - intros n; split; intros Hn.
    + rewrite forallb_forall in H3. apply mem_In. apply H3; assumption.
    + rewrite forallb_forall in H2. apply mem_In. apply H2; assumption.
Qed.

(** ** from [generate] to the hypotheses of the planned run *)
Definition calc_targets (st0 : state) (targets : list node) : list node :=
  filter (fun t => negb (is_input st0 t)) targets.

Lemma generate_inv : forall g fuel st0 targets sz ordered r,
  generate g fuel st0 targets sz ordered = Ok r ->
  exists x, fold_res (eval g fuel) (calc_targets st0 targets) (mkxs st0 []) = Ok x /\
            get_calcsteps fuel g (calc_targets st0 targets) ordered sz = Ok (g_pasted r, g_actions r) /\
            g_calculated r = log x /\
            g_state r = clear_list g (log x) (cache x).
Proof.
  intros g fuel st0 targets sz ordered r H. unfold generate in H. fold (calc_targets st0 targets) in H.
  destruct (fold_res (eval g fuel) (calc_targets st0 targets) (mkxs st0 [])) as [x|] eqn:E; [|discriminate].
  destruct (get_calcsteps fuel g (calc_targets st0 targets) ordered sz) as [[p a]|] eqn:Ep; [|discriminate].
  inversion H; subst r; clear H. exists x. cbn. repeat split; reflexivity.
Qed.

Lemma in_calc_targets : forall st0 targets t,
  In t (calc_targets st0 targets) <-> In t targets /\ st0 t <> Some Input.
Proof.
  intros st0 targets t. unfold calc_targets. rewrite filter_In, negb_true_iff. unfold is_input.
  destruct (st0 t) as [[|]|]; split; intros [H1 H2]; split; try assumption; try discriminate; try reflexivity.
  exfalso; apply H2; reflexivity.
Qed.

Lemma needed_depends : forall g st0 targets n,
  needed g st0 (calc_targets st0 targets) n -> depends g st0 targets n.
Proof.
  intros g st0 targets n H; induction H as [r Hr Hn|n p Hn IH Hp Hpn].
  - apply in_calc_targets in Hr. destruct Hr. apply dep_target; assumption.
  - eapply dep_pred; [eassumption|assumption|congruence].
Qed.

Lemma depends_needed : forall g st0 targets n,
  precondition g st0 targets -> depends g st0 targets n -> needed g st0 (calc_targets st0 targets) n.
Proof.
  intros g st0 targets n Hpre H; induction H as [t Ht Hni|n p Hn IH Hp Hpi].
  - apply need_root; [apply in_calc_targets; split; assumption|].
    apply Hpre. apply dep_target; assumption.
  - eapply need_pred; [exact IH|assumption|]. apply Hpre. eapply dep_pred; eassumption.
Qed.

Lemma generate_run_hyps : forall g fuel st0 targets sz ordered r,
  acyclic g -> wf_state g st0 ->
  generate g fuel st0 targets sz ordered = Ok r ->
  valid_order g (g_calculated r) ordered ->
  run_hyps g st0 ordered.
Proof.
  intros g fuel st0 targets sz ordered r Hac Hwf H [Ht Hperm].
  destruct (generate_inv _ _ _ _ _ _ _ H) as [x [Hx [_ [Hc _]]]].
  destruct (trace_spec g fuel st0 _ x Hac Hx) as [[X1 [X2 [X3 X4]]] _].
  rewrite Hc in Hperm.
  split; [assumption|]. split; [|split; [|assumption]].
  - intros n Hn. apply Hperm in Hn. apply X1; assumption.
  - intros n p Hn Hp Hpo. rewrite <- (X2 p); [eapply X4; [apply Hperm|]; eassumption|].
    intros Hin; apply Hpo; apply Hperm; assumption.
Qed.

(** ** the C16 statements *)

(** generate_actions restores the cache *)
Lemma generate_clean : forall g fuel st0 targets sz ordered r,
  acyclic g -> wf_state g st0 ->
  generate g fuel st0 targets sz ordered = Ok r ->
  forall n, g_state r n = st0 n.
Proof.
  intros g fuel st0 targets sz ordered r Hac Hwf H n.
  destruct (generate_inv _ _ _ _ _ _ _ H) as [x [Hx [_ [_ Hs]]]]. rewrite Hs.
  destruct (trace_spec g fuel st0 _ x Hac Hx) as [[X1 [X2 [X3 X4]]] _].
  destruct (In_dec_node n (log x)) as [Hin|Hout].
  - rewrite clear_list_cleared by assumption. symmetry. apply X1; assumption.
  - rewrite (clear_list_inside g (log x) (cache x) (log x)); [apply X2; assumption|intros; assumption| |assumption].
    intros c p Hc Hp Hpl. destruct (In_dec_node c (log x)) as [Hcin|Hcout]; [assumption|exfalso].
    rewrite (X2 c Hcout) in Hc. apply (Hwf c p Hc Hp). apply X1; assumption.
Qed.

Lemma generate_pasted_empty : forall g fuel st0 targets sz ordered r,
  generate g fuel st0 targets sz ordered = Ok r ->
  topological g ordered -> g_pasted r = [].
Proof.
  intros g fuel st0 targets sz ordered r H Ht.
  destruct (generate_inv _ _ _ _ _ _ _ H) as [x [_ [Hp _]]].
  eapply plan_pasted_empty; eassumption.
Qed.

Lemma generate_partition : forall g fuel st0 targets sz ordered r,
  acyclic g -> precondition g st0 targets ->
  generate g fuel st0 targets sz ordered = Ok r ->
  valid_order g (g_calculated r) ordered ->
  concat (calc_blocks (g_actions r)) = ordered /\
  NoDup (concat (calc_blocks (g_actions r))) /\
  (forall n, depends g st0 targets n <-> In n (concat (calc_blocks (g_actions r)))) /\
  (forall n, count_occ Nat.eq_dec (concat (calc_blocks (g_actions r))) n =
             if in_dec Nat.eq_dec n (concat (calc_blocks (g_actions r))) then 1 else 0) /\
  (forall n p, In n (concat (calc_blocks (g_actions r))) -> In p (preds g n) ->
               depends g st0 targets p -> calc_before (g_actions r) p n).
Proof.
  intros g fuel st0 targets sz ordered r Hac Hpre H [[Hnd Hto] Hperm].
  destruct (generate_inv _ _ _ _ _ _ _ H) as [x [Hx [Hp [Hc _]]]].
  destruct (trace_spec g fuel st0 _ x Hac Hx) as [_ [_ Hneed]].
  pose proof (plan_partition _ _ _ _ _ _ _ Hp) as Hcat.
  assert (Hdep : forall n, depends g st0 targets n <-> In n ordered).
  { intros n. rewrite Hperm, Hc, Hneed. split; [apply depends_needed; assumption|apply needed_depends]. }
  rewrite Hcat.
  split; [reflexivity|]. split; [assumption|]. split; [assumption|]. split.
  - intros n. destruct (in_dec Nat.eq_dec n ordered) as [Hin|Hout].
    + apply NoDup_count_occ'; assumption.
    + apply count_occ_not_In; assumption.
  - intros n p Hn Hpn Hdp. unfold calc_before. rewrite Hcat. intros l1 l2 Hl.
    eapply Hto; [exact Hl|assumption|apply Hdep; assumption].
Qed.

(** executing the generated actions right after generate_actions *)
Lemma generate_execute : forall g fuel fuel' st0 targets sz ordered r x,
  acyclic g -> wf_state g st0 ->
  generate g fuel st0 targets sz ordered = Ok r ->
  valid_order g (g_calculated r) ordered ->
  execute g fuel' (g_actions r) (mkxs (g_state r) []) = Ok x ->
  log x = ordered /\
  (forall n, ~ In n ordered -> cache x n = st0 n) /\
  (forall n, In n ordered -> In n (calc_targets st0 targets) -> cache x n = Some Input) /\
  (forall n, In n ordered -> ~ In n (calc_targets st0 targets) -> cache x n = None).
Proof.
  intros g fuel fuel' st0 targets sz ordered r x Hac Hwf H Hvo Hx.
  pose proof (generate_run_hyps _ _ _ _ _ _ _ Hac Hwf H Hvo) as Hrun.
  destruct (generate_inv _ _ _ _ _ _ _ H) as [x1 [_ [Hp _]]].
  eapply (exec_plan_result g st0 (calc_targets st0 targets) ordered sz fuel fuel' (g_pasted r) (g_actions r)
            (mkxs (g_state r) []) x Hrun); [reflexivity| |exact Hp|exact Hx].
  intros n; cbn [cache]. eapply generate_clean; eassumption.
Qed.

Lemma no_recompute : forall g fuel fuel' st0 targets sz ordered r x,
  acyclic g -> wf_state g st0 ->
  generate g fuel st0 targets sz ordered = Ok r ->
  valid_order g (g_calculated r) ordered ->
  execute g fuel' (g_actions r) (mkxs (g_state r) []) = Ok x ->
  log x = concat (calc_blocks (g_actions r)) /\ NoDup (log x) /\
  forall n, count_occ Nat.eq_dec (log x) n <= 1.
Proof.
  intros g fuel fuel' st0 targets sz ordered r x Hac Hwf H Hvo Hx.
  destruct (generate_execute _ _ _ _ _ _ _ _ _ Hac Hwf H Hvo Hx) as [Hl _].
  destruct (generate_inv _ _ _ _ _ _ _ H) as [x1 [_ [Hp _]]].
  pose proof (plan_partition _ _ _ _ _ _ _ Hp) as Hcat.
  destruct Hvo as [[Hnd _] _].
  rewrite Hl, Hcat. split; [reflexivity|]. split; [assumption|].
  apply NoDup_count_occ. assumption.
Qed.

Lemma only_targets : forall g fuel fuel' st0 targets sz ordered r x,
  acyclic g -> wf_state g st0 -> precondition g st0 targets ->
  generate g fuel st0 targets sz ordered = Ok r ->
  valid_order g (g_calculated r) ordered ->
  execute g fuel' (g_actions r) (mkxs (g_state r) []) = Ok x ->
  (forall n, In n targets -> cache x n = Some Input) /\
  (forall n, ~ In n targets -> cache x n = st0 n) /\
  (forall n, ~ In n targets -> depends g st0 targets n -> cache x n = None).
Proof.
  intros g fuel fuel' st0 targets sz ordered r x Hac Hwf Hpre H Hvo Hx.
  destruct (generate_execute _ _ _ _ _ _ _ _ _ Hac Hwf H Hvo Hx) as [_ [Hout [Hin Hclr]]].
  pose proof (generate_run_hyps _ _ _ _ _ _ _ Hac Hwf H Hvo) as [_ [Hfresh _]].
  destruct (generate_inv _ _ _ _ _ _ _ H) as [x1 [Hx1 [_ [Hc _]]]].
  destruct (trace_spec g fuel st0 _ x1 Hac Hx1) as [_ [_ Hneed]].
  destruct Hvo as [_ Hperm]. rewrite Hc in Hperm.
  assert (Hnt : forall n, ~ In n targets -> cache x n = st0 n).
  { intros n Hn. destruct (In_dec_node n ordered) as [Ho|Ho]; [|apply Hout; assumption].
    rewrite (Hfresh n Ho). apply Hclr; [assumption|].
    intros Hct. apply in_calc_targets in Hct. tauto. }
  split; [|split; [assumption|]].
  - intros n Hn. destruct (st0 n) as [[|]|] eqn:E.
    + (* already an input: untouched *)
      assert (Ho : ~ In n ordered) by (intros Ho; apply Hfresh in Ho; congruence).
      rewrite (Hout n Ho). assumption.
    + exfalso. assert (Hd : depends g st0 targets n) by (apply dep_target; [assumption|congruence]).
      apply Hpre in Hd. congruence.
    + assert (Hct : In n (calc_targets st0 targets)) by (apply in_calc_targets; split; [assumption|congruence]).
      apply Hin; [|assumption]. apply Hperm, Hneed. apply need_root; assumption.
  - intros n Hn Hd. rewrite (Hnt n Hn). apply Hpre; assumption.
Qed.

(** ** termination (so that the hypotheses [... = Ok _] are not vacuous) *)
Lemma eval_terminates : forall g (rank : node -> nat),
  (forall n p, In p (preds g n) -> rank p < rank n) ->
  forall fuel n x, rank n < fuel -> exists x', eval g fuel n x = Ok x'.
Proof.
  intros g rank Hr fuel; induction fuel as [|f IH]; intros n x Hlt; [lia|].
  cbn [eval]. destruct (cache x n); [eexists; reflexivity|].
  assert (Hfold : forall ps x0, (forall p, In p ps -> rank p < f) -> exists x', fold_res (eval g f) ps x0 = Ok x').
  { intros ps; induction ps as [|p t IHt]; intros x0 Hps; [eexists; reflexivity|].
    cbn [fold_res]. destruct (IH p x0 (Hps p (or_introl eq_refl))) as [x1 E]. rewrite E.
    apply IHt. intros q Hq; apply Hps; right; assumption. }
  destruct (Hfold (preds g n) (mkxs (cache x) (log x ++ [n]))) as [x' E].
  { intros p Hp. pose proof (Hr n p Hp). lia. }
  rewrite E. eexists; reflexivity.
Qed.

Lemma fold_eval_terminates : forall g (rank : node -> nat),
  (forall n p, In p (preds g n) -> rank p < rank n) ->
  forall fuel ns x, (forall n, In n ns -> rank n < fuel) -> exists x', fold_res (eval g fuel) ns x = Ok x'.
Proof.
  intros g rank Hr fuel ns; induction ns as [|n t IH]; intros x Hns; [eexists; reflexivity|].
  cbn [fold_res]. destruct (eval_terminates g rank Hr fuel n x (Hns n (or_introl eq_refl))) as [x1 E]. rewrite E.
  apply IH. intros q Hq; apply Hns; right; assumption.
Qed.

Lemma generate_terminates : forall g st0 targets sz ordered,
  acyclic g -> 1 <= sz ->
  exists fuel0, forall fuel, fuel0 <= fuel -> exists r, generate g fuel st0 targets sz ordered = Ok r.
Proof.
  intros g st0 targets sz ordered [rank Hr] Hsz.
  exists (S (list_max (map rank targets)) + List.length ordered). intros fuel Hf.
  unfold generate.
  destruct (fold_eval_terminates g rank Hr fuel (filter (fun t => negb (is_input st0 t)) targets) (mkxs st0 [])) as [x E].
  { intros n Hn. apply filter_In in Hn. destruct Hn as [Hn _].
    assert (rank n <= list_max (map rank targets)); [|lia].
    pose proof (list_max_le (map rank targets) (list_max (map rank targets))) as [Hle _].
    specialize (Hle (Nat.le_refl _)). rewrite Forall_forall in Hle. apply Hle. apply in_map; assumption. }
  rewrite E.
  destruct (plan_terminates g (filter (fun t => negb (is_input st0 t)) targets) ordered sz fuel Hsz) as [[p a] Ep]; [lia|].
  rewrite Ep. eexists; reflexivity.
Qed.
