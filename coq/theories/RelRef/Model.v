(** Relative / absolute references (property C10).  Definitions only.

    Code modelled (modelx/core):
      model.py:1019-1055   _get_shared_part / get_shared_asc / get_shared_desc / has_parent / trim_*
      model.py:1142-1175   SpaceGraph.get_relative
      model.py:1295-1310   SharedSpaceOperations.get_relative_interface
      reference.py:80-108  ReferenceImpl.on_inherit (per refmode)
      model.py:1461-1533   SpaceManager.new_ref / change_ref / _check_subs_relrefs
      space.py:1836-1881   UserSpaceImpl.on_inherit (attr = own_refs): first *defined* base in MRO order
      space.py:126-167     DynBaseRefDict.wrap_impl (ItemSpaces)

    Names are paths ([list string]) = [idstr.split(".")]; the model object is [[]].
    The C3 order is an input: a [table] maps a space to its bases in MRO order
    ([space.bases], i.e. [get_mro(node)[1:]]); the tie feeds the observed one.

    IDEAL model (harness/README.md): the places where the pinned tree differs are
    marked "defect" and listed in findings.d/C10.txt. *)
From Coq Require Import List String Ascii Bool Arith.
From MX Require Import Base.Paths.
Import ListNotations.
Open Scope list_scope.

Definition path := list string.

Fixpoint path_eqb (a b : path) : bool :=
  match a, b with
  | [], [] => true
  | x :: a', y :: b' => String.eqb x y && path_eqb a' b'
  | _, _ => false
  end.

Fixpoint memb (x : path) (l : list path) : bool :=
  match l with
  | [] => false
  | y :: t => path_eqb x y || memb x t
  end.

Fixpoint lpath_eqb (a b : list path) : bool :=
  match a, b with
  | [], [] => true
  | x :: a', y :: b' => path_eqb x y && lpath_eqb a' b'
  | _, _ => false
  end.

Inductive mode := Auto | Relative | Absolute.

Definition mode_eqb (a b : mode) : bool :=
  match a, b with
  | Auto, Auto | Relative, Relative | Absolute, Absolute => true
  | _, _ => false
  end.

(** ---- path algebra -------------------------------------------------------- *)

(** longest common prefix: [_get_shared_part(a, b, from_left=True)] ([[]] = None) *)
Fixpoint lcp (a b : path) : path :=
  match a, b with
  | x :: a', y :: b' => if String.eqb x y then x :: lcp a' b' else []
  | _, _ => []
  end.

(** longest common suffix: [_get_shared_part(a, b, from_left=False)] *)
Definition lcsuf (a b : path) : path := rev (lcp (rev a) (rev b)).

(** [Some s] iff [l = p ++ s] *)
Fixpoint strip_prefix (p l : path) : option path :=
  match p, l with
  | [], _ => Some l
  | x :: p', y :: l' => if String.eqb x y then strip_prefix p' l' else None
  | _ :: _, [] => None
  end.

Definition is_prefix (p l : path) : bool :=
  match strip_prefix p l with Some _ => true | None => false end.

(** [trim_right(node, k)] *)
Definition trim_right (l : path) (k : nat) : path := firstn (List.length l - k) l.

(** ---- the C3 order as data ------------------------------------------------ *)

Definition table := list (path * list path).

Fixpoint mro_of (t : table) (s : path) : list path :=
  match t with
  | [] => []
  | (k, v) :: r => if path_eqb k s then v else mro_of r s
  end.

(** [basroot in self.get_mro(subroot)]; [get_mro n] starts with [n] itself *)
Definition inmro (t : table) (s b : path) : bool :=
  path_eqb s b || memb b (mro_of t s).

(** ---- SpaceGraph.get_relative ---------------------------------------------- *)

(** the [while True] loop: structurally bounded by [shared_desc];
    [None] = [RuntimeError("must not happen")] *)
Fixpoint find_roots (im : path -> path -> bool) (subroot basroot desc : path)
  : option (path * path) :=
  if im subroot basroot then Some (subroot, basroot)
  else match desc with
       | [] => None
       | n :: d => find_roots im (subroot ++ [n]) (basroot ++ [n]) d
       end.

Definition roots (im : path -> path -> bool) (sub bas : path) : option (path * path) :=
  let desc := lcsuf sub bas in
  let d := List.length desc in
  find_roots im (trim_right sub d) (trim_right bas d) desc.

Inductive gr := GSome (p : path) | GNone | GFail.

(** the rule once the roots are known *)
Definition get_relative_at (subroot basroot value : path) : option path :=
  match strip_prefix basroot value with
  | Some s => Some (subroot ++ s)
  | None => None
  end.

(** [SpaceGraph.get_relative(subspace, basespace, basevalue)], line by line.
    (defect "suffix_root": the code computes the roots on dotted strings and
    [".".join("".split(".") + [n])] is [".n"], so it fails when one of
    sub / bas is a suffix of the other; the model works on lists.) *)
Definition get_relative (im : path -> path -> bool) (sub bas value : path) : gr :=
  let shared_parent := lcp bas value in
  match shared_parent with
  | [] => GNone
  | _ :: _ =>
      match roots im sub bas with
      | None => GFail
      | Some (sr, br) =>
          if is_prefix br shared_parent     (* basroot == shared_parent or has_parent(shared_parent, basroot) *)
          then GSome (sr ++ skipn (List.length br) value)
          else GNone
      end
  end.

(** ---- ReferenceImpl.on_inherit -------------------------------------------- *)

Inductive bind :=
| NoRef
| Def (m : mode) (t : path)                (* defined in the space itself *)
| Der (m : mode) (t : path) (rel : bool)   (* derived: mode, bound object, is_relative *)
| ErrScope                                 (* ValueError "Relative reference ... out of scope" *)
| ErrBroken.                               (* RuntimeError "must not happen" *)

Definition on_inherit (im : path -> path -> bool) (m : mode) (deriver definer target : path) : bind :=
  match m with
  | Absolute => Der Absolute target false
  | _ =>
      match get_relative im deriver definer target with
      | GFail => ErrBroken
      | GSome p => Der m p true
      | GNone => match m with Auto => Der Auto target false | _ => ErrScope end
      end
  end.

(** the specification in the words of the property *)
Definition rebind (m : mode) (definer target deriver : path) : path :=
  match m with
  | Absolute => target
  | _ => match strip_prefix definer target with
         | Some s => deriver ++ s
         | None => target
         end
  end.

(** ---- ItemSpaces: DynBaseRefDict.wrap_impl (ideal: component-wise prefix) -- *)

Inductive dbind :=
| DStatic (p : path)      (* the static object [p] *)
| DDyn (rest : path)      (* the object [rest] below the ItemSpace (rest = [[]]: the ItemSpace) *)
| DErrScope               (* ValueError "... is out of ..." *)
| DNone.                  (* no such reference / static binding failed *)

Definition dyn_bind (m : mode) (root target : path) : dbind :=
  match m with
  | Absolute => DStatic target
  | _ => match strip_prefix root target with
         | Some s => DDyn s
         | None => match m with Auto => DStatic target | _ => DErrScope end
         end
  end.

(** ---- defined references, from-scratch derivation --------------------------- *)

Record dref := { d_space : path; d_name : string; d_mode : mode; d_target : path }.
Definition defs := list dref.

Definition key_eqb (sp : path) (n : string) (d : dref) : bool :=
  path_eqb (d_space d) sp && String.eqb (d_name d) n.

Fixpoint find_def (ds : defs) (sp : path) (n : string) : option (mode * path) :=
  match ds with
  | [] => None
  | d :: r => if key_eqb sp n d then Some (d_mode d, d_target d) else find_def r sp n
  end.

Definition del_def (ds : defs) (sp : path) (n : string) : defs :=
  filter (fun d => negb (key_eqb sp n d)) ds.

Definition set_def (ds : defs) (sp : path) (n : string) (m : mode) (t : path) : defs :=
  {| d_space := sp; d_name := n; d_mode := m; d_target := t |} :: del_def ds sp n.

(** first defined base in MRO order: [bs = [bm[name] for bm in maps if ... is_defined()]; bs[0]] *)
Fixpoint first_definer (ds : defs) (bases : list path) (n : string) : option (path * mode * path) :=
  match bases with
  | [] => None
  | b :: r => match find_def ds b n with
              | Some (m, tg) => Some (b, m, tg)
              | None => first_definer ds r n
              end
  end.

(** what a space that does not define [n] holds for [n] *)
Definition derive (t : table) (ds : defs) (sp : path) (n : string) : bind :=
  match first_definer ds (mro_of t sp) n with
  | Some (b, m, tg) => on_inherit (inmro t) m sp b tg
  | None => NoRef
  end.

(** the binding of [n] in [sp], a function of (defined refs, C3 table) only *)
Definition binding (t : table) (ds : defs) (sp : path) (n : string) : bind :=
  match find_def ds sp n with
  | Some (m, tg) => Def m tg
  | None => derive t ds sp n
  end.

Definition bind_target (b : bind) : option (mode * path) :=
  match b with
  | Def m t => Some (m, t)
  | Der m t _ => Some (m, t)
  | _ => None
  end.

(** reference [n] seen in the dynamic space [item.q] of the ItemSpace of [root]
    (its static counterpart is [root ++ q]) *)
Definition dyn_of (b : bind) (root : path) : dbind :=
  match bind_target b with
  | Some (m, tg) => dyn_bind m root tg
  | None => DNone
  end.

Definition dyn_binding (t : table) (ds : defs) (root q : path) (n : string) : dbind :=
  dyn_of (binding t ds (root ++ q) n) root.

(** ---- incremental state: what the library stores, updated edit by edit ------ *)

Definition dermap := list (path * string * bind).

Fixpoint get_der (d : dermap) (sp : path) (n : string) : bind :=
  match d with
  | [] => NoRef
  | (s, k, b) :: r => if path_eqb s sp && String.eqb k n then b else get_der r sp n
  end.

Record state := { s_tbl : table; s_defs : defs; s_der : dermap }.

Definition init : state := {| s_tbl := []; s_defs := []; s_der := [] |}.

(** observable binding in the incremental state *)
Definition lookup (st : state) (sp : path) (n : string) : bind :=
  match find_def (s_defs st) sp n with
  | Some (m, tg) => Def m tg
  | None => get_der (s_der st) sp n
  end.

Inductive op :=
| GraphOp (sp : path) (t' : table)     (* new_space / add_bases / remove_bases on [sp]; [t'] = C3 table afterwards *)
| SetRef (sp : path) (n : string) (m : mode) (tg : path)   (* new_ref / change_ref / set_ref *)
| DelRef (sp : path) (n : string).

(** all prefixes of a path, the empty one included *)
Fixpoint prefixes (s : path) : list path :=
  match s with
  | [] => [[]]
  | x :: r => [] :: map (cons x) (prefixes r)
  end.

Definition touched (t t' : table) (sp q : path) : bool :=
  path_eqb q sp || memb sp (mro_of t q) || memb sp (mro_of t' q).

(** spaces whose derived references are recomputed by a graph edit of [sp]:
    [sp], its old and new sub spaces, and every space nested in one of them
    (defect "stale_outer_root": the code only visits the sub spaces) *)
Definition affected_g (t t' : table) (sp s : path) : bool :=
  existsb (touched t t' sp) (prefixes s).

Definition rows (t : table) : list path := map fst t.

(** a graph edit of [sp] changes the C3 order of [sp] and its sub spaces only *)
Definition wf_graphop (t t' : table) (sp : path) : bool :=
  forallb (fun q => touched t t' sp q || lpath_eqb (mro_of t' q) (mro_of t q))
          ([] :: rows t ++ rows t').

Fixpoint names_of (ds : defs) : list string :=
  match ds with
  | [] => []
  | d :: r => d_name d :: names_of r
  end.

Definition is_err (b : bind) : bool :=
  match b with ErrScope | ErrBroken => true | _ => false end.

(** recompute [(s, n)] for every [s] in [ss] and [n] in [ns] *)
Definition recompute (t : table) (ds : defs) (ss : list path) (ns : list string) (d : dermap) : dermap :=
  flat_map (fun s => map (fun n => (s, n, derive t ds s n)) ns) ss ++ d.

(** a space that defines the name itself derives nothing for it *)
Definition any_err (t : table) (ds : defs) (ss : list path) (ns : list string) : bool :=
  existsb (fun s => existsb (fun n => is_err (binding t ds s n)) ns) ss.

Definition subs_of (t : table) (sp : path) : list path :=
  filter (fun s => memb sp (mro_of t s)) (rows t).

(** one edit; the flag tells whether it was accepted (a rejected edit changes nothing) *)
Definition step (st : state) (o : op) : state * bool :=
  match o with
  | GraphOp sp t' =>
      let t := s_tbl st in
      if wf_graphop t t' sp then
        let ss := filter (affected_g t t' sp) (rows t ++ rows t') in
        let ns := names_of (s_defs st) in
        if any_err t' (s_defs st) ss ns then (st, false)
        else ({| s_tbl := t'; s_defs := s_defs st;
                 s_der := recompute t' (s_defs st) ss ns (s_der st) |}, true)
      else (st, false)
  | SetRef sp n m tg =>
      let ds' := set_def (s_defs st) sp n m tg in
      let ss := subs_of (s_tbl st) sp in
      if any_err (s_tbl st) ds' ss [n] then (st, false)
      else ({| s_tbl := s_tbl st; s_defs := ds';
               s_der := recompute (s_tbl st) ds' ss [n] (s_der st) |}, true)
  | DelRef sp n =>
      let ds' := del_def (s_defs st) sp n in
      let ss := subs_of (s_tbl st) sp in
      if any_err (s_tbl st) ds' ss [n] then (st, false)
      else ({| s_tbl := s_tbl st; s_defs := ds';
               s_der := recompute (s_tbl st) ds' ss [n] (s_der st) |}, true)
  end.

Definition run (ops : list op) (st : state) : state :=
  fold_left (fun s o => fst (step s o)) ops st.

(** accepted flags of a history *)
Fixpoint run_flags (ops : list op) (st : state) : list bool :=
  match ops with
  | [] => []
  | o :: r => let (st', ok) := step st o in ok :: run_flags r st'
  end.

(** ---- comparison functions for the correspondence check ---------------------- *)

Definition to_path (s : string) : path :=
  if String.eqb s EmptyString then [] else split_dot s.

Definition gr_eqb (a b : gr) : bool :=
  match a, b with
  | GSome p, GSome q => path_eqb p q
  | GNone, GNone | GFail, GFail => true
  | _, _ => false
  end.

Definition bind_eqb (a b : bind) : bool :=
  match a, b with
  | NoRef, NoRef | ErrScope, ErrScope | ErrBroken, ErrBroken => true
  | Def m t, Def m' t' => mode_eqb m m' && path_eqb t t'
  | Der m t r, Der m' t' r' => mode_eqb m m' && path_eqb t t' && Bool.eqb r r'
  | _, _ => false
  end.

Definition dbind_eqb (a b : dbind) : bool :=
  match a, b with
  | DStatic p, DStatic q => path_eqb p q
  | DDyn p, DDyn q => path_eqb p q
  | DErrScope, DErrScope | DNone, DNone => true
  | _, _ => false
  end.

Fixpoint lbool_eqb (a b : list bool) : bool :=
  match a, b with
  | [], [] => true
  | x :: a', y :: b' => Bool.eqb x y && lbool_eqb a' b'
  | _, _ => false
  end.

(** (T1) one direct call of SpaceGraph.get_relative: table, sub, bas, value (dotted) and the result *)
Definition check_getrel (c : table * string * string * string * gr) : bool :=
  match c with
  | (t, sub, bas, value, r) =>
      gr_eqb (get_relative (inmro t) (to_path sub) (to_path bas) (to_path value)) r
  end.

(** (T2) a history on the library: edits with their observed acceptance, then
    observed static bindings and observed ItemSpace bindings.  An ItemSpace
    observation is (root, created?, entries): when the ItemSpace could be
    created every entry must agree; when its creation raised the scope error
    some reference of the dynamic tree must be out of scope in the model. *)
Definition check_dyn (st : state) (o : path * bool * list (path * string * dbind)) : bool :=
  match o with
  | (root, ok, es) =>
      if ok
      then forallb (fun e => match e with (q, n, b) =>
                      dbind_eqb (dyn_of (lookup st (root ++ q) n) root) b end) es
      else existsb (fun e => match e with (q, n, _) =>
                      dbind_eqb (dyn_of (lookup st (root ++ q) n) root) DErrScope end) es
  end.

Definition check_history
  (c : list (op * bool) * list (path * string * bind) * list (path * bool * list (path * string * dbind))) : bool :=
  match c with
  | (ops, obs, dobs) =>
      let st := run (map fst ops) init in
      lbool_eqb (run_flags (map fst ops) init) (map snd ops)
      && forallb (fun o => match o with (sp, n, b) => bind_eqb (lookup st sp n) b end) obs
      && forallb (check_dyn st) dobs
  end.
