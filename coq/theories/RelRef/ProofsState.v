(** The incremental state (what each edit recomputes) always equals the
    from-scratch derivation [binding] of (defined refs, C3 table). *)
From Coq Require Import List String Ascii Bool Arith Lia.
From MX Require Import RelRef.Model RelRef.Proofs.
Import ListNotations.
Open Scope list_scope.

Definition Inv (st : state) : Prop :=
  forall sp n, get_der (s_der st) sp n = derive (s_tbl st) (s_defs st) sp n.

(** ---- the stored map ---------------------------------------------------------- *)

Lemma get_der_app_miss l d sp n :
  (forall s k b, In (s, k, b) l -> s = sp -> k = n -> False) ->
  get_der (l ++ d) sp n = get_der d sp n.
Proof.
  induction l as [|[[s k] b] l IH]; intros H; simpl; [reflexivity|].
  destruct (path_eqb s sp && String.eqb k n) eqn:E.
  - apply andb_true_iff in E as [E1 E2]. apply path_eqb_eq in E1. apply String.eqb_eq in E2.
    exfalso. apply (H s k b); simpl; auto.
  - apply IH. intros s' k' b' Hin. apply (H s' k' b'). simpl. auto.
Qed.

Lemma get_der_app_hit l d sp n v :
  (forall b, In (sp, n, b) l -> b = v) -> (exists b, In (sp, n, b) l) ->
  get_der (l ++ d) sp n = v.
Proof.
  induction l as [|[[s k] b] l IH]; intros H [b0 Hb0]; simpl; [destruct Hb0|].
  destruct (path_eqb s sp && String.eqb k n) eqn:E.
  - apply andb_true_iff in E as [E1 E2]. apply path_eqb_eq in E1. apply String.eqb_eq in E2.
    subst. apply H. simpl. auto.
  - apply IH.
    + intros b' Hin. apply H. simpl. auto.
    + destruct Hb0 as [Hb0|Hb0]; [|eauto].
      injection Hb0 as -> -> ->. rewrite path_eqb_refl, String.eqb_refl in E. discriminate.
Qed.

Lemma in_recompute_list t ds ss ns s k b :
  In (s, k, b) (flat_map (fun s => map (fun n => (s, n, derive t ds s n)) ns) ss) <->
  In s ss /\ In k ns /\ b = derive t ds s k.
Proof.
  rewrite in_flat_map. split.
  - intros (s' & Hs & Hm). apply in_map_iff in Hm as (n' & E & Hn). injection E as -> -> <-. auto.
  - intros (Hs & Hk & ->). exists s. split; [assumption|]. apply in_map_iff. eauto.
Qed.

Lemma get_der_recompute t ds ss ns d sp n :
  get_der (recompute t ds ss ns d) sp n =
    if in_dec path_dec sp ss then
      if in_dec string_dec n ns then derive t ds sp n else get_der d sp n
    else get_der d sp n.
Proof.
  unfold recompute.
  destruct (in_dec path_dec sp ss) as [Hs|Hs]; [destruct (in_dec string_dec n ns) as [Hn|Hn]|].
  - apply get_der_app_hit.
    + intros b Hin. apply in_recompute_list in Hin. tauto.
    + exists (derive t ds sp n). apply in_recompute_list. auto.
  - apply get_der_app_miss. intros s k b Hin -> ->. apply in_recompute_list in Hin. tauto.
  - apply get_der_app_miss. intros s k b Hin -> ->. apply in_recompute_list in Hin. tauto.
Qed.

(** ---- defined references ---------------------------------------------------------- *)

Lemma key_eqb_true sp n d : key_eqb sp n d = true <-> d_space d = sp /\ d_name d = n.
Proof. unfold key_eqb. rewrite andb_true_iff, path_eqb_eq, String.eqb_eq. tauto. Qed.

Lemma find_def_del_other ds sp0 n0 sp n :
  (sp = sp0 -> n = n0 -> False) -> find_def (del_def ds sp0 n0) sp n = find_def ds sp n.
Proof.
  intros H. induction ds as [|d r IH]; simpl; [reflexivity|].
  destruct (key_eqb sp0 n0 d) eqn:E0; simpl.
  - apply key_eqb_true in E0 as [E1 E2].
    destruct (key_eqb sp n d) eqn:E; [|exact IH].
    apply key_eqb_true in E as [E3 E4]. exfalso. apply H; congruence.
  - destruct (key_eqb sp n d); [reflexivity|exact IH].
Qed.

Lemma find_def_set_other ds sp0 n0 m tg sp n :
  (sp = sp0 -> n = n0 -> False) -> find_def (set_def ds sp0 n0 m tg) sp n = find_def ds sp n.
Proof.
  intros H. unfold set_def. simpl.
  destruct (key_eqb sp n _) eqn:E.
  - apply key_eqb_true in E as [E1 E2]. simpl in *. exfalso. apply H; congruence.
  - apply find_def_del_other. exact H.
Qed.

Lemma find_def_names ds sp n v : find_def ds sp n = Some v -> In n (names_of ds).
Proof.
  induction ds as [|d r IH]; simpl; [discriminate|].
  destruct (key_eqb sp n d) eqn:E.
  - apply key_eqb_true in E as [_ E]. auto.
  - auto.
Qed.

Lemma first_definer_names ds bs n v : first_definer ds bs n = Some v -> In n (names_of ds).
Proof.
  induction bs as [|b r IH]; simpl; [discriminate|].
  destruct (find_def ds b n) as [[m tg]|] eqn:E; [|exact IH].
  intros _. eapply find_def_names; eauto.
Qed.

Lemma first_definer_ext ds1 ds2 bs n :
  (forall b, In b bs -> find_def ds1 b n = find_def ds2 b n) ->
  first_definer ds1 bs n = first_definer ds2 bs n.
Proof.
  induction bs as [|b r IH]; intros H; simpl; [reflexivity|].
  rewrite (H b) by (simpl; auto). destruct (find_def ds2 b n) as [[m tg]|]; [reflexivity|].
  apply IH. intros b' Hb. apply H. simpl. auto.
Qed.

Lemma derive_no_name t ds sp n : ~ In n (names_of ds) -> derive t ds sp n = NoRef.
Proof.
  intros H. unfold derive. destruct (first_definer ds (mro_of t sp) n) as [[[b m] tg]|] eqn:E;
    [|reflexivity]. apply first_definer_names in E. contradiction.
Qed.

(** ---- the C3 table ----------------------------------------------------------------- *)

Lemma mro_of_norow t s : ~ In s (rows t) -> mro_of t s = [].
Proof.
  induction t as [|[k v] r IH]; simpl; [reflexivity|]. intros H.
  destruct (path_eqb k s) eqn:E.
  - apply path_eqb_eq in E. subst. exfalso. auto.
  - apply IH. auto.
Qed.

Lemma derive_norow t ds sp n : ~ In sp (rows t) -> derive t ds sp n = NoRef.
Proof. intros H. unfold derive. rewrite (mro_of_norow _ _ H). reflexivity. Qed.

Lemma in_prefixes q s : In q (prefixes s) <-> exists r, s = q ++ r.
Proof.
  revert q; induction s as [|x s IH]; intros q; simpl.
  - split.
    + intros [<-|[]]. exists []. reflexivity.
    + intros [r Hr]. destruct q; [auto|discriminate].
  - split.
    + intros [<-|H]; [exists (x :: s); reflexivity|].
      apply in_map_iff in H as (q' & <- & Hq). apply IH in Hq as [r ->]. exists r. reflexivity.
    + intros [r Hr]. destruct q as [|y q]; [auto|]. right. simpl in Hr. injection Hr as <- ->.
      apply in_map_iff. exists q. split; [reflexivity|]. apply IH. eauto.
Qed.

Lemma wf_graphop_spec t t' sp :
  wf_graphop t t' sp = true ->
  forall q, touched t t' sp q = false -> mro_of t' q = mro_of t q.
Proof.
  unfold wf_graphop. intros H q Hq. rewrite forallb_forall in H.
  destruct (in_dec path_dec q ([] :: rows t ++ rows t')) as [Hin|Hin].
  - specialize (H q Hin). rewrite Hq in H. simpl in H. apply lpath_eqb_eq. exact H.
  - rewrite !mro_of_norow; [reflexivity| |]; intros Hr; apply Hin; simpl; right;
      apply in_or_app; auto.
Qed.

(** the derived binding of [sp] depends on the C3 table only through the rows
    of the prefixes of [sp] *)
Lemma derive_table_ext t t' ds sp n :
  (forall q r, sp = q ++ r -> mro_of t' q = mro_of t q) ->
  derive t' ds sp n = derive t ds sp n.
Proof.
  intros H. unfold derive. rewrite (H sp [] (eq_sym (app_nil_r sp))).
  destruct (first_definer ds (mro_of t sp) n) as [[[b m] tg]|]; [|reflexivity].
  unfold on_inherit. destruct m; try reflexivity;
    rewrite (get_relative_ext (inmro t') (inmro t)); try reflexivity;
    intros q r b0 Hq; unfold inmro; rewrite (H q r Hq); reflexivity.
Qed.

(** ---- the invariant --------------------------------------------------------------- *)

Lemma Inv_init : Inv init.
Proof. intros sp n. reflexivity. Qed.

Lemma Inv_graphop st sp t' : Inv st -> Inv (fst (step st (GraphOp sp t'))).
Proof.
  intros HI. simpl. destruct (wf_graphop (s_tbl st) t' sp) eqn:Hwf; [|exact HI].
  destruct (any_err _ _ _ _); [exact HI|]. simpl.
  intros s n. simpl. rewrite get_der_recompute.
  set (t := s_tbl st) in *. set (ds := s_defs st) in *.
  assert (Hsame : ~ In s (filter (affected_g t t' sp) (rows t ++ rows t')) ->
                  derive t' ds s n = derive t ds s n).
  { intros Hn. rewrite filter_In in Hn.
    destruct (in_dec path_dec s (rows t ++ rows t')) as [Hr|Hr].
    - assert (Ha : affected_g t t' sp s = false).
      { destruct (affected_g t t' sp s); [exfalso; auto|reflexivity]. }
      apply derive_table_ext. intros q r Hq.
      apply (wf_graphop_spec _ _ _ Hwf).
      unfold affected_g in Ha.
      destruct (touched t t' sp q) eqn:Et; [|reflexivity].
      assert (existsb (touched t t' sp) (prefixes s) = true).
      { apply existsb_exists. exists q. split; [|exact Et]. apply in_prefixes. eauto. }
      congruence.
    - rewrite !derive_norow; [reflexivity| |]; intros Hx; apply Hr; apply in_or_app; auto. }
  destruct (in_dec path_dec s _) as [Hs|Hs].
  - destruct (in_dec string_dec n (names_of ds)) as [Hn|Hn]; [reflexivity|].
    rewrite HI. fold t ds. rewrite !derive_no_name by assumption. reflexivity.
  - rewrite HI. fold t ds. symmetry. apply Hsame. exact Hs.
Qed.

Lemma derive_defs_ext t ds ds' sp n :
  (forall b, In b (mro_of t sp) -> find_def ds' b n = find_def ds b n) ->
  derive t ds' sp n = derive t ds sp n.
Proof. intros H. unfold derive. rewrite (first_definer_ext ds' ds _ _ H). reflexivity. Qed.

Lemma Inv_defs_edit st ds' sp0 n0 :
  Inv st ->
  (forall sp n, (sp = sp0 -> n = n0 -> False) -> find_def ds' sp n = find_def (s_defs st) sp n) ->
  Inv {| s_tbl := s_tbl st; s_defs := ds';
         s_der := recompute (s_tbl st) ds' (subs_of (s_tbl st) sp0) [n0] (s_der st) |}.
Proof.
  intros HI Hother s n. simpl. rewrite get_der_recompute.
  set (t := s_tbl st) in *. set (ds := s_defs st) in *.
  assert (Hname : n <> n0 -> derive t ds' s n = derive t ds s n).
  { intros Hn. apply derive_defs_ext. intros b _. apply Hother. intros _ E. auto. }
  assert (Hsub : ~ In s (subs_of t sp0) -> derive t ds' s n = derive t ds s n).
  { intros Hn. unfold subs_of in Hn. rewrite filter_In in Hn.
    destruct (in_dec path_dec s (rows t)) as [Hr|Hr].
    - assert (Hm : ~ In sp0 (mro_of t s)).
      { intros Hx. apply Hn. split; [exact Hr|]. apply memb_In. exact Hx. }
      apply derive_defs_ext. intros b Hb. apply Hother. intros -> _. auto.
    - rewrite !derive_norow by assumption. reflexivity. }
  destruct (in_dec path_dec s _) as [Hs|Hs].
  - destruct (in_dec string_dec n [n0]) as [Hn|Hn]; [reflexivity|].
    rewrite HI. fold t ds. symmetry. apply Hname. intros ->. apply Hn. simpl. auto.
  - rewrite HI. fold t ds. symmetry. apply Hsub. exact Hs.
Qed.

Lemma Inv_step st o : Inv st -> Inv (fst (step st o)).
Proof.
  intros HI. destruct o as [sp t'|sp n m tg|sp n].
  - apply Inv_graphop. exact HI.
  - simpl. destruct (any_err _ _ _ _); [exact HI|]. simpl.
    apply Inv_defs_edit; [exact HI|]. intros sp' n' H. apply find_def_set_other. exact H.
  - simpl. destruct (any_err _ _ _ _); [exact HI|]. simpl.
    apply Inv_defs_edit; [exact HI|]. intros sp' n' H. apply find_def_del_other. exact H.
Qed.

Lemma Inv_run ops : forall st, Inv st -> Inv (run ops st).
Proof.
  induction ops as [|o r IH]; intros st HI; simpl; [exact HI|].
  apply IH. apply Inv_step. exact HI.
Qed.

Lemma lookup_binding st : Inv st ->
  forall sp n, lookup st sp n = binding (s_tbl st) (s_defs st) sp n.
Proof.
  intros HI sp n. unfold lookup, binding. destruct (find_def (s_defs st) sp n) as [[m tg]|];
    [reflexivity|apply HI].
Qed.

(** C10_stable *)
Theorem stable ops sp n :
  lookup (run ops init) sp n =
  binding (s_tbl (run ops init)) (s_defs (run ops init)) sp n.
Proof. apply lookup_binding. apply Inv_run. exact Inv_init. Qed.

(** bindings depend on the history only through (table, defined refs):
    two histories that end with the same C3 table and the same defined
    references (e.g. the live model and the one rebuilt by read_model) bind alike *)
Lemma binding_defs_ext t ds1 ds2 :
  (forall sp n, find_def ds1 sp n = find_def ds2 sp n) ->
  forall sp n, binding t ds1 sp n = binding t ds2 sp n.
Proof.
  intros H sp n. unfold binding. rewrite H. destruct (find_def ds2 sp n); [reflexivity|].
  apply derive_defs_ext. intros b _. apply H.
Qed.

Theorem history_independent ops1 ops2 :
  s_tbl (run ops1 init) = s_tbl (run ops2 init) ->
  (forall sp n, find_def (s_defs (run ops1 init)) sp n = find_def (s_defs (run ops2 init)) sp n) ->
  forall sp n, lookup (run ops1 init) sp n = lookup (run ops2 init) sp n.
Proof.
  intros Ht Hd sp n. rewrite !stable, Ht. apply binding_defs_ext. exact Hd.
Qed.

(** C10_idempotent: deriving again (a graph edit that leaves the C3 table as it
    is, e.g. add_bases followed by remove_bases, or a plain re-derivation)
    changes no binding *)
Theorem rederive_idempotent ops sp0 sp n :
  let st := run ops init in
  lookup (fst (step st (GraphOp sp0 (s_tbl st)))) sp n = lookup st sp n.
Proof.
  intros st.
  assert (HI : Inv st) by (apply Inv_run, Inv_init).
  pose proof (Inv_step st (GraphOp sp0 (s_tbl st)) HI) as HI'.
  rewrite (lookup_binding _ HI'), (lookup_binding _ HI).
  simpl. destruct (wf_graphop _ _ _); [|reflexivity].
  destruct (any_err _ _ _ _); reflexivity.
Qed.

(** a non-trivial instance of the hypotheses: Base.r -> Base.foo (auto),
    Sub(Base), Sub.C nested, ItemSpace of Sub *)
Example ex_state :
  let tB := [(["Base"%string], [])] in
  let tS := [(["Sub"%string], [["Base"%string]]); (["Base"%string], [])] in
  let ops := [GraphOp ["Base"%string] tB;
              SetRef ["Base"%string] "r"%string Auto ["Base"%string; "foo"%string];
              GraphOp ["Sub"%string] tS] in
  run_flags ops init = [true; true; true] /\
  lookup (run ops init) ["Sub"%string] "r"%string = Der Auto ["Sub"%string; "foo"%string] true /\
  dyn_of (lookup (run ops init) ["Sub"%string] "r"%string) ["Sub"%string] = DDyn ["foo"%string].
Proof. vm_compute. auto. Qed.
