(** Lemmas about the path algebra, [get_relative], [on_inherit], [dyn_bind]. *)
From Coq Require Import List String Ascii Bool Arith Lia.
From MX Require Import RelRef.Model.
Import ListNotations.
Open Scope list_scope.

(** ---- equality tests ------------------------------------------------------- *)

Lemma path_eqb_eq a b : path_eqb a b = true <-> a = b.
Proof.
  revert b; induction a as [|x a IH]; intros [|y b]; simpl; split; intros H;
    try reflexivity; try discriminate.
  - apply andb_true_iff in H as [H1 H2]. apply String.eqb_eq in H1. apply IH in H2. congruence.
  - injection H as -> ->. rewrite String.eqb_refl. simpl. apply IH. reflexivity.
Qed.

Lemma path_eqb_refl a : path_eqb a a = true.
Proof. apply path_eqb_eq. reflexivity. Qed.

Lemma path_eqb_neq a b : path_eqb a b = false <-> a <> b.
Proof.
  split.
  - intros H E. apply path_eqb_eq in E. congruence.
  - intros H. destruct (path_eqb a b) eqn:E; [|reflexivity]. apply path_eqb_eq in E. contradiction.
Qed.

Lemma memb_In x l : memb x l = true <-> In x l.
Proof.
  induction l as [|y t IH]; simpl.
  - split; [discriminate|tauto].
  - rewrite orb_true_iff, IH, path_eqb_eq. split; intros [H|H]; auto.
Qed.

Lemma lpath_eqb_eq a b : lpath_eqb a b = true <-> a = b.
Proof.
  revert b; induction a as [|x a IH]; intros [|y b]; simpl; split; intros H;
    try reflexivity; try discriminate.
  - apply andb_true_iff in H as [H1 H2]. apply path_eqb_eq in H1. apply IH in H2. congruence.
  - injection H as -> ->. rewrite path_eqb_refl. simpl. apply IH. reflexivity.
Qed.

Lemma path_dec (a b : path) : {a = b} + {a <> b}.
Proof. apply list_eq_dec, string_dec. Qed.

(** ---- prefixes --------------------------------------------------------------- *)

Lemma strip_prefix_app p s : strip_prefix p (p ++ s) = Some s.
Proof. induction p as [|x p IH]; simpl; [reflexivity|]. rewrite String.eqb_refl. exact IH. Qed.

Lemma strip_prefix_spec p l s : strip_prefix p l = Some s <-> l = p ++ s.
Proof.
  split.
  - revert l; induction p as [|x p IH]; intros l H; simpl in *.
    + congruence.
    + destruct l as [|y l]; [discriminate|].
      destruct (String.eqb x y) eqn:E; [|discriminate].
      apply String.eqb_eq in E. subst y. f_equal. apply IH. exact H.
  - intros ->. apply strip_prefix_app.
Qed.

Lemma strip_prefix_none p l : strip_prefix p l = None <-> forall s, l <> p ++ s.
Proof.
  split.
  - intros H s E. apply strip_prefix_spec in E. congruence.
  - intros H. destruct (strip_prefix p l) as [s|] eqn:E; [|reflexivity].
    apply strip_prefix_spec in E. destruct (H s E).
Qed.

Lemma is_prefix_spec p l : is_prefix p l = true <-> exists s, l = p ++ s.
Proof.
  unfold is_prefix. destruct (strip_prefix p l) as [s|] eqn:E.
  - apply strip_prefix_spec in E. split; eauto.
  - split; [discriminate|]. intros [s Hs]. apply strip_prefix_spec in Hs. congruence.
Qed.

Lemma is_prefix_false p l : is_prefix p l = false <-> forall s, l <> p ++ s.
Proof.
  unfold is_prefix. destruct (strip_prefix p l) as [s|] eqn:E.
  - apply strip_prefix_spec in E. split; [discriminate|]. intros H. destruct (H s E).
  - pose proof (proj1 (strip_prefix_none _ _) E) as E'. split; auto.
Qed.

Lemma skipn_app_exact {A} (p s : list A) : skipn (List.length p) (p ++ s) = s.
Proof. induction p; simpl; auto. Qed.

Lemma firstn_app_exact {A} (p s : list A) : firstn (List.length p) (p ++ s) = p.
Proof. induction p; simpl; [destruct s; reflexivity|]. f_equal. assumption. Qed.

Lemma trim_right_app (x y : path) : trim_right (x ++ y) (List.length y) = x.
Proof.
  unfold trim_right. rewrite app_length.
  replace (List.length x + List.length y - List.length y) with (List.length x) by lia.
  apply firstn_app_exact.
Qed.

(** ---- longest common prefix / suffix ------------------------------------------ *)

Lemma lcp_app p a b : lcp (p ++ a) (p ++ b) = p ++ lcp a b.
Proof. induction p as [|x p IH]; simpl; [reflexivity|]. rewrite String.eqb_refl, IH. reflexivity. Qed.

Lemma lcp_prefix_l a b : exists r, a = lcp a b ++ r.
Proof.
  revert b; induction a as [|x a IH]; intros b; simpl.
  - exists []. reflexivity.
  - destruct b as [|y b]; [exists (x :: a); reflexivity|].
    destruct (String.eqb x y); [|exists (x :: a); reflexivity].
    destruct (IH b) as [r Hr]. exists r. simpl. congruence.
Qed.

Lemma lcp_prefix_r a b : exists r, b = lcp a b ++ r.
Proof.
  revert b; induction a as [|x a IH]; intros b; simpl.
  - exists b. reflexivity.
  - destruct b as [|y b]; [exists []; reflexivity|].
    destruct (String.eqb x y) eqn:E; [|exists (y :: b); reflexivity].
    apply String.eqb_eq in E. subst y.
    destruct (IH b) as [r Hr]. exists r. simpl. congruence.
Qed.

Lemma lcp_self_app a s : lcp a (a ++ s) = a.
Proof.
  rewrite <- (app_nil_r a) at 1. rewrite lcp_app. destruct s; simpl; apply app_nil_r.
Qed.

Lemma lcsuf_split a b :
  a = trim_right a (List.length (lcsuf a b)) ++ lcsuf a b /\
  b = trim_right b (List.length (lcsuf a b)) ++ lcsuf a b.
Proof.
  unfold lcsuf.
  destruct (lcp_prefix_l (rev a) (rev b)) as [ra Ha].
  destruct (lcp_prefix_r (rev a) (rev b)) as [rb Hb].
  set (l := lcp (rev a) (rev b)) in *.
  assert (Ea : a = rev ra ++ rev l).
  { rewrite <- rev_app_distr, <- Ha, rev_involutive. reflexivity. }
  assert (Eb : b = rev rb ++ rev l).
  { rewrite <- rev_app_distr, <- Hb, rev_involutive. reflexivity. }
  split.
  - rewrite Ea at 2. rewrite trim_right_app. exact Ea.
  - rewrite Eb at 2. rewrite trim_right_app. exact Eb.
Qed.

(** every common suffix is a suffix of the longest one *)
Lemma lcsuf_greatest x y c : exists d, lcsuf (x ++ c) (y ++ c) = d ++ c.
Proof.
  unfold lcsuf. rewrite !rev_app_distr, lcp_app, rev_app_distr, rev_involutive.
  eexists. reflexivity.
Qed.

(** ---- the roots loop -------------------------------------------------------------- *)

Lemma find_roots_some im desc : forall sr br sr' br',
  find_roots im sr br desc = Some (sr', br') ->
  exists d1 d2, desc = d1 ++ d2 /\ sr' = sr ++ d1 /\ br' = br ++ d1 /\ im sr' br' = true /\
    (forall e1 e2, desc = e1 ++ e2 -> List.length e1 < List.length d1 ->
                   im (sr ++ e1) (br ++ e1) = false).
Proof.
  induction desc as [|n d IH]; intros sr br sr' br' H; simpl in H.
  - destruct (im sr br) eqn:E; [|discriminate]. injection H as <- <-.
    exists [], []. rewrite !app_nil_r. repeat split; auto. simpl. intros; lia.
  - destruct (im sr br) eqn:E.
    + injection H as <- <-. exists [], (n :: d). rewrite !app_nil_r. repeat split; auto.
      simpl. intros; lia.
    + apply IH in H as (d1 & d2 & Hd & Hs & Hb & Him & Hmin).
      exists (n :: d1), d2. subst d. rewrite <- !app_assoc in *. simpl in *.
      repeat split; auto.
      intros e1 e2 He Hl. destruct e1 as [|n' e1].
      * rewrite !app_nil_r. exact E.
      * simpl in He. injection He as -> He. simpl in Hl.
        specialize (Hmin e1 e2 He ltac:(lia)).
        rewrite <- !app_assoc in Hmin. exact Hmin.
Qed.

Lemma find_roots_total im desc : forall sr br,
  im (sr ++ desc) (br ++ desc) = true -> find_roots im sr br desc <> None.
Proof.
  induction desc as [|n d IH]; intros sr br H; simpl.
  - rewrite !app_nil_r in H. rewrite H. discriminate.
  - destruct (im sr br); [discriminate|]. apply IH. rewrite <- !app_assoc. exact H.
Qed.

(** the roots chosen by [get_relative]: an aligned pair of ancestors (the same
    trailing names [rest] were cut from both), the base root is in the C3 order
    of the sub root, and it is the OUTERMOST such pair *)
Lemma roots_spec im sub bas sr br :
  roots im sub bas = Some (sr, br) ->
  exists rest, sub = sr ++ rest /\ bas = br ++ rest /\ im sr br = true /\
    (forall sr0 br0 rest0, sub = sr0 ++ rest0 -> bas = br0 ++ rest0 ->
       List.length sr0 < List.length sr -> im sr0 br0 = false).
Proof.
  unfold roots. intros H.
  destruct (lcsuf_split sub bas) as [Es Eb].
  set (desc := lcsuf sub bas) in *.
  set (ts := trim_right sub (List.length desc)) in *.
  set (tb := trim_right bas (List.length desc)) in *.
  apply find_roots_some in H as (d1 & d2 & Hd & Hs & Hb & Him & Hmin).
  exists d2. subst sr br. rewrite <- !app_assoc, <- Hd. repeat split; auto.
  intros sr0 br0 rest0 E1 E2 Hl.
  destruct (lcsuf_greatest sr0 br0 rest0) as [d Hdd]. rewrite <- E1, <- E2 in Hdd.
  fold desc in Hdd.
  assert (sr0 = ts ++ d).
  { rewrite Es in E1. rewrite Hdd, app_assoc in E1. apply app_inv_tail in E1. congruence. }
  assert (br0 = tb ++ d).
  { rewrite Eb in E2. rewrite Hdd, app_assoc in E2. apply app_inv_tail in E2. congruence. }
  subst sr0 br0. apply (Hmin d rest0 Hdd). rewrite !app_length in Hl. lia.
Qed.

Lemma roots_total im sub bas :
  im sub bas = true -> exists sr br, roots im sub bas = Some (sr, br).
Proof.
  intros H. unfold roots.
  destruct (lcsuf_split sub bas) as [Es Eb].
  set (desc := lcsuf sub bas) in *.
  destruct (find_roots im (trim_right sub (List.length desc)) (trim_right bas (List.length desc)) desc)
    as [[sr br]|] eqn:E; [eauto|].
  exfalso. revert E. apply find_roots_total. rewrite <- Es, <- Eb. exact H.
Qed.

(** [find_roots] only asks [im] about prefixes of the deriving space *)
Lemma find_roots_ext im1 im2 desc : forall sr br,
  (forall e1 e2 b, desc = e1 ++ e2 -> im1 (sr ++ e1) b = im2 (sr ++ e1) b) ->
  find_roots im1 sr br desc = find_roots im2 sr br desc.
Proof.
  induction desc as [|n d IH]; intros sr br H; simpl.
  - pose proof (H [] [] br eq_refl) as H0. rewrite app_nil_r in H0. rewrite <- H0. reflexivity.
  - pose proof (H [] (n :: d) br eq_refl) as H0. rewrite app_nil_r in H0. rewrite <- H0.
    destruct (im1 sr br); [reflexivity|]. apply IH.
    intros e1 e2 b He. rewrite <- app_assoc. simpl. apply (H (n :: e1) e2). simpl. congruence.
Qed.

Lemma roots_ext im1 im2 sub bas :
  (forall q r b, sub = q ++ r -> im1 q b = im2 q b) ->
  roots im1 sub bas = roots im2 sub bas.
Proof.
  intros H. unfold roots.
  destruct (lcsuf_split sub bas) as [Es _].
  set (desc := lcsuf sub bas) in *.
  apply find_roots_ext. intros e1 e2 b He. apply (H _ e2).
  rewrite Es at 1. rewrite He, app_assoc. reflexivity.
Qed.

Lemma get_relative_ext im1 im2 sub bas value :
  (forall q r b, sub = q ++ r -> im1 q b = im2 q b) ->
  get_relative im1 sub bas value = get_relative im2 sub bas value.
Proof. intros H. unfold get_relative. rewrite (roots_ext im1 im2 sub bas H). reflexivity. Qed.

(** ---- get_relative ------------------------------------------------------------------ *)

Lemma is_prefix_lcp br rest value :
  is_prefix br (lcp (br ++ rest) value) = is_prefix br value.
Proof.
  destruct (is_prefix br value) eqn:E.
  - apply is_prefix_spec in E as [s ->]. rewrite lcp_app. apply is_prefix_spec. eauto.
  - apply is_prefix_false. intros s Hs. pose proof (proj1 (is_prefix_false _ _) E) as E'.
    destruct (lcp_prefix_r (br ++ rest) value) as [r Hr]. rewrite Hs, <- app_assoc in Hr.
    apply (E' _ Hr).
Qed.

(** main computation lemma: once the roots are known, [get_relative] is the
    prefix rule at the roots *)
Lemma get_relative_roots im sub bas value sr br :
  roots im sub bas = Some (sr, br) -> br <> [] ->
  get_relative im sub bas value =
    match get_relative_at sr br value with Some p => GSome p | None => GNone end.
Proof.
  intros Hr Hne. destruct (roots_spec _ _ _ _ _ Hr) as (rest & Es & Eb & _ & _).
  unfold get_relative, get_relative_at. rewrite Hr.
  destruct (strip_prefix br value) as [s|] eqn:E.
  - apply strip_prefix_spec in E. subst value bas. rewrite lcp_app.
    destruct br as [|x br]; [congruence|]. simpl app at 1. cbv iota.
    replace (is_prefix (x :: br) ((x :: br) ++ lcp rest s)) with true
      by (symmetry; apply is_prefix_spec; eauto).
    rewrite skipn_app_exact. reflexivity.
  - destruct (lcp bas value) as [|y l] eqn:El; [reflexivity|].
    rewrite <- El. subst bas. rewrite is_prefix_lcp.
    unfold is_prefix. rewrite E. reflexivity.
Qed.

Lemma get_relative_fail im sub bas value :
  get_relative im sub bas value = GFail <-> (lcp bas value <> [] /\ roots im sub bas = None).
Proof.
  unfold get_relative. destruct (lcp bas value) as [|y l].
  - split; [discriminate|]. intros [H _]. congruence.
  - destruct (roots im sub bas) as [[sr br]|].
    + destruct (is_prefix br (y :: l)); split; try discriminate; intros [_ H]; discriminate.
    + split; auto. split; [discriminate|reflexivity].
Qed.

(** C10_get_relative_char *)
Lemma get_relative_char im sub bas sr br :
  roots im sub bas = Some (sr, br) -> br <> [] ->
  forall value,
    (forall p, get_relative im sub bas value = GSome p <-> exists s, value = br ++ s /\ p = sr ++ s) /\
    (get_relative im sub bas value = GNone <-> forall s, value <> br ++ s) /\
    get_relative im sub bas value <> GFail.
Proof.
  intros Hr Hne value. rewrite (get_relative_roots _ _ _ _ _ _ Hr Hne).
  unfold get_relative_at. destruct (strip_prefix br value) as [s|] eqn:E.
  - apply strip_prefix_spec in E. subst value. repeat split; try discriminate.
    + intros H. injection H as <-. eauto.
    + intros (s' & E1 & ->). apply app_inv_head in E1. subst. reflexivity.
    + intros H. destruct (H s eq_refl).
  - pose proof (proj1 (strip_prefix_none _ _) E) as Hn. repeat split; try discriminate; auto.
    intros (s & E1 & _). destruct (Hn s E1).
Qed.

(** ---- on_inherit ------------------------------------------------------------------------ *)

Lemma on_inherit_roots im m sub bas tg sr br :
  roots im sub bas = Some (sr, br) -> br <> [] ->
  on_inherit im m sub bas tg =
    match m with
    | Absolute => Der Absolute tg false
    | _ => match strip_prefix br tg with
           | Some s => Der m (sr ++ s) true
           | None => match m with Auto => Der Auto tg false | _ => ErrScope end
           end
    end.
Proof.
  intros Hr Hne. unfold on_inherit. rewrite (get_relative_roots _ _ _ _ _ _ Hr Hne).
  unfold get_relative_at. destruct m; try reflexivity; destruct (strip_prefix br tg); reflexivity.
Qed.

(** C10_static: target inside the definer's tree, whatever roots are chosen *)
Lemma static_inside im m deriver definer s :
  m <> Absolute -> definer <> [] -> im deriver definer = true ->
  on_inherit im m deriver definer (definer ++ s) = Der m (deriver ++ s) true.
Proof.
  intros Hm Hne Him.
  destruct (roots_total im deriver definer Him) as (sr & br & Hr).
  destruct (roots_spec _ _ _ _ _ Hr) as (rest & Es & Eb & _ & _).
  assert (G : get_relative im deriver definer (definer ++ s) = GSome (deriver ++ s)).
  { unfold get_relative. rewrite lcp_self_app, Hr.
    destruct definer as [|x df]; [congruence|].
    replace (is_prefix br (x :: df)) with true by (symmetry; apply is_prefix_spec; eauto).
    rewrite Eb, <- app_assoc, skipn_app_exact, Es, <- app_assoc. reflexivity. }
  unfold on_inherit. rewrite G. destruct m; try reflexivity. congruence.
Qed.

Lemma rebind_inside m definer deriver s :
  m <> Absolute -> rebind m definer (definer ++ s) deriver = deriver ++ s.
Proof. intros H. unfold rebind. rewrite strip_prefix_app. destruct m; congruence. Qed.

Lemma static_rebind im m deriver definer tg :
  m <> Absolute -> definer <> [] -> im deriver definer = true -> is_prefix definer tg = true ->
  on_inherit im m deriver definer tg = Der m (rebind m definer tg deriver) true.
Proof.
  intros Hm Hne Him Hp. apply is_prefix_spec in Hp as [s ->].
  rewrite rebind_inside by assumption. apply static_inside; assumption.
Qed.

(** a chain of derivations binds like the single derivation from the definer *)
Lemma static_chain im m d0 d1 d2 s :
  m <> Absolute -> d0 <> [] -> d1 <> [] ->
  im d1 d0 = true -> im d2 d1 = true -> im d2 d0 = true ->
  exists t1, on_inherit im m d1 d0 (d0 ++ s) = Der m t1 true /\
             on_inherit im m d2 d1 t1 = on_inherit im m d2 d0 (d0 ++ s).
Proof.
  intros Hm H0 H1 I10 I21 I20. exists (d1 ++ s). split.
  - apply static_inside; assumption.
  - rewrite !static_inside by assumption. reflexivity.
Qed.

Lemma rebind_chain_inside m d0 d1 d2 tg :
  is_prefix d0 tg = true -> rebind m d1 (rebind m d0 tg d1) d2 = rebind m d0 tg d2.
Proof.
  intros Hp. apply is_prefix_spec in Hp as [s ->]. destruct m; try reflexivity.
  - rewrite !rebind_inside by discriminate. reflexivity.
  - rewrite !rebind_inside by discriminate. reflexivity.
Qed.

Lemma rebind_chain_outside m d0 d1 d2 tg :
  is_prefix d0 tg = false -> is_prefix d1 tg = false ->
  rebind m d1 (rebind m d0 tg d1) d2 = rebind m d0 tg d2.
Proof.
  unfold is_prefix, rebind. intros H0 H1.
  destruct (strip_prefix d0 tg) eqn:E0; [discriminate|].
  destruct m; try reflexivity; destruct (strip_prefix d1 tg) eqn:E1; try discriminate; reflexivity.
Qed.

(** C10_absolute_or_outside *)
Lemma absolute_unchanged im deriver definer tg :
  on_inherit im Absolute deriver definer tg = Der Absolute tg false.
Proof. reflexivity. Qed.

Lemma outside_roots im sub bas tg sr br :
  roots im sub bas = Some (sr, br) -> br <> [] -> is_prefix br tg = false ->
  on_inherit im Auto sub bas tg = Der Auto tg false /\
  on_inherit im Relative sub bas tg = ErrScope.
Proof.
  intros Hr Hne Hp. rewrite !(on_inherit_roots _ _ _ _ _ _ _ Hr Hne).
  unfold is_prefix in Hp. destruct (strip_prefix br tg); [discriminate|]. split; reflexivity.
Qed.

(** when no outer pair of aligned ancestors is related by inheritance the roots
    are (deriver, definer) and the code is exactly the rule of the property text *)
Lemma simple_is_rebind im m deriver definer tg :
  roots im deriver definer = Some (deriver, definer) -> definer <> [] ->
  on_inherit im m deriver definer tg =
    match m with
    | Relative => if is_prefix definer tg then Der Relative (rebind Relative definer tg deriver) true
                  else ErrScope
    | _ => Der m (rebind m definer tg deriver) (negb (mode_eqb m Absolute) && is_prefix definer tg)
    end.
Proof.
  intros Hr Hne. rewrite (on_inherit_roots _ _ _ _ _ _ _ Hr Hne).
  unfold rebind, is_prefix. destruct m; simpl; try reflexivity;
    destruct (strip_prefix definer tg); reflexivity.
Qed.

(** whatever the roots are, a target outside the tree of the base root keeps
    denoting the original object = the rule of the text *)
Lemma outside_is_rebind im sub bas tg sr br :
  roots im sub bas = Some (sr, br) -> br <> [] -> is_prefix br tg = false ->
  on_inherit im Auto sub bas tg = Der Auto (rebind Auto bas tg sub) false.
Proof.
  intros Hr Hne Hp. destruct (outside_roots _ _ _ _ _ _ Hr Hne Hp) as [-> _].
  destruct (roots_spec _ _ _ _ _ Hr) as (rest & Es & Eb & _ & _).
  unfold rebind. destruct (strip_prefix bas tg) as [s|] eqn:E; [|reflexivity].
  apply strip_prefix_spec in E. pose proof (proj1 (is_prefix_false _ _) Hp (rest ++ s)) as Hp'.
  exfalso. apply Hp'. rewrite E, Eb, app_assoc. reflexivity.
Qed.

(** ---- ItemSpaces ---------------------------------------------------------------------------- *)

Lemma dyn_inside m root s : m <> Absolute -> dyn_bind m root (root ++ s) = DDyn s.
Proof. intros H. unfold dyn_bind. rewrite strip_prefix_app. destruct m; congruence. Qed.

Lemma dyn_outside root tg :
  is_prefix root tg = false ->
  dyn_bind Auto root tg = DStatic tg /\ dyn_bind Relative root tg = DErrScope.
Proof.
  unfold is_prefix, dyn_bind. destruct (strip_prefix root tg); [discriminate|]. auto.
Qed.

Lemma dyn_absolute root tg : dyn_bind Absolute root tg = DStatic tg.
Proof. reflexivity. Qed.

(** a reference the static counterpart [root ++ q] derives from [b], target inside
    [b]'s tree: the dynamic space binds the corresponding dynamic object *)
Lemma dyn_derived t ds root q n b m s :
  find_def ds (root ++ q) n = None ->
  first_definer ds (mro_of t (root ++ q)) n = Some (b, m, b ++ s) ->
  m <> Absolute -> b <> [] -> In b (mro_of t (root ++ q)) ->
  dyn_binding t ds root q n = DDyn (q ++ s).
Proof.
  intros Hd Hf Hm Hb Hin. unfold dyn_binding, dyn_of, binding, derive. rewrite Hd, Hf.
  rewrite static_inside; auto.
  - simpl. rewrite <- app_assoc. apply dyn_inside. exact Hm.
  - unfold inmro. apply orb_true_iff. right. apply memb_In. exact Hin.
Qed.

Lemma dyn_defined t ds root q n m tg :
  find_def ds (root ++ q) n = Some (m, tg) ->
  dyn_binding t ds root q n = dyn_bind m root tg.
Proof. intros Hd. unfold dyn_binding, dyn_of, binding. rewrite Hd. reflexivity. Qed.

(** ---- the hypotheses are satisfiable: tests/core/reference/relative/test_refmode.py ----
    A.B.C.foo ; D(A.B) ; D.C(A.B.C) *)
Open Scope string_scope.
Definition ex_tbl : table :=
  [ (["A"], []); (["A"; "B"], []); (["A"; "B"; "C"], []);
    (["D"], [["A"; "B"]]); (["D"; "C"], [["A"; "B"; "C"]]) ].

Example ex_roots_outer :
  roots (inmro ex_tbl) ["D"; "C"] ["A"; "B"; "C"] = Some (["D"], ["A"; "B"]).
Proof. reflexivity. Qed.

Example ex_roots_inner :   (* before D.add_bases(A.B) *)
  roots (inmro [(["D"; "C"], [["A"; "B"; "C"]])]) ["D"; "C"] ["A"; "B"; "C"]
  = Some (["D"; "C"], ["A"; "B"; "C"]).
Proof. reflexivity. Qed.

Example ex_get_relative :
  get_relative (inmro ex_tbl) ["D"; "C"] ["A"; "B"; "C"] ["A"; "B"; "C"; "foo"] = GSome ["D"; "C"; "foo"]
  /\ get_relative (inmro ex_tbl) ["D"; "C"] ["A"; "B"; "C"] ["A"; "B"; "x"] = GSome ["D"; "x"]
  /\ get_relative (inmro ex_tbl) ["D"; "C"] ["A"; "B"; "C"] ["A"; "y"] = GNone
  /\ get_relative (inmro ex_tbl) ["D"; "C"] ["A"; "B"; "C"] ["Z"] = GNone
  /\ get_relative (inmro []) ["X"; "C"] ["C"] ["C"; "foo"] = GFail.
Proof. repeat split. Qed.

Example ex_on_inherit :
  on_inherit (inmro ex_tbl) Auto ["D"; "C"] ["A"; "B"; "C"] ["A"; "B"; "C"; "foo"] = Der Auto ["D"; "C"; "foo"] true
  /\ on_inherit (inmro ex_tbl) Relative ["D"] ["A"; "B"] ["A"] = ErrScope
  /\ on_inherit (inmro ex_tbl) Auto ["D"] ["A"; "B"] ["A"] = Der Auto ["A"] false
  /\ on_inherit (inmro ex_tbl) Absolute ["D"] ["A"; "B"] ["A"; "B"; "C"] = Der Absolute ["A"; "B"; "C"] false.
Proof. repeat split. Qed.

Example ex_dyn :
  dyn_bind Auto ["D"] ["D"; "C"; "foo"] = DDyn ["C"; "foo"]
  /\ dyn_bind Auto ["S"] ["S2"; "foo"] = DStatic ["S2"; "foo"]     (* D15: the code tests "S" == "S2.foo"[:1] *)
  /\ dyn_bind Relative ["A"; "B"] ["A"] = DErrScope
  /\ dyn_bind Absolute ["D"] ["D"; "C"] = DStatic ["D"; "C"].
Proof. repeat split. Qed.

Close Scope string_scope.
Lemma rebind_chain m d0 d1 d2 tg :
  (is_prefix d0 tg = true \/ (is_prefix d0 tg = false /\ is_prefix d1 tg = false)) ->
  rebind m d1 (rebind m d0 tg d1) d2 = rebind m d0 tg d2.
Proof.
  intros [Hi|[H0 H1]]; [apply rebind_chain_inside|apply rebind_chain_outside]; assumption.
Qed.

Lemma dynamic_rule m root s tg :
  (m <> Absolute -> dyn_bind m root (root ++ s) = DDyn s) /\
  dyn_bind Absolute root tg = DStatic tg /\
  (is_prefix root tg = false ->
     dyn_bind Auto root tg = DStatic tg /\ dyn_bind Relative root tg = DErrScope).
Proof.
  split; [apply dyn_inside|]. split; [apply dyn_absolute|apply dyn_outside].
Qed.
