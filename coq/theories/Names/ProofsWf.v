(** Names: every accepted edit leaves the base relation acyclic, with a C3
    linearisation for every space (C11, second clause) *)
From Coq Require Import List String Ascii Bool Arith ZArith Lia.
From MX Require Import C3.Model C3.Proofs Names.Model Names.ProofsBase Names.ProofsNoop.
Import ListNotations.

Definition wf (st : state) : Prop := all_mro_ok (graph_of st) = true.

Lemma graph_upd_space st s f : (forall sd, s_bases (f sd) = s_bases sd) ->
  graph_of (upd_space st s f) = graph_of st.
Proof. intros H. unfold graph_of, upd_space. simpl. apply graph_upd, H. Qed.

Lemma graph_map l g :
  (forall e, fst (g e) = fst e /\ s_bases (snd (g e)) = s_bases (snd e)) ->
  graph_of_spaces (map g l) = graph_of_spaces l.
Proof.
  intros H. unfold graph_of_spaces. rewrite map_map. apply map_ext. intros e.
  destruct (H e) as [H1 H2]. rewrite H1, H2. reflexivity.
Qed.

Lemma wf_same_graph st st' : graph_of st' = graph_of st -> wf st -> wf st'.
Proof. unfold wf. intros ->. auto. Qed.

Lemma del_space_wf st p : wf st -> wf (snd (step_del_space st p)).
Proof.
  intros W. unfold step_del_space, reject. destruct (negb (all_mro_ok _)) eqn:E; simpl; [exact W|].
  apply negb_false_iff in E. exact E.
Qed.

Lemma step_wf st o : wf st ->
  (forall p new, o = RenameSpace p new -> wf (snd (step st o))) -> wf (snd (step st o)).
Proof.
  intros W RS. destruct o; simpl.
  - unfold step_new_space, reject.
    destruct (negb match parent with [] => true | _ :: _ => has_space st parent end); [exact W|].
    destruct (negb (forallb (has_space st) bases)); [exact W|].
    destruct (negb (can_add_space st parent name)) eqn:C; [exact W|].
    destruct (negb (is_valid_name name)); [exact W|].
    destruct (negb (all_mro_ok _)) eqn:M; [exact W|]. apply negb_false_iff in M.
    destruct (all_disjoint _); simpl; [exact M|].
    rewrite rollback_space; [exact W|]. apply can_add_space_fresh. apply negb_false_iff in C. exact C.
  - assert (A : forall f, wf (snd (auto_named_cells st s f))).
    { intros f0. unfold auto_named_cells, reject. destruct (next_free _ _ _) as [k|]; [|exact W].
      destruct (can_add_cells st s (cname k)); [|exact W]. simpl.
      eapply wf_same_graph; [|exact W]. unfold insert_cells.
      rewrite !graph_upd_space; auto. }
    assert (U : wf (snd (unnamed_cells st s f))).
    { unfold unnamed_cells, reject. destruct f as [|t|fn t|]; try apply A; [|exact W].
      destruct (is_valid_name fn); [|apply A]. destruct (can_add_cells st s fn); [|exact W]. simpl.
      eapply wf_same_graph; [|exact W]. unfold insert_cells. rewrite graph_upd_space; auto. }
    unfold step_new_cells, reject. destruct (negb (has_space st s)); [exact W|].
    destruct name as [n|]; [|simpl; exact U].
    destruct (negb (can_add_cells st s n)) eqn:C; [exact W|].
    destruct (is_valid_name n); [|exact U].
    destruct f; simpl;
      try (eapply wf_same_graph; [|exact W]; unfold insert_cells; rewrite !graph_upd_space; auto).
    rewrite rollback_cells; [exact W|]. apply can_add_cells_fresh. apply negb_false_iff in C. exact C.
  - unfold step_set_formula, reject. destruct (negb (has_space st s)); [exact W|].
    destruct (negb (has_cells st s n)); [exact W|].
    destruct f; simpl; try exact W; (eapply wf_same_graph; [|exact W]; rewrite graph_upd_space; auto).
  - unfold step_rename_cells, reject. destruct (negb (has_space st s)); [exact W|].
    destruct (negb (has_cells st s n)); [exact W|]. destruct (negb (is_valid_name new)); [exact W|].
    destruct (negb (can_rename_cells st s new)); [exact W|]. destruct (existsb _ _); [exact W|]. simpl.
    eapply wf_same_graph; [|exact W]. unfold graph_of. simpl. apply graph_map. intros e.
    destruct (path_eqb (fst e) s || memb (fst e) (subs st s)); simpl; auto.
  - apply (RS s new eq_refl).
  - unfold step_add_bases, reject. destruct (negb (has_space st s)); [exact W|].
    destruct (negb (forallb (has_space st) bs)); [exact W|]. destruct (existsb _ bs); [exact W|].
    destruct (negb (all_mro_ok _)) eqn:M; [exact W|]. apply negb_false_iff in M.
    destruct (negb (all_disjoint _)); [exact W|exact M].
  - unfold step_remove_bases, reject. destruct (negb (has_space st s)); [exact W|].
    destruct (negb (forallb (has_space st) bs)); [exact W|].
    destruct (remove_bases_seq _ bs); [|exact W].
    destruct (negb (all_mro_ok _)) eqn:M; [exact W|]. apply negb_false_iff in M. exact M.
  - unfold step_set_attr, reject, put_ref. destruct s as [|x t].
    + destruct (has_child st [] n); exact W.
    + destruct (negb (has_space st (x :: t))); [exact W|]. destruct (negb (is_valid_name n)); [exact W|].
      assert (P : wf (upd_space st (x :: t) (fun sd => with_refs (put_key n v (s_refs sd)) sd))).
      { eapply wf_same_graph; [|exact W]. rewrite graph_upd_space; auto. }
      destruct (has_ref st (x :: t) n); [exact P|].
      destruct (has_gref st n); [destruct (can_add_ref st (x :: t) n); [exact P|exact W]|].
      destruct (has_cells st (x :: t) n); [destruct v; exact W|].
      destruct (has_child st (x :: t) n); [exact W|].
      destruct (can_add_ref st (x :: t) n); [exact P|exact W].
  - unfold step_del_attr, reject. destruct s as [|x t].
    + destruct (has_child st [] n); [apply del_space_wf, W|].
      destruct (has_key n (st_grefs st)); exact W.
    + destruct (negb (has_space st (x :: t))); [exact W|].
      destruct (has_cells st (x :: t) n).
      { destruct (def_cells st (x :: t) n); [|exact W]. simpl.
        eapply wf_same_graph; [|exact W]. unfold delete_cells. rewrite graph_upd_space; auto. }
      destruct (has_child st (x :: t) n); [apply del_space_wf, W|].
      destruct (has_ref st (x :: t) n).
      { destruct (def_ref st (x :: t) n); [|exact W]. simpl.
        eapply wf_same_graph; [|exact W]. rewrite graph_upd_space; auto. }
      destruct (mem_str n sys_names || has_gref st n); exact W.
  - unfold step_set_params, reject. destruct (negb (has_space st s)); [exact W|].
    destruct (negb _); [exact W|]. simpl. eapply wf_same_graph; [|exact W]. rewrite graph_upd_space; auto.
Qed.

Lemma nodes_graph st : nodes (graph_of st) = keys st.
Proof. unfold nodes, graph_of, graph_of_spaces, keys. rewrite map_map. reflexivity. Qed.

Lemma bases_of_graph l p :
  bases_of (graph_of_spaces l) p = match get_space_in l p with Some s => s_bases s | None => [] end.
Proof.
  induction l as [|[k s] t IH]; simpl; [reflexivity|]. destruct (path_eqb k p); [reflexivity|apply IH].
Qed.

Lemma wf_mro st p : wf st -> has_space st p = true -> exists l, mro_of (graph_of st) p = Ok l.
Proof.
  unfold wf, all_mro_ok. intros W H. rewrite forallb_forall in W.
  specialize (W p). rewrite nodes_graph in W. apply memb_In in H. specialize (W H).
  destruct (mro_of (graph_of st) p); try discriminate. eauto.
Qed.

