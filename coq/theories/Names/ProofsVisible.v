(** Names: the visible namespace of a space equals its containers (C12, second clause) *)
From Coq Require Import List String Ascii Bool Arith ZArith Lia.
From MX Require Import C3.Model C3.Proofs Names.Model Names.ProofsBase Names.ProofsNoop Names.ProofsNames
  Names.ProofsWf Names.ProofsViews Names.ProofsUnique Names.ProofsUnique2 Names.ProofsInv.
Import ListNotations.

Lemma own_cells_names_def' st p n : In n (own_cells_names st p) -> def_cells st p n = true.
Proof.
  unfold def_cells, own_cells_names. destruct (get_space st p); [apply has_key_In|intros []].
Qed.

Lemma own_refs_names_def' st p n : In n (own_refs_names st p) -> def_ref st p n = true.
Proof.
  unfold def_ref, own_refs_names. destruct (get_space st p); [apply has_key_In|intros []].
Qed.

Lemma cells_names_iff st p n : In n (cells_names st p) <-> has_cells st p n = true.
Proof.
  split; [|apply cells_names_has]. unfold cells_names. intros H. apply in_app_or in H.
  apply has_cells_spec. destruct H as [H|H]; [left; apply own_cells_names_def', H|].
  apply in_flat_map in H. destruct H as (b & I & H). right. exists b. split; [exact I|apply own_cells_names_def', H].
Qed.

Lemma refs_names_iff st p n : In n (refs_names st p) <-> has_ref st p n = true.
Proof.
  split; [|apply refs_names_has]. unfold refs_names. intros H. apply in_app_or in H.
  apply has_ref_spec. destruct H as [H|H]; [left; apply own_refs_names_def', H|].
  apply in_flat_map in H. destruct H as (b & I & H). right. exists b. split; [exact I|apply own_refs_names_def', H].
Qed.

Lemma path_split q : q <> [] -> exists x, last_of q = Some x /\ q = (parent_of q ++ [x])%list.
Proof.
  induction q as [|y t IH]; [congruence|]. intros _. destruct t as [|z t'].
  - exists y. split; reflexivity.
  - destruct IH as (x & L & E); [discriminate|]. exists x. split; [exact L|].
    change (parent_of (y :: z :: t')) with (y :: parent_of (z :: t')). simpl app. f_equal. exact E.
Qed.

Lemma parent_last (p : path) n : parent_of (p ++ [n])%list = p /\ last_of (p ++ [n])%list = Some n.
Proof.
  induction p as [|y t [IH1 IH2]]; [split; reflexivity|]. simpl app.
  destruct (t ++ [n])%list as [|z t'] eqn:E; [destruct t; discriminate|].
  split.
  - change (parent_of (y :: z :: t')) with (y :: parent_of (z :: t')). rewrite IH1. reflexivity.
  - change (last_of (y :: z :: t')) with (last_of (z :: t')). exact IH2.
Qed.

Lemma child_names_iff st p n : In n (child_names st p) <-> has_child st p n = true.
Proof.
  unfold child_names, has_child, has_space. rewrite memb_In, in_flat_map. split.
  - intros (q & I & H). destruct q as [|y t]; [destruct H|].
    destruct (path_eqb (parent_of (y :: t)) p) eqn:E; [|destruct H]. apply path_eqb_eq in E.
    destruct (path_split (y :: t)) as (x & L & S); [discriminate|]. rewrite L in H.
    destruct H as [<-|[]]. rewrite <- E, <- S. exact I.
  - intros I. exists (p ++ [n])%list. split; [exact I|]. destruct (parent_last p n) as [P L].
    destruct (p ++ [n])%list as [|y t] eqn:E; [destruct p; discriminate|].
    rewrite P, path_eqb_refl, L. left. reflexivity.
Qed.

(** [dir(space)] lists exactly the names of the chained namespace: the cells,
    the references (own - defined or derived -, the special names, the
    model's, "__builtins__") and the child spaces.  Holds in every state. *)
Theorem visible_names st p n : In n (dir_names st p) <-> in_namespace st p n = true.
Proof.
  unfold dir_names, in_namespace, in_refs_chain, has_gref.
  rewrite !in_app_iff, !orb_true_iff, cells_names_iff, refs_names_iff, child_names_iff,
    mem_str_In, has_key_In, String.eqb_eq. simpl. intuition congruence.
Qed.

(** what a visible name denotes: the order of the chain decides *)
Theorem lookup_visible st p n : ns_lookup st p n <> None <-> in_namespace st p n = true.
Proof.
  unfold ns_lookup, in_namespace, in_refs_chain.
  destruct (has_cells st p n), (has_ref st p n), (mem_str n sys_names), (has_gref st n), (has_child st p n);
    simpl; split; congruence.
Qed.

Theorem lookup_kinds st p n :
  (ns_lookup st p n = Some KCells <-> has_cells st p n = true)
  /\ (ns_lookup st p n = Some KOwnRef <-> has_cells st p n = false /\ has_ref st p n = true)
  /\ (ns_lookup st p n = Some KGlobalRef <->
      has_cells st p n = false /\ has_ref st p n = false /\ mem_str n sys_names = false /\ has_gref st n = true)
  /\ (ns_lookup st p n = Some KSpace <->
      has_cells st p n = false /\ has_ref st p n = false /\ mem_str n sys_names = false /\ has_gref st n = false
      /\ has_child st p n = true).
Proof.
  unfold ns_lookup.
  destruct (has_cells st p n), (has_ref st p n), (mem_str n sys_names), (has_gref st n), (has_child st p n);
    simpl; repeat split; intros; try congruence; try tauto;
    repeat match goal with H : _ /\ _ |- _ => destruct H end; congruence.
Qed.

(** in a reachable state an own reference of a space (defined or derived)
    always wins over a model-level reference of the same name *)
Theorem own_ref_wins : forall h p n,
  let st := run h in
  has_space st p = true -> has_ref st p n = true -> ns_lookup st p n = Some KOwnRef.
Proof.
  intros h p n st Hp H. destruct (reachable_unique h) as [U _]. fold st in U.
  destruct (U p n Hp) as [U1 _]. unfold ns_lookup.
  destruct (has_cells st p n) eqn:E; [destruct (U1 eq_refl); congruence|]. rewrite H. reflexivity.
Qed.

(** the same for an ItemSpace [space[args]]: its dir() lists the cells, the
    parameters, the special names, the references of the base space, the
    model's references and the child spaces; a parameter hides a reference of
    that name, a cells hides a parameter *)
Theorem item_visible_names st p n : In n (item_dir_names st p) <-> item_in_namespace st p n = true.
Proof.
  unfold item_dir_names, item_in_namespace, in_refs_chain, has_gref.
  rewrite !in_app_iff, !orb_true_iff, cells_names_iff, refs_names_iff, child_names_iff,
    !mem_str_In, has_key_In, String.eqb_eq. simpl. intuition congruence.
Qed.

Theorem item_lookup_visible st p n : item_lookup st p n <> None <-> item_in_namespace st p n = true.
Proof.
  unfold item_lookup, item_in_namespace, in_refs_chain.
  destruct (has_cells st p n), (mem_str n (params_of st p)), (has_ref st p n), (mem_str n sys_names),
    (has_gref st n), (has_child st p n); simpl; split; congruence.
Qed.

Theorem item_param_wins st p n :
  has_cells st p n = false -> mem_str n (params_of st p) = true -> item_lookup st p n = Some KParam.
Proof. unfold item_lookup. intros -> ->. reflexivity. Qed.

Example item_example :
  let st := run [NewSpace [] "a" []; NewCells ["a"] (Some "x") (ALam 1%Z); SetAttr ["a"] "r" (Some 1%Z);
                 SetAttr [] "g" (Some 2%Z); SetParams ["a"] ["i"; "r"; "x"]] in
  map (item_lookup st ["a"]) ["x"; "r"; "i"; "g"; "_self"; "zz"]
  = [Some KCells; Some KParam; Some KParam; Some KGlobalRef; Some KSysRef; None]
  /\ fst (step st (SetParams ["a"] ["for"])) = Rejected BadFormula
  /\ fst (step st (SetParams ["a"] ["j"; "j"])) = Rejected BadFormula
  /\ params_of (snd (step st (SetParams ["a"] ["for"]))) ["a"] = ["i"; "r"; "x"].
Proof. repeat split; reflexivity. Qed.

Example visible_example :
  let st := run [NewSpace [] "a" []; NewCells ["a"] (Some "x") (ALam 1%Z); SetAttr ["a"] "r" (Some 1%Z);
                 NewSpace [] "b" [["a"]]; NewSpace ["b"] "k" []; SetAttr [] "g" (Some 2%Z);
                 SetAttr ["b"] "g" (Some 3%Z); SetAttr [] "x" None] in
  map (ns_lookup st ["b"]) ["x"; "r"; "g"; "_self"; "k"; "__builtins__"; "zz"]
  = [Some KCells; Some KOwnRef; Some KOwnRef; Some KSysRef; Some KSpace; Some KGlobalRef; None]
  /\ ns_lookup st ["a"] "g" = Some KGlobalRef.
Proof. split; reflexivity. Qed.
